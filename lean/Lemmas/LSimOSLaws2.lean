import Lemmas.LSimOSLaws1
/-!
  Lemmas/LSimOSLaws2.lean — `OpenFile`/`Create`/`Open`: frame and handle facts (the path is followed:
  hypothesis `AccF`).
-/
namespace BFS
namespace L
open MFS

section
variable {bk kk : Key}

theorem openFile_spec {m : MFS} (s : Side) {k : Key} (hr : Roots bk kk) (hg : OSGoodL bk kk m) (hk : PKey k)
    (hnl : NoLinkUpto m (osRoot bk kk s ++ k))
    {flag perm : Nat} {m' : MFS} {r : Except Err Handle}
    (h : m.openFile (kp (osRoot bk kk s ++ k)) flag perm = (m', r)) :
    OSGoodL bk kk m' ∧ EqOff m m' (osRoot bk kk s ++ k) ∧ LinkSub m m' ∧
    (∀ hd, r = .ok hd → hd.key = osRoot bk kk s ++ k ∧ hd.flag = flag) := by
  unfold MFS.openFile at h
  simp only at h
  rcases namei_below s hr hg hk hnl (!(hasFlag flag O_CREATE && hasFlag flag O_EXCL)) with
    ⟨n, hn, hnl', hres⟩ | ⟨hne, mt, hn, hp, hres⟩ | ⟨e, hne, hn, hp, hres, he⟩
  · rw [hres] at h
    simp only at h
    split at h
    · cases h
      exact ⟨hg, EqOff.refl _ _, LinkSub.refl _, fun _ e => by cases e⟩
    · cases n with
      | link t mt => cases hnl'
      | dir mt =>
        simp only at h
        split at h
        · cases h
          exact ⟨hg, EqOff.refl _ _, LinkSub.refl _, fun _ e => by cases e⟩
        · cases h
          exact ⟨hg, EqOff.refl _ _, LinkSub.refl _, fun _ e => by cases e; exact ⟨rfl, rfl⟩⟩
      | file c mt =>
        simp only at h
        split at h
        · cases h
          exact ⟨good_set_repl hg hn rfl (hg.mode _ (.file c mt) hn), EqOff.set _ _ _,
            LinkSub.set_nonlink _ _ (by intro t mt' e; cases e),
            fun _ e => by cases e; exact ⟨rfl, rfl⟩⟩
        · cases h
          exact ⟨hg, EqOff.refl _ _, LinkSub.refl _, fun _ e => by cases e; exact ⟨rfl, rfl⟩⟩
  · rw [hres] at h
    simp only at h
    split at h
    · cases h
      exact ⟨hg, EqOff.refl _ _, LinkSub.refl _, fun _ e => by cases e⟩
    · rw [dropLast_append_getLast' hne] at h
      cases h
      have hc := ((hr.pkey s).append hk).getLast hne
      have hnone : m.get ((osRoot bk kk s ++ k).dropLast ++ [(osRoot bk kk s ++ k).getLast hne]) = none := by
        rw [dropLast_append_getLast' hne]; exact hn
      have hgood := good_set_new (n' := .file "" ⟨(perm &&& 0o7777) &&& (0o7777 ^^^ m.umask), 0, (inheritGid m (osRoot bk kk s ++ k).dropLast).1, .fresh⟩)
        hg hp hc hnone (mode_and_lt _ _ _ (by decide))
      rw [dropLast_append_getLast' hne] at hgood
      exact ⟨good_touchDir hgood _, (EqOff.set _ _ _).touch _,
        (LinkSub.set_nonlink _ _ (by intro t mt' e; cases e)).touch _,
        fun _ e => by cases e; exact ⟨rfl, rfl⟩⟩
  · rw [hres] at h
    simp only at h
    cases h
    exact ⟨hg, EqOff.refl _ _, LinkSub.refl _, fun _ e => by cases e⟩

/-- frame and handle facts for any of the three opening calls, from the OS-level equation -/
theorem open_frame_aux {m m' : MFS} {s : Side} {k : Key} {flag perm : Nat} {r : Except Err Ret} (hr : Roots bk kk)
    (hg : OSGoodL bk kk m) (hk : PKey k) (hacc : AccF (osViewL bk kk s m) k)
    (h : ((m.openFile (kp (osRoot bk kk s ++ k)) flag perm).1,
          (m.openFile (kp (osRoot bk kk s ++ k)) flag perm).2.map (fun hd => Ret.handle { hd with name := PrefixFS.reportedName (kp (osRoot bk kk s)) (kp (osRoot bk kk s ++ k)) hd.name })) = (m', r)) :
    OSGoodL bk kk m' ∧ osViewL bk kk s.other m' = osViewL bk kk s.other m ∧
      (∀ j, j ≠ k → osViewL bk kk s m' j = osViewL bk kk s m j) ∧
      LinkMono (osViewL bk kk s m) (osViewL bk kk s m') ∧
      (∀ hd, r = .ok (.handle hd) → hd.key = osRoot bk kk s ++ k ∧ hd.flag = flag) := by
  obtain ⟨h1, h2⟩ := Prod.mk.inj h
  obtain ⟨g1, g2, gl, g3⟩ := openFile_spec s hr hg hk (noLinkUpto_of_view hg hacc) (flag := flag) (perm := perm) rfl
  subst h1
  obtain ⟨f1, f2, f3⟩ := frame_of hr g2 gl
  refine ⟨g1, f1, f2, f3, ?_⟩
  intro hd e
  rw [e] at h2
  obtain ⟨hd0, e0, e1⟩ := map_handle_ok h2
  obtain ⟨a, b⟩ := g3 hd0 e0
  rw [e1]
  exact ⟨a, b⟩

theorem os_openFile_frame {m m' : MFS} {s : Side} {k : Key} {flag perm : Nat} {r : Except Err Ret} (hr : Roots bk kk)
    (hg : OSGoodL bk kk m) (hk : PKey k) (hacc : AccF (osViewL bk kk s m) k)
    (h : ((osCfg bk kk).side s).call m (.openFile (kp k) flag perm) = (m', r)) :
    OSGoodL bk kk m' ∧ osViewL bk kk s.other m' = osViewL bk kk s.other m ∧
      (∀ j, j ≠ k → osViewL bk kk s m' j = osViewL bk kk s m j) ∧
      LinkMono (osViewL bk kk s m) (osViewL bk kk s m') ∧
      (∀ hd, r = .ok (.handle hd) → hd.key = osRoot bk kk s ++ k) := by
  rw [side_openFile s hr hk] at h
  obtain ⟨a, b, c, d, e⟩ := open_frame_aux hr hg hk hacc h
  exact ⟨a, b, c, d, fun hd e' => (e hd e').1⟩

theorem os_create_frame {m m' : MFS} {s : Side} {k : Key} {r : Except Err Ret} (hr : Roots bk kk)
    (hg : OSGoodL bk kk m) (hk : PKey k) (hacc : AccF (osViewL bk kk s m) k)
    (h : ((osCfg bk kk).side s).call m (.create (kp k)) = (m', r)) :
    OSGoodL bk kk m' ∧ osViewL bk kk s.other m' = osViewL bk kk s.other m ∧
      (∀ j, j ≠ k → osViewL bk kk s m' j = osViewL bk kk s m j) ∧
      LinkMono (osViewL bk kk s m) (osViewL bk kk s m') ∧
      (∀ hd, r = .ok (.handle hd) → hd.key = osRoot bk kk s ++ k ∧ hd.flag = wflags) := by
  rw [side_create s hr hk] at h
  exact open_frame_aux hr hg hk hacc h

theorem os_open_handle {m m' : MFS} {s : Side} {k : Key} {hd : Handle} (hr : Roots bk kk)
    (hg : OSGoodL bk kk m) (hk : PKey k) (hacc : AccF (osViewL bk kk s m) k)
    (h : ((osCfg bk kk).side s).call m (.open_ (kp k)) = (m', .ok (.handle hd))) :
    hd.key = osRoot bk kk s ++ k ∧ hd.flag = O_RDONLY := by
  rw [side_open s hr hk] at h
  exact (open_frame_aux hr hg hk hacc h).2.2.2.2 hd rfl

end
end L
end BFS
