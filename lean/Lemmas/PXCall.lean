import Lemmas.PXMut
/-!
  Lemmas/PXCall.lean — `MkdirAll` on two agreeing disks, and the two-disk law of one OS call with names
  at or below `pk` (`osCall_same`): same result, agreeing disks afterwards.
-/
namespace BFS
namespace PX
open MFS D

section
variable {pk : Key}

theorem stat_agree {m1 m2 : MFS} {t : Path} (hr : namei m1 t true = namei m2 t true) : m1.stat t = m2.stat t := by
  unfold MFS.stat; rw [hr]

theorem lstat_agree {m1 m2 : MFS} {t : Path} (hr : namei m1 t false = namei m2 t false) : m1.lstat t = m2.lstat t := by
  unfold MFS.lstat; rw [hr]

theorem readlink_agree {m1 m2 : MFS} {t : Path} (hr : namei m1 t false = namei m2 t false) :
    m1.readlink t = m2.readlink t := by
  unfold MFS.readlink; rw [hr]

theorem mkdirAllTail_same (hpk : PKey pk) {m1 m2 : MFS} (perm : Nat) (hd1 : PrefDirs pk m1) (hd2 : PrefDirs pk m2)
    (ht : Tame pk m1) (ha : Agree pk m1 m2) {x : Key} (hx : PKey x) {t : Path} (htx : TextOf t (pk ++ x)) :
    Same pk (mkdirAllTail m1 perm t) (mkdirAllTail m2 perm t) := by
  have ht2 := ha.get.tame ht
  obtain ⟨K, hK, hN⟩ := namei_inside hpk hd1 ht hx htx false
  obtain ⟨K2, _, hN2⟩ := namei_inside hpk hd2 ht2 hx htx false
  have hlive : (m1.get pk).isSome := by
    obtain ⟨mt, h⟩ := prefDirs_live hd1
    rw [h]; rfl
  have hmk := mkdir_same ha perm hK hlive (namei_agree hpk hd1 hd2 ht ha.get hx htx false) hN
  have e1 := mkdir_dirExt (m := m1) perm hN
  have e2 := mkdir_dirExt (m := m2) perm hN2
  unfold mkdirAllTail
  revert hmk e1 e2
  cases m1.mkdir t perm with
  | mk a1 r1 =>
    cases m2.mkdir t perm with
    | mk a2 r2 =>
      intro hmk e1 e2
      obtain ⟨hres, hag⟩ := hmk
      simp only at hres hag e1 e2
      subst hres
      cases r1 with
      | ok u => exact ⟨rfl, hag⟩
      | error e =>
        simp only
        rw [← lstat_agree (namei_agree hpk (e1.prefDirs hd1) (e2.prefDirs hd2) (e1.tame ht) hag.get hx htx false)]
        cases a1.lstat t with
        | error e' => exact ⟨rfl, hag⟩
        | ok i =>
          simp only
          apply same_ite <;> (intro _; exact ⟨rfl, hag⟩)

theorem mkdirAll_same (hpk : PKey pk) (perm : Nat) :
    ∀ (fuel : Nat) (x : Key) (t : Path) (m1 m2 : MFS),
      PrefDirs pk m1 → PrefDirs pk m2 → Tame pk m1 → Agree pk m1 m2 → PKey x → TextOf t (pk ++ x) →
      Same pk (m1.mkdirAll perm fuel t) (m2.mkdirAll perm fuel t) := by
  intro fuel
  induction fuel with
  | zero =>
    intro x t m1 m2 _ _ _ ha _ _
    simp only [MFS.mkdirAll]
    exact same_ret ha _
  | succ fuel ih =>
    intro x t m1 m2 hd1 hd2 ht ha hx htx
    have ht2 := ha.get.tame ht
    have hst2 := stat_agree (namei_agree hpk hd1 hd2 ht ha.get hx htx true)
    cases hst : m1.stat t with
    | ok i =>
      rw [mkdirAll_succ_ok m1 perm fuel t hst, mkdirAll_succ_ok m2 perm fuel t (hst2 ▸ hst)]
      apply same_ite <;> (intro _; exact same_ret ha _)
    | error e0 =>
      have hne : x ≠ [] := by
        intro e
        subst e
        rw [List.append_nil] at htx
        obtain ⟨mt, hm⟩ := prefDirs_live hd1
        have := namei_found m1 true hpk htx hm rfl (fun p hp _ => hd1 p hp)
        unfold MFS.stat at hst
        rw [this] at hst
        cases hst
      have hKne : pk ++ x ≠ [] := by simp [hne]
      have hpt := text_parent (hpk.append hx) hKne htx
      have hpl := parentText_length (pk ++ x)
      have htp : TextOf (parentText (pk ++ x)) (pk ++ x.dropLast) := by
        rw [← append_dropLast hne]; exact parentText_text
      rw [mkdirAll_succ_err m1 perm fuel t hst, mkdirAll_succ_err m2 perm fuel t (hst2 ▸ hst), hpt]
      simp only [hpl, if_true]
      have hrec := ih x.dropLast _ m1 m2 hd1 hd2 ht ha hx.dropLast htp
      have i1 := mkdirAll_inside hpk perm fuel x.dropLast _ m1 _ _ hd1 ht hx.dropLast htp rfl
      have i2 := mkdirAll_inside hpk perm fuel x.dropLast _ m2 _ _ hd2 ht2 hx.dropLast htp rfl
      revert hrec i1 i2
      cases m1.mkdirAll perm fuel (parentText (pk ++ x)) with
      | mk a1 r1 =>
        cases m2.mkdirAll perm fuel (parentText (pk ++ x)) with
        | mk a2 r2 =>
          intro hrec i1 i2
          obtain ⟨hres, hag⟩ := hrec
          simp only at hres hag i1 i2
          subst hres
          cases r1 with
          | error e => exact ⟨rfl, hag⟩
          | ok u => exact mkdirAllTail_same hpk perm i1.1 i2.1 i1.2.1 hag hx htx

theorem same_liftU {x y : MFS × Except Err Unit} (h : Same pk x y) :
    (liftU x).2 = (liftU y).2 ∧ Agree pk (liftU x).1 (liftU y).1 := by
  unfold liftU
  exact ⟨by rw [h.1], h.2⟩

/-- one OS call with names at or below `pk` on two agreeing disks: same result, agreeing disks -/
theorem osCall_same {m1 m2 : MFS} (hpk : PKey pk) (hd1 : PrefDirs pk m1) (hd2 : PrefDirs pk m2)
    (ht : Tame pk m1) (hs1 : DomSup m1) (hs2 : DomSup m2) (ha : Agree pk m1 m2) {c c' : Call}
    (hk : KeyCall pk c c') :
    (osCall m1 c').2 = (osCall m2 c').2 ∧ Agree pk (osCall m1 c').1 (osCall m2 c').1 := by
  have R : ∀ {x : Key}, PKey x → ∀ f, ∃ K, pk <+: K ∧ NC m1 K (namei m1 (kp (pk ++ x)) f) :=
    fun hx f => namei_inside hpk hd1 ht hx (TextOf.kp _) f
  have E : ∀ {x : Key}, PKey x → ∀ f, namei m1 (kp (pk ++ x)) f = namei m2 (kp (pk ++ x)) f :=
    fun hx f => namei_agree hpk hd1 hd2 ht ha.get hx (TextOf.kp _) f
  have hlive : (m1.get pk).isSome := by
    obtain ⟨mt, h⟩ := prefDirs_live hd1
    rw [h]; rfl
  have O : ∀ {x : Key}, PKey x → ∀ fl pm,
      ((m1.openFile (kp (pk ++ x)) fl pm).2.map Ret.handle = (m2.openFile (kp (pk ++ x)) fl pm).2.map Ret.handle) ∧
        Agree pk (m1.openFile (kp (pk ++ x)) fl pm).1 (m2.openFile (kp (pk ++ x)) fl pm).1 := by
    intro x hx fl pm
    obtain ⟨K, hK, hN⟩ := R hx _
    have := openFile_same ha fl pm hK hlive (E hx _) hN
    exact ⟨by rw [this.1], this.2⟩
  cases hk with
  | create n x hx _ => exact O hx _ _
  | mkdir n p x hx _ =>
    obtain ⟨K, hK, hN⟩ := R hx _
    exact same_liftU (mkdir_same ha p hK hlive (E hx _) hN)
  | mkdirAll n p x hx _ =>
    exact same_liftU (mkdirAll_same hpk p _ x _ m1 m2 hd1 hd2 ht ha hx (TextOf.kp _))
  | open_ n x hx _ => exact O hx _ _
  | openFile n f p x hx _ => exact O hx _ _
  | remove n x hx _ =>
    obtain ⟨K, hK, hN⟩ := R hx _
    exact same_liftU (remove_same ha hs1 hs2 hK (E hx _) hN)
  | removeAll n x hx _ =>
    obtain ⟨K, hK, hN⟩ := R hx _
    exact same_liftU (removeAll_same ha (E hx _) hN)
  | rename o n x y hx hy _ _ =>
    obtain ⟨Ko, hKo, hNo⟩ := R hx false
    obtain ⟨Kn, hKn, hNn⟩ := R hy false
    exact same_liftU (rename_same ha hKo (E hx _) (E hy _) hNo hNn)
  | stat n x hx _ =>
    exact ⟨by show (m1.stat _).map _ = (m2.stat _).map _; rw [stat_agree (E hx _)], ha⟩
  | chmod n md x hx _ =>
    obtain ⟨K, hK, hN⟩ := R hx _
    have := metaOp_same ha (fun n => n.setMeta { n.meta with mode := md &&& 0o7777 }) (E hx _) hN
    rw [← mfs_chmod_eq, ← mfs_chmod_eq] at this
    exact same_liftU this
  | chown n u g x hx _ =>
    obtain ⟨K, hK, hN⟩ := R hx _
    have := metaOp_same ha (chownF u g) (E hx _) hN
    rw [← mfs_chown_eq, ← mfs_chown_eq] at this
    exact same_liftU this
  | chtimes n a t x hx _ =>
    obtain ⟨K, hK, hN⟩ := R hx _
    have := metaOp_same ha (fun n => n.setMeta { n.meta with mtime := t }) (E hx _) hN
    rw [← mfs_chtimes_eq, ← mfs_chtimes_eq] at this
    exact same_liftU this
  | lstat n x hx _ =>
    exact ⟨by show (m1.lstat _).map _ = (m2.lstat _).map _; rw [lstat_agree (E hx _)], ha⟩
  | symlink o n o' x hx _ =>
    obtain ⟨K, hK, hN⟩ := R hx _
    exact same_liftU (symlink_same ha o' hK hlive (E hx _) hN)
  | readlink n x hx _ =>
    exact ⟨by show (m1.readlink _).map _ = (m2.readlink _).map _; rw [readlink_agree (E hx _)], ha⟩
  | lchown n u g x hx _ =>
    obtain ⟨K, hK, hN⟩ := R hx _
    have := metaOp_same ha (chownF u g) (E hx _) hN
    rw [← mfs_lchown_eq, ← mfs_lchown_eq] at this
    exact same_liftU this

end
end PX
end BFS
