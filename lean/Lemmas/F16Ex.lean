import Lemmas.F16Def
import Lemmas.LSimOS
/-!
  Lemmas/F16Ex.lean — disks given as association lists, and a decidable sufficient test for
  `L.OSGoodL` on them (used for the non-vacuity examples and counterexamples of Props/C16F.lean).
-/
namespace BFS
namespace F16
open MFS

/-- the disk holding exactly the listed entries (first occurrence wins) -/
def listDisk (l : List (Key × Node)) : MFS where
  get := fun k => l.lookup k
  dom := l.map Prod.fst
  umask := 0o022

theorem lookup_mem : ∀ {l : List (Key × Node)} {k : Key} {n : Node}, l.lookup k = some n → (k, n) ∈ l
  | [], _, _, h => by cases h
  | (q, y) :: l, k, n, h => by
    simp only [List.lookup] at h
    split at h
    · rename_i heq
      have : k = q := by simpa using heq
      cases h; subst this; simp
    · exact List.mem_cons_of_mem _ (lookup_mem h)

def goodEntry (l : List (Key × Node)) (e : Key × Node) : Bool :=
  decide (PKey e.1) && decide (e.2.meta.mode < 4096) && (e.1 == [] || isDirB (listDisk l) e.1.dropLast)

def goodB (bk kk : Key) (l : List (Key × Node)) : Bool :=
  l.all (goodEntry l) && isDirB (listDisk l) [] && isDirB (listDisk l) bk && isDirB (listDisk l) kk

theorem good_of_goodB {bk kk : Key} {l : List (Key × Node)} (h : goodB bk kk l = true) :
    L.OSGoodL bk kk (listDisk l) := by
  unfold goodB at h
  simp only [Bool.and_eq_true, List.all_eq_true] at h
  obtain ⟨⟨⟨hall, h0⟩, hb⟩, hk⟩ := h
  have entry : ∀ k n, (listDisk l).get k = some n → goodEntry l (k, n) = true :=
    fun k n hget => hall (k, n) (lookup_mem hget)
  refine ⟨isDirB_iff.mp h0, ?_, ?_, ?_, ?_, isDirB_iff.mp hb, isDirB_iff.mp hk⟩
  · intro k n hget
    have := entry k n hget
    unfold goodEntry at this
    simp only [Bool.and_eq_true, decide_eq_true_eq] at this
    exact this.1.1
  · intro k n hget
    have := lookup_mem hget
    exact List.mem_map.mpr ⟨(k, n), this, rfl⟩
  · intro k n hget
    have := entry k n hget
    unfold goodEntry at this
    simp only [Bool.and_eq_true, decide_eq_true_eq] at this
    exact this.1.2
  · intro k n hget hne
    have := entry k n hget
    unfold goodEntry at this
    simp only [Bool.and_eq_true, Bool.or_eq_true, beq_iff_eq] at this
    rcases this.2 with h1 | h1
    · exact absurd h1 hne
    · exact isDirB_iff.mp h1

/-- the metadata used in the examples -/
def exM : Meta := { mode := 0o755, uid := 0, gid := 0, mtime := .old 0 }

/-- what a resolution names: (parent directory key, final component) of the entry found or to be
created; `none` for an error -/
def parentName : Res → Option (Key × Name)
  | .found k _ => some (k.dropLast, k.getLast?.getD [])
  | .missing p n => some (p, n)
  | .err _ => none

def errOf : Res → Option Err
  | .err e => some e
  | _ => none

end F16
end BFS
