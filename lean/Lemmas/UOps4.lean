import Lemmas.UOps3
/-!
  Lemmas/UOps4.lean — transparency through flat symlinks (C03): the instances for Create / OpenFile,
  the read-only operations, and Rename (both names resolved independently; non-following).
-/
namespace BFS
namespace U
open BackupFS MFS F16

section
variable {bk kk : Key}

/-! ### read-only operations and the read-only open: forwarded unchanged -/

theorem info_transpU {w : World} (hnf : w.faults = []) (c : Call) :
    Sat (do let i ← primInfo (osCfg bk kk) .base c; pure (OpOut.info i) : M OpOut) w
      (fun w' r => TranspU bk w (.ok ()) w' r (directInfo (baseFS bk kk) w.fs c)) := by
  unfold primInfo directInfo
  apply Sat.bind
  apply Sat.bind
  apply (sat_primCall_nf hnf).mono
  intro w1 r ⟨hfs, hr1, _, _⟩
  have hfs' : w1.fs = ((baseFS bk kk).call w.fs c).1 := hfs
  have hr1' : r = ((baseFS bk kk).call w.fs c).2 := hr1
  cases hc : (baseFS bk kk).call w.fs c with
  | mk m' rr =>
    rw [hc] at hr1' hfs'
    simp only at hr1' hfs'
    subst hr1'
    have htw : UEq bk w1.fs m' := by rw [hfs']; exact UEq.refl bk m'
    cases r with
    | error e => exact ⟨rfl, htw⟩
    | ok ret =>
      cases ret with
      | info i =>
        apply Sat.pure
        apply Sat.pure
        exact ⟨rfl, htw⟩
      | unit => exact ⟨rfl, htw⟩
      | handle h => exact ⟨rfl, htw⟩
      | str s => exact ⟨rfl, htw⟩

theorem str_transpU {w : World} (hnf : w.faults = []) (c : Call) :
    Sat (do let i ← primStr (osCfg bk kk) .base c; pure (OpOut.str i) : M OpOut) w
      (fun w' r => TranspU bk w (.ok ()) w' r (directStr (baseFS bk kk) w.fs c)) := by
  unfold primStr directStr
  apply Sat.bind
  apply Sat.bind
  apply (sat_primCall_nf hnf).mono
  intro w1 r ⟨hfs, hr1, _, _⟩
  have hfs' : w1.fs = ((baseFS bk kk).call w.fs c).1 := hfs
  have hr1' : r = ((baseFS bk kk).call w.fs c).2 := hr1
  cases hc : (baseFS bk kk).call w.fs c with
  | mk m' rr =>
    rw [hc] at hr1' hfs'
    simp only at hr1' hfs'
    subst hr1'
    have htw : UEq bk w1.fs m' := by rw [hfs']; exact UEq.refl bk m'
    cases r with
    | error e => exact ⟨rfl, htw⟩
    | ok ret =>
      cases ret with
      | str i =>
        apply Sat.pure
        apply Sat.pure
        exact ⟨rfl, htw⟩
      | unit => exact ⟨rfl, htw⟩
      | handle h => exact ⟨rfl, htw⟩
      | info s => exact ⟨rfl, htw⟩

/-- the same opening call on the same disk, then the write through the handle -/
theorem open_tail_same {c1 c2 : Call} {data : String} {w : World} (hnf : w.faults = [])
    (hcall : (baseFS bk kk).call w.fs c2 = (baseFS bk kk).call w.fs c1) :
    Sat (do
        let h ← primOpen (osCfg bk kk) .base c2
        let o ← writeClose (osCfg bk kk) h data
        pure (OpOut.written h o) : M OpOut) w
      (fun w' r => TranspU bk w (.ok ()) w' r (directOpen (baseFS bk kk) w.fs c1 data)) := by
  apply Sat.bind
  apply (sat_primOpen_nf (cfg := osCfg bk kk) (c := c2) hnf).mono
  intro w2 r2 ⟨hfs, hnf2, hmatch⟩
  have hfs' : w2.fs = ((baseFS bk kk).call w.fs c2).1 := hfs
  have hmatch' : (match ((baseFS bk kk).call w.fs c2).2 with
       | .ok (.handle h) => ∃ wh, r2 = .ok wh ∧ wh.h = h ∧ wh.side = .base
       | .ok _ => r2 = .error .other
       | .error e => r2 = .error e) := hmatch
  rw [hcall] at hfs' hmatch'
  unfold directOpen
  cases hcd : (baseFS bk kk).call w.fs c1 with
  | mk md rd =>
    rw [hcd] at hfs' hmatch'
    simp only at hfs' hmatch'
    have htw : UEq bk w2.fs md := by rw [hfs']; exact UEq.refl bk md
    cases rd with
    | error e => subst hmatch'; exact ⟨rfl, htw⟩
    | ok ret =>
      cases ret with
      | unit => subst hmatch'; exact ⟨rfl, htw⟩
      | info i => subst hmatch'; exact ⟨rfl, htw⟩
      | str s => subst hmatch'; exact ⟨rfl, htw⟩
      | handle h =>
        obtain ⟨wh, rfl, hwh, hside⟩ := hmatch'
        simp only
        apply Sat.bind
        apply (sat_writeClose_nf (cfg := osCfg bk kk) (wh := wh) (data := data) hnf2).mono
        intro w3 r3 ⟨hfs3, hr3⟩
        subst hr3
        simp only
        apply Sat.pure
        rw [hside, hwh, hfs'] at hfs3
        refine ⟨?_, ?_⟩
        · simp only [ResAgreeU, OpOut.data, DataAgree, hwh, hside, hfs']
          exact ⟨trivial, trivial⟩
        · rw [hfs3]
          exact UEq.refl bk _

/-! ### Create, OpenFile -/

variable (hr : Roots bk kk) {v0 : View} {w : World}
include hr

theorem creat_transpU {name : Path} {k : Key} (hinv : L.Inv (osSimLR hr) v0 w) (hnf : w.faults = [])
    (hflat : Flat bk w.fs) (hk : PKey k) (hname : clean name = kp k) (hlen : k.length ≤ 40)
    (hfin : ∀ t mt, w.fs.get (bk ++ L.G.rk bk w k) ≠ some (.link t mt)) (data : String) :
    Sat (Op.exec (osCfg bk kk) (.creat name data)) w
      (fun w' res => TranspU bk w ((Op.backupPhase (osCfg bk kk) (.creat name data) w).2) w' res
        (Op.direct (baseFS bk kk) w.fs (.creat name data))) := by
  have hrk := L.G.rk_pkey hr hinv.good hflat hk
  have hlok : ∀ t mt, L.osViewL bk kk .base w.fs (L.G.rk bk w k) = some (.link t mt) →
      L.osLinkOK bk kk .base (L.G.rk bk w k) t := by
    intro t mt hv
    obtain ⟨raw, m0, h0, _⟩ := L.osViewL_link hv
    exact absurd h0 (hfin raw m0)
  have h := open_transpU hr (c := fun r => .create r) (data := data) hinv hnf hflat hk hname hlok
    (fun m => (base_call_spelling m hk hname).1)
    (fun m2 hg2 hb => openRel_of_sys (c := fun r => .create r) (flag := wflags) (perm := 0o666)
      (fun m j hj => side_create (m := m) .base hr hj) hk hrk
      (openFile_rel hb wflags 0o666
        (nrel_rk hr hinv.good hflat hk hlen hg2 hb _ (fun _ => hfin))))
  have e : (Op.backupPhase (osCfg bk kk) (.creat name data) w).2 =
      (prepare (osCfg bk kk) name w).2.map (fun _ => ()) := prepPhase_snd _ _ _
  rw [e]
  exact h

theorem write_transpU {name : Path} {k : Key} (hinv : L.Inv (osSimLR hr) v0 w) (hnf : w.faults = [])
    (hflat : Flat bk w.fs) (hk : PKey k) (hname : clean name = kp k) (hlen : k.length ≤ 40)
    (flag perm : Nat)
    (hlok : flag ≠ O_RDONLY → ∀ t mt, L.osViewL bk kk .base w.fs (L.G.rk bk w k) = some (.link t mt) →
      L.osLinkOK bk kk .base (L.G.rk bk w k) t)
    (hfin : flag ≠ O_RDONLY → (hasFlag flag O_CREATE && hasFlag flag O_EXCL) = false →
      ∀ t mt, w.fs.get (bk ++ L.G.rk bk w k) ≠ some (.link t mt)) (data : String) :
    Sat (Op.exec (osCfg bk kk) (.write name flag perm data)) w
      (fun w' res => TranspU bk w ((Op.backupPhase (osCfg bk kk) (.write name flag perm data) w).2) w' res
        (Op.direct (baseFS bk kk) w.fs (.write name flag perm data))) := by
  by_cases hro : flag = O_RDONLY
  · subst hro
    have hx : Op.exec (osCfg bk kk) (.write name O_RDONLY perm data) = (do
        let h ← primOpen (osCfg bk kk) .base (.openFile name O_RDONLY 0)
        let o ← writeClose (osCfg bk kk) h data
        pure (OpOut.written h o) : M OpOut) := by
      unfold Op.exec BackupFS.openFile
      simp only [if_true]
    have hb : (Op.backupPhase (osCfg bk kk) (.write name O_RDONLY perm data) w).2 = .ok () := by
      unfold Op.backupPhase
      simp only [if_true]
      rfl
    rw [hx, hb]
    exact open_tail_same (c1 := .openFile name O_RDONLY perm) (c2 := .openFile name O_RDONLY 0) hnf
      (base_openRO_perm w.fs name perm).symm
  · have hrk := L.G.rk_pkey hr hinv.good hflat hk
    have hx : Op.exec (osCfg bk kk) (.write name flag perm data) = (do
        let h ← (prepare (osCfg bk kk) name >>= fun r => primOpen (osCfg bk kk) .base (.openFile r flag perm))
        let o ← writeClose (osCfg bk kk) h data
        pure (OpOut.written h o) : M OpOut) := by
      unfold Op.exec BackupFS.openFile
      simp only [hro, if_false]
    have hb : (Op.backupPhase (osCfg bk kk) (.write name flag perm data) w).2 =
        (prepare (osCfg bk kk) name w).2.map (fun _ => ()) := by
      unfold Op.backupPhase
      simp only [hro, if_false]
      exact prepPhase_snd _ _ _
    rw [hx, hb]
    exact open_transpU hr (c := fun r => .openFile r flag perm) (data := data) hinv hnf hflat hk hname (hlok hro)
      (fun m => (base_call_spelling m hk hname).2.2.2.1 flag perm)
      (fun m2 hg2 hb => openRel_of_sys (c := fun r => .openFile r flag perm) (flag := flag) (perm := perm)
        (fun m j hj => side_openFile (m := m) .base hr hj flag perm) hk hrk
        (openFile_rel hb flag perm
          (nrel_rk hr hinv.good hflat hk hlen hg2 hb _ (fun hf => hfin hro (by cases hx : (hasFlag flag O_CREATE && hasFlag flag O_EXCL) with | false => rfl | true => rw [hx] at hf; cases hf)))))

omit hr in
theorem stat_transpU (hnf : w.faults = []) (name : Path) :
    Sat (Op.exec (osCfg bk kk) (.stat name)) w
      (fun w' res => TranspU bk w ((Op.backupPhase (osCfg bk kk) (.stat name) w).2) w' res
        (Op.direct (baseFS bk kk) w.fs (.stat name))) :=
  info_transpU hnf (.stat name)

omit hr in
theorem lstat_transpU (hnf : w.faults = []) (name : Path) :
    Sat (Op.exec (osCfg bk kk) (.lstat name)) w
      (fun w' res => TranspU bk w ((Op.backupPhase (osCfg bk kk) (.lstat name) w).2) w' res
        (Op.direct (baseFS bk kk) w.fs (.lstat name))) :=
  info_transpU hnf (.lstat name)

omit hr in
theorem readlink_transpU (hnf : w.faults = []) (name : Path) :
    Sat (Op.exec (osCfg bk kk) (.readlink name)) w
      (fun w' res => TranspU bk w ((Op.backupPhase (osCfg bk kk) (.readlink name) w).2) w' res
        (Op.direct (baseFS bk kk) w.fs (.readlink name))) :=
  str_transpU hnf (.readlink name)

end

end U
end BFS
