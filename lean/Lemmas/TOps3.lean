import Lemmas.TOps2
/-!
  Lemmas/TOps3.lean — transparency (C03): OpenFile (all flag combinations), the read-only
  operations, Rename.
-/
namespace BFS
open BackupFS MFS

section
variable {bk kk : Key}

/-! ### OpenFile -/

theorem openFile_ro_perm (m : MFS) (p : Path) (perm : Nat) : m.openFile p O_RDONLY perm = m.openFile p O_RDONLY 0 := by
  unfold MFS.openFile
  have h1 : hasFlag O_RDONLY O_CREATE = false := by decide
  simp only [h1, Bool.false_and, Bool.not_false, Bool.not_false]
  cases namei m p true <;> rfl

/-- a read-only open ignores the permission argument -/
theorem base_openRO_perm (m : MFS) (name : Path) (perm : Nat) :
    (baseFS bk kk).call m (.openFile name O_RDONLY perm) = (baseFS bk kk).call m (.openFile name O_RDONLY 0) := by
  show (prefixFS (kp bk) osfs).call m _ = (prefixFS (kp bk) osfs).call m _
  rw [prefixFS_call, prefixFS_call]
  simp only [PrefixFS.translate]
  cases PrefixFS.prefixPath (PrefixFS.mk (kp bk)) name with
  | error e => rfl
  | ok p =>
    simp only [bind, Except.bind, pure, Except.pure]
    show ((osCall m (.openFile p O_RDONLY perm)).1, _) = ((osCall m (.openFile p O_RDONLY 0)).1, _)
    have : osCall m (.openFile p O_RDONLY perm) = osCall m (.openFile p O_RDONLY 0) := by
      show ((m.openFile p O_RDONLY perm).1, _) = ((m.openFile p O_RDONLY 0).1, _)
      rw [openFile_ro_perm]
    rw [this]
    congr 1
    cases (osCall m (.openFile p O_RDONLY 0)).2 with
    | error e => rfl
    | ok r => cases r <;> rfl

variable (hr : Roots bk kk) {v0 : View} {r0 : Option Node} {w : World}

theorem write_transp {name : Path} {k : Key} (hinv : InvB (osSimR hr) v0 r0 w) (hk : PKey k)
    (hname : clean name = kp k) (flag perm : Nat) (data : String) :
    Sat (Op.exec (osCfg bk kk) (.write name flag perm data)) w
      (fun w' r => Transp bk kk w' r (Op.direct (baseFS bk kk) w.fs (.write name flag perm data))) := by
  by_cases hro : flag = O_RDONLY
  · subst hro
    have hx : Op.exec (osCfg bk kk) (.write name O_RDONLY perm data) = (do
        let h ← primOpen (osCfg bk kk) .base (.openFile name O_RDONLY 0)
        let o ← writeClose (osCfg bk kk) h data
        pure (OpOut.written h o) : M OpOut) := by
      unfold Op.exec BackupFS.openFile
      simp only [if_true]
    rw [hx]
    have hcall : (baseFS bk kk).call w.fs (.openFile name O_RDONLY 0) =
        (baseFS bk kk).call w.fs (.openFile name O_RDONLY perm) := (base_openRO_perm w.fs name perm).symm
    have hpure : ((baseFS bk kk).call w.fs (.openFile name O_RDONLY perm)).1 = w.fs :=
      os_pure_openRO (s := .base) hr (Prod.ext rfl rfl)
    apply open_tail_transp (c1 := .openFile name O_RDONLY 0) (c2 := .openFile name O_RDONLY perm) hinv.nofault
      (by rw [hcall])
    · rw [hcall, hpure]; exact Twin.refl hinv.good
    · intro h hh
      rw [(base_call_spelling w.fs hk hname).2.2.2.1 O_RDONLY perm] at hh
      exact ⟨k, ((os_openFile_frame (s := .base) hr hinv.good hk (Prod.ext rfl rfl)).2.2.2 h hh)⟩
  · have hx : Op.exec (osCfg bk kk) (.write name flag perm data) = (do
        let h ← (prepare (osCfg bk kk) name >>= fun r => primOpen (osCfg bk kk) .base (.openFile r flag perm))
        let o ← writeClose (osCfg bk kk) h data
        pure (OpOut.written h o) : M OpOut) := by
      unfold Op.exec BackupFS.openFile
      simp only [hro, if_false]
    rw [hx]
    exact open_transp hr (c := fun r => .openFile r flag perm) hinv hk hname
      (fun m => (base_call_spelling m hk hname).2.2.2.1 flag perm)
      (fun _ _ h => base_openFile_rel hr h hk flag perm)
      (fun _ hg hf => (base_call_fileAnc hr hg hk hf).2.2.2.1 flag perm)
      (fun m h hg hh => (os_openFile_frame (s := .base) hr hg hk (Prod.ext rfl rfl)).2.2.2 h hh)

/-! ### read-only operations -/

theorem info_transp (hinv : InvB (osSimR hr) v0 r0 w) (c : Call)
    (hpure : ((baseFS bk kk).call w.fs c).1 = w.fs) :
    Sat (do let i ← primInfo (osCfg bk kk) .base c; pure (OpOut.info i) : M OpOut) w
      (fun w' r => Transp bk kk w' r (directInfo (baseFS bk kk) w.fs c)) := by
  unfold primInfo directInfo
  apply Sat.bind
  apply Sat.bind
  apply (sat_primCall_nf hinv.nofault).mono
  intro w1 r ⟨hfs, hr1, _, _⟩
  have hfs' : w1.fs = ((baseFS bk kk).call w.fs c).1 := hfs
  have hr1' : r = ((baseFS bk kk).call w.fs c).2 := hr1
  rw [hpure] at hfs'
  cases hc : (baseFS bk kk).call w.fs c with
  | mk m' rr =>
    rw [hc] at hr1' hpure
    simp only at hr1' hpure
    subst hr1'
    have htw : Twin bk kk w1.fs m' := by rw [hfs', hpure]; exact Twin.refl hinv.good
    cases r with
    | error e => exact ⟨Or.inl rfl, htw⟩
    | ok ret =>
      cases ret with
      | info i =>
        apply Sat.pure
        apply Sat.pure
        exact ⟨rfl, htw⟩
      | unit => exact ⟨Or.inl rfl, htw⟩
      | handle h => exact ⟨Or.inl rfl, htw⟩
      | str s => exact ⟨Or.inl rfl, htw⟩

theorem str_transp (hinv : InvB (osSimR hr) v0 r0 w) (c : Call)
    (hpure : ((baseFS bk kk).call w.fs c).1 = w.fs) :
    Sat (do let i ← primStr (osCfg bk kk) .base c; pure (OpOut.str i) : M OpOut) w
      (fun w' r => Transp bk kk w' r (directStr (baseFS bk kk) w.fs c)) := by
  unfold primStr directStr
  apply Sat.bind
  apply Sat.bind
  apply (sat_primCall_nf hinv.nofault).mono
  intro w1 r ⟨hfs, hr1, _, _⟩
  have hfs' : w1.fs = ((baseFS bk kk).call w.fs c).1 := hfs
  have hr1' : r = ((baseFS bk kk).call w.fs c).2 := hr1
  rw [hpure] at hfs'
  cases hc : (baseFS bk kk).call w.fs c with
  | mk m' rr =>
    rw [hc] at hr1' hpure
    simp only at hr1' hpure
    subst hr1'
    have htw : Twin bk kk w1.fs m' := by rw [hfs', hpure]; exact Twin.refl hinv.good
    cases r with
    | error e => exact ⟨Or.inl rfl, htw⟩
    | ok ret =>
      cases ret with
      | str i =>
        apply Sat.pure
        apply Sat.pure
        exact ⟨rfl, htw⟩
      | unit => exact ⟨Or.inl rfl, htw⟩
      | handle h => exact ⟨Or.inl rfl, htw⟩
      | info s => exact ⟨Or.inl rfl, htw⟩

theorem stat_transp (hinv : InvB (osSimR hr) v0 r0 w) (name : Path) :
    Sat (Op.exec (osCfg bk kk) (.stat name)) w
      (fun w' r => Transp bk kk w' r (Op.direct (baseFS bk kk) w.fs (.stat name))) :=
  info_transp hr hinv (.stat name) (os_pure_stat (s := .base) hr (Prod.ext rfl rfl))

theorem lstat_transp (hinv : InvB (osSimR hr) v0 r0 w) (name : Path) :
    Sat (Op.exec (osCfg bk kk) (.lstat name)) w
      (fun w' r => Transp bk kk w' r (Op.direct (baseFS bk kk) w.fs (.lstat name))) :=
  info_transp hr hinv (.lstat name) (os_pure_lstat (s := .base) hr (Prod.ext rfl rfl))

theorem readlink_transp (hinv : InvB (osSimR hr) v0 r0 w) (name : Path) :
    Sat (Op.exec (osCfg bk kk) (.readlink name)) w
      (fun w' r => Transp bk kk w' r (Op.direct (baseFS bk kk) w.fs (.readlink name))) :=
  str_transp hr hinv (.readlink name) (os_pure_readlink (s := .base) hr (Prod.ext rfl rfl))

end

end BFS
