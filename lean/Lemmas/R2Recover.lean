import Lemmas.R2Split
import Lemmas.InvB
/-!
  Lemmas/R2Recover.lean — "originals stay recoverable", generically over a `Sim`.

  * `Inv.recoverable` — the per-entry disjunction read off the transaction invariant: an original
    is either untracked and still in the base, or tracked with an info that describes it and (regular
    file) copied in the backup.
  * `rollback_crash_dichotomy` — Rollback started from a state satisfying the invariant and run
    under ANY crash-only fault plan (the process dies after any number of primitive calls): on the disk
    it leaves behind EITHER every key of the base below the root shows its original (the crash point
    lies in the clean-up half or is never reached) OR the backup view is exactly what it was when
    Rollback began and the base is unchanged outside the footprint of the tracked map (the crash point
    lies in the restore half).
  * `Inv.untracked_not_in_foot` — an untracked original is outside that footprint.
-/
namespace BFS
open BackupFS

variable {cfg : Cfg} {S : Sim cfg} {v0 : View}

/-- the literal per-entry form of the invariant -/
theorem Inv.recoverable {w : World} (h : Inv S v0 w) {k : Key} {node : Node} (hv : v0 k = some node) :
    (w.infos.lookup (kp k) = none ∧ S.view .base w.fs k = some node) ∨
    (∃ i, TS w k i ∧ InfoFor i node ∧
      ∀ c mt, node = .file c mt → ∃ mt', S.view .backup w.fs k = some (.file c mt')) := by
  have hk : PKey k := h.v0_pkey (by rw [hv]; exact Option.some_ne_none _)
  rcases tracked_cases w k with hu | htn | ⟨i, hts⟩
  · exact Or.inl ⟨hu, by rw [h.frame k hk hu]; exact hv⟩
  · have := h.absent k hk htn
    rw [hv] at this; cases this
  · obtain ⟨n, hn, hfor, hcopy⟩ := h.saved k i hk hts
    rw [hv] at hn; cases hn
    exact Or.inr ⟨i, hts, hfor, hcopy⟩

/-- facts about the tracked map that the footprint lemmas ask for -/
theorem Inv.root_not_absent {w : World} (h : Inv S v0 w) : (kp [], none) ∉ w.infos := by
  intro hm
  have hl := h.mem_iff.mp hm
  have := h.absent [] (by intro n hn; cases hn) hl
  obtain ⟨mt, hmt⟩ := h.v0_root
  rw [this] at hmt; cases hmt

theorem Inv.no_link_tracked {w : World} (h : Inv S v0 w) : ∀ p i, (p, some i) ∈ w.infos → i.kind ≠ .link := by
  intro p i hm hkind
  obtain ⟨k, hk, rfl⟩ := h.keys p _ hm
  rcases h.ts_kind hk (h.mem_iff.mp hm) with e | e <;> rw [hkind] at e <;> cases e

/-- under the invariant every key tracked as a regular file has its copy, a regular file, in the
backup: the `RemoveAll` branch of `restoreFile` is dead and the footprint is the named one -/
theorem Inv.copies_intact {w : World} (h : Inv S v0 w) : CopiesIntact (S.view .backup w.fs) w.infos := by
  rintro k i ⟨hk, _, hm⟩ hkind
  obtain ⟨c, mt', _, hb⟩ := h.file_target hk (h.mem_iff.mp hm) hkind
  exact ⟨c, mt', hb⟩

/-- an untracked original lies outside the base footprint of the tracked map: it is not tracked
itself and not above a tracked directory (ancestors of tracked entries are tracked); nothing below
a tracked regular file is in the footprint, the backup copies being intact -/
theorem Inv.untracked_not_in_foot {w : World} (h : Inv S v0 w) {j : Key}
    (hu : w.infos.lookup (kp j) = none) (_hv : v0 j ≠ none) : ¬ BaseFoot (S.view .backup w.fs) w.infos j := by
  intro hf
  obtain ⟨k, oi, ⟨hk, hne, hm⟩, ht⟩ := hf.named h.copies_intact
  have hl := h.mem_iff.mp hm
  rcases ht with rfl | ⟨i, rfl, hkind, hpre⟩
  · rw [hu] at hl; cases hl
  · exact h.anc k i hk hl j hpre hu

/-- **Rollback under a crash plan.** -/
theorem rollback_crash_dichotomy {w : World} (hinv : Inv S v0 w) {fl : List Fault} (hfl : CrashOnly fl) :
    S.G (rollback cfg (withFaults fl w)).1.fs ∧
    ((∀ k, k ≠ [] → S.view .base (rollback cfg (withFaults fl w)).1.fs k = v0 k) ∨
     ((∀ j, S.view .backup (rollback cfg (withFaults fl w)).1.fs j = S.view .backup w.fs j) ∧
      ∀ j, ¬ BaseFoot (S.view .backup w.fs) w.infos j →
        S.view .base (rollback cfg (withFaults fl w)).1.fs j = S.view .base w.fs j)) := by
  have hkeys := hinv.keys
  have hroot := hinv.root_not_absent
  have hnolink := hinv.no_link_tracked
  -- the restore half under the crash plan
  obtain ⟨res, hres⟩ := restorePart_total cfg w.infos (withFaults fl w)
  have hfoot := (sat_restorePart_foot (S := S) (w := withFaults fl w) (infos := w.infos) hinv.good hkeys hroot hnolink).elim
  obtain ⟨hf1, hplan⟩ := hfoot
  have hpk : PlanKeys res.1 := planOK_keys (hplan res hres) hkeys
  have hsplit : rollback cfg (withFaults fl w) = cleanupPart cfg res (restorePart cfg w.infos (withFaults fl w)).1 := by
    rw [rollback_split, M.bind_apply]
    simp only [withFaults_infos]
    cases hrp : restorePart cfg w.infos (withFaults fl w) with
    | mk w1 r =>
      rw [hrp] at hres
      simp only at hres
      subst hres
      rfl
  rw [hsplit]
  cases hcr : crashed (restorePart cfg w.infos (withFaults fl w)).1 with
  | true =>
    -- the crash point lies in the restore half: the clean-up half is frozen
    obtain ⟨hfs, _⟩ := Frozen.cleanupPart (cfg := cfg) res _ hcr
    rw [hfs]
    exact ⟨hf1.good, Or.inr ⟨fun j => hf1.backup j (fun h => h), fun j hj => hf1.base j hj⟩⟩
  | false =>
    -- no primitive of the restore half was refused: it ran as on healthy filesystems
    have hsim := (CS.restorePart (cfg := cfg) hfl w.infos).sim (withFaults [] w) rfl hcr
    have hsim' : restorePart cfg w.infos (withFaults fl w) =
        (withFaults fl (restorePart cfg w.infos (withFaults [] w)).1, (restorePart cfg w.infos (withFaults [] w)).2) := hsim
    have hresn : (restorePart cfg w.infos (withFaults [] w)).2 = .ok res := by
      rw [hsim'] at hres; exact hres
    -- the fault-free Rollback restores, and its clean-up half does not touch the base
    have hinvn : Inv S v0 (withFaults [] w) := hinv.with_faults []
    have hrb := (sat_rollback (cfg := cfg) hinvn rfl).elim
    have hfootn := (sat_restorePart_foot (S := S) (w := withFaults [] w) (infos := w.infos) hinv.good hkeys hroot hnolink).elim
    have hsplitn : rollback cfg (withFaults [] w) = cleanupPart cfg res (restorePart cfg w.infos (withFaults [] w)).1 := by
      rw [rollback_split, M.bind_apply]
      simp only [withFaults_infos]
      cases hrp : restorePart cfg w.infos (withFaults [] w) with
      | mk w1 r =>
        rw [hrp] at hresn
        simp only at hresn
        subst hresn
        rfl
    rw [hsplitn] at hrb
    have hc1 := (sat_cleanupPart_foot (S := S) (r := res) hfootn.1.good hpk).elim
    have hg1' : S.G (restorePart cfg w.infos (withFaults fl w)).1.fs := hf1.good
    have hc2 := (sat_cleanupPart_foot (S := S) (r := res) hg1' hpk).elim
    refine ⟨hc2.good, Or.inl ?_⟩
    intro k hk
    rw [hc2.base k (fun h => h), ← hrb.2.2 k hk, hc1.base k (fun h => h), hsim']
    rfl

end BFS
