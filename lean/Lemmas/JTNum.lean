import Lemmas.JTStr
/-! JSON text layer (C12): integer literals — `intLit ∘ encInt`. -/
namespace BFS.JsonText

/-- what can follow a member value in the encoder's output -/
def Delim (rest : List Char) : Prop := ∃ c r, rest = c :: r ∧ (c = ',' ∨ c = '}')

theorem spanDigits_append : ∀ (ds rest : List Char), (∀ c ∈ ds, c.isDigit = true) →
    (∀ c r, rest = c :: r → c.isDigit = false) → spanDigits (ds ++ rest) = (ds, rest)
  | [], [], _, _ => by simp [spanDigits]
  | [], c :: r, _, h => by simp [spanDigits, h c r rfl]
  | d :: ds, rest, hd, h => by
    have ih := spanDigits_append ds rest (fun c hc => hd c (List.mem_cons_of_mem _ hc)) h
    simp [spanDigits, hd d (by simp), ih]

theorem digitChar_ne_zero : ∀ n, n < 10 → 0 < n → Nat.digitChar n ≠ '0' := by decide

/-- no leading zeros -/
theorem toDigits_head (n : Nat) : ∃ d ds, Nat.toDigits 10 n = d :: ds ∧ (0 < n → d ≠ '0') ∧
    (n = 0 → ds = []) := by
  induction n using Nat.strongRecOn with
  | _ n ih =>
    by_cases hlt : n < 10
    · refine ⟨Nat.digitChar n, [], Nat.toDigits_of_lt_base hlt, digitChar_ne_zero n hlt, fun _ => rfl⟩
    · obtain ⟨d, ds, he, hd, _⟩ := ih (n / 10) (by omega)
      refine ⟨d, ds ++ [Nat.digitChar (n % 10)], ?_, fun _ => hd (by omega), fun h0 => by omega⟩
      rw [Nat.toDigits_of_base_le (by omega) (by omega), he]
      rfl

theorem toDigits_isDigit (n : Nat) : ∀ c ∈ Nat.toDigits 10 n, c.isDigit = true :=
  fun _ hc => Nat.isDigit_of_mem_toDigits (by omega) (by omega) hc

theorem delim_not_digit {rest : List Char} (h : Delim rest) :
    ∀ c r, rest = c :: r → c.isDigit = false := by
  obtain ⟨c, r, rfl, hc⟩ := h
  intro c' r' he
  cases he
  rcases hc with rfl | rfl <;> decide

/-- the digits of a natural number are read back (`strconv.AppendUint` / `ParseUint`) -/
theorem intLit_encNat (n : Nat) (rest : List Char) (h : Delim rest) :
    intLit (encNat n ++ rest) = some (false, n, rest) := by
  obtain ⟨d, ds, he, hd, h0⟩ := toDigits_head n
  have hsp := spanDigits_append (Nat.toDigits 10 n) rest (toDigits_isDigit n) (delim_not_digit h)
  have hdig : d.isDigit = true := toDigits_isDigit n d (by rw [he]; simp)
  have hneg : d ≠ '-' := by intro hc; subst hc; revert hdig; decide
  have hval : Nat.ofDigitChars 10 (d :: ds) 0 = n := by rw [← he]; exact Nat.ofDigitChars_ten_toDigits
  have hz : ¬ (d = '0' ∧ ds ≠ []) := by
    rintro ⟨hd0, hds⟩
    by_cases hn : n = 0
    · exact hds (h0 hn)
    · exact hd (by omega) hd0
  obtain ⟨c, r, rfl, hc⟩ := h
  have hc' : ¬ (c = '.' ∨ c = 'e' ∨ c = 'E') := by
    rcases hc with rfl | rfl <;> decide
  unfold encNat at *
  rw [he] at hsp ⊢
  simp only [intLit, List.cons_append, hneg, decide_false, Bool.false_eq_true, if_false]
  rw [show d :: (ds ++ c :: r) = (d :: ds) ++ c :: r from rfl, hsp]
  simp only [hz, if_false, hc', hval]

/-- a leading `-` only sets the sign -/
theorem intLit_minus (inp : List Char) (h : ∀ c r, inp = c :: r → c ≠ '-') :
    intLit ('-' :: inp) = (match intLit inp with
      | some (_, n, r) => some (true, n, r)
      | none => none) := by
  cases inp with
  | nil => simp [intLit, spanDigits]
  | cons c r =>
    have hc := h c r rfl
    simp only [intLit, decide_true, if_true, List.drop_succ_cons, List.drop_zero, hc, decide_false,
      Bool.false_eq_true, if_false]
    generalize spanDigits (c :: r) = sp
    rcases sp with ⟨ds, r'⟩
    cases ds with
    | nil => rfl
    | cons d ds' =>
      simp only
      split
      · rfl
      · cases r' with
        | nil => rfl
        | cons c' r'' =>
          simp only
          split <;> rfl

theorem intLit_encInt (i : Int) (rest : List Char) (h : Delim rest) :
    intLit (encInt i ++ rest) = some (decide (i < 0), i.natAbs, rest) := by
  have hn := intLit_encNat i.natAbs rest h
  unfold encNat at hn
  by_cases hi : i < 0
  · obtain ⟨d, ds, he, -, -⟩ := toDigits_head i.natAbs
    have hdig : d.isDigit = true := toDigits_isDigit i.natAbs d (by rw [he]; simp)
    have hneg : d ≠ '-' := by intro hc; subst hc; revert hdig; decide
    simp only [encInt, hi, if_true, decide_true, List.cons_append]
    rw [intLit_minus, hn]
    intro c r hcr
    rw [he] at hcr
    cases hcr
    exact hneg
  · simp only [encInt, hi, if_false, decide_false]
    exact hn

theorem intOfLit_natAbs (i : Int) : intOfLit (decide (i < 0)) i.natAbs = i := by
  unfold intOfLit
  by_cases hi : i < 0
  · simp only [hi, decide_true, if_true]; omega
  · simp only [hi, decide_false, Bool.false_eq_true, if_false]; omega

end BFS.JsonText
