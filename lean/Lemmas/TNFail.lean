import Lemmas.TNRel3
import Lemmas.TNPrep
import Lemmas.TFail
import Lemmas.TClean
import Lemmas.DWalk
/-!
  Lemmas/TNFail.lean — three facts about the base filesystem of the nested layering
  (`nbase bk hk` = `HiddenFS [loc]` over `PrefixFS (kp bk)` over the OS model), the counterparts of
  `Lemmas/TUmask.lean`, `TClean.lean`, `TFail.lean`:

  * no call of either side changes the umask (`nestedCfg_keeps_umask`; `RemoveAll`: the invariant
    theorem `D.hiddenRemoveAll_inv` of the walk);
  * a call with the caller's spelling `name` is the call with `kp k` when `clean name = kp k` — up
    to the field `lname` of a returned handle (`SpellEq`): `hiddenFile` remembers the name it was
    opened with, for the listing filter, and BackupFS hands HiddenFS the *cleaned* name;
  * where `prepare` fails (`FileAnc`: a proper ancestor of the visible key is a regular file)
    every direct call on the nested base fails too, with ENOTDIR, and changes nothing.
-/
namespace BFS.N
open MFS HiddenFS

section
variable {bk hk dd : Key}

/-! ### umask -/

theorem inner_umask (m : MFS) (c : Call) : ((inner bk dd).call m c).1.umask = m.umask :=
  (osCfg_keeps_umask bk dd).call .base m c

theorem nestedCfg_keeps_umask (_h : NRoots bk hk dd) : FsKeepsUmask (nestedCfg bk hk) := by
  constructor
  · intro s m c
    cases s with
    | base =>
      by_cases hra : ∃ n, c = .removeAll n
      · obtain ⟨n, rfl⟩ := hra
        rw [base_removeAll (dd := dd)]
        show (hiddenRemoveAll (nhs hk) (inner bk dd) 64 m (rmName n)).1.umask = m.umask
        exact D.hiddenRemoveAll_inv (I := fun s => s.umask = m.umask)
          ⟨fun s p hs => (inner_umask s _).trans hs, fun s p hs => (inner_umask s _).trans hs,
            fun s p hs _ => (inner_umask s _).trans hs⟩ 64 m _ rfl
      · have hnr : ∀ n, c ≠ .removeAll n := fun n e => hra ⟨n, e⟩
        rw [side_base (dd := dd), hiddenFS_call _ _ _ _ hnr]
        cases HiddenFS.translate (HiddenFS.mk [kp hk]) c with
        | error e => rfl
        | ok c' => exact inner_umask m c'
    | backup =>
      rw [side_backup (dd := dd), prefixFS_call_gen]
      cases PrefixFS.translate (PrefixFS.mk (kp hk)) c with
      | error e => rfl
      | ok c' => exact inner_umask m c'
  · intro s m hd off d
    rw [side_hwrite']
    exact hwrite_umask m hd off d

/-! ### spelling -/

/-- a result with the HiddenFS-internal `lname` of a handle erased -/
def Ret.noL : Ret → Ret
  | .handle hd => .handle { hd with lname := [] }
  | r => r

/-- same state, same result up to the `lname` of a handle -/
def SpellEq (x y : MFS × Except Err Ret) : Prop := x.1 = y.1 ∧ x.2.map Ret.noL = y.2.map Ret.noL

theorem SpellEq.rfl' {x : MFS × Except Err Ret} : SpellEq x x := ⟨rfl, rfl⟩

theorem noL_hiddenPost (c c' : Call) (r : Ret) : Ret.noL (hiddenPost c c' r) = Ret.noL r := by
  cases r <;> rfl

theorem hguard_spelling {name : Path} {k : Key} (hname : clean name = kp k) (hs : List Path) (e : Err) :
    hguard hs name e = hguard hs (kp k) e := by
  unfold hguard
  rw [← D.isHidden_clean name, hname]

theorem isParent_spelling {name : Path} {k : Key} (hname : clean name = kp k) (hs : List Path) :
    isParentOfHidden name hs = isParentOfHidden (kp k) hs := by
  rw [← D.isParentOfHidden_clean name, hname]

/-- two calls (not `RemoveAll`) that pass the hidden check alike and reach the inner filesystem with
calls it treats alike -/
theorem nbase_spell_gen (m : MFS) {c1 c2 : Call} (hnr1 : ∀ n, c1 ≠ .removeAll n) (hnr2 : ∀ n, c2 ≠ .removeAll n)
    (herr : ∀ e, HiddenFS.translate (nhs hk) c1 = .error e ↔ HiddenFS.translate (nhs hk) c2 = .error e)
    (hok : ∀ ci1 ci2, HiddenFS.translate (nhs hk) c1 = .ok ci1 → HiddenFS.translate (nhs hk) c2 = .ok ci2 →
      (inner bk dd).call m ci1 = (inner bk dd).call m ci2) :
    SpellEq ((nbase bk hk).call m c1) ((nbase bk hk).call m c2) := by
  show SpellEq (((nestedCfg bk hk).side .base).call m c1) (((nestedCfg bk hk).side .base).call m c2)
  cases h1 : HiddenFS.translate (nhs hk) c1 with
  | error e =>
    rw [base_call_err hnr1 h1, base_call_err hnr2 ((herr e).mp h1)]
    exact SpellEq.rfl'
  | ok ci1 =>
    cases h2 : HiddenFS.translate (nhs hk) c2 with
    | error e =>
      have := (herr e).mpr h2
      rw [h1] at this; cases this
    | ok ci2 =>
      rw [base_call_ok (dd := dd) hnr1 h1, base_call_ok (dd := dd) hnr2 h2, hok ci1 ci2 h1 h2]
      refine ⟨rfl, ?_⟩
      cases ((inner bk dd).call m ci2).2 with
      | error e => rfl
      | ok r =>
        show Except.ok (Ret.noL (hiddenPost c1 ci1 r)) = Except.ok (Ret.noL (hiddenPost c2 ci2 r))
        rw [noL_hiddenPost, noL_hiddenPost]

/-- a guarded single-path call: `translate` is the guard followed by a fixed inner call -/
theorem nbase_spell_single (m : MFS) {name : Path} {k : Key} (hname : clean name = kp k)
    {c ci : Path → Call} {e : Err} (hnr : ∀ p n, c p ≠ .removeAll n)
    (htr : ∀ p, HiddenFS.translate (nhs hk) (c p) = (do hguard (nhs hk) p e; pure (ci p)))
    (hin : (inner bk dd).call m (ci name) = (inner bk dd).call m (ci (kp k))) :
    SpellEq ((nbase bk hk).call m (c name)) ((nbase bk hk).call m (c (kp k))) := by
  apply nbase_spell_gen (dd := dd) m (hnr name) (hnr (kp k))
  · intro e'
    rw [htr, htr, hguard_spelling hname]
    cases hguard (nhs hk) (kp k) e with
    | error e2 => exact Iff.rfl
    | ok u => simp [bind, Except.bind, pure, Except.pure]
  · intro ci1 ci2 h1 h2
    rw [htr] at h1 h2
    rw [hguard_spelling hname] at h1
    cases hg : hguard (nhs hk) (kp k) e with
    | error e2 => rw [hg] at h1; cases h1
    | ok u =>
      rw [hg] at h1 h2
      cases h1; cases h2
      exact hin

/-- every single-path call: the spelling of the name matters only for the `lname` of the handle -/
theorem nbase_call_spelling (m : MFS) {name : Path} {k : Key} (hk' : PKey k) (hname : clean name = kp k) :
    SpellEq ((nbase bk hk).call m (.create name)) ((nbase bk hk).call m (.create (kp k))) ∧
    (∀ p, SpellEq ((nbase bk hk).call m (.mkdir name p)) ((nbase bk hk).call m (.mkdir (kp k) p))) ∧
    (∀ p, SpellEq ((nbase bk hk).call m (.mkdirAll name p)) ((nbase bk hk).call m (.mkdirAll (kp k) p))) ∧
    (∀ f p, SpellEq ((nbase bk hk).call m (.openFile name f p)) ((nbase bk hk).call m (.openFile (kp k) f p))) ∧
    SpellEq ((nbase bk hk).call m (.remove name)) ((nbase bk hk).call m (.remove (kp k))) ∧
    (∀ md, SpellEq ((nbase bk hk).call m (.chmod name md)) ((nbase bk hk).call m (.chmod (kp k) md))) ∧
    (∀ u g, SpellEq ((nbase bk hk).call m (.chown name u g)) ((nbase bk hk).call m (.chown (kp k) u g))) ∧
    (∀ u g, SpellEq ((nbase bk hk).call m (.lchown name u g)) ((nbase bk hk).call m (.lchown (kp k) u g))) ∧
    (∀ a t, SpellEq ((nbase bk hk).call m (.chtimes name a t)) ((nbase bk hk).call m (.chtimes (kp k) a t))) := by
  have sp := base_call_spelling (bk := bk) (kk := bk) m hk' hname
  refine ⟨?_, ?_, ?_, ?_, ?_, ?_, ?_, ?_, ?_⟩
  · exact nbase_spell_single (dd := bk) m hname (c := fun p => .create p)
      (ci := fun p => .openFile p (O_RDWR ||| O_CREATE ||| O_TRUNC) 0o666) (e := .hiddenPerm)
      (by intro p n e; cases e) (fun p => rfl) (sp.2.2.2.1 _ _)
  · intro p
    exact nbase_spell_single (dd := bk) m hname (c := fun q => .mkdir q p) (ci := fun q => .mkdir q p) (e := .hiddenPerm)
      (by intro p n e; cases e) (fun p => rfl) (sp.2.1 p)
  · intro p
    exact nbase_spell_single (dd := bk) m hname (c := fun q => .mkdirAll q p) (ci := fun q => .mkdirAll q p)
      (e := .hiddenPerm) (by intro p n e; cases e) (fun p => rfl) (sp.2.2.1 p)
  · intro f p
    exact nbase_spell_single (dd := bk) m hname (c := fun q => .openFile q f p) (ci := fun q => .openFile q f p)
      (e := if hasFlag f O_CREATE then .hiddenPerm else .hiddenNotExist)
      (by intro p n e; cases e) (fun p => rfl) (sp.2.2.2.1 f p)
  · exact nbase_spell_single (dd := bk) m hname (c := fun q => .remove q) (ci := fun q => .remove q)
      (e := .hiddenNotExist) (by intro p n e; cases e) (fun p => rfl) sp.2.2.2.2.1
  · intro md
    exact nbase_spell_single (dd := bk) m hname (c := fun q => .chmod q md) (ci := fun q => .chmod q md)
      (e := .hiddenNotExist) (by intro p n e; cases e) (fun p => rfl) (sp.2.2.2.2.2.2.1 md)
  · intro u g
    exact nbase_spell_single (dd := bk) m hname (c := fun q => .chown q u g) (ci := fun q => .chown q u g)
      (e := .hiddenNotExist) (by intro p n e; cases e) (fun p => rfl) (sp.2.2.2.2.2.2.2.1 u g)
  · intro u g
    exact nbase_spell_single (dd := bk) m hname (c := fun q => .lchown q u g) (ci := fun q => .lchown q u g)
      (e := .hiddenNotExist) (by intro p n e; cases e) (fun p => rfl) (sp.2.2.2.2.2.2.2.2.1 u g)
  · intro a t
    exact nbase_spell_single (dd := bk) m hname (c := fun q => .chtimes q a t) (ci := fun q => .chtimes q a t)
      (e := .hiddenNotExist) (by intro p n e; cases e) (fun p => rfl) (sp.2.2.2.2.2.2.2.2.2.1 a t)

/-! ### where `prepare` fails -/

theorem fileAnc_inner {m : MFS} {k : Key} (hfa : FileAnc (nview bk hk .base m) k) :
    FileAnc (osView bk dd .base m) k := by
  obtain ⟨a, ha, hne, hf⟩ := hfa
  exact ⟨a, ha, hne, (nview_base_isFileAt (dd := dd) hf).2⟩

/-- every single-path mutating call on the nested base fails with ENOTDIR and changes nothing when
a proper ancestor of the (visible) key is a regular file -/
theorem nbase_call_fileAnc {m : MFS} (h : NRoots bk hk dd) (hg : NGood bk hk dd m) {k : Key} (hk' : PKey k)
    (hv : ¬ hk <+: k) (hfa : FileAnc (nview bk hk .base m) k) :
    (nbase bk hk).call m (.create (kp k)) = (m, .error .notDir) ∧
    (∀ p, (nbase bk hk).call m (.mkdir (kp k) p) = (m, .error .notDir)) ∧
    (∀ p, (nbase bk hk).call m (.mkdirAll (kp k) p) = (m, .error .notDir)) ∧
    (∀ f p, (nbase bk hk).call m (.openFile (kp k) f p) = (m, .error .notDir)) ∧
    (nbase bk hk).call m (.remove (kp k)) = (m, .error .notDir) ∧
    (∀ md, (nbase bk hk).call m (.chmod (kp k) md) = (m, .error .notDir)) ∧
    (∀ u g, (nbase bk hk).call m (.chown (kp k) u g) = (m, .error .notDir)) ∧
    (∀ u g, (nbase bk hk).call m (.lchown (kp k) u g) = (m, .error .notDir)) ∧
    (∀ a t, (nbase bk hk).call m (.chtimes (kp k) a t) = (m, .error .notDir)) := by
  have fa := base_call_fileAnc h.r1 hg.os hk' (fileAnc_inner (dd := dd) hfa)
  refine ⟨?_, ?_, ?_, ?_, ?_, ?_, ?_, ?_, ?_⟩
  · exact (fwd_create h hk' (s := .base) hv).err_of fa.1
  · intro p; exact (fwd_mkdir h hk' (s := .base) hv p).err_of (fa.2.1 p)
  · intro p; exact (fwd_mkdirAll h hk' (s := .base) hv p).err_of (fa.2.2.1 p)
  · intro f p; exact (fwd_openFile h hk' (s := .base) hv f p).err_of (fa.2.2.2.1 f p)
  · exact (fwd_remove h hk' (s := .base) hv).err_of fa.2.2.2.2.1
  · intro md; exact (fwd_chmod h hk' (s := .base) hv md).err_of (fa.2.2.2.2.2.2.1 md)
  · intro u g; exact (fwd_chown h hk' (s := .base) hv u g).err_of (fa.2.2.2.2.2.2.2.1 u g)
  · intro u g; exact (fwd_lchown h hk' (s := .base) hv u g).err_of (fa.2.2.2.2.2.2.2.2.1 u g)
  · intro a t; exact (fwd_chtimes h hk' (s := .base) hv a t).err_of (fa.2.2.2.2.2.2.2.2.2 a t)

/-- `Rename` with a regular file above either name -/
theorem nbase_rename_fileAnc {m : MFS} (h : NRoots bk hk dd) (hg : NGood bk hk dd m) {ko kn : Key} (hko : PKey ko)
    (hkn : PKey kn) (hpo : Clear hk ko) (hpn : Clear hk kn)
    (hfa : FileAnc (nview bk hk .base m) ko ∨ FileAnc (nview bk hk .base m) kn) :
    ∃ e, (nbase bk hk).call m (.rename (kp ko) (kp kn)) = (m, .error e) ∧ e.isNotFound = true := by
  obtain ⟨e, hc, he⟩ := base_rename_fileAnc h.r1 hg.os hko hkn
    (hfa.imp (fileAnc_inner (dd := dd)) (fileAnc_inner (dd := dd)))
  exact ⟨e, (fwd_rename h (s := .base) hko hkn hpo.1 (fun x => hpo.2 x.1) hpn.1 (fun x => hpn.2 x.1)).err_of hc, he⟩

/-! ### after `prepare`: the disk agrees with the old one at the visible keys -/

theorem ntwin_of_adv (h : NRoots bk hk dd) {v0 : View} {r0 : Option Node} {w w1 : World}
    (hinv : InvB (nSim bk hk dd h) v0 r0 w) (hadv : AdvB (nSim bk hk dd h) v0 r0 w w1)
    (hu : w1.fs.umask = w.fs.umask) : NTwin bk hk dd w1.fs w.fs := by
  refine ⟨hadv.inv.good, hinv.good, ?_, hu⟩
  intro k hv
  have := congrFun hadv.base k
  have e1 : ∀ m : MFS, (nSim bk hk dd h).view .base m k = (m.get (bk ++ k)).map eraseMt := fun m => nview_base_vis hv
  rw [e1, e1] at this
  exact this

end

end BFS.N
