import Lemmas.UOps7
import Lemmas.GTx
/-!
  Lemmas/UStep.lean — transparency of one operation through flat symlinks (C03), assembled from the
  per-class lemmas of `Lemmas/UOps*.lean`; the predicate `Op.CoveredU` listing exactly the finished
  classes; `TranspU` in plain words.
-/
namespace BFS
namespace U
open BackupFS MFS F16 L.G

/-- The next operation the through-flat-links transparency theorem covers, judged in the state `w` it is
issued in.  Names are absolute (any spelling), have at most 40 components (the kernel's ELOOP bound: each
component may be a symlink) and MAY PASS THROUGH SYMLINKED DIRECTORIES; the disk is `Flat` below the base
root.  With `k` the key of the cleaned name and `r = rk bk w k` the key `realPath` resolves it to:
* A — non-following: `Mkdir`, `Remove`, `Lchown`, `Symlink`: if `r` is a symlink (it is then backed up) the base
  `PrefixFS` admits re-creating it (`LinkOKAt`, as in C01's fragment); for `Symlink` with a relative target
  `PrefixFS`'s lexical admission check gives the same verdict for the caller's and the resolved directory
  (`SymlinkAdm`);
* B — following: `Create`, `OpenFile` (any flags; `O_RDONLY` is unrestricted, with `O_CREATE|O_EXCL` the final
  component is not followed), `Chmod`, `Chown`, `Chtimes`: `r` is not a symlink (K-through-final-symlink);
  `Stat`, `Lstat`, `Readlink`: unrestricted;
* C — `Rename`: both names as in A; two different cleaned names do not resolve to the same key.
* D (part) — `RemoveAll` of a name whose resolved key is NOT a directory (a file, a symlink — removed, not
  followed —, or nothing): as A.
* E (part) — `MkdirAll`: as B (`r` is not a symlink), and `r` exists or its parent is a live directory: the
  `Stat` fast path of `os.MkdirAll`, or one `Mkdir` below the existing parent.
Not covered: `MkdirAll` creating more than one directory, `RemoveAll` of a directory, `ForceBackup`. -/
def Op.CoveredU {cfg : Cfg} (bk : Key) (S : L.LSim cfg) (w : World) : Op → Prop
  | .creat p _ | .chmod p _ | .chown p _ _ | .chtimes p _ =>
    isAbs p = true ∧ Flat bk w.fs ∧ ∀ k, PKey k → clean p = kp k → k.length ≤ 40 ∧ NotLinkAt S w (rk bk w k)
  | .write p flag _ _ => flag = O_RDONLY ∨
      (isAbs p = true ∧ Flat bk w.fs ∧ ∀ k, PKey k → clean p = kp k → k.length ≤ 40 ∧ LinkOKAt S w (rk bk w k) ∧
        ((hasFlag flag O_CREATE && hasFlag flag O_EXCL) = false → NotLinkAt S w (rk bk w k)))
  | .mkdir p _ | .lchown p _ _ | .remove p =>
    isAbs p = true ∧ Flat bk w.fs ∧ ∀ k, PKey k → clean p = kp k → k.length ≤ 40 ∧ LinkOKAt S w (rk bk w k)
  | .symlink o n => isAbs n = true ∧ Flat bk w.fs ∧
      ∀ kn, PKey kn → clean n = kp kn → kn.length ≤ 40 ∧ LinkOKAt S w (rk bk w kn) ∧ SymlinkAdm bk o kn (rk bk w kn)
  | .rename o n => isAbs o = true ∧ isAbs n = true ∧ Flat bk w.fs ∧
      ∀ ko kn, PKey ko → PKey kn → clean o = kp ko → clean n = kp kn →
        ko.length ≤ 40 ∧ kn.length ≤ 40 ∧ LinkOKAt S w (rk bk w ko) ∧ LinkOKAt S w (rk bk w kn) ∧
        (rk bk w ko = rk bk w kn → ko = kn)
  | .removeAll p =>
    isAbs p = true ∧ Flat bk w.fs ∧ ∀ k, PKey k → clean p = kp k → k.length ≤ 40 ∧ LinkOKAt S w (rk bk w k) ∧
      ¬ (S.view .base w.fs).isDirAt (rk bk w k)
  | .mkdirAll p _ =>
    isAbs p = true ∧ Flat bk w.fs ∧ ∀ k, PKey k → clean p = kp k → k.length ≤ 40 ∧ NotLinkAt S w (rk bk w k) ∧
      (S.view .base w.fs (rk bk w k) ≠ none ∨ (S.view .base w.fs).isDirAt (rk bk w k).dropLast)
  | .stat _ | .lstat _ | .readlink _ => True
  | .force _ => False

def Op.isRA : Op → Prop
  | .removeAll _ => True
  | _ => False

section
variable {bk kk : Key}

theorem notLink_get {hr : Roots bk kk} {w : World} {r : Key} (h : NotLinkAt (osSimLR hr) w r) :
    ∀ t mt, w.fs.get (bk ++ r) ≠ some (.link t mt) :=
  fun _ _ hget => h (L.osViewL_isLinkAt_of (s := .base) hget)

theorem op_transpU (hr : Roots bk kk) {v0 : View} {w : World} {op : Op}
    (hinv : L.Inv (osSimLR hr) v0 w) (hnf : w.faults = []) (hc : Op.CoveredU bk (osSimLR hr) w op)
    (hnra : ¬ Op.isRA op) :
    TranspU bk w (Op.backupPhase (osCfg bk kk) op w).2 (Op.exec (osCfg bk kk) op w).1 (Op.exec (osCfg bk kk) op w).2
      (Op.direct (baseFS bk kk) w.fs op) := by
  have key : Sat (Op.exec (osCfg bk kk) op) w
      (fun w' r => TranspU bk w (Op.backupPhase (osCfg bk kk) op w).2 w' r (Op.direct (baseFS bk kk) w.fs op)) := by
    cases op with
    | creat p d =>
      obtain ⟨habs, hflat, h⟩ := hc
      obtain ⟨k, hk, hname⟩ := clean_abs habs
      obtain ⟨hlen, hnl⟩ := h k hk hname
      exact creat_transpU hr hinv hnf hflat hk hname hlen (notLink_get hnl) d
    | write p f pm d =>
      rcases hc with hro | ⟨habs, hflat, h⟩
      · subst hro
        have hx : Op.exec (osCfg bk kk) (.write p O_RDONLY pm d) = (do
            let h ← primOpen (osCfg bk kk) .base (.openFile p O_RDONLY 0)
            let o ← writeClose (osCfg bk kk) h d
            pure (OpOut.written h o) : M OpOut) := by
          show (do let h ← BackupFS.openFile (osCfg bk kk) p O_RDONLY pm; let o ← writeClose (osCfg bk kk) h d
                   pure (OpOut.written h o) : M OpOut) = _
          unfold BackupFS.openFile
          simp only [if_true]
        have hb : (Op.backupPhase (osCfg bk kk) (.write p O_RDONLY pm d) w).2 = .ok () := by
          unfold Op.backupPhase
          simp only [if_true]
          rfl
        rw [hx, hb]
        exact open_tail_same (c1 := .openFile p O_RDONLY pm) (c2 := .openFile p O_RDONLY 0) hnf
          (base_openRO_perm w.fs p pm).symm
      · obtain ⟨k, hk, hname⟩ := clean_abs habs
        obtain ⟨hlen, hlok, hnl⟩ := h k hk hname
        exact write_transpU hr hinv hnf hflat hk hname hlen f pm (fun _ => hlok)
          (fun _ hx => notLink_get (hnl hx)) d
    | mkdir p m =>
      obtain ⟨habs, hflat, h⟩ := hc
      obtain ⟨k, hk, hname⟩ := clean_abs habs
      obtain ⟨hlen, hlok⟩ := h k hk hname
      exact mkdir_transpU hr hinv hnf hflat hk hname hlen hlok m
    | mkdirAll p m =>
      obtain ⟨habs, hflat, h⟩ := hc
      obtain ⟨k, hk, hname⟩ := clean_abs habs
      obtain ⟨hlen, hnl, hpar⟩ := h k hk hname
      refine mkdirAll_transpU hr hinv hnf hflat hk hname hlen (notLink_get hnl) ?_ m
      rcases hpar with h1 | h1
      · left
        intro hnone
        apply h1
        show L.osViewL bk kk .base w.fs (rk bk w k) = none
        rw [L.osViewL_eq]
        show (w.fs.get (bk ++ rk bk w k)).map _ = none
        rw [hnone]; rfl
      · right
        exact L.osViewL_isDirAt (s := .base) h1
    | remove p =>
      obtain ⟨habs, hflat, h⟩ := hc
      obtain ⟨k, hk, hname⟩ := clean_abs habs
      obtain ⟨hlen, hlok⟩ := h k hk hname
      exact remove_transpU hr hinv hnf hflat hk hname hlen hlok
    | removeAll p => exact absurd trivial hnra
    | rename o n =>
      obtain ⟨ha1, ha2, hflat, h⟩ := hc
      obtain ⟨ko, hko, ho⟩ := clean_abs ha1
      obtain ⟨kn, hkn, hn⟩ := clean_abs ha2
      obtain ⟨hl1, hl2, hlo, hln, hsame⟩ := h ko kn hko hkn ho hn
      exact rename_transpU hr hinv hnf hflat hko hkn ho hn hl1 hl2 hlo hln hsame
    | symlink o n =>
      obtain ⟨habs, hflat, h⟩ := hc
      obtain ⟨k, hk, hname⟩ := clean_abs habs
      obtain ⟨hlen, hlok, hadm⟩ := h k hk hname
      exact symlink_transpU hr hinv hnf hflat hk hname hlen hlok o hadm
    | chmod p m =>
      obtain ⟨habs, hflat, h⟩ := hc
      obtain ⟨k, hk, hname⟩ := clean_abs habs
      obtain ⟨hlen, hnl⟩ := h k hk hname
      exact chmod_transpU hr hinv hnf hflat hk hname hlen (notLink_get hnl) m
    | chown p u g =>
      obtain ⟨habs, hflat, h⟩ := hc
      obtain ⟨k, hk, hname⟩ := clean_abs habs
      obtain ⟨hlen, hnl⟩ := h k hk hname
      exact chown_transpU hr hinv hnf hflat hk hname hlen (notLink_get hnl) u g
    | lchown p u g =>
      obtain ⟨habs, hflat, h⟩ := hc
      obtain ⟨k, hk, hname⟩ := clean_abs habs
      obtain ⟨hlen, hlok⟩ := h k hk hname
      exact lchown_transpU hr hinv hnf hflat hk hname hlen hlok u g
    | chtimes p t =>
      obtain ⟨habs, hflat, h⟩ := hc
      obtain ⟨k, hk, hname⟩ := clean_abs habs
      obtain ⟨hlen, hnl⟩ := h k hk hname
      exact chtimes_transpU hr hinv hnf hflat hk hname hlen (notLink_get hnl) t
    | stat p => exact stat_transpU hnf p
    | lstat p => exact lstat_transpU hnf p
    | readlink p => exact readlink_transpU hnf p
    | force p => exact absurd hc id
  exact key

theorem op_transpRA (hr : Roots bk kk) {v0 : View} {w : World} {op : Op}
    (hinv : L.Inv (osSimLR hr) v0 w) (hnf : w.faults = []) (hc : Op.CoveredU bk (osSimLR hr) w op) :
    TranspRA bk w (Op.backupPhase (osCfg bk kk) op w).2 (Op.exec (osCfg bk kk) op w).1 (Op.exec (osCfg bk kk) op w).2
      (Op.direct (baseFS bk kk) w.fs op) := by
  by_cases hra : Op.isRA op
  · cases op with
    | removeAll p =>
      obtain ⟨habs, hflat, h⟩ := hc
      obtain ⟨k, hk, hname⟩ := clean_abs habs
      obtain ⟨hlen, hlok, hnd⟩ := h k hk hname
      exact (removeAll_transpU hr hinv hnf hflat hk hname hlen hlok
        (fun mt hget => hnd (L.osViewL_isDirAt_of (s := .base) hget))).elim
    | _ => exact absurd hra id
  · exact (op_transpU hr hinv hnf hc hra).toRA

/-! ### `ResAgreeU`, `UEq` in plain words -/

theorem ResAgreeU.success_iff {rx : Except Err OpOut} {rd : Except Err DOut} (h : ResAgreeU rx rd) :
    (∃ a, rx = .ok a) ↔ (∃ b, rd = .ok b) := by
  cases rx <;> cases rd <;> simp_all [ResAgreeU]

theorem ResAgreeU.same_data {rx : Except Err OpOut} {rd : Except Err DOut} (h : ResAgreeU rx rd) {a : OpOut} {b : DOut}
    (ha : rx = .ok a) (hb : rd = .ok b) : DataAgree a.data b := by
  subst ha hb
  exact h

theorem ResAgreeU.same_error {rx : Except Err OpOut} {rd : Except Err DOut} (h : ResAgreeU rx rd) {e1 e2 : Err}
    (h1 : rx = .error e1) (h2 : rd = .error e2) : e1 = e2 := by
  subst h1 h2
  exact h

theorem UEq.same_view {m1 m2 : MFS} (h : UEq bk m1 m2) (k : Key) :
    L.osViewL bk kk .base m1 k = L.osViewL bk kk .base m2 k :=
  h.get (bk ++ k) (List.prefix_append _ _)

end

end U
end BFS
