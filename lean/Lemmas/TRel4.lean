import Lemmas.TRel3
/-!
  Lemmas/TRel4.lean — non-interference lifted to the base filesystem of `osCfg bk kk`
  (`PrefixFS (kp bk)` over the OS model): for every mutating call with arguments `kp k`, two
  well-formed disks with the same base view give the same result and again well-formed disks with
  the same base view (`CallRel`).
-/
namespace BFS
open MFS

section
variable {bk kk : Key}

/-- the base filesystem of the OS configuration: `PrefixFS (kp bk)` over the OS model -/
abbrev baseFS (bk kk : Key) : FSI MFS := (osCfg bk kk).side .base

/-- the call gives the same result on the two disks and leaves them related again -/
def CallRel (bk kk : Key) (m1 m2 : MFS) (c : Call) : Prop :=
  ((baseFS bk kk).call m1 c).2 = ((baseFS bk kk).call m2 c).2 ∧
    Twin bk kk ((baseFS bk kk).call m1 c).1 ((baseFS bk kk).call m2 c).1

theorem map_congr {α β : Type} (f : α → β) {x y : Except Err α} (h : x = y) : x.map f = y.map f := by rw [h]

theorem base_mkdir_rel {m1 m2 : MFS} (hr : Roots bk kk) (h : Twin bk kk m1 m2) {k : Key} (hk : PKey k) (perm : Nat) :
    CallRel bk kk m1 m2 (.mkdir (kp k) perm) := by
  have e1 := side_call_unit hr .base m1 (tr_mkdir hr.pb hk perm) (x := m1.mkdir (kp (bk ++ k)) perm) rfl
  have e2 := side_call_unit hr .base m2 (tr_mkdir hr.pb hk perm) (x := m2.mkdir (kp (bk ++ k)) perm) rfl
  obtain ⟨a, b⟩ := mkdir_rel h hr.pb hk (TextOf.kp _) perm
  have g1 := (os_mkdir_frame hr h.g1 hk e1).1
  have g2 := (os_mkdir_frame hr h.g2 hk e2).1
  unfold CallRel baseFS
  rw [e1, e2]
  exact ⟨map_congr _ a, g1, g2, b⟩

theorem base_remove_rel {m1 m2 : MFS} (hr : Roots bk kk) (h : Twin bk kk m1 m2) {k : Key} (hk : PKey k) (hne : k ≠ []) :
    CallRel bk kk m1 m2 (.remove (kp k)) := by
  have e1 := side_call_unit hr .base m1 (tr_remove hr.pb hk) (x := m1.remove (kp (bk ++ k))) rfl
  have e2 := side_call_unit hr .base m2 (tr_remove hr.pb hk) (x := m2.remove (kp (bk ++ k))) rfl
  obtain ⟨a, b⟩ := remove_rel h hr.pb hk (TextOf.kp _)
  have g1 := (os_remove_frame hr h.g1 hk hne e1).1
  have g2 := (os_remove_frame hr h.g2 hk hne e2).1
  unfold CallRel baseFS
  rw [e1, e2]
  exact ⟨map_congr _ a, g1, g2, b⟩

theorem base_rename_rel {m1 m2 : MFS} (hr : Roots bk kk) (h : Twin bk kk m1 m2) {ko kn : Key} (hko : PKey ko)
    (hkn : PKey kn) : CallRel bk kk m1 m2 (.rename (kp ko) (kp kn)) := by
  have e1 := side_call_unit hr .base m1 (tr_rename hr.pb hko hkn) (x := m1.rename (kp (bk ++ ko)) (kp (bk ++ kn))) rfl
  have e2 := side_call_unit hr .base m2 (tr_rename hr.pb hko hkn) (x := m2.rename (kp (bk ++ ko)) (kp (bk ++ kn))) rfl
  obtain ⟨a, b⟩ := rename_rel h hr.pb hko hkn (TextOf.kp _) (TextOf.kp _)
  have g1 := (os_rename_frame hr h.g1 hko hkn e1).1
  have g2 := (os_rename_frame hr h.g2 hko hkn e2).1
  unfold CallRel baseFS
  rw [e1, e2]
  exact ⟨map_congr _ a, g1, g2, b⟩

theorem base_mkdirAll_rel {m1 m2 : MFS} (hr : Roots bk kk) (h : Twin bk kk m1 m2) {k : Key} (hk : PKey k) (perm : Nat) :
    CallRel bk kk m1 m2 (.mkdirAll (kp k) perm) := by
  have e1 := side_mkdirAll (m := m1) .base hr hk perm
  have e2 := side_mkdirAll (m := m2) .base hr hk perm
  have hlen : k.length < (kp (bk ++ k)).length + 2 := by
    have := kp_length (hr.pb.append hk)
    simp only [List.length_append] at this
    omega
  obtain ⟨a, b⟩ := mkdirAll_rel hr perm _ k _ m1 m2 h hk (TextOf.kp _) hlen
  have g1 := (os_mkdirAll_frame hr h.g1 hk e1).1
  have g2 := (os_mkdirAll_frame hr h.g2 hk e2).1
  unfold CallRel baseFS
  rw [e1, e2]
  exact ⟨map_congr _ a, g1, g2, b⟩

/-- calls that are a `metaOp` -/
theorem base_meta_rel {m1 m2 : MFS} (hr : Roots bk kk) (h : Twin bk kk m1 m2) {k : Key} (hk : PKey k)
    {c c' : Call} {follow : Bool} {f : Node → Node} (hkk : KindKeeping f) (hec : EraseCongr f)
    (htr : PrefixFS.translate (kp bk) c = .ok c')
    (hos : ∀ m, osCall m c' = liftU (metaOp m (kp (bk ++ k)) follow f)) :
    CallRel bk kk m1 m2 c := by
  have e1 := side_call_unit hr .base m1 htr (hos m1)
  have e2 := side_call_unit hr .base m2 htr (hos m2)
  obtain ⟨a, b⟩ := metaOp_rel h hr.pb hk (TextOf.kp _) follow hec
  have g1 := (meta_frame (s := .base) hr h.g1 hk hkk htr (hos m1) e1).1
  have g2 := (meta_frame (s := .base) hr h.g2 hk hkk htr (hos m2) e2).1
  unfold CallRel baseFS
  rw [e1, e2]
  exact ⟨map_congr _ a, g1, g2, b⟩

theorem base_chmod_rel {m1 m2 : MFS} (hr : Roots bk kk) (h : Twin bk kk m1 m2) {k : Key} (hk : PKey k) (mode : Nat) :
    CallRel bk kk m1 m2 (.chmod (kp k) mode) :=
  base_meta_rel hr h hk (kk_chmod mode) (ec_chmod mode) (tr_chmod hr.pb hk mode)
    (fun m => by show liftU (m.chmod _ _) = _; rw [mfs_chmod_eq])

theorem base_chown_rel {m1 m2 : MFS} (hr : Roots bk kk) (h : Twin bk kk m1 m2) {k : Key} (hk : PKey k) (u g : Int) :
    CallRel bk kk m1 m2 (.chown (kp k) u g) :=
  base_meta_rel hr h hk (kk_chown u g) (ec_chown u g) (tr_chown hr.pb hk u g)
    (fun m => by show liftU (m.chown _ _ _) = _; rw [mfs_chown_eq])

theorem base_lchown_rel {m1 m2 : MFS} (hr : Roots bk kk) (h : Twin bk kk m1 m2) {k : Key} (hk : PKey k) (u g : Int) :
    CallRel bk kk m1 m2 (.lchown (kp k) u g) :=
  base_meta_rel hr h hk (kk_chown u g) (ec_chown u g) (tr_lchown hr.pb hk u g)
    (fun m => by show liftU (m.lchown _ _ _) = _; rw [mfs_lchown_eq])

theorem base_chtimes_rel {m1 m2 : MFS} (hr : Roots bk kk) (h : Twin bk kk m1 m2) {k : Key} (hk : PKey k) (a t : Time) :
    CallRel bk kk m1 m2 (.chtimes (kp k) a t) :=
  base_meta_rel hr h hk (kk_chtimes t) (ec_chtimes t) (tr_chtimes hr.pb hk a t)
    (fun m => by show liftU (m.chtimes _ _) = _; rw [mfs_chtimes_eq])

theorem base_openFile_rel {m1 m2 : MFS} (hr : Roots bk kk) (h : Twin bk kk m1 m2) {k : Key} (hk : PKey k)
    (flag perm : Nat) : CallRel bk kk m1 m2 (.openFile (kp k) flag perm) := by
  have e1 := side_openFile (m := m1) .base hr hk flag perm
  have e2 := side_openFile (m := m2) .base hr hk flag perm
  obtain ⟨a, b⟩ := openFile_rel h hr.pb hk (TextOf.kp _) flag perm
  have g1 := (os_openFile_frame hr h.g1 hk e1).1
  have g2 := (os_openFile_frame hr h.g2 hk e2).1
  unfold CallRel baseFS
  rw [e1, e2]
  exact ⟨map_congr _ a, g1, g2, b⟩

theorem base_create_rel {m1 m2 : MFS} (hr : Roots bk kk) (h : Twin bk kk m1 m2) {k : Key} (hk : PKey k) :
    CallRel bk kk m1 m2 (.create (kp k)) := by
  have e1 := side_create (m := m1) .base hr hk
  have e2 := side_create (m := m2) .base hr hk
  obtain ⟨a, b⟩ := openFile_rel h hr.pb hk (TextOf.kp _) wflags 0o666
  have g1 := (os_create_frame hr h.g1 hk e1).1
  have g2 := (os_create_frame hr h.g2 hk e2).1
  unfold CallRel baseFS
  rw [e1, e2]
  exact ⟨map_congr _ a, g1, g2, b⟩

/-- a write through a handle on a key at or below the base root -/
theorem base_hwrite_rel {m1 m2 : MFS} (h : Twin bk kk m1 m2) {hd : Handle} {k : Key}
    (hkey : hd.key = bk ++ k) (off : Nat) (d : String) :
    ((baseFS bk kk).hwrite m1 hd off d).2 = ((baseFS bk kk).hwrite m2 hd off d).2 ∧
      Twin bk kk ((baseFS bk kk).hwrite m1 hd off d).1 ((baseFS bk kk).hwrite m2 hd off d).1 := by
  have hw : (baseFS bk kk).hwrite = MFS.hwrite := side_hwrite bk kk .base
  rw [hw]
  obtain ⟨a, b⟩ := hwrite_rel h.eq (hd := hd) (by rw [hkey]; exact List.prefix_append _ _) off d
  have g1 := (hwrite_spec (h := hd) (off := off) (d := d) h.g1 rfl).1
  have g2 := (hwrite_spec (h := hd) (off := off) (d := d) h.g2 rfl).1
  exact ⟨a, g1, g2, b⟩

end

end BFS
