import Lemmas.Hidden
/-! Cleaning a joined path continues on the stack of the first part; consequences for PrefixFS. -/
namespace BFS

theorem splitSep_append (a b : Path) : splitSep (a ++ '/' :: b) = splitSep a ++ splitSep b := by
  induction a with
  | nil => simp [splitSep]
  | cons c a' ih =>
    by_cases hc : c = '/'
    · subst hc
      simp [splitSep, ih]
    · simp only [List.cons_append, splitSep, hc, if_false, ih]
      cases hs : splitSep a' with
      | nil => exact absurd hs (splitSep_ne_nil a')
      | cons w ws => simp

theorem cleanC_join {pre : Path} (x : Path) (hne : pre ≠ []) :
    cleanC (join pre x) =
      { rooted := isRooted pre,
        comps := ((splitSep x).foldl (cleanStep (isRooted pre)) (cleanC pre).comps.reverse).reverse } := by
  unfold join
  simp only [hne, ne_eq, not_false_eq_true, if_true]
  rw [cleanC_clean]
  unfold cleanC
  simp only [isRooted_append _ hne, splitSep_append, List.foldl_append, List.reverse_reverse]

/-- a name whose cleaned form does not climb: no `..` component survives cleaning -/
def StaysInside (n : Path) : Prop := dotdot ∉ (cleanC n).comps

instance (n : Path) : Decidable (StaysInside n) := inferInstanceAs (Decidable (dotdot ∉ _))

theorem staysInside_of_abs {n : Path} (h : isAbs n = true) : StaysInside n :=
  (cleanC_canon n).rootedNoDD h

theorem foldl_push_nodd (r : Bool) (cs st : List Name) (hok : ∀ n ∈ cs, NameOK n ∧ n ≠ dot)
    (hnd : dotdot ∉ cs) : cs.foldl (cleanStep r) st = cs.reverse ++ st := by
  apply foldl_cleanStep_push r cs st hok
  · intro n hn e; subst e; exact absurd hn hnd
  · unfold DDLeading
    apply List.Pairwise.imp_of_mem (R := fun _ _ => True)
    · intro a b _ hb _ _ e; subst e; exact hnd hb
    · simp [List.pairwise_iff_forall_sublist]

/-- folding the components of a rendered canonical, non-climbing path pushes them all -/
theorem foldl_render_push (r : Bool) {cx : CPath} (hc : cx.Canon) (hnd : dotdot ∉ cx.comps)
    (st : List Name) :
    (splitSep cx.render).foldl (cleanStep r) st = cx.comps.reverse ++ st := by
  have hnf := hc.nf
  unfold CPath.NF at hnf
  unfold CPath.render
  cases hr : cx.rooted with
  | true =>
    simp only [if_true, splitSep_cons_sep, List.foldl_cons]
    have h1 : cleanStep r st [] = st := by simp [cleanStep]
    rw [h1]
    by_cases hcs : cx.comps = []
    · simp [hcs, joinSep, splitSep, cleanStep]
    · rw [splitSep_joinSep _ hcs hnf]
      exact foldl_push_nodd r _ st hc.ok hnd
  | false =>
    simp only [Bool.false_eq_true, if_false]
    by_cases hcs : cx.comps = []
    · simp only [hcs, if_true]
      have : splitSep dot = [dot] := by decide
      rw [this]
      simp [cleanStep]
    · simp only [hcs, if_false]
      rw [splitSep_joinSep _ hcs hnf]
      exact foldl_push_nodd r _ st hc.ok hnd

/-- joining a non-climbing name below a prefix appends its components -/
theorem cleanC_join_clean {pre n : Path} (hne : pre ≠ []) (hs : StaysInside n) :
    cleanC (join pre (clean n)) =
      { rooted := isRooted pre, comps := (cleanC pre).comps ++ (cleanC n).comps } := by
  rw [cleanC_join _ hne]
  unfold clean
  rw [foldl_render_push _ (cleanC_canon n) hs]
  simp

theorem within_join_clean {pre n : Path} (hne : pre ≠ []) (hs : StaysInside n) :
    Within pre (join pre (clean n)) := by
  unfold Within WithinC
  rw [cleanC_join_clean hne hs]
  refine ⟨rfl, isPrefixOf_append_self _ _, ?_⟩
  simp only [List.drop_left]
  exact hs

theorem prefixPath_staysInside {pre n : Path} (hne : pre ≠ []) (hs : StaysInside n) :
    PrefixFS.prefixPath pre n = .ok (join pre (clean n)) :=
  prefixPath_of_within (within_join_clean hne hs)

theorem join_clean_is_clean (a b : Path) (h : a ≠ []) : clean (join a b) = join a b := by
  unfold join
  simp only [h, ne_eq, not_false_eq_true, if_true, clean_idempotent]

/-- `join "/" r` for the relative remainder of a rooted path re-roots it -/
theorem join_root_remainder {rest : List Name} (hok : ∀ n ∈ rest, NameOK n ∧ n ≠ dot)
    (hnd : dotdot ∉ rest) :
    join rootP (if rest = [] then dot else joinSep rest) =
      CPath.render { rooted := true, comps := rest } := by
  have hne : rootP ≠ [] := by decide
  have key : cleanC (join rootP (if rest = [] then dot else joinSep rest)) = { rooted := true, comps := rest } := by
    rw [cleanC_join _ hne]
    have hr : isRooted rootP = true := by decide
    have hc : (cleanC rootP).comps = [] := by decide
    rw [hr, hc]
    by_cases hrest : rest = []
    · subst hrest
      simp only [if_true]
      have : splitSep dot = [dot] := by decide
      rw [this]; simp [cleanStep]
    · simp only [hrest, if_false]
      rw [splitSep_joinSep _ hrest (fun n hn => (hok n hn).1), foldl_push_nodd true _ _ hok hnd]
      simp
  have := join_clean_is_clean rootP (if rest = [] then dot else joinSep rest) hne
  rw [← this]
  unfold clean
  rw [key]

end BFS
