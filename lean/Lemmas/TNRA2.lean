import Lemmas.TNRA1
import Lemmas.TRA2
/-!
  Lemmas/TNRA2.lean — `RemoveAll` in the nested layering (C03), part 2 (`Lemmas/TRA2.lean` for
  `nestedCfg`): the walk of `BackupFS.RemoveAll` over a healthy `World` (through the nested base) runs
  in lock-step with the walk of `HiddenFS.RemoveAll` with the location hidden over the inner `PrefixFS`
  — i.e. with the *direct* `RemoveAll` on the nested base — on a disk that agrees at the visible keys,
  as long as every key the walk meets is `Clear`; and so does the final loop removing the collected
  directories.
-/
namespace BFS.N
open BackupFS MFS HiddenFS

section
variable {bk hk dd : Key}

theorem NTwin.trans {m1 m2 m3 : MFS} (h1 : NTwin bk hk dd m1 m2) (h2 : NTwin bk hk dd m2 m3) : NTwin bk hk dd m1 m3 :=
  ⟨h1.g1, h2.g2, h1.eq.trans h2.eq⟩

theorem NTwin.symm {m1 m2 : MFS} (h : NTwin bk hk dd m1 m2) : NTwin bk hk dd m2 m1 := ⟨h.g2, h.g1, h.eq.symm⟩

/-- the paths the walk handles: paths of keys that are neither the root, nor at/below the location,
nor an ancestor of it -/
def GoodP (hk : Key) (p : Path) : Prop := ∃ j, PKey j ∧ j ≠ [] ∧ Clear hk j ∧ p = kp j

/-- the relation kept by the lock-step run -/
def WR (h : NRoots bk hk dd) (v0 : View) (r0 : Option Node) (u0 : Nat) (w : World) (m : MFS) (a : List Path) : Prop :=
  InvB (nSim bk hk dd h) v0 r0 w ∧ NTwin bk hk dd w.fs m ∧ m.umask = u0 ∧ ∀ p ∈ a, GoodP hk p

variable (h : NRoots bk hk dd) {v0 : View} {r0 : Option Node} {u0 : Nat}

theorem WR.same {w w' : World} {m : MFS} {a : List Path} (hR : WR h v0 r0 u0 w m a) (hs : SameFS w w') :
    WR h v0 r0 u0 w' m a :=
  ⟨(AdvB.of_same hR.1 hs).inv, by rw [hs.fs]; exact hR.2.1, hR.2.2.1, hR.2.2.2⟩

theorem lstatSim : LstatSim (WR h v0 r0 u0) (GoodP hk) (worldWalkOps (nestedCfg bk hk) .base)
    (fsiWalkOps (inner bk dd)) := by
  intro w m a p hR hp
  obtain ⟨j, hj, _, hc, rfl⟩ := hp
  obtain ⟨p1, p2, hcase⟩ := nlstat_rel h hR.2.1 hj hc.1
  have hpure : (((nestedCfg bk hk).side .base).call w.fs (.lstat (kp j))).1 = w.fs :=
    (nSim bk hk dd h).pure_lstat (s := .base) (Prod.ext rfl rfl)
  obtain ⟨hs, hres⟩ := worldLstat_nf (cfg := nestedCfg bk hk) hR.1.nofault (kp j) hpure
  have e0 : (fsiWalkOps (inner bk dd)).lstat = fsiLstat (inner bk dd) := rfl
  rw [e0, p2]
  refine ⟨hR.same h hs, ?_⟩
  rw [hres]
  rcases hcase with ⟨i1, i2, e1, e2, hd⟩ | ⟨e, e1, e2⟩
  · exact Or.inl ⟨i1, i2, e1, e2, hd⟩
  · exact Or.inr ⟨e, e, e1, e2⟩

theorem readSim : ReadSim (WR h v0 r0 u0) (GoodP hk) (worldWalkOps (nestedCfg bk hk) .base)
    (fsiWalkOps (inner bk dd)) := by
  intro w m a p hR hp
  obtain ⟨j, hj, hjne, hc, rfl⟩ := hp
  obtain ⟨p1, p2, hres, hpl⟩ := nreaddir_rel h hR.2.1 hj hc
  have hpure : (((nestedCfg bk hk).side .base).call w.fs (.open_ (kp j))).1 = w.fs :=
    (nSim bk hk dd h).pure_open (s := .base) (Prod.ext rfl rfl)
  obtain ⟨hs, hw⟩ := worldReadDir_nf (cfg := nestedCfg bk hk) hR.1.nofault (kp j) hpure
  have e0 : (fsiWalkOps (inner bk dd)).readDirNames = fsiReadDirNames (inner bk dd) := rfl
  rw [e0, p2]
  refine ⟨hR.same h hs, ?_⟩
  rw [hw, ← hres]
  cases hcc : (fsiReadDirNames (nbase bk hk) w.fs (kp j)).2 with
  | error e => exact Or.inr ⟨e, e, rfl, rfl⟩
  | ok ns =>
    left
    refine ⟨ns, rfl, rfl, ?_⟩
    intro n hn
    have hpn := hpl ns hcc n hn
    exact ⟨j ++ [n], hj.snoc hpn, by simp, clear_child hc n, join_kp hj hpn⟩

/-- one `Remove` through BackupFS against the inner `Remove` on the other disk -/
theorem remove_step {w : World} {m : MFS} {a : List Path} {j : Key} (hR : WR h v0 r0 u0 w m a) (hj : PKey j)
    (hjne : j ≠ []) (hv : ¬ hk <+: j) :
    let x := BackupFS.remove (nestedCfg bk hk) (kp j) w
    let y := (inner bk dd).call m (.remove (kp j))
    UnitAgree x.2 y.2 ∧ WR h v0 r0 u0 x.1 y.1 a := by
  intro x y
  obtain ⟨hinv, htw0, hum, hall⟩ := hR
  have h2 := (sat_removeB (cfg := nestedCfg bk hk) (S := nSim bk hk dd h) hinv hj hjne (clean_kp hj)).elim
  have hu : y.1.umask = m.umask := inner_umask m _
  -- the nested call on `m` is the inner call on `m`
  obtain ⟨post, hpost, hfw⟩ := fwd_remove h hj (s := .base) hv
  have hfw' : ∀ m', (nbase bk hk).call m' (.remove (kp j)) =
      (((inner bk dd).call m' (.remove (kp j))).1, ((inner bk dd).call m' (.remove (kp j))).2.map post) := hfw
  have key : Sat (prepare (nestedCfg bk hk) (kp j) >>= fun r => primUnit (nestedCfg bk hk) .base (.remove r)) w
      (fun w' r => UnitAgree r y.2 ∧ NTwin bk hk dd w'.fs y.1) := by
    apply Sat.bind
    apply ((sat_prepareT hinv hj (clean_kp hj)).and
      (show Sat (prepare (nestedCfg bk hk) (kp j)) w (fun w' _ => w'.fs.umask = w.fs.umask) from
        prepare_ku (nestedCfg_keeps_umask h) (kp j) w)).mono
    intro w1 r ⟨⟨hadv, hok, hfl⟩, hu1⟩
    have htw := (ntwin_of_adv h hinv hadv hu1).trans htw0
    cases r with
    | error e =>
      obtain ⟨he, hfa⟩ := hfl e rfl
      have hfa' : FileAnc (nview bk hk .base m) j := by
        obtain ⟨a', h1, h2', c', mt, h3⟩ := hfa
        exact ⟨a', h1, h2', c', mt, by rw [← htw0.same_view a']; exact h3⟩
      have hcall : y = (m, .error .notDir) :=
        (base_call_fileAnc h.r1 htw0.g2.os hj (fileAnc_inner (dd := dd) hfa')).2.2.2.2.1
      rw [hcall]
      exact ⟨by rw [he]; exact Or.inr ⟨rfl, rfl⟩, htw⟩
    | ok p =>
      obtain ⟨hp, _⟩ := hok p rfl
      subst hp
      simp only
      apply (sat_primUnit_nf (cfg := nestedCfg bk hk) (c := .remove (kp j)) hadv.inv.nofault).mono
      intro w2 r2 ⟨hfs, hr2⟩
      obtain ⟨hres, htw2⟩ := nbase_remove_rel h htw hj hjne hv
      have hr2' : r2 = ((nbase bk hk).call w1.fs (.remove (kp j))).2.map (fun _ => ()) := hr2
      have hfs' : w2.fs = ((nbase bk hk).call w1.fs (.remove (kp j))).1 := hfs
      rw [hres] at hr2'
      rw [← hfs'] at htw2
      rw [hfw' m] at hr2' htw2
      refine ⟨?_, htw2⟩
      rw [hr2']
      show UnitAgree (Except.map _ (Except.map post y.2)) y.2
      cases y.2 with
      | ok a' => trivial
      | error e => exact Or.inl rfl
  have h1 := key.elim
  exact ⟨h1.1, h2.inv, h1.2, hu.trans hum, hall⟩

theorem fnSim : FnSim (WR h v0 r0 u0) (GoodP hk) (removeAllFn (nestedCfg bk hk))
    (hiddenRemoveFn (nhs hk) (inner bk dd)) := by
  intro w m a p i1 i2 hR hp hd
  obtain ⟨j, hj, hjne, hc, rfl⟩ := hp
  unfold removeAllFn hiddenRemoveFn
  simp only [isHidden_vis h hj hc.1, hd]
  split
  · intro _
    refine ⟨rfl, rfl, hR.1, hR.2.1, hR.2.2.1, ?_⟩
    intro q hq
    rcases List.mem_append.mp hq with hq | hq
    · exact hR.2.2.2 q hq
    · simp only [List.mem_singleton] at hq
      exact ⟨j, hj, hjne, hc, hq⟩
  · have htr : HiddenFS.translate (nhs hk) (.remove (kp j)) = .ok (.remove (kp j)) :=
      translate_remove_visible (isHidden_vis h hj hc.1)
    simp only [htr]
    obtain ⟨hag, hR'⟩ := remove_step h hR hj hjne hc.1
    cases hx : BackupFS.remove (nestedCfg bk hk) (kp j) w with
    | mk w' r =>
      cases hy : (inner bk dd).call m (.remove (kp j)) with
      | mk m' r' =>
        rw [hx, hy] at hag hR'
        simp only at hag hR'
        cases r' with
        | error e => intro hh; cases hh
        | ok ret =>
          cases r with
          | error e => exact absurd hag id
          | ok u => intro _; exact ⟨rfl, rfl, hR'⟩

omit h in
theorem fnErr : FnErr (σ₂ := MFS) (hiddenRemoveFn (nhs hk) (inner bk dd)) := by
  intro s a p oi e
  rw [hiddenRemoveFn_err]
  simp

/-- the walks in lock-step -/
theorem removeAll_walk_sim {w : World} {m : MFS} {j : Key} (hR : WR h v0 r0 u0 w m []) (hj : PKey j) (hjne : j ≠ [])
    (hc : Clear hk j) :
    OutSim (WR h v0 r0 u0)
      (walkTree (worldWalkOps (nestedCfg bk hk) .base) (removeAllFn (nestedCfg bk hk)) 64 w [] (kp j))
      (walkTree (fsiWalkOps (inner bk dd)) (hiddenRemoveFn (nhs hk) (inner bk dd)) 64 m [] (kp j)) :=
  walkTree_sim (lstatSim h) (readSim h) (fnSim h) fnErr 64 hR ⟨j, hj, hjne, hc, rfl⟩

/-- the loop removing the collected directories, in lock-step -/
theorem removeEach_sim : ∀ (ds : List Path) (w : World) (m : MFS), WR h v0 r0 u0 w m [] → (∀ p ∈ ds, GoodP hk p) →
    (hiddenRemoveDirs (nhs hk) (inner bk dd) m ds).2 = .ok () →
    (removeEach (nestedCfg bk hk) ds w).2 = .ok () ∧
      WR h v0 r0 u0 (removeEach (nestedCfg bk hk) ds w).1 (hiddenRemoveDirs (nhs hk) (inner bk dd) m ds).1 []
  | [], w, m, hR, _, _ => by
    rw [removeEach, hiddenRemoveDirs]
    exact ⟨rfl, hR⟩
  | d :: ds, w, m, hR, hg, hok => by
    obtain ⟨j, hj, hjne, hc, rfl⟩ := hg d (by simp)
    have hpar : isParentOfHidden (kp j) (nhs hk) = .ok false := by
      rw [isParent_kp h hj]
      congr 1
      exact decide_eq_false (fun e => hc.2 e.1)
    rw [hiddenRemoveDirs] at hok ⊢
    simp only [hpar] at hok ⊢
    obtain ⟨hag, hR'⟩ := remove_step h hR hj hjne hc.1
    rw [removeEach, M.bind_apply]
    cases hx : BackupFS.remove (nestedCfg bk hk) (kp j) w with
    | mk w' r =>
      cases hy : (inner bk dd).call m (.remove (kp j)) with
      | mk m' r' =>
        rw [hx, hy] at hag hR'
        rw [hy] at hok
        simp only at hag hR' hok ⊢
        cases r' with
        | error e => cases hok
        | ok ret =>
          cases r with
          | error e => exact absurd hag id
          | ok u =>
            simp only at hok ⊢
            exact removeEach_sim ds w' m' hR' (fun p hp => hg p (List.mem_cons_of_mem _ hp)) hok

end

end BFS.N
