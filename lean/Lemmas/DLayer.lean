import Lemmas.SimOSPrefix
import Lemmas.Hidden
/-!
  Lemmas/DLayer.lean — the wrapper layers as functions `FSI σ → FSI σ`: what `call` of a wrapped
  filesystem is, in terms of the layer's translator and the inner filesystem's `call`.
  Generic in the inner filesystem and its state (no OS model here).
-/
namespace BFS
namespace D

/-- `prefixFS p inner`: refuse, or forward the one translated call and post-process the result -/
theorem prefixFS_call_gen {σ} (p : Path) (inner : FSI σ) (s : σ) (c : Call) :
    (prefixFS p inner).call s c =
      (match PrefixFS.translate (PrefixFS.mk p) c with
       | .error e => (s, .error e)
       | .ok c' => ((inner.call s c').1, (inner.call s c').2.map (prefixPost (PrefixFS.mk p) c c'))) := rfl

theorem prefixFS_call_ok {σ} (p : Path) (inner : FSI σ) (s : σ) {c c' : Call}
    (h : PrefixFS.translate (PrefixFS.mk p) c = .ok c') :
    (prefixFS p inner).call s c =
      ((inner.call s c').1, (inner.call s c').2.map (prefixPost (PrefixFS.mk p) c c')) := by
  rw [prefixFS_call_gen, h]

theorem prefixFS_call_error {σ} (p : Path) (inner : FSI σ) (s : σ) {c : Call} {e : Err}
    (h : PrefixFS.translate (PrefixFS.mk p) c = .error e) :
    (prefixFS p inner).call s c = (s, .error e) := by
  rw [prefixFS_call_gen, h]

theorem prefixFS_hwrite {σ} (p : Path) (inner : FSI σ) : (prefixFS p inner).hwrite = inner.hwrite := rfl
theorem prefixFS_hread {σ} (p : Path) (inner : FSI σ) : (prefixFS p inner).hread = inner.hread := rfl
theorem prefixFS_hstat {σ} (p : Path) (inner : FSI σ) : (prefixFS p inner).hstat = inner.hstat := rfl
theorem prefixFS_hreaddirnames {σ} (p : Path) (inner : FSI σ) :
    (prefixFS p inner).hreaddirnames = inner.hreaddirnames := rfl

/-- `hiddenFS hp inner` on every method but `RemoveAll` -/
theorem hiddenFS_call_gen {σ} (hp : List Path) (inner : FSI σ) (s : σ) (c : Call)
    (hnra : ∀ n, c ≠ .removeAll n) :
    (hiddenFS hp inner).call s c =
      (match HiddenFS.translate (HiddenFS.mk hp) c with
       | .error e => (s, .error e)
       | .ok c' => ((inner.call s c').1, (inner.call s c').2.map (hiddenPost c c'))) := by
  cases c <;> first | rfl | exact absurd rfl (hnra _)

theorem hiddenFS_call_removeAll {σ} (hp : List Path) (inner : FSI σ) (s : σ) (n : Path) :
    (hiddenFS hp inner).call s (.removeAll n) =
      liftU (hiddenRemoveAll (HiddenFS.mk hp) inner 64 s (rmName n)) := rfl

/-- the hidden check cleans its argument itself: the spelling `HiddenFS.RemoveAll` settles on does
not change it -/
theorem isHidden_rmName (n : Path) (hs : List Path) : HiddenFS.isHidden (rmName n) hs = HiddenFS.isHidden n hs := by
  unfold rmName
  split
  · rfl
  · unfold HiddenFS.isHidden
    rw [clean_idempotent]

theorem hiddenFS_hwrite {σ} (hp : List Path) (inner : FSI σ) : (hiddenFS hp inner).hwrite = inner.hwrite := rfl
theorem hiddenFS_hread {σ} (hp : List Path) (inner : FSI σ) : (hiddenFS hp inner).hread = inner.hread := rfl
theorem hiddenFS_hstat {σ} (hp : List Path) (inner : FSI σ) : (hiddenFS hp inner).hstat = inner.hstat := rfl

/-- what HiddenFS hands to its base for a visible call: `Create`/`Open` as the `OpenFile` calls
they are in `os` -/
def hiddenDelegated : Call → Call
  | .create n => .openFile n (O_RDWR ||| O_CREATE ||| O_TRUNC) 0o666
  | .open_ n => .openFile n O_RDONLY 0
  | c => c

/-- a filesystem on which `Create(n)` is `OpenFile(n, O_RDWR|O_CREATE|O_TRUNC, 0666)` and `Open(n)`
is `OpenFile(n, O_RDONLY, 0)`, as for package `os` -/
def CreateIsOpenFile {σ} (fs : FSI σ) : Prop :=
  ∀ (s : σ) (c : Call), fs.call s (hiddenDelegated c) = fs.call s c

theorem createIsOpenFile_osfs : CreateIsOpenFile osfs := by
  intro m c
  cases c <;> rfl

theorem createIsOpenFile_prefixFS {σ} (p : Path) {inner : FSI σ} (h : CreateIsOpenFile inner) :
    CreateIsOpenFile (prefixFS p inner) := by
  intro s c
  cases c
  case create n =>
    simp only [hiddenDelegated, prefixFS_call_gen, PrefixFS.translate, bind, Except.bind, pure, Except.pure]
    cases PrefixFS.prefixPath (PrefixFS.mk p) n with
    | error e => rfl
    | ok q =>
      simp only
      have := h s (.create q)
      simp only [hiddenDelegated] at this
      rw [this]
      cases (inner.call s (.create q)).2 with
      | error e => rfl
      | ok r => cases r <;> rfl
  case open_ n =>
    simp only [hiddenDelegated, prefixFS_call_gen, PrefixFS.translate, bind, Except.bind, pure, Except.pure]
    cases PrefixFS.prefixPath (PrefixFS.mk p) n with
    | error e => rfl
    | ok q =>
      simp only
      have := h s (.open_ q)
      simp only [hiddenDelegated] at this
      rw [this]
      cases (inner.call s (.open_ q)).2 with
      | error e => rfl
      | ok r => cases r <;> rfl
  all_goals rfl

end D
end BFS
