import Lemmas.HiddenRA
import Lemmas.HLDir
/-!
  Lemmas/HLRA.lean — `HiddenFS.RemoveAll` (`hiddenRemoveAll`) over an abstract filesystem pair
  `S : L.LSim cfg` whose views may contain SYMLINKS (as leaves), with `D : HL.LSimDir S rt`;
  part (A): safety.

  Whatever the result and whatever the fuel, the program changes the base view — and the raw disk —
  only at keys that are below the argument, not hidden, and not a directory leading to a hidden
  entry.  The walk uses `Lstat` and never follows a symlink: a symlink below the argument is a leaf
  that is `Remove`d (wherever it points), unless its own path is hidden.  New with respect to
  `Lemmas/HiddenRA.lean`: every name handed to `Lstat`/`Open`/`Remove` must be shown to have no
  symlink among its proper ancestors (the laws of `LSim` ask for it); for the argument this is a
  hypothesis, below it it follows because the walk only descends into `Lstat`-directories and no
  call of the program creates a symlink (`LinkMono`).
-/
namespace BFS
namespace HL
open HiddenFS L

variable {cfg : Cfg}

/-- `m'` is well-formed, its backup side is that of `m`, its base view and the raw disk differ from
those of `m` only at base keys satisfying `T`, and no symlink appeared -/
structure Frame (S : LSim cfg) (rt : Key) (T : Key → Prop) (m m' : MFS) : Prop where
  good : S.G m'
  other : S.view .backup m' = S.view .backup m
  same : ∀ j, ¬ T j → S.view .base m' j = S.view .base m j
  mono : LinkMono (S.view .base m) (S.view .base m')
  raw : ∀ K, (∀ j, K = rt ++ j → ¬ T j) → (m'.get K).map eraseMt = (m.get K).map eraseMt

theorem Frame.refl {S : LSim cfg} {rt : Key} {T : Key → Prop} {m : MFS} (hg : S.G m) : Frame S rt T m m :=
  ⟨hg, rfl, fun _ _ => rfl, LinkMono.refl _, fun _ _ => rfl⟩

theorem Frame.trans {S : LSim cfg} {rt : Key} {T : Key → Prop} {a b c : MFS} (h1 : Frame S rt T a b)
    (h2 : Frame S rt T b c) : Frame S rt T a c :=
  ⟨h2.good, h2.other.trans h1.other, fun j hj => (h2.same j hj).trans (h1.same j hj),
    LinkMono.trans h1.mono h2.mono, fun K hK => (h2.raw K hK).trans (h1.raw K hK)⟩

/-- one `Remove (kp j)` on the base side, `j` touchable and reachable without traversing a symlink -/
theorem Frame.remove {S : LSim cfg} {rt : Key} (D : LSimDir S rt) {T : Key → Prop} {m0 m m1 : MFS} {j : Key}
    {r : Except Err Ret} (h : Frame S rt T m0 m) (hj : PKey j) (hne : j ≠ []) (ht : T j)
    (hna : NoLinkAnc (S.view .base m) j)
    (hc : (cfg.side .base).call m (.remove (kp j)) = (m1, r)) :
    Frame S rt T m0 m1 ∧ LinkMono (S.view .base m) (S.view .base m1) := by
  obtain ⟨hg1, ho1, hs1, hm1⟩ := S.remove_frame h.good hj hne hna hc
  refine ⟨h.trans ⟨hg1, ho1, ?_, hm1, ?_⟩, hm1⟩
  · intro j' hj'
    apply hs1
    intro e; subst e; exact hj' ht
  · intro K hK
    apply D.remove_raw h.good hj hne hna hc
    intro e
    exact hK j e ht

/-! ### the two accesses of `Walk` -/

theorem infoForL_isDir {i : Info} {n : Node} (h : InfoForL i n) : i.isDir = n.isDir := by
  unfold Info.isDir
  rw [h.1]
  cases n <;> simp [Node.kind, Node.isDir]

/-- a successful `Lstat (kp j)` describes the node at `j` (a symlink as a symlink) -/
theorem lstat_info (S : LSim cfg) {s : Side} {m m1 : MFS} {j : Key} {i : Info} (hg : S.G m) (hj : PKey j)
    (hna : NoLinkAnc (S.view s m) j)
    (hc : (cfg.side s).call m (.lstat (kp j)) = (m1, .ok (.info i))) :
    ∃ n, S.view s m j = some n ∧ InfoForL i n := by
  cases hv : S.view s m j with
  | none =>
    obtain ⟨e, he, _⟩ := S.lstat_none hg hj hna hv
    rw [he] at hc; cases hc
  | some n =>
    obtain ⟨i', hi, hf⟩ := S.lstat_some hg hj hv
    rw [hi] at hc
    cases hc
    exact ⟨n, rfl, hf⟩

theorem fsiLstat_spec (S : LSim cfg) {m : MFS} {j : Key} (hg : S.G m) (hj : PKey j)
    (hna : NoLinkAnc (S.view .base m) j) :
    (fsiLstat (cfg.side .base) m (kp j)).1 = m ∧
      ∀ i, (fsiLstat (cfg.side .base) m (kp j)).2 = .ok i → ∃ n, S.view .base m j = some n ∧ InfoForL i n := by
  unfold fsiLstat
  cases hc : (cfg.side .base).call m (.lstat (kp j)) with
  | mk m1 r =>
    have hm : m1 = m := S.pure_lstat hc
    subst hm
    cases r with
    | error e => exact ⟨rfl, by intro i h; cases h⟩
    | ok ret =>
      cases ret with
      | info i => exact ⟨rfl, by intro i' h; cases h; exact lstat_info S hg hj hna hc⟩
      | unit => exact ⟨rfl, by intro i h; cases h⟩
      | str _ => exact ⟨rfl, by intro i h; cases h⟩
      | handle _ => exact ⟨rfl, by intro i h; cases h⟩

theorem fsiReadDirNames_spec (S : LSim cfg) {m : MFS} {j : Key} (hg : S.G m) (hj : PKey j)
    (hacc : AccF (S.view .base m) j) :
    (fsiReadDirNames (cfg.side .base) m (kp j)).1 = m ∧
      ∀ ns, (fsiReadDirNames (cfg.side .base) m (kp j)).2 = .ok ns → ∀ n ∈ ns, Plain n := by
  unfold fsiReadDirNames
  cases hc : (cfg.side .base).call m (.open_ (kp j)) with
  | mk m1 r =>
    have hm : m1 = m := S.pure_open hc
    subst hm
    cases r with
    | error e => exact ⟨rfl, by intro i h; cases h⟩
    | ok ret =>
      cases ret with
      | handle h =>
        simp only
        obtain ⟨hH, _⟩ := S.open_handle hg hj hacc hc
        cases hr : (cfg.side .base).hreaddirnames m1 h with
        | error e => exact ⟨rfl, by intro i h; cases h⟩
        | ok names =>
          refine ⟨rfl, ?_⟩
          intro ns hns
          cases hns
          intro n hn
          exact S.readdir_plain hg hH hr n ((sortBy_perm strLt names).mem_iff.mp hn)
      | unit => exact ⟨rfl, by intro i h; cases h⟩
      | str _ => exact ⟨rfl, by intro i h; cases h⟩
      | info _ => exact ⟨rfl, by intro i h; cases h⟩

/-! ### the walk function -/

/-- every collected directory can be named without traversing a symlink: it was a live directory
when collected and no symlink has appeared since -/
def DirsAcc (S : LSim cfg) (m : MFS) (a : List Path) : Prop :=
  ∀ j, PKey j → kp j ∈ a → NoLinkAnc (S.view .base m) j

theorem DirsAcc.mono {S : LSim cfg} {m m' : MFS} {a : List Path} (h : DirsAcc S m a)
    (hm : LinkMono (S.view .base m) (S.view .base m')) : DirsAcc S m' a :=
  fun j hj hmem => noLinkAnc_mono hm (h j hj hmem)

/-- state of the walk -/
structure WSt (S : LSim cfg) (rt : Key) (hks : List Key) (k : Key) (m0 m : MFS) (a : List Path) : Prop where
  frame : Frame S rt (Touch hks (S.view .base m0) k) m0 m
  dirs : DirsOK hks k a
  acc : DirsAcc S m a

section
variable {S : LSim cfg} {rt : Key} {hs : List Path} {hks : List Key} {k : Key} {m0 : MFS}

/-- a non-hidden key below `k` whose current node is not a directory (a file or a symlink) is
touchable -/
theorem touch_of_nondir {m : MFS} {a : List Path} {j : Key} {n : Node} (h : WSt S rt hks k m0 m a)
    (hkj : k <+: j) (hh : ¬ HidK hks j) (hv : S.view .base m j = some n) (hn : n.isDir = false) :
    Touch hks (S.view .base m0) k j := by
  refine ⟨hkj, hh, ?_⟩
  intro ⟨hp, mt, hd⟩
  by_cases ht : Touch hks (S.view .base m0) k j
  · exact ht.2.2 ⟨hp, mt, hd⟩
  · have := h.frame.same j ht
    rw [hv, hd] at this
    cases this
    cases hn

theorem hiddenRemoveFn_safe (D : LSimDir S rt) (H : HidKeys hs hks) (hne : k ≠ []) {m : MFS} {a : List Path}
    {j : Key} {info : Option Info} {err : Option Err} (h : WSt S rt hks k m0 m a) (hj : PKey j) (hkj : k <+: j)
    (hinfo : ∀ i, info = some i → ∃ n, S.view .base m j = some n ∧ InfoForL i n) :
    WSt S rt hks k m0 (hiddenRemoveFn hs (cfg.side .base) m a (kp j) info err).1.1
      (hiddenRemoveFn hs (cfg.side .base) m a (kp j) info err).1.2 ∧
    LinkMono (S.view .base m) (S.view .base (hiddenRemoveFn hs (cfg.side .base) m a (kp j) info err).1.1) := by
  unfold hiddenRemoveFn
  cases err with
  | some e => exact ⟨h, LinkMono.refl _⟩
  | none =>
    simp only [isHidden_kp H hj]
    by_cases hh : HidK hks j
    · simp only [hh, decide_true]; exact ⟨h, LinkMono.refl _⟩
    · simp only [hh, decide_false]
      cases info with
      | none => exact ⟨h, LinkMono.refl _⟩
      | some i =>
        simp only
        obtain ⟨n, hv, hf⟩ := hinfo i rfl
        cases hd : i.isDir with
        | true =>
          simp only [if_true]
          refine ⟨⟨h.frame, ?_, ?_⟩, LinkMono.refl _⟩
          · intro p hp
            rcases List.mem_append.mp hp with hp | hp
            · exact h.dirs p hp
            · simp only [List.mem_singleton] at hp
              exact ⟨j, hj, hkj, hh, hp⟩
          · intro j' hj' hp
            rcases List.mem_append.mp hp with hp | hp
            · exact h.acc j' hj' hp
            · simp only [List.mem_singleton] at hp
              have := kp_inj hj' hj hp
              subst this
              exact noLinkAnc_of_present S h.frame.good (by rw [hv]; simp)
        | false =>
          simp only [Bool.false_eq_true, if_false]
          have hvis : isHidden (kp j) hs = .ok false := by rw [isHidden_kp H hj]; simp [hh]
          rw [translate_remove_visible hvis]
          simp only
          have ht : Touch hks (S.view .base m0) k j :=
            touch_of_nondir h hkj hh hv (by rw [← infoForL_isDir hf]; exact hd)
          have hna : NoLinkAnc (S.view .base m) j := noLinkAnc_of_present S h.frame.good (by rw [hv]; simp)
          cases hc : (cfg.side .base).call m (.remove (kp j)) with
          | mk m1 r =>
            obtain ⟨hfr, hmono⟩ := h.frame.remove D hj (ne_nil_of_prefix hne hkj) ht hna hc
            cases r <;> exact ⟨⟨hfr, h.dirs, h.acc.mono hmono⟩, hmono⟩

/-! ### the walk -/

def WalkRecSafe (S : LSim cfg) (rt : Key) (hs : List Path) (hks : List Key) (k : Key) (m0 : MFS) (fuel : Nat) :
    Prop :=
  ∀ (m : MFS) (a : List Path) (j : Key) (info : Info), WSt S rt hks k m0 m a → PKey j → k <+: j →
    (∃ n, S.view .base m j = some n ∧ InfoForL info n) →
    WSt S rt hks k m0
      (walkRec (fsiWalkOps (cfg.side .base)) (hiddenRemoveFn hs (cfg.side .base)) fuel m a (kp j) info).1.1
      (walkRec (fsiWalkOps (cfg.side .base)) (hiddenRemoveFn hs (cfg.side .base)) fuel m a (kp j) info).1.2 ∧
    LinkMono (S.view .base m) (S.view .base
      (walkRec (fsiWalkOps (cfg.side .base)) (hiddenRemoveFn hs (cfg.side .base)) fuel m a (kp j) info).1.1)

def WalkNamesSafe (S : LSim cfg) (rt : Key) (hs : List Path) (hks : List Key) (k : Key) (m0 : MFS) (fuel : Nat) :
    Prop :=
  ∀ (names : List Name) (m : MFS) (a : List Path) (j : Key), (∀ n ∈ names, Plain n) →
    WSt S rt hks k m0 m a → PKey j → k <+: j → AccF (S.view .base m) j →
    WSt S rt hks k m0
      (walkNames (fsiWalkOps (cfg.side .base)) (hiddenRemoveFn hs (cfg.side .base)) fuel m a (kp j) names).1.1
      (walkNames (fsiWalkOps (cfg.side .base)) (hiddenRemoveFn hs (cfg.side .base)) fuel m a (kp j) names).1.2 ∧
    LinkMono (S.view .base m) (S.view .base
      (walkNames (fsiWalkOps (cfg.side .base)) (hiddenRemoveFn hs (cfg.side .base)) fuel m a (kp j) names).1.1)

theorem walkNamesSafe_of_rec {fuel : Nat}
    (hrec : WalkRecSafe S rt hs hks k m0 fuel) : WalkNamesSafe S rt hs hks k m0 fuel := by
  intro names
  induction names with
  | nil =>
    intro m a j _ h _ _ _
    rw [walkNames]
    exact ⟨h, LinkMono.refl _⟩
  | cons n rest ih =>
    intro m a j hpl h hj hkj hacc
    have hn : Plain n := hpl n (by simp)
    have hrest : ∀ x ∈ rest, Plain x := fun x hx => hpl x (List.mem_cons_of_mem _ hx)
    have hj' : PKey (j ++ [n]) := hj.snoc hn
    have hkj' : k <+: j ++ [n] := hkj.trans (List.prefix_append _ _)
    rw [walkNames]
    simp only [join_kp hj hn]
    have hl := fsiLstat_spec S (j := j ++ [n]) h.frame.good hj' (noLinkAnc_snoc hacc n)
    cases hls : (fsiWalkOps (cfg.side .base)).lstat m (kp (j ++ [n])) with
    | mk m1 r1 =>
      rw [show fsiLstat (cfg.side .base) m (kp (j ++ [n])) = (m1, r1) from hls] at hl
      obtain ⟨hm, hi⟩ := hl
      simp only at hm hi
      subst hm
      cases r1 with
      | error e =>
        simp only [hiddenRemoveFn_err]
        exact ⟨h, LinkMono.refl _⟩
      | ok fi =>
        simp only
        have hr := hrec m1 a (j ++ [n]) fi h hj' hkj' (hi fi rfl)
        cases hw : walkRec (fsiWalkOps (cfg.side .base)) (hiddenRemoveFn hs (cfg.side .base)) fuel m1 a (kp (j ++ [n])) fi with
        | mk sa oe =>
          rw [hw] at hr
          obtain ⟨s2, a2⟩ := sa
          cases oe with
          | some e' => exact hr
          | none =>
            obtain ⟨hr1, hr2⟩ := hr
            obtain ⟨h3, h4⟩ := ih s2 a2 j hrest hr1 hj hkj (accF_mono hr2 hacc)
            exact ⟨h3, LinkMono.trans hr2 h4⟩

theorem walk_safe (D : LSimDir S rt) (H : HidKeys hs hks) (hne : k ≠ []) :
    ∀ fuel, WalkRecSafe S rt hs hks k m0 fuel ∧ WalkNamesSafe S rt hs hks k m0 fuel
  | 0 => by
    have hrec : WalkRecSafe S rt hs hks k m0 0 := by
      intro m a j info h _ _ _
      rw [walkRec]
      exact ⟨h, LinkMono.refl _⟩
    exact ⟨hrec, walkNamesSafe_of_rec hrec⟩
  | fuel + 1 => by
    have ih := (walk_safe D H hne fuel).2
    have hrec : WalkRecSafe S rt hs hks k m0 (fuel + 1) := by
      intro m a j info h hj hkj hinfo
      rw [walkRec]
      have hfn := hiddenRemoveFn_safe (info := some info) (err := none) D H hne h hj hkj
        (by intro i hi; cases hi; exact hinfo)
      cases hf : hiddenRemoveFn hs (cfg.side .base) m a (kp j) (some info) none with
      | mk sa oe =>
        rw [hf] at hfn
        obtain ⟨s1, a1⟩ := sa
        obtain ⟨hfn, hmono1⟩ := hfn
        simp only at hfn hmono1
        cases oe with
        | some e => exact ⟨hfn, hmono1⟩
        | none =>
          simp only
          cases hd : info.isDir with
          | false =>
            simp only [Bool.not_false, if_true]
            exact ⟨hfn, hmono1⟩
          | true =>
            simp only [Bool.not_true, Bool.false_eq_true, if_false]
            obtain ⟨n, hv, hfi⟩ := hinfo
            have hdir : (S.view .base m).isDirAt j := by
              have : n.isDir = true := by rw [← infoForL_isDir hfi]; exact hd
              cases n with
              | dir mt => exact ⟨mt, hv⟩
              | file _ _ => cases this
              | link _ _ => cases this
            have hacc : AccF (S.view .base s1) j := accF_mono hmono1 (accF_of_dir S h.frame.good hdir)
            have hrd := fsiReadDirNames_spec S (j := j) hfn.frame.good hj hacc
            cases hr : (fsiWalkOps (cfg.side .base)).readDirNames s1 (kp j) with
            | mk s2 r2 =>
              rw [show fsiReadDirNames (cfg.side .base) s1 (kp j) = (s2, r2) from hr] at hrd
              obtain ⟨hm, hpl⟩ := hrd
              simp only at hm hpl
              subst hm
              cases r2 with
              | error e => simp only [hiddenRemoveFn_err]; exact ⟨hfn, hmono1⟩
              | ok names =>
                obtain ⟨h3, h4⟩ := ih names s2 a1 j (hpl names rfl) hfn hj hkj hacc
                exact ⟨h3, LinkMono.trans hmono1 h4⟩
    exact ⟨hrec, walkNamesSafe_of_rec hrec⟩

theorem walkTree_safe (D : LSimDir S rt) (H : HidKeys hs hks) (hne : k ≠ []) {m : MFS} (fuel : Nat)
    (h : WSt S rt hks k m0 m []) (hk : PKey k) (hna : NoLinkAnc (S.view .base m) k) :
    WSt S rt hks k m0
      (walkTree (fsiWalkOps (cfg.side .base)) (hiddenRemoveFn hs (cfg.side .base)) fuel m [] (kp k)).1.1
      (walkTree (fsiWalkOps (cfg.side .base)) (hiddenRemoveFn hs (cfg.side .base)) fuel m [] (kp k)).1.2 := by
  unfold walkTree
  have hl := fsiLstat_spec S (j := k) h.frame.good hk hna
  cases hls : (fsiWalkOps (cfg.side .base)).lstat m (kp k) with
  | mk m1 r1 =>
    rw [show fsiLstat (cfg.side .base) m (kp k) = (m1, r1) from hls] at hl
    obtain ⟨hm, hi⟩ := hl
    simp only at hm hi
    subst hm
    cases r1 with
    | error e => simp only [hiddenRemoveFn_err]; exact h
    | ok info => exact ((walk_safe D H hne fuel).1 m1 [] k info h hk (List.prefix_refl _) (hi info rfl)).1

/-! ### removing the collected directories -/

theorem hiddenRemoveDirs_safe (D : LSimDir S rt) (H : HidKeys hs hks) (hne : k ≠ []) :
    ∀ (ds : List Path) (m : MFS), Frame S rt (Touch hks (S.view .base m0) k) m0 m → DirsOK hks k ds →
      DirsAcc S m ds →
      Frame S rt (Touch hks (S.view .base m0) k) m0 (hiddenRemoveDirs hs (cfg.side .base) m ds).1
  | [], m, h, _, _ => by
    rw [hiddenRemoveDirs]
    exact h
  | d :: ds, m, h, hd, hacc => by
    obtain ⟨j, hj, hkj, hh, rfl⟩ := hd d (by simp)
    have hds : DirsOK hks k ds := fun p hp => hd p (List.mem_cons_of_mem _ hp)
    have haccs : DirsAcc S m ds := fun j' hj' hm => hacc j' hj' (List.mem_cons_of_mem _ hm)
    rw [hiddenRemoveDirs]
    simp only [isParentOfHidden_kp H hj]
    by_cases hp : ParK hks j
    · simp only [hp, decide_true]
      exact hiddenRemoveDirs_safe D H hne ds m h hds haccs
    · simp only [hp, decide_false]
      have ht : Touch hks (S.view .base m0) k j := ⟨hkj, hh, fun hc => hp hc.1⟩
      cases hc : (cfg.side .base).call m (.remove (kp j)) with
      | mk m1 r =>
        obtain ⟨hfr, hmono⟩ := h.remove D hj (ne_nil_of_prefix hne hkj) ht (hacc j hj (by simp)) hc
        cases r with
        | error e => exact hfr
        | ok _ =>
          exact hiddenRemoveDirs_safe D H hne ds m1 hfr hds
            (haccs.mono hmono)

theorem dirsAcc_sortMost {m : MFS} {a : List Path} (h : DirsAcc S m a) : DirsAcc S m (sortMost a) :=
  fun j hj hp => h j hj ((sortBy_perm _ a).mem_iff.mp hp)

/-! ### `HiddenFS.RemoveAll` -/

theorem hiddenRemoveAll_frame (D : LSimDir S rt) (H : HidKeys hs hks) {m : MFS} (hk : PKey k) (hne : k ≠ [])
    (hg : S.G m) (hna : NoLinkAnc (S.view .base m) k) (fuel : Nat) :
    Frame S rt (Touch hks (S.view .base m) k) m (hiddenRemoveAll hs (cfg.side .base) fuel m (kp k)).1 := by
  unfold hiddenRemoveAll
  have h0 : WSt S rt hks k m m [] :=
    ⟨Frame.refl hg, (by intro p hp; cases hp), (by intro j _ hp; cases hp)⟩
  by_cases hh : HidK hks k
  · have : isHidden (kp k) hs = .ok true := by rw [isHidden_kp H hk]; simp [hh]
    rw [hguard_of_hidden _ this]
    exact h0.frame
  · have hvis : isHidden (kp k) hs = .ok false := by rw [isHidden_kp H hk]; simp [hh]
    rw [hguard_of_visible _ hvis]
    simp only
    cases hc : (cfg.side .base).call m (.lstat (kp k)) with
    | mk m1 r =>
      have hm : m1 = m := S.pure_lstat hc
      subst hm
      cases r with
      | error e => simp only; split <;> exact h0.frame
      | ok ret =>
        cases ret with
        | unit => exact h0.frame
        | str _ => exact h0.frame
        | handle _ => exact h0.frame
        | info fi =>
          simp only
          obtain ⟨n, hv, hf⟩ := lstat_info S hg hk hna hc
          cases hd : fi.isDir with
          | false =>
            simp only [Bool.not_false, if_true]
            have ht : Touch hks (S.view .base m1) k k :=
              touch_of_nondir h0 (List.prefix_refl _) hh hv (by rw [← infoForL_isDir hf]; exact hd)
            cases hc2 : (cfg.side .base).call m1 (.remove (kp k)) with
            | mk m2 r2 =>
              have hfr := (h0.frame.remove D hk hne ht hna hc2).1
              cases r2 <;> exact hfr
          | true =>
            simp only [Bool.not_true, Bool.false_eq_true, if_false]
            have hw := walkTree_safe D H hne fuel h0 hk hna
            cases hx : walkTree (fsiWalkOps (cfg.side .base)) (hiddenRemoveFn hs (cfg.side .base)) fuel m1 [] (kp k) with
            | mk sa oe =>
              rw [hx] at hw
              obtain ⟨s2, a2⟩ := sa
              cases oe with
              | some e => exact hw.frame
              | none =>
                exact hiddenRemoveDirs_safe D H hne (sortMost a2) s2 hw.frame (dirsOK_sortMost hw.dirs)
                  (dirsAcc_sortMost hw.acc)

/-- (A) safety of `HiddenFS.RemoveAll` on trees with symlinks, whatever it returns and whatever the
fuel, for an argument no proper ancestor of which is a symlink: the result is a well-formed disk, the
other filesystem is untouched, nothing outside the subtree is touched, hidden entries (a symlink AT a
hidden path too) and everything below them are untouched, and so is every directory leading to a
hidden entry; no symlink is created; the raw disk is unchanged at every key that is not a touchable
base key; on a hidden argument nothing happens at all. -/
theorem hiddenRemoveAll_safe (S : LSim cfg) {rt : Key} (D : LSimDir S rt) {hs : List Path} {hks : List Key}
    (H : HidKeys hs hks) {k : Key} (hk : PKey k) (hne : k ≠ []) {m : MFS} (hg : S.G m)
    (hna : NoLinkAnc (S.view .base m) k) (fuel : Nat) :
    S.G (hiddenRemoveAll hs (cfg.side .base) fuel m (kp k)).1 ∧
    S.view .backup (hiddenRemoveAll hs (cfg.side .base) fuel m (kp k)).1 = S.view .backup m ∧
    (∀ j, ¬ k <+: j →
      S.view .base (hiddenRemoveAll hs (cfg.side .base) fuel m (kp k)).1 j = S.view .base m j) ∧
    (∀ j, HidK hks j →
      S.view .base (hiddenRemoveAll hs (cfg.side .base) fuel m (kp k)).1 j = S.view .base m j) ∧
    (∀ j, ParK hks j → (S.view .base m).isDirAt j →
      S.view .base (hiddenRemoveAll hs (cfg.side .base) fuel m (kp k)).1 j = S.view .base m j) ∧
    LinkMono (S.view .base m) (S.view .base (hiddenRemoveAll hs (cfg.side .base) fuel m (kp k)).1) ∧
    (∀ K, (∀ j, K = rt ++ j → ¬ Touch hks (S.view .base m) k j) →
      ((hiddenRemoveAll hs (cfg.side .base) fuel m (kp k)).1.get K).map eraseMt = (m.get K).map eraseMt) ∧
    (HidK hks k → hiddenRemoveAll hs (cfg.side .base) fuel m (kp k) = (m, .error .hiddenNotExist)) := by
  have hf := hiddenRemoveAll_frame (S := S) D H hk hne hg hna fuel
  refine ⟨hf.good, hf.other, ?_, ?_, ?_, hf.mono, hf.raw, hiddenRemoveAll_hidden H hk fuel⟩
  · intro j hj; exact hf.same j (fun ht => hj ht.1)
  · intro j hj; exact hf.same j (fun ht => ht.2.1 hj)
  · intro j hp hd; exact hf.same j (fun ht => ht.2.2 ⟨hp, hd⟩)

end

end HL
end BFS
