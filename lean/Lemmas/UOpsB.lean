import Lemmas.UStep
import Lemmas.UPrepB
/-!
  Lemmas/UOpsB.lean — tier 2 of C03 through flat symlinks: with the backup-side clauses `U.BInvL`
  (healthy filesystems, backup empty at the start of the transaction)

  * `prepare_flatB`: `prepare` keeps `L.Inv` and `BInvL`, and FAILS only with `errDirInfoExpected` because a
    proper ancestor of the resolved key is a regular file (`FileAnc`);
  * `namei_fileAnc`: the kernel then fails on the caller's name with a not-found-class error (ENOTDIR), so
    every direct call fails and changes nothing;
  * the base call(s) of an operation keep `BInvL` (they do not change the backup view: the frame laws of
    `Lemmas/LSimOS*.lean`).
-/
namespace BFS
namespace U
open BackupFS MFS F16

section
variable {bk kk : Key}

/-- what `prepare` leaves behind, with the backup-side clauses -/
structure PrepFactsB (hr : Roots bk kk) (v0 : View) (r0 : Option Node) (w : World) (r : Key)
    (pw : World × Except Err Path) : Prop where
  inv : L.Inv (osSimLR hr) v0 pw.1
  b : BInvL (osSimLR hr) r0 pw.1
  base : L.osViewL bk kk .base pw.1.fs = L.osViewL bk kk .base w.fs
  res : ∀ p, pw.2 = .ok p → p = kp r
  fail : ∀ e, pw.2 = .error e → e = .typeMismatch ∧ FileAnc (L.osViewL bk kk .base w.fs) r

/-- the resolved key, if a symlink, can be re-created on both sides -/
def LinkOKBoth (bk kk : Key) (w : World) (r : Key) : Prop :=
  ∀ t mt, L.osViewL bk kk .base w.fs r = some (.link t mt) →
    L.osLinkOK bk kk .base r t ∧ L.osLinkOK bk kk .backup r t

theorem prepare_flatB (hr : Roots bk kk) {v0 : View} {r0 : Option Node} {w : World} {name : Path} {k : Key}
    (hinv : L.Inv (osSimLR hr) v0 w) (hb : BInvL (osSimLR hr) r0 w) (hflat : Flat bk w.fs) (hk : PKey k)
    (hname : clean name = kp k) (hlok : LinkOKBoth bk kk w (L.G.rk bk w k)) :
    PrepFactsB hr v0 r0 w (L.G.rk bk w k) (prepare (osCfg bk kk) name w) := by
  have hg : L.OSGoodL bk kk w.fs := hinv.good
  have hnf := hb.nofault
  have hrk := L.G.rk_pkey hr hg hflat hk
  have hacc := L.G.rk_noLinkAnc (kk := kk) hg hflat k
  have key : Sat (prepare (osCfg bk kk) name) w (fun w' r' =>
      L.Inv (osSimLR hr) v0 w' ∧ BInvL (osSimLR hr) r0 w' ∧
      L.osViewL bk kk .base w'.fs = L.osViewL bk kk .base w.fs ∧
      (∀ p, r' = .ok p → p = kp (L.G.rk bk w k)) ∧
      (∀ e, r' = .error e → e = .typeMismatch ∧ FileAnc (L.osViewL bk kk .base w.fs) (L.G.rk bk w k))) := by
    unfold prepare
    apply Sat.bind
    apply (L.G.sat_realPath_flat hr hnf hg hflat hk hname).mono
    intro w1 r1 ⟨hs1, hr1⟩
    subst hr1
    simp only
    have hinv1 := hinv.of_same hs1
    have hb1 := hb.of_same hs1
    apply Sat.bind
    apply (sat_tryBackupTL (S := osSimLR hr) hinv1 hb1 hrk
      (by show L.NoLinkAnc (L.osViewL bk kk .base w1.fs) _; rw [hs1.fs]; exact hacc)
      (by
        intro t mt hv
        have hv' : L.osViewL bk kk .base w1.fs (L.G.rk bk w k) = some (.link t mt) := hv
        rw [hs1.fs] at hv'
        exact hlok t mt hv')).mono
    intro w2 r2 ⟨hadv2, _, hfail⟩
    have hbase : L.osViewL bk kk .base w2.fs = L.osViewL bk kk .base w.fs := by
      have h := hadv2.adv.base
      have h' : L.osViewL bk kk .base w2.fs = L.osViewL bk kk .base w1.fs := h
      rw [h', hs1.fs]
    cases r2 with
    | error e =>
      refine ⟨hadv2.adv.inv, hadv2.b, hbase, (by intro p h; cases h), ?_⟩
      intro e' he'
      cases he'
      obtain ⟨h1, h2⟩ := hfail e rfl
      have h2' : FileAnc (L.osViewL bk kk .base w1.fs) (L.G.rk bk w k) := h2
      rw [hs1.fs] at h2'
      exact ⟨h1, h2'⟩
    | ok u =>
      apply Sat.pure
      exact ⟨hadv2.adv.inv, hadv2.b, hbase, (by intro p h; cases h; rfl), (by intro e h; cases h)⟩
  obtain ⟨a, b, c, d, e⟩ := key.elim
  exact ⟨a, b, c, d, e⟩

/-- below a regular file the kernel fails with a not-found-class error, on the resolved and (flat disk) on the
caller's name, following or not -/
theorem namei_fileAnc (hr : Roots bk kk) {m : MFS} (hg : L.OSGoodL bk kk m) (hflat : Flat bk m) {k : Key} (hk : PKey k)
    (hlen : k.length ≤ 40) (hfa : FileAnc (L.osViewL bk kk .base m) (resK m bk [] k)) (f : Bool) :
    ∃ e, namei m (kp (bk ++ k)) f = .err e ∧ e.isNotFound = true := by
  have hrk : PKey (resK m bk [] k) := resK_pkey hr.pb hg hflat k [] PKey.nil hk
  have hK : PKey (bk ++ resK m bk [] k) := hr.pb.append hrk
  have hnl : L.NoLinkProper m (bk ++ resK m bk [] k) :=
    fun p hp hne t mt => resK_nolink hg hflat k [] (noLinkUpto_root hg) p hp hne t mt
  obtain ⟨a, ha, hane, hfile⟩ := hfa
  obtain ⟨c, mt, hget⟩ := L.osViewL_isFileAt (s := .base) hfile
  have hget' : m.get (bk ++ a) = some (.file c mt) := hget
  have hpre : bk ++ a <+: bk ++ resK m bk [] k := (List.prefix_append_right_inj _).mpr ha
  have hne : bk ++ a ≠ bk ++ resK m bk [] k := fun e => hane (List.append_cancel_left e)
  have hnone : m.get (bk ++ resK m bk [] k) = none := hg.below_nondir hpre hne hget' rfl
  have hres := namei_resK hr hg hflat hk hlen
  have hfalse : ∃ e, namei m (kp (bk ++ k)) false = .err e ∧ e.isNotFound = true := by
    rw [← hres]
    rcases L.namei_cases_nf hg hK hnl (TextOf.kp _) with ⟨n1, h1, _⟩ | ⟨hKne, pmt, _, hp, _⟩ | ⟨e, _, _, _, hr1, he⟩
    · rw [hnone] at h1; cases h1
    · -- the parent would be a live directory: impossible below a file
      exfalso
      have hpp : bk ++ a <+: (bk ++ resK m bk [] k).dropLast := prefix_dropLast hpre hne
      by_cases he : bk ++ a = (bk ++ resK m bk [] k).dropLast
      · rw [← he, hget'] at hp; cases hp
      · have := hg.below_nondir hpp he hget' rfl
        rw [this] at hp; cases hp
    · exact ⟨e, hr1, he⟩
  cases f with
  | false => exact hfalse
  | true =>
    obtain ⟨e, he1, he2⟩ := hfalse
    refine ⟨e, ?_, he2⟩
    rw [namei_follow_eq m _ (by rw [he1]; trivial), he1]

/-! ### the tier-2 facts of one operation -/

/-- the error of the direct call where BackupFS reports `errDirInfoExpected`: a not-found-class error (ENOTDIR:
a proper ancestor of the name is a regular file), or EPERM when `PrefixFS` refuses the call before the kernel
sees it (`Symlink` with a relative target climbing out of the base) -/
def FailCls (e : Err) : Prop := e.isNotFound = true ∨ e = .perm

/-- the backup-side clauses hold again after the operation; and a failing backup phase fails with
`errDirInfoExpected` exactly where the direct call fails too (`FailCls`), changing nothing -/
structure StepB (hr : Roots bk kk) (r0 : Option Node) (w : World) (op : Op) : Prop where
  binv : BInvL (osSimLR hr) r0 (Op.exec (osCfg bk kk) op w).1
  fail : ∀ e, (Op.backupPhase (osCfg bk kk) op w).2 = .error e → e = .typeMismatch ∧
    (Op.direct (baseFS bk kk) w.fs op).1 = w.fs ∧
    ∃ e', (Op.direct (baseFS bk kk) w.fs op).2 = .error e' ∧ FailCls e'

/-- a base call returning nothing, then `pure .unit`: disk, result, tracked map, fault plan -/
theorem sat_unit_full {cfg : Cfg} {c : Call} {w : World} (hnf : w.faults = []) :
    Sat (do primUnit cfg .base c; pure OpOut.unit : M OpOut) w (fun w' r =>
      w'.fs = ((cfg.side .base).call w.fs c).1 ∧
      r = ((cfg.side .base).call w.fs c).2.map (fun _ => OpOut.unit) ∧
      w'.infos = w.infos ∧ w'.faults = w.faults) := by
  apply Sat.bind
  unfold primUnit
  apply Sat.bind
  apply (sat_primCall_nf hnf).mono
  intro w1 r ⟨hfs, hr, hi, hf⟩
  cases r with
  | error e => exact ⟨hfs, by rw [← hr]; rfl, hi, hf⟩
  | ok a =>
    apply Sat.pure
    apply Sat.pure
    exact ⟨hfs, by rw [← hr]; rfl, hi, hf⟩

/-- single-path mutators without a handle, general form: what the direct call does below a regular file is a
hypothesis -/
theorem single_stepB' (hr : Roots bk kk) {v0 : View} {r0 : Option Node} {w : World} {name : Path} {k : Key}
    {c : Path → Call} {d : MFS × Except Err DOut}
    (hinv : L.Inv (osSimLR hr) v0 w) (hb : BInvL (osSimLR hr) r0 w) (hflat : Flat bk w.fs) (hk : PKey k)
    (hname : clean name = kp k) (hlok : LinkOKBoth bk kk w (L.G.rk bk w k))
    (hdfail : FileAnc (L.osViewL bk kk .base w.fs) (L.G.rk bk w k) → d.1 = w.fs ∧ ∃ e', d.2 = .error e' ∧ FailCls e')
    (hframe : ∀ m m' res, L.OSGoodL bk kk m → L.osViewL bk kk .base m = L.osViewL bk kk .base w.fs →
      (baseFS bk kk).call m (c (kp (L.G.rk bk w k))) = (m', res) →
      L.osViewL bk kk .backup m' = L.osViewL bk kk .backup m) :
    BInvL (osSimLR hr) r0
        ((do (prepare (osCfg bk kk) name >>= fun r => primUnit (osCfg bk kk) .base (c r)); pure OpOut.unit : M OpOut) w).1 ∧
      (∀ e, (prepare (osCfg bk kk) name w).2 = .error e → e = .typeMismatch ∧ d.1 = w.fs ∧
        ∃ e', d.2 = .error e' ∧ FailCls e') := by
  have hfacts := prepare_flatB hr hinv hb hflat hk hname hlok
  constructor
  · show BInvL _ r0 (((prepare (osCfg bk kk) name >>= fun r => primUnit (osCfg bk kk) .base (c r)) >>= fun _ => pure OpOut.unit) w).1
    simp only [M.bind_apply]
    revert hfacts
    cases prepare (osCfg bk kk) name w with
    | mk w1 pr =>
      intro hfacts
      cases pr with
      | error e => exact hfacts.b
      | ok p =>
        have hp := hfacts.res p rfl
        subst hp
        simp only
        have hsat := (sat_unit_full (cfg := osCfg bk kk) (c := c (kp (L.G.rk bk w k))) hfacts.b.nofault).elim
        obtain ⟨hfs, _, hi, hf⟩ := hsat
        have hcall : (baseFS bk kk).call w1.fs (c (kp (L.G.rk bk w k))) =
            (((baseFS bk kk).call w1.fs (c (kp (L.G.rk bk w k)))).1, ((baseFS bk kk).call w1.fs (c (kp (L.G.rk bk w k)))).2) := rfl
        have hv := hframe _ _ _ hfacts.inv.good hfacts.base hcall
        have hgoal : BInvL (osSimLR hr) r0
            ((do primUnit (osCfg bk kk) .base (c (kp (L.G.rk bk w k))); pure OpOut.unit : M OpOut) w1).1 := by
          apply hfacts.b.of_eq _ hi hf
          show L.osViewL bk kk .backup _ = L.osViewL bk kk .backup w1.fs
          rw [hfs]
          exact hv
        simp only [M.bind_apply] at hgoal
        exact hgoal
  · intro e he
    obtain ⟨h1, hfa⟩ := hfacts.fail e he
    obtain ⟨a, b⟩ := hdfail hfa
    exact ⟨h1, a, b⟩

/-- the direct call below a regular file, for a call that `PrefixFS` forwards as one syscall failing where
name resolution fails -/
theorem dfail_of_sys (hr : Roots bk kk) {w : World} {name : Path} {k : Key} {c : Path → Call}
    {sys : MFS → Path → MFS × Except Err Unit} {f : Bool}
    (hg : L.OSGoodL bk kk w.fs) (hflat : Flat bk w.fs) (hk : PKey k) (hlen : k.length ≤ 40)
    (hspell : ∀ m, (baseFS bk kk).call m (c name) = (baseFS bk kk).call m (c (kp k)))
    (hside : ∀ m j, PKey j → (baseFS bk kk).call m (c (kp j)) =
      ((sys m (kp (bk ++ j))).1, (sys m (kp (bk ++ j))).2.map (fun _ => Ret.unit)))
    (hsys_err : ∀ m t e, namei m t f = .err e → e.isNotFound = true →
      ∃ e', sys m t = (m, .error e') ∧ e'.isNotFound = true)
    (hfa : FileAnc (L.osViewL bk kk .base w.fs) (L.G.rk bk w k)) :
    (directUnit (baseFS bk kk) w.fs (c name)).1 = w.fs ∧
      ∃ e', (directUnit (baseFS bk kk) w.fs (c name)).2 = .error e' ∧ FailCls e' := by
  obtain ⟨e0, hn, hnf0⟩ := namei_fileAnc hr hg hflat hk hlen hfa f
  have hd1 := directUnit_fst (baseFS bk kk) w.fs (c name)
  have hd2 := directUnit_snd (baseFS bk kk) w.fs (c name)
  rw [hspell, hside w.fs k hk] at hd1 hd2
  simp only at hd1 hd2
  obtain ⟨e', he', hnf'⟩ := hsys_err w.fs _ e0 hn hnf0
  rw [he'] at hd1 hd2
  exact ⟨hd1, e', hd2, Or.inl hnf'⟩

/-- single-path mutators without a handle -/
theorem single_stepB (hr : Roots bk kk) {v0 : View} {r0 : Option Node} {w : World} {name : Path} {k : Key}
    {c : Path → Call} {sys : MFS → Path → MFS × Except Err Unit} {f : Bool}
    (hinv : L.Inv (osSimLR hr) v0 w) (hb : BInvL (osSimLR hr) r0 w) (hflat : Flat bk w.fs) (hk : PKey k)
    (hname : clean name = kp k) (hlen : k.length ≤ 40) (hlok : LinkOKBoth bk kk w (L.G.rk bk w k))
    (hspell : ∀ m, (baseFS bk kk).call m (c name) = (baseFS bk kk).call m (c (kp k)))
    (hside : ∀ m j, PKey j → (baseFS bk kk).call m (c (kp j)) =
      ((sys m (kp (bk ++ j))).1, (sys m (kp (bk ++ j))).2.map (fun _ => Ret.unit)))
    (hsys_err : ∀ m t e, namei m t f = .err e → e.isNotFound = true →
      ∃ e', sys m t = (m, .error e') ∧ e'.isNotFound = true)
    (hframe : ∀ m m' res, L.OSGoodL bk kk m → L.osViewL bk kk .base m = L.osViewL bk kk .base w.fs →
      (baseFS bk kk).call m (c (kp (L.G.rk bk w k))) = (m', res) →
      L.osViewL bk kk .backup m' = L.osViewL bk kk .backup m) :
    BInvL (osSimLR hr) r0
        ((do (prepare (osCfg bk kk) name >>= fun r => primUnit (osCfg bk kk) .base (c r)); pure OpOut.unit : M OpOut) w).1 ∧
      (∀ e, (prepare (osCfg bk kk) name w).2 = .error e → e = .typeMismatch ∧
        (directUnit (baseFS bk kk) w.fs (c name)).1 = w.fs ∧
        ∃ e', (directUnit (baseFS bk kk) w.fs (c name)).2 = .error e' ∧ FailCls e') :=
  single_stepB' hr hinv hb hflat hk hname hlok
    (dfail_of_sys hr hinv.good hflat hk hlen hspell hside hsys_err) hframe

end

end U
end BFS
