import Lemmas.LSim
import Lemmas.SimDir
/-!
  Lemmas/HLDir.lean — what `HiddenFS.RemoveAll` needs of the contract WITH symlinks (`L.LSim`) and
  `LSim` lacks, as the extension `HL.LSimDir` (the analogue of `SimDir` for `Sim`):
  a directory listing returns exactly the names of the live children, without repetition; a `Remove`
  that reports success has removed the entry; and `Remove` leaves the *raw disk* (not only the
  views) unchanged at every key other than the one named (directory timestamps aside).
  Plus consequences of the static laws of `LSim`: the view is a tree whose inner nodes are
  directories, so no proper ancestor of a live key is a symlink.
-/
namespace BFS
namespace HL
open L

/-- `rt` = the disk key of the root of the base side: base key `j` is the disk key `rt ++ j` -/
structure LSimDir {cfg : Cfg} (S : LSim cfg) (rt : Key) : Prop where
  /-- `Readdirnames(-1)` on a handle of a live directory: exactly the live children (symlinks too) -/
  readdir_dir : ∀ {m s h k}, S.G m → S.H s h k → (S.view s m).isDirAt k →
    ∃ ns, (cfg.side s).hreaddirnames m h = .ok ns ∧ ∀ n, n ∈ ns ↔ S.view s m (k ++ [n]) ≠ none
  /-- a listing names no entry twice -/
  readdir_nodup : ∀ {m s h k ns}, S.G m → S.H s h k → (cfg.side s).hreaddirnames m h = .ok ns → ns.Nodup
  /-- a `Remove` that returns nil has removed the entry -/
  remove_post : ∀ {m s k m' r}, S.G m → PKey k → k ≠ [] → NoLinkAnc (S.view s m) k →
    (cfg.side s).call m (.remove (kp k)) = (m', .ok r) → S.view s m' k = none
  /-- `Remove` on the base side changes the disk at the named key only -/
  remove_raw : ∀ {m k m' r}, S.G m → PKey k → k ≠ [] → NoLinkAnc (S.view .base m) k →
    (cfg.side .base).call m (.remove (kp k)) = (m', r) →
    ∀ K, K ≠ rt ++ k → (m'.get K).map eraseMt = (m.get K).map eraseMt

variable {cfg : Cfg}

/-- every proper ancestor of a live key is a live directory -/
theorem anc (S : LSim cfg) {m : MFS} {s : Side} (hg : S.G m) :
    ∀ (n : Nat) (j : Key), j.length = n → S.view s m j ≠ none →
      ∀ p, p <+: j → p ≠ j → (S.view s m).isDirAt p := by
  intro n
  induction n with
  | zero =>
    intro j hl _ p hp hne
    have : j = [] := List.length_eq_zero_iff.mp hl
    subst this
    exact absurd (List.prefix_nil.mp hp) hne
  | succ n ih =>
    intro j hl hv p hp hne
    have hjne : j ≠ [] := by intro e; rw [e] at hl; cases hl
    have hpar := S.parent_dir hg hv hjne
    have hp' := prefix_dropLast' hp hne
    by_cases he : p = j.dropLast
    · exact he ▸ hpar
    · obtain ⟨mt, hd⟩ := hpar
      exact ih j.dropLast (by simp [hl]) (by rw [hd]; simp) p hp' he

theorem ancestor_dir (S : LSim cfg) {m : MFS} {s : Side} (hg : S.G m) {j p : Key}
    (hv : S.view s m j ≠ none) (hp : p <+: j) (hne : p ≠ j) : (S.view s m).isDirAt p :=
  anc S hg j.length j rfl hv p hp hne

/-- nothing lives below an absent key -/
theorem none_below (S : LSim cfg) {m : MFS} {s : Side} (hg : S.G m) {j p : Key}
    (hp : p <+: j) (hv : S.view s m p = none) : S.view s m j = none := by
  cases hj : S.view s m j with
  | none => rfl
  | some n =>
    exfalso
    by_cases he : p = j
    · rw [he, hj] at hv; cases hv
    · obtain ⟨mt, hd⟩ := ancestor_dir S hg (by rw [hj]; simp) hp he
      rw [hd] at hv; cases hv

/-- nothing lives strictly below a key that is not a directory (a file or a symlink) -/
theorem none_below_nondir (S : LSim cfg) {m : MFS} {s : Side} (hg : S.G m) {j p : Key} {n : Node}
    (hp : p <+: j) (hne : p ≠ j) (hv : S.view s m p = some n) (hn : n.isDir = false) :
    S.view s m j = none := by
  cases hj : S.view s m j with
  | none => rfl
  | some n' =>
    exfalso
    obtain ⟨mt, hd⟩ := ancestor_dir S hg (by rw [hj]; simp) hp hne
    rw [hd] at hv; cases hv; cases hn

/-- no proper ancestor of a live key is a symlink -/
theorem noLinkAnc_of_present (S : LSim cfg) {m : MFS} {s : Side} (hg : S.G m) {j : Key}
    (hv : S.view s m j ≠ none) : NoLinkAnc (S.view s m) j := by
  intro a ha hne ⟨t, mt, hl⟩
  obtain ⟨mt', hd⟩ := ancestor_dir S hg hv ha hne
  rw [hd] at hl; cases hl

/-- a live directory can be named without traversing or following a symlink -/
theorem accF_of_dir (S : LSim cfg) {m : MFS} {s : Side} (hg : S.G m) {j : Key}
    (hd : (S.view s m).isDirAt j) : AccF (S.view s m) j := by
  obtain ⟨mt, hd⟩ := hd
  refine ⟨noLinkAnc_of_present S hg (by rw [hd]; simp), ?_⟩
  intro ⟨t, mt', hl⟩
  rw [hd] at hl; cases hl

/-- the children of such a key have no symlink among their proper ancestors -/
theorem noLinkAnc_snoc {v : View} {j : Key} (h : AccF v j) (n : Name) : NoLinkAnc v (j ++ [n]) := by
  intro a ha hne
  have hp := prefix_dropLast' ha hne
  rw [List.dropLast_concat] at hp
  by_cases he : a = j
  · rw [he]; exact h.2
  · exact h.1 a hp he

theorem LinkMono.refl (v : View) : LinkMono v v := fun _ _ mt' h => ⟨mt', h⟩

theorem LinkMono.trans {a b c : View} (h1 : LinkMono a b) (h2 : LinkMono b c) : LinkMono a c := by
  intro j t mt' h
  obtain ⟨mt1, h'⟩ := h2 j t mt' h
  exact h1 j t mt1 h'

theorem isLinkAt_mono {v v' : View} (h : LinkMono v v') {j : Key} (hl : isLinkAt v' j) : isLinkAt v j := by
  obtain ⟨t, mt', hl⟩ := hl
  obtain ⟨mt, h'⟩ := h j t mt' hl
  exact ⟨t, mt, h'⟩

theorem noLinkAnc_mono {v v' : View} (h : LinkMono v v') {j : Key} (ha : NoLinkAnc v j) : NoLinkAnc v' j :=
  fun a hp hne hl => ha a hp hne (isLinkAt_mono h hl)

theorem accF_mono {v v' : View} (h : LinkMono v v') {j : Key} (ha : AccF v j) : AccF v' j :=
  ⟨noLinkAnc_mono h ha.1, fun hl => ha.2 (isLinkAt_mono h hl)⟩

end HL
end BFS
