import Lemmas.SimOSLaws6
/-!
  Lemmas/SimOSLaws7.lean — `MkdirAll`.
-/
namespace BFS
open MFS

section
variable {bk kk : Key}

theorem infoOf_isDir (nm : Path) (n : Node) : (infoOf nm n).isDir = n.isDir := by
  cases n <;> rfl

/-- the part of `MkdirAll` after the parents exist -/
def mkdirAllTail (m1 : MFS) (perm : Nat) (p : Path) : MFS × Except Err Unit :=
  match mkdir m1 p perm with
  | (m2, .ok ()) => (m2, .ok ())
  | (m2, .error e) =>
    match lstat m2 p with
    | .ok i => if i.isDir then (m2, .ok ()) else (m2, .error e)
    | .error _ => (m2, .error e)

theorem mkdirAll_succ_ok (m : MFS) (perm fuel : Nat) (p : Path) {i : Info} (hst : stat m p = .ok i) :
    m.mkdirAll perm (fuel + 1) p = if i.isDir then (m, .ok ()) else (m, .error .notDir) := by
  rw [MFS.mkdirAll]
  simp only [hst]

theorem mkdirAll_succ_err (m : MFS) (perm fuel : Nat) (p : Path) {e0 : Err} (hst : stat m p = .error e0) :
    m.mkdirAll perm (fuel + 1) p =
      (match (if (uptoLastSep (stripTrailingSeps p)).length > 0 then m.mkdirAll perm fuel (uptoLastSep (stripTrailingSeps p)) else (m, .ok ())) with
       | (m1, .error e) => (m1, .error e)
       | (m1, .ok ()) => mkdirAllTail m1 perm p) := by
  rw [MFS.mkdirAll]
  simp only [hst]
  rfl

theorem stat_text {m : MFS} (s : Side) {k : Key} {t : Path} (hr : Roots bk kk) (hg : OSGood bk kk m)
    (hk : PKey k) (ht : TextOf t (osRoot bk kk s ++ k)) :
    (∃ n, m.get (osRoot bk kk s ++ k) = some n ∧ m.stat t = .ok (infoOf (base t) n)) ∨
    (m.get (osRoot bk kk s ++ k) = none ∧ ∃ e, m.stat t = .error e) := by
  unfold MFS.stat
  rcases namei_below_text s hr hg hk ht true with ⟨n, hn, _, hres⟩ | ⟨_, mt, hn, _, hres⟩ | ⟨e, _, hn, _, hres, _⟩
  · rw [hres]; exact Or.inl ⟨n, hn, rfl⟩
  · rw [hres]; exact Or.inr ⟨hn, _, rfl⟩
  · rw [hres]; exact Or.inr ⟨hn, _, rfl⟩

theorem lstat_text {m : MFS} (s : Side) {k : Key} {t : Path} (hr : Roots bk kk) (hg : OSGood bk kk m)
    (hk : PKey k) (ht : TextOf t (osRoot bk kk s ++ k)) :
    (∃ n, m.get (osRoot bk kk s ++ k) = some n ∧ m.lstat t = .ok (infoOf (base t) n)) ∨
    (m.get (osRoot bk kk s ++ k) = none ∧ ∃ e, m.lstat t = .error e) := by
  unfold MFS.lstat
  rcases namei_below_text s hr hg hk ht false with ⟨n, hn, _, hres⟩ | ⟨_, mt, hn, _, hres⟩ | ⟨e, _, hn, _, hres, _⟩
  · rw [hres]; exact Or.inl ⟨n, hn, rfl⟩
  · rw [hres]; exact Or.inr ⟨hn, _, rfl⟩
  · rw [hres]; exact Or.inr ⟨hn, _, rfl⟩

theorem mkdirAllTail_spec {m1 m' : MFS} (s : Side) {k : Key} {t : Path} {perm : Nat} {r : Except Err Unit}
    (hr : Roots bk kk) (hg : OSGood bk kk m1) (hk : PKey k) (ht : TextOf t (osRoot bk kk s ++ k))
    (h : mkdirAllTail m1 perm t = (m', r)) :
    OSGood bk kk m' ∧ EqOff m1 m' (osRoot bk kk s ++ k) ∧
      (r = .ok () → ∃ mt, m'.get (osRoot bk kk s ++ k) = some (.dir mt)) ∧
      (m' = m1 ∨ (m1.get (osRoot bk kk s ++ k) = none ∧ ∃ mt, m'.get (osRoot bk kk s ++ k) = some (.dir mt))) := by
  unfold mkdirAllTail at h
  cases hmk : mkdir m1 t perm with
  | mk m2 r2 =>
    obtain ⟨g1, g2, g3, g4⟩ := mkdir_spec s hr hg hk ht hmk
    rw [hmk] at h
    cases r2 with
    | ok u =>
      simp only at h
      cases h
      obtain ⟨a, b⟩ := g3 rfl
      exact ⟨g1, g2, fun _ => b, Or.inr ⟨a, b⟩⟩
    | error e =>
      simp only at h
      have hm2 : m2 = m1 := g4 e rfl
      subst hm2
      rcases lstat_text s hr hg hk ht with ⟨n, hn, hl⟩ | ⟨hn, e', hl⟩
      · rw [hl] at h
        simp only [infoOf_isDir] at h
        split at h
        · rename_i hd
          cases h
          obtain ⟨mt, rfl⟩ := isDir_true hd
          exact ⟨hg, EqOff.refl _ _, fun _ => ⟨mt, hn⟩, Or.inl rfl⟩
        · cases h
          exact ⟨hg, EqOff.refl _ _, (fun e => by cases e), Or.inl rfl⟩
      · rw [hl] at h
        cases h
        exact ⟨hg, EqOff.refl _ _, (fun e => by cases e), Or.inl rfl⟩

/-- `m'` extends `m` by new directories along the chain of `k` below the root of side `s`, and
otherwise agrees with it up to directory timestamps -/
def Ext (bk kk : Key) (s : Side) (k : Key) (m m' : MFS) : Prop :=
  ∀ K', (m'.get K').map eraseMt = (m.get K').map eraseMt ∨
    (∃ j, j <+: k ∧ K' = osRoot bk kk s ++ j ∧ m.get K' = none ∧ ∃ mt, m'.get K' = some (.dir mt))

theorem Ext.refl (s : Side) (k : Key) (m : MFS) : Ext bk kk s k m m := fun _ => Or.inl rfl

theorem Ext.mono {s : Side} {k k' : Key} {m m' : MFS} (h : Ext bk kk s k m m') (hp : k <+: k') : Ext bk kk s k' m m' := by
  intro K'
  rcases h K' with h | ⟨j, hj, a, b, c⟩
  · exact Or.inl h
  · exact Or.inr ⟨j, List.IsPrefix.trans hj hp, a, b, c⟩

theorem erase_eq_dir {a b : Option Node} (h : a.map eraseMt = b.map eraseMt) (hb : ∃ mt, b = some (.dir mt)) :
    ∃ mt, a = some (.dir mt) := by
  obtain ⟨mt, rfl⟩ := hb
  cases a with
  | none => cases h
  | some n =>
    simp only [Option.map_some, Option.some.injEq] at h
    obtain ⟨m0, rfl, _⟩ := eraseMt_dir h
    exact ⟨m0, rfl⟩

theorem erase_eq_none {a b : Option Node} (h : a.map eraseMt = b.map eraseMt) (hb : a = none) : b = none := by
  subst hb
  cases b with
  | none => rfl
  | some n => cases h

/-- parents made, then the tail: the extension composes -/
theorem Ext.step {s : Side} {k : Key} {m m1 m' : MFS} (_hne : k ≠ []) (h1 : Ext bk kk s k.dropLast m m1)
    (h2 : EqOff m1 m' (osRoot bk kk s ++ k))
    (h3 : m' = m1 ∨ (m1.get (osRoot bk kk s ++ k) = none ∧ ∃ mt, m'.get (osRoot bk kk s ++ k) = some (.dir mt))) :
    Ext bk kk s k m m' := by
  rcases h3 with rfl | ⟨hnone, hdir⟩
  · exact h1.mono (dropLast_prefix k)
  · intro K'
    by_cases hK : K' = osRoot bk kk s ++ k
    · subst hK
      right
      refine ⟨k, List.prefix_rfl, rfl, ?_, hdir⟩
      rcases h1 (osRoot bk kk s ++ k) with h | ⟨_, _, _, b, _⟩
      · exact erase_eq_none h hnone
      · exact b
    · have e := h2 K' hK
      rcases h1 K' with h | ⟨j, hj, a, b, c⟩
      · exact Or.inl (e.trans h)
      · exact Or.inr ⟨j, List.IsPrefix.trans hj (dropLast_prefix k), a, b, erase_eq_dir e c⟩

theorem mkdirAll_spec (s : Side) (perm : Nat) (hr : Roots bk kk) :
    ∀ (fuel : Nat) (k : Key) (t : Path) (m m' : MFS) (r : Except Err Unit),
      OSGood bk kk m → PKey k → TextOf t (osRoot bk kk s ++ k) → k.length < fuel →
      m.mkdirAll perm fuel t = (m', r) →
      OSGood bk kk m' ∧ Ext bk kk s k m m' ∧ (r = .ok () → ∃ mt, m'.get (osRoot bk kk s ++ k) = some (.dir mt)) := by
  intro fuel
  induction fuel with
  | zero => intro k t m m' r _ _ _ hf; exact absurd hf (Nat.not_lt_zero _)
  | succ fuel ih =>
    intro k t m m' r hg hk ht hf h
    rcases stat_text s hr hg hk ht with ⟨n, hn, hst⟩ | ⟨hn, e0, hst⟩
    · rw [mkdirAll_succ_ok m perm fuel t hst, infoOf_isDir] at h
      split at h
      · rename_i hd
        cases h
        obtain ⟨mt, rfl⟩ := isDir_true hd
        exact ⟨hg, Ext.refl s k m, fun _ => ⟨mt, hn⟩⟩
      · cases h
        exact ⟨hg, Ext.refl s k m, fun e => by cases e⟩
    · have hne : k ≠ [] := key_ne_of_none hg hn
      have hKne : osRoot bk kk s ++ k ≠ [] := by simp [hne]
      have hpt := text_parent ((hr.pkey s).append hk) hKne ht
      have hpl := parentText_length (osRoot bk kk s ++ k)
      have htp : TextOf (parentText (osRoot bk kk s ++ k)) (osRoot bk kk s ++ k.dropLast) := by
        rw [← append_dropLast hne]; exact parentText_text
      rw [mkdirAll_succ_err m perm fuel t hst, hpt] at h
      simp only [hpl, if_true] at h
      cases hrec : m.mkdirAll perm fuel (parentText (osRoot bk kk s ++ k)) with
      | mk m1 r1 =>
        have hlen : k.dropLast.length < fuel := by
          have h1 : k.dropLast.length = k.length - 1 := List.length_dropLast
          have h2 : 0 < k.length := List.length_pos_iff.mpr hne
          omega
        obtain ⟨i1, i2, i3⟩ := ih k.dropLast _ m m1 r1 hg hk.dropLast htp hlen hrec
        rw [hrec] at h
        cases r1 with
        | error e =>
          simp only at h
          cases h
          exact ⟨i1, i2.mono (dropLast_prefix k), fun e => by cases e⟩
        | ok u =>
          simp only at h
          obtain ⟨t1, t2, t3, t4⟩ := mkdirAllTail_spec s hr i1 hk ht h
          exact ⟨t1, Ext.step hne i2 t2 t4, t3⟩

theorem joinSep_length : ∀ (K : List Name), (∀ n ∈ K, n ≠ []) → K.length ≤ (joinSep K).length
  | [], _ => by simp [joinSep]
  | [n], h => by
    have : n ≠ [] := h n (by simp)
    have := List.length_pos_iff.mpr this
    simp [joinSep]; omega
  | n :: n2 :: r, h => by
    have ih := joinSep_length (n2 :: r) (fun x hx => h x (List.mem_cons_of_mem _ hx))
    rw [joinSep_cons_cons]
    simp only [List.length_cons, List.length_append] at ih ⊢
    omega

theorem kp_length {K : Key} (hK : PKey K) : K.length ≤ (kp K).length := by
  have := joinSep_length K (fun n hn => (hK n hn).1)
  simp only [BFS.kp, List.length_cons]
  omega

theorem side_mkdirAll {m : MFS} (s : Side) {k : Key} (hr : Roots bk kk) (hk : PKey k) (perm : Nat) :
    ((osCfg bk kk).side s).call m (.mkdirAll (kp k) perm) =
      ((m.mkdirAll perm ((kp (osRoot bk kk s ++ k)).length + 2) (kp (osRoot bk kk s ++ k))).1,
       (m.mkdirAll perm ((kp (osRoot bk kk s ++ k)).length + 2) (kp (osRoot bk kk s ++ k))).2.map (fun _ => Ret.unit)) :=
  side_call_unit hr s m (tr_mkdirAll (hr.pkey s) hk perm)
    (x := m.mkdirAll perm ((kp (osRoot bk kk s ++ k)).length + 2) (kp (osRoot bk kk s ++ k))) rfl

theorem os_mkdirAll_frame {m m' : MFS} {s : Side} {k : Key} {perm : Nat} {r : Except Err Ret} (hr : Roots bk kk)
    (hg : OSGood bk kk m) (hk : PKey k) (h : ((osCfg bk kk).side s).call m (.mkdirAll (kp k) perm) = (m', r)) :
    OSGood bk kk m' ∧ osView bk kk s.other m' = osView bk kk s.other m ∧
      (∀ j, ¬ j <+: k → osView bk kk s m' j = osView bk kk s m j) ∧
      (∀ j, (osView bk kk s m).isFileAt j → osView bk kk s m' j = osView bk kk s m j) ∧
      (r = .ok .unit → (osView bk kk s m').isDirAt k) := by
  rw [side_mkdirAll s hr hk] at h
  obtain ⟨h1, h2⟩ := Prod.mk.inj h
  have hlen : k.length < (kp (osRoot bk kk s ++ k)).length + 2 := by
    have := kp_length ((hr.pkey s).append hk)
    simp only [List.length_append] at this
    omega
  obtain ⟨g1, g2, g3⟩ := mkdirAll_spec s perm hr _ k _ m m' _ hg hk (TextOf.kp _) hlen (Prod.ext h1 rfl)
  refine ⟨g1, ?_, ?_, ?_, ?_⟩
  · funext x
    rcases g2 (osRoot bk kk s.other ++ x) with e | ⟨j, _, e, _, _⟩
    · exact e
    · exact absurd e.symm (hr.apart s j x)
  · intro j hj
    rcases g2 (osRoot bk kk s ++ j) with e | ⟨j', hj', e, _, _⟩
    · exact e
    · rw [List.append_cancel_left e] at hj
      exact absurd hj' hj
  · intro j hf
    obtain ⟨c, mt, hc⟩ := osView_isFileAt hf
    rcases g2 (osRoot bk kk s ++ j) with e | ⟨_, _, _, e, _⟩
    · exact e
    · rw [hc] at e; cases e
  · intro hr'
    rw [hr'] at h2
    obtain ⟨mt, hd⟩ := g3 (map_unit_ok h2)
    exact osView_isDirAt_of hd

theorem mkdir_new {m : MFS} {s : Side} {k : Key} {perm : Nat} {pmt : Meta} (hr : Roots bk kk)
    (hg : OSGood bk kk m) (hk : PKey k) (hne : k ≠ []) (h0 : m.get (osRoot bk kk s ++ k) = none)
    (hpd : m.get (osRoot bk kk s ++ k.dropLast) = some (.dir pmt)) :
    ∃ nmt, m.mkdir (kp (osRoot bk kk s ++ k)) perm =
      ((m.set (osRoot bk kk s ++ k) (some (.dir nmt))).touchDir (osRoot bk kk s ++ k.dropLast), .ok ()) := by
  have hKne : osRoot bk kk s ++ k ≠ [] := by simp [hne]
  have hpd' : m.get (osRoot bk kk s ++ k).dropLast = some (.dir pmt) := by rw [append_dropLast hne]; exact hpd
  have hmiss := namei_missing m false ((hr.pkey s).append hk) (TextOf.kp _) hKne h0
    (fun p hpre hpne => by
      by_cases he : p = (osRoot bk kk s ++ k).dropLast
      · exact ⟨pmt, he ▸ hpd'⟩
      · exact hg.ancestor hpd' (prefix_dropLast hpre hpne) he)
  unfold MFS.mkdir
  rw [hmiss]
  simp only [dropLast_append_getLast' hKne]
  rw [append_dropLast hne]
  exact ⟨_, rfl⟩

theorem os_mkdirAll_ok {m : MFS} {s : Side} {k : Key} {perm : Nat} (hr : Roots bk kk) (hg : OSGood bk kk m)
    (hk : PKey k) (hp : k = [] ∨ (osView bk kk s m).parentDir k)
    (hv : osView bk kk s m k = none ∨ (osView bk kk s m).isDirAt k) :
    ∃ m', ((osCfg bk kk).side s).call m (.mkdirAll (kp k) perm) = (m', .ok .unit) ∧
      (∀ j, j ≠ k → osView bk kk s m' j = osView bk kk s m j) ∧
      ((osView bk kk s m).isDirAt k → osView bk kk s m' k = osView bk kk s m k) := by
  rw [side_mkdirAll s hr hk]
  have hdircase : (osView bk kk s m).isDirAt k →
      ∃ m', ((m.mkdirAll perm ((kp (osRoot bk kk s ++ k)).length + 2) (kp (osRoot bk kk s ++ k))).1,
        (m.mkdirAll perm ((kp (osRoot bk kk s ++ k)).length + 2) (kp (osRoot bk kk s ++ k))).2.map (fun _ => Ret.unit)) = (m', .ok .unit) ∧
      (∀ j, j ≠ k → osView bk kk s m' j = osView bk kk s m j) ∧
      ((osView bk kk s m).isDirAt k → osView bk kk s m' k = osView bk kk s m k) := by
    intro hd
    obtain ⟨mt, h0⟩ := osView_isDirAt hd
    rcases stat_text s hr hg hk (TextOf.kp _) with ⟨n, hn, hst⟩ | ⟨hn, _⟩
    · rw [h0] at hn
      cases hn
      rw [mkdirAll_succ_ok m perm _ _ hst]
      exact ⟨m, rfl, fun _ _ => rfl, fun _ => rfl⟩
    · rw [h0] at hn; cases hn
  rcases hv with hv | hv
  · have h0 := osView_none hv
    have hne : k ≠ [] := key_ne_of_none hg h0
    rcases hp with hp | ⟨_, hp⟩
    · exact absurd hp hne
    obtain ⟨pmt, hpd⟩ := osView_isDirAt hp
    have hKne : osRoot bk kk s ++ k ≠ [] := by simp [hne]
    rcases stat_text s hr hg hk (TextOf.kp _) with ⟨n, hn, _⟩ | ⟨_, e0, hst⟩
    · rw [h0] at hn; cases hn
    have hpt := text_parent ((hr.pkey s).append hk) hKne (TextOf.kp _)
    have hpl := parentText_length (osRoot bk kk s ++ k)
    have htp : TextOf (parentText (osRoot bk kk s ++ k)) (osRoot bk kk s ++ k.dropLast) := by
      rw [← append_dropLast hne]; exact parentText_text
    rw [mkdirAll_succ_err m perm _ _ hst, hpt]
    simp only [hpl, if_true]
    rcases stat_text s hr hg hk.dropLast htp with ⟨n, hn, hstp⟩ | ⟨hn, _⟩
    · rw [hpd] at hn
      cases hn
      rw [mkdirAll_succ_ok m perm _ _ hstp]
      simp only [infoOf_isDir, Node.isDir, if_true]
      obtain ⟨nmt, hmk⟩ := mkdir_new (perm := perm) hr hg hk hne h0 hpd
      unfold mkdirAllTail
      rw [hmk]
      refine ⟨_, rfl, ?_, ?_⟩
      · exact (frame_of hr ((EqOff.set _ _ _).touch _)).2
      · intro hd
        obtain ⟨mt, hd⟩ := osView_isDirAt hd
        rw [h0] at hd; cases hd
    · rw [hpd] at hn; cases hn
  · exact hdircase hv

end
end BFS
