import Lemmas.S4Prim
import Lemmas.S4Hid
/-!
  Lemmas/S4Seal.lean — C04/S2+S3 for whole operations, raw disk, nested layering.

  `RS w0 w`: the disk of `w` is well-formed and every key at or below `loc/loc` — the position, inside
  the backup, of a copy of something at or below the location — holds what it held in `w0`.
  Every covered operation keeps `RS` (any tracked map, any fault plan): base-side calls do not touch
  the location's subtree at all, and a backup-side call is only ever issued for a name whose `Lstat`
  through the base SUCCEEDED, i.e. a visible name `x`, and changes only keys between `loc` and
  `loc ++ x`.  So the backup never receives a copy of itself: no recursive growth.
-/
namespace BFS.S4
open BackupFS N D HiddenFS

section
variable {bk hk dd : Key}

/-! ### `copyFile` on the backup side: confined between the location and the copy -/

theorem backup_frame_open (h : NRoots bk hk dd) {m : MFS} (hg : NGood bk hk dd m) {a : Key} (ha : PKey a) (hne : a ≠ [])
    (fl p : Nat) :
    ∀ j, ¬ Between (bk ++ hk) (bk ++ hk ++ a) j →
      (((nestedCfg bk hk).side .backup).call m (.openFile (kp a) fl p)).1.get j = m.get j := by
  obtain ⟨x, hx, e, hm⟩ := backup_effect h hg (tr3_openFile h ha fl p)
  have : x = a := by
    have := kp_inj (h.pbh.append ha) (h.pbh.append hx) e
    exact (List.append_cancel_left this).symm
  rw [this] at hm
  exact frame_of_at hne hm

theorem sat_backup_open (h : NRoots bk hk dd) {a : Key} (ha : PKey a) (hne : a ≠ []) (fl p : Nat) {w0 w : World}
    (h0 : BStep bk hk dd a w0 w) :
    Sat (primOpen (nestedCfg bk hk) .backup (.openFile (kp a) fl p)) w (fun w' r =>
      BStep bk hk dd a w0 w' ∧ ∀ wh, r = .ok wh → wh.side = .backup ∧ NH bk hk .backup wh.h a) := by
  unfold primOpen
  apply Sat.bind
  apply Sat.primCall
  · intro _ w1 h1
    exact ⟨h0.same_right h1, by intro wh e; cases e⟩
  · intro w1 h1
    have hlaw := n_openFile_frame (s := .backup) (flag := fl) (perm := p) h h0.good ha
      (m' := (((nestedCfg bk hk).side .backup).call w.fs (.openFile (kp a) fl p)).1)
      (r := (((nestedCfg bk hk).side .backup).call w.fs (.openFile (kp a) fl p)).2) rfl
    have hb : BStep bk hk dd a w0
        { w1 with fs := (((nestedCfg bk hk).side .backup).call w.fs (.openFile (kp a) fl p)).1 } :=
      ⟨hlaw.1, fun j hj => (backup_frame_open h h0.good ha hne fl p j hj).trans (h0.frame j hj),
        h1.infos.trans h0.infos, h1.faults.trans h0.faults⟩
    cases hr : (((nestedCfg bk hk).side .backup).call w.fs (.openFile (kp a) fl p)).2 with
    | error e => exact ⟨hb, by intro wh e'; cases e'⟩
    | ok ret =>
      have hH := hlaw.2.2.2
      rw [hr] at hH
      cases ret with
      | handle hd =>
        apply Sat.pure
        refine ⟨hb, ?_⟩
        intro wh e
        cases e
        exact ⟨rfl, hH hd rfl⟩
      | unit => exact ⟨hb, by intro wh e'; cases e'⟩
      | info i => exact ⟨hb, by intro wh e'; cases e'⟩
      | str s => exact ⟨hb, by intro wh e'; cases e'⟩

theorem sat_hWrite_bstep (h : NRoots bk hk dd) {a : Key} {dst : WHandle} (hside : dst.side = .backup)
    (hH : NH bk hk .backup dst.h a) (off : Nat) (d : String) {w0 w : World} (h0 : BStep bk hk dd a w0 w) :
    Sat (hWrite (nestedCfg bk hk) dst off d) w (fun w' _ => BStep bk hk dd a w0 w') := by
  unfold hWrite
  apply Sat.bind
  apply Sat.primH
  · intro _ w1 h1
    exact h0.same_right h1
  · intro w1 h1
    have h01 := h0.same_right h1
    show BStep bk hk dd a w0 (({ w1 with fs := (((nestedCfg bk hk).side dst.side).hwrite w1.fs dst.h off d).1 } : World))
    rw [hside]
    have hg' := (n_hwrite_frame (s := .backup) (o := off) (d := d) h h01.good hH
      (m' := (((nestedCfg bk hk).side .backup).hwrite w1.fs dst.h off d).1)
      (r := (((nestedCfg bk hk).side .backup).hwrite w1.fs dst.h off d).2) rfl).1
    refine ⟨hg', ?_, h01.infos, h01.faults⟩
    intro j hj
    rw [← h01.frame j hj]
    show (((nestedCfg bk hk).side .backup).hwrite w1.fs dst.h off d).1.get j = w1.fs.get j
    rw [side_hwrite']
    apply hwrite_frame
    rw [hH.1]
    intro e
    apply hj
    rw [e]
    exact ⟨by simp [N.off, List.append_assoc], by simp [N.off, List.append_assoc]⟩

theorem sat_copyChunks_bstep (h : NRoots bk hk dd) {a : Key} {dst src : WHandle} (hside : dst.side = .backup)
    (hH : NH bk hk .backup dst.h a) {w0 : World} :
    ∀ (cs : List String) (off : Nat) (w : World), BStep bk hk dd a w0 w →
      Sat (copyChunks (nestedCfg bk hk) dst src off cs) w (fun w' _ => BStep bk hk dd a w0 w')
  | [], off, w, h0 => by
    unfold copyChunks
    exact (N.sat_hRead (src := src) (w := w)).mono (fun _ _ hs => h0.same_right hs.1)
  | c :: cs, off, w, h0 => by
    unfold copyChunks
    apply Sat.seq (P := BStep bk hk dd a w0)
      ((N.sat_hRead (src := src) (w := w)).mono (fun _ _ hs => h0.same_right hs.1)) (fun _ x => x)
    intro _ w1 h1
    apply Sat.seq (P := BStep bk hk dd a w0) (sat_hWrite_bstep h hside hH off c h1) (fun _ x => x)
    intro _ w2 h2
    exact sat_copyChunks_bstep h hside hH cs _ w2 h2

theorem sat_writeFile_bstep (h : NRoots bk hk dd) {a : Key} (ha : PKey a) (hne : a ≠ []) {perm : Nat} {src : WHandle}
    {w0 w : World} (h0 : BStep bk hk dd a w0 w) :
    Sat (writeFile (nestedCfg bk hk) .backup (kp a) perm src) w (fun w' _ => BStep bk hk dd a w0 w') := by
  unfold writeFile
  apply Sat.bind
  apply (sat_backup_open h ha hne _ _ h0).mono
  intro w1 r1 ⟨h1, hwh⟩
  cases r1 with
  | error e => exact h1
  | ok dst =>
    simp only
    obtain ⟨hside, hH⟩ := hwh dst rfl
    apply Sat.seq (P := BStep bk hk dd a w0) _ (fun _ x => x)
    · intro data w2 h2
      apply Sat.seq (P := BStep bk hk dd a w0)
        (Sat.attempt_any (sat_copyChunks_bstep h hside hH _ 0 w2 h2)) (fun _ x => x)
      intro r2 w3 h3
      apply Sat.seq (P := BStep bk hk dd a w0)
        (Sat.attempt_any ((N.sat_hClose (wh := dst) (w := w3)).mono (fun _ _ hs => h3.same_right hs.1))) (fun _ x => x)
      intro r3 w4 h4
      cases r2 with
      | error e => exact Sat.throw h4
      | ok u2 =>
        cases r3 with
        | error e => exact Sat.throw h4
        | ok u3 => exact Sat.pure h4
    · unfold peek
      apply Sat.bind
      apply Sat.getW
      simp only
      cases ((nestedCfg bk hk).side src.side).hread w1.fs src.h with
      | ok d => exact Sat.pure h1
      | error e => exact Sat.throw h1

theorem sat_copyFile_bstep (h : NRoots bk hk dd) {a : Key} (ha : PKey a) (hne : a ≠ []) {i : Info} {src : WHandle}
    {w : World} (hg : NGood bk hk dd w.fs) :
    Sat (copyFile (nestedCfg bk hk) .backup (kp a) i src) w (fun w' _ => BStep bk hk dd a w w') := by
  unfold copyFile
  apply Sat.wrapped_any
  have hrefl : BStep bk hk dd a w w := BStep.refl hg
  apply Sat.ite
  · intro _; exact Sat.throw hrefl
  · intro _
    apply Sat.seq (P := BStep bk hk dd a w) (sat_writeFile_bstep h ha hne hrefl) (fun _ x => x)
    intro _ w1 h1
    apply Sat.seq (P := BStep bk hk dd a w) _ (fun _ x => x)
    · intro _ w2 h2
      apply Sat.seq (P := BStep bk hk dd a w) (sat_backup_lstat h h2) (fun _ x => x)
      intro cur w3 h3
      apply Sat.seq (P := BStep bk hk dd a w) _ (fun _ x => x)
      · intro _ w4 h4
        apply Sat.whenM_any _ h4
        apply Sat.ignorePerm_any
        exact sat_backup_prim h ha hne (Or.inr (Or.inr (Or.inr ⟨_, _, rfl⟩))) h4
      · apply Sat.whenM_any _ h3
        exact sat_backup_prim h ha hne (Or.inr (Or.inl ⟨_, rfl⟩)) h3
    · apply Sat.ignorePerm_any
      exact sat_chownTo_bstep h ha hne h1

/-! ### the relation -/

structure RS (bk hk dd : Key) (w0 w : World) : Prop where
  good : NGood bk hk dd w.fs
  nest : ∀ y, hk <+: y → w.fs.get (bk ++ hk ++ y) = w0.fs.get (bk ++ hk ++ y)

theorem RS.refl {w : World} (hg : NGood bk hk dd w.fs) : RS bk hk dd w w := ⟨hg, fun _ _ => rfl⟩

theorem RS.trans {a b c : World} (h1 : RS bk hk dd a b) (h2 : RS bk hk dd b c) : RS bk hk dd a c :=
  ⟨h2.good, fun y hy => (h2.nest y hy).trans (h1.nest y hy)⟩

theorem RS.of_fs {w0 w w' : World} (h : RS bk hk dd w0 w) (e : w'.fs = w.fs) : RS bk hk dd w0 w' :=
  ⟨e ▸ h.good, fun y hy => by rw [e]; exact h.nest y hy⟩

theorem RS.same_right {w0 w w' : World} (h : RS bk hk dd w0 w) (hs : SameFS w w') : RS bk hk dd w0 w' :=
  h.of_fs hs.fs

/-- backup-side work for a VISIBLE key stays away from `loc/loc` -/
theorem RS.of_bstep {w0 w w' : World} {x : Key} (hv : ¬ hk <+: x) (h : RS bk hk dd w0 w)
    (hb : BStep bk hk dd x w w') : RS bk hk dd w0 w' := by
  refine ⟨hb.good, fun y hy => ?_⟩
  rw [hb.frame _ ?_]
  · exact h.nest y hy
  · intro ⟨_, h2⟩
    have : y <+: x := (List.prefix_append_right_inj (bk ++ hk)).mp h2
    exact hv (hy.trans this)

/-- a base-side call that keeps the disk well-formed -/
theorem RS.base_call {w0 w w1 : World} (h : NRoots bk hk dd) (h0 : RS bk hk dd w0 w) (c : Call)
    (hgood : NGood bk hk dd (((nestedCfg bk hk).side .base).call w.fs c).1) :
    RS bk hk dd w0 { w1 with fs := (((nestedCfg bk hk).side .base).call w.fs c).1 } := by
  refine ⟨hgood, fun y hy => ?_⟩
  show (((nestedCfg bk hk).side .base).call w.fs c).1.get (bk ++ hk ++ y) = _
  rw [List.append_assoc, base_call_spares_loc h h0.good c (hk ++ y) (List.prefix_append _ _), ← List.append_assoc]
  exact h0.nest y hy

/-- a primitive call on the base side -/
theorem sat_base_call_rs (h : NRoots bk hk dd) {c : Call} {w0 w : World} (h0 : RS bk hk dd w0 w)
    (hgood : NGood bk hk dd (((nestedCfg bk hk).side .base).call w.fs c).1) :
    Sat (primCall (nestedCfg bk hk) .base c) w (fun w' r => RS bk hk dd w0 w' ∧
      ∀ ret, r = .ok ret → ((nestedCfg bk hk).side .base).call w.fs c = (w'.fs, .ok ret)) := by
  apply Sat.primCall
  · intro _ w1 h1
    exact ⟨h0.same_right h1, by intro ret e; cases e⟩
  · intro w1 _
    refine ⟨RS.base_call h h0 c hgood, ?_⟩
    intro ret e
    exact Prod.ext rfl e

theorem sat_base_unit_rs (h : NRoots bk hk dd) {c : Call} {w0 w : World} (h0 : RS bk hk dd w0 w)
    (hgood : NGood bk hk dd (((nestedCfg bk hk).side .base).call w.fs c).1) :
    Sat (primUnit (nestedCfg bk hk) .base c) w (fun w' _ => RS bk hk dd w0 w') := by
  unfold primUnit
  apply Sat.bind
  apply (sat_base_call_rs h h0 hgood).mono
  intro w1 r ⟨h1, _⟩
  cases r with
  | ok a => exact Sat.pure h1
  | error e => exact h1

/-- a read-only primitive on either side -/
theorem sat_pure_rs {s : Side} {c : Call} {w0 w : World} (h0 : RS bk hk dd w0 w)
    (hpure : ∀ m' r, ((nestedCfg bk hk).side s).call w.fs c = (m', r) → m' = w.fs) :
    Sat (primCall (nestedCfg bk hk) s c) w (fun w' r => RS bk hk dd w0 w' ∧
      ∀ ret, r = .ok ret → ((nestedCfg bk hk).side s).call w.fs c = (w.fs, .ok ret)) := by
  apply (N.sat_primCall_pure (cfg := nestedCfg bk hk) hpure).mono
  intro w1 r ⟨hs, hr⟩
  refine ⟨h0.same_right hs, ?_⟩
  intro ret e
  rcases hr with hr | ⟨_, hr⟩
  · apply Prod.ext
    · exact hpure _ _ rfl
    · rw [← hr, e]
  · rw [hr] at e; cases e

/-! ### `tryBackup`, any name, any tracked map, any fault plan -/

theorem setInfo_fs (p : Path) (x : Option Info) (w : World) :
    (setInfo p x w).1.fs = w.fs ∧ (setInfo p x w).2 = .ok () := by
  unfold setInfo modifyW
  by_cases hc : (w.infos.lookup p).isSome = true <;> simp [hc]

theorem sat_setInfo_rs {p : Path} {x : Option Info} {w0 w : World} (h0 : RS bk hk dd w0 w) :
    Sat (setInfo p x) w (fun w' r => RS bk hk dd w0 w' ∧ r = .ok ()) :=
  ⟨h0.of_fs (setInfo_fs p x w).1, (setInfo_fs p x w).2⟩

theorem rvisit_cons (h : NRoots bk hk dd) {a : Key} (ha : PKey a) {rest : List Path} {w0 w : World}
    (h0 : RS bk hk dd w0 w) {Q : World → Except Err Unit → Prop}
    (hstop : ∀ w' e, RS bk hk dd w0 w' → Q w' (.error e))
    (hnext : ∀ w', RS bk hk dd w0 w' → Sat (backupDirsVisit (nestedCfg bk hk) rest) w' Q) :
    Sat (backupDirsVisit (nestedCfg bk hk) (kp a :: rest)) w Q := by
  unfold backupDirsVisit
  apply Sat.bind
  apply (sat_backupRequired_gen h ha h0.good).mono
  intro w1 r hr
  rcases hr with ⟨x, hl, rfl, rfl⟩ | ⟨hl, hs, n, i, hv, hfor, rfl⟩ | ⟨hl, hv, w1', hs, rfl, rfl⟩ | ⟨hf, hs, rfl⟩
  · simp only [Bool.not_false, if_true]
    exact hnext w1 h0
  · simp only [Bool.not_true, Bool.false_eq_true, if_false]
    have hvis : ¬ hk <+: a := (nview_base_some (dd := dd) hv).1
    have h1 : RS bk hk dd w0 w1 := h0.same_right hs
    by_cases hn0 : a = []
    · subst hn0
      apply Sat.bind
      apply Sat.of_eq (copyDir_root _ _ i w1)
      cases hisd : i.isDir with
      | false =>
        simp only [Bool.false_eq_true, if_false]
        exact hstop _ _ h1
      | true =>
        simp only [if_true]
        apply Sat.bind
        apply (sat_setInfo_rs h1).mono
        intro w2 r2 ⟨h2, hr2⟩
        subst hr2
        exact hnext _ h2
    · apply Sat.bind
      apply (sat_copyDir_bstep h ha hn0 (i := i) h1.good).mono
      intro w2 r2 hb
      have h2 : RS bk hk dd w0 w2 := h1.of_bstep hvis hb
      cases r2 with
      | error e => exact hstop _ e h2
      | ok u =>
        simp only
        apply Sat.bind
        apply (sat_setInfo_rs h2).mono
        intro w3 r3 ⟨h3, hr3⟩
        subst hr3
        exact hnext _ h3
  · simp only [Bool.not_false, if_true]
    exact hnext (addInfo w1' (kp a) none) ((h0.same_right hs).of_fs rfl)
  · exact hstop _ _ (h0.same_right hs)

theorem sat_rvisit (h : NRoots bk hk dd) :
    ∀ (xs : List Name) (pre : Key) (w0 w : World), PKey (pre ++ xs) → RS bk hk dd w0 w →
    Sat (backupDirsVisit (nestedCfg bk hk) ((inits1 xs).map (fun l => kp (pre ++ l)))) w
      (fun w' _ => RS bk hk dd w0 w')
  | [], pre, w0, w, _, h0 => by
    simp only [inits1, List.map_nil, backupDirsVisit]
    exact Sat.pure h0
  | x :: xs, pre, w0, w, hP, h0 => by
    have hlist : (inits1 (x :: xs)).map (fun l => kp (pre ++ l)) =
        kp (pre ++ [x]) :: (inits1 xs).map (fun l => kp ((pre ++ [x]) ++ l)) := by
      simp [inits1, List.map_map, Function.comp_def]
    rw [hlist]
    have happ : (pre ++ [x]) ++ xs = pre ++ x :: xs := by simp
    have ha : PKey (pre ++ [x]) := hP.of_prefix ⟨xs, happ⟩
    apply rvisit_cons h ha h0
    · intro w' e hf; exact hf
    · intro w' hf
      exact sat_rvisit h xs (pre ++ [x]) w0 w' (by rw [happ]; exact hP) hf

theorem sat_backupDirs_rs (h : NRoots bk hk dd) {d : Key} (hd : PKey d) {w0 w : World} (h0 : RS bk hk dd w0 w) :
    Sat (backupDirs (nestedCfg bk hk) (kp d)) w (fun w' _ => RS bk hk dd w0 w') := by
  unfold backupDirs
  rw [iterateDirTree_kp hd]
  have hroot : rootP = kp [] := rfl
  rw [hroot]
  apply rvisit_cons h PKey.nil h0
  · intro w' e hf; exact hf
  · intro w' hf
    have := sat_rvisit h d [] w0 w' (by simpa using hd) hf
    simpa using this

theorem sat_tryBackup_rs (h : NRoots bk hk dd) {k : Key} (hk' : PKey k) {w0 w : World} (h0 : RS bk hk dd w0 w) :
    Sat (tryBackup (nestedCfg bk hk) (kp k)) w (fun w' _ => RS bk hk dd w0 w') := by
  unfold tryBackup
  apply Sat.bind
  apply (sat_backupRequired_gen h hk' h0.good).mono
  intro w1 r hr
  -- the ancestor chain, then nothing more
  have hdirs : ∀ (info : Option Info) (w1 : World), RS bk hk dd w0 w1 →
      Sat (backupDirs (nestedCfg bk hk) (backupDirPath info (kp k))) w1 (fun w' _ => RS bk hk dd w0 w') := by
    intro info w1 h1
    obtain ⟨d, hd, _, hde⟩ := backupDirPath_kp hk' info
    rw [hde]
    exact sat_backupDirs_rs h hd h1
  rcases hr with ⟨x, hl, rfl, rfl⟩ | ⟨hl, hs, n, i, hv, hfor, rfl⟩ | ⟨hl, hv, w1', hs, rfl, rfl⟩ | ⟨hf, hs, rfl⟩
  · simp only
    apply Sat.seq (P := RS bk hk dd w0) (hdirs x w1 h0) (fun _ x => x)
    intro _ w2 h2
    simp only [Bool.not_false, if_true]
    exact Sat.pure h2
  · -- a visible entry that must be backed up
    simp only
    have hvis : ¬ hk <+: k := (nview_base_some (dd := dd) hv).1
    have hnl : ∀ t mt, n ≠ .link t mt := by
      intro t mt e; subst e; exact (nSim bk hk dd h).no_link (s := .base) (k := k) h0.good hv
    apply Sat.seq (P := RS bk hk dd w0) (hdirs (some i) w1 (h0.same_right hs)) (fun _ x => x)
    intro _ w2 h2
    simp only [Bool.not_true, Bool.false_eq_true, if_false]
    cases hisd : i.isDir with
    | true =>
      simp only [if_true]
      exact Sat.pure h2
    | false =>
      simp only [Bool.false_eq_true, if_false]
      obtain ⟨c, mt, hn⟩ : ∃ c mt, n = .file c mt := by
        cases n with
        | file c mt => exact ⟨c, mt, rfl⟩
        | dir mt =>
          have : i.kind = .dir := hfor.1
          simp [Info.isDir, this] at hisd
        | link t mt => exact absurd rfl (hnl t mt)
      subst hn
      have hreg : i.isRegular = true := by
        have : i.kind = .file := hfor.1
        simp [Info.isRegular, this]
      simp only [hreg, if_true]
      have hkne : k ≠ [] := by
        intro e; subst e
        obtain ⟨mt', hroot⟩ := (nSim bk hk dd h).root_dir (s := .base) h0.good
        have hv' : nview bk hk .base w.fs [] = some (.file c mt) := hv
        rw [show (nSim bk hk dd h).view .base w.fs [] = nview bk hk .base w.fs [] from rfl] at hroot
        rw [hroot] at hv'; cases hv'
      -- open the source
      apply Sat.seq (P := RS bk hk dd w0) _ (fun _ x => x)
      · intro sf w3 h3
        apply Sat.seq (P := RS bk hk dd w0) _ (fun _ x => x)
        · intro r4 w4 h4
          apply Sat.seq (P := RS bk hk dd w0)
            (Sat.attempt_any ((N.sat_hClose (wh := sf) (w := w4)).mono (fun _ _ hs' => h4.same_right hs'.1))) (fun _ x => x)
          intro r5 w5 h5
          cases r4 with
          | ok u => cases u; exact Sat.pure h5
          | error e => exact Sat.throw h5
        · apply Sat.attempt_any
          apply Sat.seq (P := RS bk hk dd w0)
            ((sat_copyFile_bstep h hk' hkne (i := i) (src := sf) h3.good).mono (fun _ _ hb => h3.of_bstep hvis hb)) (fun _ x => x)
          intro _ w4 h4
          exact (sat_setInfo_rs h4).mono (fun _ _ hx => hx.1)
      · unfold primOpen
        apply Sat.seq (P := RS bk hk dd w0)
          ((sat_pure_rs (s := .base) (c := .open_ (kp k)) h2 (fun _ _ he => n_pure_open h he)).mono (fun _ _ hx => hx.1))
          (fun _ x => x)
        intro ret w3 h3
        cases ret <;> first | exact Sat.pure h3 | exact Sat.throw h3
  · simp only
    apply Sat.seq (P := RS bk hk dd w0) (hdirs none (addInfo w1' (kp k) none) ((h0.same_right hs).of_fs rfl)) (fun _ x => x)
    intro _ w2 h2
    simp only [Bool.not_false, if_true]
    exact Sat.pure h2
  · exact h0.same_right hs

/-- `prepare` for any absolute name -/
theorem sat_prepare_rs (h : NRoots bk hk dd) {name : Path} {k : Key} (hk' : PKey k) (hname : clean name = kp k)
    {w0 w : World} (h0 : RS bk hk dd w0 w) :
    Sat (prepare (nestedCfg bk hk) name) w (fun w' r => RS bk hk dd w0 w' ∧ ∀ p, r = .ok p → p = kp k) := by
  unfold prepare
  apply Sat.bind
  apply (N.sat_realPath (S := nSim bk hk dd h) h0.good hk' hname).mono
  intro w1 r ⟨hs, hres⟩
  have h1 := h0.same_right hs
  cases r with
  | error e => exact ⟨h1, by intro p hp; cases hp⟩
  | ok p =>
    simp only
    have hp := hres p rfl
    subst hp
    apply Sat.bind
    apply (sat_tryBackup_rs h hk' h1).mono
    intro w2 r2 h2
    cases r2 with
    | error e => exact ⟨h2, by intro p hp; cases hp⟩
    | ok u => exact Sat.pure ⟨h2, by intro p hp; cases hp; rfl⟩

end
end BFS.S4
