import Lemmas.TNOpsB
/-!
  Lemmas/NYXInv.lean (copy of Lemmas/X2Inv.lean over `N.Sim`, plus the static clause `bvis`) — the transaction invariant strengthened by EXACTNESS of the backup copies
  (property C02, second half), for EVERY fault plan.

  `XInv S v0 w`:
  * `exact` — at every non-root key tracked with a `FileInfo` the backup view shows exactly the node the
    base view showed when the transaction began (`v0 k`: type, content, all twelve mode bits, uid, gid,
    file mtime; directory timestamps are erased from both views, as everywhere in C01);
  * `kind`  — whatever else sits in the backup view (an orphan left behind by a copy that failed half-way)
    sits at the path of an original of the same type.
  `kind` is what keeps the preconditions of the contract laws (`mkdirAll_ok`, `openW_file`/`openW_none`)
  true for the NEXT copy at that path under a fault plan; on healthy filesystems it is subsumed by
  `BInv.bonly` + `exact`.
-/
namespace BFS.N
open BackupFS

variable {cfg : Cfg} {S : Sim cfg} {v0 : View}

structure XInv (S : Sim cfg) (v0 : View) (w : World) : Prop where
  exact : ∀ k i, PKey k → k ≠ [] → TS w k i → S.view .backup w.fs k = v0 k
  kind : ∀ k n, k ≠ [] → S.view .backup w.fs k = some n → ∃ n0, v0 k = some n0 ∧ n0.kind = n.kind
  /-- nothing is masked on the backup side (static; what `copyDir`/`writeFile` need of the target key) -/
  bvis : ∀ k, ¬ S.Hid .backup k

structure InvX (S : Sim cfg) (v0 : View) (w : World) : Prop where
  inv : Inv S v0 w
  x : XInv S v0 w

theorem InvX.good {w : World} (h : InvX S v0 w) : S.G w.fs := h.inv.good

/-- the clauses look only at the backup view and the tracked map -/
theorem XInv.of_eq {w w' : World} (h : XInv S v0 w) (hv : S.view .backup w'.fs = S.view .backup w.fs)
    (hi : w'.infos = w.infos) : XInv S v0 w' := by
  refine ⟨?_, ?_, h.bvis⟩
  · intro k i hk hne hts
    rw [hv]
    exact h.exact k i hk hne (by unfold TS at *; rw [← hi]; exact hts)
  · intro k n hne hp
    rw [hv] at hp
    exact h.kind k n hne hp

theorem XInv.of_same {w w' : World} (h : XInv S v0 w) (hs : SameFS w w') : XInv S v0 w' :=
  h.of_eq (by rw [hs.fs]) hs.infos

/-- a base-side step -/
theorem XInv.of_base_chg {w w' : World} {K : Key → Prop} (h : XInv S v0 w) (hc : S.Chg .base K w w') :
    XInv S v0 w' :=
  h.of_eq hc.other hc.infos

/-- recording an entry that does not concern the backup: "did not exist", or the root -/
theorem XInv.add_plain {w : World} {q : Path} {x : Option Info} (h : XInv S v0 w)
    (hx : ∀ j i, PKey j → j ≠ [] → q = kp j → x ≠ some i) : XInv S v0 (addInfo w q x) := by
  refine ⟨?_, h.kind, h.bvis⟩
  intro j i hj hne hts
  apply h.exact j i hj hne
  unfold TS addInfo at hts
  unfold TS
  simp only at hts
  rw [List.lookup_append] at hts
  cases hl : w.infos.lookup (kp j) with
  | some y => rw [hl] at hts; exact hts
  | none =>
    exfalso
    rw [hl] at hts
    by_cases hq : kp j = q
    · rw [← hq] at hts
      simp [List.lookup] at hts
      exact hx j i hj hne hq.symm hts
    · have : (kp j == q) = false := by simpa using hq
      simp [List.lookup, this] at hts

/-- a backup-side step confined to the untracked key `k` that leaves there nothing, or something of
the type of the original -/
theorem XInv.backup_step {w w' : World} {k : Key} (h : XInv S v0 w)
    (hun : w.infos.lookup (kp k) = none) (hc : S.Chg .backup (· = k) w w')
    (hkind : ∀ n, S.view .backup w'.fs k = some n → ∃ n0, v0 k = some n0 ∧ n0.kind = n.kind) :
    XInv S v0 w' := by
  refine ⟨?_, ?_, h.bvis⟩
  · intro j i hj hne hts
    have hts' : TS w j i := by unfold TS at *; rw [← hc.infos]; exact hts
    have hjk : j ≠ k := by
      intro e; subst e; unfold TS at hts'; rw [hun] at hts'; cases hts'
    rw [hc.frame j hjk]
    exact h.exact j i hj hne hts'
  · intro j n hne hp
    by_cases hjk : j = k
    · subst hjk; exact hkind n hp
    · rw [hc.frame j hjk] at hp
      exact h.kind j n hne hp

/-- the same for a step that may have left the key as it was -/
theorem XInv.backup_step' {w w' : World} {k : Key} (h : XInv S v0 w) (hne : k ≠ [])
    (hun : w.infos.lookup (kp k) = none) (hc : S.Chg .backup (· = k) w w')
    (hkind : S.view .backup w'.fs k = S.view .backup w.fs k ∨
      ∀ n, S.view .backup w'.fs k = some n → ∃ n0, v0 k = some n0 ∧ n0.kind = n.kind) :
    XInv S v0 w' := by
  apply h.backup_step hun hc
  rcases hkind with hsame | hk
  · intro n hn
    rw [hsame] at hn
    exact h.kind k n hne hn
  · exact hk

/-- recording the untracked key `k` once the backup view shows the original there -/
theorem XInv.record {w : World} {k : Key} {i : Info} (h : XInv S v0 w) (hk : PKey k)
    (hun : w.infos.lookup (kp k) = none) (hex : S.view .backup w.fs k = v0 k) :
    XInv S v0 (addInfo w (kp k) (some i)) := by
  refine ⟨?_, h.kind, h.bvis⟩
  intro j i' hj hne hts
  show S.view .backup w.fs j = v0 j
  by_cases hjk : j = k
  · subst hjk; exact hex
  · apply h.exact j i' hj hne
    unfold TS addInfo at hts
    unfold TS
    simp only at hts
    rwa [lookup_snoc_ne (fun e => hjk (kp_inj hj hk e))] at hts

/-! ### consequences for a key about to be backed up -/

/-- the parent of an untracked live key, once tracked, is a directory in the backup -/
theorem InvX.parent_bdir {w : World} {k : Key} (h : InvX S v0 w) (hk : PKey k) (hne : k ≠ [])
    (hun : w.infos.lookup (kp k) = none) (hv : S.view .base w.fs k ≠ none)
    (hpar : Tracked w k.dropLast) : (S.view .backup w.fs).isDirAt k.dropLast := by
  by_cases ha : k.dropLast = []
  · rw [ha]; exact S.root_dir h.good
  · have hpa : PKey k.dropLast := hk.dropLast
    have hv0 : v0 k ≠ none := by rw [← h.inv.frame k hk hun]; exact hv
    obtain ⟨mt, hmt⟩ := h.inv.v0_parent hv0 hne
    rcases tracked_cases w k.dropLast with hu | htn | ⟨ia, htsa⟩
    · exact absurd hu hpar
    · have := h.inv.absent _ hpa htn; rw [this] at hmt; cases hmt
    · exact ⟨mt, by rw [h.x.exact _ ia hpa ha htsa]; exact hmt⟩

/-- an untracked key that shows a directory in the base is absent or a directory in the backup -/
theorem InvX.cur_dir {w : World} {k : Key} {mt : Meta} (h : InvX S v0 w) (hk : PKey k) (hne : k ≠ [])
    (hun : w.infos.lookup (kp k) = none) (hv : S.view .base w.fs k = some (.dir mt)) :
    S.view .backup w.fs k = none ∨ (S.view .backup w.fs).isDirAt k := by
  cases hb : S.view .backup w.fs k with
  | none => exact Or.inl rfl
  | some n =>
    right
    obtain ⟨n0, hn0, hkind⟩ := h.x.kind k n hne hb
    rw [← h.inv.frame k hk hun, hv] at hn0
    cases hn0
    cases n with
    | dir m => exact ⟨m, hb⟩
    | file c m => cases hkind
    | link t m => cases hkind

/-- an untracked key that shows a regular file in the base is absent or a regular file in the backup -/
theorem InvX.cur_file {w : World} {k : Key} {c : String} {mt : Meta} (h : InvX S v0 w) (hk : PKey k) (hne : k ≠ [])
    (hun : w.infos.lookup (kp k) = none) (hv : S.view .base w.fs k = some (.file c mt)) :
    S.view .backup w.fs k = none ∨ (S.view .backup w.fs).isFileAt k := by
  cases hb : S.view .backup w.fs k with
  | none => exact Or.inl rfl
  | some n =>
    right
    obtain ⟨n0, hn0, hkind⟩ := h.x.kind k n hne hb
    rw [← h.inv.frame k hk hun, hv] at hn0
    cases hn0
    cases n with
    | file c' m => exact ⟨c', m, hb⟩
    | dir m => cases hkind
    | link t m => cases hkind

/-- what `copyDir` leaves is the original directory -/
theorem x2_restoredDir_eq {i : Info} {mt : Meta} (hfor : InfoFor i (.dir mt)) (hfr : mt.mtime = .fresh) :
    restoredDir i = .dir mt := by
  obtain ⟨_, hp, hu, hg, _⟩ := hfor
  cases mt
  simp only [Node.meta] at hp hu hg hfr
  simp [restoredDir, hp, hu, hg, hfr]

/-- what `copyFile` leaves is the original file: content, mode, owner and modification time -/
theorem x2_restoredFile_eq {i : Info} {c : String} {mt : Meta} (hfor : InfoFor i (.file c mt)) :
    restoredFile c i = .file c mt := by
  obtain ⟨_, hp, hu, hg, ht⟩ := hfor
  have ht := ht rfl
  cases mt
  simp only [Node.meta] at hp hu hg ht
  simp [restoredFile, hp, hu, hg, ht]

/-! ### advancing -/

structure AdvX (S : Sim cfg) (v0 : View) (w w' : World) : Prop where
  adv : Adv S v0 w w'
  x : XInv S v0 w'

theorem AdvX.inv {w w' : World} (h : AdvX S v0 w w') : InvX S v0 w' := ⟨h.adv.inv, h.x⟩
theorem AdvX.base {w w' : World} (h : AdvX S v0 w w') : S.view .base w'.fs = S.view .base w.fs := h.adv.base

theorem AdvX.refl {w : World} (h : InvX S v0 w) : AdvX S v0 w w := ⟨Adv.refl h.inv, h.x⟩

theorem AdvX.trans {a b c : World} (h1 : AdvX S v0 a b) (h2 : AdvX S v0 b c) : AdvX S v0 a c :=
  ⟨h1.adv.trans h2.adv, h2.x⟩

theorem AdvX.of_same {w w' : World} (h : InvX S v0 w) (hs : SameFS w w') : AdvX S v0 w w' :=
  ⟨Adv.of_same h.inv hs, h.x.of_same hs⟩

theorem Tracked.monoX {w w' : World} {k : Key} (h : Tracked w k) (ha : AdvX S v0 w w') : Tracked w' k :=
  h.mono ha.adv

/-- the strengthened invariant at the beginning of a transaction: nothing tracked, an empty backup
(any fault plan) -/
theorem InvX.init {w : World} (hg : S.G w.fs) (hinfos : w.infos = []) (hbv : ∀ k, ¬ S.Hid .backup k)
    (hempty : ∀ k, k ≠ [] → S.view .backup w.fs k = none) :
    InvX S (S.view .base w.fs) w := by
  refine ⟨Inv.init hg hinfos, ?_, ?_, hbv⟩
  · intro k i _ _ hts; unfold TS at hts; rw [hinfos] at hts; cases hts
  · intro k n hne hp; rw [hempty k hne] at hp; cases hp

/-- more generally: a backup that holds, below its root, only entries sitting at the path of a base
entry of the same type (e.g. what an interrupted earlier transaction left behind) -/
theorem InvX.init_typed {w : World} (hg : S.G w.fs) (hinfos : w.infos = []) (hbv : ∀ k, ¬ S.Hid .backup k)
    (htyped : ∀ k n, k ≠ [] → S.view .backup w.fs k = some n →
      ∃ n0, S.view .base w.fs k = some n0 ∧ n0.kind = n.kind) :
    InvX S (S.view .base w.fs) w := by
  refine ⟨Inv.init hg hinfos, ?_, htyped, hbv⟩
  intro k i _ _ hts; unfold TS at hts; rw [hinfos] at hts; cases hts

end BFS.N
