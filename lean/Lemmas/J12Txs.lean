import Lemmas.J12Valid
import Lemmas.J12Small
/-!
  Lemmas/J12Txs.lean — restarts are invisible over ANY NUMBER of consecutive transactions, each a
  session of covered operations and restarts ended by `Rollback` on the current instance.
  Needs, beyond one transaction: small owners on the disk at the start of EVERY transaction —
  `SD` is an invariant of all of BackupFS when the client's `Chown`/`Lchown` arguments fit 32 bits
  (`J12Small`).
-/
namespace BFS
namespace J12
open BackupFS

variable {cfg : Cfg}

theorem SI.init {w : World} (hsd : SD w.fs) (hinfos : w.infos = []) : SI w :=
  ⟨hsd, by rw [hinfos]; exact AllN.nil⟩

/-- the disk after a transaction whose client arguments are small has small owners again -/
theorem runTx_SD (hC : SmallCfg cfg) {w : World} (hsd : SD w.fs) (hinfos : w.infos = []) (ops : List Op)
    (hs : ∀ op ∈ ops, OpSmall op) : SD (runTx cfg w ops).fs :=
  rollback_SD hC _ (runOps_SI hC ops w hs (SI.init hsd hinfos))

theorem txsR_eq {S : Sim cfg} (hL : LstatN cfg NameK) (hC : SmallCfg cfg)
    (hview : ∀ m, SD m → SmallView (S.view .base m)) :
    ∀ (txs : List (List Step)) (w : World), S.G w.fs → w.infos = [] → w.faults = [] → SD w.fs →
      CoveredTxs cfg S w (txs.map opsOf) → (∀ tx ∈ txs, ∀ op ∈ opsOf tx, OpSmall op) →
      runTxsR cfg w txs = (txs.map opsOf).foldl (runTx cfg) w
  | [], _, _, _, _, _, _, _ => rfl
  | tx :: rest, w, hg, hi, hf, hsd, hc, hs => by
    have e : runTxR cfg w tx = runTx cfg w (opsOf tx) := by
      unfold runTxR runTx
      rw [restart_anywhere (S := S) hL hg hi (hview _ hsd) tx hc.1]
    obtain ⟨g1, i1, f1, _⟩ := tx_restores (cfg := cfg) hg hi hf (opsOf tx) hc.1
    have sd1 := runTx_SD hC hsd hi (opsOf tx) (hs tx (List.mem_cons_self ..))
    show runTxsR cfg (runTxR cfg w tx) rest = (rest.map opsOf).foldl (runTx cfg) (runTx cfg w (opsOf tx))
    rw [e]
    exact txsR_eq hL hC hview rest _ g1 i1 f1 sd1 hc.2 (fun t ht => hs t (List.mem_cons_of_mem _ ht))

/-- the world each transaction's `Rollback` starts from -/
theorem txsR_each {S : Sim cfg} (hL : LstatN cfg NameK) (hC : SmallCfg cfg)
    (hview : ∀ m, SD m → SmallView (S.view .base m)) :
    ∀ (txs : List (List Step)) (w : World), S.G w.fs → w.infos = [] → w.faults = [] → SD w.fs →
      CoveredTxs cfg S w (txs.map opsOf) → (∀ tx ∈ txs, ∀ op ∈ opsOf tx, OpSmall op) →
      ∀ pre tx post, txs = pre ++ tx :: post →
        runOpsR cfg (runTxsR cfg w pre) tx = runOps cfg ((pre.map opsOf).foldl (runTx cfg) w) (opsOf tx)
  | [], _, _, _, _, _, _, _ => by
    intro pre tx post h
    simp at h
  | t :: rest, w, hg, hi, hf, hsd, hc, hs => by
    intro pre tx post heq
    cases pre with
    | nil =>
      simp only [List.nil_append, List.cons.injEq] at heq
      obtain ⟨rfl, _⟩ := heq
      exact restart_anywhere (S := S) hL hg hi (hview _ hsd) t hc.1
    | cons p pre' =>
      simp only [List.cons_append, List.cons.injEq] at heq
      obtain ⟨rfl, heq'⟩ := heq
      have e : runTxR cfg w t = runTx cfg w (opsOf t) := by
        unfold runTxR runTx
        rw [restart_anywhere (S := S) hL hg hi (hview _ hsd) t hc.1]
      obtain ⟨g1, i1, f1, _⟩ := tx_restores (cfg := cfg) hg hi hf (opsOf t) hc.1
      have sd1 := runTx_SD hC hsd hi (opsOf t) (hs t (List.mem_cons_self ..))
      show runOpsR cfg (runTxsR cfg (runTxR cfg w t) pre') tx =
        runOps cfg ((pre'.map opsOf).foldl (runTx cfg) (runTx cfg w (opsOf t))) (opsOf tx)
      rw [e]
      exact txsR_each hL hC hview rest _ g1 i1 f1 sd1 hc.2 (fun t' ht => hs t' (List.mem_cons_of_mem _ ht))
        pre' tx post heq'

theorem txsR_eqL {S : L.LSim cfg} (hL : LstatN cfg NameK) (hC : SmallCfg cfg)
    (hview : ∀ m, SD m → SmallView (S.view .base m)) :
    ∀ (txs : List (List Step)) (w : World), S.G w.fs → w.infos = [] → w.faults = [] → L.BackupLinksOK S w.fs →
      SD w.fs → L.CoveredTxs cfg S w (txs.map opsOf) → (∀ tx ∈ txs, ∀ op ∈ opsOf tx, OpSmall op) →
      runTxsR cfg w txs = (txs.map opsOf).foldl (runTx cfg) w
  | [], _, _, _, _, _, _, _, _ => rfl
  | tx :: rest, w, hg, hi, hf, hb, hsd, hc, hs => by
    have e : runTxR cfg w tx = runTx cfg w (opsOf tx) := by
      unfold runTxR runTx
      rw [restart_anywhereL (S := S) hL hg hi hb (hview _ hsd) tx hc.1]
    obtain ⟨g1, i1, f1, b1, _⟩ := L.tx_restores (cfg := cfg) hg hi hf hb (opsOf tx) hc.1
    have sd1 := runTx_SD hC hsd hi (opsOf tx) (hs tx (List.mem_cons_self ..))
    show runTxsR cfg (runTxR cfg w tx) rest = (rest.map opsOf).foldl (runTx cfg) (runTx cfg w (opsOf tx))
    rw [e]
    exact txsR_eqL hL hC hview rest _ g1 i1 f1 b1 sd1 hc.2 (fun t ht => hs t (List.mem_cons_of_mem _ ht))

/-! ### the OS configuration -/

theorem sd_of_ownersSmall {m : MFS} (hdom : ∀ k n, m.get k = some n → k ∈ m.dom)
    (hs : OwnersSmall m = true) : SD m := fun _ _ h => ownersSmall_get hdom hs h

theorem smallView_of_sd (bk kk : Key) (s : Side) {m : MFS} (h : SD m) : SmallView (osView bk kk s m) := by
  intro k n hv
  unfold osView at hv
  cases hm : m.get (osRoot bk kk s ++ k) with
  | none => rw [hm] at hv; cases hv
  | some n0 =>
    rw [hm] at hv
    simp only [Option.map_some, Option.some.injEq] at hv
    subst hv
    rw [(eraseMt_meta_owner n0).1, (eraseMt_meta_owner n0).2]
    exact h _ _ hm

theorem smallViewL_of_sd (bk kk : Key) (s : Side) {m : MFS} (h : SD m) : SmallView (L.osViewL bk kk s m) := by
  intro k n hv
  unfold L.osViewL at hv
  cases hm : m.get (osRoot bk kk s ++ k) with
  | none => rw [hm] at hv; cases hv
  | some n0 =>
    rw [hm] at hv
    simp only [Option.map_some, Option.some.injEq] at hv
    subst hv
    rw [(eraseV_meta_owner _ n0).1, (eraseV_meta_owner _ n0).2]
    exact h _ _ hm

end J12
end BFS
