import Lemmas.LForceWalk
/-!
  Lemmas/LForceHist.lean — ForceBackup inside histories over an `LSim` (symlinks as leaves).

  * one successful ForceBackup between two covered histories, then Rollback
    (`force_then_rollback_full`, `force_in_history_rollback_full`), and the same under any fault plan
    (`force_then_rollback_after_faults_full`);
  * any number of successful ForceBackups (`Op.CoveredF`, `refView`, `forces_then_rollback`): the
    reference view is re-based at every force (`forceKey`, `SameDirs` are those of
    Lemmas/ForceHist.lean).
  Rollback also re-establishes the start condition on backup symlinks (`BackupLinksOK`), so the
  statements compose with further transactions.
-/
namespace BFS
namespace L
open BackupFS

variable {cfg : Cfg} {S : LSim cfg} {v0 : View}

/-! ### one ForceBackup, then any covered history, then Rollback -/

/-- C17 with symlinks as leaves, generic form: on healthy filesystems, after a covered history
`ops₁`, a successful `ForceBackup(p)` and a further covered history `ops₂`, Rollback leaves `p` as it
was at the moment of the ForceBackup call and every other key below the root as it was when the
transaction began -/
theorem force_then_rollback_full {w : World} (hg : S.G w.fs) (hinfos : w.infos = []) (hnf : w.faults = [])
    (hbl : BackupLinksOK S w.fs)
    (ops₁ ops₂ : List Op) {name : Path} {k : Key} (hk : PKey k) (hname : clean name = kp k)
    (hcov1 : CoveredHist cfg S w ops₁)
    (horig : ¬ (S.view .base w.fs).isDirAt k)
    (hnow : ¬ (S.view .base (runOps cfg w ops₁).fs).isDirAt k)
    (hpar : (S.view .base w.fs).parentDir k)
    (hacc : NoLinkAnc (S.view .base (runOps cfg w ops₁).fs) k)
    (hlok : ∀ t mt, S.view .base (runOps cfg w ops₁).fs k = some (.link t mt) → S.LinkOK .base k t)
    (hok : (forceBackup cfg name (runOps cfg w ops₁)).2 = .ok ())
    (hcov2 : CoveredHist cfg S (forceBackup cfg name (runOps cfg w ops₁)).1 ops₂) :
    S.G (runTx cfg (forceBackup cfg name (runOps cfg w ops₁)).1 ops₂).fs ∧
    (runTx cfg (forceBackup cfg name (runOps cfg w ops₁)).1 ops₂).infos = [] ∧
    (runTx cfg (forceBackup cfg name (runOps cfg w ops₁)).1 ops₂).faults = [] ∧
    BackupLinksOK S (runTx cfg (forceBackup cfg name (runOps cfg w ops₁)).1 ops₂).fs ∧
    ∀ j, j ≠ [] → S.view .base (runTx cfg (forceBackup cfg name (runOps cfg w ops₁)).1 ops₂).fs j =
      if j = k then S.view .base (runOps cfg w ops₁).fs k else S.view .base w.fs j := by
  have h1 := history_keeps (cfg := cfg) ops₁ w (Inv.init hg hinfos hbl) hcov1
  obtain ⟨_, hfl, _, hres⟩ :=
    (sat_forceBackup_full (cfg := cfg) (name := name) h1.inv hk hname horig hnow hpar hacc hlok).elim
  have hinv2 := (hres hok).1
  have h2 := history_keeps (cfg := cfg) ops₂ _ hinv2 hcov2
  have hr := (sat_rollback (cfg := cfg) h2.inv (h2.faults.trans (hfl.trans (h1.faults.trans hnf)))).elim
  refine ⟨hr.1, rollback_resets_infos cfg _, hr.2.1,
    backupLinksOK_after h2.inv hr.1 hr.2.2.1 hr.2.2.2, ?_⟩
  intro j hj
  exact hr.2.2.1 j hj

/-- the same with the ForceBackup as one operation of a single history `ops₁ ++ force p :: ops₂` -/
theorem force_in_history_rollback_full {w : World} (hg : S.G w.fs) (hinfos : w.infos = []) (hnf : w.faults = [])
    (hbl : BackupLinksOK S w.fs)
    (ops₁ ops₂ : List Op) {name : Path} {k : Key} (hk : PKey k) (hname : clean name = kp k)
    (hcov1 : CoveredHist cfg S w ops₁)
    (horig : ¬ (S.view .base w.fs).isDirAt k)
    (hnow : ¬ (S.view .base (runOps cfg w ops₁).fs).isDirAt k)
    (hpar : (S.view .base w.fs).parentDir k)
    (hacc : NoLinkAnc (S.view .base (runOps cfg w ops₁).fs) k)
    (hlok : ∀ t mt, S.view .base (runOps cfg w ops₁).fs k = some (.link t mt) → S.LinkOK .base k t)
    (hok : (Op.exec cfg (.force name) (runOps cfg w ops₁)).2 = .ok .unit)
    (hcov2 : CoveredHist cfg S (Op.step cfg (runOps cfg w ops₁) (.force name)) ops₂) :
    BackupLinksOK S (runTx cfg w (ops₁ ++ .force name :: ops₂)).fs ∧
    ∀ j, j ≠ [] → S.view .base (runTx cfg w (ops₁ ++ .force name :: ops₂)).fs j =
      if j = k then S.view .base (runOps cfg w ops₁).fs k else S.view .base w.fs j := by
  obtain ⟨hstep, hiff⟩ := force_step cfg name (runOps cfg w ops₁)
  have hrun : runTx cfg w (ops₁ ++ .force name :: ops₂) =
      runTx cfg (forceBackup cfg name (runOps cfg w ops₁)).1 ops₂ := by
    unfold runTx
    rw [runOps_append, ← hstep]
    rfl
  rw [hrun]
  rw [hstep] at hcov2
  have := force_then_rollback_full hg hinfos hnf hbl ops₁ ops₂ hk hname hcov1 horig hnow hpar hacc hlok
    (hiff.mp hok) hcov2
  exact ⟨this.2.2.2.1, this.2.2.2.2⟩

/-- whatever the fault plan did to the operations and to the ForceBackup itself (which may have
failed half-way): once the filesystems are healthy again, Rollback restores every key other than
`p` below the root to its original node, and `p` either to its original node or to the one it held
at the moment of the ForceBackup call; if the ForceBackup succeeded, to the latter -/
theorem force_then_rollback_after_faults_full {w : World} (hg : S.G w.fs) (hinfos : w.infos = [])
    (hbl : BackupLinksOK S w.fs)
    (ops₁ ops₂ : List Op) {name : Path} {k : Key} (hk : PKey k) (hname : clean name = kp k)
    (hcov1 : CoveredHist cfg S w ops₁)
    (horig : ¬ (S.view .base w.fs).isDirAt k)
    (hnow : ¬ (S.view .base (runOps cfg w ops₁).fs).isDirAt k)
    (hpar : (S.view .base w.fs).parentDir k)
    (hacc : NoLinkAnc (S.view .base (runOps cfg w ops₁).fs) k)
    (hlok : ∀ t mt, S.view .base (runOps cfg w ops₁).fs k = some (.link t mt) → S.LinkOK .base k t)
    (hcov2 : CoveredHist cfg S (forceBackup cfg name (runOps cfg w ops₁)).1 ops₂) :
    let w3 := runOps cfg (forceBackup cfg name (runOps cfg w ops₁)).1 ops₂
    let v := S.view .base (rollback cfg { w3 with faults := [] }).1.fs
    (∀ j, j ≠ [] → j ≠ k → v j = S.view .base w.fs j) ∧
    (v k = S.view .base w.fs k ∨ v k = S.view .base (runOps cfg w ops₁).fs k) ∧
    ((forceBackup cfg name (runOps cfg w ops₁)).2 = .ok () → v k = S.view .base (runOps cfg w ops₁).fs k) := by
  intro w3 v
  have hkne : k ≠ [] := hpar.1
  have h1 := history_keeps (cfg := cfg) ops₁ w (Inv.init hg hinfos hbl) hcov1
  obtain ⟨hdis, _, _, hres⟩ :=
    (sat_forceBackup_full (cfg := cfg) (name := name) h1.inv hk hname horig hnow hpar hacc hlok).elim
  have hreb : ∀ {w' : World}, Inv S (rebase (S.view .base w.fs) k (S.view .base (runOps cfg w ops₁).fs k)) w' →
      ∀ j, j ≠ [] → S.view .base (rollback cfg { w' with faults := [] }).1.fs j =
        rebase (S.view .base w.fs) k (S.view .base (runOps cfg w ops₁).fs k) j :=
    fun h => ((sat_rollback (cfg := cfg) (h.with_faults []) rfl).elim).2.2.1
  have hor : ∀ {w' : World}, Inv S (S.view .base w.fs) w' →
      ∀ j, j ≠ [] → S.view .base (rollback cfg { w' with faults := [] }).1.fs j = S.view .base w.fs j :=
    fun h => ((sat_rollback (cfg := cfg) (h.with_faults []) rfl).elim).2.2.1
  refine ⟨?_, ?_, ?_⟩
  · intro j hj hjk
    rcases hdis with h | h
    · exact hor (history_keeps (cfg := cfg) ops₂ _ h hcov2).inv j hj
    · rw [show v j = _ from hreb (history_keeps (cfg := cfg) ops₂ _ h hcov2).inv j hj, rebase_ne _ _ hjk]
  · rcases hdis with h | h
    · exact Or.inl (hor (history_keeps (cfg := cfg) ops₂ _ h hcov2).inv k hkne)
    · right
      rw [show v k = _ from hreb (history_keeps (cfg := cfg) ops₂ _ h hcov2).inv k hkne, rebase_self]
  · intro hok
    have h := (hres hok).1
    rw [show v k = _ from hreb (history_keeps (cfg := cfg) ops₂ _ h hcov2).inv k hkne, rebase_self]

/-! ### any number of ForceBackups -/

/-- covered operations, now with ForceBackup: of an absolute name, for a path that was not a
directory when the transaction began and is not one now (a file, a symlink, or absent), whose parent
directory predates the transaction, no proper ancestor of which is a symlink now, whose symlink — if
it is one now — the base side admits re-creating, and that succeeds -/
def Op.CoveredF (cfg : Cfg) (S : LSim cfg) (v0 : View) (w : World) : Op → Prop
  | .force name => isAbs name = true ∧ ¬ v0.isDirAt (forceKey name) ∧
      ¬ (S.view .base w.fs).isDirAt (forceKey name) ∧ v0.parentDir (forceKey name) ∧
      NoLinkAnc (S.view .base w.fs) (forceKey name) ∧
      (∀ t mt, S.view .base w.fs (forceKey name) = some (.link t mt) → S.LinkOK .base (forceKey name) t) ∧
      (Op.exec cfg (.force name) w).2 = .ok .unit
  | op => Op.Covered S w op

def CoveredHistF (cfg : Cfg) (S : LSim cfg) (v0 : View) : World → List Op → Prop
  | _, [] => True
  | w, op :: rest => Op.CoveredF cfg S v0 w op ∧ CoveredHistF cfg S v0 (op.step cfg w) rest

/-- what an operation does to the reference view -/
def refStep (S : LSim cfg) (v : View) (w : World) : Op → View
  | .force name => rebase v (forceKey name) (S.view .base w.fs (forceKey name))
  | _ => v

/-- the reference view after a history -/
def refView (cfg : Cfg) (S : LSim cfg) : View → World → List Op → View
  | v, _, [] => v
  | v, w, op :: rest => refView cfg S (refStep S v w op) (op.step cfg w) rest

theorem op_not_force_cases {op : Op} (hf : ¬ ∃ name, op = .force name) {w : World} {v : View}
    (hc : Op.CoveredF cfg S v0 w op) : Op.Covered S w op ∧ refStep S v w op = v := by
  cases op <;> first | exact ⟨hc, rfl⟩ | exact absurd ⟨_, rfl⟩ hf

/-- one covered operation (ForceBackup included) keeps the invariant for the stepped reference view -/
theorem op_keeps_force {w : World} {v : View} {op : Op} (hinv : Inv S v w) (hsd : SameDirs v0 v)
    (hc : Op.CoveredF cfg S v0 w op) :
    Inv S (refStep S v w op) (op.step cfg w) ∧ (op.step cfg w).faults = w.faults ∧
      SameDirs v0 (refStep S v w op) := by
  by_cases hf : ∃ name, op = .force name
  · obtain ⟨name, rfl⟩ := hf
    obtain ⟨habs, h0, hnow, hpar, hacc, hlok, hok⟩ := hc
    obtain ⟨k, hk, hname⟩ := clean_abs habs
    have hfk := forceKey_kp hk hname
    rw [hfk] at h0 hnow hpar hacc hlok
    obtain ⟨hstep, hiff⟩ := force_step cfg name w
    obtain ⟨_, hfl, _, hres⟩ := (sat_forceBackup_full (cfg := cfg) (name := name) hinv hk hname
      (fun h => h0 ((hsd k).mp h)) hnow (hsd.parentDir hpar) hacc hlok).elim
    have hinv' := (hres (hiff.mp hok)).1
    show Inv S (rebase v (forceKey name) (S.view .base w.fs (forceKey name))) _ ∧ _ ∧
      SameDirs v0 (rebase v (forceKey name) (S.view .base w.fs (forceKey name)))
    rw [hfk, hstep]
    refine ⟨hinv', hfl, hsd.rebase h0 ?_⟩
    intro mt e
    exact hnow ⟨mt, e⟩
  · obtain ⟨hcov, hst⟩ := op_not_force_cases (v := v) hf hc
    have := op_keeps (cfg := cfg) hinv hcov
    rw [hst]
    exact ⟨this.inv, this.faults, hsd⟩

/-- after any covered history with ForceBackups the invariant holds for the reference view -/
theorem history_keeps_force : ∀ (ops : List Op) (w : World) (v : View), Inv S v w → SameDirs v0 v →
    CoveredHistF cfg S v0 w ops →
    Inv S (refView cfg S v w ops) (runOps cfg w ops) ∧ (runOps cfg w ops).faults = w.faults
  | [], _, _, hinv, _, _ => ⟨hinv, rfl⟩
  | op :: rest, w, v, hinv, hsd, hc => by
    obtain ⟨h1, h2, h3⟩ := op_keeps_force (cfg := cfg) hinv hsd hc.1
    have ih := history_keeps_force rest (op.step cfg w) (refStep S v w op) h1 h3 hc.2
    exact ⟨ih.1, ih.2.trans h2⟩

/-- on healthy filesystems, after any covered history with ForceBackups, Rollback restores the
reference view (and the start condition on backup symlinks) -/
theorem tx_restores_force {w : World} (hg : S.G w.fs) (hinfos : w.infos = []) (hnf : w.faults = [])
    (hbl : BackupLinksOK S w.fs)
    (ops : List Op) (hcov : CoveredHistF cfg S (S.view .base w.fs) w ops) :
    S.G (runTx cfg w ops).fs ∧ (runTx cfg w ops).infos = [] ∧ (runTx cfg w ops).faults = [] ∧
    BackupLinksOK S (runTx cfg w ops).fs ∧
    ∀ j, j ≠ [] → S.view .base (runTx cfg w ops).fs j = refView cfg S (S.view .base w.fs) w ops j := by
  have hk := history_keeps_force (cfg := cfg) ops w _ (Inv.init hg hinfos hbl) (fun _ => Iff.rfl) hcov
  have hr := (sat_rollback (cfg := cfg) hk.1 (hk.2.trans hnf)).elim
  exact ⟨hr.1, rollback_resets_infos cfg _, hr.2.1, backupLinksOK_after hk.1 hr.1 hr.2.2.1 hr.2.2.2, hr.2.2.1⟩

/-! ### what the reference view is -/

theorem refView_append (v : View) (w : World) (a b : List Op) :
    refView cfg S v w (a ++ b) = refView cfg S (refView cfg S v w a) (runOps cfg w a) b := by
  induction a generalizing v w with
  | nil => rfl
  | cons op a ih =>
    show refView cfg S (refStep S v w op) (op.step cfg w) (a ++ b) = _
    rw [ih]
    rfl

/-- a key no ForceBackup of the history works on keeps its reference node -/
theorem refView_untouched (j : Key) : ∀ (ops : List Op) (v : View) (w : World),
    (∀ name, Op.force name ∈ ops → forceKey name ≠ j) → refView cfg S v w ops j = v j
  | [], _, _, _ => rfl
  | op :: rest, v, w, h => by
    show refView cfg S (refStep S v w op) (op.step cfg w) rest j = v j
    rw [refView_untouched j rest _ _ (fun name hm => h name (List.mem_cons_of_mem _ hm))]
    by_cases hf : ∃ name, op = .force name
    · obtain ⟨name, rfl⟩ := hf
      exact rebase_ne v _ (fun e => h name (List.mem_cons_self) e.symm)
    · have : refStep S v w op = v := by
        cases op <;> first | rfl | exact absurd ⟨_, rfl⟩ hf
      rw [this]

/-- a forced key's reference node is the one it had at its last ForceBackup -/
theorem refView_last_force (v : View) (w : World) (ops₁ ops₂ : List Op) (name : Path)
    (h : ∀ name', Op.force name' ∈ ops₂ → forceKey name' ≠ forceKey name) :
    refView cfg S v w (ops₁ ++ .force name :: ops₂) (forceKey name) =
      S.view .base (runOps cfg w ops₁).fs (forceKey name) := by
  rw [refView_append]
  show refView cfg S (rebase _ (forceKey name) _) _ ops₂ (forceKey name) = _
  rw [refView_untouched (forceKey name) ops₂ _ _ h, rebase_self]

theorem coveredHistF_append {w : World} {a b : List Op} (h : CoveredHistF cfg S v0 w (a ++ b)) :
    CoveredHistF cfg S v0 (runOps cfg w a) b := by
  induction a generalizing w with
  | nil => exact h
  | cons op a ih => exact ih h.2

/-- C17 for any number of ForceBackups, symlinks as leaves: after Rollback (healthy filesystems) a
path no ForceBackup worked on is as it was when the transaction began, and a forced path is as it
was at the moment of its last ForceBackup -/
theorem forces_then_rollback {w : World} (hg : S.G w.fs) (hinfos : w.infos = []) (hnf : w.faults = [])
    (hbl : BackupLinksOK S w.fs)
    (ops : List Op) (hcov : CoveredHistF cfg S (S.view .base w.fs) w ops) :
    (∀ j, j ≠ [] → (∀ name, Op.force name ∈ ops → forceKey name ≠ j) →
      S.view .base (runTx cfg w ops).fs j = S.view .base w.fs j) ∧
    (∀ ops₁ name ops₂, ops = ops₁ ++ .force name :: ops₂ →
      (∀ name', Op.force name' ∈ ops₂ → forceKey name' ≠ forceKey name) →
      S.view .base (runTx cfg w ops).fs (forceKey name) =
        S.view .base (runOps cfg w ops₁).fs (forceKey name)) := by
  have hr := (tx_restores_force (cfg := cfg) hg hinfos hnf hbl ops hcov).2.2.2.2
  constructor
  · intro j hj hun
    rw [hr j hj, refView_untouched j ops _ _ hun]
  · intro ops₁ name ops₂ he hlast
    subst he
    have hc := (coveredHistF_append (cfg := cfg) hcov).1
    have hne : forceKey name ≠ [] := hc.2.2.2.1.1
    rw [hr _ hne, refView_last_force _ _ _ _ _ hlast]

end L
end BFS
