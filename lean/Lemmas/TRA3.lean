import Lemmas.TRA2
import Props.C15
/-!
  Lemmas/TRA3.lean — `RemoveAll` (C03), part 3: `BackupFS.RemoveAll` against `os.RemoveAll` behind the
  base `PrefixFS`, case by case on what the name denotes in the base view:

  * nothing, no regular file above it: both return nil and change nothing;
  * nothing, a regular file above it (ENOTDIR): BackupFS returns nil, `os.RemoveAll` ENOTDIR — the
    one place where the results differ (reading adopted by the project: "does not exist"); nothing
    changes on either side;
  * a regular file: both remove it;
  * a directory whose subtree fits the depth bound of the model's `Walk` (64): both remove the whole
    subtree (BackupFS: the walk in lock-step with `HiddenFS.RemoveAll` with nothing hidden,
    `Lemmas/TRA2.lean`, whose effect is `Props.C15.removeAll_transparent_linkfree_partial`).
-/
namespace BFS
open BackupFS MFS

section
variable {bk kk : Key}

/-! ### the error class of a failed resolution -/

theorem walk_err_notExist (m : MFS) (f : Bool) (hops : Nat) (tl : List Name) (htl : trivialRest tl = true) :
    ∀ (cs : List Name) (cur : Key) (fuel : Nat), PKey cs →
      (∀ p, p <+: cs → p ≠ cs → ∀ c mt, m.get (cur ++ p) ≠ some (.file c mt)) →
      (∀ p, p <+: cs → p ≠ [] → ∀ t mt, m.get (cur ++ p) ≠ some (.link t mt)) →
      cs.length + tl.length < fuel →
      ∀ e, walk m f fuel hops cur (cs ++ tl) = .err e → e = .notExist
  | [], cur, fuel, _, _, _, hf, e, he => by
    simp only [List.nil_append] at he
    rw [walk_trivial m f hops cur tl fuel htl (by simpa using hf)] at he
    cases h : m.get cur with
    | none => rw [h] at he; cases he; rfl
    | some n => rw [h] at he; cases he
  | c :: cs, cur, fuel, hp, hnf, hnl, hf, e, he => by
    obtain ⟨f', rfl⟩ : ∃ f', fuel = f' + 1 := ⟨fuel - 1, by simp at hf; omega⟩
    have hc : Plain c := hp c (by simp)
    rw [List.cons_append, walk_step m f f' hops cur hc] at he
    cases h1 : m.get (cur ++ [c]) with
    | none =>
      rw [h1] at he
      simp only at he
      split at he
      · cases he
      · cases he; rfl
    | some n =>
      rw [h1] at he
      cases n with
      | link t mt => exact absurd h1 (hnl [c] (by simp) (by simp) t mt)
      | dir mt =>
        simp only at he
        exact walk_err_notExist m f hops tl htl cs (cur ++ [c]) f'
          (fun n hn => hp n (List.mem_cons_of_mem _ hn))
          (fun p hpre hne c' mt' => by
            have := hnf (c :: p) (by simpa using hpre) (by simpa using hne) c' mt'
            simpa using this)
          (fun p hpre hne t mt' => by
            have := hnl (c :: p) (by simpa using hpre) (by simp) t mt'
            simpa using this)
          (by simp at hf ⊢; omega) e he
      | file ct mt =>
        simp only at he
        cases cs with
        | nil =>
          simp only [List.nil_append, htl, if_true] at he
          cases he
        | cons c2 r =>
          exact absurd h1 (hnf [c] (by simp) (by simp) ct mt)

/-- without a regular file above the key, a failed resolution is ENOENT -/
theorem namei_err_notExist {m : MFS} (hr : Roots bk kk) (hg : OSGood bk kk m) {k : Key} (hk : PKey k)
    (hnfa : ¬ FileAnc (osView bk kk .base m) k) {f : Bool} {e : Err}
    (he : namei m (kp (bk ++ k)) f = .err e) : e = .notExist := by
  obtain ⟨tl, fuel, htl, hf, hw⟩ := namei_walk' (hr.pb.append hk) (TextOf.kp (bk ++ k))
  rw [hw m f] at he
  refine walk_err_notExist m f 0 tl htl (bk ++ k) [] fuel (hr.pb.append hk) ?_ ?_ hf e he
  · intro p hp hne c mt hc
    simp only [List.nil_append] at hc
    rcases List.prefix_or_prefix_of_prefix hp (List.prefix_append bk k) with h | h
    · -- at or above the base root: a directory
      by_cases hpb : p = bk
      · obtain ⟨mt', hb⟩ := hg.bdir
        rw [hpb, hb] at hc; cases hc
      · obtain ⟨mt', hb⟩ := hg.bdir
        obtain ⟨mt2, h2⟩ := hg.ancestor hb h hpb
        rw [h2] at hc; cases hc
    · obtain ⟨a, rfl⟩ := h
      apply hnfa
      refine ⟨a, (List.prefix_append_right_inj bk).mp hp, fun e => hne (by rw [e]), c, mt, ?_⟩
      rw [osView_eq]
      show (m.get (bk ++ a)).map eraseMt = _
      rw [hc]; rfl
  · intro p hp _ t mt
    simpa using hg.noLinkUpto .base k p hp t mt

/-- `os.RemoveAll` of a name that denotes nothing and has no regular file above it: nil, no change -/
theorem base_removeAll_absent {m : MFS} (hr : Roots bk kk) (hg : OSGood bk kk m) {k : Key} (hk : PKey k)
    (hne : k ≠ []) (hv : osView bk kk .base m k = none) (hnfa : ¬ FileAnc (osView bk kk .base m) k) :
    (baseFS bk kk).call m (.removeAll (kp k)) = (m, .ok .unit) := by
  have hKne : bk ++ k ≠ [] := by simp [hne]
  rw [side_call_unit hr .base m (tr_removeAll hr.pb hk) (x := m.removeAll (kp (bk ++ k))) rfl]
  unfold MFS.removeAll
  simp only [kp_ne_nil, if_false, endsWithDot_kp (hr.pb.append hk) hKne, Bool.false_eq_true]
  have h0 : m.get (bk ++ k) = none := osView_none hv
  rcases namei_cases hg (hr.pb.append hk) (hg.noLinkUpto .base k) (TextOf.kp _) false with
    ⟨n, hn, _, _⟩ | ⟨_, _, _, _, hres⟩ | ⟨e, _, _, _, hres, _⟩
  · rw [h0] at hn; cases hn
  · rw [hres]; rfl
  · have := namei_err_notExist hr hg hk hnfa hres
    subst this
    rw [hres]; rfl

/-- two well-formed disks with the same base view and umask -/
theorem twin_of_views {m1 m2 : MFS} (g1 : OSGood bk kk m1) (g2 : OSGood bk kk m2)
    (hv : ∀ j, osView bk kk .base m1 j = osView bk kk .base m2 j) (hu : m1.umask = m2.umask) : Twin bk kk m1 m2 := by
  refine ⟨g1, g2, ?_, hu⟩
  intro K hK
  obtain ⟨j, rfl⟩ := hK
  exact hv j

/-! ### the operation -/

variable (hr : Roots bk kk) {v0 : View} {r0 : Option Node} {w : World} {name : Path} {k : Key}

/-- the subtree of `k` fits the depth bound of the model's `Walk` -/
def DepthOK (bk kk : Key) (m : MFS) (k : Key) : Prop :=
  ∀ j, k <+: j → osView bk kk .base m j ≠ none → j.length < k.length + 64

/-- the `RemoveAll` exception: BackupFS returns nil, `os.RemoveAll` ENOTDIR, nothing changes -/
def RemoveAllENOTDIR (bk kk : Key) (w : World) (k : Key) (w' : World) (r : Except Err OpOut)
    (d : MFS × Except Err DOut) : Prop :=
  FileAnc (osView bk kk .base w.fs) k ∧ (∃ a, r = .ok a ∧ a.data = .unit) ∧ d.2 = .error .notDir ∧
    Twin bk kk w'.fs d.1 ∧ d.1 = w.fs

theorem removeAll_transp (hinv : InvB (osSimR hr) v0 r0 w) (hk : PKey k) (hne : k ≠ [])
    (hname : clean name = kp k) (hdepth : DepthOK bk kk w.fs k) :
    Sat (Op.exec (osCfg bk kk) (.removeAll name)) w (fun w' r =>
      Transp bk kk w' r (Op.direct (baseFS bk kk) w.fs (.removeAll name)) ∨
      RemoveAllENOTDIR bk kk w k w' r (Op.direct (baseFS bk kk) w.fs (.removeAll name))) := by
  show Sat _ w (fun w' r => Transp bk kk w' r (directUnit (baseFS bk kk) w.fs (.removeAll name)) ∨
    RemoveAllENOTDIR bk kk w k w' r (directUnit (baseFS bk kk) w.fs (.removeAll name)))
  have hd1 := directUnit_fst (baseFS bk kk) w.fs (.removeAll name)
  have hd2 := directUnit_snd (baseFS bk kk) w.fs (.removeAll name)
  rw [(base_call_spelling w.fs hk hname).2.2.2.2.2.1] at hd1 hd2
  have hg := hinv.good
  have hu := osCfg_keeps_umask bk kk
  unfold Op.exec BackupFS.removeAll
  apply Sat.bind
  apply Sat.bind
  apply ((sat_realPath (S := osSimR hr) hinv.good hk hname).and
    (sat_realPath_ok (S := osSimR hr) hinv.good hinv.nofault hk hname)).mono
  intro w1 r1 ⟨⟨hs1, hres1⟩, hok1⟩
  obtain ⟨rp, hrp⟩ := hok1
  subst hrp
  have := hres1 rp rfl; subst this
  simp only
  have hinv1 := (AdvB.of_same hinv hs1).inv
  apply Sat.bind
  apply Sat.attempt
  apply (sat_lstat (S := osSimR hr) (s := .base) hinv1.good hk).mono
  intro w2 r2 ⟨hs2, hcase⟩
  have hs12 := hs1.trans hs2
  have hinv2 := (AdvB.of_same hinv hs12).inv
  have htw2 : Twin bk kk w2.fs w.fs := by rw [hs12.fs]; exact Twin.refl hg
  simp only
  rcases hcase with ⟨n, i, hv, rfl, hfor⟩ | ⟨hv, e, rfl, hnfd⟩ | ⟨_, hf⟩
  · -- the name denotes something
    have hv' : osView bk kk .base w.fs k = some n := by
      have : (osSimR hr).view .base w1.fs k = some n := hv
      rw [hs1.fs] at this; exact this
    have hex : osView bk kk .base w.fs k ≠ none := by rw [hv']; simp
    -- what `os.RemoveAll` does
    obtain ⟨md, hcall, hgone⟩ := os_removeAll_ok (s := .base) hr hg hk hne hex
    have hcall' : (baseFS bk kk).call w.fs (.removeAll (kp k)) = (md, .ok .unit) := hcall
    obtain ⟨gd, _, hframe⟩ := os_removeAll_frame (s := .base) hr hg hk hne hcall
    have hud : md.umask = w.fs.umask := by
      have := hu.call .base w.fs (.removeAll (kp k))
      rw [hcall] at this; exact this
    rw [hcall'] at hd1 hd2
    simp only
    cases hisd : i.isDir with
    | false =>
      -- a regular file: one `Remove`
      simp only [Bool.not_false, if_true]
      have hnd : n.isDir = false := by rw [← infoFor_isDir hfor]; exact hisd
      have hfile : (osView bk kk .base w.fs).isFileAt k :=
        isFileAt_of_nondir (S := osSimR hr) hg hv' hnd
      obtain ⟨mr, hrcall, hrgone⟩ := os_remove_ok (s := .base) hr hg hk hne (Or.inl hfile)
      have hrcall' : (baseFS bk kk).call w.fs (.remove (kp k)) = (mr, .ok .unit) := hrcall
      obtain ⟨gr, _, hrframe⟩ := os_remove_frame (s := .base) hr hg hk hne hrcall
      have hur : mr.umask = w.fs.umask := by
        have := hu.call .base w.fs (.remove (kp k))
        rw [hrcall] at this; exact this
      have htwr : Twin bk kk mr md := by
        apply twin_of_views gr gd _ (hur.trans hud.symm)
        intro j
        by_cases hkj : k <+: j
        · rw [hgone j hkj]
          by_cases hjk : j = k
          · rw [hjk]; exact hrgone
          · rw [hrframe j hjk]
            exact (osSimR hr).none_below_nondir hg hkj (fun e => hjk e.symm) hv' hnd
        · have hjk : j ≠ k := fun e => hkj (by rw [e]; exact List.prefix_rfl)
          rw [hrframe j hjk, hframe j hkj]
      have hcore := single_core hr (c := fun r => .remove r) hinv2 htw2 hk (clean_kp hk)
        (fun _ => rfl) (fun _ _ h => base_remove_rel hr h hk hne)
        (fun _ hg' hf => (base_call_fileAnc hr hg' hk hf).2.2.2.2.1)
      apply hcore.mono
      intro w3 r3 ⟨hag, htw3⟩
      rw [hrcall'] at hag htw3
      cases r3 with
      | error e => exact absurd hag id
      | ok u =>
        apply Sat.pure
        left
        exact ⟨by rw [hd2]; rfl, by rw [hd1]; exact htw3.trans htwr⟩
    | true =>
      -- a directory: the walk
      simp only [Bool.not_true, Bool.false_eq_true, if_false]
      -- the other run: `HiddenFS.RemoveAll` with nothing hidden, on the disk `w.fs`
      have hF := Props.C15.removeAll_transparent_linkfree_partial bk kk hr.pb hr.pk hr.nb hr.nk hr.d1 hr.d2
        [] (by intro h hh; cases hh) k hk hne w.fs hg 64 (by intro h hh; cases hh) hex hdepth
      simp only at hF
      obtain ⟨hFok, hFgone, hFframe, _⟩ := hF
      have hmk : HiddenFS.mk (([] : List Key).map kp) = [] := rfl
      rw [hmk] at hFok hFgone hFframe
      -- unfold it: the directory branch
      obtain ⟨iF, hiF, hforF⟩ := (osSimR hr).lstat_some (s := .base) hg hk hv'
      have hiF' : (baseFS bk kk).call w.fs (.lstat (kp k)) = (w.fs, .ok (.info iF)) := hiF
      have hdF : iF.isDir = true := by
        rw [infoFor_isDir hforF, ← infoFor_isDir hfor]; exact hisd
      have hFeq : hiddenRemoveAll [] (baseFS bk kk) 64 w.fs (kp k) =
          (match walkTree (fsiWalkOps (baseFS bk kk)) (hiddenRemoveFn [] (baseFS bk kk)) 64 w.fs [] (kp k) with
           | ((s2, _), some e) => (s2, .error e)
           | ((s2, dirs), none) => hiddenRemoveDirs [] (baseFS bk kk) s2 (sortMost dirs)) := by
        unfold hiddenRemoveAll
        rw [hguard_of_visible _ (isHidden_nil _)]
        simp only [hiF', hdF, Bool.not_true, Bool.false_eq_true, if_false]
        cases walkTree (fsiWalkOps (baseFS bk kk)) (hiddenRemoveFn [] (baseFS bk kk)) 64 w.fs [] (kp k) with
        | mk sa oe =>
          obtain ⟨s2, ds⟩ := sa
          cases oe <;> rfl
      have hWR : WR hr v0 r0 w.fs.umask w2 w.fs [] :=
        ⟨hinv2, htw2, rfl, by intro p hp; cases hp⟩
      have hsim := removeAll_walk_sim hr hWR hk hne
      cases hwF : walkTree (fsiWalkOps (baseFS bk kk)) (hiddenRemoveFn [] (baseFS bk kk)) 64 w.fs [] (kp k) with
      | mk saF oeF =>
        obtain ⟨mF, dirsF⟩ := saF
        rw [hwF] at hsim hFeq
        cases oeF with
        | some e =>
          rw [hFeq] at hFok
          cases hFok
        | none =>
          simp only at hFeq
          obtain ⟨hn1, hn2, hR3⟩ := hsim rfl
          cases hwW : walkTree (worldWalkOps (osCfg bk kk) .base) (removeAllFn (osCfg bk kk)) 64 w2 [] (kp k) with
          | mk saW oeW =>
            obtain ⟨w3, dirsW⟩ := saW
            rw [hwW] at hn1 hn2 hR3
            simp only at hn1 hn2 hR3
            subst hn1 hn2
            have hgood : ∀ p ∈ sortMost dirsW, GoodP p := by
              intro p hp
              exact hR3.2.2.2 p ((sortBy_perm _ dirsW).mem_iff.mp hp)
            have hR3' : WR hr v0 r0 w.fs.umask w3 mF [] := ⟨hR3.1, hR3.2.1, hR3.2.2.1, by intro p hp; cases hp⟩
            rw [hFeq] at hFok hFgone hFframe
            obtain ⟨hEok, hEr⟩ := removeEach_sim hr (sortMost dirsW) w3 mF hR3' hgood hFok
            apply Sat.bind
            apply Sat.of_eq (w1 := w3) (r := .ok dirsW) (by simp only [hwW])
            simp only
            cases hre : removeEach (osCfg bk kk) (sortMost dirsW) w3 with
            | mk w4 r4 =>
              rw [hre] at hEok hEr
              simp only at hEok hEr
              subst hEok
              apply Sat.of_eq hre
              simp only
              apply Sat.pure
              left
              refine ⟨by rw [hd2]; rfl, ?_⟩
              rw [hd1]
              refine hEr.2.1.trans (twin_of_views hEr.2.1.g2 gd ?_ (hEr.2.2.1.trans hud.symm))
              intro j
              by_cases hkj : k <+: j
              · rw [hFgone j hkj, hgone j hkj]
              · rw [hFframe j hkj, hframe j hkj]
  · -- the name denotes nothing: BackupFS returns nil without touching anything
    simp only [hnfd, if_true]
    apply Sat.pure
    apply Sat.pure
    have hv' : osView bk kk .base w.fs k = none := by
      have : (osSimR hr).view .base w1.fs k = none := hv
      rw [hs1.fs] at this; exact this
    by_cases hfa : FileAnc (osView bk kk .base w.fs) k
    · right
      have hcall := (base_call_fileAnc hr hg hk hfa).2.2.2.2.2.1
      rw [hcall] at hd1 hd2
      exact ⟨hfa, ⟨_, rfl, rfl⟩, by rw [hd2]; rfl, by rw [hd1]; exact htw2, hd1⟩
    · left
      have hcall := base_removeAll_absent hr hg hk hne hv' hfa
      rw [hcall] at hd1 hd2
      exact ⟨by rw [hd2]; rfl, by rw [hd1]; exact htw2⟩
  · exact absurd hinv1.nofault hf

end

end BFS
