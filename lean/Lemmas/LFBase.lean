import Lemmas.LRestore
import Lemmas.RestoreF
/-!
  Lemmas/LFBase.lean — `Rollback` over an `LSim` (trees with symlinks as leaves) under an ARBITRARY
  fault plan, part 1: `lexists` and the first loop (`classify`) with "the check was answered" as
  hypothesis instead of "the fault plan is empty", and the progress relation `MidF`.

  The development is Lemmas/LRestore.lean with each step's "returns ok" conclusion (there a
  consequence of the empty fault plan) replaced by the hypothesis "returned ok" (here a consequence
  of the `false` flag of the `multiErr` loops) — what Lemmas/RestoreF.lean does for the link-free
  proof Lemmas/Restore.lean.  Generic rules (`Sat.cond`, `sat_total`, `sat_forEachF`) are reused
  from there.
-/
namespace BFS
namespace L
open BackupFS

variable {cfg : Cfg} {S : LSim cfg} {v0 : View}

/-! ### lexists under any fault plan -/

theorem sat_lexistsF {s : Side} {k : Key} {w : World} (hg : S.G w.fs) (hk : PKey k)
    (hacc : NoLinkAnc (S.view s w.fs) k) :
    Sat (lexists cfg s (kp k)) w (fun w' r => SameFS w w' ∧
      (∀ i, r = .ok (some i) → ∃ n, S.view s w.fs k = some n ∧ InfoForL i n) ∧
      (r = .ok none → S.view s w.fs k = none)) := by
  unfold lexists
  apply Sat.bind
  apply Sat.attempt
  apply (sat_lstat hg hk hacc).mono
  intro w1 r ⟨hs, hr⟩
  simp only
  rcases hr with ⟨n, i, hv, rfl, hfor⟩ | ⟨hv, e, rfl, hnfd⟩ | ⟨rfl, hf⟩
  · apply Sat.pure
    refine ⟨hs, ?_, ?_⟩
    · intro i' h; cases h; exact ⟨n, hv, hfor⟩
    · intro h; cases h
  · simp only [hnfd, if_true]
    apply Sat.pure
    refine ⟨hs, ?_, fun _ => hv⟩
    intro i' h; cases h
  · simp only [Err.isNotFound, Bool.false_eq_true, if_false]
    apply Sat.throw
    refine ⟨hs, ?_, ?_⟩
    · intro i' h; cases h
    · intro h; cases h

/-! ### the first loop of Rollback under faults -/

/-- under any fault plan: if the resulting plan is not marked `failed`, every existence check was
answered, and the plan is the one of `Classified` -/
theorem sat_classifyF :
    ∀ (l : List (Path × Option Info)) (pl : RollbackPlan) (w : World), S.G w.fs →
      (∀ p oi, (p, oi) ∈ l → ∃ k, PKey k ∧ p = kp k) →
      (∀ p oi, (p, oi) ∈ l → ∀ k, PKey k → p = kp k → NoLinkAnc (S.view .base w.fs) k) →
      Sat (classify cfg l pl) w (fun w' r => SameFS w w' ∧ ∃ pl', r = .ok pl' ∧
        (pl'.failed = false → Classified S w l pl pl'))
  | [], pl, w, _, _, _ => by
    unfold classify
    exact Sat.pure ⟨SameFS.refl w, pl, rfl, fun _ => Classified.nil w pl⟩
  | (p, none) :: rest, pl, w, hg, hkeys, hacc => by
    unfold classify
    obtain ⟨k, hk, rfl⟩ := hkeys p none (by simp)
    have hkeys' : ∀ p oi, (p, oi) ∈ rest → ∃ k, PKey k ∧ p = kp k :=
      fun p oi h => hkeys p oi (List.mem_cons_of_mem _ h)
    have hacc' : ∀ p oi, (p, oi) ∈ rest → ∀ k, PKey k → p = kp k → NoLinkAnc (S.view .base w.fs) k :=
      fun p oi h => hacc p oi (List.mem_cons_of_mem _ h)
    apply Sat.bind
    apply Sat.attempt
    apply (sat_lexistsF (S := S) hg hk (hacc _ none (by simp) k hk rfl)).mono
    intro w1 r1 ⟨hs1, hsome, hnone⟩
    have hg1 : S.G w1.fs := hs1.fs ▸ hg
    have hacc1 : ∀ p oi, (p, oi) ∈ rest → ∀ k, PKey k → p = kp k → NoLinkAnc (S.view .base w1.fs) k := by
      rw [hs1.fs]; exact hacc'
    simp only
    cases r1 with
    | error e =>
      simp only
      apply (sat_classifyF rest _ w1 hg1 hkeys' hacc1).mono
      intro w2 r2 ⟨hs2, pl', hr2, hc⟩
      refine ⟨hs1.trans hs2, pl', hr2, fun hfl => ?_⟩
      have := (hc hfl).failed
      rw [hfl] at this
      cases this
    | ok o =>
    cases o with
    | none =>
      have hv := hnone rfl
      simp only
      apply (sat_classifyF rest pl w1 hg1 hkeys' hacc1).mono
      intro w2 r2 ⟨hs2, pl', hr2, hc⟩
      refine ⟨hs1.trans hs2, pl', hr2, fun hfl => ?_⟩
      have hc := hc hfl
      have hfs : w1.fs = w.fs := hs1.fs
      refine ⟨hc.failed, ?_, ?_, ?_, ?_⟩
      · intro q
        rw [hc.removeBase q, hfs]
        constructor
        · rintro (h | ⟨j, hj, rfl, hm, hp⟩)
          · exact Or.inl h
          · exact Or.inr ⟨j, hj, rfl, List.mem_cons_of_mem _ hm, hp⟩
        · rintro (h | ⟨j, hj, rfl, hm, hp⟩)
          · exact Or.inl h
          · rcases List.mem_cons.mp hm with heq | hm
            · have : j = k := kp_inj hj hk (Prod.mk.inj heq).1
              subst this; exact absurd hv hp
            · exact Or.inr ⟨j, hj, rfl, hm, hp⟩
      · intro q; rw [hc.dirs q]; simp
      · intro q; rw [hc.files q]; simp
      · intro q; rw [hc.links q]; simp
    | some i =>
      obtain ⟨n, hv, _⟩ := hsome i rfl
      simp only
      apply (sat_classifyF rest _ w1 hg1 hkeys' hacc1).mono
      intro w2 r2 ⟨hs2, pl', hr2, hc⟩
      refine ⟨hs1.trans hs2, pl', hr2, fun hfl => ?_⟩
      have hc := hc hfl
      have hfs : w1.fs = w.fs := hs1.fs
      refine ⟨hc.failed, ?_, ?_, ?_, ?_⟩
      · intro q
        rw [hc.removeBase q, hfs]
        simp only [List.mem_append, List.mem_singleton]
        constructor
        · rintro ((h | h) | ⟨j, hj, rfl, hm, hp⟩)
          · exact Or.inl h
          · subst h; exact Or.inr ⟨k, hk, rfl, by simp, by rw [hv]; simp⟩
          · exact Or.inr ⟨j, hj, rfl, List.mem_cons_of_mem _ hm, hp⟩
        · rintro (h | ⟨j, hj, rfl, hm, hp⟩)
          · exact Or.inl (Or.inl h)
          · rcases List.mem_cons.mp hm with heq | hm
            · have : j = k := kp_inj hj hk (Prod.mk.inj heq).1
              subst this; exact Or.inl (Or.inr rfl)
            · exact Or.inr ⟨j, hj, rfl, hm, hp⟩
      · intro q; rw [hc.dirs q]; simp
      · intro q; rw [hc.files q]; simp
      · intro q; rw [hc.links q]; simp
  | (p, some i) :: rest, pl, w, hg, hkeys, hacc => by
    unfold classify
    have hkeys' : ∀ p oi, (p, oi) ∈ rest → ∃ k, PKey k ∧ p = kp k :=
      fun p oi h => hkeys p oi (List.mem_cons_of_mem _ h)
    have hacc' : ∀ p oi, (p, oi) ∈ rest → ∀ k, PKey k → p = kp k → NoLinkAnc (S.view .base w.fs) k :=
      fun p oi h => hacc p oi (List.mem_cons_of_mem _ h)
    have hmem : ∀ (q : Path) (j : Info), (q, some j) ∈ (p, some i) :: rest ↔ (q = p ∧ j = i) ∨ (q, some j) ∈ rest := by
      intro q j; simp
    -- a step that does not touch one of the three lists
    have hskip : ∀ (f g : RollbackPlan → List Path) (kd : Kind) (pl1 pl' : RollbackPlan),
        (f pl1 = f pl) → i.kind ≠ kd ∨ p = rootP →
        (∀ q, q ∈ f pl' ↔ q ∈ f pl1 ∨ ∃ j, (q, some j) ∈ rest ∧ q ≠ rootP ∧ j.kind = kd) →
        (∀ q, q ∈ f pl' ↔ q ∈ f pl ∨ ∃ j, (q, some j) ∈ (p, some i) :: rest ∧ q ≠ rootP ∧ j.kind = kd) := by
      intro f _ kd pl1 pl' hf hki h q
      rw [h q, hf]
      constructor
      · rintro (h | ⟨j, hm, hq, hkd⟩)
        · exact Or.inl h
        · exact Or.inr ⟨j, List.mem_cons_of_mem _ hm, hq, hkd⟩
      · rintro (h | ⟨j, hm, hq, hkd⟩)
        · exact Or.inl h
        · rcases (hmem q j).mp hm with ⟨rfl, rfl⟩ | hm
          · rcases hki with hki | hki
            · exact absurd hkd hki
            · exact absurd hki hq
          · exact Or.inr ⟨j, hm, hq, hkd⟩
    -- a step that appends `p` to one of the three lists
    have hadd : ∀ (f : RollbackPlan → List Path) (kd : Kind) (pl1 pl' : RollbackPlan),
        (f pl1 = f pl ++ [p]) → i.kind = kd → p ≠ rootP →
        (∀ q, q ∈ f pl' ↔ q ∈ f pl1 ∨ ∃ j, (q, some j) ∈ rest ∧ q ≠ rootP ∧ j.kind = kd) →
        (∀ q, q ∈ f pl' ↔ q ∈ f pl ∨ ∃ j, (q, some j) ∈ (p, some i) :: rest ∧ q ≠ rootP ∧ j.kind = kd) := by
      intro f kd pl1 pl' hf hki hroot h q
      rw [h q, hf]
      simp only [List.mem_append, List.mem_singleton]
      constructor
      · rintro ((h | h) | ⟨j, hm, hq, hkd⟩)
        · exact Or.inl h
        · subst h; exact Or.inr ⟨i, by simp, hroot, hki⟩
        · exact Or.inr ⟨j, List.mem_cons_of_mem _ hm, hq, hkd⟩
      · rintro (h | ⟨j, hm, hq, hkd⟩)
        · exact Or.inl (Or.inl h)
        · rcases (hmem q j).mp hm with ⟨rfl, _⟩ | hm
          · exact Or.inl (Or.inr rfl)
          · exact Or.inr ⟨j, hm, hq, hkd⟩
    by_cases hroot : p = rootP
    · simp only [hroot, if_true]
      rw [hroot] at hskip
      apply Sat.bind
      apply (sat_ensureRoot (S := S) hg i).mono
      intro w1 r1 ⟨hs1, f, hr1, _⟩
      have hg1 : S.G w1.fs := hs1.fs ▸ hg
      have hacc1 : ∀ p oi, (p, oi) ∈ rest → ∀ k, PKey k → p = kp k → NoLinkAnc (S.view .base w1.fs) k := by
        rw [hs1.fs]; exact hacc'
      subst hr1
      simp only
      cases f
      case true =>
        simp only [if_true]
        apply (sat_classifyF rest _ w1 hg1 hkeys' hacc1).mono
        intro w2 r2 ⟨hs2, pl', hr2, hc⟩
        refine ⟨hs1.trans hs2, pl', hr2, fun hfl => ?_⟩
        have := (hc hfl).failed
        rw [hfl] at this
        cases this
      simp only [Bool.false_eq_true, if_false]
      apply (sat_classifyF rest pl w1 hg1 hkeys' hacc1).mono
      intro w2 r2 ⟨hs2, pl', hr2, hc⟩
      refine ⟨hs1.trans hs2, pl', hr2, fun hfl => ?_⟩
      have hc := hc hfl
      have hc : Classified S w rest pl pl' := by
        refine ⟨hc.failed, ?_, hc.dirs, hc.files, hc.links⟩
        intro q; rw [hc.removeBase q, hs1.fs]
      refine ⟨hc.failed, ?_, ?_, ?_, ?_⟩
      · intro q; rw [hc.removeBase q]; simp
      · exact hskip (·.dirs) (·.dirs) .dir pl pl' rfl (Or.inr rfl) hc.dirs
      · exact hskip (·.files) (·.files) .file pl pl' rfl (Or.inr rfl) hc.files
      · exact hskip (·.links) (·.links) .link pl pl' rfl (Or.inr rfl) hc.links
    · simp only [hroot, if_false]
      cases hkind : i.kind with
      | dir =>
        simp only
        apply (sat_classifyF rest _ w hg hkeys' hacc').mono
        intro w2 r2 ⟨hs2, pl', hr2, hc⟩
        refine ⟨hs2, pl', hr2, fun hfl => ?_⟩
        have hc := hc hfl
        refine ⟨hc.failed, ?_, ?_, ?_, ?_⟩
        · intro q; rw [hc.removeBase q]; simp
        · exact hadd (·.dirs) .dir _ pl' rfl hkind hroot hc.dirs
        · exact hskip (·.files) (·.files) .file _ pl' rfl (Or.inl (by rw [hkind]; decide)) hc.files
        · exact hskip (·.links) (·.links) .link _ pl' rfl (Or.inl (by rw [hkind]; decide)) hc.links
      | file =>
        simp only
        apply (sat_classifyF rest _ w hg hkeys' hacc').mono
        intro w2 r2 ⟨hs2, pl', hr2, hc⟩
        refine ⟨hs2, pl', hr2, fun hfl => ?_⟩
        have hc := hc hfl
        refine ⟨hc.failed, ?_, ?_, ?_, ?_⟩
        · intro q; rw [hc.removeBase q]; simp
        · exact hskip (·.dirs) (·.dirs) .dir _ pl' rfl (Or.inl (by rw [hkind]; decide)) hc.dirs
        · exact hadd (·.files) .file _ pl' rfl hkind hroot hc.files
        · exact hskip (·.links) (·.links) .link _ pl' rfl (Or.inl (by rw [hkind]; decide)) hc.links
      | link =>
        simp only
        apply (sat_classifyF rest _ w hg hkeys' hacc').mono
        intro w2 r2 ⟨hs2, pl', hr2, hc⟩
        refine ⟨hs2, pl', hr2, fun hfl => ?_⟩
        have hc := hc hfl
        refine ⟨hc.failed, ?_, ?_, ?_, ?_⟩
        · intro q; rw [hc.removeBase q]; simp
        · exact hskip (·.dirs) (·.dirs) .dir _ pl' rfl (Or.inl (by rw [hkind]; decide)) hc.dirs
        · exact hskip (·.files) (·.files) .file _ pl' rfl (Or.inl (by rw [hkind]; decide)) hc.files
        · exact hadd (·.links) .link _ pl' rfl hkind hroot hc.links

/-! ### progress of Rollback on the base, under a fixed arbitrary fault plan -/

/-- as `L.Mid`, the fault plan being whatever it was when Rollback began -/
structure MidF (S : LSim cfg) (v0 : View) (w : World) (D : Key → Prop) (w' : World) : Prop where
  good : S.G w'.fs
  infos : w'.infos = w.infos
  faults : w'.faults = w.faults
  backup : S.view .backup w'.fs = S.view .backup w.fs
  done : ∀ k, D k → S.view .base w'.fs k = v0 k
  rest : ∀ k, ¬ D k → S.view .base w'.fs k = S.view .base w.fs k

theorem MidF.congr {w w' : World} {D D' : Key → Prop} (h : MidF S v0 w D w') (hd : ∀ k, D k ↔ D' k) :
    MidF S v0 w D' w' :=
  ⟨h.good, h.infos, h.faults, h.backup, fun k hk => h.done k ((hd k).mpr hk),
    fun k hk => h.rest k (fun hk' => hk ((hd k).mp hk'))⟩

/-- a base-side step confined to one key that it puts back -/
theorem MidF.step {w w' w'' : World} {D D' : Key → Prop} {k : Key} (h : MidF S v0 w D w')
    (hc : S.ChgL .base (· = k) w' w'') (hk : S.view .base w''.fs k = v0 k)
    (hD' : ∀ j, D' j ↔ D j ∨ j = k) : MidF S v0 w D' w'' := by
  refine ⟨hc.good, hc.infos.trans h.infos, hc.faults.trans h.faults, hc.other.trans h.backup, ?_, ?_⟩
  · intro j hj
    by_cases hjk : j = k
    · subst hjk; exact hk
    · rw [hc.frame j hjk]
      rcases (hD' j).mp hj with hd | hd
      · exact h.done j hd
      · exact absurd hd hjk
  · intro j hj
    have hjk : j ≠ k := fun e => hj ((hD' j).mpr (Or.inr e))
    rw [hc.frame j hjk]
    exact h.rest j (fun hd => hj ((hD' j).mpr (Or.inl hd)))

end L
end BFS
