import Lemmas.LSimOSLaws3
/-!
  Lemmas/F16Def.lean — vocabulary of the "flat link topology" fragment of C16.

  * `lexK pos cs`  : the components `cs` of a link's target text applied *lexically* to the disk key
    `pos` (`""`/`.` skipped, `..` drops the last component, anything else is appended);
  * `effDisk K t`  : the lexical effective target (a disk key) of a symlink at disk key `K` with stored
    target text `t`: the text applied to the root (absolute text) or to the link's directory;
  * `ddOK`         : every `..` of the text is applied at a live directory (so the kernel's physical
    `..` and the lexical one agree), for relative texts strictly below the base root;
  * `targetOK`, `Flat bk m` : the flatness predicate, decidable;
  * `resK`         : the key-level specification of `resolvePathWithInfo`.
-/
namespace BFS
namespace F16
open MFS

/-- one component of a target text applied lexically to a position -/
def stepK (pos : Key) (c : Name) : Key :=
  if c = [] || c = dot then pos else if c = dotdot then pos.dropLast else pos ++ [c]

/-- a list of components applied lexically to a position -/
def lexK (pos : Key) (cs : List Name) : Key := cs.foldl stepK pos

/-- where the kernel starts to resolve the target text `t` of a symlink at disk key `K` -/
def startK (K : Key) (t : Path) : Key := if isRooted t then [] else K.dropLast

/-- the lexical effective target (disk key) of a symlink at disk key `K` with target text `t` -/
def effDisk (K : Key) (t : Path) : Key := lexK (startK K t) (splitSep t)

/-- the same, relative to the base root `bk` (meaningful when `bk <+: effDisk (bk ++ k) t`) -/
def effK (bk k : Key) (t : Path) : Key := (effDisk (bk ++ k) t).drop bk.length

def isDirB (m : MFS) (K : Key) : Bool :=
  match m.get K with
  | some (.dir _) => true
  | _ => false

def isLinkB (m : MFS) (K : Key) : Bool :=
  match m.get K with
  | some (.link _ _) => true
  | _ => false

/-- every `..` of the component list is applied at a live directory; with `below`, at a position
strictly below `bk` (a relative text must not climb out of the base root: `toAbsSymlink` computes
inside the PrefixFS, where `/..` is `/`) -/
def ddOK (m : MFS) (bk : Key) (below : Bool) : Key → List Name → Bool
  | _, [] => true
  | pos, c :: cs =>
    if c = [] || c = dot then ddOK m bk below pos cs
    else if c = dotdot then
      (isDirB m pos && (!below || (bk.isPrefixOf pos && pos != bk))) && ddOK m bk below pos.dropLast cs
    else ddOK m bk below (pos ++ [c]) cs

/-- no prefix of `E` (itself included) is a symlink -/
def noLinkB (m : MFS) (E : Key) : Bool := (List.range (E.length + 1)).all (fun i => !isLinkB m (E.take i))

/-- the condition on one symlink at disk key `K` with stored target text `t` -/
def targetOK (m : MFS) (bk K : Key) (t : Path) : Bool :=
  (t != [] && decide ((splitSep t).length ≤ 100)) &&
  ddOK m bk (!isRooted t) (startK K t) (splitSep t) &&
  bk.isPrefixOf (effDisk K t) &&
  noLinkB m (effDisk K t)

def flatB (bk : Key) (m : MFS) : Bool :=
  m.dom.all (fun K =>
    match m.get K with
    | some (.link t _) => !(bk.isPrefixOf K) || targetOK m bk K t
    | _ => true)

/-- FLAT link topology below the base root `bk`: every symlink at or below `bk` has a non-empty
target text of at most 100 components, whose `..` components are all applied at real directories
(for a relative text: strictly below `bk`), whose lexical effective target lies at or below `bk`,
and no component of that effective target — the last included — is a symlink. -/
def Flat (bk : Key) (m : MFS) : Prop := flatB bk m = true

instance (bk : Key) (m : MFS) : Decidable (Flat bk m) := inferInstanceAs (Decidable (_ = true))

/-- key-level specification of `resolvePathWithInfo` below the base root: `D` is the location
resolved so far, the list holds the caller's remaining components -/
def resK (m : MFS) (bk : Key) : Key → List Name → Key
  | D, [] => D
  | D, s :: S =>
    if S = [] then D ++ [s]
    else
      match m.get (bk ++ D ++ [s]) with
      | some (.dir _) => resK m bk (D ++ [s]) S
      | some (.link t _) => resK m bk (effK bk (D ++ [s]) t) S
      | _ => D ++ s :: S

/-! ### unfolding `Flat` -/

theorem isDirB_iff {m : MFS} {K : Key} : isDirB m K = true ↔ ∃ mt, m.get K = some (.dir mt) := by
  unfold isDirB
  cases h : m.get K with
  | none => simp
  | some n => cases n <;> simp

theorem isLinkB_false_iff {m : MFS} {K : Key} : isLinkB m K = false ↔ ∀ t mt, m.get K ≠ some (.link t mt) := by
  unfold isLinkB
  cases h : m.get K with
  | none => simp
  | some n => cases n <;> simp

theorem noLinkB_iff {m : MFS} {E : Key} : noLinkB m E = true ↔ NoLinkUpto m E := by
  unfold noLinkB NoLinkUpto
  rw [List.all_eq_true]
  constructor
  · intro h p hp t mt
    obtain ⟨s, rfl⟩ := hp
    have := h p.length (by simp; omega)
    simp only [List.take_left', Bool.not_eq_true'] at this
    exact isLinkB_false_iff.mp this t mt
  · intro h i _
    simp only [Bool.not_eq_true']
    exact isLinkB_false_iff.mpr (h _ (List.take_prefix i E))

structure TargetOK (m : MFS) (bk K : Key) (t : Path) : Prop where
  ne : t ≠ []
  len : (splitSep t).length ≤ 100
  dd : ddOK m bk (!isRooted t) (startK K t) (splitSep t) = true
  below : bk <+: effDisk K t
  nolink : NoLinkUpto m (effDisk K t)

theorem targetOK_iff {m : MFS} {bk K : Key} {t : Path} : targetOK m bk K t = true ↔ TargetOK m bk K t := by
  unfold targetOK
  simp only [Bool.and_eq_true, bne_iff_ne, ne_eq, decide_eq_true_eq, List.isPrefixOf_iff_prefix, noLinkB_iff]
  constructor
  · rintro ⟨⟨⟨⟨h1, h2⟩, h3⟩, h4⟩, h5⟩
    exact ⟨h1, h2, h3, h4, h5⟩
  · rintro ⟨h1, h2, h3, h4, h5⟩
    exact ⟨⟨⟨⟨h1, h2⟩, h3⟩, h4⟩, h5⟩

theorem Flat.target {bk kk : Key} {m : MFS} (hf : Flat bk m) (hg : L.OSGoodL bk kk m) {K : Key} {t : Path} {mt : Meta}
    (hK : m.get K = some (.link t mt)) (hb : bk <+: K) : TargetOK m bk K t := by
  unfold Flat flatB at hf
  rw [List.all_eq_true] at hf
  have := hf K (hg.dom K _ hK)
  rw [hK] at this
  simp only [Bool.or_eq_true, Bool.not_eq_true', ] at this
  rcases this with h | h
  · have : bk.isPrefixOf K = true := List.isPrefixOf_iff_prefix.mpr hb
    rw [this] at h; cases h
  · exact targetOK_iff.mp h

end F16
end BFS
