import Model.Direct
/-!
  Lemmas/UDef.lean — vocabulary of C03's theorem for names through symlinks (Props/C03U.lean).

  `Op.backupPhase cfg op` is the part of `Op.exec cfg op` that runs BEFORE the base filesystem is
  touched: path resolution and the backup copy (`prepare = realPath; tryBackup` for the single-path
  mutators; the two resolutions and the two copies for `Rename`; nothing for the read-only
  operations, which go straight to the base).  It is a prefix of `Op.exec` written with the model's
  own functions, not a new model of anything; the theorem uses its RESULT (ok / the error) to say
  "the backup step succeeded".
-/
namespace BFS
open BackupFS

def Op.backupPhase (cfg : Cfg) : Op → M Unit
  | .creat p _ => do let _ ← prepare cfg p; pure ()
  | .write p flag _ _ => if flag = O_RDONLY then pure () else do let _ ← prepare cfg p; pure ()
  | .mkdir p _ => do let _ ← prepare cfg p; pure ()
  | .mkdirAll p _ => do let _ ← prepare cfg p; pure ()
  | .remove p => do let _ ← prepare cfg p; pure ()
  | .removeAll p => do          -- of a non-directory: one `Remove`; the copies of a directory walk are
      let r ← realPath cfg p      -- interleaved with its removals (no separate phase)
      match ← attempt (primInfo cfg .base (.lstat r)) with
      | .error _ => pure ()
      | .ok fi => if !fi.isDir then (do let _ ← prepare cfg r; pure ()) else pure ()
  | .rename o n => do
      let ro ← realPath cfg o
      let rn ← realPath cfg n
      tryBackup cfg rn
      tryBackup cfg ro
  | .symlink _ n => do let _ ← prepare cfg n; pure ()
  | .chmod p _ => do let _ ← prepare cfg p; pure ()
  | .chown p _ _ => do let _ ← prepare cfg p; pure ()
  | .lchown p _ _ => do let _ ← prepare cfg p; pure ()
  | .chtimes p _ => do let _ ← prepare cfg p; pure ()
  | .stat _ => pure ()
  | .lstat _ => pure ()
  | .readlink _ => pure ()
  | .force _ => pure ()

end BFS
