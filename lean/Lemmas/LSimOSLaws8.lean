import Lemmas.LSimOSLaws7
/-!
  Lemmas/LSimOSLaws8.lean — `Symlink` (the new path is not followed).  `PrefixFS` re-roots an absolute
  target and passes a relative one verbatim after checking that it does not climb out of the prefix;
  `Readlink` undoes the re-rooting (`Props/C14.lean`).
-/
namespace BFS
namespace L
open MFS

section
variable {bk kk : Key}

/-! ### the translated call -/

/-- `PrefixFS.Symlink(t, kp k)` refuses, or issues `Symlink(o', kp (b ++ k))` with `o'` the re-rooted
target (absolute `t`) or `t` itself (relative `t`) -/
theorem tr_symlink_cases {b k : Key} (hb : PKey b) (hk : PKey k) (t : Path) :
    (∃ e, PrefixFS.translate (kp b) (.symlink t (kp k)) = .error e) ∨
    (∃ o', PrefixFS.translate (kp b) (.symlink t (kp k)) = .ok (.symlink o' (kp (b ++ k))) ∧
      (isAbs t = true → o' = join (kp b) (clean t)) ∧ (isAbs t = false → o' = t)) := by
  simp only [PrefixFS.translate, prefixPath_kp hb hk, bind, Except.bind, pure, Except.pure]
  cases hab : isAbs t with
  | true =>
    simp only [if_true]
    cases hpp : PrefixFS.prefixPath (kp b) t with
    | error e => exact Or.inl ⟨e, rfl⟩
    | ok p =>
      refine Or.inr ⟨p, rfl, fun _ => (prefixPath_ok hpp).1, fun e => by cases e⟩
  | false =>
    simp only [Bool.false_eq_true, if_false]
    cases hri : relInside (kp b) (join (dir (kp (b ++ k))) t) with
    | none => exact Or.inl ⟨.perm, rfl⟩
    | some r => exact Or.inr ⟨t, rfl, fun e => (by cases e), fun _ => rfl⟩

theorem tr_symlink_abs {b k : Key} (hb : PKey b) (hk : PKey k) {t : Path} (hab : isAbs t = true) :
    PrefixFS.translate (kp b) (.symlink t (kp k)) = .ok (.symlink (join (kp b) (clean t)) (kp (b ++ k))) := by
  simp only [PrefixFS.translate, prefixPath_kp hb hk, bind, Except.bind, pure, Except.pure, hab, if_true,
    prefixPath_staysInside (kp_ne_nil b) (staysInside_of_abs hab)]

theorem tr_symlink_rel {b k : Key} (hb : PKey b) (hk : PKey k) {t : Path} (hab : isAbs t = false)
    (hin : (relInside (kp b) (join (dir (kp (b ++ k))) t)).isSome = true) :
    PrefixFS.translate (kp b) (.symlink t (kp k)) = .ok (.symlink t (kp (b ++ k))) := by
  simp only [PrefixFS.translate, prefixPath_kp hb hk, bind, Except.bind, pure, Except.pure, hab,
    Bool.false_eq_true, if_false]
  cases hri : relInside (kp b) (join (dir (kp (b ++ k))) t) with
  | none => rw [hri] at hin; cases hin
  | some r => rfl

theorem side_call_err (hr : Roots bk kk) (s : Side) (m : MFS) {c : Call} {e : Err}
    (h : PrefixFS.translate (kp (osRoot bk kk s)) c = .error e) :
    ((osCfg bk kk).side s).call m c = (m, .error e) := by
  rw [side_eq, prefixFS_call, mk_kp (hr.pkey s), h]

/-! ### the OS call -/

theorem symlink_spec {m m' : MFS} (s : Side) {k : Key} {o : Path} {r : Except Err Unit} (hr : Roots bk kk)
    (hg : OSGoodL bk kk m) (hk : PKey k) (hnl : NoLinkProper m (osRoot bk kk s ++ k))
    (h : m.symlink o (kp (osRoot bk kk s ++ k)) = (m', r)) :
    OSGoodL bk kk m' ∧ EqOff m m' (osRoot bk kk s ++ k) ∧
      (r = .ok () → ∃ mt, m'.get (osRoot bk kk s ++ k) = some (.link o mt)) := by
  unfold MFS.symlink at h
  split at h
  · cases h
    exact ⟨hg, EqOff.refl _ _, fun e => by cases e⟩
  rcases namei_below_nf s hr hg hk hnl with ⟨n, hn, hres⟩ | ⟨hne, mt, hn, hp, hres⟩ | ⟨e, hne, hn, hp, hres, he⟩
  · rw [hres] at h
    cases h
    exact ⟨hg, EqOff.refl _ _, fun e => by cases e⟩
  · rw [hres] at h
    simp only [dropLast_append_getLast' hne] at h
    cases h
    have hc := ((hr.pkey s).append hk).getLast hne
    have hnone : m.get ((osRoot bk kk s ++ k).dropLast ++ [(osRoot bk kk s ++ k).getLast hne]) = none := by
      rw [dropLast_append_getLast' hne]; exact hn
    have hgood := good_set_new (n' := .link o ⟨0o777, 0, (inheritGid m (osRoot bk kk s ++ k).dropLast).1, .fresh⟩)
      hg hp hc hnone (by show (0o777 : Nat) < 4096; decide)
    rw [dropLast_append_getLast' hne] at hgood
    refine ⟨good_touchDir hgood _, (EqOff.set _ _ _).touch _, fun _ => ?_⟩
    rw [touchDir_get_ne, set_get_self]
    · exact ⟨_, rfl⟩
    · intro e
      have := congrArg List.length e
      have h4 : (osRoot bk kk s ++ k).dropLast.length = (osRoot bk kk s ++ k).length - 1 := List.length_dropLast
      have h5 : 0 < (osRoot bk kk s ++ k).length := List.length_pos_iff.mpr hne
      omega
  · rw [hres] at h
    cases h
    exact ⟨hg, EqOff.refl _ _, fun e => by cases e⟩

/-- frame part without the symlink clause (a symlink appears) -/
theorem frame_of' {m m' : MFS} {s : Side} {k : Key} (hr : Roots bk kk)
    (h : EqOff m m' (osRoot bk kk s ++ k)) :
    osViewL bk kk s.other m' = osViewL bk kk s.other m ∧
      (∀ j, j ≠ k → osViewL bk kk s m' j = osViewL bk kk s m j) := by
  refine ⟨?_, ?_⟩
  · funext x
    exact map_eraseV_of_eraseMt _ (h _ (fun e => hr.apart s k x e.symm))
  · intro j hj
    exact map_eraseV_of_eraseMt _ (h _ (fun e => hj (List.append_cancel_left e)))

theorem os_symlink_frame {m m' : MFS} {s : Side} {k : Key} {t : Path} {r : Except Err Ret} (hr : Roots bk kk)
    (hg : OSGoodL bk kk m) (hk : PKey k) (hna : NoLinkAnc (osViewL bk kk s m) k)
    (h : ((osCfg bk kk).side s).call m (.symlink t (kp k)) = (m', r)) :
    OSGoodL bk kk m' ∧ osViewL bk kk s.other m' = osViewL bk kk s.other m ∧
      (∀ j, j ≠ k → osViewL bk kk s m' j = osViewL bk kk s m j) := by
  rcases tr_symlink_cases (hr.pkey s) hk t with ⟨e, htr⟩ | ⟨o', htr, _, _⟩
  · rw [side_call_err hr s m htr] at h
    cases h
    exact ⟨hg, rfl, fun _ _ => rfl⟩
  · obtain ⟨h1, _⟩ := unit_call_state (x := m.symlink o' (kp (osRoot bk kk s ++ k))) hr htr rfl h
    obtain ⟨g1, g2, _⟩ := symlink_spec s hr hg hk (noLinkProper_of_view hg hna) h1
    exact ⟨g1, frame_of' hr g2⟩

theorem map_unit_ok' {x : Except Err Unit} {ret : Ret} (h : Except.ok ret = x.map (fun _ => Ret.unit)) : x = .ok () := by
  cases x with
  | error e => cases h
  | ok u => rfl

theorem os_symlink_post {m m' : MFS} {s : Side} {k : Key} {t : Path} {ret : Ret} (hr : Roots bk kk)
    (hg : OSGoodL bk kk m) (hk : PKey k) (hna : NoLinkAnc (osViewL bk kk s m) k) (hct : clean t = t)
    (h : ((osCfg bk kk).side s).call m (.symlink t (kp k)) = (m', .ok ret)) :
    ∃ mt', osViewL bk kk s m' k = some (.link t mt') := by
  rcases tr_symlink_cases (hr.pkey s) hk t with ⟨e, htr⟩ | ⟨o', htr, habs, hrel⟩
  · rw [side_call_err hr s m htr] at h
    cases h
  · obtain ⟨h1, h2⟩ := unit_call_state (x := m.symlink o' (kp (osRoot bk kk s ++ k))) hr htr rfl h
    obtain ⟨_, _, g3⟩ := symlink_spec s hr hg hk (noLinkProper_of_view hg hna) h1
    obtain ⟨mt, hl⟩ := g3 (map_unit_ok' h2)
    refine ⟨{ mt with mtime := .fresh, mode := 0o777 }, ?_⟩
    rw [osViewL_of_link hl]
    have ht : PrefixFS.readlinkPost (kp (osRoot bk kk s)) o' = t := by
      cases hab : isAbs t with
      | true =>
        rw [habs hab, Props.C14.symlink_readlink_roundtrip_abs _ _ (isRooted_kp _) hab, hct]
      | false =>
        rw [hrel hab, Props.C14.symlink_readlink_roundtrip_rel _ _ (isRooted_kp _) hab, hct]
    rw [ht]

theorem symlink_new {m : MFS} {s : Side} {k : Key} {o : Path} {pmt : Meta} (hr : Roots bk kk)
    (hg : OSGoodL bk kk m) (hk : PKey k) (hne : k ≠ []) (ho : o ≠ []) (h0 : m.get (osRoot bk kk s ++ k) = none)
    (hpd : m.get (osRoot bk kk s ++ k.dropLast) = some (.dir pmt)) :
    ∃ m', m.symlink o (kp (osRoot bk kk s ++ k)) = (m', .ok ()) := by
  have hKne : osRoot bk kk s ++ k ≠ [] := by simp [hne]
  have hmiss := namei_new hr hg hk hne h0 hpd false hKne
  unfold MFS.symlink
  simp only [ho, if_false]
  rw [hmiss]
  exact ⟨_, rfl⟩

theorem os_symlink_ok {m : MFS} {s : Side} {k : Key} {t : Path} (hr : Roots bk kk) (hg : OSGoodL bk kk m)
    (hk : PKey k) (hct : clean t = t) (hok : osLinkOK bk kk s k t) (hv : osViewL bk kk s m k = none)
    (hp : (osViewL bk kk s m).parentDir k) :
    ∃ m', ((osCfg bk kk).side s).call m (.symlink t (kp k)) = (m', .ok .unit) := by
  have h0 := osViewL_none hv
  obtain ⟨hne, hpd⟩ := hp
  obtain ⟨pmt, hpd⟩ := osViewL_isDirAt hpd
  have hfin : ∀ o', o' ≠ [] →
      PrefixFS.translate (kp (osRoot bk kk s)) (.symlink t (kp k)) = .ok (.symlink o' (kp (osRoot bk kk s ++ k))) →
      ∃ m', ((osCfg bk kk).side s).call m (.symlink t (kp k)) = (m', .ok .unit) := by
    intro o' ho htr
    obtain ⟨m', e⟩ := symlink_new (o := o') hr hg hk hne ho h0 hpd
    rw [side_call_unit hr s m htr (x := m.symlink o' (kp (osRoot bk kk s ++ k))) rfl, e]
    exact ⟨m', rfl⟩
  cases hab : isAbs t with
  | true =>
    apply hfin _ ?_ (tr_symlink_abs (hr.pkey s) hk hab)
    rw [← join_clean_is_clean _ _ (kp_ne_nil _)]
    exact clean_ne_nil _
  | false =>
    rcases hok with hok | hok
    · rw [hab] at hok; cases hok
    · apply hfin _ ?_ (tr_symlink_rel (hr.pkey s) hk hab hok)
      rw [← hct]
      exact clean_ne_nil t

end
end L
end BFS
