import Lemmas.NLBOps
/-!
  Lemmas/NLBRestore.lean (copy of Lemmas/LBRestore.lean over `NL.Sim`) — from a state satisfying the strengthened invariant `NL.InvB` (healthy
  filesystems, trees with symlinks as leaves), `Rollback` returns nil, restores the base below its root
  (as in Lemmas/LRestore.lean) and removes every copy from the backup — symlink copies first (the
  "symlink" clean-up pass), then regular files, then directories deepest first: the backup view is
  empty below its root and the root's node is what it was.  With `InvB.init` and `history_keepsB`
  this gives the transaction-level theorems `tx_clean`, `txs_clean`.
-/
set_option linter.unusedSectionVars false
namespace BFS
namespace NL
open BackupFS

variable {cfg : Cfg} {S : Sim cfg} [BackupPlain S] {v0 : View} {r0 : Option Node}

/-! ### the clean-up of the backup -/

/-- progress of the clean-up: `R` is the set of keys whose copy is gone; every other key of the
backup view is as it was when Rollback began; the base view is `vb` -/
structure CMid (S : Sim cfg) (w : World) (vb : View) (R : Key → Prop) (w' : World) : Prop where
  good : S.G w'.fs
  infos : w'.infos = w.infos
  faults : w'.faults = []
  base : S.view .base w'.fs = vb
  gone : ∀ k, R k → S.view .backup w'.fs k = none
  rest : ∀ k, ¬ R k → S.view .backup w'.fs k = S.view .backup w.fs k

theorem CMid.congr {w w' : World} {vb : View} {R R' : Key → Prop} (h : CMid S w vb R w')
    (hr : ∀ k, R k ↔ R' k) : CMid S w vb R' w' :=
  ⟨h.good, h.infos, h.faults, h.base, fun k hk => h.gone k ((hr k).mpr hk),
    fun k hk => h.rest k (fun hk' => hk ((hr k).mp hk'))⟩

/-- a backup-side step confined to one key, which it removes (or finds absent) -/
theorem CMid.step {w w' w'' : World} {vb : View} {R R' : Key → Prop} {k : Key} (h : CMid S w vb R w')
    (hc : S.ChgL .backup (· = k) w' w'') (hk : S.view .backup w''.fs k = none)
    (hR' : ∀ j, R' j ↔ R j ∨ j = k) : CMid S w vb R' w'' := by
  refine ⟨hc.good, hc.infos.trans h.infos, hc.faults.trans h.faults, hc.other.trans h.base, ?_, ?_⟩
  · intro j hj
    by_cases hjk : j = k
    · subst hjk; exact hk
    · rw [hc.frame j hjk]
      rcases (hR' j).mp hj with hd | hd
      · exact h.gone j hd
      · exact absurd hd hjk
  · intro j hj
    have hjk : j ≠ k := fun e => hj ((hR' j).mpr (Or.inr e))
    rw [hc.frame j hjk]
    exact h.rest j (fun hd => hj ((hR' j).mpr (Or.inl hd)))

/-- during the clean-up a key of the backup view is gone or as it was: no symlink appears -/
theorem CMid.noLinkAnc {w w' : World} {vb : View} {R : Key → Prop} {k : Key} (h : CMid S w vb R w')
    (hacc : NoLinkAnc (S.view .backup w.fs) k) : NoLinkAnc (S.view .backup w'.fs) k := by
  intro a ha hne hl
  apply hacc a ha hne
  by_cases hR : R a
  · exact absurd hl (isLinkAt_not_none (h.gone a hR))
  · obtain ⟨t, mt, ht⟩ := hl
    exact ⟨t, mt, by rw [← h.rest a hR]; exact ht⟩

/-- `tryRemoveBackupPaths` over the keys `T`, deepest first: every step succeeds provided a key
still present when its turn comes is a file or an empty directory -/
theorem phaseClean {w w1 : World} {vb : View} {R0 T : Key → Prop}
    (hmid : CMid S w vb R0 w1) (hTne : ∀ k, PKey k → T k → k ≠ [])
    (hTacc : ∀ k, PKey k → T k → NoLinkAnc (S.view .backup w.fs) k)
    (l : List Path) (hl : ∀ p, p ∈ l ↔ ∃ k, PKey k ∧ p = kp k ∧ T k) (hnd : l.Nodup)
    (hok : ∀ k (R : Key → Prop) w', PKey k → T k → CMid S w vb R w' → (∀ j, R0 j → R j) →
      (∀ j, PKey j → T j → k.length < j.length → R j) → S.view .backup w'.fs k ≠ none →
      (S.view .backup w'.fs).isFileAt k ∨ isLinkAt (S.view .backup w'.fs) k ∨
        ((S.view .backup w'.fs).isDirAt k ∧ ¬ (S.view .backup w'.fs).hasChild k)) :
    Sat (removeBackupPaths cfg l) w1 (fun w' r => r = .ok false ∧
      CMid S w vb (fun k => R0 k ∨ (PKey k ∧ T k)) w') := by
  let Rel : Path → Path → Prop := fun p q => ∀ a b, PKey a → PKey b → p = kp a → q = kp b → b.length ≤ a.length
  let D : List Path → Key → Prop := fun rest k => R0 k ∨ (PKey k ∧ T k ∧ kp k ∉ rest)
  let J : List Path → World → Prop := fun rest w' =>
    rest.Pairwise Rel ∧ rest.Nodup ∧ (∀ p ∈ rest, p ∈ l) ∧ CMid S w vb (D rest) w'
  have hperm := sortBy_perm (fun a b => lessFPS b a) l
  have hstep : ∀ x rest w', J (x :: rest) w' →
      Sat (cleanupAct cfg x) w' (fun w'' r => r = .ok () ∧ J rest w'') := by
    intro x rest w' ⟨hpw, hnd', hmem, hm⟩
    obtain ⟨k, hk, rfl, hT⟩ := (hl x).mp (hmem x (by simp))
    have hkne := hTne k hk hT
    have hxr : kp k ∉ rest := (List.nodup_cons.mp hnd').1
    -- the set of finished keys after this step
    have hD' : ∀ j, D rest j ↔ D (kp k :: rest) j ∨ j = k := by
      intro j
      constructor
      · rintro (h0 | ⟨hj, htj, hjr⟩)
        · exact Or.inl (Or.inl h0)
        · by_cases hjk : j = k
          · exact Or.inr hjk
          · left; right
            refine ⟨hj, htj, ?_⟩
            intro hin
            rcases List.mem_cons.mp hin with heq | hin
            · exact hjk (kp_inj hj hk heq)
            · exact hjr hin
      · rintro ((h0 | ⟨hj, htj, hjr⟩) | rfl)
        · exact Or.inl h0
        · exact Or.inr ⟨hj, htj, fun hin => hjr (List.mem_cons_of_mem _ hin)⟩
        · exact Or.inr ⟨hk, hT, hxr⟩
    have htail : ∀ w'', CMid S w vb (D rest) w'' → J rest w'' := fun w'' h =>
      ⟨(List.pairwise_cons.mp hpw).2, (List.nodup_cons.mp hnd').2,
        fun p hp' => hmem p (List.mem_cons_of_mem _ hp'), h⟩
    have hacc : NoLinkAnc (S.view .backup w'.fs) k := hm.noLinkAnc (hTacc k hk hT)
    unfold cleanupAct
    apply Sat.bind
    apply (sat_lexists (S := S) (s := .backup) hm.good hk hm.faults hacc).mono
    intro wa ra ⟨hsa, hsome, hnone⟩
    have hga : S.G wa.fs := hsa.fs ▸ hm.good
    have hfa : wa.faults = [] := by rw [hsa.faults]; exact hm.faults
    cases hv : S.view .backup w'.fs k with
    | none =>
      rw [hnone hv]
      simp only
      apply Sat.pure
      exact ⟨rfl, htail _ (hm.step (Sim.ChgL.of_same hm.good hsa) (by rw [hsa.fs]; exact hv) hD')⟩
    | some n =>
      obtain ⟨i, hra, _⟩ := hsome n hv
      rw [hra]
      simp only
      have hdeep : ∀ j, PKey j → T j → k.length < j.length → D (kp k :: rest) j := by
        intro j hj htj hlen
        right
        refine ⟨hj, htj, ?_⟩
        intro hin
        rcases List.mem_cons.mp hin with heq | hin
        · have := kp_inj hj hk heq
          subst this; omega
        · have := (List.pairwise_cons.mp hpw).1 _ hin k j hk hj rfl rfl
          omega
      have hrem := hok k (D (kp k :: rest)) w' hk hT hm (fun j h => Or.inl h) hdeep (by rw [hv]; simp)
      rw [← hsa.fs] at hrem
      apply (sat_primUnit_exact (S := S) (s := .backup) (c := .remove (kp k)) (K := (· = k))
        (P := fun m' => S.view .backup m' k = none) hga
        (fun m' r h => by
          obtain ⟨g, o, f, l⟩ := S.remove_frame hga hk hkne (hsa.fs ▸ hacc) h
          exact ⟨g, o, fun j hj => f j hj, l⟩)
        (S.remove_ok hga hk hkne (BackupPlain.bpar k) hrem)).mono
      intro w'' r ⟨hc, hp, hof⟩
      obtain ⟨u, hr⟩ := OnlyFault.nofault hof hfa
      subst hr
      exact ⟨rfl, htail _ (hm.step (Sim.ChgL.same_left hsa hc.toChgL) (hp rfl) hD')⟩
  have hinit : J (sortMost l) w1 := by
    refine ⟨sortMost_kp_pairwise l, hperm.nodup_iff.mpr hnd, fun p hp => hperm.mem_iff.mp hp, ?_⟩
    apply hmid.congr
    intro k
    constructor
    · exact Or.inl
    · rintro (h0 | ⟨hk, hT, hnin⟩)
      · exact h0
      · exact absurd (hperm.mem_iff.mpr ((hl (kp k)).mpr ⟨k, hk, rfl, hT⟩)) hnin
  unfold removeBackupPaths
  apply (sat_forEach hstep (sortMost l) w1 hinit).mono
  intro w' r ⟨hr, _, _, _, hm⟩
  refine ⟨hr, hm.congr ?_⟩
  intro k
  simp [D]

/-! ### Rollback returns nil and leaves the backup clean -/

theorem sat_rollbackB {w : World} (hinvB : InvB S v0 r0 w) :
    Sat (rollback cfg) w (fun w' r => r = .ok false ∧ S.G w'.fs ∧ w'.faults = [] ∧
      (∀ k, k ≠ [] → S.view .base w'.fs k = v0 k) ∧
      (∀ k, k ≠ [] → S.view .backup w'.fs k = none) ∧ S.view .backup w'.fs [] = r0) := by
  have hinv := hinvB.inv
  have hnf := hinvB.nofault
  unfold rollback
  apply Sat.bind
  apply Sat.getW
  simp only
  apply Sat.bind
  -- the first loop
  have hc1 := (sat_classify (cfg := cfg) (S := S) w.infos {} w hinv.good hnf hinv.keys (by
    intro p oi hm k hk hp
    subst hp
    apply hinv.blink k hk
    unfold Tracked
    rw [hinv.mem_iff.mp hm]; simp)).elim
  have hc2 := (sat_classify_nd (cfg := cfg) w.infos {} w hinv.nodup
    ⟨List.nodup_nil, List.nodup_nil, List.nodup_nil, List.nodup_nil, (by intro p h; cases h),
      (by intro p h; cases h), (by intro p h; cases h), (by intro p h; cases h)⟩).elim
  cases hrun : classify cfg w.infos {} w with
  | mk w1 r1 =>
    rw [hrun] at hc1 hc2
    obtain ⟨hs1, pl, hr1, hcl⟩ := hc1
    subst hr1
    have hpnd := hc2 pl rfl
    apply Sat.of_eq hrun
    simp only
    -- the plan, in terms of keys
    have hrb : ∀ p, p ∈ pl.removeBase ↔ ∃ k, PKey k ∧ p = kp k ∧ TN w k ∧ S.view .base w.fs k ≠ none := by
      intro p
      rw [hcl.removeBase p]
      constructor
      · rintro (h | ⟨k, hk, rfl, hm, hp⟩)
        · cases h
        · exact ⟨k, hk, rfl, hinv.mem_iff.mp hm, hp⟩
      · rintro ⟨k, hk, rfl, htn, hp⟩
        exact Or.inr ⟨k, hk, rfl, hinv.mem_iff.mpr htn, hp⟩
    have hds : ∀ p, p ∈ pl.dirs ↔ ∃ k, PKey k ∧ p = kp k ∧ TSDir w k := by
      intro p
      rw [hcl.dirs p]
      constructor
      · rintro (h | ⟨i, hm, hroot, hkind⟩)
        · cases h
        · obtain ⟨k, hk, rfl⟩ := hinv.keys p (some i) hm
          exact ⟨k, hk, rfl, fun e => hroot ((kp_eq_root_iff hk).mpr e), i, hinv.mem_iff.mp hm, hkind⟩
      · rintro ⟨k, hk, rfl, hne, i, hts, hkind⟩
        exact Or.inr ⟨i, hinv.mem_iff.mpr hts, fun e => hne ((kp_eq_root_iff hk).mp e), hkind⟩
    have hfs : ∀ p, p ∈ pl.files ↔ ∃ k, PKey k ∧ p = kp k ∧ TSFile w k := by
      intro p
      rw [hcl.files p]
      constructor
      · rintro (h | ⟨i, hm, hroot, hkind⟩)
        · cases h
        · obtain ⟨k, hk, rfl⟩ := hinv.keys p (some i) hm
          exact ⟨k, hk, rfl, i, hinv.mem_iff.mp hm, hkind⟩
      · rintro ⟨k, hk, rfl, i, hts, hkind⟩
        exact Or.inr ⟨i, hinv.mem_iff.mpr hts,
          fun e => hinv.tsfile_ne_root hk ⟨i, hts, hkind⟩ ((kp_eq_root_iff hk).mp e), hkind⟩
    have hls : ∀ p, p ∈ pl.links ↔ ∃ k, PKey k ∧ p = kp k ∧ TSLink w k := by
      intro p
      rw [hcl.links p]
      constructor
      · rintro (h | ⟨i, hm, hroot, hkind⟩)
        · cases h
        · obtain ⟨k, hk, rfl⟩ := hinv.keys p (some i) hm
          exact ⟨k, hk, rfl, i, hinv.mem_iff.mp hm, hkind⟩
      · rintro ⟨k, hk, rfl, i, hts, hkind⟩
        exact Or.inr ⟨i, hinv.mem_iff.mpr hts,
          fun e => hinv.tslink_ne_root hk ⟨i, hts, hkind⟩ ((kp_eq_root_iff hk).mp e), hkind⟩
    -- phase 1
    apply Sat.bind
    apply (phase1 (cfg := cfg) hinv hnf hs1 pl.removeBase hrb hpnd.rb).mono
    intro w2 r2 ⟨hr2, hm2⟩
    subst hr2
    simp only
    -- phase 2
    apply Sat.bind
    apply (phase2 (cfg := cfg) hinv hm2 pl.dirs hds hpnd.ds).mono
    intro w3 r3 ⟨hr3, hm3⟩
    subst hr3
    simp only
    -- phase 3
    apply Sat.bind
    apply (phase3 (cfg := cfg) hinv hm3 pl.files hfs hpnd.fs).mono
    intro w4 r4 ⟨hr4, hm4⟩
    subst hr4
    simp only
    -- phase 4
    apply Sat.bind
    apply (phase4 (cfg := cfg) hinv hm4 pl.links hls hpnd.ls).mono
    intro w5 r5 ⟨hr5, hm5⟩
    subst hr5
    simp only
    have hend : ∀ k, k ≠ [] → S.view .base w5.fs k = v0 k := by
      intro k hkne
      by_cases hD : PKey k ∧ (TN w k ∨ TSDir w k ∨ TSFile w k ∨ TSLink w k)
      · exact hm5.done k hD
      · rw [hm5.rest k hD]
        by_cases hk : PKey k
        · rcases tracked_cases w k with hu | htn | ⟨i, hts⟩
          · exact hinv.frame k hk hu
          · exact absurd ⟨hk, Or.inl htn⟩ hD
          · exact absurd ⟨hk, Or.inr (ts_kind hts hkne)⟩ hD
        · have h1 : S.view .base w.fs k = none := by
            apply Classical.byContradiction
            intro h; exact hk (S.pkey hinv.good h)
          have h2 : v0 k = none := by
            apply Classical.byContradiction
            intro h; exact hk (hinv.v0_pkey h)
          rw [h1, h2]
    -- the clean-up
    have hc0 : CMid S w (S.view .base w5.fs) (fun _ => False) w5 :=
      ⟨hm5.good, hm5.infos, hm5.faults, rfl, (by intro k h; cases h), fun k _ => by rw [hm5.backup]⟩
    -- symlink copies
    apply Sat.bind
    apply (phaseClean (cfg := cfg) (T := TSLink w) hc0 (fun k hk hf => hinv.tslink_ne_root hk hf)
      (fun k hk ⟨i, hts, _⟩ => hinv.backup_noLinkAnc_ts hk hts) pl.links hls hpnd.ls
      (by
        intro k R w' hk hT hm _ _ hp
        right; left
        obtain ⟨i, hts, hkind⟩ := hT
        obtain ⟨t, mtb, _, hbak, _⟩ := hinv.link_target hk hts hkind
        have hnR : ¬ R k := fun hR => hp (hm.gone k hR)
        exact ⟨t, mtb, by rw [hm.rest k hnR]; exact hbak⟩)).mono
    intro w6 r6 ⟨hr6, hc6⟩
    subst hr6
    simp only
    -- files
    apply Sat.bind
    apply (phaseClean (cfg := cfg) (T := TSFile w) hc6 (fun k hk hf => hinv.tsfile_ne_root hk hf)
      (fun k hk ⟨i, hts, _⟩ => hinv.backup_noLinkAnc_ts hk hts) pl.files hfs hpnd.fs
      (by
        intro k R w' hk hT hm _ _ hp
        left
        obtain ⟨i, hts, hkind⟩ := hT
        obtain ⟨c, mtb, _, hbak⟩ := hinv.file_target hk hts hkind
        have hnR : ¬ R k := fun hR => hp (hm.gone k hR)
        exact ⟨c, mtb, by rw [hm.rest k hnR]; exact hbak⟩)).mono
    intro w7 r7 ⟨hr7, hc7⟩
    subst hr7
    simp only
    -- directories, deepest first
    apply Sat.bind
    apply (phaseClean (cfg := cfg) (T := TSDir w) hc7 (fun k _ hd => hd.1)
      (fun k hk ⟨_, i, hts, _⟩ => hinv.backup_noLinkAnc_ts hk hts) pl.dirs hds hpnd.ds
      (by
        intro k R w' hk hT hm hR0 hdeep hp
        right; right
        obtain ⟨hkne, i, hts, hkind⟩ := hT
        have hnR : ¬ R k := fun hR => hp (hm.gone k hR)
        refine ⟨?_, ?_⟩
        · unfold View.isDirAt
          rw [hm.rest k hnR]
          exact hinvB.bdirs hk hkne hts hkind
        · rintro ⟨name, hc⟩
          have hnRc : ¬ R (k ++ [name]) := fun hR => hc (hm.gone _ hR)
          rw [hm.rest _ hnRc] at hc
          have hcp : PKey (k ++ [name]) := S.pkey hinv.good hc
          obtain ⟨ic, htsc⟩ := hinvB.b.bonly _ (by simp) hc
          rcases ts_kind htsc (by simp : k ++ [name] ≠ []) with hkd | hkd | hkd
          · exact hnRc (hdeep _ hcp hkd (by simp))
          · exact hnRc (hR0 _ (Or.inr ⟨hcp, hkd⟩))
          · exact hnRc (hR0 _ (Or.inl (Or.inr ⟨hcp, hkd⟩))))).mono
    intro w8 r8 ⟨hr8, hc8⟩
    subst hr8
    simp only
    apply Sat.bind
    apply Sat.modifyW
    simp only
    apply Sat.pure
    have hfailed : pl.failed = false := hcl.failed
    have hbase8 : S.view .base w8.fs = S.view .base w5.fs := hc8.base
    refine ⟨by simp [hfailed], hc8.good, hc8.faults, ?_, ?_, ?_⟩
    · intro k hkne
      show S.view .base w8.fs k = v0 k
      rw [hbase8]; exact hend k hkne
    · intro k hkne
      show S.view .backup w8.fs k = none
      apply Classical.byContradiction
      intro hp
      have hnR : ¬ (((False ∨ (PKey k ∧ TSLink w k)) ∨ (PKey k ∧ TSFile w k)) ∨ (PKey k ∧ TSDir w k)) :=
        fun hR => hp (hc8.gone k hR)
      rw [hc8.rest k hnR] at hp
      have hk : PKey k := S.pkey hinv.good hp
      obtain ⟨i, hts⟩ := hinvB.b.bonly k hkne hp
      rcases ts_kind hts hkne with hkd | hkd | hkd
      · exact hnR (Or.inr ⟨hk, hkd⟩)
      · exact hnR (Or.inl (Or.inr ⟨hk, hkd⟩))
      · exact hnR (Or.inl (Or.inl (Or.inr ⟨hk, hkd⟩)))
    · show S.view .backup w8.fs [] = r0
      have hnR : ¬ (((False ∨ (PKey ([] : Key) ∧ TSLink w [])) ∨ (PKey ([] : Key) ∧ TSFile w [])) ∨ (PKey ([] : Key) ∧ TSDir w [])) := by
        rintro (((h | ⟨hk, hl⟩) | ⟨hk, hf⟩) | ⟨_, hd⟩)
        · exact h
        · exact hinv.tslink_ne_root hk hl rfl
        · exact hinv.tsfile_ne_root hk hf rfl
        · exact hd.1 rfl
      rw [hc8.rest [] hnR]
      exact hinvB.b.broot

/-! ### transactions -/

/-- an empty backup satisfies the start condition of `NL.Inv` on backup symlinks -/
theorem backupLinksOK_of_empty {m : MFS} (hg : S.G m) (hempty : ∀ k, k ≠ [] → S.view .backup m k = none) :
    BackupLinksOK S m := by
  intro k hl
  exfalso
  have hne : k ≠ [] := by
    intro e; subst e
    exact isLinkAt_not_dir (S.root_dir hg) hl
  exact isLinkAt_not_none (hempty k hne) hl

/-- Theorem B, generic form: on healthy filesystems with an empty backup, after any covered history
Rollback returns nil, and the backup is empty again below its root, whose node is unchanged -/
theorem tx_clean (hsym : SymErrPure cfg) {w : World} (hg : S.G w.fs) (hinfos : w.infos = []) (hnf : w.faults = [])
    (hempty : ∀ k, k ≠ [] → S.view .backup w.fs k = none)
    (ops : List Op) (hcov : CoveredHist cfg S w ops) :
    (rollback cfg (runOps cfg w ops)).2 = .ok false ∧
    (∀ k, k ≠ [] → S.view .backup (runTx cfg w ops).fs k = none) ∧
    S.view .backup (runTx cfg w ops).fs [] = S.view .backup w.fs [] := by
  have hk := history_keepsB hsym (cfg := cfg) ops w (InvB.init hg hinfos hnf hempty) hcov
  have hr := (sat_rollbackB (cfg := cfg) hk.inv).elim
  exact ⟨hr.1, hr.2.2.2.2.1, hr.2.2.2.2.2⟩

/-- the whole backup view is what it was -/
theorem tx_backup_same (hsym : SymErrPure cfg) {w : World} (hg : S.G w.fs) (hinfos : w.infos = []) (hnf : w.faults = [])
    (hempty : ∀ k, k ≠ [] → S.view .backup w.fs k = none)
    (ops : List Op) (hcov : CoveredHist cfg S w ops) :
    S.view .backup (runTx cfg w ops).fs = S.view .backup w.fs := by
  obtain ⟨_, h1, h2⟩ := tx_clean hsym (cfg := cfg) hg hinfos hnf hempty ops hcov
  funext k
  by_cases hk : k = []
  · subst hk; exact h2
  · rw [h1 k hk, hempty k hk]

/-- Theorem B for any number of consecutive transactions: every Rollback returns nil and after the
last one the backup is as it was before the first -/
theorem txs_clean (hsym : SymErrPure cfg) : ∀ (txs : List (List Op)) (w : World), S.G w.fs → w.infos = [] → w.faults = [] →
    (∀ k, k ≠ [] → S.view .backup w.fs k = none) → CoveredTxs cfg S w txs →
    S.view .backup (txs.foldl (runTx cfg) w).fs = S.view .backup w.fs ∧
    ∀ pre ops post, txs = pre ++ ops :: post →
      (rollback cfg (runOps cfg (pre.foldl (runTx cfg) w) ops)).2 = .ok false
  | [], w, _, _, _, _, _ => ⟨rfl, by intro pre ops post h; simp at h⟩
  | ops :: rest, w, hg, hi, hf, he, hc => by
    obtain ⟨g1, i1, f1, _⟩ := tx_restores (cfg := cfg) hg hi hf (backupLinksOK_of_empty hg he) ops hc.1
    obtain ⟨hres, hcl, _⟩ := tx_clean hsym (cfg := cfg) hg hi hf he ops hc.1
    have hsame := tx_backup_same hsym (cfg := cfg) hg hi hf he ops hc.1
    obtain ⟨h2, h3⟩ := txs_clean hsym rest (runTx cfg w ops) g1 i1 f1 hcl hc.2
    refine ⟨by rw [List.foldl_cons, h2, hsame], ?_⟩
    intro pre ops' post heq
    cases pre with
    | nil =>
      simp only [List.nil_append, List.cons.injEq] at heq
      obtain ⟨rfl, _⟩ := heq
      exact hres
    | cons p pre' =>
      simp only [List.cons_append, List.cons.injEq] at heq
      obtain ⟨rfl, heq⟩ := heq
      rw [List.foldl_cons]
      exact h3 pre' ops' post heq

end NL
end BFS
