import Lemmas.LSimOSLaws5
/-!
  Lemmas/LSimOSLaws6.lean — `Rename` (neither path is followed; the source and an existing target may
  be symlinks).
-/
namespace BFS
namespace L
open MFS

section
variable {bk kk : Key}

theorem touchDir_link {m : MFS} {P K : Key} {t : Path} {mt : Meta}
    (h : (m.touchDir P).get K = some (.link t mt)) : m.get K = some (.link t mt) := by
  -- the stamp keeps every non-directory as it is
  rcases touchDir_cases m P with ⟨mtd, hk, e⟩ | e
  · rw [e] at h
    rcases set_get_some h with ⟨_, e'⟩ | ⟨_, h'⟩
    · cases e'
    · exact h'
  · rw [e] at h; exact h

/-- what `Rename` guarantees on the disk, with `Ko`/`Kn` the keys of the two paths -/
structure RenPost (bk kk : Key) (s : Side) (ko kn : Key) (m m' : MFS) : Prop where
  good : OSGoodL bk kk m'
  tree : EqOffTree m m' (osRoot bk kk s)
  leaf : (∀ x, x ≠ [] → m.get (osRoot bk kk s ++ ko ++ x) = none) →
      ∀ K', K' ≠ osRoot bk kk s ++ ko → K' ≠ osRoot bk kk s ++ kn →
        (m'.get K').map eraseMt = (m.get K').map eraseMt
  lold : ∀ t mt', m'.get (osRoot bk kk s ++ ko) = some (.link t mt') →
      ∃ mt, m.get (osRoot bk kk s ++ ko) = some (.link t mt)
  lnew : ∀ t mt', m'.get (osRoot bk kk s ++ kn) = some (.link t mt') →
      (∃ mt, m.get (osRoot bk kk s ++ kn) = some (.link t mt)) ∨
      (∃ mt, m.get (osRoot bk kk s ++ ko) = some (.link t mt))
  ndir : (∃ mt, m.get (osRoot bk kk s ++ kn) = some (.dir mt)) → m' = m

theorem RenPost.same {s : Side} {ko kn : Key} {m : MFS} (hg : OSGoodL bk kk m) : RenPost bk kk s ko kn m m :=
  ⟨hg, fun _ _ => rfl, fun _ _ _ _ => rfl, fun _ mt' h => ⟨mt', h⟩, fun _ mt' h => Or.inl ⟨mt', h⟩, fun _ => rfl⟩

/-- what a successful `rename(2)` leaves behind -/
theorem move_ok {m : MFS} (s : Side) {ko kn : Key} {no : Node} (hr : Roots bk kk) (hg : OSGoodL bk kk m)
    (_hko : PKey ko) (hkn : PKey kn)
    (_hsrc : m.get (osRoot bk kk s ++ ko) = some no)
    (hnp : ¬ osRoot bk kk s ++ ko <+: osRoot bk kk s ++ kn)
    (hnp2 : ¬ osRoot bk kk s ++ kn <+: osRoot bk kk s ++ ko)
    (hpar : ∃ mt, m.get (osRoot bk kk s ++ kn).dropLast = some (.dir mt))
    (hknne : kn ≠ [])
    (hnd : ¬ ∃ mt, m.get (osRoot bk kk s ++ kn) = some (.dir mt))
    (hleafn : ∀ x, x ≠ [] → m.get (osRoot bk kk s ++ kn ++ x) = none) (P1 P2 : Key) :
    RenPost bk kk s ko kn m
      (((m.moveSubtree (osRoot bk kk s ++ ko) (osRoot bk kk s ++ kn)).touchDir P1).touchDir P2) := by
  have hkone : ko ≠ [] := by
    intro e
    apply hnp
    rw [e, List.append_nil]
    exact List.prefix_append _ _
  obtain ⟨hb1, hk1⟩ := not_prefix_roots (s := s) hr hkone
  obtain ⟨hb2, hk2⟩ := not_prefix_roots (s := s) hr hknne
  have hgood := good_moveSubtree hg ((hr.pkey s).append hkn) (by simp [hknne]) hpar hnp hb1 hk1 hb2 hk2
  refine ⟨good_touchDir (good_touchDir hgood _) _, ?_, ?_, ?_, ?_, fun h => absurd h hnd⟩
  · intro K' hK'
    rw [touchDir_erase, touchDir_erase, moveSubtree_get_other]
    · intro e; exact hK' (List.IsPrefix.trans (List.prefix_append _ _) e)
    · intro e; exact hK' (List.IsPrefix.trans (List.prefix_append _ _) e)
  · intro hleafo K' h1 h2
    rw [touchDir_erase, touchDir_erase]
    by_cases hn : osRoot bk kk s ++ kn <+: K'
    · obtain ⟨x, rfl⟩ := hn
      have hx : x ≠ [] := by
        intro e; apply h2; rw [e, List.append_nil]
      rw [moveSubtree_get_under, hleafo x hx, hleafn x hx]
    · by_cases ho : osRoot bk kk s ++ ko <+: K'
      · obtain ⟨x, rfl⟩ := ho
        have hx : x ≠ [] := by
          intro e; apply h1; rw [e, List.append_nil]
        rw [moveSubtree_get_old m hn (List.prefix_append _ _), hleafo x hx]
      · rw [moveSubtree_get_other m hn ho]
  · intro t mt' h
    have h' := touchDir_link (touchDir_link h)
    rw [moveSubtree_get_old m hnp2 List.prefix_rfl] at h'
    cases h'
  · intro t mt' h
    have h' := touchDir_link (touchDir_link h)
    have e := moveSubtree_get_under m (osRoot bk kk s ++ ko) (osRoot bk kk s ++ kn) []
    rw [List.append_nil, List.append_nil] at e
    rw [e] at h'
    exact Or.inr ⟨mt', h'⟩

theorem rename_spec {m m' : MFS} (s : Side) {ko kn : Key} {r : Except Err Unit} (hr : Roots bk kk)
    (hg : OSGoodL bk kk m) (hko : PKey ko) (hkn : PKey kn)
    (hnlo : NoLinkProper m (osRoot bk kk s ++ ko)) (hnln : NoLinkProper m (osRoot bk kk s ++ kn))
    (h : m.rename (kp (osRoot bk kk s ++ ko)) (kp (osRoot bk kk s ++ kn)) = (m', r)) :
    RenPost bk kk s ko kn m m' := by
  have hsame : RenPost bk kk s ko kn m m := RenPost.same hg
  unfold MFS.rename at h
  simp only at h
  rcases namei_below_nf s hr hg hkn hnln with ⟨nn, hnn, hresn⟩ | ⟨hnen, mtn, hnn, hpn, hresn⟩ | ⟨en, hnen, hnn, hpn, hresn, hen⟩ <;>
  rcases namei_below_nf s hr hg hko hnlo with ⟨no, hno, hreso⟩ | ⟨hneo, mto, hno, hpo, hreso⟩ | ⟨eo, hneo, hno, hpo, hreso, heo⟩ <;>
  rw [hresn, hreso] at h <;> simp only at h
  · -- found, found
    cases nn
    case dir mt =>
      simp only at h
      have hc : ¬ (osRoot bk kk s ++ ko = osRoot bk kk s ++ kn ∧
          kp (osRoot bk kk s ++ ko) ≠ kp (osRoot bk kk s ++ kn)) := fun hc => hc.2 (congrArg kp hc.1)
      rw [if_neg hc] at h
      simp only at h; cases h; exact hsame
    all_goals
      simp only at h
      split at h
      · cases h; exact hsame
      split at h
      · cases h; exact hsame
      split at h
      · cases h; exact hsame
      split at h
      · cases h; exact hsame
      split at h
      · cases h; exact hsame
      rename_i _ hpre hpre2 _ _
      cases h
      have hknne : kn ≠ [] := by
        intro e
        obtain ⟨rmt, hrd⟩ := hg.rdir s
        rw [e, List.append_nil, hrd] at hnn
        cases hnn
      exact move_ok s hr hg hko hkn hno (fun e => hpre (List.isPrefixOf_iff_prefix.mpr e))
        (fun e => hpre2 (List.isPrefixOf_iff_prefix.mpr e))
        (hg.parent _ _ hnn (by simp [hknne])) hknne
        (by intro ⟨mt', e⟩; rw [hnn] at e; cases e)
        (fun x hx => hg.below_nondir (List.prefix_append _ _) (by simp [hx]) hnn rfl) _ _
  · cases nn <;> simp only at h <;> cases h <;> exact hsame
  · cases nn <;> simp only at h <;> cases h <;> exact hsame
  · -- missing, found
    simp only [dropLast_append_getLast' hnen] at h
    split at h
    · cases h; exact hsame
    rename_i hpre
    cases h
    have hknne : kn ≠ [] := key_ne_of_none hg hnn
    refine move_ok s hr hg hko hkn hno (fun e => hpre (List.isPrefixOf_iff_prefix.mpr e)) ?_
      ⟨mtn, hpn⟩ hknne (by intro ⟨mt', e⟩; rw [hnn] at e; cases e)
      (fun x _ => hg.below_none (List.prefix_append _ _) hnn) _ _
    intro e
    have := hg.below_none e hnn
    rw [hno] at this
    cases this
  · cases h; exact hsame
  · cases h; exact hsame
  · cases h; exact hsame
  · cases h; exact hsame
  · cases h; exact hsame

theorem leaf_of_view {m : MFS} {s : Side} {ko : Key} (hg : OSGoodL bk kk m)
    (hc : ¬ ((osViewL bk kk s m).isDirAt ko ∧ (osViewL bk kk s m).hasChild ko)) :
    ∀ x, x ≠ [] → m.get (osRoot bk kk s ++ ko ++ x) = none := by
  intro x hx
  cases h0 : m.get (osRoot bk kk s ++ ko) with
  | none => exact hg.below_none (List.prefix_append _ _) h0
  | some n =>
    cases hd : n.isDir with
    | false => exact hg.below_nondir (List.prefix_append _ _) (by simp [hx]) h0 hd
    | true =>
      obtain ⟨mt, rfl⟩ := isDir_true hd
      cases x with
      | nil => exact absurd rfl hx
      | cons c x' =>
        have hcn : m.get (osRoot bk kk s ++ ko ++ [c]) = none := by
          cases hcc : m.get (osRoot bk kk s ++ ko ++ [c]) with
          | none => rfl
          | some n' =>
            exfalso
            apply hc
            refine ⟨osViewL_isDirAt_of h0, c, ?_⟩
            rw [osViewL_eq, ← List.append_assoc, hcc]
            simp
        apply hg.below_none (p := osRoot bk kk s ++ ko ++ [c]) ?_ hcn
        exact ⟨x', by simp⟩

/-- a stored symlink in the view -/
theorem osViewL_of_link {s : Side} {m : MFS} {k : Key} {raw : Path} {m0 : Meta}
    (h : m.get (osRoot bk kk s ++ k) = some (.link raw m0)) :
    osViewL bk kk s m k = some (.link (PrefixFS.readlinkPost (kp (osRoot bk kk s)) raw)
      { m0 with mtime := .fresh, mode := 0o777 }) := by
  rw [osViewL_eq, h]
  rfl

theorem os_rename_frame {m m' : MFS} {s : Side} {ko kn : Key} {r : Except Err Ret} (hr : Roots bk kk)
    (hg : OSGoodL bk kk m) (hko : PKey ko) (hkn : PKey kn)
    (hnao : NoLinkAnc (osViewL bk kk s m) ko) (hnan : NoLinkAnc (osViewL bk kk s m) kn)
    (h : ((osCfg bk kk).side s).call m (.rename (kp ko) (kp kn)) = (m', r)) :
    OSGoodL bk kk m' ∧ osViewL bk kk s.other m' = osViewL bk kk s.other m ∧
      (¬ ((osViewL bk kk s m).isDirAt ko ∧ (osViewL bk kk s m).hasChild ko) →
        (∀ j, j ≠ ko → j ≠ kn → osViewL bk kk s m' j = osViewL bk kk s m j) ∧
        (∀ t mt', osViewL bk kk s m' ko = some (.link t mt') → ∃ mt, osViewL bk kk s m ko = some (.link t mt)) ∧
        (∀ t mt', osViewL bk kk s m' kn = some (.link t mt') →
          (∃ mt, osViewL bk kk s m kn = some (.link t mt)) ∨ (∃ mt, osViewL bk kk s m ko = some (.link t mt)))) ∧
      ((osViewL bk kk s m).isDirAt kn → osViewL bk kk s m' = osViewL bk kk s m) := by
  obtain ⟨h1, _⟩ := unit_call_state (x := m.rename (kp (osRoot bk kk s ++ ko)) (kp (osRoot bk kk s ++ kn))) hr
    (tr_rename (hr.pkey s) hko hkn) rfl h
  have hp := rename_spec s hr hg hko hkn (noLinkProper_of_view hg hnao) (noLinkProper_of_view hg hnan) h1
  refine ⟨hp.good, ?_, ?_, ?_⟩
  · funext x
    exact map_eraseV_of_eraseMt _ (hp.tree _ (hr.not_under s x))
  · intro hc
    refine ⟨?_, ?_, ?_⟩
    · intro j hj1 hj2
      exact map_eraseV_of_eraseMt _
        (hp.leaf (leaf_of_view hg hc) _ (fun e => hj1 (List.append_cancel_left e)) (fun e => hj2 (List.append_cancel_left e)))
    · intro t mt' hv
      obtain ⟨raw, m0, h0, e1, _⟩ := osViewL_link hv
      obtain ⟨mt, h0'⟩ := hp.lold raw m0 h0
      exact ⟨_, by rw [osViewL_of_link h0', e1]⟩
    · intro t mt' hv
      obtain ⟨raw, m0, h0, e1, _⟩ := osViewL_link hv
      rcases hp.lnew raw m0 h0 with ⟨mt, h0'⟩ | ⟨mt, h0'⟩
      · exact Or.inl ⟨_, by rw [osViewL_of_link h0', e1]⟩
      · exact Or.inr ⟨_, by rw [osViewL_of_link h0', e1]⟩
  · intro hd
    rw [hp.ndir (osViewL_isDirAt hd)]

end
end L
end BFS
