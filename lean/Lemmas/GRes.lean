import Lemmas.F16Loop
import Lemmas.LOps
import Lemmas.LSimOS
/-!
  Lemmas/GRes.lean — the resolution step of the "names through flat links" fragment of C01.

  * `ResTo cfg w name r` : in every world with the disk and the fault plan of `w`, `realPath name`
    changes neither disk, tracked map nor fault plan and, when it succeeds, returns `kp r`;
  * `sat_realPath_flat`  : (restated from `Props/C16F.lean`, proof identical) on a `Flat` disk, no
    planned faults, `realPath` returns `kp (resK … [] k)`;
  * `resTo_flat`, `rk_pkey`, `rk_noLinkAnc`, `rk_ne` : what the OS instance supplies about the resolved
    key `rk bk w k = resK w.fs bk [] k`.
-/
namespace BFS
namespace L
namespace G
open BackupFS MFS F16

/-- in every world with the disk and fault plan of `w`: `realPath name` changes nothing and, if it
succeeds, returns `kp r` -/
def ResTo (cfg : Cfg) (w : World) (name : Path) (r : Key) : Prop :=
  ∀ w1 : World, w1.fs = w.fs → w1.faults = w.faults →
    Sat (realPath cfg name) w1 (fun w' x => SameFS w1 w' ∧ ∀ p, x = .ok p → p = kp r)

theorem ResTo.of_same {cfg : Cfg} {w w' : World} {name : Path} {r : Key} (h : ResTo cfg w name r)
    (hfs : w'.fs = w.fs) (hf : w'.faults = w.faults) : ResTo cfg w' name r :=
  fun w1 h1 h2 => h w1 (h1.trans hfs) (h2.trans hf)

/-- the link-free fragment's resolution step as an instance -/
theorem resTo_of_noLinkAnc {cfg : Cfg} {S : LSim cfg} {w : World} {name : Path} {k : Key} (hg : S.G w.fs)
    (hk : PKey k) (hname : clean name = kp k) (hacc : NoLinkAnc (S.view .base w.fs) k) :
    ResTo cfg w name k := by
  intro w1 h1 _
  exact L.sat_realPath (S := S) (by rw [h1]; exact hg) hk hname (by rw [h1]; exact hacc)

theorem inits1_length {α} : ∀ (S : List α), (inits1 S).length = S.length
  | [] => rfl
  | x :: xs => by simp [inits1, inits1_length xs]

/-- `realPath` returns `kp (resK … [] k)` and changes neither disk, tracked map nor fault plan
(= `Props.C16.sat_realPath_flat`) -/
theorem sat_realPath_flat {bk kk : Key} (hr : Roots bk kk) {w : World} (hnf : w.faults = [])
    (hg : L.OSGoodL bk kk w.fs) (hflat : Flat bk w.fs) {name : Path} {k : Key} (hk : PKey k)
    (hname : clean name = kp k) :
    Sat (realPath (osCfg bk kk) name) w (fun w' r => SameFS w w' ∧ r = .ok (kp (resK w.fs bk [] k))) := by
  unfold realPath resolvePathWithInfo
  rw [hname]
  simp only [kp_ne_nil, if_false]
  rw [iterateDirTree_kp hk]
  apply Sat.bind
  unfold resolveLoop
  apply Sat.bind
  apply Sat.attempt
  have hroot : rootP = kp [] := rfl
  rw [hroot]
  have hprop : L.NoLinkProper w.fs (bk ++ []) := L.noLinkProper_of_upto (noLinkUpto_root hg)
  apply (sat_lstat_nf hr hnf hg PKey.nil hprop).mono
  intro w1 r ⟨hs1, hres⟩
  obtain ⟨mtb, hb⟩ := hg.bdir
  rw [List.append_nil] at hres
  rcases hres with ⟨n, i, hget, rfl, hkind⟩ | ⟨hget, _⟩
  · rw [hb] at hget
    cases hget
    simp only
    rw [isSymlink_of_kind hkind]
    simp only [Node.isLink, Bool.false_eq_true, if_false]
    have hfs1 : w1.fs = w.fs := hs1.fs
    have hlist : (inits1 k).map kp = (inits1 k).map (fun p => kp ([] ++ p)) := by simp
    rw [hlist]
    apply (sat_loop hr k [] _ (kp []) (some i) w1 (by rw [hs1.faults]; exact hnf) (by rw [hfs1]; exact hg)
      (by rw [hfs1]; exact hflat) PKey.nil hk (by rw [hfs1]; exact noLinkUpto_root hg)
      (by simp [inits1_length])).mono
    intro w2 r2 ⟨hs2, o, hr2⟩
    subst hr2
    apply Sat.pure
    refine ⟨hs1.trans hs2, ?_⟩
    rw [hfs1]
    by_cases hke : k = []
    · subst hke; rfl
    · simp only [hke, if_false]
  · rw [hb] at hget; cases hget

/-- the resolved key of the cleaned key `k` in the state `w` -/
def rk (bk : Key) (w : World) (k : Key) : Key := resK w.fs bk [] k

section
variable {bk kk : Key}

theorem resTo_flat (hr : Roots bk kk) {w : World} (hnf : w.faults = []) (hg : OSGoodL bk kk w.fs)
    (hflat : Flat bk w.fs) {name : Path} {k : Key} (hk : PKey k) (hname : clean name = kp k) :
    ResTo (osCfg bk kk) w name (rk bk w k) := by
  intro w1 h1 h2
  have := sat_realPath_flat hr (w := w1) (by rw [h2]; exact hnf) (by rw [h1]; exact hg) (by rw [h1]; exact hflat)
    hk hname
  apply this.mono
  intro w' x ⟨hs, hx⟩
  refine ⟨hs, ?_⟩
  intro p hp
  rw [hx] at hp
  cases hp
  unfold rk
  rw [h1]

theorem rk_pkey (hr : Roots bk kk) {w : World} (hg : OSGoodL bk kk w.fs) (hflat : Flat bk w.fs) {k : Key}
    (hk : PKey k) : PKey (rk bk w k) :=
  resK_pkey hr.1 hg hflat k [] PKey.nil hk

theorem rk_noLinkAnc {w : World} (hg : OSGoodL bk kk w.fs) (hflat : Flat bk w.fs) (k : Key) :
    NoLinkAnc (osViewL bk kk .base w.fs) (rk bk w k) := by
  intro a ha hne hl
  obtain ⟨raw, mt, hl⟩ := osViewL_isLinkAt hl
  exact resK_nolink hg hflat k [] (noLinkUpto_root hg) (bk ++ a)
    ((List.prefix_append_right_inj _).mpr ha) (fun e => hne (List.append_cancel_left e)) raw mt hl

theorem rk_ne {w : World} {k : Key} (hne : k ≠ []) : rk bk w k ≠ [] := by
  intro e
  have := resK_getLast (m := w.fs) (bk := bk) k [] hne
  unfold rk at e
  rw [e] at this
  cases k with
  | nil => exact hne rfl
  | cons a l =>
    have h2 : (a :: l).getLast? ≠ none := by simp
    exact h2 this.symm

end

end G
end L
end BFS
