import Lemmas.TraceRollback
import Lemmas.R2Split
/-!
  Lemmas/R2Trace.lean — what the two halves of `Rollback` log (any configuration, world, fault plan):
  * the restore half issues no mutating call on the backup side (`restorePart_logs`): every event is a
    base-side event or a non-mutating one (the backup is only opened, read, stat'ed, closed);
  * the clean-up half issues backup-side calls only (`cleanupPart_logs`).
-/
namespace BFS
namespace BackupFS

variable (cfg : Cfg)

theorem hStat_ro (wh : WHandle) : Logs (hStat cfg wh) (fun e => e.mutating = false) := by
  unfold hStat
  apply Logs.bind (primH_logs wh "fstat" [] false _ (fun _ => rfl)); intro _
  apply Logs.bind (Logs.getW _); intro w
  split <;> first | exact Logs.pure _ _ | exact Logs.throw _ _

theorem restoreFile_logs (name : Path) (fi : Info) : Logs (restoreFile cfg name fi) (OnSideOrRO .base) := by
  unfold restoreFile
  apply Logs.bind (primOpen_logs cfg .backup _ ((primCall_ro cfg .backup _ rfl).mono (fun _ h => RO.toOr h))); intro f
  apply Logs.bind (Logs.attempt (by
    apply Logs.bind ((hStat_ro cfg f).mono (fun _ h => RO.toOr h)); intro fi'
    apply Logs.bind (lexists_logs cfg .base name ((primCall_onSide cfg .base _).mono (fun _ h => OnSide.toOr h))); intro baseFi
    apply Logs.ite
    · apply Logs.bind (primUnit_logs cfg .base _ ((primCall_onSide cfg .base _).mono (fun _ h => OnSide.toOr h))); intro _
      exact copyFile_logs cfg .base name fi f
    · apply Logs.bind (whenM_logs (primUnit_logs cfg .base _ ((primCall_onSide cfg .base _).mono (fun _ h => OnSide.toOr h)))); intro _
      exact copyFile_logs cfg .base name fi f)); intro r
  apply Logs.bind (Logs.attempt ((hClose_ro f).mono (fun _ h => RO.toOr h))); intro _
  cases r with
  | ok u => exact Logs.pure _ _
  | error e => exact Logs.throw _ _

theorem restoreSymlink_logs (name : Path) (fi : Info) : Logs (restoreSymlink cfg name fi) (OnSideOrRO .base) := by
  unfold restoreSymlink
  apply Logs.bind (lexists_logs cfg .backup name ((primCall_ro cfg .backup _ rfl).mono (fun _ h => RO.toOr h))); intro ex
  cases ex with
  | none => exact Logs.throw _ _
  | some i =>
    simp only
    apply Logs.bind (lexists_logs cfg .base name ((primCall_onSide cfg .base _).mono (fun _ h => OnSide.toOr h))); intro cur
    apply Logs.bind (whenM_logs (primUnit_logs cfg .base _ ((primCall_onSide cfg .base _).mono (fun _ h => OnSide.toOr h)))); intro _
    exact copySymlink_logs cfg .backup .base name fi

theorem forEachCollect_logs {α} {f : α → M Unit} {P} (hf : ∀ a, Logs (f a) P) : ∀ xs : List α, Logs (forEachCollect f xs) P
  | [] => Logs.pure _ _
  | x :: xs => by
    unfold forEachCollect
    apply Logs.bind (Logs.attempt (hf x)); intro r
    apply Logs.bind (forEachCollect_logs hf xs); intro rest
    exact Logs.pure _ _

theorem classify_onBase : ∀ (l : List (Path × Option Info)) (pl : RollbackPlan), Logs (classify cfg l pl) (OnSideOrRO .base)
  | [], _ => Logs.pure _ _
  | (p, none) :: rest, pl => by
    unfold classify
    apply Logs.bind (Logs.attempt (lexists_logs cfg .base p ((primCall_onSide cfg .base _).mono (fun _ h => OnSide.toOr h)))); intro r
    cases r with
    | error e => exact classify_onBase rest _
    | ok o => cases o <;> exact classify_onBase rest _
  | (p, some i) :: rest, pl => by
    unfold classify
    split
    · apply Logs.bind (by
        unfold ensureRoot
        apply Logs.bind (Logs.attempt (lexists_logs cfg .base p ((primCall_onSide cfg .base _).mono (fun _ h => OnSide.toOr h)))); intro r
        cases r with
        | error e => exact Logs.pure _ _
        | ok o => cases o with
          | some _ => exact Logs.pure _ _
          | none =>
            apply Logs.bind (Logs.attempt (primUnit_logs cfg .base _ ((primCall_onSide cfg .base _).mono (fun _ h => OnSide.toOr h)))); intro r2
            cases r2 <;> exact Logs.pure _ _); intro f
      exact classify_onBase rest _
    · cases i.kind <;> exact classify_onBase rest _

/-- the restore half of Rollback never issues a mutating call on the backup filesystem -/
theorem restorePart_logs (infos : List (Path × Option Info)) : Logs (restorePart cfg infos) (OnSideOrRO .base) := by
  unfold restorePart restoreLoops
  apply Logs.bind (classify_onBase cfg infos {}); intro pl
  apply Logs.bind (forEachCollect_logs (fun p => by
    unfold removeBaseAct
    exact primUnit_logs cfg .base _ ((primCall_onSide cfg .base _).mono (fun _ h => OnSide.toOr h))) _); intro e1
  apply Logs.bind (forEachCollect_logs (fun p => by
    unfold restoreDirAct
    apply Logs.bind (lexists_logs cfg .base p ((primCall_onSide cfg .base _).mono (fun _ h => OnSide.toOr h))); intro cur
    apply Logs.bind (whenM_logs (primUnit_logs cfg .base _ ((primCall_onSide cfg .base _).mono (fun _ h => OnSide.toOr h)))); intro _
    split
    · exact (copyDir_onSide cfg .base p _).mono (fun _ h => OnSide.toOr h)
    · exact Logs.pure _ _) _); intro e2
  apply Logs.bind (forEachCollect_logs (fun p => by
    unfold restoreFileAct
    split
    · exact restoreFile_logs cfg p _
    · exact Logs.pure _ _) _); intro e3
  apply Logs.bind (forEachCollect_logs (fun p => by
    unfold restoreLinkAct
    split
    · exact restoreSymlink_logs cfg p _
    · exact Logs.pure _ _) _); intro e4
  exact Logs.pure _ _

/-- the clean-up half of Rollback issues calls on the backup filesystem only -/
theorem cleanupPart_logs (r : RestoreRes) : Logs (cleanupPart cfg r) (OnSide .backup) := by
  have hrbp : ∀ ps, Logs (removeBackupPaths cfg ps) (OnSide .backup) := by
    intro ps
    unfold removeBackupPaths
    apply forEachCollect_logs
    intro p
    unfold cleanupAct
    apply Logs.bind (lexists_logs cfg .backup p (primCall_onSide cfg .backup _)); intro o
    cases o with
    | none => exact Logs.pure _ _
    | some i => exact primUnit_logs cfg .backup _ (primCall_onSide cfg .backup _)
  unfold cleanupPart
  apply Logs.bind (hrbp _); intro e5
  apply Logs.bind (hrbp _); intro e6
  apply Logs.bind (hrbp _); intro e7
  apply Logs.bind (Logs.modifyW (f := fun w => { w with infos := [] }) _ (fun _ => rfl)); intro _
  exact Logs.pure _ _

end BackupFS
end BFS
