import Lemmas.NGTx
import Lemmas.F16Ex
/-!
  Lemmas/NGSub.lean — (1) on disks whose visible links are flat the nested through-flat-links fragment
  CONTAINS the nested symlink-leaves fragment: when no proper ancestor of the cleaned key is a symlink in
  the visible base view, `realPath` resolves it to itself (`rkN_id`), so an operation covered by
  `NL.Op.Covered` is covered by `NL.G.Op.Covered` (`covered_of_NL`);
  (2) decidable sufficient tests for the clauses of `NL.G.Op.Covered` on concrete states (used by the
  non-vacuity example of Props/C04G.lean; Lemmas/GSub.lean + GEx.lean for the nested layering).
-/
namespace BFS
namespace NL
namespace G
open BackupFS F16 NG N

theorem isLinkAt_view_of {bk hk : Key} {m : MFS} {k : Key} {t : Path} {mt : Meta} (hv : ¬ hk <+: k)
    (h : m.get (bk ++ k) = some (.link t mt)) : isLinkAt (nlview bk hk .base m) k :=
  nl_isLinkAt_of (dd := bk) (s := .base) hv (L.osViewL_isLinkAt_of (bk := bk) (kk := bk) (s := .base) h)

/-- without a visible symlink among the proper ancestors the key-level resolver is the identity -/
theorem resN_id {bk hk : Key} {m : MFS} : ∀ (S : List Name) (D : Key), NoLinkAnc (nlview bk hk .base m) (D ++ S) →
    resN m bk hk D S = D ++ S
  | [], D, _ => by simp [resN]
  | [s], D, _ => resN_single D s
  | s :: s' :: S, D, h => by
    have hne : s' :: S ≠ [] := by simp
    by_cases hh : hk <+: D ++ [s]
    · exact resN_hid _ hh
    · cases hk' : m.get (bk ++ D ++ [s]) with
      | none => exact resN_none hk'
      | some n =>
        cases n with
        | file ct mt => exact resN_file hk'
        | dir mt =>
          rw [resN_dir hne hh hk', resN_id (s' :: S) (D ++ [s]) (by simpa using h)]
          simp
        | link t mt =>
          exfalso
          rw [List.append_assoc] at hk'
          refine h (D ++ [s]) ⟨s' :: S, by simp⟩ ?_ (isLinkAt_view_of hh hk')
          intro e
          have := congrArg List.length e
          simp at this

section
variable {bk hk dd : Key} {hr : NRoots bk hk dd}

theorem rkN_id {w : World} {k : Key}
    (hacc : NoLinkAnc ((nlSim bk hk dd hr).view .base w.fs) k) : rkN bk hk w k = k := by
  unfold rkN
  have h : NoLinkAnc (nlview bk hk .base w.fs) ([] ++ k) := hacc
  rw [resN_id k [] h]
  rfl

/-- on a disk whose visible links are flat, what the nested symlink-leaves theorem covers the nested
through-flat-links theorem covers too -/
theorem covered_of_NL {w : World} (hflat : FlatN bk hk w.fs) {op : Op}
    (hc : NL.Op.Covered (nlSim bk hk dd hr) w op) :
    Op.Covered bk hk (nlSim bk hk dd hr) w op := by
  cases op with
  | creat p d => exact ⟨hc.1, hflat, fun k hpk e => by rw [rkN_id (hc.2 k hpk e).1]; exact (hc.2 k hpk e).2⟩
  | mkdirAll p m => exact ⟨hc.1, hflat, fun k hpk e => by rw [rkN_id (hc.2 k hpk e).1]; exact (hc.2 k hpk e).2⟩
  | chmod p m => exact ⟨hc.1, hflat, fun k hpk e => by rw [rkN_id (hc.2 k hpk e).1]; exact (hc.2 k hpk e).2⟩
  | chown p u g => exact ⟨hc.1, hflat, fun k hpk e => by rw [rkN_id (hc.2 k hpk e).1]; exact (hc.2 k hpk e).2⟩
  | chtimes p t => exact ⟨hc.1, hflat, fun k hpk e => by rw [rkN_id (hc.2 k hpk e).1]; exact (hc.2 k hpk e).2⟩
  | write p f pm d =>
    rcases hc with h | ⟨habs, h⟩
    · exact Or.inl h
    · exact Or.inr ⟨habs, hflat, fun k hpk e => by rw [rkN_id (h k hpk e).1]; exact (h k hpk e).2⟩
  | mkdir p m => exact ⟨hc.1, hflat, fun k hpk e => by rw [rkN_id (hc.2 k hpk e).1]; exact (hc.2 k hpk e).2⟩
  | lchown p u g => exact ⟨hc.1, hflat, fun k hpk e => by rw [rkN_id (hc.2 k hpk e).1]; exact (hc.2 k hpk e).2⟩
  | remove p =>
    exact ⟨hc.1, hc.2.1, hflat, fun k hpk e => by rw [rkN_id (hc.2.2 k hpk e).1]; exact (hc.2.2 k hpk e).2⟩
  | removeAll p =>
    exact ⟨hc.1, hc.2.1, hflat, fun k hpk e => by rw [rkN_id (hc.2.2 k hpk e).1]; exact (hc.2.2 k hpk e).2⟩
  | rename o n =>
    refine ⟨hc.1, hc.2.1, hflat, ?_⟩
    intro ko kn hko hkn eo en
    obtain ⟨hro, hrn, hleaf, hnb⟩ := hc.2.2 ko kn hko hkn eo en
    rw [rkN_id hro.1, rkN_id hrn.1]
    exact ⟨hro.2, hrn.2, hleaf, hnb⟩
  | symlink o n =>
    refine ⟨hc.1, hflat, ?_⟩
    intro kn hkn en
    obtain ⟨hrn, hnb⟩ := hc.2 kn hkn en
    rw [rkN_id hrn.1]
    exact ⟨hrn.2, hnb⟩
  | stat p => trivial
  | lstat p => trivial
  | readlink p => trivial
  | force p => exact hc

end

/-! ### decidable sufficient tests on concrete states -/

theorem notLinkAt_of {cfg : Cfg} {S : Sim cfg} {bk hk : Key} {w : World} {k r : Key} {n : Option Node}
    (hr : rkN bk hk w k = r) (hv : S.view .base w.fs r = n) (hn : ∀ t mt, n ≠ some (.link t mt)) :
    NotLinkAt S w (rkN bk hk w k) := by
  rintro ⟨t, mt, h⟩
  rw [hr, hv] at h
  exact hn t mt h

theorem linkOKAt_of {cfg : Cfg} {S : Sim cfg} {bk hk : Key} {w : World} {k r : Key} {n : Option Node}
    (hr : rkN bk hk w k = r) (hv : S.view .base w.fs r = n)
    (hn : ∀ t mt, n = some (.link t mt) → S.LinkOK .base r t) :
    LinkOKAt S w (rkN bk hk w k) := by
  intro t mt h
  rw [hr] at h ⊢
  rw [hv] at h
  exact hn t mt h

/-- the tracked keys are `ks`, none of which lies strictly below `K` -/
theorem noneBelow_of_keys {w : World} {K : Key} {ks : List Key} (hl : w.infos.map Prod.fst = ks.map kp)
    (hks : ∀ j ∈ ks, PKey j) (h : ks.all (fun j => !(K.isPrefixOf j) || j == K) = true) : NoneBelow w K := by
  intro j hj ht hpre
  have hm : kp j ∈ w.infos.map Prod.fst := by
    apply Classical.byContradiction
    intro hn
    apply ht
    generalize w.infos = l at hn
    induction l with
    | nil => rfl
    | cons a l ih =>
      obtain ⟨p, x⟩ := a
      simp only [List.map_cons, List.mem_cons, not_or] at hn
      have : (kp j == p) = false := by simpa using hn.1
      simp only [List.lookup, this]
      exact ih hn.2
  rw [hl] at hm
  obtain ⟨j', hj', e⟩ := List.mem_map.mp hm
  have := kp_inj (hks j' hj') hj e
  subst this
  have := List.all_eq_true.mp h _ hj'
  have hp : K.isPrefixOf j' = true := List.isPrefixOf_iff_prefix.mpr hpre
  simpa [hp] using this

end G
end NL
end BFS
