import Lemmas.NXForceWalk
import Lemmas.ForceHist
/-!
  Lemmas/NXForceHist.lean (copy of Lemmas/ForceHist.lean over `N.Sim`; `forceKey`, `SameDirs` shared) — histories with any number of successful ForceBackups.

  `refView cfg S v w ops` is the *reference view* after the history `ops` issued from `w` with
  reference view `v`: every `force p` re-bases it at `p` with the node the base shows at `p` at that
  moment.  After a history all of whose operations are covered (`Op.CoveredF`: the covered
  operations of C01, and successful ForceBackups of non-directory paths whose parent predates the
  transaction) the transaction invariant holds for the reference view (`history_keeps_force`), so
  Rollback restores it (`tx_restores_force`): a path never forced goes back to its original node, a
  forced path to the node it had at its last ForceBackup (`forces_then_rollback`).
-/
namespace BFS.N
open BackupFS

variable {cfg : Cfg} {S : Sim cfg} {v0 : View}

/-- covered operations, now with ForceBackup: of an absolute name, for a path that was not a
directory when the transaction began and is not one now, whose parent directory predates the
transaction, and that succeeds -/
def Op.CoveredF (cfg : Cfg) (S : Sim cfg) (v0 : View) (w : World) : Op → Prop
  | .force name => isAbs name = true ∧ ¬ v0.isDirAt (forceKey name) ∧
      ¬ (S.view .base w.fs).isDirAt (forceKey name) ∧ v0.parentDir (forceKey name) ∧
      (Op.exec cfg (.force name) w).2 = .ok .unit
  | op => Op.Covered S w op

def CoveredHistF (cfg : Cfg) (S : Sim cfg) (v0 : View) : World → List Op → Prop
  | _, [] => True
  | w, op :: rest => Op.CoveredF cfg S v0 w op ∧ CoveredHistF cfg S v0 (op.step cfg w) rest

/-- what an operation does to the reference view -/
def refStep (S : Sim cfg) (v : View) (w : World) : Op → View
  | .force name => rebase v (forceKey name) (S.view .base w.fs (forceKey name))
  | _ => v

/-- the reference view after a history -/
def refView (cfg : Cfg) (S : Sim cfg) : View → World → List Op → View
  | v, _, [] => v
  | v, w, op :: rest => refView cfg S (refStep S v w op) (op.step cfg w) rest

theorem op_not_force_cases {op : Op} (hf : ¬ ∃ name, op = .force name) {w : World} {v : View}
    (hc : Op.CoveredF cfg S v0 w op) : Op.Covered S w op ∧ refStep S v w op = v := by
  cases op <;> first | exact ⟨hc, rfl⟩ | exact absurd ⟨_, rfl⟩ hf

/-- one covered operation (ForceBackup included) keeps the invariant for the stepped reference view -/
theorem op_keeps_force {w : World} {v : View} {op : Op} (hinv : Inv S v w) (hsd : SameDirs v0 v)
    (hc : Op.CoveredF cfg S v0 w op) :
    Inv S (refStep S v w op) (op.step cfg w) ∧ (op.step cfg w).faults = w.faults ∧
      SameDirs v0 (refStep S v w op) := by
  by_cases hf : ∃ name, op = .force name
  · obtain ⟨name, rfl⟩ := hf
    obtain ⟨habs, h0, hnow, hpar, hok⟩ := hc
    obtain ⟨k, hk, hname⟩ := clean_abs habs
    have hfk := forceKey_kp hk hname
    rw [hfk] at h0 hnow hpar
    obtain ⟨hstep, hiff⟩ := force_step cfg name w
    obtain ⟨_, hfl, _, hres⟩ := (sat_forceBackup_full (cfg := cfg) (name := name) hinv hk hname
      (fun h => h0 ((hsd k).mp h)) hnow (hsd.parentDir hpar)).elim
    have hinv' := (hres (hiff.mp hok)).1
    show Inv S (rebase v (forceKey name) (S.view .base w.fs (forceKey name))) _ ∧ _ ∧
      SameDirs v0 (rebase v (forceKey name) (S.view .base w.fs (forceKey name)))
    rw [hfk, hstep]
    refine ⟨hinv', hfl, hsd.rebase h0 ?_⟩
    intro mt e
    exact hnow ⟨mt, e⟩
  · obtain ⟨hcov, hst⟩ := op_not_force_cases (v := v) hf hc
    have := op_keeps (cfg := cfg) hinv hcov
    rw [hst]
    exact ⟨this.inv, this.faults, hsd⟩

/-- after any covered history with ForceBackups the invariant holds for the reference view -/
theorem history_keeps_force : ∀ (ops : List Op) (w : World) (v : View), Inv S v w → SameDirs v0 v →
    CoveredHistF cfg S v0 w ops →
    Inv S (refView cfg S v w ops) (runOps cfg w ops) ∧ (runOps cfg w ops).faults = w.faults
  | [], _, _, hinv, _, _ => ⟨hinv, rfl⟩
  | op :: rest, w, v, hinv, hsd, hc => by
    obtain ⟨h1, h2, h3⟩ := op_keeps_force (cfg := cfg) hinv hsd hc.1
    have ih := history_keeps_force rest (op.step cfg w) (refStep S v w op) h1 h3 hc.2
    exact ⟨ih.1, ih.2.trans h2⟩

/-- on healthy filesystems, after any covered history with ForceBackups, Rollback restores the
reference view -/
theorem tx_restores_force {w : World} (hg : S.G w.fs) (hinfos : w.infos = []) (hnf : w.faults = [])
    (ops : List Op) (hcov : CoveredHistF cfg S (S.view .base w.fs) w ops) :
    S.G (runTx cfg w ops).fs ∧ (runTx cfg w ops).infos = [] ∧ (runTx cfg w ops).faults = [] ∧
    ∀ j, j ≠ [] → S.view .base (runTx cfg w ops).fs j = refView cfg S (S.view .base w.fs) w ops j := by
  have hk := history_keeps_force (cfg := cfg) ops w _ (Inv.init hg hinfos) (fun _ => Iff.rfl) hcov
  have hr := (sat_rollback (cfg := cfg) hk.1 (hk.2.trans hnf)).elim
  exact ⟨hr.1, rollback_resets_infos cfg _, hr.2.1, hr.2.2⟩

/-! ### what the reference view is -/

theorem refView_append (v : View) (w : World) (a b : List Op) :
    refView cfg S v w (a ++ b) = refView cfg S (refView cfg S v w a) (runOps cfg w a) b := by
  induction a generalizing v w with
  | nil => rfl
  | cons op a ih =>
    show refView cfg S (refStep S v w op) (op.step cfg w) (a ++ b) = _
    rw [ih]
    rfl

/-- a key no ForceBackup of the history works on keeps its reference node -/
theorem refView_untouched (j : Key) : ∀ (ops : List Op) (v : View) (w : World),
    (∀ name, Op.force name ∈ ops → forceKey name ≠ j) → refView cfg S v w ops j = v j
  | [], _, _, _ => rfl
  | op :: rest, v, w, h => by
    show refView cfg S (refStep S v w op) (op.step cfg w) rest j = v j
    rw [refView_untouched j rest _ _ (fun name hm => h name (List.mem_cons_of_mem _ hm))]
    by_cases hf : ∃ name, op = .force name
    · obtain ⟨name, rfl⟩ := hf
      exact rebase_ne v _ (fun e => h name (List.mem_cons_self) e.symm)
    · have : refStep S v w op = v := by
        cases op <;> first | rfl | exact absurd ⟨_, rfl⟩ hf
      rw [this]

/-- a forced key's reference node is the one it had at its last ForceBackup -/
theorem refView_last_force (v : View) (w : World) (ops₁ ops₂ : List Op) (name : Path)
    (h : ∀ name', Op.force name' ∈ ops₂ → forceKey name' ≠ forceKey name) :
    refView cfg S v w (ops₁ ++ .force name :: ops₂) (forceKey name) =
      S.view .base (runOps cfg w ops₁).fs (forceKey name) := by
  rw [refView_append]
  show refView cfg S (rebase _ (forceKey name) _) _ ops₂ (forceKey name) = _
  rw [refView_untouched (forceKey name) ops₂ _ _ h, rebase_self]

theorem coveredHistF_append {w : World} {a b : List Op} (h : CoveredHistF cfg S v0 w (a ++ b)) :
    CoveredHistF cfg S v0 (runOps cfg w a) b := by
  induction a generalizing w with
  | nil => exact h
  | cons op a ih => exact ih h.2

/-- C17 for any number of ForceBackups: after Rollback (healthy filesystems) a path no ForceBackup
worked on is as it was when the transaction began, and a forced path is as it was at the moment of
its last ForceBackup -/
theorem forces_then_rollback {w : World} (hg : S.G w.fs) (hinfos : w.infos = []) (hnf : w.faults = [])
    (ops : List Op) (hcov : CoveredHistF cfg S (S.view .base w.fs) w ops) :
    (∀ j, j ≠ [] → (∀ name, Op.force name ∈ ops → forceKey name ≠ j) →
      S.view .base (runTx cfg w ops).fs j = S.view .base w.fs j) ∧
    (∀ ops₁ name ops₂, ops = ops₁ ++ .force name :: ops₂ →
      (∀ name', Op.force name' ∈ ops₂ → forceKey name' ≠ forceKey name) →
      S.view .base (runTx cfg w ops).fs (forceKey name) =
        S.view .base (runOps cfg w ops₁).fs (forceKey name)) := by
  have hr := (tx_restores_force (cfg := cfg) hg hinfos hnf ops hcov).2.2.2
  constructor
  · intro j hj hun
    rw [hr j hj, refView_untouched j ops _ _ hun]
  · intro ops₁ name ops₂ he hlast
    subst he
    have hc := (coveredHistF_append (cfg := cfg) hcov).1
    have hne : forceKey name ≠ [] := hc.2.2.2.1.1
    rw [hr _ hne, refView_last_force _ _ _ _ _ hlast]

end BFS.N
