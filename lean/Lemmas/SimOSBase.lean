import Lemmas.Sim
import Lemmas.KP
import Lemmas.Join
import Lemmas.Prefix
/-!
  Lemmas/SimOSBase.lean — the OS instance of the `Sim` contract: definitions (`osCfg`, `osRoot`,
  `osView`, `OSGood`), facts about keys and prefixes, and preservation of `OSGood` by the
  elementary state updates of `Model/OS.lean`.
-/
namespace BFS

/-- both filesystems are `PrefixFS` layers over the one OS filesystem, rooted at two directories -/
def osCfg (bk kk : Key) : Cfg := { base := prefixFS (kp bk) osfs, backup := prefixFS (kp kk) osfs }

def osRoot (bk kk : Key) : Side → Key
  | .base => bk
  | .backup => kk

def osView (bk kk : Key) (s : Side) (m : MFS) : View := fun k => (m.get (osRoot bk kk s ++ k)).map eraseMt

/-- well-formed disks: a tree of plain names whose inner nodes are directories, with the two
roots live directories and no symlink at or below either of them -/
structure OSGood (bk kk : Key) (m : MFS) : Prop where
  root : ∃ mt, m.get [] = some (.dir mt)
  pkey : ∀ k n, m.get k = some n → PKey k
  dom : ∀ k n, m.get k = some n → k ∈ m.dom
  mode : ∀ k n, m.get k = some n → n.meta.mode < 4096
  parent : ∀ k n, m.get k = some n → k ≠ [] → ∃ mt, m.get k.dropLast = some (.dir mt)
  bdir : ∃ mt, m.get bk = some (.dir mt)
  kdir : ∃ mt, m.get kk = some (.dir mt)
  nolink : ∀ k t mt, (bk <+: k ∨ kk <+: k) → m.get k ≠ some (.link t mt)

/-- the hypotheses on the two root keys -/
structure Roots (bk kk : Key) : Prop where
  pb : PKey bk
  pk : PKey kk
  nb : bk ≠ []
  nk : kk ≠ []
  d1 : ¬ bk <+: kk
  d2 : ¬ kk <+: bk

theorem Roots.pkey {bk kk} (hr : Roots bk kk) (s : Side) : PKey (osRoot bk kk s) := by
  cases s
  · exact hr.pb
  · exact hr.pk

theorem Roots.ne {bk kk} (hr : Roots bk kk) (s : Side) : osRoot bk kk s ≠ [] := by
  cases s
  · exact hr.nb
  · exact hr.nk

theorem Roots.disj {bk kk} (hr : Roots bk kk) (s : Side) : ¬ osRoot bk kk s <+: osRoot bk kk s.other := by
  cases s
  · exact hr.d1
  · exact hr.d2

theorem Roots.disj' {bk kk} (hr : Roots bk kk) (s : Side) : ¬ osRoot bk kk s.other <+: osRoot bk kk s := by
  cases s
  · exact hr.d2
  · exact hr.d1

/-- keys below the two roots never coincide -/
theorem Roots.apart {bk kk} (hr : Roots bk kk) (s : Side) (j x : Key) :
    osRoot bk kk s ++ j ≠ osRoot bk kk s.other ++ x := by
  intro e
  have h1 : osRoot bk kk s <+: osRoot bk kk s ++ j := List.prefix_append _ _
  have h2 : osRoot bk kk s.other <+: osRoot bk kk s ++ j := by rw [e]; exact List.prefix_append _ _
  rcases List.prefix_or_prefix_of_prefix h1 h2 with h | h
  · exact hr.disj s h
  · exact hr.disj' s h

theorem OSGood.rdir {bk kk m} (hg : OSGood bk kk m) (s : Side) : ∃ mt, m.get (osRoot bk kk s) = some (.dir mt) := by
  cases s
  · exact hg.bdir
  · exact hg.kdir

theorem OSGood.nolink' {bk kk m} (hg : OSGood bk kk m) (s : Side) {k t mt} (h : osRoot bk kk s <+: k) :
    m.get k ≠ some (.link t mt) := by
  cases s
  · exact hg.nolink k t mt (Or.inl h)
  · exact hg.nolink k t mt (Or.inr h)

/-! ### keys and prefixes -/

theorem PKey.left {a b : Key} (h : PKey (a ++ b)) : PKey a := fun n hn => h n (List.mem_append_left _ hn)
theorem PKey.right {a b : Key} (h : PKey (a ++ b)) : PKey b := fun n hn => h n (List.mem_append_right _ hn)

theorem PKey.single {c : Name} (h : Plain c) : PKey [c] := by
  intro n hn
  simp only [List.mem_singleton] at hn
  subst hn
  exact h

theorem PKey.getLast {k : Key} (h : PKey k) (hne : k ≠ []) : Plain (k.getLast hne) :=
  h _ (List.getLast_mem hne)

theorem dropLast_append_getLast' {k : Key} (hne : k ≠ []) : k.dropLast ++ [k.getLast hne] = k :=
  List.dropLast_concat_getLast hne

theorem prefix_dropLast {p k : Key} (h : p <+: k) (hne : p ≠ k) : p <+: k.dropLast := by
  obtain ⟨t, rfl⟩ := h
  have ht : t ≠ [] := by
    intro e; apply hne; rw [e]; simp
  rw [List.dropLast_append_of_ne_nil ht]
  exact List.prefix_append _ _

theorem dropLast_prefix (k : Key) : k.dropLast <+: k := List.dropLast_prefix k

theorem append_dropLast {r k : Key} (hne : k ≠ []) : (r ++ k).dropLast = r ++ k.dropLast :=
  List.dropLast_append_of_ne_nil hne

/-- below a live key, every proper ancestor is a live directory -/
theorem OSGood.anc {bk kk m} (hg : OSGood bk kk m) :
    ∀ (n : Nat) (k : Key) (node : Node), k.length = n → m.get k = some node →
      ∀ p, p <+: k → p ≠ k → ∃ mt, m.get p = some (.dir mt) := by
  intro n
  induction n with
  | zero =>
    intro k node hl _ p hp hne
    have : k = [] := List.length_eq_zero_iff.mp hl
    subst this
    exact absurd (List.prefix_nil.mp hp) hne
  | succ n ih =>
    intro k node hl hk p hp hne
    have hkne : k ≠ [] := by intro e; rw [e] at hl; cases hl
    obtain ⟨mt, hpar⟩ := hg.parent k node hk hkne
    have hp' := prefix_dropLast hp hne
    by_cases he : p = k.dropLast
    · exact ⟨mt, he ▸ hpar⟩
    · exact ih k.dropLast _ (by simp [hl]) hpar p hp' he

theorem OSGood.ancestor {bk kk m} (hg : OSGood bk kk m) {k : Key} {node : Node} (hk : m.get k = some node)
    {p : Key} (hp : p <+: k) (hne : p ≠ k) : ∃ mt, m.get p = some (.dir mt) :=
  hg.anc k.length k node rfl hk p hp hne

/-- an absent key has no live descendant -/
theorem OSGood.below_none {bk kk m} (hg : OSGood bk kk m) {p k : Key} (hp : p <+: k) (h : m.get p = none) :
    m.get k = none := by
  cases hk : m.get k with
  | none => rfl
  | some node =>
    by_cases he : p = k
    · rw [he, hk] at h; cases h
    · obtain ⟨mt, h'⟩ := hg.ancestor hk hp he
      rw [h] at h'; cases h'

/-- below a live non-directory nothing is live -/
theorem OSGood.below_nondir {bk kk m} (hg : OSGood bk kk m) {p k : Key} {n : Node} (hp : p <+: k) (hne : p ≠ k)
    (h : m.get p = some n) (hnd : n.isDir = false) : m.get k = none := by
  cases hk : m.get k with
  | none => rfl
  | some node =>
    obtain ⟨mt, h'⟩ := hg.ancestor hk hp hne
    rw [h] at h'
    cases h'
    cases hnd

/-! ### `eraseMt` -/

theorem eraseMt_file {n : Node} {c mt} : eraseMt n = .file c mt ↔ n = .file c mt := by
  cases n <;> simp [eraseMt]

theorem eraseMt_link {n : Node} {t mt} : eraseMt n = .link t mt ↔ n = .link t mt := by
  cases n <;> simp [eraseMt]

theorem eraseMt_dir {n : Node} {mt} (h : eraseMt n = .dir mt) :
    ∃ m0, n = .dir m0 ∧ mt = { m0 with mtime := .fresh } := by
  cases n with
  | dir m0 => simp only [eraseMt, Node.dir.injEq] at h; exact ⟨m0, rfl, h.symm⟩
  | file c m0 => simp [eraseMt] at h
  | link t m0 => simp [eraseMt] at h

theorem eraseMt_dir' (m0 : Meta) : eraseMt (.dir m0) = .dir { m0 with mtime := .fresh } := rfl

theorem eraseMt_mode (n : Node) : (eraseMt n).meta.mode = n.meta.mode := by cases n <;> rfl
theorem eraseMt_uid (n : Node) : (eraseMt n).meta.uid = n.meta.uid := by cases n <;> rfl
theorem eraseMt_gid (n : Node) : (eraseMt n).meta.gid = n.meta.gid := by cases n <;> rfl
theorem eraseMt_kind (n : Node) : (eraseMt n).kind = n.kind := by cases n <;> rfl
theorem eraseMt_isDir (n : Node) : (eraseMt n).isDir = n.isDir := by cases n <;> rfl
theorem eraseMt_isLink (n : Node) : (eraseMt n).isLink = n.isLink := by cases n <;> rfl
theorem eraseMt_mtime {n : Node} (h : n.isDir = false) : (eraseMt n).meta.mtime = n.meta.mtime := by
  cases n <;> first | rfl | cases h

theorem isDir_true {n : Node} (h : n.isDir = true) : ∃ mt, n = .dir mt := by
  cases n with
  | dir mt => exact ⟨mt, rfl⟩
  | file c mt => cases h
  | link t mt => cases h

/-! ### views -/

theorem osView_eq (bk kk : Key) (s : Side) (m : MFS) (k : Key) :
    osView bk kk s m k = (m.get (osRoot bk kk s ++ k)).map eraseMt := rfl

theorem osView_some {bk kk s m k n} (h : osView bk kk s m k = some n) :
    ∃ n0, m.get (osRoot bk kk s ++ k) = some n0 ∧ eraseMt n0 = n := by
  rw [osView_eq] at h
  cases hk : m.get (osRoot bk kk s ++ k) with
  | none => rw [hk] at h; cases h
  | some n0 => rw [hk] at h; simp only [Option.map_some, Option.some.injEq] at h; exact ⟨n0, rfl, h⟩

theorem osView_none {bk kk s m k} (h : osView bk kk s m k = none) : m.get (osRoot bk kk s ++ k) = none := by
  rw [osView_eq] at h
  cases hk : m.get (osRoot bk kk s ++ k) with
  | none => rfl
  | some n0 => rw [hk] at h; cases h

theorem osView_ne_none {bk kk s m k} (h : osView bk kk s m k ≠ none) :
    ∃ n0, m.get (osRoot bk kk s ++ k) = some n0 := by
  cases hk : m.get (osRoot bk kk s ++ k) with
  | none => exact absurd (by rw [osView_eq, hk]; rfl) h
  | some n0 => exact ⟨n0, rfl⟩

theorem osView_isDirAt {bk kk s m k} (h : (osView bk kk s m).isDirAt k) :
    ∃ mt, m.get (osRoot bk kk s ++ k) = some (.dir mt) := by
  obtain ⟨mt, h⟩ := h
  obtain ⟨n0, h0, he⟩ := osView_some h
  obtain ⟨m0, rfl, _⟩ := eraseMt_dir he
  exact ⟨m0, h0⟩

theorem osView_isDirAt_of {bk kk s m k mt} (h : m.get (osRoot bk kk s ++ k) = some (.dir mt)) :
    (osView bk kk s m).isDirAt k := ⟨{ mt with mtime := .fresh }, by rw [osView_eq, h]; rfl⟩

theorem osView_isFileAt {bk kk s m k} (h : (osView bk kk s m).isFileAt k) :
    ∃ c mt, m.get (osRoot bk kk s ++ k) = some (.file c mt) := by
  obtain ⟨c, mt, h⟩ := h
  obtain ⟨n0, h0, he⟩ := osView_some h
  rw [eraseMt_file] at he
  subst he
  exact ⟨c, mt, h0⟩

/-- two states whose nodes agree up to directory timestamps at a key show the same there -/
theorem osView_congr {bk kk s m m' k}
    (h : (m'.get (osRoot bk kk s ++ k)).map eraseMt = (m.get (osRoot bk kk s ++ k)).map eraseMt) :
    osView bk kk s m' k = osView bk kk s m k := h

end BFS
