import Lemmas.UStepB
import Lemmas.LBGTx
/-!
  Lemmas/UBridgeLB.lean — OPTIONAL bridge to the healthy-filesystem invariant `L.InvB` of another work
  package (`Lemmas/LB*.lean`, agent p11: `bexact` — the backup view at a key tracked with an info IS the
  original node —, preserved by EVERY history of `L.G.CoveredHist`, including `RemoveAll` of directories and
  deep `MkdirAll`): `L.BInv` implies the backup-side clauses `U.BInvL` used by tier 2 of C03.
-/
namespace BFS
namespace U
open BackupFS

variable {cfg : Cfg} {S : L.LSim cfg} {v0 : View} {r0 : Option Node}

theorem binvL_of_LB {w : World} (hinv : L.Inv S v0 w) (hb : L.BInv S v0 r0 w) : BInvL S r0 w := by
  refine ⟨hb.nofault, hb.broot, ?_, hb.bonly⟩
  intro k i hk hne hts hkind
  obtain ⟨n, hn, hfor, _⟩ := hinv.saved k i hk hts
  have hexact := hb.bexact k i hk hne hts
  have hk' : n.kind = .dir := by rw [← hfor.1]; exact hkind
  cases n with
  | dir mt => exact ⟨mt, by rw [hexact, hn]⟩
  | file c mt => cases hk'
  | link t mt => cases hk'

end U
end BFS
