import Lemmas.HLHRes
/-!
  Lemmas/HLHLayer.lean — `WFL` is kept by every call through `PrefixFS(kp bk)` over the OS model, and
  by every call through `HiddenFS` over that — refused calls and the whole `HiddenFS.RemoveAll` program
  (guard, `Lstat`, `Walk`, deepest-first removal; `D.hiddenRemoveAll_inv` with the invariant `WFL`)
  included.  No hypothesis on the names, the hidden paths or the route.
-/
namespace BFS
namespace HLH
open MFS D L HLL HiddenFS

theorem prefix_call_wfl {bk : Key} (hbk : PKey bk) {m : MFS} (hw : WFL m) (c : Call) :
    WFL ((prefixFS (kp bk) osfs).call m c).1 := by
  rcases prefix_call_cases hbk m c with ⟨e, _, hc⟩ | ⟨c2, _, _, hc⟩
  · rw [hc]; exact hw
  · rw [hc]; exact osCall_wfl hw c2

theorem hidden_call_wfl {bk : Key} (hbk : PKey bk) (hp : List Path) {m : MFS} (hw : WFL m) (c : Call) :
    WFL ((hiddenFS hp (prefixFS (kp bk) osfs)).call m c).1 := by
  by_cases hra : ∃ n, c = .removeAll n
  · obtain ⟨n, rfl⟩ := hra
    rw [hiddenFS_call_removeAll]
    show WFL (hiddenRemoveAll (mk hp) (prefixFS (kp bk) osfs) 64 m (rmName n)).1
    exact hiddenRemoveAll_inv (I := WFL)
      ⟨fun s p h => prefix_call_wfl hbk h _, fun s p h => prefix_call_wfl hbk h _,
       fun s p h _ => prefix_call_wfl hbk h _⟩ 64 m (rmName n) hw
  · have hnra : ∀ n, c ≠ .removeAll n := fun n e => hra ⟨n, e⟩
    rw [hiddenFS_call_gen _ _ _ _ hnra]
    cases translate (mk hp) c with
    | error e => exact hw
    | ok c1 => exact prefix_call_wfl hbk hw c1

end HLH
end BFS
