import Lemmas.LSimOSLaws3
/-!
  Lemmas/LSimOSLaws4.lean — metadata calls: `Chmod`, `Chown`, `Chtimes` (follow a final symlink),
  `Lchown` (does not).
-/
namespace BFS
namespace L
open MFS

section
variable {bk kk : Key}

/-- a node update that keeps a symlink a symlink with the same target, and makes none -/
def TargetKeeping (f : Node → Node) : Prop :=
  ∀ n, (∀ t mt', f n = .link t mt' → ∃ mt, n = .link t mt) ∧ (∀ t mt, n = .link t mt → ∃ mt', f n = .link t mt')

theorem tk_setMeta (g : Node → Meta) : TargetKeeping (fun n => n.setMeta (g n)) := by
  intro n
  cases n with
  | file c mt => exact ⟨fun t mt' e => (by cases e), fun t mt' e => (by cases e)⟩
  | dir mt => exact ⟨fun t mt' e => (by cases e), fun t mt' e => (by cases e)⟩
  | link t0 mt =>
    refine ⟨fun t mt' e => ?_, fun t mt' e => ?_⟩
    · simp only [Node.setMeta, Node.link.injEq] at e
      exact ⟨mt, by rw [e.1]⟩
    · cases e
      exact ⟨_, rfl⟩

theorem tk_chown (u g : Int) : TargetKeeping (chownF u g) := tk_setMeta _

theorem metaOp_spec {m m' : MFS} {K : Key} {p : Path} {follow : Bool} {f : Node → Node} {r : Except Err Unit}
    (hg : OSGoodL bk kk m) (hf : KindKeeping f) (ht : TargetKeeping f)
    (hc : NameiCaseNF m K (namei m p follow))
    (h : metaOp m p follow f = (m', r)) :
    OSGoodL bk kk m' ∧ EqOff m m' K ∧ LinkSub m m' ∧
      (∀ raw mt0, m.get K = some (.link raw mt0) → ∃ mt0', m'.get K = some (.link raw mt0')) := by
  unfold metaOp at h
  rcases hc with ⟨n, hn, hres⟩ | ⟨hne, mt, hn, hp, hres⟩ | ⟨e, hne, hn, hp, hres, he⟩
  · rw [hres] at h
    cases h
    obtain ⟨a, _, c⟩ := hf n (hg.mode _ n hn)
    refine ⟨good_set_repl hg hn a c, EqOff.set _ _ _, LinkSub.set_keep hn (ht n).1, ?_⟩
    intro raw mt0 hl
    rw [hn] at hl
    cases hl
    obtain ⟨mt', e⟩ := (ht (.link raw mt0)).2 raw mt0 rfl
    exact ⟨mt', by rw [set_get_self, e]⟩
  · rw [hres] at h
    cases h
    exact ⟨hg, EqOff.refl _ _, LinkSub.refl _, fun raw mt0 hl => ⟨mt0, hl⟩⟩
  · rw [hres] at h
    cases h
    exact ⟨hg, EqOff.refl _ _, LinkSub.refl _, fun raw mt0 hl => ⟨mt0, hl⟩⟩

theorem metaOp_live {m : MFS} {s : Side} {k : Key} {n0 : Node} (follow : Bool) (f : Node → Node)
    (hr : Roots bk kk) (hg : OSGoodL bk kk m) (hk : PKey k) (h0 : m.get (osRoot bk kk s ++ k) = some n0)
    (hnl : n0.isLink = false ∨ follow = false) :
    metaOp m (kp (osRoot bk kk s ++ k)) follow f = (m.set (osRoot bk kk s ++ k) (some (f n0)), .ok ()) := by
  unfold metaOp
  rw [namei_live hr hg hk h0 follow hnl]

/-- the frame law for a call that is a `metaOp` -/
theorem meta_frame {m m' : MFS} {s : Side} {k : Key} {c c' : Call} {follow : Bool} {f : Node → Node}
    {r : Except Err Ret} (hr : Roots bk kk) (hg : OSGoodL bk kk m) (hf : KindKeeping f) (ht : TargetKeeping f)
    (hc : NameiCaseNF m (osRoot bk kk s ++ k) (namei m (kp (osRoot bk kk s ++ k)) follow))
    (htr : PrefixFS.translate (kp (osRoot bk kk s)) c = .ok c')
    (hos : osCall m c' = liftU (metaOp m (kp (osRoot bk kk s ++ k)) follow f))
    (h : ((osCfg bk kk).side s).call m c = (m', r)) :
    OSGoodL bk kk m' ∧ osViewL bk kk s.other m' = osViewL bk kk s.other m ∧
      (∀ j, j ≠ k → osViewL bk kk s m' j = osViewL bk kk s m j) ∧
      LinkMono (osViewL bk kk s m) (osViewL bk kk s m') ∧
      (∀ t mt, osViewL bk kk s m k = some (.link t mt) → ∃ mt', osViewL bk kk s m' k = some (.link t mt')) := by
  rw [side_call_unit hr s m htr hos] at h
  obtain ⟨h1, _⟩ := Prod.mk.inj h
  obtain ⟨g1, g2, g3, g4⟩ := metaOp_spec hg hf ht hc (Prod.ext h1 rfl)
  obtain ⟨f1, f2, f3⟩ := frame_of hr g2 g3
  refine ⟨g1, f1, f2, f3, ?_⟩
  intro t mt hv
  obtain ⟨raw, m0, h0, e1, _⟩ := osViewL_link hv
  obtain ⟨mt0', h0'⟩ := g4 raw m0 h0
  refine ⟨{ mt0' with mtime := .fresh, mode := 0o777 }, ?_⟩
  rw [osViewL_eq, h0', e1]
  rfl

/-- the exact-effect law for a call that is a `metaOp` -/
theorem meta_some {m : MFS} {s : Side} {k : Key} {c c' : Call} {follow : Bool} {f : Node → Node} {n0 : Node}
    (hr : Roots bk kk) (hg : OSGoodL bk kk m) (hk : PKey k)
    (htr : PrefixFS.translate (kp (osRoot bk kk s)) c = .ok c')
    (hos : osCall m c' = liftU (metaOp m (kp (osRoot bk kk s ++ k)) follow f))
    (h0 : m.get (osRoot bk kk s ++ k) = some n0) (hnl : n0.isLink = false ∨ follow = false) :
    ∃ m', ((osCfg bk kk).side s).call m c = (m', .ok .unit) ∧
      osViewL bk kk s m' k = some (eraseV (kp (osRoot bk kk s)) (f n0)) := by
  rw [side_call_unit hr s m htr hos, metaOp_live follow f hr hg hk h0 hnl]
  exact ⟨_, rfl, osViewL_set s m k _⟩

theorem tk_chmod (mode : Nat) : TargetKeeping (fun n => n.setMeta { n.meta with mode := mode &&& 0o7777 }) :=
  tk_setMeta _

theorem tk_chtimes (t : Time) : TargetKeeping (fun n => n.setMeta { n.meta with mtime := t }) := tk_setMeta _

/-- the resolution cases of a following call, from the view hypothesis -/
theorem cases_follow {m : MFS} (s : Side) {k : Key} (hr : Roots bk kk) (hg : OSGoodL bk kk m) (hk : PKey k)
    (hacc : AccF (osViewL bk kk s m) k) :
    NameiCaseNF m (osRoot bk kk s ++ k) (namei m (kp (osRoot bk kk s ++ k)) true) :=
  nameiCase_toNF (namei_below s hr hg hk (noLinkUpto_of_view hg hacc) true)

/-! ### the laws -/

theorem os_chmod_frame {m m' : MFS} {s : Side} {k : Key} {mode : Nat} {r : Except Err Ret} (hr : Roots bk kk)
    (hg : OSGoodL bk kk m) (hk : PKey k) (hacc : AccF (osViewL bk kk s m) k)
    (h : ((osCfg bk kk).side s).call m (.chmod (kp k) mode) = (m', r)) :
    OSGoodL bk kk m' ∧ osViewL bk kk s.other m' = osViewL bk kk s.other m ∧
      (∀ j, j ≠ k → osViewL bk kk s m' j = osViewL bk kk s m j) ∧
      LinkMono (osViewL bk kk s m) (osViewL bk kk s m') := by
  obtain ⟨a, b, c, d, _⟩ := meta_frame hr hg (kk_chmod mode) (tk_chmod mode) (cases_follow s hr hg hk hacc)
    (tr_chmod (hr.pkey s) hk mode) (by show liftU (m.chmod _ _) = _; rw [mfs_chmod_eq]) h
  exact ⟨a, b, c, d⟩

theorem os_chmod_some {m : MFS} {s : Side} {k : Key} {mode : Nat} {n : Node} (hr : Roots bk kk)
    (hg : OSGoodL bk kk m) (hk : PKey k) (hv : osViewL bk kk s m k = some n) (hl : n.isLink = false) :
    ∃ m', ((osCfg bk kk).side s).call m (.chmod (kp k) mode) = (m', .ok .unit) ∧
      osViewL bk kk s m' k = some (n.setMeta { n.meta with mode := mode &&& 0o7777 }) := by
  obtain ⟨n0, h0, he⟩ := osViewL_some hv
  have hl0 : n0.isLink = false := by rw [← he, eraseV_isLink] at hl; exact hl
  obtain ⟨m', e1, e2⟩ := meta_some (c := .chmod (kp k) mode) hr hg hk (tr_chmod (hr.pkey s) hk mode)
    (by show liftU (m.chmod _ _) = _; rw [mfs_chmod_eq]) h0 (Or.inl hl0)
  refine ⟨m', e1, ?_⟩
  rw [e2, ← he]
  cases n0 with
  | link t mt => cases hl0
  | file c mt => rfl
  | dir mt => rfl

theorem os_chown_frame {m m' : MFS} {s : Side} {k : Key} {u g : Int} {r : Except Err Ret} (hr : Roots bk kk)
    (hg : OSGoodL bk kk m) (hk : PKey k) (hacc : AccF (osViewL bk kk s m) k)
    (h : ((osCfg bk kk).side s).call m (.chown (kp k) u g) = (m', r)) :
    OSGoodL bk kk m' ∧ osViewL bk kk s.other m' = osViewL bk kk s.other m ∧
      (∀ j, j ≠ k → osViewL bk kk s m' j = osViewL bk kk s m j) ∧
      LinkMono (osViewL bk kk s m) (osViewL bk kk s m') := by
  obtain ⟨a, b, c, d, _⟩ := meta_frame hr hg (kk_chown u g) (tk_chown u g) (cases_follow s hr hg hk hacc)
    (tr_chown (hr.pkey s) hk u g) (by show liftU (m.chown _ _ _) = _; rw [mfs_chown_eq]) h
  exact ⟨a, b, c, d⟩

theorem os_chown_some {m : MFS} {s : Side} {k : Key} {u g : Int} {n : Node} (hr : Roots bk kk)
    (hg : OSGoodL bk kk m) (hk : PKey k) (hv : osViewL bk kk s m k = some n) (hl : n.isLink = false) :
    ∃ m', ((osCfg bk kk).side s).call m (.chown (kp k) u g) = (m', .ok .unit) ∧
      osViewL bk kk s m' k = some (chownNode n u g) := by
  obtain ⟨n0, h0, he⟩ := osViewL_some hv
  have hl0 : n0.isLink = false := by rw [← he, eraseV_isLink] at hl; exact hl
  obtain ⟨m', e1, e2⟩ := meta_some (c := .chown (kp k) u g) hr hg hk (tr_chown (hr.pkey s) hk u g)
    (by show liftU (m.chown _ _ _) = _; rw [mfs_chown_eq]) h0 (Or.inl hl0)
  refine ⟨m', e1, ?_⟩
  rw [e2, ← he]
  cases n0 with
  | link t mt => cases hl0
  | file c mt => rfl
  | dir mt => rfl

theorem os_lchown_frame {m m' : MFS} {s : Side} {k : Key} {u g : Int} {r : Except Err Ret} (hr : Roots bk kk)
    (hg : OSGoodL bk kk m) (hk : PKey k) (hna : NoLinkAnc (osViewL bk kk s m) k)
    (h : ((osCfg bk kk).side s).call m (.lchown (kp k) u g) = (m', r)) :
    OSGoodL bk kk m' ∧ osViewL bk kk s.other m' = osViewL bk kk s.other m ∧
      (∀ j, j ≠ k → osViewL bk kk s m' j = osViewL bk kk s m j) ∧
      LinkMono (osViewL bk kk s m) (osViewL bk kk s m') ∧
      (∀ t mt, osViewL bk kk s m k = some (.link t mt) → ∃ mt', osViewL bk kk s m' k = some (.link t mt')) :=
  meta_frame hr hg (kk_chown u g) (tk_chown u g) (namei_below_nf s hr hg hk (noLinkProper_of_view hg hna))
    (tr_lchown (hr.pkey s) hk u g) (by show liftU (m.lchown _ _ _) = _; rw [mfs_lchown_eq]) h

theorem os_lchown_link {m : MFS} {s : Side} {k : Key} {u g : Int} {t : Path} {mt : Meta} (hr : Roots bk kk)
    (hg : OSGoodL bk kk m) (hk : PKey k) (hv : osViewL bk kk s m k = some (.link t mt)) :
    ∃ m', ((osCfg bk kk).side s).call m (.lchown (kp k) u g) = (m', .ok .unit) ∧
      osViewL bk kk s m' k = some (chownNode (.link t mt) u g) := by
  obtain ⟨raw, m0, h0, e1, e2⟩ := osViewL_link hv
  obtain ⟨m', c1, c2⟩ := meta_some (c := .lchown (kp k) u g) (f := chownF u g) hr hg hk (tr_lchown (hr.pkey s) hk u g)
    (by show liftU (m.lchown _ _ _) = _; rw [mfs_lchown_eq]) h0 (Or.inr rfl)
  refine ⟨m', c1, ?_⟩
  rw [c2, e1, e2]
  rfl

theorem os_chtimes_frame {m m' : MFS} {s : Side} {k : Key} {a t : Time} {r : Except Err Ret} (hr : Roots bk kk)
    (hg : OSGoodL bk kk m) (hk : PKey k) (hacc : AccF (osViewL bk kk s m) k)
    (h : ((osCfg bk kk).side s).call m (.chtimes (kp k) a t) = (m', r)) :
    OSGoodL bk kk m' ∧ osViewL bk kk s.other m' = osViewL bk kk s.other m ∧
      (∀ j, j ≠ k → osViewL bk kk s m' j = osViewL bk kk s m j) ∧
      LinkMono (osViewL bk kk s m) (osViewL bk kk s m') := by
  obtain ⟨a', b, c, d, _⟩ := meta_frame hr hg (kk_chtimes t) (tk_chtimes t) (cases_follow s hr hg hk hacc)
    (tr_chtimes (hr.pkey s) hk a t) (by show liftU (m.chtimes _ _) = _; rw [mfs_chtimes_eq]) h
  exact ⟨a', b, c, d⟩

theorem os_chtimes_file {m : MFS} {s : Side} {k : Key} {a t : Time} {c : String} {mt : Meta} (hr : Roots bk kk)
    (hg : OSGoodL bk kk m) (hk : PKey k) (hv : osViewL bk kk s m k = some (.file c mt)) :
    ∃ m', ((osCfg bk kk).side s).call m (.chtimes (kp k) a t) = (m', .ok .unit) ∧
      osViewL bk kk s m' k = some (.file c { mt with mtime := t }) := by
  obtain ⟨n0, h0, he⟩ := osViewL_some hv
  rw [eraseV_file] at he
  subst he
  obtain ⟨m', e1, e2⟩ := meta_some (c := .chtimes (kp k) a t) hr hg hk (tr_chtimes (hr.pkey s) hk a t)
    (by show liftU (m.chtimes _ _) = _; rw [mfs_chtimes_eq]) h0 (Or.inl rfl)
  exact ⟨m', e1, e2⟩

theorem os_chtimes_dir {m : MFS} {s : Side} {k : Key} {a t : Time} (hr : Roots bk kk)
    (hg : OSGoodL bk kk m) (hk : PKey k) (hv : (osViewL bk kk s m).isDirAt k) :
    ∃ m', ((osCfg bk kk).side s).call m (.chtimes (kp k) a t) = (m', .ok .unit) ∧
      osViewL bk kk s m' k = osViewL bk kk s m k := by
  obtain ⟨mt, h0⟩ := osViewL_isDirAt hv
  obtain ⟨m', e1, e2⟩ := meta_some (c := .chtimes (kp k) a t) hr hg hk (tr_chtimes (hr.pkey s) hk a t)
    (by show liftU (m.chtimes _ _) = _; rw [mfs_chtimes_eq]) h0 (Or.inl rfl)
  refine ⟨m', e1, ?_⟩
  rw [e2, osViewL_eq, h0]
  rfl

end
end L
end BFS
