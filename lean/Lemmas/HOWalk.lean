import Lemmas.HOList
import Lemmas.HiddenRA
/-!
  Lemmas/HOWalk.lean — `HiddenFS.RemoveAll` on two link-free disks that agree on the visible keys.

  The walk of `HiddenFS.RemoveAll` DESCENDS into hidden directories (walk.go has no `SkipDir` there):
  it lists them and `Lstat`s every hidden entry, and only then skips them.  On a well-formed link-free
  disk such an excursion returns without error and changes neither the disk nor the collected
  directory list (`hidden_excursion`) — provided the model's depth bound (64 levels) is not hit inside
  the hidden subtree, which is what `Shallow` says.  The visible part of the two walks runs in lock
  step (`walk_sim2`).
-/
namespace BFS
namespace HO
open MFS D PX HiddenFS

theorem sortStrings_idem (l : List Path) : sortStrings (sortStrings l) = sortStrings l :=
  (sorted_perm_unique strictTotal_strLt (List.Perm.refl _) (sortBy_pairwise strictTotal_strLt l)).symm

/-- every live hidden key is at most 63 components below the HiddenFS root (the model's `Walk` has
fuel 64) -/
def Shallow (bk : Key) (hks : List Key) (m : MFS) : Prop :=
  ∀ j, HidK hks j → (m.get (bk ++ j)).isSome → j.length ≤ 63

section
variable {bk : Key} {hks : List Key} {hs : List Path} {Q : Prop}

theorem Shallow.of_same {m m' : MFS} (h : Shallow bk hks m) (hsame : HidSame bk hks m m') : Shallow bk hks m' := by
  intro j hj hl
  rw [hsame j hj] at hl
  exact h j hj hl

/-- the state relation of the walk: `Rel` when `Q` holds; without the presence clause otherwise (then the
emptiness test of every `Remove` has to be justified on the spot) -/
structure RelG (Q : Prop) (bk : Key) (hks : List Key) (m1 m2 : MFS) : Prop where
  wf1 : WFB bk m1
  wf2 : WFB bk m2
  agr : Agr (Vis bk hks) m1 m2
  hp : Q → SameHP bk hks m1 m2

theorem RelG.of_rel {m1 m2 : MFS} (h : Rel bk hks m1 m2) : RelG True bk hks m1 m2 :=
  ⟨h.wf1, h.wf2, h.agr, fun _ => h.hp⟩

theorem RelG.to_rel {m1 m2 : MFS} (h : RelG True bk hks m1 m2) : Rel bk hks m1 m2 :=
  ⟨h.wf1, h.wf2, h.agr, h.hp trivial⟩

/-- one call with visible names, other than `Symlink` and `RemoveAll`, on two related disks -/
theorem rel_step (H : HidKeys hs hks) (hne : hks ≠ []) (hbk : PKey bk) {m1 m2 : MFS}
    (hR : RelG Q bk hks m1 m2) (c1 : Call) (hvis : ∀ n ∈ c1.accessPaths, isHidden n hs = .ok false)
    (hanc : ∀ o n, c1 = .rename o n → isParentOfHidden o hs = .ok false ∧ isParentOfHidden n hs = .ok false)
    (hnra : ∀ n, c1 ≠ .removeAll n) (hns : ∀ o n, c1 ≠ .symlink o n)
    (hrm : ¬ Q → ∀ c2, KeyCall bk c1 c2 → RemoveOK bk m1 m2 c2) :
    ((prefixFS (kp bk) osfs).call m1 c1).2 = ((prefixFS (kp bk) osfs).call m2 c1).2 ∧
    RelG Q bk hks ((prefixFS (kp bk) osfs).call m1 c1).1 ((prefixFS (kp bk) osfs).call m2 c1).1 ∧
    HidSame bk hks m1 ((prefixFS (kp bk) osfs).call m1 c1).1 ∧
    HidSame bk hks m2 ((prefixFS (kp bk) osfs).call m2 c1).1 := by
  by_cases hq : Q
  · obtain ⟨a, b, c, d, e⟩ := visible_call_same H hne hbk ⟨hR.wf1, hR.wf2, hR.agr, hR.hp hq⟩ c1 hvis hanc hnra
    exact ⟨a, ⟨prefix_call_wf hR.wf1 hbk c1 hns hnra, prefix_call_wf hR.wf2 hbk c1 hns hnra, b, fun _ => c⟩, d, e⟩
  · obtain ⟨a, b, d, e⟩ := visible_call_same_gen H hne hbk hR.wf1 hR.wf2 hR.agr c1 hvis hanc hnra (hrm hq)
    exact ⟨a, ⟨prefix_call_wf hR.wf1 hbk c1 hns hnra, prefix_call_wf hR.wf2 hbk c1 hns hnra, b,
      fun q => absurd q hq⟩, d, e⟩

theorem removeOK_lstat (m1 m2 : MFS) (p : Path) : ∀ c2, KeyCall bk (.lstat p) c2 → RemoveOK bk m1 m2 c2 := by
  intro c2 hk
  cases hk
  intro x e
  cases e

theorem removeOK_open (m1 m2 : MFS) (p : Path) : ∀ c2, KeyCall bk (.open_ p) c2 → RemoveOK bk m1 m2 c2 := by
  intro c2 hk
  cases hk
  intro x e
  cases e

/-- `Remove` of an entry that is no directory on the first disk: no emptiness test -/
theorem removeOK_nondir (hbk : PKey bk) {m1 : MFS} (m2 : MFS) {y : Key} (hy : PKey y)
    (hnd : ∀ mt, m1.get (bk ++ y) ≠ some (.dir mt)) :
    ∀ c2, KeyCall bk (.remove (kp y)) c2 → RemoveOK bk m1 m2 c2 := by
  intro c2 hk x e hx hd
  cases hk with
  | remove n x' hx' hp =>
    have e' : kp (bk ++ x') = kp (bk ++ x) := by injection e
    have := List.append_cancel_left (kp_inj (hbk.append hx') (hbk.append hx) e')
    subst this
    have hxy := prefixPath_key_eq hbk hx hy (clean_kp hy) hp
    subst hxy
    obtain ⟨mt, hm⟩ := hd
    exact absurd hm (hnd mt)

/-- `Remove(d)` of a visible name that is no ancestor of a hidden path -/
theorem removeOK_notparent (H : HidKeys hs hks) (hne : hks ≠ []) (hbk : PKey bk) {m1 m2 : MFS}
    (hw1 : WFB bk m1) (hw2 : WFB bk m2) (ha : Agr (Vis bk hks) m1 m2) {d : Path}
    (hv : isHidden d hs = .ok false) (hpar : isParentOfHidden d hs = .ok false) :
    ∀ c2, KeyCall bk (.remove d) c2 → RemoveOK bk m1 m2 c2 := by
  apply removeOK_nopar H hne hbk hw1 hw2 ha
    (by intro n hn; simp only [Call.accessPaths, List.mem_singleton] at hn; subst hn; exact hv)
  intro n e h hm hne' hcl
  cases e
  obtain ⟨y, hy, hcy, _⟩ := visible_key H hne hv
  have hnp := notparent_key H hy hcy hpar
  rw [hcy] at hcl
  have := kp_inj hy (H.pkey h hm).dropLast hcl
  apply hnp
  refine ⟨h, hm, this ▸ dropLast_prefix h, ?_⟩
  rw [this]
  exact dropLast_ne_self hne'

/-! ### `Lstat` and the listing of the walk on one well-formed disk -/

theorem prefix_lstat_kp (hbk : PKey bk) {m : MFS} (hw : WFB bk m) {j : Key} (hj : PKey j) {node : Node}
    (hn : m.get (bk ++ j) = some node) :
    ∃ i, fsiLstat (prefixFS (kp bk) osfs) m (kp j) = (m, .ok i) ∧ i.isDir = node.isDir := by
  unfold fsiLstat
  rcases prefix_call_cases hbk m (.lstat (kp j)) with ⟨e, he, _⟩ | ⟨c2, hk, _, hc⟩
  · simp only [PrefixFS.translate, prefixPath_kp hbk hj, bind, Except.bind, pure, Except.pure] at he
    cases he
  · rw [hc]
    cases hk with
    | lstat n x hx hp =>
      have hxj : x = j := prefixPath_key_eq hbk hx hj (clean_kp hj) hp
      subst hxj
      rcases hw.resolve_key hbk hx (TextOf.kp (bk ++ x)) false with ⟨n', hn', _, hr⟩ | ⟨_, _, h0, _, _⟩ |
        ⟨_, _, h0, _, _, _⟩
      · rw [hn] at hn'
        cases hn'
        simp only [osCall, MFS.lstat, hr, Except.map, prefixPost]
        exact ⟨_, rfl, by cases node <;> rfl⟩
      · rw [hn] at h0; cases h0
      · rw [hn] at h0; cases h0

/-- a successful `Lstat` of the walk leaves the disk as it is and reports a directory as one -/
theorem fsiLstat_dir_info (hbk : PKey bk) {m : MFS} (hw : WFB bk m) {y : Key} (hy : PKey y) {s : MFS} {fi : Info}
    (h : fsiLstat (prefixFS (kp bk) osfs) m (kp y) = (s, .ok fi)) :
    s = m ∧ ∀ mt, m.get (bk ++ y) = some (.dir mt) → fi.isDir = true := by
  have h1 : (fsiLstat (prefixFS (kp bk) osfs) m (kp y)).1 = m := by
    have hst := prefix_lstat_state (bk := bk) m (kp y)
    unfold fsiLstat
    revert hst
    cases (prefixFS (kp bk) osfs).call m (.lstat (kp y)) with
    | mk s1 r =>
      intro hst
      simp only at hst
      subst hst
      cases r with
      | error e => rfl
      | ok v => cases v <;> rfl
  rw [h] at h1
  simp only at h1
  refine ⟨h1, ?_⟩
  intro mt hm
  obtain ⟨i, hi1, hi2⟩ := prefix_lstat_kp hbk hw hy hm
  rw [h] at hi1
  simp only [Prod.mk.injEq, Except.ok.injEq] at hi1
  rw [hi1.2]
  exact hi2

theorem prefix_open_handle_key (hbk : PKey bk) {m : MFS} (hw : WFB bk m) {j : Key} (hj : PKey j) {h : Handle}
    (hr : ((prefixFS (kp bk) osfs).call m (.open_ (kp j))).2 = .ok (.handle h)) : h.key = bk ++ j := by
  rcases prefix_call_cases hbk m (.open_ (kp j)) with ⟨e, _, hc⟩ | ⟨c2, hk, _, hc⟩
  · rw [hc] at hr; cases hr
  · rw [hc] at hr
    obtain ⟨h0, h1, h2⟩ := map_post_ok_handle hr
    rw [← h2]
    cases hk with
    | open_ n x hx hp =>
      have hxj : x = j := prefixPath_key_eq hbk hx hj (clean_kp hj) hp
      subst hxj
      have hN := NC.of_case (hw.resolve_key hbk hx (TextOf.kp (bk ++ x))
        (!(hasFlag O_RDONLY O_CREATE && hasFlag O_RDONLY O_EXCL)))
      cases ho : (m.openFile (kp (bk ++ x)) O_RDONLY 0).2 with
      | error e =>
        simp only [osCall] at h1
        rw [ho] at h1; cases h1
      | ok h' =>
        simp only [osCall] at h1
        rw [ho] at h1
        simp only [Except.map, Except.ok.injEq, Ret.handle.injEq] at h1
        rw [← h1]
        exact openFile_handle_key hN ho

/-- `readDirNames` of a live directory: the sorted names of its live children; the disk untouched -/
theorem prefix_readdir_kp (hbk : PKey bk) {m : MFS} (hw : WFB bk m) {j : Key} (hj : PKey j) {mt : Meta}
    (hn : m.get (bk ++ j) = some (.dir mt)) :
    fsiReadDirNames (prefixFS (kp bk) osfs) m (kp j) =
      (m, .ok (sortStrings (sortStrings (m.childNames (bk ++ j))))) := by
  unfold fsiReadDirNames
  have hst : ((prefixFS (kp bk) osfs).call m (.open_ (kp j))).1 = m := prefix_open_state m (kp j)
  rcases prefix_call_cases hbk m (.open_ (kp j)) with ⟨e, he, _⟩ | ⟨c2, hk, _, hc⟩
  · simp only [PrefixFS.translate, prefixPath_kp hbk hj, bind, Except.bind, pure, Except.pure] at he
    cases he
  · cases hk with
    | open_ n x hx hp =>
      have hxj : x = j := prefixPath_key_eq hbk hx hj (clean_kp hj) hp
      subst hxj
      have hN := hw.resolve_key hbk hx (TextOf.kp (bk ++ x)) true
      have hres : ∃ h0, (osCall m (.open_ (kp (bk ++ x)))).2 = .ok (.handle h0) := by
        rcases hN with ⟨n', hn', _, hr⟩ | ⟨_, _, h0, _, _⟩ | ⟨_, _, h0, _, _, _⟩
        · rw [hn] at hn'
          cases hn'
          refine ⟨{ key := bk ++ x, name := kp (bk ++ x), isDir := true, flag := O_RDONLY }, ?_⟩
          show (m.openFile _ O_RDONLY 0).2.map _ = _
          rw [openFile_rdonly, hr]
          rfl
        · rw [hn] at h0; cases h0
        · rw [hn] at h0; cases h0
      obtain ⟨h0, hh0⟩ := hres
      have hcall : ∃ h, (prefixFS (kp bk) osfs).call m (.open_ (kp x)) = (m, .ok (.handle h)) := by
        refine ⟨{ h0 with name := PrefixFS.reportedName (kp bk) (Call.open_ (kp (bk ++ x))).primaryPath h0.name }, ?_⟩
        apply Prod.ext
        · exact hst
        · rw [hc]
          simp only [hh0, Except.map, post_handle]
      obtain ⟨h, hh⟩ := hcall
      have hkey := prefix_open_handle_key hbk hw hx (by rw [hh])
      rw [hh]
      simp only
      show (match MFS.hreaddirnames m h with | .error e => _ | .ok names => _) = _
      unfold MFS.hreaddirnames
      rw [hkey, hn]

/-! ### an excursion of the walk into a hidden subtree does nothing -/

/-- the inner filesystem of HiddenFS here -/
abbrev PF (bk : Key) : FSI MFS := prefixFS (kp bk) osfs

theorem hiddenFn_hidden (H : HidKeys hs hks) {j : Key} (hj : PKey j) (hh : HidK hks j) (m : MFS) (a : List Path)
    (i : Info) : hiddenRemoveFn hs (PF bk) m a (kp j) (some i) none = ((m, a), none) := by
  unfold hiddenRemoveFn
  simp only [isHidden_kp H hj, hh, decide_true]

theorem hidden_excursion (H : HidKeys hs hks) (hbk : PKey bk) :
    ∀ (fuel : Nat) (j : Key) (m : MFS) (a : List Path) (i : Info) (node : Node),
      WFB bk m → Shallow bk hks m → PKey j → HidK hks j → m.get (bk ++ j) = some node → i.isDir = node.isDir →
      64 ≤ fuel + j.length →
      walkRec (fsiWalkOps (PF bk)) (hiddenRemoveFn hs (PF bk)) fuel m a (kp j) i = ((m, a), none) := by
  intro fuel
  induction fuel with
  | zero =>
    intro j m a i node _ hsh _ hh hn _ hf
    have := hsh j hh (by rw [hn]; rfl)
    omega
  | succ fuel ih =>
    intro j m a i node hw hsh hj hh hn hi hf
    rw [walkRec, hiddenFn_hidden H hj hh]
    simp only
    by_cases hd : i.isDir = true
    · simp only [hd, Bool.not_true, Bool.false_eq_true, if_false]
      cases node with
      | file c mt => rw [hd] at hi; cases hi
      | link t mt => rw [hd] at hi; cases hi
      | dir mt =>
        have hrd : (fsiWalkOps (PF bk)).readDirNames m (kp j) =
            (m, .ok (sortStrings (sortStrings (m.childNames (bk ++ j))))) := prefix_readdir_kp hbk hw hj hn
        rw [hrd]
        simp only
        have names : ∀ ns : List Name, (∀ n ∈ ns, Plain n ∧ (m.get (bk ++ j ++ [n])).isSome) →
            walkNames (fsiWalkOps (PF bk)) (hiddenRemoveFn hs (PF bk)) fuel m a (kp j) ns = ((m, a), none) := by
          intro ns
          induction ns with
          | nil => intro _; rw [walkNames]
          | cons n rest ihn =>
            intro hall
            obtain ⟨hpl, hl⟩ := hall n (by simp)
            obtain ⟨node', hnode'⟩ := Option.isSome_iff_exists.mp hl
            have hj' : PKey (j ++ [n]) := hj.append (PKey.single hpl)
            rw [List.append_assoc] at hnode'
            obtain ⟨fi, hfi, hfd⟩ := prefix_lstat_kp hbk hw hj' hnode'
            have hls : (fsiWalkOps (PF bk)).lstat m (kp (j ++ [n])) = (m, .ok fi) := hfi
            rw [walkNames]
            simp only [join_kp hj hpl, hls]
            rw [ih (j ++ [n]) m a fi node' hw hsh hj' (hidK_mono hh (List.prefix_append _ _)) hnode' hfd
              (by simp only [List.length_append, List.length_singleton]; omega)]
            simp only
            exact ihn (fun n' hn' => hall n' (List.mem_cons_of_mem _ hn'))
        apply names
        intro n hn'
        have := children_plain (.of_wfb hw) (bk ++ j) n (by rw [← sortStrings_idem]; exact hn')
        exact this
    · simp only [hd, Bool.not_false, if_true]

/-- a hidden entry in the list of names of a visible directory is passed over -/
theorem walkNames_drop_hidden (H : HidKeys hs hks) (hbk : PKey bk) {fuel : Nat} {y : Key} {m : MFS} {a : List Path}
    {n : Name} (rest : List Name) (hw : WFB bk m) (hsh : Shallow bk hks m) (hy : PKey y) (hn : Plain n)
    (hh : HidK hks (y ++ [n])) (hl : (m.get (bk ++ y ++ [n])).isSome) (hf : 64 ≤ fuel + y.length + 1) :
    walkNames (fsiWalkOps (PF bk)) (hiddenRemoveFn hs (PF bk)) fuel m a (kp y) (n :: rest) =
      walkNames (fsiWalkOps (PF bk)) (hiddenRemoveFn hs (PF bk)) fuel m a (kp y) rest := by
  obtain ⟨node', hnode'⟩ := Option.isSome_iff_exists.mp hl
  have hy' : PKey (y ++ [n]) := hy.append (PKey.single hn)
  rw [List.append_assoc] at hnode'
  obtain ⟨fi, hfi, hfd⟩ := prefix_lstat_kp hbk hw hy' hnode'
  have hls : (fsiWalkOps (PF bk)).lstat m (kp (y ++ [n])) = (m, .ok fi) := hfi
  conv => lhs; rw [walkNames]
  simp only [join_kp hy hn, hls]
  rw [hidden_excursion H hbk fuel (y ++ [n]) m a fi node' hw hsh hy' hh hnode' hfd
    (by simp only [List.length_append, List.length_singleton]; omega)]

/-! ### the two walks in lock step on the visible part -/

/-- what the two runs have in common at a return point -/
def Out (Q : Prop) (bk : Key) (hks : List Key) (hs : List Path) (m1 m2 : MFS)
    (X1 X2 : (MFS × List Path) × Option Err) : Prop :=
  X1.2 = X2.2 ∧ X1.1.2 = X2.1.2 ∧ RelG Q bk hks X1.1.1 X2.1.1 ∧ HidSame bk hks m1 X1.1.1 ∧
    HidSame bk hks m2 X2.1.1 ∧ AllVisible hs X1.1.2

theorem Out.of_step {m1 m2 s1 s2 : MFS} {X1 X2 : (MFS × List Path) × Option Err}
    (h1 : HidSame bk hks m1 s1) (h2 : HidSame bk hks m2 s2) (h : Out Q bk hks hs s1 s2 X1 X2) :
    Out Q bk hks hs m1 m2 X1 X2 :=
  ⟨h.1, h.2.1, h.2.2.1, h1.trans h.2.2.2.1, h2.trans h.2.2.2.2.1, h.2.2.2.2.2⟩

theorem fsiLstat_two (H : HidKeys hs hks) (hne : hks ≠ []) (hbk : PKey bk) {m1 m2 : MFS}
    (hR : RelG Q bk hks m1 m2) {p : Path} (hp : isHidden p hs = .ok false) :
    (fsiLstat (PF bk) m1 p).2 = (fsiLstat (PF bk) m2 p).2 ∧
    RelG Q bk hks (fsiLstat (PF bk) m1 p).1 (fsiLstat (PF bk) m2 p).1 ∧
    HidSame bk hks m1 (fsiLstat (PF bk) m1 p).1 ∧ HidSame bk hks m2 (fsiLstat (PF bk) m2 p).1 := by
  obtain ⟨e1, e2, e3, e4⟩ := rel_step H hne hbk hR (.lstat p)
    (by intro n hn; simp only [Call.accessPaths, List.mem_singleton] at hn; subst hn; exact hp)
    (fun _ _ e => by cases e) (fun _ e => by cases e) (fun _ _ e => by cases e) (fun _ => removeOK_lstat m1 m2 p)
  unfold fsiLstat
  revert e1 e2 e3 e4
  cases (PF bk).call m1 (.lstat p) with
  | mk s1 r1 =>
    cases (PF bk).call m2 (.lstat p) with
    | mk s2 r2 =>
      intro e1 e2 e3 e4
      simp only at e1 e2 e3 e4
      subst e1
      cases r1 with
      | error e => exact ⟨rfl, e2, e3, e4⟩
      | ok v => cases v <;> exact ⟨rfl, e2, e3, e4⟩

theorem fsiReadDirNames_state (m : MFS) (p : Path) : (fsiReadDirNames (PF bk) m p).1 = m := by
  have := prefix_open_state (bk := bk) m p
  unfold fsiReadDirNames
  revert this
  cases (PF bk).call m (.open_ p) with
  | mk s1 r =>
    intro this
    simp only at this
    subst this
    cases r with
    | error e => rfl
    | ok v =>
      cases v with
      | handle hd =>
        simp only
        cases (PF bk).hreaddirnames s1 hd <;> rfl
      | unit => rfl
      | info i => rfl
      | str t => rfl

/-- the names the two walks are given for a visible directory -/
def NamesOK (bk : Key) (hks : List Key) (hs : List Path) (y : Key) (m : MFS) (ns : List Name) : Prop :=
  ∀ n ∈ ns, Plain n ∧ (visibleName hs (kp y) n = false → (m.get (bk ++ y ++ [n])).isSome)

theorem isHidden_kp_vis (H : HidKeys hs hks) {y : Key} (hy : PKey y) (hv : ¬ HidK hks y) :
    isHidden (kp y) hs = .ok false := by
  rw [isHidden_kp H hy]
  simp only [hv, decide_false]

theorem readdir_nondir (H : HidKeys hs hks) (hne : hks ≠ []) (hbk : PKey bk) {m1 m2 : MFS}
    (hR : RelG Q bk hks m1 m2) {y : Key} (hy : PKey y) (hv : ¬ HidK hks y)
    (hnd : ∀ mt, m1.get (bk ++ y) ≠ some (.dir mt)) :
    ∃ e, (fsiReadDirNames (PF bk) m1 (kp y)).2 = .error e ∧ (fsiReadDirNames (PF bk) m2 (kp y)).2 = .error e := by
  obtain ⟨e1, _, _, _⟩ := rel_step H hne hbk hR (.open_ (kp y))
    (by intro n hn; simp only [Call.accessPaths, List.mem_singleton] at hn; subst hn; exact isHidden_kp_vis H hy hv)
    (fun _ _ e => by cases e) (fun _ e => by cases e) (fun _ _ e => by cases e)
    (fun _ => removeOK_open m1 m2 (kp y))
  have st1 := prefix_open_state (bk := bk) m1 (kp y)
  have st2 := prefix_open_state (bk := bk) m2 (kp y)
  have hag := hR.agr.get (bk ++ y) (vis_key hv)
  unfold fsiReadDirNames
  cases hc1 : (PF bk).call m1 (.open_ (kp y)) with
  | mk s1 r1 =>
    cases hc2 : (PF bk).call m2 (.open_ (kp y)) with
    | mk s2 r2 =>
      have hc1' : (prefixFS (kp bk) osfs).call m1 (.open_ (kp y)) = (s1, r1) := hc1
      have hc2' : (prefixFS (kp bk) osfs).call m2 (.open_ (kp y)) = (s2, r2) := hc2
      rw [hc1'] at e1 st1
      rw [hc2'] at e1 st2
      simp only at e1 st1 st2
      subst e1 st1 st2
      cases r1 with
      | error e => exact ⟨e, rfl, rfl⟩
      | ok v =>
        cases v with
        | unit => exact ⟨.other, rfl, rfl⟩
        | info i => exact ⟨.other, rfl, rfl⟩
        | str t => exact ⟨.other, rfl, rfl⟩
        | handle h =>
          have hkey := prefix_open_handle_key hbk hR.wf1 hy (h := h) (by rw [hc1'])
          have herr : ∃ E, MFS.hreaddirnames s1 h = .error E ∧ MFS.hreaddirnames s2 h = .error E := by
            unfold MFS.hreaddirnames
            rw [hkey, ← hag]
            cases hg : s1.get (bk ++ y) with
            | none => exact ⟨.other, rfl, rfl⟩
            | some node =>
              cases node with
              | dir mt => exact absurd hg (hnd mt)
              | file c mt => exact ⟨.notDir, rfl, rfl⟩
              | link t mt => exact ⟨.notDir, rfl, rfl⟩
          obtain ⟨E, h1, h2⟩ := herr
          have g1 : (PF bk).hreaddirnames s1 h = .error E := h1
          have g2 : (PF bk).hreaddirnames s2 h = .error E := h2
          refine ⟨E, ?_, ?_⟩
          · simp only [g1]
          · simp only [g2]

theorem fsiReadDir_two (H : HidKeys hs hks) (hne : hks ≠ []) (hbk : PKey bk) {m1 m2 : MFS}
    (hR : RelG Q bk hks m1 m2) {y : Key} (hy : PKey y) (hv : ¬ HidK hks y) :
    (∃ e, (fsiReadDirNames (PF bk) m1 (kp y)).2 = .error e ∧ (fsiReadDirNames (PF bk) m2 (kp y)).2 = .error e) ∨
    (∃ ns1 ns2, (fsiReadDirNames (PF bk) m1 (kp y)).2 = .ok ns1 ∧ (fsiReadDirNames (PF bk) m2 (kp y)).2 = .ok ns2 ∧
      NamesOK bk hks hs y m1 ns1 ∧ NamesOK bk hks hs y m2 ns2 ∧
      ns1.filter (visibleName hs (kp y)) = ns2.filter (visibleName hs (kp y))) := by
  have hag := hR.agr.get (bk ++ y) (vis_key hv)
  cases hg : m1.get (bk ++ y) with
  | some node =>
    cases node with
    | dir mt =>
      right
      have hg2 : m2.get (bk ++ y) = some (.dir mt) := by rw [← hag]; exact hg
      rw [prefix_readdir_kp hbk hR.wf1 hy hg, prefix_readdir_kp hbk hR.wf2 hy hg2, sortStrings_idem,
        sortStrings_idem]
      refine ⟨_, _, rfl, rfl, ?_, ?_, ?_⟩
      · intro n hn
        obtain ⟨a, b⟩ := children_plain (.of_wfb hR.wf1) _ n hn
        exact ⟨a, fun _ => b⟩
      · intro n hn
        obtain ⟨a, b⟩ := children_plain (.of_wfb hR.wf2) _ n hn
        exact ⟨a, fun _ => b⟩
      · exact visible_children_same H (.of_wfb hR.wf1) (.of_wfb hR.wf2) hR.agr hy (kp_ne_nil y) (clean_kp hy)
    | file c mt =>
      left
      have hg2 : m2.get (bk ++ y) = some (.file c mt) := by rw [← hag]; exact hg
      exact readdir_nondir H hne hbk hR hy hv (fun mt' e => by rw [hg] at e; cases e)
    | link t mt =>
      exact absurd hg (hR.wf1.nolink _ t mt (Or.inl (List.prefix_append _ _)))
  | none =>
    left
    exact readdir_nondir H hne hbk hR hy hv (fun mt' e => by rw [hg] at e; cases e)

/-- the walk function on a visible entry, on two related disks -/
theorem fn_two (H : HidKeys hs hks) (hne : hks ≠ []) (hbk : PKey bk) {m1 m2 : MFS}
    (hR : RelG Q bk hks m1 m2) {y : Key} (hy : PKey y) (hv : ¬ HidK hks y) (a : List Path) (ha : AllVisible hs a)
    (i : Info) (hi : ∀ mt, m1.get (bk ++ y) = some (.dir mt) → i.isDir = true) :
    Out Q bk hks hs m1 m2 (hiddenRemoveFn hs (PF bk) m1 a (kp y) (some i) none)
      (hiddenRemoveFn hs (PF bk) m2 a (kp y) (some i) none) := by
  have hvis := isHidden_kp_vis H hy hv
  unfold hiddenRemoveFn
  simp only [hvis]
  by_cases hd : i.isDir = true
  · simp only [hd, if_true]
    refine ⟨rfl, rfl, hR, HidSame.refl _, HidSame.refl _, ?_⟩
    intro d hd'
    rcases List.mem_append.mp hd' with h | h
    · exact ha d h
    · simp only [List.mem_singleton] at h
      subst h
      exact hvis
  · simp only [hd, Bool.false_eq_true, if_false, translate_remove_visible hvis]
    obtain ⟨e1, e2, e3, e4⟩ := rel_step H hne hbk hR (.remove (kp y))
      (by intro n hn; simp only [Call.accessPaths, List.mem_singleton] at hn; subst hn; exact hvis)
      (fun _ _ e => by cases e) (fun _ e => by cases e) (fun _ _ e => by cases e)
      (fun _ => removeOK_nondir hbk m2 hy (fun mt hm => hd (hi mt hm)))
    revert e1 e2 e3 e4
    cases (PF bk).call m1 (.remove (kp y)) with
    | mk s1 r1 =>
      cases (PF bk).call m2 (.remove (kp y)) with
      | mk s2 r2 =>
        intro e1 e2 e3 e4
        simp only at e1 e2 e3 e4
        subst e1
        cases r1 with
        | error e => exact ⟨rfl, rfl, e2, e3, e4, ha⟩
        | ok v => exact ⟨rfl, rfl, e2, e3, e4, ha⟩

/-- the two walks below a visible entry -/
def RecSim (Q : Prop) (bk : Key) (hks : List Key) (hs : List Path) (fuel : Nat) : Prop :=
  ∀ (m1 m2 : MFS) (a : List Path) (y : Key) (i : Info), RelG Q bk hks m1 m2 → Shallow bk hks m1 → Shallow bk hks m2 →
    PKey y → ¬ HidK hks y → 64 ≤ fuel + y.length → AllVisible hs a →
    (∀ mt, m1.get (bk ++ y) = some (.dir mt) → i.isDir = true) →
    Out Q bk hks hs m1 m2 (walkRec (fsiWalkOps (PF bk)) (hiddenRemoveFn hs (PF bk)) fuel m1 a (kp y) i)
      (walkRec (fsiWalkOps (PF bk)) (hiddenRemoveFn hs (PF bk)) fuel m2 a (kp y) i)

/-- the two walks over the entries of a visible directory: the lists have the same visible members in
the same order, the hidden members of each are present on its disk -/
def NamesSim (Q : Prop) (bk : Key) (hks : List Key) (hs : List Path) (fuel : Nat) : Prop :=
  ∀ (ns1 ns2 : List Name) (m1 m2 : MFS) (a : List Path) (y : Key), RelG Q bk hks m1 m2 → Shallow bk hks m1 →
    Shallow bk hks m2 → PKey y → ¬ HidK hks y → 64 ≤ fuel + y.length + 1 → AllVisible hs a →
    NamesOK bk hks hs y m1 ns1 → NamesOK bk hks hs y m2 ns2 →
    ns1.filter (visibleName hs (kp y)) = ns2.filter (visibleName hs (kp y)) →
    Out Q bk hks hs m1 m2 (walkNames (fsiWalkOps (PF bk)) (hiddenRemoveFn hs (PF bk)) fuel m1 a (kp y) ns1)
      (walkNames (fsiWalkOps (PF bk)) (hiddenRemoveFn hs (PF bk)) fuel m2 a (kp y) ns2)

theorem NamesOK.tail {y : Key} {m : MFS} {n : Name} {rest : List Name}
    (h : NamesOK bk hks hs y m (n :: rest)) : NamesOK bk hks hs y m rest :=
  fun n' hn' => h n' (List.mem_cons_of_mem _ hn')

theorem NamesOK.of_same {y : Key} {m m' : MFS} {ns : List Name} (H : HidKeys hs hks) (hy : PKey y)
    (h : NamesOK bk hks hs y m ns) (hsame : HidSame bk hks m m') : NamesOK bk hks hs y m' ns := by
  intro n hn
  obtain ⟨hpl, hl⟩ := h n hn
  refine ⟨hpl, fun hf => ?_⟩
  have hh : HidK hks (y ++ [n]) := by
    apply Classical.byContradiction
    intro hnh
    have := (visibleName_iff H hy (kp_ne_nil y) (clean_kp hy) hpl).mpr hnh
    rw [this] at hf
    cases hf
  rw [List.append_assoc, hsame _ hh, ← List.append_assoc]
  exact hl hf

theorem namesSim_of_rec (H : HidKeys hs hks) (hne : hks ≠ []) (hbk : PKey bk) {fuel : Nat}
    (hrec : RecSim Q bk hks hs fuel) : NamesSim Q bk hks hs fuel := by
  -- dropping a hidden head on either side
  have hidK_of : ∀ {y : Key} {n : Name}, PKey y → Plain n → visibleName hs (kp y) n = false → HidK hks (y ++ [n]) := by
    intro y n hy hpl hf
    apply Classical.byContradiction
    intro hnh
    have := (visibleName_iff H hy (kp_ne_nil y) (clean_kp hy) hpl).mpr hnh
    rw [this] at hf
    cases hf
  intro ns1
  induction ns1 with
  | nil =>
    intro ns2
    induction ns2 with
    | nil =>
      intro m1 m2 a y hR _ _ _ _ _ ha _ _ _
      rw [walkNames, walkNames]
      exact ⟨rfl, rfl, hR, HidSame.refl _, HidSame.refl _, ha⟩
    | cons n' r2 ih2 =>
      intro m1 m2 a y hR hs1 hs2 hy hv hf ha ok1 ok2 hfil
      have hvn : visibleName hs (kp y) n' = false := by
        cases hb : visibleName hs (kp y) n' with
        | false => rfl
        | true => simp [List.filter_cons, hb] at hfil
      obtain ⟨hpl, hl⟩ := ok2 n' (by simp)
      rw [walkNames_drop_hidden H hbk r2 hR.wf2 hs2 hy hpl (hidK_of hy hpl hvn) (hl hvn) hf]
      apply ih2 m1 m2 a y hR hs1 hs2 hy hv hf ha ok1 ok2.tail
      rw [hfil, List.filter_cons, hvn]
      simp
  | cons n r1 ih1 =>
    intro ns2 m1 m2 a y hR hs1 hs2 hy hv hf ha ok1 ok2 hfil
    obtain ⟨hpl, hl⟩ := ok1 n (by simp)
    cases hb : visibleName hs (kp y) n with
    | false =>
      rw [walkNames_drop_hidden H hbk r1 hR.wf1 hs1 hy hpl (hidK_of hy hpl hb) (hl hb) hf]
      apply ih1 ns2 m1 m2 a y hR hs1 hs2 hy hv hf ha ok1.tail ok2
      rw [← hfil, List.filter_cons, hb]
      simp
    | true =>
      -- the visible head: find it on the other side
      have inner : ∀ (ns2 : List Name) (m2 : MFS), RelG Q bk hks m1 m2 → Shallow bk hks m2 →
          NamesOK bk hks hs y m2 ns2 →
          (n :: r1).filter (visibleName hs (kp y)) = ns2.filter (visibleName hs (kp y)) →
          Out Q bk hks hs m1 m2
            (walkNames (fsiWalkOps (PF bk)) (hiddenRemoveFn hs (PF bk)) fuel m1 a (kp y) (n :: r1))
            (walkNames (fsiWalkOps (PF bk)) (hiddenRemoveFn hs (PF bk)) fuel m2 a (kp y) ns2) := by
        intro ns2
        induction ns2 with
        | nil =>
          intro m2 hR hs2 ok2 hfil
          simp [List.filter_cons, hb] at hfil
        | cons n' r2 ih2 =>
          intro m2 hR hs2 ok2 hfil
          obtain ⟨hpl', hl'⟩ := ok2 n' (by simp)
          cases hb' : visibleName hs (kp y) n' with
          | false =>
            rw [walkNames_drop_hidden H hbk r2 hR.wf2 hs2 hy hpl' (hidK_of hy hpl' hb') (hl' hb') hf]
            apply ih2 m2 hR hs2 ok2.tail
            rw [hfil, List.filter_cons, hb']
            simp
          | true =>
            simp only [List.filter_cons, hb, hb', if_true, List.cons.injEq] at hfil
            obtain ⟨hnn, hfil'⟩ := hfil
            subst hnn
            have hvy : ¬ HidK hks (y ++ [n]) := (visibleName_iff H hy (kp_ne_nil y) (clean_kp hy) hpl).mp hb
            have hy' : PKey (y ++ [n]) := hy.append (PKey.single hpl)
            have hvis' := isHidden_kp_vis H hy' hvy
            rw [walkNames, walkNames]
            simp only [join_kp hy hpl]
            obtain ⟨l1, l2, l3, l4⟩ := fsiLstat_two H hne hbk hR hvis'
            have e1 : (fsiWalkOps (PF bk)).lstat m1 (kp (y ++ [n])) = fsiLstat (PF bk) m1 (kp (y ++ [n])) := rfl
            have e2 : (fsiWalkOps (PF bk)).lstat m2 (kp (y ++ [n])) = fsiLstat (PF bk) m2 (kp (y ++ [n])) := rfl
            rw [e1, e2]
            have hinfo := fun s fi => fsiLstat_dir_info (s := s) (fi := fi) hbk hR.wf1 hy'
            revert l1 l2 l3 l4 hinfo
            cases fsiLstat (PF bk) m1 (kp (y ++ [n])) with
            | mk s1 q1 =>
              cases fsiLstat (PF bk) m2 (kp (y ++ [n])) with
              | mk s2 q2 =>
                intro l1 l2 l3 l4 hinfo
                simp only at l1 l2 l3 l4
                subst l1
                cases q1 with
                | error e =>
                  simp only [hiddenRemoveFn_err]
                  exact ⟨rfl, rfl, l2, l3, l4, ha⟩
                | ok fi =>
                  simp only
                  obtain ⟨hs1m, hdir⟩ := hinfo s1 fi rfl
                  subst hs1m
                  have hsub := hrec s1 s2 a (y ++ [n]) fi l2 (hs1.of_same l3) (hs2.of_same l4) hy' hvy
                    (by simp only [List.length_append, List.length_singleton]; omega) ha hdir
                  revert hsub
                  cases walkRec (fsiWalkOps (PF bk)) (hiddenRemoveFn hs (PF bk)) fuel s1 a (kp (y ++ [n])) fi with
                  | mk sa1 oe1 =>
                    cases walkRec (fsiWalkOps (PF bk)) (hiddenRemoveFn hs (PF bk)) fuel s2 a (kp (y ++ [n])) fi with
                    | mk sa2 oe2 =>
                      intro hsub
                      obtain ⟨u1, b1⟩ := sa1
                      obtain ⟨u2, b2⟩ := sa2
                      obtain ⟨g1, g2, g3, g4, g5, g6⟩ := hsub
                      simp only at g1 g2 g3 g4 g5 g6
                      subst g1 g2
                      cases oe1 with
                      | some e => exact ⟨rfl, rfl, g3, l3.trans g4, l4.trans g5, g6⟩
                      | none =>
                        simp only
                        have t1 := l3.trans g4
                        have t2 := l4.trans g5
                        exact Out.of_step t1 t2
                          (ih1 r2 u1 u2 b1 y g3 (hs1.of_same t1) (hs2.of_same t2) hy hv hf g6
                            (ok1.tail.of_same H hy t1) (ok2.tail.of_same H hy t2) hfil')
      exact inner ns2 m2 hR hs2 ok2 hfil

theorem recSim_zero : RecSim Q bk hks hs 0 := by
  intro m1 m2 a y i hR _ _ _ _ _ ha _
  rw [walkRec, walkRec]
  exact ⟨rfl, rfl, hR, HidSame.refl _, HidSame.refl _, ha⟩

theorem recSim_succ (H : HidKeys hs hks) (hne : hks ≠ []) (hbk : PKey bk) {fuel : Nat}
    (hnames : NamesSim Q bk hks hs fuel) : RecSim Q bk hks hs (fuel + 1) := by
  intro m1 m2 a y i hR hs1 hs2 hy hv hf ha hi
  rw [walkRec, walkRec]
  have hfn := fn_two H hne hbk hR hy hv a ha i hi
  revert hfn
  cases hiddenRemoveFn hs (PF bk) m1 a (kp y) (some i) none with
  | mk sa1 oe1 =>
    cases hiddenRemoveFn hs (PF bk) m2 a (kp y) (some i) none with
    | mk sa2 oe2 =>
      intro hfn
      obtain ⟨u1, b1⟩ := sa1
      obtain ⟨u2, b2⟩ := sa2
      obtain ⟨g1, g2, g3, g4, g5, g6⟩ := hfn
      simp only at g1 g2 g3 g4 g5 g6
      subst g1 g2
      cases oe1 with
      | some e => exact ⟨rfl, rfl, g3, g4, g5, g6⟩
      | none =>
        simp only
        by_cases hd : i.isDir = true
        · simp only [hd, Bool.not_true, Bool.false_eq_true, if_false]
          have e1 : (fsiWalkOps (PF bk)).readDirNames u1 (kp y) = fsiReadDirNames (PF bk) u1 (kp y) := rfl
          have e2 : (fsiWalkOps (PF bk)).readDirNames u2 (kp y) = fsiReadDirNames (PF bk) u2 (kp y) := rfl
          rw [e1, e2]
          have st1 := fsiReadDirNames_state (bk := bk) u1 (kp y)
          have st2 := fsiReadDirNames_state (bk := bk) u2 (kp y)
          have hrd := fsiReadDir_two H hne hbk g3 hy hv
          revert st1 st2 hrd
          cases fsiReadDirNames (PF bk) u1 (kp y) with
          | mk t1 q1 =>
            cases fsiReadDirNames (PF bk) u2 (kp y) with
            | mk t2 q2 =>
              intro st1 st2 hrd
              simp only at st1 st2 hrd
              subst st1 st2
              rcases hrd with ⟨e, h1, h2⟩ | ⟨ns1, ns2, h1, h2, ok1, ok2, hfil⟩
              · subst h1 h2
                simp only [hiddenRemoveFn_err]
                exact ⟨rfl, rfl, g3, g4, g5, g6⟩
              · subst h1 h2
                simp only
                exact Out.of_step g4 g5
                  (hnames ns1 ns2 t1 t2 b1 y g3 (hs1.of_same g4) (hs2.of_same g5) hy hv (by omega) g6 ok1 ok2 hfil)
        · simp only [hd, Bool.not_false, if_true]
          exact ⟨rfl, rfl, g3, g4, g5, g6⟩

theorem walk_sim2 (H : HidKeys hs hks) (hne : hks ≠ []) (hbk : PKey bk) :
    ∀ fuel, RecSim Q bk hks hs fuel ∧ NamesSim Q bk hks hs fuel := by
  intro fuel
  induction fuel with
  | zero => exact ⟨recSim_zero, namesSim_of_rec H hne hbk recSim_zero⟩
  | succ fuel ih =>
    have h := recSim_succ H hne hbk ih.2
    exact ⟨h, namesSim_of_rec H hne hbk h⟩

/-- `Walk` from a visible root -/
theorem walkTree_two (H : HidKeys hs hks) (hne : hks ≠ []) (hbk : PKey bk) {m1 m2 : MFS}
    (hR : RelG Q bk hks m1 m2) (hs1 : Shallow bk hks m1) (hs2 : Shallow bk hks m2) {y : Key} (hy : PKey y)
    (hv : ¬ HidK hks y) :
    Out Q bk hks hs m1 m2 (walkTree (fsiWalkOps (PF bk)) (hiddenRemoveFn hs (PF bk)) 64 m1 [] (kp y))
      (walkTree (fsiWalkOps (PF bk)) (hiddenRemoveFn hs (PF bk)) 64 m2 [] (kp y)) := by
  unfold walkTree
  have ha : AllVisible hs ([] : List Path) := fun d hd => by cases hd
  obtain ⟨l1, l2, l3, l4⟩ := fsiLstat_two H hne hbk hR (isHidden_kp_vis H hy hv)
  have e1 : (fsiWalkOps (PF bk)).lstat m1 (kp y) = fsiLstat (PF bk) m1 (kp y) := rfl
  have e2 : (fsiWalkOps (PF bk)).lstat m2 (kp y) = fsiLstat (PF bk) m2 (kp y) := rfl
  rw [e1, e2]
  have hinfo := fun s fi => fsiLstat_dir_info (s := s) (fi := fi) hbk hR.wf1 hy
  revert l1 l2 l3 l4 hinfo
  cases fsiLstat (PF bk) m1 (kp y) with
  | mk s1 q1 =>
    cases fsiLstat (PF bk) m2 (kp y) with
    | mk s2 q2 =>
      intro l1 l2 l3 l4 hinfo
      simp only at l1 l2 l3 l4
      subst l1
      cases q1 with
      | error e =>
        simp only [hiddenRemoveFn_err]
        exact ⟨rfl, rfl, l2, l3, l4, ha⟩
      | ok fi =>
        simp only
        obtain ⟨hs1m, hdir⟩ := hinfo s1 fi rfl
        subst hs1m
        exact Out.of_step l3 l4
          ((walk_sim2 H hne hbk 64).1 s1 s2 [] y fi l2 (hs1.of_same l3) (hs2.of_same l4) hy hv (by omega) ha hdir)

/-- the deepest-first removal of the collected directories -/
theorem removeDirs_two (H : HidKeys hs hks) (hne : hks ≠ []) (hbk : PKey bk) :
    ∀ (ds : List Path) (m1 m2 : MFS), RelG Q bk hks m1 m2 → AllVisible hs ds →
      (hiddenRemoveDirs hs (PF bk) m1 ds).2 = (hiddenRemoveDirs hs (PF bk) m2 ds).2 ∧
      RelG Q bk hks (hiddenRemoveDirs hs (PF bk) m1 ds).1 (hiddenRemoveDirs hs (PF bk) m2 ds).1 ∧
      HidSame bk hks m1 (hiddenRemoveDirs hs (PF bk) m1 ds).1 ∧
      HidSame bk hks m2 (hiddenRemoveDirs hs (PF bk) m2 ds).1 := by
  intro ds
  induction ds with
  | nil =>
    intro m1 m2 hR _
    exact ⟨rfl, hR, HidSame.refl _, HidSame.refl _⟩
  | cons d rest ih =>
    intro m1 m2 hR hav
    have hrest : AllVisible hs rest := fun x hx => hav x (List.mem_cons_of_mem _ hx)
    rw [hiddenRemoveDirs, hiddenRemoveDirs]
    cases hpar : isParentOfHidden d hs with
    | error e => exact ⟨rfl, hR, HidSame.refl _, HidSame.refl _⟩
    | ok b =>
      cases b with
      | true => exact ih m1 m2 hR hrest
      | false =>
        simp only
        obtain ⟨e1, e2, e3, e4⟩ := rel_step H hne hbk hR (.remove d)
          (by intro n hn; simp only [Call.accessPaths, List.mem_singleton] at hn; subst hn; exact hav _ (by simp))
          (fun _ _ e => by cases e) (fun _ e => by cases e) (fun _ _ e => by cases e)
          (fun _ => removeOK_notparent H hne hbk hR.wf1 hR.wf2 hR.agr (hav d (by simp)) hpar)
        revert e1 e2 e3 e4
        cases (PF bk).call m1 (.remove d) with
        | mk s1 r1 =>
          cases (PF bk).call m2 (.remove d) with
          | mk s2 r2 =>
            intro e1 e2 e3 e4
            simp only at e1 e2 e3 e4
            subst e1
            cases r1 with
            | error e => exact ⟨rfl, e2, e3, e4⟩
            | ok v =>
              simp only
              obtain ⟨i1, i2, i3, i4⟩ := ih s1 s2 e2 hrest
              exact ⟨i1, i2, e3.trans i3, e4.trans i4⟩

/-- `HiddenFS.RemoveAll` on two related, shallow disks: same result; related disks, hidden parts untouched -/
theorem hiddenRemoveAll_two (H : HidKeys hs hks) (hne : hks ≠ []) (hbk : PKey bk) {m1 m2 : MFS}
    (hR : RelG Q bk hks m1 m2) (hs1 : Shallow bk hks m1) (hs2 : Shallow bk hks m2) (n : Path) :
    (hiddenRemoveAll hs (PF bk) 64 m1 (rmName n)).2 = (hiddenRemoveAll hs (PF bk) 64 m2 (rmName n)).2 ∧
    RelG Q bk hks (hiddenRemoveAll hs (PF bk) 64 m1 (rmName n)).1 (hiddenRemoveAll hs (PF bk) 64 m2 (rmName n)).1 ∧
    HidSame bk hks m1 (hiddenRemoveAll hs (PF bk) 64 m1 (rmName n)).1 ∧
    HidSame bk hks m2 (hiddenRemoveAll hs (PF bk) 64 m2 (rmName n)).1 := by
  unfold hiddenRemoveAll
  cases hgd : hguard hs (rmName n) .hiddenNotExist with
  | error e => exact ⟨rfl, hR, HidSame.refl _, HidSame.refl _⟩
  | ok u =>
    simp only
    have hvis : isHidden (rmName n) hs = .ok false := hguard_ok hgd
    obtain ⟨y, hy, hcy, hvy⟩ := visible_key H hne hvis
    -- the name is the cleaned one: the path of the visible key `y`
    have hname : rmName n = kp y := by
      have hnn : n ≠ [] := by
        intro e
        have habs := visible_abs H hne hvis
        rw [e] at habs
        revert habs
        decide
      have : rmName n = clean n := by unfold rmName; simp only [hnn, if_false]
      rw [this] at hcy ⊢
      rw [clean_idempotent] at hcy
      exact hcy
    rw [hname] at hvis ⊢
    obtain ⟨e1, e2, e3, e4⟩ := rel_step H hne hbk hR (.lstat (kp y))
      (by intro x hx; simp only [Call.accessPaths, List.mem_singleton] at hx; subst hx; exact hvis)
      (fun _ _ e => by cases e) (fun _ e => by cases e) (fun _ _ e => by cases e)
      (fun _ => removeOK_lstat m1 m2 (kp y))
    have hinfo := fun s fi => fsiLstat_dir_info (s := s) (fi := fi) hbk hR.wf1 hy
    unfold fsiLstat at hinfo
    revert e1 e2 e3 e4 hinfo
    cases (PF bk).call m1 (.lstat (kp y)) with
    | mk s1 r1 =>
      cases (PF bk).call m2 (.lstat (kp y)) with
      | mk s2 r2 =>
        intro e1 e2 e3 e4 hinfo
        simp only at e1 e2 e3 e4 hinfo
        subst e1
        cases r1 with
        | error e =>
          simp only
          split <;> exact ⟨rfl, e2, e3, e4⟩
        | ok v =>
          cases v with
          | unit => exact ⟨rfl, e2, e3, e4⟩
          | str t => exact ⟨rfl, e2, e3, e4⟩
          | handle h => exact ⟨rfl, e2, e3, e4⟩
          | info fi =>
            simp only
            obtain ⟨hs1m, hdir⟩ := hinfo s1 fi rfl
            subst hs1m
            by_cases hd : fi.isDir = true
            · simp only [hd, Bool.not_true, Bool.false_eq_true, if_false]
              have hw := walkTree_two H hne hbk e2 (hs1.of_same e3) (hs2.of_same e4) hy hvy
              revert hw
              cases walkTree (fsiWalkOps (PF bk)) (hiddenRemoveFn hs (PF bk)) 64 s1 [] (kp y) with
              | mk sa1 oe1 =>
                cases walkTree (fsiWalkOps (PF bk)) (hiddenRemoveFn hs (PF bk)) 64 s2 [] (kp y) with
                | mk sa2 oe2 =>
                  intro hw
                  obtain ⟨u1, b1⟩ := sa1
                  obtain ⟨u2, b2⟩ := sa2
                  obtain ⟨g1, g2, g3, g4, g5, g6⟩ := hw
                  simp only at g1 g2 g3 g4 g5 g6
                  subst g1 g2
                  cases oe1 with
                  | some e => exact ⟨rfl, g3, e3.trans g4, e4.trans g5⟩
                  | none =>
                    simp only
                    have hav : AllVisible hs (sortMost b1) := by
                      intro d hd'
                      exact g6 d ((sortBy_perm _ b1).mem_iff.mp hd')
                    obtain ⟨i1, i2, i3, i4⟩ := removeDirs_two H hne hbk (sortMost b1) u1 u2 g3 hav
                    exact ⟨i1, i2, (e3.trans g4).trans i3, (e4.trans g5).trans i4⟩
            · simp only [hd, Bool.not_false, if_true]
              obtain ⟨f1, f2, f3, f4⟩ := rel_step H hne hbk e2 (.remove (kp y))
                (by intro x hx; simp only [Call.accessPaths, List.mem_singleton] at hx; subst hx; exact hvis)
                (fun _ _ e => by cases e) (fun _ e => by cases e) (fun _ _ e => by cases e)
                (fun _ => removeOK_nondir hbk s2 hy (fun mt hm => hd (hdir mt hm)))
              revert f1 f2 f3 f4
              cases (PF bk).call s1 (.remove (kp y)) with
              | mk t1 q1 =>
                cases (PF bk).call s2 (.remove (kp y)) with
                | mk t2 q2 =>
                  intro f1 f2 f3 f4
                  simp only at f1 f2 f3 f4
                  subst f1
                  cases q1 with
                  | error e => exact ⟨rfl, f2, e3.trans f3, e4.trans f4⟩
                  | ok v => exact ⟨rfl, f2, e3.trans f3, e4.trans f4⟩

end
end HO
end BFS
