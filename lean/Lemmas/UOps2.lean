import Lemmas.UOps
/-!
  Lemmas/UOps2.lean — transparency through flat symlinks (C03), the remaining single-path mutators
  without a handle: Remove, Lchown (non-following), Symlink (non-following; `PrefixFS`'s lexical
  admission check of a relative target is a hypothesis), Chmod, Chown, Chtimes (following: the resolved
  key is not a symlink).
-/
namespace BFS
namespace U
open BackupFS MFS F16

section
variable {bk kk : Key}
variable (hr : Roots bk kk) {v0 : View} {w : World} {name : Path} {k : Key}
include hr

theorem remove_transpU (hinv : L.Inv (osSimLR hr) v0 w) (hnf : w.faults = []) (hflat : Flat bk w.fs) (hk : PKey k)
    (hname : clean name = kp k) (hlen : k.length ≤ 40)
    (hlok : ∀ t mt, L.osViewL bk kk .base w.fs (L.G.rk bk w k) = some (.link t mt) →
      L.osLinkOK bk kk .base (L.G.rk bk w k) t) :
    Sat (Op.exec (osCfg bk kk) (.remove name)) w
      (fun w' res => TranspU bk w ((Op.backupPhase (osCfg bk kk) (.remove name) w).2) w' res
        (Op.direct (baseFS bk kk) w.fs (.remove name))) := by
  have hrk := L.G.rk_pkey hr hinv.good hflat hk
  have h := single_transpU hr (c := fun r => .remove r) hinv hnf hflat hk hname hlok
    (fun m => (base_call_spelling m hk hname).2.2.2.2.1)
    (fun m2 hg2 hb => callRelU_of_sys (c := fun r => .remove r) (sys := fun m p => m.remove p)
      (fun m j hj => side_remove hr m j hj) hk hrk
      (remove_rel hinv.good hg2 hb (nrel_rk hr hinv.good hflat hk hlen hg2 hb false (fun h => by cases h))))
  have e : (Op.backupPhase (osCfg bk kk) (.remove name) w).2 =
      (prepare (osCfg bk kk) name w).2.map (fun _ => ()) := prepPhase_snd _ _ _
  rw [e]
  exact h

theorem lchown_transpU (hinv : L.Inv (osSimLR hr) v0 w) (hnf : w.faults = []) (hflat : Flat bk w.fs) (hk : PKey k)
    (hname : clean name = kp k) (hlen : k.length ≤ 40)
    (hlok : ∀ t mt, L.osViewL bk kk .base w.fs (L.G.rk bk w k) = some (.link t mt) →
      L.osLinkOK bk kk .base (L.G.rk bk w k) t) (u g : Int) :
    Sat (Op.exec (osCfg bk kk) (.lchown name u g)) w
      (fun w' res => TranspU bk w ((Op.backupPhase (osCfg bk kk) (.lchown name u g) w).2) w' res
        (Op.direct (baseFS bk kk) w.fs (.lchown name u g))) := by
  have hrk := L.G.rk_pkey hr hinv.good hflat hk
  have h := single_transpU hr (c := fun r => .lchown r u g) hinv hnf hflat hk hname hlok
    (fun m => (base_call_spelling m hk hname).2.2.2.2.2.2.2.2.1 u g)
    (fun m2 hg2 hb => callRelU_of_sys (c := fun r => .lchown r u g) (sys := fun m p => m.lchown p u g)
      (fun m j hj => side_lchown hr m j hj u g) hk hrk
      (by
        simp only [mfs_lchown_eq]
        exact metaOp_rel hb false (nrel_rk hr hinv.good hflat hk hlen hg2 hb false (fun h => by cases h))
          (evc_chown u g)))
  have e : (Op.backupPhase (osCfg bk kk) (.lchown name u g) w).2 =
      (prepare (osCfg bk kk) name w).2.map (fun _ => ()) := prepPhase_snd _ _ _
  rw [e]
  exact h

/-! ### following calls: the resolved key is not a symlink -/

theorem chmod_transpU (hinv : L.Inv (osSimLR hr) v0 w) (hnf : w.faults = []) (hflat : Flat bk w.fs) (hk : PKey k)
    (hname : clean name = kp k) (hlen : k.length ≤ 40)
    (hfin : ∀ t mt, w.fs.get (bk ++ L.G.rk bk w k) ≠ some (.link t mt)) (mode : Nat) :
    Sat (Op.exec (osCfg bk kk) (.chmod name mode)) w
      (fun w' res => TranspU bk w ((Op.backupPhase (osCfg bk kk) (.chmod name mode) w).2) w' res
        (Op.direct (baseFS bk kk) w.fs (.chmod name mode))) := by
  have hrk := L.G.rk_pkey hr hinv.good hflat hk
  have hlok : ∀ t mt, L.osViewL bk kk .base w.fs (L.G.rk bk w k) = some (.link t mt) →
      L.osLinkOK bk kk .base (L.G.rk bk w k) t := by
    intro t mt hv
    obtain ⟨raw, m0, h0, _⟩ := L.osViewL_link hv
    exact absurd h0 (hfin raw m0)
  have h := single_transpU hr (c := fun r => .chmod r mode) hinv hnf hflat hk hname hlok
    (fun m => (base_call_spelling m hk hname).2.2.2.2.2.2.1 mode)
    (fun m2 hg2 hb => callRelU_of_sys (c := fun r => .chmod r mode) (sys := fun m p => m.chmod p mode)
      (fun m j hj => side_chmod hr m j hj mode) hk hrk
      (by
        simp only [mfs_chmod_eq]
        exact metaOp_rel hb true (nrel_rk hr hinv.good hflat hk hlen hg2 hb true (fun _ => hfin))
          (evc_chmod mode)))
  have e : (Op.backupPhase (osCfg bk kk) (.chmod name mode) w).2 =
      (prepare (osCfg bk kk) name w).2.map (fun _ => ()) := prepPhase_snd _ _ _
  rw [e]
  exact h

theorem chown_transpU (hinv : L.Inv (osSimLR hr) v0 w) (hnf : w.faults = []) (hflat : Flat bk w.fs) (hk : PKey k)
    (hname : clean name = kp k) (hlen : k.length ≤ 40)
    (hfin : ∀ t mt, w.fs.get (bk ++ L.G.rk bk w k) ≠ some (.link t mt)) (u g : Int) :
    Sat (Op.exec (osCfg bk kk) (.chown name u g)) w
      (fun w' res => TranspU bk w ((Op.backupPhase (osCfg bk kk) (.chown name u g) w).2) w' res
        (Op.direct (baseFS bk kk) w.fs (.chown name u g))) := by
  have hrk := L.G.rk_pkey hr hinv.good hflat hk
  have hlok : ∀ t mt, L.osViewL bk kk .base w.fs (L.G.rk bk w k) = some (.link t mt) →
      L.osLinkOK bk kk .base (L.G.rk bk w k) t := by
    intro t mt hv
    obtain ⟨raw, m0, h0, _⟩ := L.osViewL_link hv
    exact absurd h0 (hfin raw m0)
  have h := single_transpU hr (c := fun r => .chown r u g) hinv hnf hflat hk hname hlok
    (fun m => (base_call_spelling m hk hname).2.2.2.2.2.2.2.1 u g)
    (fun m2 hg2 hb => callRelU_of_sys (c := fun r => .chown r u g) (sys := fun m p => m.chown p u g)
      (fun m j hj => side_chown hr m j hj u g) hk hrk
      (by
        simp only [mfs_chown_eq]
        exact metaOp_rel hb true (nrel_rk hr hinv.good hflat hk hlen hg2 hb true (fun _ => hfin))
          (evc_chown u g)))
  have e : (Op.backupPhase (osCfg bk kk) (.chown name u g) w).2 =
      (prepare (osCfg bk kk) name w).2.map (fun _ => ()) := prepPhase_snd _ _ _
  rw [e]
  exact h

theorem chtimes_transpU (hinv : L.Inv (osSimLR hr) v0 w) (hnf : w.faults = []) (hflat : Flat bk w.fs) (hk : PKey k)
    (hname : clean name = kp k) (hlen : k.length ≤ 40)
    (hfin : ∀ t mt, w.fs.get (bk ++ L.G.rk bk w k) ≠ some (.link t mt)) (t : Time) :
    Sat (Op.exec (osCfg bk kk) (.chtimes name t)) w
      (fun w' res => TranspU bk w ((Op.backupPhase (osCfg bk kk) (.chtimes name t) w).2) w' res
        (Op.direct (baseFS bk kk) w.fs (.chtimes name t))) := by
  have hrk := L.G.rk_pkey hr hinv.good hflat hk
  have hlok : ∀ t mt, L.osViewL bk kk .base w.fs (L.G.rk bk w k) = some (.link t mt) →
      L.osLinkOK bk kk .base (L.G.rk bk w k) t := by
    intro t mt hv
    obtain ⟨raw, m0, h0, _⟩ := L.osViewL_link hv
    exact absurd h0 (hfin raw m0)
  have h := single_transpU hr (c := fun r => .chtimes r t t) hinv hnf hflat hk hname hlok
    (fun m => (base_call_spelling m hk hname).2.2.2.2.2.2.2.2.2.1 t t)
    (fun m2 hg2 hb => callRelU_of_sys (c := fun r => .chtimes r t t) (sys := fun m p => m.chtimes p t)
      (fun m j hj => side_chtimes hr m j hj t t) hk hrk
      (by
        simp only [mfs_chtimes_eq]
        exact metaOp_rel hb true (nrel_rk hr hinv.good hflat hk hlen hg2 hb true (fun _ => hfin))
          (evc_chtimes t)))
  have e : (Op.backupPhase (osCfg bk kk) (.chtimes name t) w).2 =
      (prepare (osCfg bk kk) name w).2.map (fun _ => ()) := prepPhase_snd _ _ _
  rw [e]
  exact h

/-! ### Symlink -/

omit hr in
theorem base_symlink_spelling (m : MFS) (o : Path) (hk : PKey k) (hname : clean name = kp k) :
    (baseFS bk kk).call m (.symlink o name) = (baseFS bk kk).call m (.symlink o (kp k)) := by
  have pp := prefixPath_spelling (PrefixFS.mk (kp bk)) hk hname
  apply prefixFS_call_congr (kp bk) m (by trivial)
  simp only [PrefixFS.translate, pp]

omit hr in
theorem tr_symlink_rel_none {b j : Key} (hb : PKey b) (hj : PKey j) {t : Path} (hab : isAbs t = false)
    (hin : (relInside (kp b) (join (dir (kp (b ++ j))) t)).isSome = false) :
    PrefixFS.translate (kp b) (.symlink t (kp j)) = .error .perm := by
  simp only [PrefixFS.translate, prefixPath_kp hb hj, bind, Except.bind, pure, Except.pure, hab,
    Bool.false_eq_true, if_false]
  cases hri : relInside (kp b) (join (dir (kp (b ++ j))) t) with
  | none => rfl
  | some r => rw [hri] at hin; cases hin

/-- `PrefixFS`'s admission check for a relative target is lexical in the directory of the new name: the
caller's directory for the direct call, the resolved directory for BackupFS's call.  The hypothesis says
the two checks agree. -/
def SymlinkAdm (bk : Key) (o : Path) (k r : Key) : Prop :=
  isAbs o = true ∨
    (relInside (kp bk) (join (dir (kp (bk ++ k))) o)).isSome =
      (relInside (kp bk) (join (dir (kp (bk ++ r))) o)).isSome

theorem symlink_transpU (hinv : L.Inv (osSimLR hr) v0 w) (hnf : w.faults = []) (hflat : Flat bk w.fs) (hk : PKey k)
    (hname : clean name = kp k) (hlen : k.length ≤ 40)
    (hlok : ∀ t mt, L.osViewL bk kk .base w.fs (L.G.rk bk w k) = some (.link t mt) →
      L.osLinkOK bk kk .base (L.G.rk bk w k) t) (o : Path) (hadm : SymlinkAdm bk o k (L.G.rk bk w k)) :
    Sat (Op.exec (osCfg bk kk) (.symlink o name)) w
      (fun w' res => TranspU bk w ((Op.backupPhase (osCfg bk kk) (.symlink o name) w).2) w' res
        (Op.direct (baseFS bk kk) w.fs (.symlink o name))) := by
  have hrk := L.G.rk_pkey hr hinv.good hflat hk
  have hsys : ∀ o' : Path, (∀ j, PKey j →
        PrefixFS.translate (kp bk) (.symlink o (kp j)) = .ok (.symlink o' (kp (bk ++ j)))) →
      ∀ m2, L.OSGoodL bk kk m2 → UEq bk w.fs m2 →
        CallRelU bk kk w.fs m2 (.symlink o (kp k)) (.symlink o (kp (L.G.rk bk w k))) := by
    intro o' htr m2 hg2 hb
    exact callRelU_of_sys (c := fun r => .symlink o r) (sys := fun m p => m.symlink o' p)
      (fun m j hj => side_call_unit hr .base m (htr j hj) (x := m.symlink o' (kp (bk ++ j))) rfl) hk hrk
      (symlink_rel hb (nrel_rk hr hinv.good hflat hk hlen hg2 hb false (fun h => by cases h)) o')
  have hrel : ∀ m2, L.OSGoodL bk kk m2 → UEq bk w.fs m2 →
      CallRelU bk kk w.fs m2 (.symlink o (kp k)) (.symlink o (kp (L.G.rk bk w k))) := by
    cases hab : isAbs o with
    | true => exact hsys _ (fun j hj => L.tr_symlink_abs hr.pb hj hab)
    | false =>
      rcases hadm with h | h
      · rw [hab] at h; cases h
      · cases hin : (relInside (kp bk) (join (dir (kp (bk ++ k))) o)).isSome with
        | true =>
          intro m2 hg2 hb
          have t1 := L.tr_symlink_rel hr.pb hk hab hin
          have t2 := L.tr_symlink_rel hr.pb hrk hab (h ▸ hin)
          have e1 := side_call_unit hr .base w.fs t1 (x := w.fs.symlink o (kp (bk ++ k))) rfl
          have e2 := side_call_unit hr .base m2 t2 (x := m2.symlink o (kp (bk ++ L.G.rk bk w k))) rfl
          obtain ⟨a, b⟩ := symlink_rel hb (nrel_rk hr hinv.good hflat hk hlen hg2 hb false (fun h => by cases h)) o
          unfold CallRelU baseFS
          rw [e1, e2]
          exact ⟨by rw [a], b⟩
        | false =>
          intro m2 hg2 hb
          have t1 := tr_symlink_rel_none hr.pb hk hab hin
          have t2 := tr_symlink_rel_none hr.pb hrk hab (h ▸ hin)
          have e1 := L.side_call_err hr .base w.fs t1
          have e2 := L.side_call_err hr .base m2 t2
          unfold CallRelU baseFS
          rw [e1, e2]
          exact ⟨rfl, hb⟩
  have h := single_transpU hr (c := fun r => .symlink o r) hinv hnf hflat hk hname hlok
    (fun m => base_symlink_spelling m o hk hname) hrel
  have e : (Op.backupPhase (osCfg bk kk) (.symlink o name) w).2 =
      (prepare (osCfg bk kk) name w).2.map (fun _ => ()) := prepPhase_snd _ _ _
  rw [e]
  exact h

end

end U
end BFS
