import Lemmas.DFrame
/-!
  Lemmas/DLink.lean — kernel name resolution THROUGH symlinks stays inside a directory `pk` when every
  symlink at or below `pk` has a *tame* target: no `..` component, and an absolute target runs
  through `pk` lexically.  No well-formedness of the disk is needed: the proof follows `MFS.walk`
  step by step (its current directory is always a live directory).
-/
namespace BFS
namespace D
open MFS

/-- the components name resolution does not skip -/
def strip (cs : List Name) : List Name := cs.filter (fun c => !(c = [] || c = dot))

theorem strip_append (a b : List Name) : strip (a ++ b) = strip a ++ strip b := List.filter_append ..

theorem strip_cons_triv {c : Name} (h : (c = [] || c = dot) = true) (rest : List Name) :
    strip (c :: rest) = strip rest := by
  unfold strip
  rw [List.filter_cons]
  simp only [h, Bool.not_true, Bool.false_eq_true, if_false]

theorem strip_cons_keep {c : Name} (h : (c = [] || c = dot) = false) (rest : List Name) :
    strip (c :: rest) = c :: strip rest := by
  unfold strip
  rw [List.filter_cons]
  simp only [h, Bool.not_false, if_true]

theorem strip_pkey {k : Key} (h : PKey k) : strip k = k := by
  unfold strip
  apply List.filter_eq_self.mpr
  intro c hc
  rw [plain_not_trivial (h c hc)]
  rfl

theorem strip_trivial {tl : List Name} (h : trivialRest tl = true) : strip tl = [] := by
  unfold strip
  apply List.filter_eq_nil_iff.mpr
  intro c hc
  unfold trivialRest at h
  have := List.all_eq_true.mp h c hc
  simp only [this, Bool.not_true, Bool.false_eq_true, not_false_eq_true]

/-- a symlink target that cannot lead out of `pk`: no `..`, and if absolute, lexically through `pk` -/
def TameTarget (pk : Key) (t : Path) : Prop :=
  dotdot ∉ splitSep t ∧ (isRooted t = true → pk <+: strip (splitSep t))

instance (pk : Key) (t : Path) : Decidable (TameTarget pk t) := inferInstanceAs (Decidable (_ ∧ _))

/-- every symlink at or below `pk` has a tame target -/
def Tame (pk : Key) (m : MFS) : Prop :=
  ∀ k t mt, pk <+: k → m.get k = some (.link t mt) → TameTarget pk t

/-- `pk` and all its ancestors are live directories -/
def PrefDirs (pk : Key) (m : MFS) : Prop := ∀ p, p <+: pk → ∃ mt, m.get p = some (.dir mt)

section
variable {pk : Key} {m : MFS}

/-- where the walk is: in a live directory, nothing left to climb, and either already inside `pk` or
still descending towards it along its own components -/
structure WInv (pk : Key) (m : MFS) (cur : Key) (comps : List Name) : Prop where
  dir : ∃ mt, m.get cur = some (.dir mt)
  nodd : dotdot ∉ comps
  pos : pk <+: cur ∨ ∃ d, d ≠ [] ∧ cur ++ d = pk ∧ d <+: strip comps

theorem walk_inside (hd : PrefDirs pk m) (ht : Tame pk m) (f : Bool) :
    ∀ (fuel hops : Nat) (cur : Key) (comps : List Name), WInv pk m cur comps →
      ∃ K, pk <+: K ∧ NC m K (walk m f fuel hops cur comps) := by
  intro fuel
  induction fuel with
  | zero =>
    intro hops cur comps _
    exact ⟨pk, List.prefix_rfl, .err .loop (by rw [walk])⟩
  | succ fuel ih =>
    intro hops cur comps hI
    cases comps with
    | nil =>
      have hin : pk <+: cur := by
        rcases hI.pos with h | ⟨d, hne, _, hp⟩
        · exact h
        · exfalso
          apply hne
          simpa [strip] using hp
      rw [walk]
      cases hc : m.get cur with
      | none => exact ⟨pk, List.prefix_rfl, .err _ rfl⟩
      | some n => exact ⟨cur, hin, .found n hc rfl⟩
    | cons c rest =>
      have hndr : dotdot ∉ rest := fun h => hI.nodd (List.mem_cons_of_mem _ h)
      by_cases hc1 : (c = [] || c = dot) = true
      · rw [walk_skip m f fuel hops cur rest hc1]
        apply ih
        refine ⟨hI.dir, hndr, ?_⟩
        have hpos := hI.pos
        rw [strip_cons_triv hc1] at hpos
        exact hpos
      · have hc1' : (c = [] || c = dot) = false := by simpa using hc1
        have hc2 : c ≠ dotdot := fun e => hI.nodd (e ▸ List.mem_cons_self)
        have hstep : walk m f (fuel + 1) hops cur (c :: rest) =
            (match m.get (cur ++ [c]) with
             | none => if trivialRest rest then .missing cur c else .err .notExist
             | some (.dir _) => walk m f fuel hops (cur ++ [c]) rest
             | some (.file ct mt) => if trivialRest rest then .found (cur ++ [c]) (.file ct mt) else .err .notDir
             | some (.link t mt) =>
               if trivialRest rest && !f then .found (cur ++ [c]) (.link t mt)
               else if hops ≥ 40 then .err .loop
               else if t = [] then .err .notExist
               else walk m f fuel (hops + 1) (if isRooted t then [] else cur) (splitSep t ++ rest)) := by
          rw [walk]
          simp only [hc1', Bool.false_eq_true, if_false, hc2]
          cases m.get (cur ++ [c]) with
          | none => rfl
          | some n => cases n <;> rfl
        rw [hstep]
        rcases hI.pos with hin | ⟨d, hne, hcd, hp⟩
        · -- inside `pk`
          have hk : pk <+: cur ++ [c] := hin.trans (List.prefix_append _ _)
          cases hg : m.get (cur ++ [c]) with
          | none =>
            simp only
            split
            · obtain ⟨mt, hcur⟩ := hI.dir
              refine ⟨cur ++ [c], hk, .missing (by simp) mt hg (by rw [List.dropLast_concat]; exact hcur) ?_⟩
              simp [List.dropLast_concat]
            · exact ⟨pk, List.prefix_rfl, .err _ rfl⟩
          | some n =>
            cases n with
            | dir mt =>
              simp only
              exact ih hops (cur ++ [c]) rest ⟨⟨mt, hg⟩, hndr, Or.inl hk⟩
            | file ct mt =>
              simp only
              split
              · exact ⟨cur ++ [c], hk, .found _ hg rfl⟩
              · exact ⟨pk, List.prefix_rfl, .err _ rfl⟩
            | link t mt =>
              simp only
              split
              · exact ⟨cur ++ [c], hk, .found _ hg rfl⟩
              split
              · exact ⟨pk, List.prefix_rfl, .err _ rfl⟩
              split
              · exact ⟨pk, List.prefix_rfl, .err _ rfl⟩
              · obtain ⟨htd, htr⟩ := ht _ t mt hk hg
                apply ih
                have hnd : dotdot ∉ splitSep t ++ rest := by
                  intro h
                  rcases List.mem_append.mp h with h | h
                  · exact htd h
                  · exact hndr h
                by_cases hr : isRooted t = true
                · simp only [hr, if_true]
                  refine ⟨hd [] List.nil_prefix, hnd, ?_⟩
                  by_cases hpk : pk = []
                  · left; rw [hpk]; exact List.nil_prefix
                  · right
                    refine ⟨pk, hpk, by simp, ?_⟩
                    rw [strip_append]
                    exact (htr hr).trans (List.prefix_append _ _)
                · simp only [hr, if_false]
                  exact ⟨hI.dir, hnd, Or.inl hin⟩
        · -- still descending towards `pk`: `c` is its next component, a directory
          cases d with
          | nil => exact absurd rfl hne
          | cons c' d' =>
            rw [strip_cons_keep hc1'] at hp
            have hcc : c' = c := (List.cons_prefix_cons.mp hp).1
            subst hcc
            have hp' : d' <+: strip rest := (List.cons_prefix_cons.mp hp).2
            have hpre : cur ++ [c'] <+: pk := by
              rw [← hcd]
              exact ⟨d', by simp⟩
            obtain ⟨mt, hg⟩ := hd _ hpre
            rw [hg]
            simp only
            apply ih
            refine ⟨⟨mt, hg⟩, hndr, ?_⟩
            by_cases hd' : d' = []
            · left
              subst hd'
              rw [← hcd]
              exact List.prefix_rfl
            · right
              exact ⟨d', hd', by rw [← hcd]; simp, hp'⟩

/-- resolution of any text naming a key at or below `pk` ends at or below `pk`, or fails -/
theorem namei_inside (hpk : PKey pk) (hd : PrefDirs pk m) (ht : Tame pk m) {x : Key} (hx : PKey x)
    {t : Path} (htx : TextOf t (pk ++ x)) (f : Bool) :
    ∃ K, pk <+: K ∧ NC m K (namei m t f) := by
  obtain ⟨tl, hs, htl, _⟩ := splitSep_text (hpk.append hx) htx
  unfold namei
  simp only [htx.ne_nil, if_false, hs]
  apply walk_inside hd ht
  have htriv : ∀ c ∈ tl, c = [] ∨ c = dot := by
    intro c hc
    unfold trivialRest at htl
    simpa using List.all_eq_true.mp htl c hc
  refine ⟨hd [] List.nil_prefix, ?_, ?_⟩
  · intro h
    rcases List.mem_cons.mp h with h | h
    · cases h
    · rcases List.mem_append.mp h with h | h
      · exact ((hpk.append hx) _ h).2.2.2 rfl
      · rcases htriv _ h with e | e <;> cases e
  · by_cases hpe : pk = []
    · left; rw [hpe]; exact List.nil_prefix
    · right
      refine ⟨pk, hpe, by simp, ?_⟩
      rw [strip_cons_triv (by decide), strip_append, strip_pkey (hpk.append hx)]
      exact (List.prefix_append pk x).trans (List.prefix_append _ _)

end
end D
end BFS
