import Lemmas.TNOps2
/-!
  Lemmas/TNOps3.lean — transparency in the nested layering: Rename (`Lemmas/TOps4.lean` for
  `nestedCfg`).  Both names visible and neither an ancestor of the location (`Clear`): HiddenFS refuses
  a `Rename` whose old or new name is a (possibly missing) ancestor of a hidden path, on both sides
  (`Props.C04.rename_of_ancestor_refused`) — that case is `rename_refusedN` below.
-/
namespace BFS.N
open BackupFS MFS HiddenFS

section
variable {bk hk dd : Key}

/-- the guards of `HiddenFS.Rename` -/
def renameGuard (hs : List Path) (o n : Path) : Except Err Unit :=
  match hguard hs o .hiddenNotExist with
  | .error e => .error e
  | .ok () =>
    match isParentOfHidden o hs with
    | .error e => .error e
    | .ok true => .error .hiddenPerm
    | .ok false =>
      match hguard hs n .hiddenPerm with
      | .error e => .error e
      | .ok () =>
        match isParentOfHidden n hs with
        | .error e => .error e
        | .ok true => .error .hiddenPerm
        | .ok false => .ok ()

theorem translate_rename (hs : List Path) (o n : Path) :
    HiddenFS.translate hs (.rename o n) = (renameGuard hs o n).map (fun _ => Call.rename o n) := by
  unfold renameGuard
  simp only [HiddenFS.translate, bind, Except.bind, pure, Except.pure]
  cases hguard hs o .hiddenNotExist with
  | error e => rfl
  | ok u =>
    simp only
    cases isParentOfHidden o hs with
    | error e => rfl
    | ok b =>
      cases b with
      | true => rfl
      | false =>
        simp only
        cases hguard hs n .hiddenPerm with
        | error e => rfl
        | ok u2 =>
          simp only
          cases isParentOfHidden n hs with
          | error e => rfl
          | ok b2 => cases b2 <;> rfl

theorem renameGuard_spelling (hs : List Path) {o n : Path} {ko kn : Key} (ho : clean o = kp ko) (hn : clean n = kp kn) :
    renameGuard hs o n = renameGuard hs (kp ko) (kp kn) := by
  unfold renameGuard
  rw [hguard_spelling ho, hguard_spelling hn, isParent_spelling ho, isParent_spelling hn]

theorem nbase_rename_spelling (m : MFS) {o n : Path} {ko kn : Key} (hko : PKey ko) (hkn : PKey kn)
    (ho : clean o = kp ko) (hn : clean n = kp kn) :
    SpellEq ((nbase bk hk).call m (.rename o n)) ((nbase bk hk).call m (.rename (kp ko) (kp kn))) := by
  apply nbase_spell_gen (dd := bk) m (by intro p e; cases e) (by intro p e; cases e)
  · intro e
    rw [translate_rename, translate_rename, renameGuard_spelling _ ho hn]
    cases renameGuard (nhs hk) (kp ko) (kp kn) <;> simp [Except.map]
  · intro ci1 ci2 h1 h2
    rw [translate_rename] at h1 h2
    rw [renameGuard_spelling _ ho hn] at h1
    cases hg : renameGuard (nhs hk) (kp ko) (kp kn) with
    | error e => rw [hg] at h1; cases h1
    | ok u =>
      rw [hg] at h1 h2
      cases h1; cases h2
      exact base_rename_spelling (bk := bk) (kk := bk) m hko hkn ho hn

variable (h : NRoots bk hk dd) {v0 : View} {r0 : Option Node} {w : World}
include h

theorem rename_transpN {o n : Path} {ko kn : Key} (hinv : InvB (nSim bk hk dd h) v0 r0 w) (hko : PKey ko) (hkn : PKey kn)
    (hpo : Clear hk ko) (hpn : Clear hk kn) (ho : clean o = kp ko) (hn : clean n = kp kn) :
    Sat (Op.exec (nestedCfg bk hk) (.rename o n)) w
      (fun w' r => NTransp bk hk dd (FileAnc (nview bk hk .base w.fs) ko ∨ FileAnc (nview bk hk .base w.fs) kn) w' r
        (Op.direct (nbase bk hk) w.fs (.rename o n))) := by
  show Sat _ w (fun w' r => NTransp bk hk dd (FileAnc (nview bk hk .base w.fs) ko ∨ FileAnc (nview bk hk .base w.fs) kn) w' r
    (directUnit (nbase bk hk) w.fs (.rename o n)))
  have hd1 := directUnit_fst (nbase bk hk) w.fs (.rename o n)
  have hd2 := directUnit_snd (nbase bk hk) w.fs (.rename o n)
  have hsp := nbase_rename_spelling (bk := bk) (hk := hk) w.fs hko hkn ho hn
  rw [hsp.1] at hd1
  rw [map_const_of_noL DOut.unit hsp.2] at hd2
  have hu := nestedCfg_keeps_umask h
  -- a failed backup: the direct call fails too
  have hfailQ : ∀ w' : World, NTwin bk hk dd w'.fs w.fs →
      (FileAnc (nview bk hk .base w.fs) ko ∨ FileAnc (nview bk hk .base w.fs) kn) →
      NTransp bk hk dd (FileAnc (nview bk hk .base w.fs) ko ∨ FileAnc (nview bk hk .base w.fs) kn) w' (.error .typeMismatch)
        (directUnit (nbase bk hk) w.fs (.rename o n)) := by
    intro w' htw hfa
    obtain ⟨e, hcall, he⟩ := nbase_rename_fileAnc h hinv.good hko hkn hpo hpn hfa
    rw [hcall] at hd1 hd2
    refine ⟨?_, ?_⟩
    · rw [hd2]; exact Or.inr ⟨rfl, he, hfa⟩
    · rw [hd1]; exact htw
  unfold Op.exec BackupFS.rename
  apply Sat.bind
  apply Sat.bind
  apply ((sat_realPath (S := nSim bk hk dd h) hinv.good hko ho).and
    (sat_realPath_ok (S := nSim bk hk dd h) hinv.good hinv.nofault hko ho)).mono
  intro w1 r1 ⟨⟨hs1, hres1⟩, hok1⟩
  have hadv1 := AdvB.of_same hinv hs1
  obtain ⟨ro, hro⟩ := hok1
  subst hro
  have := hres1 ro rfl; subst this
  simp only
  apply Sat.bind
  apply ((sat_realPath (S := nSim bk hk dd h) hadv1.inv.good hkn hn).and
    (sat_realPath_ok (S := nSim bk hk dd h) hadv1.inv.good hadv1.inv.nofault hkn hn)).mono
  intro w2 r2 ⟨⟨hs2, hres2⟩, hok2⟩
  have hadv2 := hadv1.trans (AdvB.of_same hadv1.inv hs2)
  obtain ⟨rn, hrn⟩ := hok2
  subst hrn
  have := hres2 rn rfl; subst this
  simp only
  have hu2 : w2.fs.umask = w.fs.umask := by rw [hs2.fs, hs1.fs]
  apply Sat.bind
  apply ((sat_tryBackupT hadv2.inv hkn).and
    (show Sat (tryBackup (nestedCfg bk hk) (kp kn)) w2 (fun w' _ => w'.fs.umask = w2.fs.umask) from
      tryBackup_ku hu (kp kn) w2)).mono
  intro w3 r3 ⟨⟨hadv3', _, hfl3⟩, hu3'⟩
  have hadv3 := hadv2.trans hadv3'
  have hu3 : w3.fs.umask = w.fs.umask := hu3'.trans hu2
  cases r3 with
  | error e =>
    obtain ⟨he, hfa⟩ := hfl3 e rfl
    subst he
    apply hfailQ w3 (ntwin_of_adv h hinv hadv3 hu3)
    right
    have : (nSim bk hk dd h).view .base w2.fs = (nSim bk hk dd h).view .base w.fs := hadv2.base
    rw [show nview bk hk .base w.fs = (nSim bk hk dd h).view .base w.fs from rfl, ← this]
    exact hfa
  | ok u3 =>
    simp only
    apply Sat.bind
    apply ((sat_tryBackupT hadv3.inv hko).and
      (show Sat (tryBackup (nestedCfg bk hk) (kp ko)) w3 (fun w' _ => w'.fs.umask = w3.fs.umask) from
        tryBackup_ku hu (kp ko) w3)).mono
    intro w4 r4 ⟨⟨hadv4', _, hfl4⟩, hu4'⟩
    have hadv4 := hadv3.trans hadv4'
    have hu4 : w4.fs.umask = w.fs.umask := hu4'.trans hu3
    cases r4 with
    | error e =>
      obtain ⟨he, hfa⟩ := hfl4 e rfl
      subst he
      apply hfailQ w4 (ntwin_of_adv h hinv hadv4 hu4)
      left
      have : (nSim bk hk dd h).view .base w3.fs = (nSim bk hk dd h).view .base w.fs := hadv3.base
      rw [show nview bk hk .base w.fs = (nSim bk hk dd h).view .base w.fs from rfl, ← this]
      exact hfa
    | ok u4 =>
      simp only
      apply (sat_primUnit_nf (cfg := nestedCfg bk hk) (c := .rename (kp ko) (kp kn)) hadv4.inv.nofault).mono
      intro w5 r5 ⟨hfs5, hr5⟩
      have htw := ntwin_of_adv h hinv hadv4 hu4
      obtain ⟨hres, htw5⟩ := nbase_rename_rel h htw hko hkn hpo hpn
      have hfs5' : w5.fs = ((nbase bk hk).call w4.fs (.rename (kp ko) (kp kn))).1 := hfs5
      have hr5' : r5 = ((nbase bk hk).call w4.fs (.rename (kp ko) (kp kn))).2.map (fun _ => ()) := hr5
      rw [hres] at hr5'
      rw [← hfs5'] at htw5
      cases hc : ((nbase bk hk).call w.fs (.rename (kp ko) (kp kn))).2 with
      | error e =>
        rw [hc] at hr5' hd2
        subst hr5'
        exact ⟨by rw [hd2]; exact Or.inl rfl, by rw [hd1]; exact htw5⟩
      | ok a =>
        rw [hc] at hr5' hd2
        subst hr5'
        apply Sat.pure
        exact ⟨by rw [hd2]; rfl, by rw [hd1]; exact htw5⟩

/-- `Rename` one of whose names is at/below the location or an ancestor of it: refused on both sides,
nothing visible changes (the backup may have received copies first: `prepare` runs before the base
call).  The error is the refusal of HiddenFS on both sides — unless a regular file lies above one of
the names: then BackupFS reports `errDirInfoExpected` from the backup phase, before the base call. -/
theorem rename_refusedN {o n : Path} {ko kn : Key} (hinv : InvB (nSim bk hk dd h) v0 r0 w) (hko : PKey ko) (hkn : PKey kn)
    (ho : clean o = kp ko) (hn : clean n = kp kn)
    (hbad : hk <+: ko ∨ (ko <+: hk ∧ ko ≠ hk) ∨ hk <+: kn ∨ (kn <+: hk ∧ kn ≠ hk)) :
    Sat (Op.exec (nestedCfg bk hk) (.rename o n)) w
      (fun w' r => ∃ e1 e2, r = .error e1 ∧ (Op.direct (nbase bk hk) w.fs (.rename o n)).2 = .error e2 ∧
        (Op.direct (nbase bk hk) w.fs (.rename o n)).1 = w.fs ∧
        (e1 = e2 ∨ (e1 = .typeMismatch ∧
          (FileAnc (nview bk hk .base w.fs) ko ∨ FileAnc (nview bk hk .base w.fs) kn))) ∧
        NTwin bk hk dd w'.fs w.fs) := by
  obtain ⟨e, hr⟩ := refused_rename h (s := .base) hko hkn hbad
  have hr' : ∀ m, (nbase bk hk).call m (.rename (kp ko) (kp kn)) = (m, .error e) := hr
  show Sat _ w (fun w' r => ∃ e1 e2, r = .error e1 ∧ (directUnit (nbase bk hk) w.fs (.rename o n)).2 = .error e2 ∧
    (directUnit (nbase bk hk) w.fs (.rename o n)).1 = w.fs ∧ _ ∧ _)
  have hd1 := directUnit_fst (nbase bk hk) w.fs (.rename o n)
  have hd2 := directUnit_snd (nbase bk hk) w.fs (.rename o n)
  have hsp := nbase_rename_spelling (bk := bk) (hk := hk) w.fs hko hkn ho hn
  rw [hsp.1, hr'] at hd1
  rw [map_const_of_noL DOut.unit hsp.2, hr'] at hd2
  have hd2' : (directUnit (nbase bk hk) w.fs (.rename o n)).2 = .error e := hd2
  have hu := nestedCfg_keeps_umask h
  unfold Op.exec BackupFS.rename
  apply Sat.bind
  apply Sat.bind
  apply ((sat_realPath (S := nSim bk hk dd h) hinv.good hko ho).and
    (sat_realPath_ok (S := nSim bk hk dd h) hinv.good hinv.nofault hko ho)).mono
  intro w1 r1 ⟨⟨hs1, hres1⟩, hok1⟩
  have hadv1 := AdvB.of_same hinv hs1
  obtain ⟨ro, hro⟩ := hok1
  subst hro
  have := hres1 ro rfl; subst this
  simp only
  apply Sat.bind
  apply ((sat_realPath (S := nSim bk hk dd h) hadv1.inv.good hkn hn).and
    (sat_realPath_ok (S := nSim bk hk dd h) hadv1.inv.good hadv1.inv.nofault hkn hn)).mono
  intro w2 r2 ⟨⟨hs2, hres2⟩, hok2⟩
  have hadv2 := hadv1.trans (AdvB.of_same hadv1.inv hs2)
  obtain ⟨rn, hrn⟩ := hok2
  subst hrn
  have := hres2 rn rfl; subst this
  simp only
  have hu2 : w2.fs.umask = w.fs.umask := by rw [hs2.fs, hs1.fs]
  apply Sat.bind
  apply ((sat_tryBackupT hadv2.inv hkn).and
    (show Sat (tryBackup (nestedCfg bk hk) (kp kn)) w2 (fun w' _ => w'.fs.umask = w2.fs.umask) from
      tryBackup_ku hu (kp kn) w2)).mono
  intro w3 r3 ⟨⟨hadv3', _, hfl3⟩, hu3'⟩
  have hadv3 := hadv2.trans hadv3'
  have hu3 : w3.fs.umask = w.fs.umask := hu3'.trans hu2
  cases r3 with
  | error e3 =>
    obtain ⟨he, hfa⟩ := hfl3 e3 rfl
    subst he
    refine ⟨_, e, rfl, hd2', hd1, Or.inr ⟨rfl, Or.inr ?_⟩, ntwin_of_adv h hinv hadv3 hu3⟩
    have : (nSim bk hk dd h).view .base w2.fs = (nSim bk hk dd h).view .base w.fs := hadv2.base
    rw [show nview bk hk .base w.fs = (nSim bk hk dd h).view .base w.fs from rfl, ← this]
    exact hfa
  | ok u3 =>
    simp only
    apply Sat.bind
    apply ((sat_tryBackupT hadv3.inv hko).and
      (show Sat (tryBackup (nestedCfg bk hk) (kp ko)) w3 (fun w' _ => w'.fs.umask = w3.fs.umask) from
        tryBackup_ku hu (kp ko) w3)).mono
    intro w4 r4 ⟨⟨hadv4', _, hfl4⟩, hu4'⟩
    have hadv4 := hadv3.trans hadv4'
    have hu4 : w4.fs.umask = w.fs.umask := hu4'.trans hu3
    cases r4 with
    | error e4 =>
      obtain ⟨he, hfa⟩ := hfl4 e4 rfl
      subst he
      refine ⟨_, e, rfl, hd2', hd1, Or.inr ⟨rfl, Or.inl ?_⟩, ntwin_of_adv h hinv hadv4 hu4⟩
      have : (nSim bk hk dd h).view .base w3.fs = (nSim bk hk dd h).view .base w.fs := hadv3.base
      rw [show nview bk hk .base w.fs = (nSim bk hk dd h).view .base w.fs from rfl, ← this]
      exact hfa
    | ok u4 =>
      simp only
      apply (sat_primUnit_nf (cfg := nestedCfg bk hk) (c := .rename (kp ko) (kp kn)) hadv4.inv.nofault).mono
      intro w5 r5 ⟨hfs5, hr5⟩
      have hfs5' : w5.fs = ((nbase bk hk).call w4.fs (.rename (kp ko) (kp kn))).1 := hfs5
      have hr5' : r5 = ((nbase bk hk).call w4.fs (.rename (kp ko) (kp kn))).2.map (fun _ => ()) := hr5
      rw [hr'] at hfs5' hr5'
      subst hr5'
      refine ⟨e, e, rfl, hd2', hd1, Or.inl rfl, ?_⟩
      rw [hfs5']
      exact ntwin_of_adv h hinv hadv4 hu4

end

end BFS.N
