import Lemmas.HOTop
import Lemmas.PXEx
/-!
  Lemmas/HOEx.lean — Boolean checks on disks given by finite tables (`PX.ofList`) that imply the
  hypotheses of the C06 two-disk theorems (`WFB`, `Agr (Vis …)`, `SameHP`, `Shallow`), so that the
  non-vacuity examples are closed by `decide`.
-/
namespace BFS
namespace HO
open MFS D PX

def dirAt (tbl : List (Key × Node)) (p : Key) : Bool :=
  match tbl.lookup p with
  | some (.dir _) => true
  | _ => false

def wfEntry (tbl : List (Key × Node)) (e : Key × Node) : Bool :=
  decide (PKey e.1) && decide (e.2.meta.mode < 4096) && !e.2.isLink && (decide (e.1 = []) || dirAt tbl e.1.dropLast)

/-- a link-free table whose entries have plain names, legal modes and directory parents is `WFB` for
every root key -/
theorem wfb_check {pk : Key} {tbl : List (Key × Node)} {u : Nat} (hroot : dirAt tbl [] = true)
    (h : tbl.all (wfEntry tbl) = true) : WFB pk (ofList tbl u) := by
  have ent : ∀ k n, (ofList tbl u).get k = some n →
      PKey k ∧ n.meta.mode < 4096 ∧ n.isLink = false ∧ (k = [] ∨ dirAt tbl k.dropLast = true) := by
    intro k n hk
    have := List.all_eq_true.mp h (k, n) (lookup_some_mem hk)
    unfold wfEntry at this
    simp only [Bool.and_eq_true, decide_eq_true_eq, Bool.not_eq_true', Bool.or_eq_true] at this
    exact ⟨this.1.1.1, this.1.1.2, this.1.2, this.2⟩
  have dir_of : ∀ p, dirAt tbl p = true → ∃ mt, (ofList tbl u).get p = some (.dir mt) := by
    intro p hp
    unfold dirAt at hp
    split at hp
    · rename_i mt hm; exact ⟨mt, hm⟩
    · cases hp
  refine ⟨dir_of _ hroot, fun k n hk => (ent k n hk).1, ?_, fun k n hk => (ent k n hk).2.1, ?_, ?_⟩
  · intro k n hk
    exact domSup_ofList tbl u k (by rw [hk]; rfl)
  · intro k n hk hne
    rcases (ent k n hk).2.2.2 with e | e
    · exact absurd e hne
    · exact dir_of _ e
  · intro k t mt _ hk
    have := (ent k _ hk).2.2.1
    cases this

/-- disk keys at or below a hidden key, as a Boolean -/
def hidB (bk : Key) (hks : List Key) (K : Key) : Bool := hks.any (fun h => (bk ++ h).isPrefixOf K)

theorem hidD_iff {bk : Key} {hks : List Key} {K : Key} : HidD bk hks K ↔ ∃ h ∈ hks, bk ++ h <+: K := by
  constructor
  · rintro ⟨j, ⟨h, hm, hp⟩, rfl⟩
    exact ⟨h, hm, (List.prefix_append_right_inj bk).mpr hp⟩
  · rintro ⟨h, hm, ⟨t, rfl⟩⟩
    exact ⟨h ++ t, ⟨h, hm, List.prefix_append _ _⟩, by simp⟩

theorem hidB_iff {bk : Key} {hks : List Key} {K : Key} : hidB bk hks K = true ↔ HidD bk hks K := by
  rw [hidD_iff]
  unfold hidB
  rw [List.any_eq_true]
  constructor
  · rintro ⟨h, hm, hp⟩; exact ⟨h, hm, List.isPrefixOf_iff_prefix.mp hp⟩
  · rintro ⟨h, hm, hp⟩; exact ⟨h, hm, List.isPrefixOf_iff_prefix.mpr hp⟩

theorem agr_check {bk : Key} {hks : List Key} {t1 t2 : List (Key × Node)} {u : Nat}
    (h : (t1.map Prod.fst ++ t2.map Prod.fst).all
      (fun k => hidB bk hks k || decide (t1.lookup k = t2.lookup k)) = true) :
    Agr (Vis bk hks) (ofList t1 u) (ofList t2 u) := by
  refine ⟨?_, rfl⟩
  intro k hk
  show t1.lookup k = t2.lookup k
  by_cases hm : k ∈ t1.map Prod.fst ++ t2.map Prod.fst
  · have := List.all_eq_true.mp h k hm
    simp only [Bool.or_eq_true, decide_eq_true_eq] at this
    rcases this with h1 | h1
    · exact absurd (hidB_iff.mp h1) hk
    · exact h1
  · rw [List.mem_append, not_or] at hm
    rw [lookup_none_of_not_mem hm.1, lookup_none_of_not_mem hm.2]

/-- a hidden entry directly inside a visible directory is one of the hidden keys themselves -/
theorem hidden_child_is_root {bk : Key} {hks : List Key} {d : Key} {c : Name} (hd : Vis bk hks d)
    (hc : HidD bk hks (d ++ [c])) : ∃ h ∈ hks, d ++ [c] = bk ++ h := by
  obtain ⟨h, hm, hp⟩ := hidD_iff.mp hc
  refine ⟨h, hm, ?_⟩
  apply Classical.byContradiction
  intro hne
  have := prefix_dropLast hp (fun e => hne e.symm)
  rw [List.dropLast_concat] at this
  exact hd (hidD_iff.mpr ⟨h, hm, this⟩)

/-- the same hidden keys are present on both disks ⇒ `SameHP` -/
theorem sameHP_of_same_roots {bk : Key} {hks : List Key} {m1 m2 : MFS}
    (h : ∀ k ∈ hks, (m1.get (bk ++ k)).isSome = (m2.get (bk ++ k)).isSome) : SameHP bk hks m1 m2 := by
  constructor
  · intro d c hd hc hl
    obtain ⟨k, hm, e⟩ := hidden_child_is_root hd hc
    exact ⟨c, hc, by rw [e, ← h k hm, ← e]; exact hl⟩
  · intro d c hd hc hl
    obtain ⟨k, hm, e⟩ := hidden_child_is_root hd hc
    exact ⟨c, hc, by rw [e, h k hm, ← e]; exact hl⟩

theorem shallow_check {bk : Key} {hks : List Key} {tbl : List (Key × Node)} {u : Nat}
    (h : tbl.all (fun e => decide (e.1.length ≤ 63)) = true) : Shallow bk hks (ofList tbl u) := by
  intro j _ hl
  obtain ⟨n, hn⟩ := Option.isSome_iff_exists.mp hl
  have := List.all_eq_true.mp h (bk ++ j, n) (lookup_some_mem hn)
  simp only [decide_eq_true_eq, List.length_append] at this
  omega

end HO
end BFS
