import Lemmas.HiddenRC
import Lemmas.HLRB
/-!
  Lemmas/HLRC.lean — `HiddenFS.RemoveAll` over `S : L.LLSim cfg` (views with symlinks) with
  `D : HL.LSimDir S rt`, part (C): success.  A symlink met by the walk is `Remove`d like a file
  (`LSim.remove_ok` covers it), wherever it points.  If the argument exists and the walk's depth bound exceeds the height of the
  subtree below it, `RemoveAll` returns nil: every directory the second phase removes is empty
  when its turn comes (directories are removed deepest-first, the skipped ones — ancestors of hidden
  entries — are never inside a removed one).
-/
namespace BFS
namespace HL
open HiddenFS L

variable {cfg : Cfg}

/-- what one stretch of the walk (visiting keys in `P`) does: base entries outside `P` and all
directories keep their node; collected paths are new original directories in `P`; no duplicates
are introduced -/
structure Ok (S : LSim cfg) (m0 : MFS) (P : Key → Prop) (m : MFS) (a : List Path) (m' : MFS) (a' : List Path) :
    Prop where
  keep : ∀ j, (¬ P j ∨ (S.view .base m).isDirAt j) → S.view .base m' j = S.view .base m j
  origin : ∀ p ∈ a', p ∈ a ∨ ∃ j, P j ∧ PKey j ∧ p = kp j ∧ (S.view .base m0).isDirAt j
  nodup : a.Nodup → (∀ p ∈ a, ∀ j, PKey j → P j → p ≠ kp j) → a'.Nodup

theorem Ok.refl {S : LSim cfg} {m0 : MFS} {P : Key → Prop} (m : MFS) (a : List Path) : Ok S m0 P m a m a :=
  ⟨fun _ _ => rfl, fun _ hp => Or.inl hp, fun h _ => h⟩

theorem Ok.mono {S : LSim cfg} {m0 : MFS} {P P' : Key → Prop} {m m' : MFS} {a a' : List Path}
    (h : Ok S m0 P m a m' a') (hP : ∀ j, P j → P' j) : Ok S m0 P' m a m' a' := by
  refine ⟨?_, ?_, ?_⟩
  · intro j hj
    apply h.keep
    rcases hj with hj | hj
    · exact Or.inl (fun hp => hj (hP j hp))
    · exact Or.inr hj
  · intro p hp
    rcases h.origin p hp with h1 | ⟨j, h1, h2⟩
    · exact Or.inl h1
    · exact Or.inr ⟨j, hP j h1, h2⟩
  · intro hn hd
    exact h.nodup hn (fun p hp j hj hpj => hd p hp j hj (hP j hpj))

theorem Ok.trans {S : LSim cfg} {m0 : MFS} {P1 P2 P : Key → Prop} {m1 m2 m3 : MFS} {a1 a2 a3 : List Path}
    (h1 : Ok S m0 P1 m1 a1 m2 a2) (h2 : Ok S m0 P2 m2 a2 m3 a3) (hP1 : ∀ j, P1 j → P j)
    (hP2 : ∀ j, P2 j → P j) (hdis : ∀ j, P1 j → P2 j → False) : Ok S m0 P m1 a1 m3 a3 := by
  refine ⟨?_, ?_, ?_⟩
  · intro j hj
    rcases hj with hj | hj
    · rw [h2.keep j (Or.inl (fun hp => hj (hP2 j hp))), h1.keep j (Or.inl (fun hp => hj (hP1 j hp)))]
    · have e1 := h1.keep j (Or.inr hj)
      obtain ⟨mt, hd⟩ := hj
      rw [h2.keep j (Or.inr ⟨mt, e1.trans hd⟩), e1]
  · intro p hp
    rcases h2.origin p hp with h | ⟨j, hj, hr⟩
    · rcases h1.origin p h with h | ⟨j, hj, hr⟩
      · exact Or.inl h
      · exact Or.inr ⟨j, hP1 j hj, hr⟩
    · exact Or.inr ⟨j, hP2 j hj, hr⟩
  · intro hn hd
    apply h2.nodup (h1.nodup hn (fun p hp j hj hpj => hd p hp j hj (hP1 j hpj)))
    intro p hp j hj hpj
    rcases h1.origin p hp with h | ⟨j1, hj1, hpk1, rfl, _⟩
    · exact hd p h j hj (hP2 j hpj)
    · intro e
      have := kp_inj hpk1 hj e
      subst this
      exact hdis _ hj1 hpj

section
variable {S : LSim cfg} {rt : Key} {hs : List Path} {hks : List Key} {k : Key} {m0 : MFS}

theorem fsiLstat_some {m : MFS} {j : Key} {n : Node} (hg : S.G m) (hj : PKey j) (hv : S.view .base m j = some n) :
    ∃ i, fsiLstat (cfg.side .base) m (kp j) = (m, .ok i) ∧ InfoForL i n := by
  obtain ⟨i, hi, hf⟩ := S.lstat_some hg hj hv
  refine ⟨i, ?_, hf⟩
  unfold fsiLstat
  rw [hi]

theorem removable_of_nondir {m : MFS} {j : Key} {n : Node} (hv : S.view .base m j = some n)
    (hn : n.isDir = false) :
    (S.view .base m).isFileAt j ∨ isLinkAt (S.view .base m) j ∨
      ((S.view .base m).isDirAt j ∧ ¬ (S.view .base m).hasChild j) := by
  cases n with
  | file c mt => exact Or.inl ⟨c, mt, hv⟩
  | dir _ => cases hn
  | link t mt => exact Or.inr (Or.inl ⟨t, mt, hv⟩)

theorem hiddenRemoveFn_ok (H : HidKeys hs hks) (hne : k ≠ []) {m : MFS} {a : List Path}
    {j : Key} {i : Info} (h : WSt S rt hks k m0 m a) (hsh : Shrink S m0 m) (hj : PKey j) (hkj : k <+: j)
    (hinfo : ∃ n, S.view .base m j = some n ∧ InfoForL i n) :
    ∃ m1 a1, hiddenRemoveFn hs (cfg.side .base) m a (kp j) (some i) none = ((m1, a1), none) ∧
      (i.isDir = true → m1 = m) ∧ Ok S m0 (fun j' => j' = j) m a m1 a1 := by
  unfold hiddenRemoveFn
  simp only [isHidden_kp H hj]
  by_cases hh : HidK hks j
  · simp only [hh, decide_true]
    exact ⟨m, a, rfl, fun _ => rfl, Ok.refl _ _⟩
  · simp only [hh, decide_false]
    obtain ⟨n, hv, hf⟩ := hinfo
    cases hd : i.isDir with
    | true =>
      simp only [if_true]
      refine ⟨m, a ++ [kp j], rfl, fun _ => rfl, fun _ _ => rfl, ?_, ?_⟩
      · intro p hp
        rcases List.mem_append.mp hp with hp | hp
        · exact Or.inl hp
        · simp only [List.mem_singleton] at hp
          right
          refine ⟨j, rfl, hj, hp, ?_⟩
          obtain ⟨mt, hdir⟩ := isDirAt_of_info hv hf hd
          rcases hsh j with e | e
          · exact ⟨mt, e ▸ hdir⟩
          · rw [e] at hdir; cases hdir
      · intro hn hdj
        rw [List.nodup_append]
        refine ⟨hn, by simp, ?_⟩
        intro x hx y hy
        simp only [List.mem_singleton] at hy
        subst hy
        exact hdj x hx j hj rfl
    | false =>
      simp only [Bool.false_eq_true, if_false]
      have hvis : isHidden (kp j) hs = .ok false := by rw [isHidden_kp H hj]; simp [hh]
      rw [translate_remove_visible hvis]
      simp only
      have hnd : n.isDir = false := by rw [← infoForL_isDir hf]; exact hd
      have hjne := ne_nil_of_prefix hne hkj
      have hna : NoLinkAnc (S.view .base m) j := noLinkAnc_of_present S h.frame.good (by rw [hv]; simp)
      obtain ⟨m1, hc, _⟩ := S.remove_ok h.frame.good hj hjne (removable_of_nondir hv hnd)
      obtain ⟨_, _, hs1, _⟩ := S.remove_frame h.frame.good hj hjne hna hc
      rw [hc]
      refine ⟨m1, a, rfl, False.elim, ?_, fun _ hp => Or.inl hp, fun hn _ => hn⟩
      intro j' hj'
      apply hs1
      intro e
      subst e
      rcases hj' with hj' | ⟨mt, hdir⟩
      · exact hj' rfl
      · rw [hv] at hdir; cases hdir; cases hnd

def WalkRecOk (S : LSim cfg) (rt : Key) (hs : List Path) (hks : List Key) (k : Key) (m0 : MFS) (fuel : Nat) : Prop :=
  ∀ (m : MFS) (a : List Path) (j : Key) (info : Info),
    WSt S rt hks k m0 m a → Shrink S m0 m → PKey j → k <+: j →
    (∃ n, S.view .base m j = some n ∧ InfoForL info n) →
    (∀ j', j <+: j' → S.view .base m j' ≠ none → j'.length < j.length + fuel) →
    ∃ m' a',
      walkRec (fsiWalkOps (cfg.side .base)) (hiddenRemoveFn hs (cfg.side .base)) fuel m a (kp j) info = ((m', a'), none) ∧
      Ok S m0 (fun j' => j <+: j') m a m' a'

def WalkNamesOk (S : LSim cfg) (rt : Key) (hs : List Path) (hks : List Key) (k : Key) (m0 : MFS) (fuel : Nat) : Prop :=
  ∀ (names : List Name) (m : MFS) (a : List Path) (j : Key),
    (∀ n ∈ names, Plain n) → names.Nodup → WSt S rt hks k m0 m a → Shrink S m0 m → PKey j → k <+: j →
    (∀ n ∈ names, S.view .base m (j ++ [n]) ≠ none) →
    (∀ n ∈ names, ∀ j', j ++ [n] <+: j' → S.view .base m j' ≠ none → j'.length < j.length + 1 + fuel) →
    ∃ m' a',
      walkNames (fsiWalkOps (cfg.side .base)) (hiddenRemoveFn hs (cfg.side .base)) fuel m a (kp j) names = ((m', a'), none) ∧
      Ok S m0 (fun j' => ∃ n ∈ names, j ++ [n] <+: j') m a m' a'

theorem walkNamesOk_of_rec (D : LSimDir S rt) (H : HidKeys hs hks) (hne : k ≠ []) {fuel : Nat}
    (hrec : WalkRecOk S rt hs hks k m0 fuel) : WalkNamesOk S rt hs hks k m0 fuel := by
  intro names
  induction names with
  | nil =>
    intro m a j _ _ _ _ _ _ _ _
    rw [walkNames]
    exact ⟨m, a, rfl, (Ok.refl m a)⟩
  | cons n rest ih =>
    intro m a j hpl hnd h hsh hj hkj hex hht
    have hn : Plain n := hpl n (by simp)
    have hrest : ∀ x ∈ rest, Plain x := fun x hx => hpl x (List.mem_cons_of_mem _ hx)
    obtain ⟨hnr, hndr⟩ := List.nodup_cons.mp hnd
    have hj' : PKey (j ++ [n]) := hj.snoc hn
    have hkj' : k <+: j ++ [n] := hkj.trans (List.prefix_append _ _)
    rw [walkNames]
    simp only [join_kp hj hn]
    cases hv : S.view .base m (j ++ [n]) with
    | none => exact absurd hv (hex n (by simp))
    | some nd =>
      obtain ⟨fi, hls, hfi⟩ := fsiLstat_some h.frame.good hj' hv
      rw [show (fsiWalkOps (cfg.side .base)).lstat m (kp (j ++ [n])) = (m, .ok fi) from hls]
      simp only
      have hht1 : ∀ j', j ++ [n] <+: j' → S.view .base m j' ≠ none → j'.length < (j ++ [n]).length + fuel := by
        intro j' hp hv'
        have := hht n (by simp) j' hp hv'
        simp only [List.length_append, List.length_singleton]
        exact this
      obtain ⟨s2, a2, hw, hok1⟩ := hrec m a (j ++ [n]) fi h hsh hj' hkj' ⟨nd, hv, hfi⟩ hht1
      rw [hw]
      simp only
      have hsafe : WSt S rt hks k m0 s2 a2 := by
        have := ((walk_safe D H hne fuel).1 m a (j ++ [n]) fi h hj' hkj' ⟨nd, hv, hfi⟩).1
        rw [hw] at this
        exact this
      have hprog := ((walk_cov D H hne fuel).1 m a (j ++ [n]) fi s2 a2 h hsh hj' hkj' ⟨nd, hv, hfi⟩ hw).1
      have hex2 : ∀ x ∈ rest, S.view .base s2 (j ++ [x]) ≠ none := by
        intro x hx
        rw [hok1.keep _ (Or.inl (fun hp => hnr (by rw [snoc_prefix_snoc hp]; exact hx)))]
        exact hex x (List.mem_cons_of_mem _ hx)
      have hht2 : ∀ x ∈ rest, ∀ j', j ++ [x] <+: j' → S.view .base s2 j' ≠ none → j'.length < j.length + 1 + fuel := by
        intro x hx j' hp hv'
        apply hht x (List.mem_cons_of_mem _ hx) j' hp
        intro e
        exact hv' (hprog.shrink.none e)
      obtain ⟨m', a', hres, hok2⟩ := ih s2 a2 j hrest hndr hsafe (hsh.trans hprog.shrink) hj hkj hex2 hht2
      refine ⟨m', a', hres, hok1.trans hok2 ?_ ?_ ?_⟩
      · intro x hx; exact ⟨n, by simp, hx⟩
      · rintro x ⟨y, hy, hx⟩; exact ⟨y, List.mem_cons_of_mem _ hy, hx⟩
      · rintro x h1 ⟨y, hy, h2⟩
        have := snoc_prefix_common h1 h2
        subst this
        exact hnr hy

theorem walk_ok' (D : LSimDir S rt) (H : HidKeys hs hks) (hne : k ≠ []) :
    ∀ fuel, WalkRecOk S rt hs hks k m0 fuel ∧ WalkNamesOk S rt hs hks k m0 fuel
  | 0 => by
    have hrec : WalkRecOk S rt hs hks k m0 0 := by
      intro m a j info _ _ _ _ hinfo hht
      obtain ⟨n, hv, _⟩ := hinfo
      have := hht j (List.prefix_refl _) (by rw [hv]; simp)
      omega
    exact ⟨hrec, walkNamesOk_of_rec D H hne hrec⟩
  | fuel + 1 => by
    have ih := (walk_ok' D H hne fuel).2
    have hrec : WalkRecOk S rt hs hks k m0 (fuel + 1) := by
      intro m a j info h hsh hj hkj hinfo hht
      rw [walkRec]
      obtain ⟨m1, a1, hf, hsame, hok1⟩ := hiddenRemoveFn_ok H hne h hsh hj hkj hinfo
      have hfn := (hiddenRemoveFn_safe (info := some info) (err := none) D H hne h hj hkj
        (by intro i hi; cases hi; exact hinfo)).1
      rw [hf] at hfn ⊢
      simp only at hfn ⊢
      obtain ⟨n, hv, hfi⟩ := hinfo
      cases hd : info.isDir with
      | false =>
        simp only [Bool.not_false, if_true]
        exact ⟨m1, a1, rfl, hok1.mono (fun j' e => by rw [e]; exact List.prefix_refl _)⟩
      | true =>
        simp only [Bool.not_true, Bool.false_eq_true, if_false]
        have hsm := hsame hd
        subst hsm
        have hdir := isDirAt_of_info hv hfi hd
        obtain ⟨ns, hrd, hns, hpl, hnd⟩ := fsiReadDirNames_dir D hfn.frame.good hj hdir
        rw [show (fsiWalkOps (cfg.side .base)).readDirNames m1 (kp j) = (m1, .ok ns) from hrd]
        simp only
        have hht2 : ∀ x ∈ ns, ∀ j', j ++ [x] <+: j' → S.view .base m1 j' ≠ none → j'.length < j.length + 1 + fuel := by
          intro x _ j' hp hv'
          have := hht j' ((List.prefix_append _ _).trans hp) hv'
          omega
        obtain ⟨m', a', hres, hok2⟩ := ih ns m1 a1 j hpl hnd hfn hsh hj hkj (fun x hx => (hns x).mp hx) hht2
        refine ⟨m', a', hres, hok1.trans hok2 ?_ ?_ ?_⟩
        · intro x e; rw [e]; exact List.prefix_refl _
        · rintro x ⟨y, _, hx⟩; exact (List.prefix_append _ _).trans hx
        · rintro x e ⟨y, _, hx⟩
          rw [e] at hx
          exact not_snoc_prefix_self hx
    exact ⟨hrec, walkNamesOk_of_rec D H hne hrec⟩

/-! ### the second phase: every directory is empty when its turn comes -/

/-- every collected directory that will be removed is a live directory all of whose live children
are collected too -/
def DirsReady (S : LSim cfg) (hks : List Key) (m : MFS) (ds : List Path) : Prop :=
  ∀ j, PKey j → kp j ∈ ds → ¬ ParK hks j →
    (S.view .base m).isDirAt j ∧ ∀ n, S.view .base m (j ++ [n]) ≠ none → kp (j ++ [n]) ∈ ds

theorem hiddenRemoveDirs_ok (D : LSimDir S rt) (H : HidKeys hs hks) (hne : k ≠ []) :
    ∀ (ds : List Path) (m : MFS), Frame S rt (Touch hks (S.view .base m0) k) m0 m → DirsOK hks k ds →
      ds.Nodup → ds.Pairwise DeepFirst → DirsReady S hks m ds →
      (hiddenRemoveDirs hs (cfg.side .base) m ds).2 = .ok ()
  | [], m, _, _, _, _, _ => by
    rw [hiddenRemoveDirs]
  | d :: ds, m, h, hd, hnd, hpw, hrdy => by
    obtain ⟨j0, hj0, hkj, hh, rfl⟩ := hd d (by simp)
    have hds : DirsOK hks k ds := fun p hp => hd p (List.mem_cons_of_mem _ hp)
    obtain ⟨hnm, hnd'⟩ := List.nodup_cons.mp hnd
    obtain ⟨hhead, hpw'⟩ := List.pairwise_cons.mp hpw
    rw [hiddenRemoveDirs]
    simp only [isParentOfHidden_kp H hj0]
    by_cases hp : ParK hks j0
    · simp only [hp, decide_true]
      apply hiddenRemoveDirs_ok D H hne ds m h hds hnd' hpw'
      intro j hj hm hnp
      obtain ⟨hdir, hch⟩ := hrdy j hj (List.mem_cons_of_mem _ hm) hnp
      refine ⟨hdir, ?_⟩
      intro n hv
      rcases List.mem_cons.mp (hch n hv) with e | hm'
      · exfalso
        have := kp_inj (S.pkey h.good hv) hj0 e
        rw [← this] at hp
        exact hnp (parK_of_child hp)
      · exact hm'
    · simp only [hp, decide_false]
      obtain ⟨hdir0, hch0⟩ := hrdy j0 hj0 (by simp) hp
      have hjne := ne_nil_of_prefix hne hkj
      have hnoch : ¬ (S.view .base m).hasChild j0 := by
        rintro ⟨n, hv⟩
        have hpk := S.pkey h.good hv
        rcases List.mem_cons.mp (hch0 n hv) with e | hm'
        · have := kp_inj hpk hj0 e
          have := congrArg List.length this
          simp at this
        · have := hhead _ hm' j0 (j0 ++ [n]) hj0 hpk rfl rfl
          simp at this
          omega
      obtain ⟨m1, hc, hn1⟩ := S.remove_ok h.good hj0 hjne (Or.inr (Or.inr ⟨hdir0, hnoch⟩))
      have hna : NoLinkAnc (S.view .base m) j0 := by
        obtain ⟨mt, e⟩ := hdir0
        exact noLinkAnc_of_present S h.good (by rw [e]; simp)
      obtain ⟨_, _, hs1, _⟩ := S.remove_frame h.good hj0 hjne hna hc
      have ht : Touch hks (S.view .base m0) k j0 := ⟨hkj, hh, fun hc => hp hc.1⟩
      have hfr := (h.remove D hj0 hjne ht hna hc).1
      rw [hc]
      simp only
      apply hiddenRemoveDirs_ok D H hne ds m1 hfr hds hnd' hpw'
      intro j hj hm hnp
      have hjj0 : j ≠ j0 := by intro e; subst e; exact hnm hm
      obtain ⟨hdir, hch⟩ := hrdy j hj (List.mem_cons_of_mem _ hm) hnp
      refine ⟨?_, ?_⟩
      · obtain ⟨mt, e⟩ := hdir
        exact ⟨mt, (hs1 j hjj0).trans e⟩
      · intro n hv
        have hne0 : j ++ [n] ≠ j0 := by
          intro e
          rw [e, hn1] at hv
          exact hv rfl
        rw [hs1 _ hne0] at hv
        rcases List.mem_cons.mp (hch n hv) with e | hm'
        · exact absurd (kp_inj (S.pkey h.good hv) hj0 e) hne0
        · exact hm'

/-! ### `HiddenFS.RemoveAll` returns nil -/

/-- (C) success of `HiddenFS.RemoveAll`: if the argument exists, is not hidden, and the depth bound
of the walk exceeds the height of the subtree below it, the result is nil — whatever symlinks the
subtree contains (an existing argument has no symlink among its proper ancestors). -/
theorem hiddenRemoveAll_ok (S : LSim cfg) {rt : Key} (D : LSimDir S rt) {hs : List Path} {hks : List Key}
    (H : HidKeys hs hks) {k : Key} (hk : PKey k) (hne : k ≠ []) {m : MFS} (hg : S.G m) (fuel : Nat)
    (hvis : ¬ HidK hks k) (hex : S.view .base m k ≠ none)
    (hht : ∀ j, k <+: j → S.view .base m j ≠ none → j.length < k.length + fuel) :
    (hiddenRemoveAll hs (cfg.side .base) fuel m (kp k)).2 = .ok () := by
  unfold hiddenRemoveAll
  have h0 : WSt S rt hks k m m [] :=
    ⟨Frame.refl hg, (by intro p hp; cases hp), (by intro j _ hp; cases hp)⟩
  have hv' : isHidden (kp k) hs = .ok false := by rw [isHidden_kp H hk]; simp [hvis]
  rw [hguard_of_visible _ hv']
  simp only
  cases hv : S.view .base m k with
  | none => exact absurd hv hex
  | some n =>
    obtain ⟨i, hi, hf⟩ := S.lstat_some hg hk hv
    rw [hi]
    simp only
    cases hd : i.isDir with
    | false =>
      simp only [Bool.not_false, if_true]
      have hnd : n.isDir = false := by rw [← infoForL_isDir hf]; exact hd
      obtain ⟨m1, hc, _⟩ := S.remove_ok hg hk hne (removable_of_nondir hv hnd)
      rw [hc]
    | true =>
      simp only [Bool.not_true, Bool.false_eq_true, if_false]
      unfold walkTree
      obtain ⟨fi, hls, hfi⟩ := fsiLstat_some hg hk hv
      rw [show (fsiWalkOps (cfg.side .base)).lstat m (kp k) = (m, .ok fi) from hls]
      simp only
      obtain ⟨s2, a2, hw, hok⟩ := (walk_ok' D H hne fuel).1 m [] k fi h0 (Shrink.refl _) hk (List.prefix_refl _)
        ⟨n, hv, hfi⟩ hht
      have hsafe : WSt S rt hks k m s2 a2 := by
        have := ((walk_safe D H hne fuel).1 m [] k fi h0 hk (List.prefix_refl _) ⟨n, hv, hfi⟩).1
        rw [hw] at this
        exact this
      obtain ⟨hprog, hcov⟩ := (walk_cov D H hne fuel).1 m [] k fi s2 a2 h0 (Shrink.refl _) hk (List.prefix_refl _)
        ⟨n, hv, hfi⟩ hw
      rw [hw]
      simp only
      have hperm := sortBy_perm (fun a b => lessFPS b a) a2
      apply hiddenRemoveDirs_ok D H hne (sortMost a2) s2 hsafe.frame (dirsOK_sortMost hsafe.dirs)
      · exact (hperm.nodup_iff).mpr (hok.nodup (by simp) (by intro p hp; cases hp))
      · exact sortMost_kp_pairwise a2
      · intro j hj hm hnp
        have hm2 : kp j ∈ a2 := hperm.mem_iff.mp hm
        obtain ⟨j1, hj1, hkj1, hh1, e1⟩ := hsafe.dirs _ hm2
        have := kp_inj hj hj1 e1
        subst this
        have hdir0 : (S.view .base m).isDirAt j := by
          rcases hok.origin _ hm2 with hx | ⟨j2, _, hj2, e2, hd2⟩
          · cases hx
          · have := kp_inj hj hj2 e2
            subst this
            exact hd2
        refine ⟨?_, ?_⟩
        · obtain ⟨mt, e⟩ := hdir0
          exact ⟨mt, (hok.keep j (Or.inr ⟨mt, e⟩)).trans e⟩
        · intro x hvx
          rcases hcov (j ++ [x]) (hkj1.trans (List.prefix_append _ _)) with hc | hc | ⟨_, hc⟩
          · rcases hidK_or_parK_of_child hc with h1 | h1
            · exact absurd h1 hh1
            · exact absurd h1 hnp
          · exact absurd hc hvx
          · exact hperm.mem_iff.mpr hc

end

end HL
end BFS
