import Lemmas.Sim
import Lemmas.Sat
import Lemmas.KP
/-!
  Lemmas/NSim.lean — the contract `Sim` (Lemmas/Sim.lean) generalised to filesystems one side of
  which *masks* part of its tree (the `HiddenFS` base of the README layering, `NewWithFS`).

  `N.Sim cfg` is `Sim cfg` plus two predicates per side:
  * `Hid s k` — key `k` is a hidden entry or lies below one: the view shows nothing there and
    every call naming it is refused;
  * `Par s k` — key `k` is a proper ancestor of a hidden entry: it is a directory in every
    well-formed state, `Remove` fails on it (not empty) and `RemoveAll` spares it.
  The frame laws are those of `Sim` (a refused call changes nothing); the success laws for
  creation (`openW_none`, `mkdirAll_ok`) ask for `¬ Hid`, those for removal (`remove_ok`,
  `removeAll_ok`) for `¬ Par`; `removeAll_ok` is only claimed for a key with nothing below it
  (what `restoreFile` needed while it made room with `RemoveAll`; since the C13 fix it uses `Remove`
  and `Lemmas/NRestore.lean` needs `remove_ok` only; `HiddenFS.RemoveAll` is a depth-bounded walk).
-/
namespace BFS.N

structure Sim (cfg : Cfg) where
  /-- well-formed disk states: the ones the laws speak about -/
  G : MFS → Prop
  view : Side → MFS → View
  /-- handle `h` of side `s` refers to key `k` -/
  H : Side → Handle → Key → Prop
  /-- hidden or below a hidden entry -/
  Hid : Side → Key → Prop
  /-- proper ancestor of a hidden entry -/
  Par : Side → Key → Prop
  hid_none : ∀ {m s k}, G m → Hid s k → view s m k = none
  par_dir : ∀ {m s k}, G m → Par s k → (view s m).isDirAt k
  -- static facts of well-formed states
  root_dir : ∀ {m s}, G m → (view s m).isDirAt []
  parent_dir : ∀ {m s k}, G m → view s m k ≠ none → k ≠ [] → (view s m).isDirAt k.dropLast
  pkey : ∀ {m s k}, G m → view s m k ≠ none → PKey k
  no_link : ∀ {m s k t mt}, G m → view s m k ≠ some (.link t mt)
  mode_lt : ∀ {m s k n}, G m → view s m k = some n → n.meta.mode < 4096
  erased : ∀ {m s k mt}, G m → view s m k = some (.dir mt) → mt.mtime = .fresh
  -- read-only calls never change the disk (any argument)
  pure_lstat : ∀ {m s p m' r}, (cfg.side s).call m (.lstat p) = (m', r) → m' = m
  pure_stat : ∀ {m s p m' r}, (cfg.side s).call m (.stat p) = (m', r) → m' = m
  pure_readlink : ∀ {m s p m' r}, (cfg.side s).call m (.readlink p) = (m', r) → m' = m
  pure_open : ∀ {m s p m' r}, (cfg.side s).call m (.open_ p) = (m', r) → m' = m
  pure_openRO : ∀ {m s p perm m' r}, (cfg.side s).call m (.openFile p O_RDONLY perm) = (m', r) → m' = m
  /-- a handle carries the flags it was opened with -/
  openFile_flag : ∀ {m s p flag perm m' h}, (cfg.side s).call m (.openFile p flag perm) = (m', .ok (.handle h)) →
    h.flag = flag
  -- Lstat
  lstat_some : ∀ {m s k n}, G m → PKey k → view s m k = some n →
    ∃ i, (cfg.side s).call m (.lstat (kp k)) = (m, .ok (.info i)) ∧ InfoFor i n
  lstat_none : ∀ {m s k}, G m → PKey k → view s m k = none →
    ∃ e, (cfg.side s).call m (.lstat (kp k)) = (m, .error e) ∧ e.isNotFound = true
  -- Open (read-only)
  open_some : ∀ {m s k}, G m → PKey k → (view s m).isFileAt k ∨ (view s m).isDirAt k →
    ∃ h, (cfg.side s).call m (.open_ (kp k)) = (m, .ok (.handle h)) ∧ H s h k ∧ h.flag = O_RDONLY
  open_handle : ∀ {m s k m' h}, G m → PKey k → (cfg.side s).call m (.open_ (kp k)) = (m', .ok (.handle h)) →
    H s h k ∧ h.flag = O_RDONLY
  -- Create / OpenFile: frame for any flags, exact effect for `wflags`
  create_frame : ∀ {m s k m' r}, G m → PKey k → (cfg.side s).call m (.create (kp k)) = (m', r) →
    G m' ∧ view s.other m' = view s.other m ∧ (∀ j, j ≠ k → view s m' j = view s m j) ∧
      (∀ h, r = .ok (.handle h) → H s h k ∧ h.flag = wflags)
  openFile_frame : ∀ {m s k flag perm m' r}, G m → PKey k →
    (cfg.side s).call m (.openFile (kp k) flag perm) = (m', r) →
    G m' ∧ view s.other m' = view s.other m ∧ (∀ j, j ≠ k → view s m' j = view s m j) ∧
      (∀ h, r = .ok (.handle h) → H s h k)
  openW_file : ∀ {m s k perm c mt}, G m → PKey k → view s m k = some (.file c mt) →
    ∃ m' h, (cfg.side s).call m (.openFile (kp k) wflags perm) = (m', .ok (.handle h)) ∧
      view s m' k = some (.file "" { mt with mtime := .fresh })
  openW_none : ∀ {m s k perm}, G m → PKey k → ¬ Hid s k → view s m k = none → (view s m).parentDir k →
    ∃ m' h mt, (cfg.side s).call m (.openFile (kp k) wflags perm) = (m', .ok (.handle h)) ∧
      view s m' k = some (.file "" mt)
  openW_post : ∀ {m s k perm m' h}, G m → PKey k →
    (cfg.side s).call m (.openFile (kp k) wflags perm) = (m', .ok (.handle h)) →
    ∃ mt, view s m' k = some (.file "" mt)
  -- handle primitives
  hwrite_ro : ∀ {m s h off d}, MFS.accessMode h.flag = 0 → (cfg.side s).hwrite m h off d = (m, .error .other)
  hwrite_frame : ∀ {m s h k off d m' r}, G m → H s h k → (cfg.side s).hwrite m h off d = (m', r) →
    G m' ∧ view s.other m' = view s.other m ∧ (∀ j, j ≠ k → view s m' j = view s m j)
  hwrite_file : ∀ {m s h k off d c mt}, G m → H s h k → MFS.accessMode h.flag ≠ 0 →
    view s m k = some (.file c mt) →
    ∃ m' t, (cfg.side s).hwrite m h off d = (m', .ok ()) ∧
      view s m' k = some (.file (if d.isEmpty then c else MFS.applyWrite h.flag c off d) { mt with mtime := t })
  hread_file : ∀ {m s h k c mt}, G m → H s h k → MFS.accessMode h.flag ≠ 1 →
    view s m k = some (.file c mt) → (cfg.side s).hread m h = .ok c
  hstat_some : ∀ {m s h k n}, G m → H s h k → view s m k = some n →
    ∃ i, (cfg.side s).hstat m h = .ok i ∧ InfoFor i n
  readdir_plain : ∀ {m s h k ns}, G m → H s h k → (cfg.side s).hreaddirnames m h = .ok ns → ∀ n ∈ ns, Plain n
  -- Mkdir / MkdirAll
  mkdir_frame : ∀ {m s k perm m' r}, G m → PKey k → (cfg.side s).call m (.mkdir (kp k) perm) = (m', r) →
    G m' ∧ view s.other m' = view s.other m ∧ (∀ j, j ≠ k → view s m' j = view s m j)
  mkdirAll_frame : ∀ {m s k perm m' r}, G m → PKey k → (cfg.side s).call m (.mkdirAll (kp k) perm) = (m', r) →
    G m' ∧ view s.other m' = view s.other m ∧ (∀ j, ¬ j <+: k → view s m' j = view s m j) ∧
      (∀ j, (view s m).isFileAt j → view s m' j = view s m j) ∧
      (r = .ok .unit → (view s m').isDirAt k)
  mkdirAll_ok : ∀ {m s k perm}, G m → PKey k → ¬ Hid s k → k = [] ∨ (view s m).parentDir k →
    view s m k = none ∨ (view s m).isDirAt k →
    ∃ m', (cfg.side s).call m (.mkdirAll (kp k) perm) = (m', .ok .unit) ∧
      (∀ j, j ≠ k → view s m' j = view s m j) ∧ ((view s m).isDirAt k → view s m' k = view s m k)
  -- Remove / RemoveAll
  remove_frame : ∀ {m s k m' r}, G m → PKey k → k ≠ [] → (cfg.side s).call m (.remove (kp k)) = (m', r) →
    G m' ∧ view s.other m' = view s.other m ∧ (∀ j, j ≠ k → view s m' j = view s m j)
  remove_ok : ∀ {m s k}, G m → PKey k → k ≠ [] → ¬ Par s k →
    (view s m).isFileAt k ∨ ((view s m).isDirAt k ∧ ¬ (view s m).hasChild k) →
    ∃ m', (cfg.side s).call m (.remove (kp k)) = (m', .ok .unit) ∧ view s m' k = none
  removeAll_frame : ∀ {m s k m' r}, G m → PKey k → k ≠ [] → (cfg.side s).call m (.removeAll (kp k)) = (m', r) →
    G m' ∧ view s.other m' = view s.other m ∧ (∀ j, ¬ k <+: j → view s m' j = view s m j)
  /-- `RemoveAll` of an entry with nothing below it -/
  removeAll_ok : ∀ {m s k}, G m → PKey k → k ≠ [] → ¬ Par s k → view s m k ≠ none →
    (∀ j, k <+: j → j ≠ k → view s m j = none) →
    ∃ m', (cfg.side s).call m (.removeAll (kp k)) = (m', .ok .unit) ∧ view s m' k = none
  -- Rename
  rename_frame : ∀ {m s ko kn m' r}, G m → PKey ko → PKey kn →
    (cfg.side s).call m (.rename (kp ko) (kp kn)) = (m', r) →
    G m' ∧ view s.other m' = view s.other m ∧
      (¬ ((view s m).isDirAt ko ∧ (view s m).hasChild ko) → ∀ j, j ≠ ko → j ≠ kn → view s m' j = view s m j)
  -- metadata
  chmod_frame : ∀ {m s k mode m' r}, G m → PKey k → (cfg.side s).call m (.chmod (kp k) mode) = (m', r) →
    G m' ∧ view s.other m' = view s.other m ∧ (∀ j, j ≠ k → view s m' j = view s m j)
  chmod_some : ∀ {m s k mode n}, G m → PKey k → view s m k = some n →
    ∃ m', (cfg.side s).call m (.chmod (kp k) mode) = (m', .ok .unit) ∧
      view s m' k = some (n.setMeta { n.meta with mode := mode &&& 0o7777 })
  chown_frame : ∀ {m s k u g m' r}, G m → PKey k → (cfg.side s).call m (.chown (kp k) u g) = (m', r) →
    G m' ∧ view s.other m' = view s.other m ∧ (∀ j, j ≠ k → view s m' j = view s m j)
  chown_some : ∀ {m s k u g n}, G m → PKey k → view s m k = some n →
    ∃ m', (cfg.side s).call m (.chown (kp k) u g) = (m', .ok .unit) ∧ view s m' k = some (chownNode n u g)
  lchown_frame : ∀ {m s k u g m' r}, G m → PKey k → (cfg.side s).call m (.lchown (kp k) u g) = (m', r) →
    G m' ∧ view s.other m' = view s.other m ∧ (∀ j, j ≠ k → view s m' j = view s m j)
  chtimes_frame : ∀ {m s k a t m' r}, G m → PKey k → (cfg.side s).call m (.chtimes (kp k) a t) = (m', r) →
    G m' ∧ view s.other m' = view s.other m ∧ (∀ j, j ≠ k → view s m' j = view s m j)
  chtimes_file : ∀ {m s k a t c mt}, G m → PKey k → view s m k = some (.file c mt) →
    ∃ m', (cfg.side s).call m (.chtimes (kp k) a t) = (m', .ok .unit) ∧
      view s m' k = some (.file c { mt with mtime := t })
  chtimes_dir : ∀ {m s k a t}, G m → PKey k → (view s m).isDirAt k →
    ∃ m', (cfg.side s).call m (.chtimes (kp k) a t) = (m', .ok .unit) ∧ view s m' k = view s m k

end BFS.N
