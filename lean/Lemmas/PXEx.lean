import Lemmas.PXLink
/-!
  Lemmas/PXEx.lean — example disks given by finite tables, with Boolean checks that imply the
  hypotheses of the C05 disk-level theorems (`DomSup`, `PrefDirs`, `Tame`, `AgreeIn`), so that the
  non-vacuity examples are closed by `decide`.
-/
namespace BFS
namespace PX
open MFS D

/-- a disk given by a finite table (first entry for a key wins) -/
def ofList (tbl : List (Key × Node)) (umask : Nat := 0o022) : MFS where
  get := fun k => tbl.lookup k
  dom := tbl.map Prod.fst
  umask := umask

theorem lookup_some_mem {tbl : List (Key × Node)} {k : Key} {n : Node} (h : tbl.lookup k = some n) :
    (k, n) ∈ tbl := by
  induction tbl with
  | nil => cases h
  | cons e tl ih =>
    obtain ⟨k0, n0⟩ := e
    rw [List.lookup_cons] at h
    by_cases hk : k = k0
    · subst hk
      simp only [beq_self_eq_true] at h
      cases h
      exact List.mem_cons_self
    · have : (k == k0) = false := by simpa using hk
      rw [this] at h
      exact List.mem_cons_of_mem _ (ih h)

theorem lookup_none_of_not_mem {tbl : List (Key × Node)} {k : Key} (h : k ∉ tbl.map Prod.fst) :
    tbl.lookup k = none := by
  cases hl : tbl.lookup k with
  | none => rfl
  | some n =>
    exfalso
    apply h
    rw [List.mem_map]
    exact ⟨(k, n), lookup_some_mem hl, rfl⟩

theorem domSup_ofList (tbl : List (Key × Node)) (u : Nat) : DomSup (ofList tbl u) := by
  intro k hk
  obtain ⟨n, hn⟩ := Option.isSome_iff_exists.mp hk
  show k ∈ tbl.map Prod.fst
  rw [List.mem_map]
  exact ⟨(k, n), lookup_some_mem hn, rfl⟩

def isDirAt (m : MFS) (p : Key) : Bool :=
  match m.get p with
  | some (.dir _) => true
  | _ => false

theorem prefDirs_check {pk : Key} {m : MFS}
    (h : (List.range (pk.length + 1)).all (fun i => isDirAt m (pk.take i)) = true) : PrefDirs pk m := by
  intro p hp
  have hlen := hp.length_le
  have := List.all_eq_true.mp h p.length (List.mem_range.mpr (by omega))
  rw [← List.prefix_iff_eq_take.mp hp] at this
  unfold isDirAt at this
  split at this
  · rename_i mt hm
    exact ⟨mt, hm⟩
  · cases this

/-- all proper prefixes of `K` are live directories -/
theorem properDirs_check {K : Key} {m : MFS}
    (h : (List.range K.length).all (fun i => isDirAt m (K.take i)) = true) :
    ∀ p, p <+: K → p ≠ K → ∃ mt, m.get p = some (.dir mt) := by
  intro p hp hne
  have hlen : p.length < K.length := by
    rcases Nat.lt_or_ge p.length K.length with h1 | h1
    · exact h1
    · exact absurd (List.IsPrefix.eq_of_length_le hp h1) hne
  have := List.all_eq_true.mp h p.length (List.mem_range.mpr hlen)
  rw [← List.prefix_iff_eq_take.mp hp] at this
  unfold isDirAt at this
  split at this
  · rename_i mt hm
    exact ⟨mt, hm⟩
  · cases this

def tameEntry (pk : Key) (e : Key × Node) : Bool :=
  match e.2 with
  | .link t _ => !pk.isPrefixOf e.1 || decide (TameTarget pk t)
  | _ => true

theorem tame_check {pk : Key} {tbl : List (Key × Node)} {u : Nat} (h : tbl.all (tameEntry pk) = true) :
    Tame pk (ofList tbl u) := by
  intro k t mt hk hl
  have := List.all_eq_true.mp h (k, .link t mt) (lookup_some_mem hl)
  unfold tameEntry at this
  simp only [Bool.or_eq_true, Bool.not_eq_true', decide_eq_true_eq] at this
  rcases this with h1 | h1
  · rw [List.isPrefixOf_iff_prefix.mpr hk] at h1; cases h1
  · exact h1

theorem agreeIn_check {pk : Key} {t1 t2 : List (Key × Node)} {u1 u2 : Nat}
    (h : (t1.map Prod.fst ++ t2.map Prod.fst).all
      (fun k => !pk.isPrefixOf k || decide (t1.lookup k = t2.lookup k)) = true) :
    AgreeIn pk (ofList t1 u1) (ofList t2 u2) := by
  intro k hk
  show t1.lookup k = t2.lookup k
  by_cases hm : k ∈ t1.map Prod.fst ++ t2.map Prod.fst
  · have := List.all_eq_true.mp h k hm
    simp only [Bool.or_eq_true, Bool.not_eq_true', decide_eq_true_eq] at this
    rcases this with h1 | h1
    · rw [List.isPrefixOf_iff_prefix.mpr hk] at h1; cases h1
    · exact h1
  · rw [List.mem_append, not_or] at hm
    rw [lookup_none_of_not_mem hm.1, lookup_none_of_not_mem hm.2]

end PX
end BFS
