import Lemmas.F16Str
/-!
  Lemmas/F16Walk.lean — the kernel side of the flat fragment.

  * `walk_indep`   : kernel name resolution over a key without symlinks among its proper prefixes does
    not depend on the fuel and hop budget;
  * `nf`, `namei_kp_nf` : the canonical (budget-free) outcome for such a key is what `namei` returns;
  * `walk_target`  : walking the raw text of a symlink target whose `..` components are applied at
    live directories (`ddOK`) and whose lexical effective target contains no symlink ends exactly
    where the lexical computation ends (`lexK`) — or fails with the error the canonical walk over the
    lexical target gives.
-/
namespace BFS
namespace F16
open MFS

theorem trivialRest_append (a b : List Name) : trivialRest (a ++ b) = (trivialRest a && trivialRest b) := by
  unfold trivialRest
  simp [List.all_append]

theorem trivialRest_pkey {S : List Name} (h : PKey S) (hne : S ≠ []) : trivialRest S = false := by
  cases S with
  | nil => exact absurd rfl hne
  | cons c r => exact trivialRest_plain_cons (h c (by simp)) r

theorem walk_dd (m : MFS) (f : Bool) (fuel hops : Nat) (cur : Key) (rest : List Name) :
    walk m f (fuel + 1) hops cur (dotdot :: rest) = walk m f fuel hops (parentKey cur) rest := by
  rw [walk]
  have : (dotdot = [] || dotdot = dot) = false := by decide
  simp only [this, Bool.false_eq_true, if_false, if_true]

/-- without symlinks among the proper prefixes, the outcome does not depend on fuel and hops -/
theorem walk_indep (m : MFS) : ∀ (ds : List Name) (cur : Key) (fuel fuel' hops hops' : Nat), PKey ds →
    (∀ p, p <+: ds → p ≠ [] → p ≠ ds → ∀ t mt, m.get (cur ++ p) ≠ some (.link t mt)) →
    ds.length < fuel → ds.length < fuel' →
    walk m false fuel hops cur ds = walk m false fuel' hops' cur ds
  | [], cur, fuel, fuel', hops, hops', _, _, h1, h2 => by
    obtain ⟨g, rfl⟩ : ∃ g, fuel = g + 1 := ⟨fuel - 1, by simp at h1; omega⟩
    obtain ⟨g', rfl⟩ : ∃ g', fuel' = g' + 1 := ⟨fuel' - 1, by simp at h2; omega⟩
    rw [walk_nil, walk_nil]
  | c :: ds, cur, fuel, fuel', hops, hops', hp, hnl, h1, h2 => by
    obtain ⟨g, rfl⟩ : ∃ g, fuel = g + 1 := ⟨fuel - 1, by simp at h1; omega⟩
    obtain ⟨g', rfl⟩ : ∃ g', fuel' = g' + 1 := ⟨fuel' - 1, by simp at h2; omega⟩
    have hc : Plain c := hp c (by simp)
    rw [walk_step m false g hops cur hc, walk_step m false g' hops' cur hc]
    cases hk : m.get (cur ++ [c]) with
    | none => rfl
    | some n =>
      cases n with
      | file ct mt => rfl
      | dir mt =>
        simp only
        apply walk_indep m ds (cur ++ [c]) g g' hops hops' (fun n hn => hp n (List.mem_cons_of_mem _ hn))
        · intro p hpre hne hne' t mt'
          have := hnl (c :: p) (by simpa using hpre) (by simp) (by simpa using hne') t mt'
          simpa using this
        · simp at h1; omega
        · simp at h2; omega
      | link t mt =>
        by_cases hds : ds = []
        · subst hds
          simp [trivialRest]
        · exact absurd hk (hnl [c] (by simp) (by simp) (by simpa using hds) t mt)

/-- the canonical outcome of resolving key `K` without following a final symlink -/
def nf (m : MFS) (K : Key) : Res := walk m false (K.length + 1) 0 [] K

theorem nf_eq_walk {m : MFS} {K : Key} (hK : PKey K) (hnl : L.NoLinkProper m K) {fuel hops : Nat}
    (hf : K.length < fuel) : walk m false fuel hops [] K = nf m K := by
  unfold nf
  apply walk_indep m K [] fuel (K.length + 1) hops 0 hK
  · intro p hp _ hne t mt
    simpa using hnl p hp hne t mt
  · exact hf
  · omega

theorem namei_eq_walk (m : MFS) (f : Bool) {K : Key} (hK : PKey K) (hne : K ≠ []) :
    namei m (kp K) f = walk m f (4096 + K.length) 0 [] K := by
  unfold namei
  have hs : splitSep (kp K) = [] :: K := by
    unfold kp
    rw [splitSep_cons_sep, splitSep_joinSep K hne hK.nameOK]
  simp only [kp_ne_nil, if_false, hs, List.length_cons]
  have : 4096 + (K.length + 1) = (4096 + K.length) + 1 := by omega
  rw [this, walk_skip m f _ 0 [] _ (by decide)]

theorem namei_kp_nf {m : MFS} {K : Key} (hK : PKey K) (hne : K ≠ []) (hnl : L.NoLinkProper m K) :
    namei m (kp K) false = nf m K := by
  rw [namei_eq_walk m false hK hne]
  exact nf_eq_walk hK hnl (by omega)

section
variable {bk kk : Key} {m : MFS}

theorem live_prefix_dirs (hg : L.OSGoodL bk kk m) {P : Key} (hP : ∃ mt, m.get P = some (.dir mt)) :
    ∀ p, p <+: P → p ≠ [] → ∃ mt, m.get ([] ++ p) = some (.dir mt) := by
  intro p hp _
  obtain ⟨mt, hmt⟩ := hP
  by_cases he : p = P
  · exact ⟨mt, by simpa [he] using hmt⟩
  · simpa using hg.ancestor hmt hp he

/-- through a live directory `P` the canonical walk continues from `P` -/
theorem walk_from_root (hg : L.OSGoodL bk kk m) (f : Bool) {P : Key} (hP : ∃ mt, m.get P = some (.dir mt))
    (X : List Name) {fuel hops : Nat} (hf : P.length ≤ fuel) :
    walk m f fuel hops [] (P ++ X) = walk m f (fuel - P.length) hops P X := by
  obtain ⟨mt, hmt⟩ := hP
  have := walk_dirs m f hops X P [] fuel (hg.pkey P _ hmt) (live_prefix_dirs hg ⟨mt, hmt⟩) hf
  simpa using this

theorem nf_live (hg : L.OSGoodL bk kk m) {P : Key} (hP : ∃ mt, m.get P = some (.dir mt)) (X : List Name) :
    nf m (P ++ X) = walk m false (X.length + 1) 0 P X := by
  unfold nf
  rw [walk_from_root hg false hP X (by simp; omega)]
  congr 1
  simp
  omega

/-- nothing at or below a key that is not a live directory is a live directory -/
theorem not_dir_below (hg : L.OSGoodL bk kk m) {P : Key} (hP : ¬ ∃ mt, m.get P = some (.dir mt)) (X : List Name) :
    ¬ ∃ mt, m.get (P ++ X) = some (.dir mt) := by
  rintro ⟨mt, hmt⟩
  by_cases hX : X = []
  · subst hX
    exact hP ⟨mt, by simpa using hmt⟩
  · apply hP
    apply hg.ancestor hmt (List.prefix_append P X)
    intro e
    apply hX
    have := congrArg List.length e
    simp at this
    exact this

theorem none_below (hg : L.OSGoodL bk kk m) {P : Key} (hP : ¬ ∃ mt, m.get P = some (.dir mt)) (c : Name)
    (X : List Name) : m.get (P ++ c :: X) = none := by
  cases h : m.get (P ++ c :: X) with
  | none => rfl
  | some n =>
    exfalso
    apply hP
    apply hg.ancestor h (List.prefix_append P (c :: X))
    intro e
    have := congrArg List.length e
    simp at this

/-- at a position that is not a live directory a text satisfying `ddOK` only descends -/
theorem lexK_dead (hg : L.OSGoodL bk kk m) (below : Bool) : ∀ (cs : List Name) (pos : Key),
    (¬ ∃ mt, m.get pos = some (.dir mt)) → ddOK m bk below pos cs = true → (∀ c ∈ cs, '/' ∉ c) →
    ∃ X, lexK pos cs = pos ++ X
  | [], pos, _, _, _ => ⟨[], by simp [lexK]⟩
  | c :: cs, pos, hd, hdd, hs => by
    have hs' : ∀ n ∈ cs, '/' ∉ n := fun n hn => hs n (List.mem_cons_of_mem _ hn)
    rw [lexK_cons]
    unfold ddOK at hdd
    rcases comp_cases c (hs c (by simp)) with h | h | h
    · simp only [h, if_true] at hdd
      rw [stepK_triv h]
      exact lexK_dead hg below cs pos hd hdd hs'
    · subst h
      have h1 : (dotdot = [] || dotdot = dot) = false := by decide
      simp only [h1, Bool.false_eq_true, if_false, if_true, Bool.and_eq_true] at hdd
      exact absurd (isDirB_iff.mp hdd.1.1) hd
    · have h1 := plain_not_trivial h
      have h2 : c ≠ dotdot := h.2.2.2
      simp only [h1, Bool.false_eq_true, if_false, h2] at hdd
      rw [stepK_plain h]
      have hd' : ¬ ∃ mt, m.get (pos ++ [c]) = some (.dir mt) := not_dir_below hg hd [c]
      obtain ⟨X, hX⟩ := lexK_dead hg below cs (pos ++ [c]) hd' hdd hs'
      exact ⟨c :: X, by rw [hX]; simp⟩

/-- the canonical walk fails at the first component below a live directory that is missing or a
file, when something non-trivial follows -/
theorem walk_root_fail (hg : L.OSGoodL bk kk m) (f : Bool) {pos : Key} (hpos : ∃ mt, m.get pos = some (.dir mt))
    {c : Name} (hc : Plain c) (Y : List Name) (hY : trivialRest Y = false) {fuel hops : Nat}
    (hf : pos.length < fuel) :
    (m.get (pos ++ [c]) = none → walk m f fuel hops [] (pos ++ c :: Y) = .err .notExist) ∧
    (∀ ct mt, m.get (pos ++ [c]) = some (.file ct mt) → walk m f fuel hops [] (pos ++ c :: Y) = .err .notDir) := by
  rw [walk_from_root hg f hpos (c :: Y) (by omega)]
  obtain ⟨g, hg'⟩ : ∃ g, fuel - pos.length = g + 1 := ⟨fuel - pos.length - 1, by omega⟩
  rw [hg', walk_step m f g hops pos hc]
  constructor
  · intro h; rw [h]; simp only [hY]; rfl
  · intro ct mt h; rw [h]; simp only [hY]; rfl

/-- **the target walk**: from the live directory `pos`, the kernel's walk over the raw components
`cs` of a symlink target followed by a non-trivial rest either arrives at the lexical position
`lexK pos cs` (a live directory) with the rest still to go, or fails with the error the canonical
walk over `lexK pos cs ++ rest` gives. -/
theorem walk_target (hg : L.OSGoodL bk kk m) (below : Bool) (f : Bool) (rest : List Name)
    (hrest : trivialRest rest = false) :
    ∀ (cs : List Name) (pos : Key) (fuel hops : Nat),
      (∀ c ∈ cs, '/' ∉ c) → (∃ mt, m.get pos = some (.dir mt)) → ddOK m bk below pos cs = true →
      NoLinkUpto m (lexK pos cs) → cs.length ≤ fuel →
      ((∃ mt, m.get (lexK pos cs) = some (.dir mt)) ∧
          walk m f fuel hops pos (cs ++ rest) = walk m f (fuel - cs.length) hops (lexK pos cs) rest) ∨
      ((¬ ∃ mt, m.get (lexK pos cs) = some (.dir mt)) ∧ ∃ e,
          walk m f fuel hops pos (cs ++ rest) = .err e ∧
          ∀ fuel' hops', (lexK pos cs).length < fuel' →
            walk m f fuel' hops' [] (lexK pos cs ++ rest) = .err e)
  | [], pos, fuel, hops, _, hpos, _, _, _ => Or.inl ⟨hpos, by simp [lexK]⟩
  | c :: cs, pos, fuel, hops, hs, hpos, hdd, hnl, hf => by
    have hs' : ∀ n ∈ cs, '/' ∉ n := fun n hn => hs n (List.mem_cons_of_mem _ hn)
    obtain ⟨g, rfl⟩ : ∃ g, fuel = g + 1 := ⟨fuel - 1, by simp at hf; omega⟩
    have hg1 : g + 1 - (c :: cs).length = g - cs.length := by simp
    have hlen : cs.length ≤ g := by simp at hf; omega
    rw [lexK_cons] at hnl ⊢
    rw [hg1, List.cons_append]
    unfold ddOK at hdd
    rcases comp_cases c (hs c (by simp)) with h | h | h
    · simp only [h, if_true] at hdd
      rw [stepK_triv h] at hnl ⊢
      rw [walk_skip m f g hops pos _ h]
      exact walk_target hg below f rest hrest cs pos g hops hs' hpos hdd hnl hlen
    · subst h
      have h1 : (dotdot = [] || dotdot = dot) = false := by decide
      simp only [h1, Bool.false_eq_true, if_false, if_true, Bool.and_eq_true] at hdd
      rw [stepK_dd] at hnl ⊢
      rw [walk_dd]
      have hpar : ∃ mt, m.get pos.dropLast = some (.dir mt) := by
        by_cases hp0 : pos = []
        · rw [hp0]; exact hg.root
        · obtain ⟨mt, hmt⟩ := hpos
          exact hg.parent pos _ hmt hp0
      exact walk_target hg below f rest hrest cs pos.dropLast g hops hs' hpar hdd.2 hnl hlen
    · have h1 := plain_not_trivial h
      have h2 : c ≠ dotdot := h.2.2.2
      simp only [h1, Bool.false_eq_true, if_false, h2] at hdd
      rw [stepK_plain h] at hnl ⊢
      rw [walk_step m f g hops pos h]
      have htr : trivialRest (cs ++ rest) = false := by rw [trivialRest_append, hrest]; simp
      cases hk : m.get (pos ++ [c]) with
      | some n =>
        cases n with
        | dir mt =>
          simp only
          exact walk_target hg below f rest hrest cs (pos ++ [c]) g hops hs' ⟨mt, hk⟩ hdd hnl hlen
        | file ct mt =>
          have hd' : ¬ ∃ mt, m.get (pos ++ [c]) = some (.dir mt) := by
            rintro ⟨mt', h'⟩; rw [hk] at h'; cases h'
          obtain ⟨X, hX⟩ := lexK_dead hg below cs (pos ++ [c]) hd' hdd hs'
          right
          refine ⟨by rw [hX]; exact not_dir_below hg hd' X, .notDir, by simp only [htr]; rfl, ?_⟩
          intro fuel' hops' hf'
          rw [hX] at hf' ⊢
          have hY : trivialRest (X ++ rest) = false := by rw [trivialRest_append, hrest]; simp
          have := (walk_root_fail hg f hpos h (X ++ rest) hY (fuel := fuel') (hops := hops')
            (by simp at hf'; omega)).2 ct mt hk
          simpa using this
        | link t mt =>
          exfalso
          have hd' : ¬ ∃ mt, m.get (pos ++ [c]) = some (.dir mt) := by
            rintro ⟨mt', h'⟩; rw [hk] at h'; cases h'
          obtain ⟨X, hX⟩ := lexK_dead hg below cs (pos ++ [c]) hd' hdd hs'
          exact hnl (pos ++ [c]) (by rw [hX]; exact List.prefix_append _ _) t mt hk
      | none =>
        have hd' : ¬ ∃ mt, m.get (pos ++ [c]) = some (.dir mt) := by
          rintro ⟨mt', h'⟩; rw [hk] at h'; cases h'
        obtain ⟨X, hX⟩ := lexK_dead hg below cs (pos ++ [c]) hd' hdd hs'
        right
        refine ⟨by rw [hX]; exact not_dir_below hg hd' X, .notExist, by simp only [htr]; rfl, ?_⟩
        intro fuel' hops' hf'
        rw [hX] at hf' ⊢
        have hY : trivialRest (X ++ rest) = false := by rw [trivialRest_append, hrest]; simp
        have := (walk_root_fail hg f hpos h (X ++ rest) hY (fuel := fuel') (hops := hops')
          (by simp at hf'; omega)).1 hk
        simpa using this

end

end F16
end BFS
