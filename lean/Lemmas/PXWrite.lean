import Lemmas.PXLink
/-!
  Lemmas/PXWrite.lean — `File.Write` through a handle whose key is at or below `pk`: same result and
  agreeing disks on two agreeing disks; tameness, the prefix directories and everything outside `pk`
  are untouched (the write replaces a regular file by a regular file at the handle's key).
-/
namespace BFS
namespace PX
open MFS D

theorem hwrite_cases (m : MFS) (h : Handle) (off : Nat) (d : String) :
    (m.hwrite h off d).1 = m ∨
    ∃ c mt c' mt', m.get h.key = some (.file c mt) ∧ (m.hwrite h off d).1 = m.set h.key (some (.file c' mt')) := by
  unfold MFS.hwrite
  split
  · exact Or.inl rfl
  · split
    · rename_i c mt hg
      split
      · exact Or.inl rfl
      · exact Or.inr ⟨c, mt, _, _, hg, rfl⟩
    · exact Or.inl rfl

section
variable {pk : Key}

theorem hwrite_same {m1 m2 : MFS} (ha : Agree pk m1 m2) {h : Handle} (hk : pk <+: h.key) (off : Nat) (d : String) :
    Same pk (m1.hwrite h off d) (m2.hwrite h off d) := by
  unfold MFS.hwrite
  apply same_ite
  · intro _; exact same_ret ha _
  intro _
  rw [← ha.get h.key hk]
  cases hg : m1.get h.key with
  | none => exact same_ret ha _
  | some n =>
    cases n with
    | dir mt => exact same_ret ha _
    | link t mt => exact same_ret ha _
    | file c mt =>
      simp only
      apply same_ite
      · intro _; exact same_ret ha _
      · intro _; exact ⟨rfl, ha.set _ _⟩

theorem hwrite_tame {m : MFS} (ht : Tame pk m) (h : Handle) (off : Nat) (d : String) :
    Tame pk (m.hwrite h off d).1 := by
  rcases hwrite_cases m h off d with e | ⟨c, mt, c', mt', hg, e⟩
  · rw [e]; exact ht
  · rw [e]
    intro k t mt0 hk hl
    rcases set_get_some hl with ⟨_, e'⟩ | ⟨_, h'⟩
    · cases e'
    · exact ht k t mt0 hk h'

theorem hwrite_prefDirs {m : MFS} (hd : PrefDirs pk m) (h : Handle) (off : Nat) (d : String) :
    PrefDirs pk (m.hwrite h off d).1 := by
  rcases hwrite_cases m h off d with e | ⟨c, mt, c', mt', hg, e⟩
  · rw [e]; exact hd
  · rw [e]
    intro p hp
    obtain ⟨mt0, hm⟩ := hd p hp
    have hne : p ≠ h.key := by
      intro e'
      rw [e', hg] at hm
      cases hm
    exact ⟨mt0, by rw [set_get_ne m _ hne]; exact hm⟩

theorem hwrite_outside {m : MFS} {h : Handle} (hk : pk <+: h.key) (off : Nat) (d : String) :
    ∀ j, ¬ pk <+: j → (m.hwrite h off d).1.get j = m.get j :=
  fun j hj => hwrite_frame m h off d j (fun e => hj (e ▸ hk))

end
end PX
end BFS
