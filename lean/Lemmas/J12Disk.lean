import Lemmas.SimOSPrefix
/-!
  Lemmas/J12Disk.lean — "every owner on the disk fits 32 bits" (`SD`) is preserved by every syscall
  of the OS model whose `Chown`/`Lchown` arguments fit 32 bits (negative = keep), for EVERY path
  argument and every disk (no well-formedness needed), and by the `PrefixFS` layer above it; and the
  `FileInfo`s `Stat`/`Lstat` return on such a disk have small owners.
-/
namespace BFS
namespace J12
open MFS

/-- the owner of a node fits `uid_t`/`gid_t` -/
def Sm (n : Node) : Prop := n.meta.uid < 4294967296 ∧ n.meta.gid < 4294967296

/-- the owner reported by a `FileInfo` fits 32 bits -/
def Smi (i : Info) : Prop := i.uid < 4294967296 ∧ i.gid < 4294967296

/-- every owner on the disk fits 32 bits -/
def SD (m : MFS) : Prop := ∀ k n, m.get k = some n → Sm n

/-- the uid/gid arguments of a call fit 32 bits (negative: "keep") -/
def SmallArgs : Call → Prop
  | .chown _ u g => u < 4294967296 ∧ g < 4294967296
  | .lchown _ u g => u < 4294967296 ∧ g < 4294967296
  | _ => True

theorem sm_setMeta (n : Node) (mt : Meta) : Sm (n.setMeta mt) ↔ (mt.uid < 4294967296 ∧ mt.gid < 4294967296) := by
  cases n <;> exact Iff.rfl

theorem SD.set_some {m : MFS} {k : Key} {n : Node} (h : SD m) (hn : Sm n) : SD (m.set k (some n)) := by
  intro k' n' hg
  unfold MFS.set at hg
  simp only at hg
  split at hg
  · cases hg; exact hn
  · exact h k' n' hg

theorem SD.set_none {m : MFS} {k : Key} (h : SD m) : SD (m.set k none) := by
  intro k' n' hg
  unfold MFS.set at hg
  simp only at hg
  split at hg
  · cases hg
  · exact h k' n' hg

theorem SD.touchDir {m : MFS} (h : SD m) (k : Key) : SD (m.touchDir k) := by
  unfold MFS.touchDir
  split
  · rename_i mt heq
    exact h.set_some (h k (.dir mt) heq)
  · exact h

theorem SD.removeSubtree {m : MFS} (h : SD m) (k : Key) : SD (m.removeSubtree k) := by
  intro k' n' hg
  unfold MFS.removeSubtree at hg
  simp only at hg
  split at hg
  · cases hg
  · exact h k' n' hg

theorem SD.moveSubtree {m : MFS} (h : SD m) (ko kn : Key) : SD (m.moveSubtree ko kn) := by
  intro k' n' hg
  unfold MFS.moveSubtree at hg
  simp only at hg
  split at hg
  · exact h _ n' hg
  · split at hg
    · cases hg
    · exact h k' n' hg

/-! ### name resolution returns nodes of the disk -/

theorem walk_found_get (m : MFS) (f : Bool) : ∀ (fuel hops : Nat) (cur : Key) (cs : List Name) (k : Key) (n : Node),
    walk m f fuel hops cur cs = .found k n → m.get k = some n := by
  intro fuel
  induction fuel with
  | zero =>
    intro hops cur cs k n h
    unfold walk at h
    cases h
  | succ fuel ih =>
    intro hops cur cs k n h
    cases cs with
    | nil =>
      unfold walk at h
      split at h
      · rename_i n0 heq
        cases h
        exact heq
      · cases h
    | cons c rest =>
      unfold walk at h
      split at h
      · exact ih _ _ _ _ _ h
      · split at h
        · exact ih _ _ _ _ _ h
        · simp only at h
          split at h
          · split at h <;> cases h
          · exact ih _ _ _ _ _ h
          · rename_i ct mt heq
            split at h
            · cases h; exact heq
            · cases h
          · rename_i t mt heq
            split at h
            · cases h; exact heq
            · split at h
              · cases h
              · split at h
                · cases h
                · exact ih _ _ _ _ _ h

theorem namei_found_get {m : MFS} {p : Path} {f : Bool} {k : Key} {n : Node}
    (h : namei m p f = .found k n) : m.get k = some n := by
  unfold namei at h
  split at h
  · cases h
  · exact walk_found_get m f _ _ _ _ _ _ h

theorem inheritGid_small {m : MFS} (h : SD m) (parent : Key) : (inheritGid m parent).1 < 4294967296 := by
  unfold inheritGid
  split
  · rename_i mt heq
    split
    · exact (h parent _ heq).2
    · decide
  · decide

theorem infoOf_small {nm : Path} {n : Node} (h : Sm n) : Smi (infoOf nm n) := by
  cases n <;> exact h

theorem lstat_small {m : MFS} (h : SD m) {p : Path} {i : Info} (hl : m.lstat p = .ok i) : Smi i := by
  unfold MFS.lstat at hl
  split at hl
  · rename_i k n heq
    cases hl
    exact infoOf_small (h k n (namei_found_get heq))
  · cases hl
  · cases hl

theorem stat_small {m : MFS} (h : SD m) {p : Path} {i : Info} (hl : m.stat p = .ok i) : Smi i := by
  unfold MFS.stat at hl
  split at hl
  · rename_i k n heq
    cases hl
    exact infoOf_small (h k n (namei_found_get heq))
  · cases hl
  · cases hl

/-! ### the syscalls -/

theorem SD.mkdir {m : MFS} (h : SD m) (p : Path) (perm : Nat) : SD (m.mkdir p perm).1 := by
  unfold MFS.mkdir
  split
  · exact h
  · exact h
  · rename_i parent name heq
    have hg := inheritGid_small h parent
    cases hi : inheritGid m parent with
    | mk gid sg =>
      rw [hi] at hg
      simp only at hg ⊢
      apply SD.touchDir
      apply SD.set_some h
      exact ⟨by show (0 : Nat) < 4294967296; decide, hg⟩

theorem SD.mkdirAll (perm : Nat) : ∀ (fuel : Nat) (m : MFS) (p : Path), SD m → SD (m.mkdirAll perm fuel p).1 := by
  intro fuel
  induction fuel with
  | zero => intro m p h; unfold MFS.mkdirAll; exact h
  | succ fuel ih =>
    intro m p h
    unfold MFS.mkdirAll
    split
    · split <;> exact h
    · simp only
      have h1 : SD (if (uptoLastSep (stripTrailingSeps p)).length > 0
          then MFS.mkdirAll m perm fuel (uptoLastSep (stripTrailingSeps p)) else (m, Except.ok ())).1 := by
        split
        · exact ih m _ h
        · exact h
      cases hr : (if (uptoLastSep (stripTrailingSeps p)).length > 0
          then MFS.mkdirAll m perm fuel (uptoLastSep (stripTrailingSeps p)) else (m, Except.ok ())) with
      | mk m1 r1 =>
        rw [hr] at h1
        cases r1 with
        | error e => exact h1
        | ok u =>
          simp only
          have h2 := SD.mkdir h1 p perm
          cases hm : MFS.mkdir m1 p perm with
          | mk m2 r2 =>
            rw [hm] at h2
            cases r2 with
            | ok u => exact h2
            | error e =>
              simp only
              split
              · split <;> exact h2
              · exact h2

theorem SD.openFile {m : MFS} (h : SD m) (p : Path) (flag perm : Nat) : SD (m.openFile p flag perm).1 := by
  unfold MFS.openFile
  simp only
  split
  · exact h
  · rename_i k n heq
    split
    · exact h
    · split
      · split <;> exact h
      · exact h
      · rename_i c mt
        split
        · exact h.set_some (h k (.file c mt) (namei_found_get heq))
        · exact h
  · rename_i parent name heq
    split
    · exact h
    · have hg := inheritGid_small h parent
      cases hi : inheritGid m parent with
      | mk gid sg =>
        rw [hi] at hg
        simp only at hg ⊢
        apply SD.touchDir
        apply SD.set_some h
        exact ⟨by show (0 : Nat) < 4294967296; decide, hg⟩

theorem SD.hwrite {m : MFS} (h : SD m) (hd : Handle) (off : Nat) (d : String) : SD (m.hwrite hd off d).1 := by
  unfold MFS.hwrite
  split
  · exact h
  · split
    · rename_i c mt heq
      split
      · exact h
      · exact h.set_some (h _ (.file c mt) heq)
    · exact h

theorem SD.remove {m : MFS} (h : SD m) (p : Path) : SD (m.remove p).1 := by
  unfold MFS.remove
  split
  · exact h
  · exact h
  · split
    · exact h
    · split
      · split
        · exact h
        · exact h.set_none.touchDir _
      · exact h.set_none.touchDir _

theorem SD.removeAll {m : MFS} (h : SD m) (p : Path) : SD (m.removeAll p).1 := by
  unfold MFS.removeAll
  split
  · exact h
  · split
    · exact h
    · split
      · exact h
      · exact h
      · exact h
      · split
        · exact h
        · exact (h.removeSubtree _).touchDir _

theorem SD.rename {m : MFS} (h : SD m) (o n : Path) : SD (m.rename o n).1 := by
  have hmv : ∀ ko kn, SD (((m.moveSubtree ko kn).touchDir (parentKey ko)).touchDir (parentKey kn)) :=
    fun ko kn => ((h.moveSubtree ko kn).touchDir _).touchDir _
  unfold MFS.rename
  simp only
  split
  · exact h
  · split
    · exact h
    · exact h
    · exact h
    · split
      · exact h
      · split
        · exact h
        · split
          · exact h
          · split
            · exact h
            · split
              · exact h
              · exact hmv _ _
    · split
      · exact h
      · exact hmv _ _

theorem SD.chmod {m : MFS} (h : SD m) (p : Path) (mode : Nat) : SD (m.chmod p mode).1 := by
  unfold MFS.chmod
  split
  · exact h
  · exact h
  · rename_i k n heq
    exact h.set_some ((sm_setMeta _ _).mpr (h k n (namei_found_get heq)))

theorem SD.chtimes {m : MFS} (h : SD m) (p : Path) (t : Time) : SD (m.chtimes p t).1 := by
  unfold MFS.chtimes
  split
  · exact h
  · exact h
  · rename_i k n heq
    exact h.set_some ((sm_setMeta _ _).mpr (h k n (namei_found_get heq)))

theorem SD.chownAt {m : MFS} (h : SD m) {k : Key} {n : Node} (hn : Sm n) {uid gid : Int}
    (hu : uid < 4294967296) (hg : gid < 4294967296) : SD (m.chownAt k n uid gid) := by
  unfold MFS.chownAt
  simp only
  apply h.set_some
  rw [sm_setMeta]
  simp only
  constructor
  · split
    · exact hn.1
    · omega
  · split
    · exact hn.2
    · omega

theorem SD.chown {m : MFS} (h : SD m) (p : Path) {uid gid : Int}
    (hu : uid < 4294967296) (hg : gid < 4294967296) : SD (m.chown p uid gid).1 := by
  unfold MFS.chown
  split
  · exact h
  · exact h
  · rename_i k n heq
    exact h.chownAt (h k n (namei_found_get heq)) hu hg

theorem SD.lchown {m : MFS} (h : SD m) (p : Path) {uid gid : Int}
    (hu : uid < 4294967296) (hg : gid < 4294967296) : SD (m.lchown p uid gid).1 := by
  unfold MFS.lchown
  split
  · exact h
  · exact h
  · rename_i k n heq
    exact h.chownAt (h k n (namei_found_get heq)) hu hg

theorem SD.symlink {m : MFS} (h : SD m) (o n : Path) : SD (m.symlink o n).1 := by
  unfold MFS.symlink
  split
  · exact h
  · split
    · exact h
    · exact h
    · rename_i parent name heq
      have hg := inheritGid_small h parent
      cases hi : inheritGid m parent with
      | mk gid sg =>
        rw [hi] at hg
        simp only at hg ⊢
        apply SD.touchDir
        apply SD.set_some h
        exact ⟨by show (0 : Nat) < 4294967296; decide, hg⟩

/-! ### `OSFS` and the `PrefixFS` layer -/

theorem liftU_fst {σ} (r : σ × Except Err Unit) : (liftU r).1 = r.1 := rfl

theorem SD.osCall {m : MFS} (h : SD m) {c : Call} (hs : SmallArgs c) : SD (osCall m c).1 := by
  cases c with
  | create n => exact h.openFile _ _ _
  | mkdir n p => exact h.mkdir _ _
  | mkdirAll n p => exact SD.mkdirAll _ _ _ _ h
  | open_ n => exact h.openFile _ _ _
  | openFile n f p => exact h.openFile _ _ _
  | remove n => exact h.remove _
  | removeAll n => exact h.removeAll _
  | rename o n => exact h.rename _ _
  | stat n => exact h
  | chmod n md => exact h.chmod _ _
  | chown n u g => exact h.chown _ hs.1 hs.2
  | chtimes n a t => exact h.chtimes _ _
  | lstat n => exact h
  | symlink o n => exact h.symlink _ _
  | readlink n => exact h
  | lchown n u g => exact h.lchown _ hs.1 hs.2

/-- only `Stat`/`Lstat` return a `FileInfo`, and it describes a node of the disk -/
theorem osCall_info {m : MFS} (h : SD m) {c : Call} {i : Info} (hr : (osCall m c).2 = .ok (.info i)) : Smi i := by
  cases c with
  | stat n =>
    simp only [osCall] at hr
    cases hl : m.stat n with
    | error e => rw [hl] at hr; cases hr
    | ok i0 =>
      rw [hl] at hr
      simp only [Except.map, Except.ok.injEq, Ret.info.injEq] at hr
      subst hr
      exact stat_small h hl
  | lstat n =>
    simp only [osCall] at hr
    cases hl : m.lstat n with
    | error e => rw [hl] at hr; cases hr
    | ok i0 =>
      rw [hl] at hr
      simp only [Except.map, Except.ok.injEq, Ret.info.injEq] at hr
      subst hr
      exact lstat_small h hl
  | readlink n =>
    simp only [osCall] at hr
    cases hl : m.readlink n with
    | error e => rw [hl] at hr; cases hr
    | ok s => rw [hl] at hr; simp only [Except.map, Except.ok.injEq] at hr; cases hr
  | create n =>
    simp only [osCall] at hr
    cases hl : (m.openFile n (O_RDWR ||| O_CREATE ||| O_TRUNC) 0o666).2 with
    | error e => rw [hl] at hr; cases hr
    | ok s => rw [hl] at hr; simp only [Except.map, Except.ok.injEq] at hr; cases hr
  | open_ n =>
    simp only [osCall] at hr
    cases hl : (m.openFile n O_RDONLY 0).2 with
    | error e => rw [hl] at hr; cases hr
    | ok s => rw [hl] at hr; simp only [Except.map, Except.ok.injEq] at hr; cases hr
  | openFile n f p =>
    simp only [osCall] at hr
    cases hl : (m.openFile n f p).2 with
    | error e => rw [hl] at hr; cases hr
    | ok s => rw [hl] at hr; simp only [Except.map, Except.ok.injEq] at hr; cases hr
  | mkdir n p =>
    simp only [osCall, liftU] at hr
    cases hl : (m.mkdir n p).2 <;> rw [hl] at hr <;> simp only [Except.map] at hr <;> cases hr
  | mkdirAll n p =>
    simp only [osCall, liftU] at hr
    cases hl : (m.mkdirAll p (n.length + 2) n).2 <;> rw [hl] at hr <;> simp only [Except.map] at hr <;> cases hr
  | remove n =>
    simp only [osCall, liftU] at hr
    cases hl : (m.remove n).2 <;> rw [hl] at hr <;> simp only [Except.map] at hr <;> cases hr
  | removeAll n =>
    simp only [osCall, liftU] at hr
    cases hl : (m.removeAll n).2 <;> rw [hl] at hr <;> simp only [Except.map] at hr <;> cases hr
  | rename o n =>
    simp only [osCall, liftU] at hr
    cases hl : (m.rename o n).2 <;> rw [hl] at hr <;> simp only [Except.map] at hr <;> cases hr
  | chmod n md =>
    simp only [osCall, liftU] at hr
    cases hl : (m.chmod n md).2 <;> rw [hl] at hr <;> simp only [Except.map] at hr <;> cases hr
  | chown n u g =>
    simp only [osCall, liftU] at hr
    cases hl : (m.chown n u g).2 <;> rw [hl] at hr <;> simp only [Except.map] at hr <;> cases hr
  | chtimes n a t =>
    simp only [osCall, liftU] at hr
    cases hl : (m.chtimes n t).2 <;> rw [hl] at hr <;> simp only [Except.map] at hr <;> cases hr
  | symlink o n =>
    simp only [osCall, liftU] at hr
    cases hl : (m.symlink o n).2 <;> rw [hl] at hr <;> simp only [Except.map] at hr <;> cases hr
  | lchown n u g =>
    simp only [osCall, liftU] at hr
    cases hl : (m.lchown n u g).2 <;> rw [hl] at hr <;> simp only [Except.map] at hr <;> cases hr

theorem bindE_ok {α β} {x : Except Err α} {f : α → Except Err β} {b : β}
    (h : (x >>= f) = .ok b) : ∃ a, x = .ok a ∧ f a = .ok b := by
  cases x with
  | error e => cases h
  | ok a => exact ⟨a, rfl, h⟩

/-- `PrefixFS` passes uid/gid arguments through unchanged -/
theorem translate_small {pre : Path} {c c' : Call} (h : PrefixFS.translate pre c = .ok c')
    (hs : SmallArgs c) : SmallArgs c' := by
  cases c with
  | chown n u g =>
    obtain ⟨q, _, h2⟩ := bindE_ok h
    cases h2
    exact hs
  | lchown n u g =>
    obtain ⟨q, _, h2⟩ := bindE_ok h
    cases h2
    exact hs
  | create n => obtain ⟨q, _, h2⟩ := bindE_ok h; cases h2; trivial
  | mkdir n p => obtain ⟨q, _, h2⟩ := bindE_ok h; cases h2; trivial
  | mkdirAll n p => obtain ⟨q, _, h2⟩ := bindE_ok h; cases h2; trivial
  | open_ n => obtain ⟨q, _, h2⟩ := bindE_ok h; cases h2; trivial
  | openFile n f p => obtain ⟨q, _, h2⟩ := bindE_ok h; cases h2; trivial
  | remove n => obtain ⟨q, _, h2⟩ := bindE_ok h; cases h2; trivial
  | removeAll n => obtain ⟨q, _, h2⟩ := bindE_ok h; cases h2; trivial
  | stat n => obtain ⟨q, _, h2⟩ := bindE_ok h; cases h2; trivial
  | chmod n md => obtain ⟨q, _, h2⟩ := bindE_ok h; cases h2; trivial
  | chtimes n a t => obtain ⟨q, _, h2⟩ := bindE_ok h; cases h2; trivial
  | lstat n => obtain ⟨q, _, h2⟩ := bindE_ok h; cases h2; trivial
  | readlink n => obtain ⟨q, _, h2⟩ := bindE_ok h; cases h2; trivial
  | rename o n =>
    obtain ⟨q, _, h2⟩ := bindE_ok h
    obtain ⟨q', _, h3⟩ := bindE_ok h2
    cases h3; trivial
  | symlink o n =>
    obtain ⟨q, _, h2⟩ := bindE_ok h
    split at h2
    · obtain ⟨q', _, h3⟩ := bindE_ok h2
      cases h3; trivial
    · split at h2
      · cases h2
      · cases h2; trivial

theorem prefixPost_info {pre : Path} {c c' : Call} {r : Ret} {i : Info}
    (h : prefixPost pre c c' r = .info i) : ∃ i0, r = .info i0 ∧ i.uid = i0.uid ∧ i.gid = i0.gid := by
  cases r with
  | unit => cases c <;> cases h
  | str s => cases c <;> simp only [prefixPost] at h <;> cases h
  | handle hd => cases c <;> cases h
  | info i0 =>
    refine ⟨i0, rfl, ?_⟩
    cases c <;> simp only [prefixPost, Ret.info.injEq] at h <;> subst h <;> exact ⟨rfl, rfl⟩

theorem SD.prefixFS_call {m : MFS} (h : SD m) (pre : Path) {c : Call} (hs : SmallArgs c) :
    SD ((prefixFS pre osfs).call m c).1 := by
  rw [BFS.prefixFS_call]
  split
  · exact h
  · rename_i c' htr
    exact h.osCall (translate_small htr hs)

theorem prefixFS_call_info {m : MFS} (h : SD m) (pre : Path) {c : Call} {m' : MFS} {i : Info}
    (hc : (prefixFS pre osfs).call m c = (m', .ok (.info i))) : Smi i := by
  rw [BFS.prefixFS_call] at hc
  split at hc
  · simp only [Prod.mk.injEq] at hc
    cases hc.2
  · rename_i c' htr
    simp only [Prod.mk.injEq] at hc
    obtain ⟨_, h2⟩ := hc
    cases hr : (osCall m c').2 with
    | error e => rw [hr] at h2; cases h2
    | ok r =>
      rw [hr] at h2
      simp only [Except.map, Except.ok.injEq] at h2
      obtain ⟨i0, rfl, hu, hg⟩ := prefixPost_info h2
      have := osCall_info h hr
      exact ⟨by rw [hu]; exact this.1, by rw [hg]; exact this.2⟩

end J12
end BFS
