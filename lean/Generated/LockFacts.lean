/- generated from /repo by vharness astfacts; do not edit -/
namespace Generated
end Generated
