/- generated from /repo by `vharness -stream astfacts` on every run; do not edit -/
namespace Generated

structure RegionFact where
  refsInfos : Bool
  mutatingCall : Bool
  calls : List String
deriving Repr, DecidableEq

structure MethodFact where
  name : String
  exported : Bool
  lockPair : Bool
  locksAnywhere : Bool
  earlyUnlock : Bool
  unlocked : RegionFact
  locked : RegionFact
deriving Repr, DecidableEq

def lockFacts : List MethodFact := [
  ⟨"BackupFS", true, false, false, false, ⟨false, false, []⟩, ⟨false, false, []⟩⟩,
  ⟨"BaseFS", true, false, false, false, ⟨false, false, []⟩, ⟨false, false, []⟩⟩,
  ⟨"Chmod", true, true, true, false, ⟨false, false, []⟩, ⟨false, true, ["realPath", "tryBackup"]⟩⟩,
  ⟨"Chown", true, true, true, false, ⟨false, false, []⟩, ⟨false, true, ["realPath", "tryBackup"]⟩⟩,
  ⟨"Chtimes", true, true, true, false, ⟨false, false, []⟩, ⟨false, true, ["realPath", "tryBackup"]⟩⟩,
  ⟨"Create", true, true, true, false, ⟨false, false, []⟩, ⟨false, true, ["realPath", "tryBackup"]⟩⟩,
  ⟨"ForceBackup", true, true, true, false, ⟨false, false, []⟩, ⟨false, false, ["realPath", "tryBackup", "tryRemoveBackup"]⟩⟩,
  ⟨"Lchown", true, true, true, false, ⟨false, false, []⟩, ⟨false, true, ["realPath", "tryBackup"]⟩⟩,
  ⟨"Lstat", true, false, false, false, ⟨false, false, []⟩, ⟨false, false, []⟩⟩,
  ⟨"Map", true, true, true, false, ⟨false, false, []⟩, ⟨true, false, []⟩⟩,
  ⟨"MarshalJSON", true, false, false, false, ⟨false, false, ["Map"]⟩, ⟨false, false, []⟩⟩,
  ⟨"Mkdir", true, true, true, false, ⟨false, false, []⟩, ⟨false, true, ["realPath", "tryBackup"]⟩⟩,
  ⟨"MkdirAll", true, true, true, false, ⟨false, false, []⟩, ⟨false, true, ["realPath", "tryBackup"]⟩⟩,
  ⟨"Name", true, false, false, false, ⟨false, false, []⟩, ⟨false, false, []⟩⟩,
  ⟨"Open", true, false, false, false, ⟨false, false, ["OpenFile"]⟩, ⟨false, false, []⟩⟩,
  ⟨"OpenFile", true, true, true, false, ⟨false, false, []⟩, ⟨false, true, ["realPath", "tryBackup"]⟩⟩,
  ⟨"Readlink", true, false, false, false, ⟨false, false, []⟩, ⟨false, false, []⟩⟩,
  ⟨"Remove", true, true, true, false, ⟨false, false, []⟩, ⟨false, false, ["remove"]⟩⟩,
  ⟨"RemoveAll", true, true, true, false, ⟨false, false, []⟩, ⟨false, false, ["Lstat", "realPath", "remove"]⟩⟩,
  ⟨"Rename", true, true, true, false, ⟨false, false, []⟩, ⟨false, true, ["realPath", "tryBackup"]⟩⟩,
  ⟨"Rollback", true, true, true, false, ⟨false, false, []⟩, ⟨true, true, ["tryRemoveBackupPaths", "tryRemoveBasePaths", "tryRestoreDirPaths", "tryRestoreFilePaths", "tryRestoreSymlinkPaths"]⟩⟩,
  ⟨"SetMap", true, true, true, false, ⟨false, false, []⟩, ⟨true, false, []⟩⟩,
  ⟨"Stat", true, false, false, false, ⟨false, false, []⟩, ⟨false, false, []⟩⟩,
  ⟨"Symlink", true, true, true, false, ⟨false, false, []⟩, ⟨false, true, ["realPath", "tryBackup"]⟩⟩,
  ⟨"UnmarshalJSON", true, true, true, false, ⟨false, false, []⟩, ⟨true, false, []⟩⟩,
  ⟨"alreadySeen", false, false, false, false, ⟨true, false, []⟩, ⟨false, false, []⟩⟩,
  ⟨"alreadySeenWithInfo", false, false, false, false, ⟨true, false, []⟩, ⟨false, false, []⟩⟩,
  ⟨"backupDirs", false, false, false, false, ⟨false, true, ["backupRequired", "setInfoIfNotAlreadySeen"]⟩, ⟨false, false, []⟩⟩,
  ⟨"backupRequired", false, false, false, false, ⟨false, false, ["Lstat", "alreadySeenWithInfo", "setInfoIfNotAlreadySeen"]⟩, ⟨false, false, []⟩⟩,
  ⟨"realPath", false, false, false, false, ⟨false, false, []⟩, ⟨false, false, []⟩⟩,
  ⟨"realPathWithFound", false, false, false, false, ⟨false, false, []⟩, ⟨false, false, []⟩⟩,
  ⟨"remove", false, false, false, false, ⟨false, true, ["realPath", "tryBackup"]⟩, ⟨false, false, []⟩⟩,
  ⟨"setInfoIfNotAlreadySeen", false, false, false, false, ⟨true, false, []⟩, ⟨false, false, []⟩⟩,
  ⟨"tryBackup", false, false, false, false, ⟨false, true, ["backupDirs", "backupRequired", "setInfoIfNotAlreadySeen"]⟩, ⟨false, false, []⟩⟩,
  ⟨"tryRemoveBackup", false, false, false, false, ⟨true, true, ["alreadySeen"]⟩, ⟨false, false, []⟩⟩,
  ⟨"tryRemoveBackupPaths", false, false, false, false, ⟨false, true, []⟩, ⟨false, false, []⟩⟩,
  ⟨"tryRemoveBasePaths", false, false, false, false, ⟨false, true, []⟩, ⟨false, false, []⟩⟩,
  ⟨"tryRestoreDirPaths", false, false, false, false, ⟨true, true, []⟩, ⟨false, false, []⟩⟩,
  ⟨"tryRestoreFilePaths", false, false, false, false, ⟨true, true, []⟩, ⟨false, false, []⟩⟩,
  ⟨"tryRestoreSymlinkPaths", false, false, false, false, ⟨true, true, []⟩, ⟨false, false, []⟩⟩
]

/-- package-level functions that mention `baseInfos` (expected: none) -/
def pkgFuncsTouchingInfos : List String := []

end Generated
