import Lean
/-!
  Audit: lists every declaration in the `Props.Cxx` namespaces with its kind and the axioms
  it depends on, as JSON lines.  Run with `lake env lean --run Audit.lean`.
-/
open Lean

def isPropsName (n : Name) : Bool :=
  match n.components with
  | `Props :: _ :: _ => true
  | _ => false

def propOf (n : Name) : String :=
  match n.components with
  | _ :: c :: _ => c.toString
  | _ => ""

unsafe def main (args : List String) : IO UInt32 := do
  initSearchPath (← findSysroot)
  -- the modules to audit, e.g. `Props.C05` or `Props.C02 Props.C02R` (default: all of `Props`)
  let toName (m : String) : Name := m.splitOn "." |>.foldl (fun n s => Name.str n s) Name.anonymous
  let mods : Array Import := match args with
    | [] => #[{ module := `Props }]
    | ms => (ms.map (fun m => ({ module := toName m } : Import))).toArray
  let env ← importModules mods {} (trustLevel := 1024)
  let mut bad := 0
  let out ← IO.getStdout
  for (n, ci) in env.constants.toList do
    if !isPropsName n then continue
    if n.isInternal then continue
    -- skip auxiliary declarations generated for definitions (equation lemmas, matchers, …)
    if (n.components.getLast?.map (·.toString)).any (fun s => s.startsWith "_" || s.startsWith "match_" || s.startsWith "proof_" || s.startsWith "eq_" || s == "eq_def" || s.startsWith "inst") then continue
    let kind := match ci with
      | .thmInfo _ => "theorem"
      | .defnInfo _ => "def"
      | .axiomInfo _ => "axiom"
      | .opaqueInfo _ => "opaque"
      | _ => "other"
    if kind == "other" then continue
    let (axArr, _) ← (Lean.collectAxioms n : CoreM (Array Name)).toIO
      { fileName := "<audit>", fileMap := default } { env := env }
    let axs : List String := axArr.toList.map (·.toString)
    let allowed := ["propext", "Classical.choice", "Quot.sound"]
    let ok := kind != "axiom" && axs.all (fun a => allowed.contains a)
    if !ok then bad := bad + 1
    let j := Json.mkObj [("name", n.toString), ("property", propOf n), ("kind", kind),
      ("axioms", Json.arr (axs.map Json.str).toArray), ("ok", ok)]
    out.putStrLn j.compress
  return (if bad == 0 then 0 else 1)
