/- Line protocol codec: TAB-separated fields, backslash escapes. -/
namespace Driver

def escape (s : List Char) : String :=
  String.ofList (s.foldr (fun c acc =>
    if c = '\\' then '\\' :: '\\' :: acc
    else if c = '\t' then '\\' :: 't' :: acc
    else if c = '\n' then '\\' :: 'n' :: acc
    else if c = '\r' then '\\' :: 'r' :: acc
    else c :: acc) [])

def unescape : List Char → List Char
  | '\\' :: 't' :: cs => '\t' :: unescape cs
  | '\\' :: 'n' :: cs => '\n' :: unescape cs
  | '\\' :: 'r' :: cs => '\r' :: unescape cs
  | '\\' :: '\\' :: cs => '\\' :: unescape cs
  | c :: cs => c :: unescape cs
  | [] => []

/-- split a raw line on TAB and unescape every field -/
def fields (line : String) : List (List Char) :=
  let rec go (cur : List Char) (acc : List (List Char)) : List Char → List (List Char)
    | [] => (unescape cur.reverse :: acc).reverse
    | c :: cs => if c = '\t' then go [] (unescape cur.reverse :: acc) cs else go (c :: cur) acc cs
  go [] [] line.toList

def outFields (fs : List (List Char)) : String :=
  String.intercalate "\t" (fs.map escape)

def natOf (s : List Char) : Option Nat := (String.ofList s).toNat?

def intOf (s : List Char) : Option Int := (String.ofList s).toInt?

end Driver
