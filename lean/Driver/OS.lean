import Driver.State
open BFS
namespace Driver

structure DState where
  fs : MFS := emptyFS 0

def mkMeta (mode uid gid : Nat) (t : Time) : Meta := { mode := mode, uid := uid, gid := gid, mtime := t }

/-- stateful commands on the OS model; returns the new state and the output fields -/
def osCmd (st : DState) : List (List Char) → Option (DState × List (List Char))
  | [] => none
  | c :: args =>
    match String.ofList c, args with
    | "os.begin", [um] => do
        let um ← natOf um
        pure ({ st with fs := emptyFS um }, [s2l "ok"])
    | "os.init", [kind, p, mode, uid, gid, mt, data] => do
        let mode ← natOf mode; let uid ← natOf uid; let gid ← natOf gid; let mt ← timeOf mt
        let k := keyOf p
        let node : Node ← match String.ofList kind with
          | "dir" => some (.dir (mkMeta mode uid gid mt))
          | "file" => some (.file (String.ofList data) (mkMeta mode uid gid mt))
          | "link" => some (.link data (mkMeta 0o777 uid gid mt))
          | _ => none
        pure ({ st with fs := st.fs.set k (some node) }, [s2l "ok"])
    | "os.call", stack :: rest => do
        let call ← parseCall rest
        let fs := buildFS (parseStack stack)
        let (m', r) := fs.call st.fs call
        pure ({ st with fs := m' }, showRet r)
    | "os.write", [stack, p, flag, perm, data] => do
        -- OpenFile + Write(data) + Close as one composite
        let flag ← natOf flag; let perm ← natOf perm
        let fs := buildFS (parseStack stack)
        match fs.call st.fs (.openFile p flag perm) with
        | (m1, .error e) => pure ({ st with fs := m1 }, [s2l "err", s2l (errName e)])
        | (m1, .ok (.handle h)) =>
          if data = [] then pure ({ st with fs := m1 }, [s2l "ok", h.name])
          else
            (match fs.hwrite m1 h 0 (String.ofList data) with
             | (m2, .error e) => pure ({ st with fs := m2 }, [s2l "err-write", s2l (errName e)])
             | (m2, .ok ()) => pure ({ st with fs := m2 }, [s2l "ok", h.name]))
        | (m1, .ok _) => pure ({ st with fs := m1 }, [s2l "err", s2l "other"])
    | "os.creat", [stack, p, data] => do
        -- Create + Write(data) + Close as one composite
        let fs := buildFS (parseStack stack)
        match fs.call st.fs (.create p) with
        | (m1, .error e) => pure ({ st with fs := m1 }, [s2l "err", s2l (errName e)])
        | (m1, .ok (.handle h)) =>
          if data = [] then pure ({ st with fs := m1 }, [s2l "ok", h.name])
          else
            (match fs.hwrite m1 h 0 (String.ofList data) with
             | (m2, .error e) => pure ({ st with fs := m2 }, [s2l "err-write", s2l (errName e)])
             | (m2, .ok ()) => pure ({ st with fs := m2 }, [s2l "ok", h.name]))
        | (m1, .ok _) => pure ({ st with fs := m1 }, [s2l "err", s2l "other"])
    | "os.read", [stack, p] => do
        -- Open + ReadAll (file) or Readdirnames(-1) sorted (directory) + Close
        let fs := buildFS (parseStack stack)
        match fs.call st.fs (.open_ p) with
        | (m1, .error e) => pure ({ st with fs := m1 }, [s2l "err", s2l (errName e)])
        | (m1, .ok (.handle h)) =>
          if h.isDir then
            (match fs.hreaddirnames m1 h with
             | .error e => pure ({ st with fs := m1 }, [s2l "err-list", s2l (errName e)])
             | .ok names => pure ({ st with fs := m1 }, s2l "ok" :: s2l "names" :: h.name :: sortStrings names))
          else
            (match fs.hread m1 h with
             | .error e => pure ({ st with fs := m1 }, [s2l "err-read", s2l (errName e)])
             | .ok d => pure ({ st with fs := m1 }, [s2l "ok", s2l "data", h.name, d.toList]))
        | (m1, .ok _) => pure ({ st with fs := m1 }, [s2l "err", s2l "other"])
    | "os.tree", [root] => some (st, dumpTree st.fs (keyOf root))
    | _, _ => none

end Driver
