import Driver.State
import Model.Direct
open BFS
namespace Driver

structure DState where
  fs : MFS := emptyFS 0

def mkMeta (mode uid gid : Nat) (t : Time) : Meta := { mode := mode, uid := uid, gid := gid, mtime := t }

/-- the history operation a plain call stands for (what `Op.direct` executes); handle-returning
and three-argument calls the histories do not use keep their own path below -/
def opOfCall : Call → Option Op
  | .mkdir n p => some (.mkdir n p)
  | .mkdirAll n p => some (.mkdirAll n p)
  | .remove n => some (.remove n)
  | .removeAll n => some (.removeAll n)
  | .rename o n => some (.rename o n)
  | .symlink o n => some (.symlink o n)
  | .chmod n m => some (.chmod n m)
  | .chown n u g => some (.chown n u g)
  | .lchown n u g => some (.lchown n u g)
  | .chtimes n a t => if a = t then some (.chtimes n t) else none
  | .stat n => some (.stat n)
  | .lstat n => some (.lstat n)
  | .readlink n => some (.readlink n)
  | _ => none

/-- canonical rendering of `Op.direct`'s result (same lines as the composite commands always printed) -/
def showDirect : Except Err DOut → List (List Char)
  | .error e => [s2l "err", s2l (errName e)]
  | .ok .unit => [s2l "ok"]
  | .ok (.written h .ok) => [s2l "ok", h.name]
  | .ok (.written _ (.errWrite e)) => [s2l "err-write", s2l (errName e)]
  | .ok (.written _ (.errClose e)) => [s2l "err-close", s2l (errName e)]
  | .ok (.info i) => s2l "ok" :: s2l "info" :: showInfo i
  | .ok (.str t) => [s2l "ok", s2l "str", t]

/-- run one history operation directly on the layered filesystem `stack` (C03's reference side) -/
def runDirect (st : DState) (stack : List Char) (op : Op) : DState × List (List Char) :=
  let r := Op.direct (buildFS (parseStack stack)) st.fs op
  ({ st with fs := r.1 }, showDirect r.2)

/-- stateful commands on the OS model; returns the new state and the output fields -/
def osCmd (st : DState) : List (List Char) → Option (DState × List (List Char))
  | [] => none
  | c :: args =>
    match String.ofList c, args with
    | "os.begin", [um] => do
        let um ← natOf um
        pure ({ st with fs := emptyFS um }, [s2l "ok"])
    | "os.init", [kind, p, mode, uid, gid, mt, data] => do
        let mode ← natOf mode; let uid ← natOf uid; let gid ← natOf gid; let mt ← timeOf mt
        let k := keyOf p
        let node : Node ← match String.ofList kind with
          | "dir" => some (.dir (mkMeta mode uid gid mt))
          | "file" => some (.file (String.ofList data) (mkMeta mode uid gid mt))
          | "link" => some (.link data (mkMeta 0o777 uid gid mt))
          | _ => none
        pure ({ st with fs := st.fs.set k (some node) }, [s2l "ok"])
    | "os.call", stack :: rest => do
        let call ← parseCall rest
        match opOfCall call with
        | some op => pure (runDirect st stack op)      -- through `Op.direct` (Model/Direct.lean)
        | none =>
          let fs := buildFS (parseStack stack)
          let (m', r) := fs.call st.fs call
          pure ({ st with fs := m' }, showRet r)
    | "os.write", [stack, p, flag, perm, data] => do
        -- OpenFile + Write(data) + Close as one composite: `Op.direct` of the history operation
        let flag ← natOf flag; let perm ← natOf perm
        pure (runDirect st stack (.write p flag perm (String.ofList data)))
    | "os.creat", [stack, p, data] =>
        -- Create + Write(data) + Close as one composite
        some (runDirect st stack (.creat p (String.ofList data)))
    | "os.creatread", [stack, p, data] => do
        -- Create + Write(data) + read back through the same handle + Close
        let fs := buildFS (parseStack stack)
        match fs.call st.fs (.create p) with
        | (m1, .error e) => pure ({ st with fs := m1 }, [s2l "err", s2l (errName e)])
        | (m1, .ok (.handle h)) =>
          let (m2, wr) := if data = [] then (m1, Except.ok ()) else fs.hwrite m1 h 0 (String.ofList data)
          (match wr with
           | .error e => pure ({ st with fs := m2 }, [s2l "err-write", s2l (errName e)])
           | .ok () =>
             match fs.hread m2 h with
             | .error e => pure ({ st with fs := m2 }, [s2l "err-read", s2l (errName e)])
             | .ok d => pure ({ st with fs := m2 }, [s2l "ok", h.name, d.toList]))
        | (m1, .ok _) => pure ({ st with fs := m1 }, [s2l "err", s2l "other"])
    | "os.read", [stack, p] => do
        -- Open + ReadAll (file) or Readdirnames(-1) sorted (directory) + Close
        let fs := buildFS (parseStack stack)
        match fs.call st.fs (.open_ p) with
        | (m1, .error e) => pure ({ st with fs := m1 }, [s2l "err", s2l (errName e)])
        | (m1, .ok (.handle h)) =>
          if h.isDir then
            (match fs.hreaddirnames m1 h with
             | .error e => pure ({ st with fs := m1 }, [s2l "err-list", s2l (errName e)])
             | .ok names => pure ({ st with fs := m1 }, s2l "ok" :: s2l "names" :: h.name :: sortStrings names))
          else
            (match fs.hread m1 h with
             | .error e => pure ({ st with fs := m1 }, [s2l "err-read", s2l (errName e)])
             | .ok d => pure ({ st with fs := m1 }, [s2l "ok", s2l "data", h.name, d.toList]))
        | (m1, .ok _) => pure ({ st with fs := m1 }, [s2l "err", s2l "other"])
    | "os.fstat", [stack, p] => do
        -- Open + File.Stat + Close: the name of the handle and the FileInfo it reports
        let fs := buildFS (parseStack stack)
        match fs.call st.fs (.open_ p) with
        | (m1, .error e) => pure ({ st with fs := m1 }, [s2l "err", s2l (errName e)])
        | (m1, .ok (.handle h)) =>
          (match fs.hstat m1 h with
           | .error e => pure ({ st with fs := m1 }, [s2l "err-stat", s2l (errName e)])
           | .ok i => pure ({ st with fs := m1 }, s2l "ok" :: h.name :: showInfo i))
        | (m1, .ok _) => pure ({ st with fs := m1 }, [s2l "err", s2l "other"])
    | "os.tree", [root] => some (st, dumpTree st.fs (keyOf root))
    | _, _ => none

end Driver
