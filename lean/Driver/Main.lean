import Model
import Driver.Codec
import Driver.Pure
import Driver.Layers
import Driver.OS
import Driver.BFS
open Driver

def dispatch (st : BState) (fs : List (List Char)) : BState × String :=
  match pureCmd fs with
  | some out => (st, outFields out)
  | none =>
  match layerCmd fs with
  | some out => (st, outFields out)
  | none =>
  match osCmd { fs := st.w.fs } fs with
  | some (st', out) => ({ st with w := { st.w with fs := st'.fs } }, outFields out)
  | none =>
  match bfsCmd st fs with
  | some (st', out) => (st', outFields out)
  | none => (st, "bad-op")

partial def loop (hin hout : IO.FS.Stream) (st : BState) : IO Unit := do
  let line ← hin.getLine
  if line.isEmpty then return ()
  let line := if line.endsWith "\n" then (line.dropEnd 1).toString else line
  let (st', out) := dispatch st (fields line)
  hout.putStrLn out
  loop hin hout st'

def main : IO Unit := do
  let hin ← IO.getStdin
  let hout ← IO.getStdout
  loop hin hout {}
  hout.flush
