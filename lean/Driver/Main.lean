import Model
import Driver.Codec
import Driver.Pure
import Driver.Layers
import Driver.OS
import Driver.BFS
import Driver.Listing
import Driver.JsonText
open Driver

def dispatch (stl : BState × LState) (fs : List (List Char)) : (BState × LState) × String :=
  let st := stl.1
  match jsonTextCmd fs with
  | some out => (stl, outFields out)
  | none =>
  match pureCmd fs with
  | some out => (stl, outFields out)
  | none =>
  match layerCmd fs with
  | some out => (stl, outFields out)
  | none =>
  match osCmd { fs := st.w.fs } fs with
  | some (st', out) => (({ st with w := { st.w with fs := st'.fs } }, stl.2), outFields out)
  | none =>
  match bfsCmd st fs with
  | some (st', out) => ((st', stl.2), outFields out)
  | none =>
  match listCmd stl.2 fs with
  | some (l', out) => ((st, l'), outFields out)
  | none => (stl, "bad-op")

partial def loop (hin hout : IO.FS.Stream) (st : BState × LState) : IO Unit := do
  let line ← hin.getLine
  if line.isEmpty then return ()
  let line := if line.endsWith "\n" then (line.dropEnd 1).toString else line
  let (st', out) := dispatch st (fields line)
  hout.putStrLn out
  loop hin hout st'

def main : IO Unit := do
  let hin ← IO.getStdin
  let hout ← IO.getStdout
  loop hin hout ({}, {})
  hout.flush
