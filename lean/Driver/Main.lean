import Model
import Driver.Codec
import Driver.Pure
import Driver.Layers
open Driver

def dispatch (fs : List (List Char)) : String :=
  match pureCmd fs with
  | some out => outFields out
  | none =>
  match layerCmd fs with
  | some out => outFields out
  | none => "bad-op"

partial def loop (hin hout : IO.FS.Stream) : IO Unit := do
  let line ← hin.getLine
  if line.isEmpty then return ()
  let line := if line.endsWith "\n" then (line.dropEnd 1).toString else line
  hout.putStrLn (dispatch (fields line))
  loop hin hout

def main : IO Unit := do
  let hin ← IO.getStdin
  let hout ← IO.getStdout
  loop hin hout
  hout.flush
