import Model
import Driver.Codec
open BFS
namespace Driver

def b2s (b : Bool) : List Char := if b then "true".toList else "false".toList

/-- commands over the pure path algebra; `none` = unknown command -/
def pureCmd : List (List Char) → Option (List (List Char))
  | [] => none
  | c :: args =>
    match String.ofList c, args with
    | "clean", [p] => some [clean p]
    | "dir", [p] => some [dir p]
    | "base", [p] => some [base p]
    | "iter", [p] => some (iterateDirTree p)
    | "isabs", [p] => some [b2s (isAbs p)]
    | "join", [a, b] => some [join a b]
    | "rel", [a, b] => some (match rel a b with | some r => ["ok".toList, r] | none => ["err".toList])
    | "relinside", [a, b] => some (match relInside a b with | some r => ["ok".toList, r] | none => ["out".toList])
    | "less", [a, b] => some [b2s (lessFPS a b)]
    | "toabs", [a, b] => some [toAbsSymlink a b]
    | "trimprefix", [a, b] => some [trimPrefix a b]
    | "sortmost", rest => some (sortMost rest)
    | "sortleast", rest => some (sortLeast rest)
    | "sortstrings", rest => some (sortStrings rest)
    | _, _ => none

end Driver
