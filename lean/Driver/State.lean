import Model
import Driver.Codec
import Driver.Layers
open BFS
namespace Driver

/-- the layer stack between a caller and the OS model, outermost first -/
inductive LayerSpec
  | pfx (p : Path)
  | hidden (hs : List Path)
  | volume
deriving Repr, Inhabited

/-- parse "prefix=/a|hidden=/x,/y|volume" (outermost first); the empty string is the bare OS -/
def parseStack (s : List Char) : List LayerSpec :=
  if s = [] then [] else
  let parts := (String.ofList s).splitOn "|"
  parts.filterMap (fun part =>
    if part.startsWith "prefix=" then some (.pfx (part.drop 7).toString.toList)
    else if part.startsWith "hidden=" then
      let body := (part.drop 7).toString
      some (.hidden (if body = "" then [] else (body.splitOn ",").map String.toList))
    else if part = "volume" then some .volume
    else none)

def buildFS : List LayerSpec → FSI MFS
  | [] => osfs
  | .pfx p :: rest => prefixFS p (buildFS rest)
  | .hidden hs :: rest => hiddenFS hs (buildFS rest)
  | .volume :: rest => volumeFS (buildFS rest)

def emptyFS (umask : Nat) : MFS :=
  { get := fun k => if k = [] then some (.dir { mode := 0o755, uid := 0, gid := 0, mtime := .fresh }) else none,
    dom := [[]], umask := umask }

def keyOf (p : Path) : Key := (cleanC p).comps

def kindName : Kind → String
  | .file => "file" | .dir => "dir" | .link => "link"

def showInfo (i : Info) : List (List Char) :=
  [i.name, s2l (kindName i.kind), natStr i.perm, natStr (if i.kind = .file then i.size else 0),
   natStr i.uid, natStr i.gid, if i.kind = .link then s2l "-" else timeStr i.mtime]

def showRet : Except Err Ret → List (List Char)
  | .error e => [s2l "err", s2l (errName e)]
  | .ok .unit => [s2l "ok"]
  | .ok (.info i) => s2l "ok" :: s2l "info" :: showInfo i
  | .ok (.str s) => [s2l "ok", s2l "str", s]
  | .ok (.handle h) => [s2l "ok", s2l "handle", h.name]

def renderKey (k : Key) : Path := '/' :: joinSep k

/-- canonical dump of the live entries at or below `root` (root itself excluded), sorted by path;
paths are printed relative to `root` -/
def dumpTree (m : MFS) (root : Key) : List (List Char) :=
  let keys := (m.dom.filter (fun k => root.isPrefixOf k && k ≠ root && (m.get k).isSome)).eraseDups
  let paths := sortStrings (keys.map renderKey)
  let rootLen := (renderKey root).length
  paths.flatMap (fun p =>
    let k := keyOf p
    let rel := if root = [] then p else p.drop rootLen
    match m.get k with
    | none => []
    | some (.file c mt) => [rel, s2l "file", natStr mt.mode, natStr mt.uid, natStr mt.gid, timeStr mt.mtime, c.toList]
    | some (.dir mt) => [rel, s2l "dir", natStr mt.mode, natStr mt.uid, natStr mt.gid, timeStr mt.mtime, []]
    | some (.link t mt) =>
      -- absolute targets are shown relative to the dumped view
      let rp := renderKey root
      let t' := if root = [] then t
        else if t = rp then ['/']
        else if hasPrefix t (rp ++ ['/']) then t.drop rootLen
        else t
      [rel, s2l "link", natStr 0o777, natStr mt.uid, natStr mt.gid, s2l "-", t'])

end Driver
