import Model
import Driver.Codec
open BFS
namespace Driver

def s2l (s : String) : List Char := s.toList

def errName : Err → String
  | .notExist => "notExist" | .notDir => "notDir" | .exist => "exist" | .notEmpty => "notEmpty"
  | .isDir => "isDir" | .inval => "inval" | .loop => "loop" | .perm => "perm"
  | .hiddenNotExist => "hiddenNotExist" | .hiddenPerm => "hiddenPerm" | .hiddenCheck => "hiddenCheck"
  | .parentCheck => "parentCheck" | .io => "io" | .eof => "eof" | .typeMismatch => "typeMismatch"
  | .emptyPath => "emptyPath" | .other => "other"

def timeOf (s : List Char) : Option Time :=
  if s = s2l "fresh" then some .fresh else (intOf s).map Time.old

def timeStr : Time → List Char
  | .fresh => s2l "fresh"
  | .old ns => s2l (toString ns)

def natStr (n : Nat) : List Char := s2l (toString n)
def intStr (n : Int) : List Char := s2l (toString n)

/-- parse `<method> <args…>` into a `Call` -/
def parseCall : List (List Char) → Option Call
  | m :: args =>
    match String.ofList m, args with
    | "create", [n] => some (.create n)
    | "mkdir", [n, p] => (natOf p).map (.mkdir n)
    | "mkdirall", [n, p] => (natOf p).map (.mkdirAll n)
    | "open", [n] => some (.open_ n)
    | "openfile", [n, f, p] => do let f ← natOf f; let p ← natOf p; pure (.openFile n f p)
    | "remove", [n] => some (.remove n)
    | "removeall", [n] => some (.removeAll n)
    | "rename", [o, n] => some (.rename o n)
    | "stat", [n] => some (.stat n)
    | "chmod", [n, m] => (natOf m).map (.chmod n)
    | "chown", [n, u, g] => do let u ← intOf u; let g ← intOf g; pure (.chown n u g)
    | "chtimes", [n, a, t] => do let a ← timeOf a; let t ← timeOf t; pure (.chtimes n a t)
    | "lstat", [n] => some (.lstat n)
    | "symlink", [o, n] => some (.symlink o n)
    | "readlink", [n] => some (.readlink n)
    | "lchown", [n, u, g] => do let u ← intOf u; let g ← intOf g; pure (.lchown n u g)
    | _, _ => none
  | [] => none

def showCall : Call → List (List Char)
  | .create n => [s2l "create", n]
  | .mkdir n p => [s2l "mkdir", n, natStr p]
  | .mkdirAll n p => [s2l "mkdirall", n, natStr p]
  | .open_ n => [s2l "open", n]
  | .openFile n f p => [s2l "openfile", n, natStr f, natStr p]
  | .remove n => [s2l "remove", n]
  | .removeAll n => [s2l "removeall", n]
  | .rename o n => [s2l "rename", o, n]
  | .stat n => [s2l "stat", n]
  | .chmod n m => [s2l "chmod", n, natStr m]
  | .chown n u g => [s2l "chown", n, intStr u, intStr g]
  | .chtimes n a t => [s2l "chtimes", n, timeStr a, timeStr t]
  | .lstat n => [s2l "lstat", n]
  | .symlink o n => [s2l "symlink", o, n]
  | .readlink n => [s2l "readlink", n]
  | .lchown n u g => [s2l "lchown", n, intStr u, intStr g]

def showTranslated : Except Err Call → List (List Char)
  | .error e => [s2l "err", s2l (errName e)]
  | .ok c => s2l "call" :: showCall c

def layerCmd : List (List Char) → Option (List (List Char))
  | [] => none
  | c :: args =>
    match String.ofList c, args with
    | "prefix.call", pre :: rest => (parseCall rest).map (fun c => showTranslated (PrefixFS.translate (PrefixFS.mk pre) c))
    | "prefix.readlink", [pre, stored] => some [PrefixFS.readlinkPost (PrefixFS.mk pre) stored]
    | "prefix.name", [pre, fp, bn] => some [PrefixFS.reportedName (PrefixFS.mk pre) fp bn]
    | "prefix.infoname", [pre, fp, bn] => some [PrefixFS.reportedInfoName (PrefixFS.mk pre) fp bn]
    | "volume.call", rest => (parseCall rest).map (fun c => showTranslated (VolumeFS.translate c))
    | "volume.readlink", [stored] => some [VolumeFS.readlinkPost stored]
    | "volume.name", [fp, bn] => some [VolumeFS.reportedName fp bn]
    | "hidden.call", n :: rest => do
        let n ← natOf n
        let hs := rest.take n
        let c ← parseCall (rest.drop n)
        pure (showTranslated (HiddenFS.translate (HiddenFS.mk hs) c))
    | _, _ => none

end Driver
