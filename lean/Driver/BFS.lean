import Model.NewWithFS
import Model.Restart
import Driver.OS
open BFS
namespace Driver

structure BState where
  w : World := { fs := emptyFS 0 }
  baseStack : List LayerSpec := []
  backupStack : List LayerSpec := []
  /-- `some (loc, inner)`: the BackupFS was built by the constructor `NewWithFS(inner, loc)` -/
  ctor : Option (Path × List LayerSpec) := none

def BState.cfg (b : BState) : Cfg :=
  match b.ctor with
  | some (loc, inner) => newWithFS (buildFS inner) loc      -- Model/NewWithFS.lean
  | none => { base := buildFS b.baseStack, backup := buildFS b.backupStack }

def showUnit : Except Err Unit → List (List Char)
  | .ok () => [s2l "ok"]
  | .error e => [s2l "err", s2l (errName e)]

def showInfoOpt : Option Info → List (List Char)
  | none => [s2l "nil"]
  | some i => [s2l (kindName i.kind), natStr i.perm, natStr (if i.kind = .file then i.size else 0),
      natStr i.uid, natStr i.gid, if i.kind = .link then s2l "-" else timeStr i.mtime]

def showEvent (e : Event) : List Char :=
  s2l (e.sig.side.name ++ "." ++ e.sig.method ++ "(") ++
    (String.intercalate "," (e.sig.args.map String.ofList)).toList ++ s2l ")"

def parseSide (s : List Char) : Option Side :=
  if s = s2l "base" then some .base else if s = s2l "backup" then some .backup else none

def showWritten (h : WHandle) : WriteOutcome → List (List Char)
  | .ok => [s2l "ok", h.h.name]
  | .errWrite e => [s2l "err-write", s2l (errName e)]
  | .errClose e => [s2l "err-close", s2l (errName e)]

def showOut : OpOut → List (List Char)
  | .unit => [s2l "ok"]
  | .written h o => showWritten h o
  | .info i => s2l "ok" :: s2l "info" :: showInfo i
  | .str s => [s2l "ok", s2l "str", s]

/-- the operation a `bfs.op` line names (the histories of Model/History.lean) -/
def parseOp (kind : String) (args : List (List Char)) : Option Op :=
  match kind, args with
  | "creat", [p, data] => some (.creat p (String.ofList data))
  | "write", [p, flag, perm, data] => do
      let flag ← natOf flag; let perm ← natOf perm
      pure (.write p flag perm (String.ofList data))
  | "mkdir", [p, m] => (natOf m).map (Op.mkdir p)
  | "mkdirall", [p, m] => (natOf m).map (Op.mkdirAll p)
  | "remove", [p] => some (.remove p)
  | "removeall", [p] => some (.removeAll p)
  | "rename", [o, n] => some (.rename o n)
  | "symlink", [o, n] => some (.symlink o n)
  | "chmod", [p, m] => (natOf m).map (Op.chmod p)
  | "chown", [p, u, g] => do
      let u ← intOf u; let g ← intOf g
      pure (.chown p u g)
  | "lchown", [p, u, g] => do
      let u ← intOf u; let g ← intOf g
      pure (.lchown p u g)
  | "chtimes", [p, t] => (timeOf t).map (Op.chtimes p)
  | "stat", [p] => some (.stat p)
  | "lstat", [p] => some (.lstat p)
  | "readlink", [p] => some (.readlink p)
  | "force", [p] => some (.force p)
  | _, _ => none

def runOp (cfg : Cfg) (kind : String) (args : List (List Char)) : Option (M (List (List Char))) :=
  match kind, args with
  | "read", [p] => some (do
      let h ← BackupFS.openFile cfg p O_RDONLY 0
      let fi ← hStat cfg h
      if fi.isDir then
        let names ← hReaddirnames cfg h
        let _ ← attempt (hClose h)
        pure (s2l "ok" :: s2l "names" :: h.h.name :: sortStrings names)
      else
        let d ← peek cfg h
        let _ ← attempt (hClose h)
        pure [s2l "ok", s2l "data", h.h.name, d.toList])
  | "fstat", [p] => some (do
      let h ← BackupFS.openFile cfg p O_RDONLY 0
      let fi ← hStat cfg h
      let _ ← attempt (hClose h)
      pure (s2l "ok" :: h.h.name :: showInfo fi))
  | "creatread", [p, data] => some (do
      -- Create, write, read the content back through the same handle, close (the handle's access
      -- mode decides whether the read is allowed: `MFS.hread`)
      let h ← BackupFS.create cfg p
      let data := String.ofList data
      match ← attempt (whenM (!data.isEmpty) (hWrite cfg h 0 data)) with
      | .error e =>
        let _ ← attempt (hClose h)
        pure [s2l "err-write", s2l (errName e)]
      | .ok () =>
        match ← attempt (do hRead h; peek cfg h) with
        | .error e =>
          let _ ← attempt (hClose h)
          pure [s2l "err-read", s2l (errName e)]
        | .ok d =>
          match ← attempt (hClose h) with
          | .error e => pure [s2l "err-close", s2l (errName e)]
          | .ok () => pure [s2l "ok", h.h.name, d.toList])
  | _, _ => (parseOp kind args).map (fun op => do
      let out ← op.exec cfg
      pure (showOut out))

def bfsCmd (st : BState) : List (List Char) → Option (BState × List (List Char))
  | [] => none
  | c :: args =>
    match String.ofList c, args with
    | "bfs.begin", [um, bs, ks] => do
        let um ← natOf um
        -- "newwithfs=<location>|<inner stack>": the documented constructor builds both sides
        if hasPrefix bs (s2l "newwithfs=") then
          let body := String.ofList (bs.drop 10)
          match body.splitOn "|" with
          | loc :: rest =>
            pure ({ w := { fs := emptyFS um }, ctor := some (loc.toList, parseStack (String.intercalate "|" rest).toList) }, [s2l "ok"])
          | [] => none
        else
          pure ({ w := { fs := emptyFS um }, baseStack := parseStack bs, backupStack := parseStack ks }, [s2l "ok"])
    | "bfs.op", kind :: rest => do
        let m ← runOp st.cfg (String.ofList kind) rest
        match m st.w with
        | (w', .ok out) => pure ({ st with w := w' }, out)
        | (w', .error e) => pure ({ st with w := w' }, [s2l "err", s2l (errName e)])
    | "bfs.rollback", [] =>
        match BackupFS.rollback st.cfg st.w with
        | (w', .ok false) => some ({ st with w := w' }, [s2l "ok"])
        | (w', .ok true) => some ({ st with w := w' }, [s2l "err", s2l "rollbackFailed"])
        | (w', .error e) => some ({ st with w := w' }, [s2l "err", s2l (errName e)])
    | "bfs.map", [] =>
        let ps := sortStrings (st.w.infos.map (·.1))
        some (st, ps.flatMap (fun p => p :: showInfoOpt ((st.w.infos.lookup p).join)))
    | "bfs.persisttext", [] =>
        -- the text `MarshalJSON` writes for the tracked map (Model/JsonText.lean `persistText`), with what
        -- the harness cannot reproduce masked on both sides: sizes of directories and links, mtimes of
        -- links (instants stamped during the case are 0 in the model anyway)
        let mask : Path × Option Info → Path × Option Info := fun e =>
          (e.1, e.2.map (fun i => match i.kind with
            | .file => i
            | .dir => { i with size := 0 }
            | .link => { i with size := 0, mtime := .fresh }))
        some (st, [BFS.JsonText.persistText (st.w.infos.map mask)])
    | "bfs.reload", [] =>
        -- MarshalJSON, process restart, UnmarshalJSON into a fresh BackupFS over the same filesystems
        some ({ st with w := restart st.w }, [s2l "ok"])      -- Model/Restart.lean
    | "bfs.trace", [mode] =>
        -- "mut": mutating events only; "all": every event
        let evs := st.w.trace.reverse
        let evs := if mode = s2l "mut" then evs.filter (·.mutating) else evs
        let shown := evs.map showEvent
        -- "sorted": every event, as a multiset (Rollback's first loop iterates a Go map)
        let shown := if mode = s2l "sorted" then sortStrings shown else shown
        some ({ st with w := { st.w with trace := [] } }, shown)
    | "bfs.faults", rest =>
        -- triples: side method occ nargs args…
        let rec go (fs : List (List Char)) (fuel : Nat) (acc : List Fault) : Option (List Fault) :=
          match fuel, fs with
          | _, [] => some acc.reverse
          | 0, _ => none
          | fuel + 1, side :: method :: occ :: n :: more => do
            let side ← parseSide side
            let occ ← natOf occ
            let n ← natOf n
            go (more.drop n) fuel ({ sig := { side := side, method := String.ofList method, args := more.take n }, occ := occ } :: acc)
          | _, _ => none
        (go rest (rest.length + 1) []).map (fun fl => ({ st with w := { st.w with faults := fl, seen := [] } }, [s2l "ok"]))
    | _, _ => none

end Driver
