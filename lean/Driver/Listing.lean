import Driver.BFS
open BFS
namespace Driver

structure LState where
  hs : List Path := []
  dir : Path := []
  rem : List Name := []

def listCmd (st : LState) : List (List Char) → Option (LState × List (List Char))
  | [] => none
  | c :: args =>
    match String.ofList c, args with
    | "list.begin", dir :: n :: rest => do
        let n ← natOf n
        pure ({ hs := HiddenFS.mk (rest.take n), dir := dir, rem := rest.drop n }, [s2l "ok"])
    | "list.names", [count] => do
        let count ← intOf count
        let (out, rem') := hiddenReaddirnames st.hs st.dir count st.rem
        pure ({ st with rem := rem' }, match out with
          | .names l => s2l "ok" :: l
          | .eof => [s2l "eof"]
          | .failed e => [s2l "err", s2l (errName e)])
    | _, _ => none

end Driver
