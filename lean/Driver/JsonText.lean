import Model.JsonText
import Driver.Codec
/-!
  Driver/JsonText.lean — line-protocol commands that expose Model/JsonText.lean, so that the
  harness can compare it with the real `encoding/json` on `map[string]*fInfo`.

  Fields are TAB-separated and escaped with `Driver.escape`/`unescape` (Driver/Codec.lean), like
  every other command.

    json.encode  (<key> nil | <key> fi <name> <mode> <mod_time> <size> <uid> <gid>)*
        → one field: the text `json.Marshal(map[string]*fInfo{…})` produces (later duplicates of a
          key replace earlier ones, as assignments to a Go map do)
    json.decode  <text>
        → `none`                                   (Go returns an error, or not modelled)
        → `ok` (<key> nil | <key> fi <name> <mode> <mod_time> <size> <uid> <gid>)*
          sorted by key (`sort.Strings`)
    json.decodeb <text>     → like json.decode, but every entry as the accessors of the re-created
                               instance show it (base of the name, uid/gid through uint32)
    json.string  <s>        → one field: `json.Marshal(s)`
    json.unstring <text>    → `ok` <s> | `none`: `json.Unmarshal(text, &s)` for a text that is
                               exactly one string literal
-/
open BFS BFS.JsonText
namespace Driver

def renderEntry (e : List Char × Option FInfo) : List (List Char) :=
  match e.2 with
  | none => [e.1, "nil".toList]
  | some f => [e.1, "fi".toList, f.fileName, (toString f.fileMode).toList,
      (toString f.fileModTime).toList, (toString f.fileSize).toList, (toString f.fileUid).toList,
      (toString f.fileGid).toList]

/-- the argument list of `json.encode`; `none` = malformed -/
def parseEntries : Nat → List (List Char) → Option (List (List Char × Option FInfo))
  | 0, _ => none
  | _ + 1, [] => some []
  | fuel + 1, k :: tag :: rest =>
    if tag = "nil".toList then (parseEntries fuel rest).map (fun l => (k, none) :: l)
    else if tag = "fi".toList then
      match rest with
      | name :: mode :: mt :: size :: uid :: gid :: rest' =>
        match natOf mode, intOf mt, intOf size, intOf uid, intOf gid with
        | some mode, some mt, some size, some uid, some gid =>
          (parseEntries fuel rest').map (fun l => (k, some ⟨name, mode, mt, size, uid, gid⟩) :: l)
        | _, _, _, _, _ => none
      | _ => none
    else none
  | _ + 1, [_] => none

/-- commands over the JSON text model; `none` = unknown command -/
def jsonTextCmd : List (List Char) → Option (List (List Char))
  | [] => none
  | c :: args =>
    match String.ofList c, args with
    | "json.encode", rest =>
      some (match parseEntries (rest.length + 1) rest with
        | some m => [encodeMapL m]
        | none => ["bad-args".toList])
    | "json.decode", [text] =>
      some (match decodeMapL text with
        | some m => "ok".toList :: (m.map renderEntry).flatten
        | none => ["none".toList])
    | "json.decodeb", [text] =>
      -- what the re-created instance lets a caller OBSERVE of every entry: `Name()` = base of the
      -- stored name, `Mode()`, `ModTime().UnixNano()`, `Size()`, `Sys()` = uid/gid through uint32
      some (match decodeMapL text with
        | some m => "ok".toList :: (m.map (fun e => match e.2 with
            | none => [e.1, "nil".toList]
            | some f => [e.1, "fi".toList, base f.fileName, (toString f.fileMode).toList,
                (toString (modTimeNs f.fileModTime)).toList, (toString f.fileSize).toList,
                (toString (viaUint32 f.fileUid)).toList, (toString (viaUint32 f.fileGid)).toList])).flatten
        | none => ["none".toList])
    | "json.string", [s] => some [encStrL s]
    | "json.unstring", [t] =>
      some (match t with
        | q :: r =>
          if q = '"' then
            match decStr r with
            | some (s, []) => ["ok".toList, s]
            | _ => ["none".toList]
          else ["none".toList]
        | [] => ["none".toList])
    | _, _ => none

/-- the same on raw protocol strings: already split fields in, one output line out -/
def jsonTextCmdS (fs : List String) : Option String :=
  (jsonTextCmd (fs.map String.toList)).map outFields

end Driver
