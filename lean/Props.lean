import Props.C19
import Props.C05
import Props.C06
import Props.C15
import Props.C18
import Props.C14
