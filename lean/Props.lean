import Props.C19
