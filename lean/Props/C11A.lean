import Lemmas.FlowCheck
/-!
# C11 — facts about the CURRENT Go sources (regenerated on every run), decided by the kernel

`Generated.flowFacts` is written by the harness (`vharness -stream astfacts`, go/ast) from /repo's
working tree before every build; the predicates are defined in `Lemmas/FlowCheck.lean`.  A change to
the sources that alters how names flow through the methods changes the facts, and these theorems no
longer build — whether or not a generated input happens to exhibit the difference.
-/
namespace Props.C11
open Flow Generated

/-- `HiddenFS.Rename` tests both names for being an ancestor of a hidden path -/
theorem source_rename_checks_ancestors : renameChecksAncestors flowFacts = true := by decide +kernel

end Props.C11
