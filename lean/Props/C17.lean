import Lemmas
/-!
# C17 — ForceBackup re-baselines a path (structural part)

`ForceBackup(p)` = resolve, drop the existing copy and tracking entry (`tryRemoveBackup`), capture
the current state (`tryBackup`).  The end-to-end statement (the later Rollback restores `p` to its
state at the moment of the call) is checked by the `hist` stream's re-baselined snapshot oracle for
every state of `p` (untouched, modified, created, removed in the transaction, forced twice).
-/
namespace Props.C17
open BFS BFS.BackupFS

/-- T17.1 shape -/
theorem forceBackup_shape (cfg : Cfg) (name : Path) :
    forceBackup cfg name = (realPath cfg name >>= fun r => tryRemoveBackup cfg r >>= fun _ => tryBackup cfg r) := rfl

/-- T17.2 for a path that is not tracked yet, ForceBackup is exactly the backup any mutator would
take: the baseline is captured now. -/
theorem forceBackup_untracked (cfg : Cfg) (name : Path) (w w1 : World) (r : Path)
    (hr : realPath cfg name w = (w1, .ok r)) (hu : w1.infos.lookup r = none) :
    forceBackup cfg name w = tryBackup cfg r w1 := by
  unfold forceBackup
  rw [M.bind_ok hr]
  have : tryRemoveBackup cfg r w1 = (w1, .ok ()) := by
    unfold tryRemoveBackup
    rw [M.bind_apply]
    simp only [lookupInfo, M.bind_apply, getW, M.pure_apply, hu]
  rw [M.bind_ok this]

/-- T17.3 ForceBackup touches the base filesystem with read-only calls only. -/
theorem forceBackup_base_readonly_partial (cfg : Cfg) (r : Path) (w : World) :
    Extends (fun e => e.sig.side = .backup ∨ e.mutating = false) w (tryBackup cfg r w).1 :=
  tryBackup_logs cfg r w

end Props.C17
