import Lemmas
/-!
# C17 — ForceBackup re-baselines a path (structural part)

`ForceBackup(p)` = resolve, drop the existing copy and tracking entry (`tryRemoveBackup`), capture
the current state (`tryBackup`).  The end-to-end statement (the later Rollback restores `p` to its
state at the moment of the call) is checked by the `hist` stream's re-baselined snapshot oracle for
every state of `p` (untouched, modified, created, removed in the transaction, forced twice).
-/
namespace Props.C17
open BFS BFS.BackupFS

/-- T17.1 shape -/
theorem forceBackup_shape (cfg : Cfg) (name : Path) :
    forceBackup cfg name = (realPath cfg name >>= fun r => tryRemoveBackup cfg r >>= fun _ => tryBackup cfg r) := rfl

/-- T17.2 for a path that is not tracked yet, ForceBackup is exactly the backup any mutator would
take: the baseline is captured now. -/
theorem forceBackup_untracked (cfg : Cfg) (name : Path) (w w1 : World) (r : Path)
    (hr : realPath cfg name w = (w1, .ok r)) (hu : w1.infos.lookup r = none) :
    forceBackup cfg name w = tryBackup cfg r w1 := by
  unfold forceBackup
  rw [M.bind_ok hr]
  have : tryRemoveBackup cfg r w1 = (w1, .ok ()) := by
    unfold tryRemoveBackup
    rw [M.bind_apply]
    simp only [lookupInfo, M.bind_apply, getW, M.pure_apply, hu]
  rw [M.bind_ok this]

/-- T17.3 ForceBackup touches the base filesystem with read-only calls only. -/
theorem forceBackup_base_readonly_partial (cfg : Cfg) (r : Path) (w : World) :
    Extends (fun e => e.sig.side = .backup ∨ e.mutating = false) w (tryBackup cfg r w).1 :=
  tryBackup_logs cfg r w

/-!
### C17 — ForceBackup re-baselines a path (end-to-end part, link-free fragment)

Main theorem (`forceBackup_rebaselines_linkfree_partial`): for the OS model behind two `PrefixFS`
layers, every well-formed link-free disk, every covered history `ops₁`, a *successful*
`ForceBackup(p)` for a path `p` that was not a directory when the transaction began and is not one
at the moment of the call, whose parent directory predates the transaction, and every covered
history `ops₂` after it: the later Rollback leaves `p` *exactly* as it was at the moment of the
ForceBackup call (content, type, mode, owner, modification time — or absent, if it was absent
then), and every other entry of the base below its root as it was when the transaction began
(directory timestamps erased, as in C01).

The generic proof is in Lemmas/Force.lean and Lemmas/ForceWalk.lean: `tryRemoveBackup` drops the
tracking entry and the old copy — or, when the backup holds a directory at a path tracked as "did not
exist", walks that directory, deleting files, entries and finally the directories, all at or below
`p` (`Below`, `Inv.below`) — after which the transaction invariant of C01 holds for the original view
*re-based at `p`* (`Inv.del_rebase`); `tryBackup` and all later covered operations keep that
invariant (`sat_tryBackup`, `history_keeps`), and `sat_rollback` restores from it.  Nothing is assumed
about the backup filesystem.

`_partial`: the limits of C01 (no symlinks, absolute names, `Covered` operations, …); one
ForceBackup per history (a second one is covered when its path satisfies the same hypotheses w.r.t.
the re-based view: `sat_forceBackup_full` is stated for any reference view).
-/


theorem osView_isDirAt_of {bk kk : Key} {s : Side} {m : MFS} {k : Key}
    (h : (osView bk kk s m).isDirAt k) : ∃ mt, m.get (osRoot bk kk s ++ k) = some (.dir mt) := by
  obtain ⟨mt, hmt⟩ := h
  unfold osView at hmt
  cases hget : m.get (osRoot bk kk s ++ k) with
  | none => rw [hget] at hmt; cases hmt
  | some n =>
    rw [hget] at hmt
    cases n with
    | dir mt' => exact ⟨mt', rfl⟩
    | file c mt' => simp [eraseMt] at hmt
    | link t mt' => simp [eraseMt] at hmt

theorem osView_isDirAt_mk {bk kk : Key} {s : Side} {m : MFS} {k : Key} {mt : Meta}
    (h : m.get (osRoot bk kk s ++ k) = some (.dir mt)) : (osView bk kk s m).isDirAt k :=
  ⟨{ mt with mtime := .fresh }, by unfold osView; rw [h]; rfl⟩

/-- the view erases directory timestamps only: where one side is not a directory, equal views mean
equal nodes -/
theorem eraseMt_exact {a b : Option Node} (h : a.map eraseMt = b.map eraseMt)
    (hb : ∀ mt, b ≠ some (.dir mt)) : a = b := by
  cases b with
  | none =>
    cases a with
    | none => rfl
    | some n => simp at h
  | some n' =>
    cases a with
    | none => simp at h
    | some n =>
      cases n' with
      | dir mt => exact absurd rfl (hb mt)
      | file c mt => cases n <;> simp_all [eraseMt]
      | link t mt => cases n <;> simp_all [eraseMt]

/-- T17.main  ForceBackup re-baselines a non-directory path — link-free fragment (see the header
for what is excluded).  `k` is `p` as a list of components below the base root. -/
theorem forceBackup_rebaselines_linkfree_partial (bk kk : Key) (hbk : PKey bk) (hkk : PKey kk)
    (hne1 : bk ≠ []) (hne2 : kk ≠ []) (hd1 : ¬ bk <+: kk) (hd2 : ¬ kk <+: bk)
    (w : World) (hg : OSGood bk kk w.fs) (hinfos : w.infos = []) (hnf : w.faults = [])
    (ops₁ ops₂ : List Op) (name : Path) (k : Key) (hk : PKey k) (hname : clean name = kp k)
    (hcov1 : CoveredHist (osCfg bk kk) (osSim bk kk hbk hkk hne1 hne2 hd1 hd2) w ops₁)
    -- `p` was not a directory when the transaction began …
    (horig : ∀ mt, w.fs.get (bk ++ k) ≠ some (.dir mt))
    -- … and is not one at the moment of the call;
    (hnow : ∀ mt, (runOps (osCfg bk kk) w ops₁).fs.get (bk ++ k) ≠ some (.dir mt))
    -- its parent directories predate the transaction;
    (hpar : k ≠ [] ∧ ∃ mt, w.fs.get (bk ++ k.dropLast) = some (.dir mt))
    -- the ForceBackup succeeds
    (hok : (Op.exec (osCfg bk kk) (.force name) (runOps (osCfg bk kk) w ops₁)).2 = .ok .unit)
    (hcov2 : CoveredHist (osCfg bk kk) (osSim bk kk hbk hkk hne1 hne2 hd1 hd2)
      (Op.step (osCfg bk kk) (runOps (osCfg bk kk) w ops₁) (.force name)) ops₂) :
    -- `p` is exactly what it was at the moment of the ForceBackup call …
    (runTx (osCfg bk kk) w (ops₁ ++ .force name :: ops₂)).fs.get (bk ++ k) =
      (runOps (osCfg bk kk) w ops₁).fs.get (bk ++ k) ∧
    -- … and every other path is rolled back as usual
    ∀ j, j ≠ [] → j ≠ k →
      ((runTx (osCfg bk kk) w (ops₁ ++ .force name :: ops₂)).fs.get (bk ++ j)).map eraseMt =
        (w.fs.get (bk ++ j)).map eraseMt := by
  have key := force_in_history_rollback_full (S := osSim bk kk hbk hkk hne1 hne2 hd1 hd2) hg hinfos hnf
    ops₁ ops₂ (name := name) hk hname hcov1
    (fun h => by obtain ⟨mt, hmt⟩ := osView_isDirAt_of h; exact horig mt hmt)
    (fun h => by obtain ⟨mt, hmt⟩ := osView_isDirAt_of h; exact hnow mt hmt)
    ⟨hpar.1, (by obtain ⟨mt, hmt⟩ := hpar.2; exact osView_isDirAt_mk (s := .base) hmt)⟩
    hok hcov2
  constructor
  · have := key k hpar.1
    rw [if_pos rfl] at this
    exact eraseMt_exact this hnow
  · intro j hj hjk
    have := key j hj
    rw [if_neg hjk] at this
    exact this

/-- T17.faults  the same under any fault plan: whatever failed among the operations before and
after the (successful) ForceBackup, once the filesystems are healthy again Rollback leaves `p` as it
was at the moment of the call and every other path as it was when the transaction began; and had the
ForceBackup itself failed, `p` would be rolled back to one of the two (no third state). -/
theorem forceBackup_rebaselines_after_faults_linkfree_partial (bk kk : Key) (hbk : PKey bk) (hkk : PKey kk)
    (hne1 : bk ≠ []) (hne2 : kk ≠ []) (hd1 : ¬ bk <+: kk) (hd2 : ¬ kk <+: bk)
    (w : World) (hg : OSGood bk kk w.fs) (hinfos : w.infos = [])
    (ops₁ ops₂ : List Op) (name : Path) (k : Key) (hk : PKey k) (hname : clean name = kp k)
    (hcov1 : CoveredHist (osCfg bk kk) (osSim bk kk hbk hkk hne1 hne2 hd1 hd2) w ops₁)
    (horig : ∀ mt, w.fs.get (bk ++ k) ≠ some (.dir mt))
    (hnow : ∀ mt, (runOps (osCfg bk kk) w ops₁).fs.get (bk ++ k) ≠ some (.dir mt))
    (hpar : k ≠ [] ∧ ∃ mt, w.fs.get (bk ++ k.dropLast) = some (.dir mt))
    (hcov2 : CoveredHist (osCfg bk kk) (osSim bk kk hbk hkk hne1 hne2 hd1 hd2)
      (Op.step (osCfg bk kk) (runOps (osCfg bk kk) w ops₁) (.force name)) ops₂) :
    let final := (rollback (osCfg bk kk)
      { runOps (osCfg bk kk) w (ops₁ ++ .force name :: ops₂) with faults := [] }).1
    (∀ j, j ≠ [] → j ≠ k → (final.fs.get (bk ++ j)).map eraseMt = (w.fs.get (bk ++ j)).map eraseMt) ∧
    (final.fs.get (bk ++ k) = w.fs.get (bk ++ k) ∨
      final.fs.get (bk ++ k) = (runOps (osCfg bk kk) w ops₁).fs.get (bk ++ k)) ∧
    ((Op.exec (osCfg bk kk) (.force name) (runOps (osCfg bk kk) w ops₁)).2 = .ok .unit →
      final.fs.get (bk ++ k) = (runOps (osCfg bk kk) w ops₁).fs.get (bk ++ k)) := by
  intro final
  obtain ⟨hstep, hiff⟩ := force_step (osCfg bk kk) name (runOps (osCfg bk kk) w ops₁)
  have hrun : runOps (osCfg bk kk) w (ops₁ ++ .force name :: ops₂) =
      runOps (osCfg bk kk) (forceBackup (osCfg bk kk) name (runOps (osCfg bk kk) w ops₁)).1 ops₂ := by
    rw [runOps_append, ← hstep]; rfl
  rw [hstep] at hcov2
  obtain ⟨h1, h2, h3⟩ := force_then_rollback_after_faults_full (S := osSim bk kk hbk hkk hne1 hne2 hd1 hd2) hg hinfos
    ops₁ ops₂ (name := name) hk hname hcov1
    (fun h => by obtain ⟨mt, hmt⟩ := osView_isDirAt_of h; exact horig mt hmt)
    (fun h => by obtain ⟨mt, hmt⟩ := osView_isDirAt_of h; exact hnow mt hmt)
    ⟨hpar.1, (by obtain ⟨mt, hmt⟩ := hpar.2; exact osView_isDirAt_mk (s := .base) hmt)⟩
    hcov2
  rw [← hrun] at h1 h2 h3
  refine ⟨h1, ?_, ?_⟩
  · rcases h2 with h | h
    · exact Or.inl (eraseMt_exact h horig)
    · exact Or.inr (eraseMt_exact h hnow)
  · intro hok
    exact eraseMt_exact (h3 (hiff.mp hok)) hnow

/-- T17.many  any number of (successful) ForceBackups in one history, also of the same path:
after Rollback a path no ForceBackup worked on is as it was when the transaction began, and a forced
path is exactly as it was at the moment of its *last* ForceBackup.  (`Op.CoveredF`: the covered
operations of C01 plus successful ForceBackups of absolute names of non-directory paths whose parent
directory predates the transaction; `forceKey name` is the path as a list of components.) -/
theorem forceBackup_rebaselines_many_linkfree_partial (bk kk : Key) (hbk : PKey bk) (hkk : PKey kk)
    (hne1 : bk ≠ []) (hne2 : kk ≠ []) (hd1 : ¬ bk <+: kk) (hd2 : ¬ kk <+: bk)
    (w : World) (hg : OSGood bk kk w.fs) (hinfos : w.infos = []) (hnf : w.faults = [])
    (ops : List Op)
    (hcov : CoveredHistF (osCfg bk kk) (osSim bk kk hbk hkk hne1 hne2 hd1 hd2) (osView bk kk .base w.fs) w ops) :
    (∀ j, j ≠ [] → (∀ name, Op.force name ∈ ops → forceKey name ≠ j) →
      ((runTx (osCfg bk kk) w ops).fs.get (bk ++ j)).map eraseMt = (w.fs.get (bk ++ j)).map eraseMt) ∧
    (∀ ops₁ name ops₂, ops = ops₁ ++ .force name :: ops₂ →
      (∀ name', Op.force name' ∈ ops₂ → forceKey name' ≠ forceKey name) →
      (runTx (osCfg bk kk) w ops).fs.get (bk ++ forceKey name) =
        (runOps (osCfg bk kk) w ops₁).fs.get (bk ++ forceKey name)) := by
  obtain ⟨h1, h2⟩ := forces_then_rollback (S := osSim bk kk hbk hkk hne1 hne2 hd1 hd2) hg hinfos hnf ops hcov
  refine ⟨h1, ?_⟩
  intro ops₁ name ops₂ he hlast
  have hv := h2 ops₁ name ops₂ he hlast
  subst he
  have hc := (coveredHistF_append (cfg := osCfg bk kk) hcov).1
  have hnow : ¬ (osView bk kk .base (runOps (osCfg bk kk) w ops₁).fs).isDirAt (forceKey name) := hc.2.2.1
  exact eraseMt_exact hv (fun mt e => hnow (osView_isDirAt_mk (s := .base) e))

/-! ### non-vacuity: the hypotheses hold of an ordinary disk and history -/

def isOkUnit : Except Err OpOut → Bool
  | .ok .unit => true
  | _ => false

theorem isOkUnit_eq {r : Except Err OpOut} (h : isOkUnit r = true) : r = .ok .unit := by
  cases r with
  | error e => cases h
  | ok o => cases o <;> first | rfl | cases h

def notDir : Option Node → Bool
  | some (.dir _) => false
  | _ => true

theorem notDir_spec {x : Option Node} (h : notDir x = true) : ∀ mt, x ≠ some (.dir mt) := by
  intro mt e; subst e; cases h

/-- the disk `exDisk` (`/b/f` a file, `/b/d` a directory, backup root `/k`); the history overwrites
`/f`, forces a backup of it, then removes it and makes a directory in its place: every hypothesis of
`forceBackup_rebaselines_linkfree_partial` holds (the theorem then says Rollback leaves `/f` with the
overwritten content) -/
example :
    let cfg := osCfg [['b']] [['k']]
    let w : World := { fs := exDisk }
    let ops₁ : List Op := [.write "/f".toList (O_WRONLY ||| O_TRUNC) 0 "y"]
    let ops₂ : List Op := [.remove "/f".toList, .mkdir "//f/".toList 0o755, .creat "/f/x".toList "z"]
    OSGood [['b']] [['k']] w.fs ∧ w.infos = [] ∧ w.faults = [] ∧
    PKey [['f']] ∧ clean "/f".toList = kp [['f']] ∧
    CoveredHist cfg osSim_example w ops₁ ∧
    (∀ mt, w.fs.get ([['b']] ++ [['f']]) ≠ some (.dir mt)) ∧
    (∀ mt, (runOps cfg w ops₁).fs.get ([['b']] ++ [['f']]) ≠ some (.dir mt)) ∧
    ([['f']] ≠ [] ∧ ∃ mt, w.fs.get ([['b']] ++ [['f']].dropLast) = some (.dir mt)) ∧
    (Op.exec cfg (.force "/f".toList) (runOps cfg w ops₁)).2 = .ok .unit ∧
    CoveredHist cfg osSim_example (Op.step cfg (runOps cfg w ops₁) (.force "/f".toList)) ops₂ := by
  refine ⟨osGood_example, rfl, rfl, (by decide), (by decide), ⟨?_, trivial⟩, ?_, ?_, ⟨(by decide), ⟨_, rfl⟩⟩, ?_,
    ⟨?_, ?_, ?_, trivial⟩⟩
  · show isAbs _ = true; decide
  · exact notDir_spec (by decide +kernel)
  · exact notDir_spec (by decide +kernel)
  · exact isOkUnit_eq (by decide +kernel)
  · show isAbs _ = true ∧ clean _ ≠ rootP; decide
  · show isAbs _ = true; decide
  · show isAbs _ = true; decide

def isDirB : Option Node → Bool
  | some (.dir _) => true
  | _ => false

theorem isDirB_spec {x : Option Node} (h : isDirB x = true) : ∃ mt, x = some (.dir mt) := by
  cases x with
  | none => cases h
  | some n => cases n <;> first | exact ⟨_, rfl⟩ | cases h

/-- `Op.CoveredF` of a ForceBackup from checks that can be evaluated -/
theorem coveredF_force_of {bk kk : Key} {hbk : PKey bk} {hkk : PKey kk} {hne1 : bk ≠ []} {hne2 : kk ≠ []}
    {hd1 : ¬ bk <+: kk} {hd2 : ¬ kk <+: bk} {w0 w : World} {name : Path} {k : Key}
    (hkey : forceKey name = k) (habs : isAbs name = true)
    (h0 : notDir (w0.fs.get (bk ++ k)) = true) (h1 : notDir (w.fs.get (bk ++ k)) = true)
    (hkne : k ≠ []) (hp : isDirB (w0.fs.get (bk ++ k.dropLast)) = true)
    (hok : isOkUnit (Op.exec (osCfg bk kk) (.force name) w).2 = true) :
    Op.CoveredF (osCfg bk kk) (osSim bk kk hbk hkk hne1 hne2 hd1 hd2) (osView bk kk .base w0.fs) w
      (.force name) := by
  show _ ∧ _ ∧ _ ∧ _ ∧ _
  rw [hkey]
  refine ⟨habs, ?_, ?_, ⟨hkne, ?_⟩, isOkUnit_eq hok⟩
  · intro h; obtain ⟨mt, hmt⟩ := osView_isDirAt_of h; exact notDir_spec h0 mt hmt
  · intro h; obtain ⟨mt, hmt⟩ := osView_isDirAt_of h; exact notDir_spec h1 mt hmt
  · obtain ⟨mt, hmt⟩ := isDirB_spec hp; exact osView_isDirAt_mk (s := .base) hmt

/-- a history with three ForceBackups, two of them of the same path, the third of a path that does
not exist: every hypothesis of `forceBackup_rebaselines_many_linkfree_partial` holds -/
example :
    let cfg := osCfg [['b']] [['k']]
    let w : World := { fs := exDisk }
    OSGood [['b']] [['k']] w.fs ∧ w.infos = [] ∧ w.faults = [] ∧
    CoveredHistF cfg osSim_example (osView [['b']] [['k']] .base w.fs) w
      [.write "/f".toList (O_WRONLY ||| O_TRUNC) 0 "y", .force "/f".toList,
       .write "/f".toList (O_WRONLY ||| O_TRUNC) 0 "z", .force "//f/".toList, .remove "/f".toList,
       .force "/n".toList, .creat "/n".toList "q"] := by
  refine ⟨osGood_example, rfl, rfl, ?_, ?_, ?_, ?_, ?_, ?_, ?_, trivial⟩
  · show isAbs _ = true; decide
  · exact coveredF_force_of (k := [['f']]) (by decide) (by decide) (by decide +kernel) (by decide +kernel)
      (by decide) (by decide +kernel) (by decide +kernel)
  · show isAbs _ = true; decide
  · exact coveredF_force_of (k := [['f']]) (by decide) (by decide) (by decide +kernel) (by decide +kernel)
      (by decide) (by decide +kernel) (by decide +kernel)
  · show isAbs _ = true ∧ clean _ ≠ rootP; decide
  · exact coveredF_force_of (k := [['n']]) (by decide) (by decide) (by decide +kernel) (by decide +kernel)
      (by decide) (by decide +kernel) (by decide +kernel)
  · show isAbs _ = true; decide

end Props.C17
