import Lemmas.NXRestoreB
import Lemmas.NSimOS
import Props.C04N
/-!
# C07 — Rollback leaves a clean slate: NESTED (README) layering, link-free trees

Setting of `Props.C04.rollback_restores_nested_linkfree_partial`: `N.nestedCfg bk hk =
NewWithFS (PrefixFS (kp bk) osfs) (kp hk)` — base = `HiddenFS [loc]` over `PrefixFS(root)`, backup =
`PrefixFS(loc)` over the same `PrefixFS(root)`: ONE disk; the backup location is the directory
`bk ++ hk` inside the base tree.  Healthy filesystem (empty fault plan), the location an existing,
EMPTY directory at the start, any number of consecutive transactions, in each any `N`-covered
history (names at/below the location and names of its ancestors included: they are refused).

* `rollback_returns_nil_nested_linkfree_partial` — every Rollback returns nil;
* `backup_location_empty_after_rollback_nested_linkfree_partial` — after the last Rollback nothing is
  left below the location, and the location directory itself is still there, the node it was
  (directory mtime erased);
* `backup_clean_after_rollback_nested_linkfree_partial` — every key at or below the location is what
  it was;
* `whole_tree_as_before_nested_linkfree_partial` — with C04N: EVERY key below the base root, inside
  or outside the location, is what it was before the first operation.

Proof: `N.InvB` (Lemmas/TNInvB.lean, preserved by every covered operation: `N.history_keepsB`) and
the clean-up loops of Rollback over `N.Sim` (Lemmas/NXRestoreB.lean, copy of Lemmas/RestoreB.lean;
the one new obligation — `Remove` in the backup view never meets an "ancestor of a hidden entry" —
holds because nothing is masked on the backup side).
-/
namespace Props.C07
open BFS BFS.BackupFS

private theorem nbv (bk hk dd : Key) (hr : N.NRoots bk hk dd) :
    ∀ k, ¬ (N.nSim bk hk dd hr).Hid .backup k := fun _ h => h
private theorem nbp (bk hk dd : Key) (hr : N.NRoots bk hk dd) :
    ∀ k, ¬ (N.nSim bk hk dd hr).Par .backup k := fun _ h => h

private theorem nempty {bk hk : Key} {w : World} (hempty : ∀ k, k ≠ [] → w.fs.get (bk ++ hk ++ k) = none) :
    ∀ k, k ≠ [] → N.nview bk hk .backup w.fs k = none := by
  intro k hk'
  show (w.fs.get (bk ++ hk ++ k)).map eraseMt = none
  rw [hempty k hk']; rfl

/-- T07.1a-N  Rollback returns nil — nested layering, link-free fragment, healthy filesystem, any
number of transactions: the Rollback that ends each of them reports no error. -/
theorem rollback_returns_nil_nested_linkfree_partial (bk hk dd : Key) (hr : N.NRoots bk hk dd)
    (w : World) (hg : N.NGood bk hk dd w.fs) (hinfos : w.infos = []) (hnf : w.faults = [])
    (hempty : ∀ k, k ≠ [] → w.fs.get (bk ++ hk ++ k) = none)
    (txs : List (List Op))
    (hcov : N.CoveredTxs (N.nestedCfg bk hk) (N.nSim bk hk dd hr) w txs) :
    ∀ pre ops post, txs = pre ++ ops :: post →
      (rollback (N.nestedCfg bk hk)
        (runOps (N.nestedCfg bk hk) (pre.foldl (runTx (N.nestedCfg bk hk)) w) ops)).2 = .ok false :=
  (N.txs_clean (S := N.nSim bk hk dd hr) (nbv bk hk dd hr) (nbp bk hk dd hr) txs w hg hinfos hnf
    (nempty hempty) hcov).2

/-- T07.1b-N  after Rollback every key at or below the backup location is what it was before the
transaction (directory timestamps erased, as in C01) — nested layering, link-free fragment, any
number of transactions. -/
theorem backup_clean_after_rollback_nested_linkfree_partial (bk hk dd : Key) (hr : N.NRoots bk hk dd)
    (w : World) (hg : N.NGood bk hk dd w.fs) (hinfos : w.infos = []) (hnf : w.faults = [])
    (hempty : ∀ k, k ≠ [] → w.fs.get (bk ++ hk ++ k) = none)
    (txs : List (List Op))
    (hcov : N.CoveredTxs (N.nestedCfg bk hk) (N.nSim bk hk dd hr) w txs) :
    ∀ k, ((txs.foldl (runTx (N.nestedCfg bk hk)) w).fs.get (bk ++ hk ++ k)).map eraseMt =
      (w.fs.get (bk ++ hk ++ k)).map eraseMt :=
  fun k => congrFun (N.txs_clean (S := N.nSim bk hk dd hr) (nbv bk hk dd hr) (nbp bk hk dd hr) txs w
    hg hinfos hnf (nempty hempty) hcov).1 k

/-- T07.1c-N  the location directory itself stays (same node, mtime erased); everything below it is
gone. -/
theorem backup_location_empty_after_rollback_nested_linkfree_partial (bk hk dd : Key) (hr : N.NRoots bk hk dd)
    (w : World) (hg : N.NGood bk hk dd w.fs) (hinfos : w.infos = []) (hnf : w.faults = [])
    (hempty : ∀ k, k ≠ [] → w.fs.get (bk ++ hk ++ k) = none)
    (txs : List (List Op))
    (hcov : N.CoveredTxs (N.nestedCfg bk hk) (N.nSim bk hk dd hr) w txs) :
    (∀ k, k ≠ [] → (txs.foldl (runTx (N.nestedCfg bk hk)) w).fs.get (bk ++ hk ++ k) = none) ∧
    (∃ mt mt', w.fs.get (bk ++ hk) = some (.dir mt) ∧
      (txs.foldl (runTx (N.nestedCfg bk hk)) w).fs.get (bk ++ hk) = some (.dir mt') ∧
      eraseMt (.dir mt') = eraseMt (.dir mt)) := by
  have hcl := backup_clean_after_rollback_nested_linkfree_partial bk hk dd hr w hg hinfos hnf hempty txs hcov
  refine ⟨?_, ?_⟩
  · intro k hk'
    have := hcl k
    rw [hempty k hk'] at this
    exact Option.map_eq_none_iff.mp this
  · obtain ⟨mt, hmt⟩ := hg.loc
    have h0 := hcl []
    simp only [List.append_nil] at h0
    rw [hmt] at h0
    cases hf : (txs.foldl (runTx (N.nestedCfg bk hk)) w).fs.get (bk ++ hk) with
    | none => rw [hf] at h0; cases h0
    | some n =>
      rw [hf] at h0
      simp only [Option.map_some, Option.some.injEq] at h0
      cases n with
      | dir mt' => exact ⟨mt, mt', hmt, rfl, h0⟩
      | file c m => simp [eraseMt] at h0
      | link t m => simp [eraseMt] at h0

/-- T07.1d-N (with C04N) after any number of transactions EVERY key below the base root — outside,
at, or below the backup location — is what it was before the first operation. -/
theorem whole_tree_as_before_nested_linkfree_partial (bk hk dd : Key) (hr : N.NRoots bk hk dd)
    (w : World) (hg : N.NGood bk hk dd w.fs) (hinfos : w.infos = []) (hnf : w.faults = [])
    (hempty : ∀ k, k ≠ [] → w.fs.get (bk ++ hk ++ k) = none)
    (txs : List (List Op))
    (hcov : N.CoveredTxs (N.nestedCfg bk hk) (N.nSim bk hk dd hr) w txs) :
    ∀ k, k ≠ [] → ((txs.foldl (runTx (N.nestedCfg bk hk)) w).fs.get (bk ++ k)).map eraseMt =
      (w.fs.get (bk ++ k)).map eraseMt := by
  intro k hkne
  by_cases hh : hk <+: k
  · obtain ⟨t, rfl⟩ := hh
    have := backup_clean_after_rollback_nested_linkfree_partial bk hk dd hr w hg hinfos hnf hempty txs hcov t
    simpa [List.append_assoc] using this
  · have := N.txs_restore (S := N.nSim bk hk dd hr) txs w hg hinfos hnf hcov k hkne
    have e1 : ∀ m : MFS, (N.nSim bk hk dd hr).view .base m k = (m.get (bk ++ k)).map eraseMt :=
      fun m => N.nview_base_vis hh
    rw [e1, e1] at this
    exact this

/-- T07.inv-N  after any covered history on a healthy filesystem the location holds nothing but copies
of tracked originals, and every tracked directory has its backup directory (restated from
`Props.C03.invB_after_history_nested` so that this file stands alone) -/
theorem backup_invariant_after_history_nested (bk hk dd : Key) (hr : N.NRoots bk hk dd)
    (w : World) (hg : N.NGood bk hk dd w.fs) (hinfos : w.infos = []) (hnf : w.faults = [])
    (hempty : ∀ k, k ≠ [] → w.fs.get (bk ++ hk ++ k) = none) (ops : List Op)
    (hcov : N.CoveredHist (N.nestedCfg bk hk) (N.nSim bk hk dd hr) w ops) :
    N.InvB (N.nSim bk hk dd hr) (N.nview bk hk .base w.fs) (N.nview bk hk .backup w.fs [])
      (runOps (N.nestedCfg bk hk) w ops) :=
  (N.history_keepsB ops w (N.InvB.init (S := N.nSim bk hk dd hr) hg hinfos hnf (nbv bk hk dd hr)
    (nempty hempty)) hcov).inv

/-! ### non-vacuity -/

/-- the location `/b/d` of the example disk of Props/C04N.lean is empty -/
theorem exDisk_loc_empty : ∀ k, k ≠ [] → exDisk.get ([['b']] ++ [['d']] ++ k) = none := by
  intro k hk
  cases h : exDisk.get ([['b']] ++ [['d']] ++ k) with
  | none => rfl
  | some n =>
    exfalso
    rcases exDisk_live h with ⟨e, _⟩ | ⟨e, _⟩ | ⟨e, _⟩ | ⟨e, _⟩ | ⟨e, _⟩ <;> simp at e
    exact hk e

/-- the history used below -/
def exOps : List Op :=
  [.creat "/n".toList "x", .write "/f".toList (O_WRONLY ||| O_TRUNC) 0 "y", .remove "/f".toList,
   .mkdirAll "/x/e//g/../h".toList 0o755, .chmod "/x".toList 0o4711, .creat "/d/x".toList "hidden",
   .remove "/d".toList]

/-- the hypotheses hold of the example disk and one transaction of `exOps` -/
example : N.NGood [['b']] [['d']] [['k']] exDisk ∧
    N.CoveredTxs (N.nestedCfg [['b']] [['d']]) (N.nSim [['b']] [['d']] [['k']] Props.C04.nroots_example)
      { fs := exDisk } [exOps] := by
  refine ⟨⟨osGood_example, ⟨_, rfl⟩⟩, ⟨?_, ?_, ?_, ?_, ?_, ?_, ?_, trivial⟩, trivial⟩
  · show isAbs _ = true; decide
  · show isAbs _ = true; decide
  · show isAbs _ = true ∧ clean _ ≠ rootP; decide
  · show isAbs _ = true; decide
  · show isAbs _ = true; decide
  · show isAbs _ = true; decide
  · show isAbs _ = true ∧ clean _ ≠ rootP; decide

/-- the run itself, evaluated by the kernel: in the middle of the transaction the location holds the
copy of `/f`; Rollback returns nil; afterwards the location is empty, `/b/f` is back and the created
entries are gone -/
example :
    let cfg := N.nestedCfg [['b']] [['d']]
    let w1 := runOps cfg { fs := exDisk } exOps
    let r := rollback cfg w1
    w1.fs.get [['b'], ['d'], ['f']] = some (.file "hello" { exMeta with mode := 0o644 }) ∧
    w1.fs.get [['b'], ['f']] = none ∧ (w1.fs.get [['b'], ['n']]).isSome ∧
    (w1.fs.get [['b'], ['x'], ['e'], ['h']]).isSome ∧
    r.2 = .ok false ∧
    r.1.fs.get [['b'], ['d'], ['f']] = none ∧
    (r.1.fs.get [['b'], ['d']]).map eraseMt = (exDisk.get [['b'], ['d']]).map eraseMt ∧
    r.1.fs.get [['b'], ['f']] = some (.file "hello" { exMeta with mode := 0o644 }) ∧
    r.1.fs.get [['b'], ['n']] = none ∧ r.1.fs.get [['b'], ['x']] = none := by
  decide +kernel

end Props.C07
