import Lemmas
/-!
# C12 — transaction state survives serialisation and restart

`toFInfo` / the `fInfo` accessors are modelled in `Model/Json.lean`; the JSON text layer
(`encoding/json` on a struct of integers and one string) is trusted and exercised by the `hist`
stream with real `json.Marshal`/`Unmarshal` at random points of random histories, Rollback being
executed on the reloaded instance.
-/
namespace Props.C12
open BFS

/-- T12.1 every field Rollback reads survives persist → reload: entry type and all 12 mode bits
(through `uint32(fs.FileMode)`), modification time (through `UnixNano` and
`time.Unix(ns/1e9, ns%1e9)`, negative values included), size, owner (through `Stat_t`'s `uint32`),
and the name. -/
theorem finfo_roundtrip (p : Path) (i : Info) (h : i.Valid p) :
    reloadEntry (p, some i) = (p, some i) :=
  reloadEntry_id p i h

/-- the existed / did-not-exist distinction survives -/
theorem nil_roundtrip (p : Path) : reloadEntry (p, none) = (p, none) := rfl

theorem mode_roundtrip (k : Kind) (perm : Nat) (h : perm < 4096) :
    kindOfMode (goFileMode k perm) = k ∧ permOfMode (goFileMode k perm) = perm :=
  ⟨kindOfMode_goFileMode k perm h, permOfMode_goFileMode k perm h⟩

theorem time_roundtrip (ns : Int) : modTimeNs ns = ns := modTimeNs_id ns

/-- T12.2 the whole tracked map is unchanged by persist → restart → reload -/
theorem reload_identity (infos : List (Path × Option Info))
    (hv : ∀ e ∈ infos, ∀ i, e.2 = some i → i.Valid e.1) : reloadInfos infos = infos := by
  unfold reloadInfos
  induction infos with
  | nil => rfl
  | cons e rest ih =>
    simp only [List.map_cons]
    rw [ih (fun e' he' => hv e' (List.mem_cons_of_mem _ he'))]
    congr 1
    rcases e with ⟨p, o⟩
    cases o with
    | none => rfl
    | some i => exact reloadEntry_id p i (hv (p, some i) (by simp) i rfl)

/-- T12.3 hence Rollback on the re-created instance is Rollback on the original instance: same
primitive calls, same result, same final state (C01 and C07 apply unchanged). -/
theorem restart_equiv (cfg : Cfg) (w : World)
    (hv : ∀ e ∈ w.infos, ∀ i, e.2 = some i → i.Valid e.1) :
    BackupFS.rollback cfg { w with infos := reloadInfos w.infos } = BackupFS.rollback cfg w := by
  rw [reload_identity w.infos hv]

example : Info.Valid "/d/f".toList ⟨"f".toList, 3, .file, 0o4755, .old (-5), 1000, 1001⟩ :=
  ⟨by decide, by decide, by decide, by decide⟩

end Props.C12
