import Lemmas.NXRestoreF
import Lemmas.NSimOS
import Props.C04N
/-!
# C09 — Rollback never reports success unless it restored: NESTED (README) layering, link-free trees

Setting of `Props.C04.rollback_restores_nested_linkfree_partial` (`N.nestedCfg bk hk`: base =
`HiddenFS [loc]` over `PrefixFS(root)`, backup = `PrefixFS(loc)` over the same `PrefixFS(root)`, ONE
disk).  The history runs under any fault plan, then Rollback runs under ANY fault plan `plan`; if it
returns nil, every entry of the base below its root and outside the backup location is what it was
before the first operation.

Proof: Lemmas/NXRestoreF.lean — Lemmas/RestoreF.lean replayed over the contract `N.Sim` (the three
places where the nested contract asks for more — `Remove` of a key that is no ancestor of the hidden
location, `copyDir` onto a key that is not hidden — are discharged as in Lemmas/NRestore.lean: such a
key was absent resp. a regular file resp. had a visible original).  No new hypothesis was forced.
-/
namespace Props.C09
open BFS BFS.BackupFS

/-- T09.2-N (generic form over the nested contract `N.Sim`) -/
theorem success_means_restored_generic_nested {cfg : Cfg} (S : N.Sim cfg) {v0 : View} {w : World}
    (hinv : N.Inv S v0 w) :
    (rollback cfg w).2 = .ok false →
      S.G (rollback cfg w).1.fs ∧ ∀ k, k ≠ [] → S.view .base (rollback cfg w).1.fs k = v0 k :=
  (N.sat_rollbackF (cfg := cfg) hinv).elim

/-- T09.main-N  nested layering, link-free fragment: any covered history run under any fault plan,
then Rollback under ANY fault plan `plan`: nil ⇒ every base entry below the root and outside the
location is restored. -/
theorem success_means_restored_nested_linkfree_partial (bk hk dd : Key) (hr : N.NRoots bk hk dd)
    (w : World) (hg : N.NGood bk hk dd w.fs) (hinfos : w.infos = []) (ops : List Op)
    (hcov : N.CoveredHist (N.nestedCfg bk hk) (N.nSim bk hk dd hr) w ops)
    (plan : List Fault) :
    (rollback (N.nestedCfg bk hk) { runOps (N.nestedCfg bk hk) w ops with faults := plan }).2 = .ok false →
    ∀ k, k ≠ [] → ¬ hk <+: k →
      ((rollback (N.nestedCfg bk hk) { runOps (N.nestedCfg bk hk) w ops with faults := plan }).1.fs.get (bk ++ k)).map eraseMt
        = (w.fs.get (bk ++ k)).map eraseMt := by
  intro h k hkne hvis
  have := N.tx_success_means_restored (S := N.nSim bk hk dd hr) hg hinfos ops hcov plan h k hkne
  have e1 : ∀ m : MFS, (N.nSim bk hk dd hr).view .base m k = (m.get (bk ++ k)).map eraseMt :=
    fun m => N.nview_base_vis hvis
  rw [e1, e1] at this
  exact this

/-- contrapositive reading: a visible entry below the root that differs from the original after
Rollback means Rollback reported an error -/
theorem unrestored_means_error_nested_linkfree_partial (bk hk dd : Key) (hr : N.NRoots bk hk dd)
    (w : World) (hg : N.NGood bk hk dd w.fs) (hinfos : w.infos = []) (ops : List Op)
    (hcov : N.CoveredHist (N.nestedCfg bk hk) (N.nSim bk hk dd hr) w ops)
    (plan : List Fault) (k : Key) (hkne : k ≠ []) (hvis : ¬ hk <+: k)
    (hdiff : ((rollback (N.nestedCfg bk hk) { runOps (N.nestedCfg bk hk) w ops with faults := plan }).1.fs.get (bk ++ k)).map eraseMt
        ≠ (w.fs.get (bk ++ k)).map eraseMt) :
    (rollback (N.nestedCfg bk hk) { runOps (N.nestedCfg bk hk) w ops with faults := plan }).2 = .ok true := by
  obtain ⟨b, hb⟩ := BackupFS.rollback_total (N.nestedCfg bk hk) { runOps (N.nestedCfg bk hk) w ops with faults := plan }
  cases b with
  | true => exact hb
  | false =>
    exact absurd (success_means_restored_nested_linkfree_partial bk hk dd hr w hg hinfos
      ops hcov plan hb k hkne hvis) hdiff

/-- the same when Rollback runs under the plan the history ran under; the disk is well-formed again
(in particular the location is still a directory) -/
theorem success_means_restored_same_plan_nested_linkfree_partial (bk hk dd : Key) (hr : N.NRoots bk hk dd)
    (w : World) (hg : N.NGood bk hk dd w.fs) (hinfos : w.infos = []) (ops : List Op)
    (hcov : N.CoveredHist (N.nestedCfg bk hk) (N.nSim bk hk dd hr) w ops) :
    (rollback (N.nestedCfg bk hk) (runOps (N.nestedCfg bk hk) w ops)).2 = .ok false →
    N.NGood bk hk dd (runTx (N.nestedCfg bk hk) w ops).fs ∧
    ∀ k, k ≠ [] → ¬ hk <+: k →
      ((runTx (N.nestedCfg bk hk) w ops).fs.get (bk ++ k)).map eraseMt = (w.fs.get (bk ++ k)).map eraseMt := by
  intro h
  obtain ⟨g, hs⟩ := N.tx_success_means_restored_same_plan (S := N.nSim bk hk dd hr) hg hinfos ops hcov h
  refine ⟨g, ?_⟩
  intro k hkne hvis
  have := hs k hkne
  have e1 : ∀ m : MFS, (N.nSim bk hk dd hr).view .base m k = (m.get (bk ++ k)).map eraseMt :=
    fun m => N.nview_base_vis hvis
  rw [e1, e1] at this
  exact this

/-! ### non-vacuity -/

/-- the example transaction: overwrite `/f`, create `/n` (names relative to the base root `/b`) -/
def exOpsN : List Op := [.write "/f".toList (O_WRONLY ||| O_TRUNC) 0 "y", .creat "/n".toList "x"]

example : N.NGood [['b']] [['d']] [['k']] exDisk ∧
    N.CoveredHist (N.nestedCfg [['b']] [['d']]) (N.nSim [['b']] [['d']] [['k']] Props.C04.nroots_example)
      { fs := exDisk } exOpsN ∧
    ([⟨⟨.base, "remove", ["/n".toList]⟩, 0⟩] : List Fault) ≠ [] := by
  refine ⟨⟨osGood_example, ⟨_, rfl⟩⟩, ⟨?_, ?_, trivial⟩, by simp⟩
  · show isAbs _ = true; decide
  · show isAbs _ = true; decide

/-- Rollback of the example transaction in the nested layering (location `/b/d`) under `plan` -/
def exRollbackN (plan : List Fault) : World × Except Err Bool :=
  rollback (N.nestedCfg [['b']] [['d']])
    { runOps (N.nestedCfg [['b']] [['d']]) { fs := exDisk } exOpsN with faults := plan }

/-- first branch: the `Remove` of the created file is refused; `/b/n` is left — and Rollback reports
an error -/
example : (exRollbackN [⟨⟨.base, "remove", ["/n".toList]⟩, 0⟩]).2 = .ok true ∧
    ((exRollbackN [⟨⟨.base, "remove", ["/n".toList]⟩, 0⟩]).1.fs.get [['b'], ['n']]).isSome = true ∧
    (exDisk.get [['b'], ['n']]).isSome = false := by decide +kernel

/-- second branch: a primitive fails during Rollback (the deferred `Close` of the backup handle in
`restoreFile`), Rollback reports success — the hypothesis holds with a plan that fires — and the base
is restored -/
example : (exRollbackN [⟨⟨.backup, "close", ["/f".toList]⟩, 1⟩]).2 = .ok false ∧
    (exRollbackN [⟨⟨.backup, "close", ["/f".toList]⟩, 1⟩]).1.trace.any (fun e => e.failed) = true ∧
    ((exRollbackN [⟨⟨.backup, "close", ["/f".toList]⟩, 1⟩]).1.fs.get [['b'], ['f']]).map eraseMt
      = (exDisk.get [['b'], ['f']]).map eraseMt ∧
    ((exRollbackN [⟨⟨.backup, "close", ["/f".toList]⟩, 1⟩]).1.fs.get [['b'], ['n']]).isSome = false := by
  decide +kernel

end Props.C09
