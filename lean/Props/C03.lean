import Lemmas
/-!
# C03 — BackupFS is transparent (structural part)

What is proved here is the shape every operation has in the model: a read-only method is one
non-mutating base call on the caller's name; a mutator is resolution + backup (which issue only
read-only base calls, C08) followed by exactly one base call — the same method with the same
arguments — on the resolved name.  That the resolved name denotes the caller's entry is C16; that
the base call then has the same result and effect as the direct call is by construction (it *is*
the direct call).  The end-to-end statement is checked by the twin-tree oracle of the `hist`
stream.
-/
namespace Props.C03
open BFS BFS.BackupFS

/-- T03.3a read-only operations change neither the tracked paths … -/
theorem readonly_keeps_tracking (cfg : Cfg) (n : Path) (w : World) :
    (stat cfg n w).1.infos = w.infos ∧ (lstat cfg n w).1.infos = w.infos ∧
    (readlink cfg n w).1.infos = w.infos ∧ (openFile cfg n O_RDONLY 0 w).1.infos = w.infos := by
  refine ⟨stat_keeps cfg n w, lstat_keeps cfg n w, readlink_keeps cfg n w, ?_⟩
  unfold openFile
  simp only [if_true]
  exact primOpen_keeps cfg .base _ w

/-- T03.3b … nor issue anything but one non-mutating call on the base filesystem: nothing on the
backup, nothing mutating. -/
theorem readonly_single_ro_base_call (cfg : Cfg) (n : Path) (w : World) :
    Extends (fun e => e.sig.side = .base ∧ e.mutating = false) w (stat cfg n w).1 ∧
    Extends (fun e => e.sig.side = .base ∧ e.mutating = false) w (lstat cfg n w).1 ∧
    Extends (fun e => e.sig.side = .base ∧ e.mutating = false) w (readlink cfg n w).1 ∧
    Extends (fun e => e.sig.side = .base ∧ e.mutating = false) w (openFile cfg n O_RDONLY 0 w).1 := by
  refine ⟨?_, ?_, ?_, ?_⟩
  · exact primInfo_logs cfg .base _ (primCall_logs cfg .base _ _ (fun _ => ⟨rfl, rfl⟩)) w
  · exact primInfo_logs cfg .base _ (primCall_logs cfg .base _ _ (fun _ => ⟨rfl, rfl⟩)) w
  · exact primStr_logs cfg .base _ (primCall_logs cfg .base _ _ (fun _ => ⟨rfl, rfl⟩)) w
  · unfold openFile
    simp only [if_true]
    exact primOpen_logs cfg .base _ (primCall_logs cfg .base _ _ (fun _ => ⟨rfl, by simp [callMutating, MFS.accessMode, hasFlag, O_RDONLY, O_CREATE]⟩)) w

/-- T03.1 (shape) every single-path mutator is `prepare` followed by the *same* method with the
*same* arguments on the resolved name. -/
theorem mutator_shape (cfg : Cfg) (n : Path) :
    (∀ p, mkdir cfg n p = (prepare cfg n >>= fun r => primUnit cfg .base (.mkdir r p))) ∧
    (∀ p, mkdirAll cfg n p = (prepare cfg n >>= fun r => primUnit cfg .base (.mkdirAll r p))) ∧
    (create cfg n = (prepare cfg n >>= fun r => primOpen cfg .base (.create r))) ∧
    (remove cfg n = (prepare cfg n >>= fun r => primUnit cfg .base (.remove r))) ∧
    (∀ m, chmod cfg n m = (prepare cfg n >>= fun r => primUnit cfg .base (.chmod r m))) ∧
    (∀ u g, chown cfg n u g = (prepare cfg n >>= fun r => primUnit cfg .base (.chown r u g))) ∧
    (∀ u g, lchown cfg n u g = (prepare cfg n >>= fun r => primUnit cfg .base (.lchown r u g))) ∧
    (∀ a m, chtimes cfg n a m = (prepare cfg n >>= fun r => primUnit cfg .base (.chtimes r a m))) ∧
    (∀ o, symlink cfg o n = (prepare cfg n >>= fun r => primUnit cfg .base (.symlink o r))) :=
  ⟨mkdir_eq cfg n, mkdirAll_eq cfg n, create_eq cfg n, remove_eq cfg n, chmod_eq cfg n,
   chown_eq cfg n, lchown_eq cfg n, chtimes_eq cfg n, fun o => symlink_eq cfg o n⟩

end Props.C03
