import Lemmas
import Lemmas.DLayer
import Props.C14
/-!
# C14 (disk level) — PrefixFS over a filesystem has exactly the effect of the re-rooted call

`Props.C14.reroot_exact` is lexical (which call is handed down).  Here the same statement is made
about the layer as a filesystem `prefixFS p inner : FSI σ` over ANY inner filesystem `inner` with
any state type `σ` (for `σ = MFS`, `inner = osfs`: about disks): for names that stay inside, a
call through PrefixFS leaves the state (disk) exactly as the inner call at
`join prefix (clean name)` leaves it, and returns that call's result after the documented
post-processing (`prefixPost`: `Readlink` targets re-rooted, reported names of handles and infos).
-/
namespace Props.C14
open BFS BFS.D BFS.PrefixFS

/-- the same call at `prefix + cleaned name`; absolute link targets re-rooted, relative verbatim -/
def rerooted (pre : Path) (c : Call) : Call :=
  c.mapPaths (fun n => join pre (clean n)) (fun o => if isAbs o then join pre (clean o) else o)

/-- D14.1 for names that stay inside, a call on `prefixFS p inner` has exactly the effect on the
state of the inner call at `join prefix (clean name)`, and its result up to `prefixPost` -/
theorem reroot_effect_exact {σ} (inner : FSI σ) (p : Path) (c : Call) (s : σ)
    (hin : ∀ n ∈ c.accessPaths, StaysInside n)
    (hsym : ∀ o n, c = .symlink o n → isAbs o = false →
      Within (mk p) (join (dir (join (mk p) (clean n))) o)) :
    (prefixFS p inner).call s c =
      ((inner.call s (rerooted (mk p) c)).1,
       (inner.call s (rerooted (mk p) c)).2.map (prefixPost (mk p) c (rerooted (mk p) c))) :=
  prefixFS_call_ok p inner s (reroot_exact (mk p) (mk_ne_nil p) c hin hsym)

/-- … on disks: the resulting disk is exactly that of the OS call at the re-rooted name -/
theorem reroot_disk_exact (p : Path) (c : Call) (m : MFS)
    (hin : ∀ n ∈ c.accessPaths, StaysInside n)
    (hsym : ∀ o n, c = .symlink o n → isAbs o = false →
      Within (mk p) (join (dir (join (mk p) (clean n))) o)) :
    ((prefixFS p osfs).call m c).1 = (osCall m (rerooted (mk p) c)).1 := by
  rw [reroot_effect_exact osfs p c m hin hsym]
  rfl

/-- the methods that return only an error value -/
def returnsUnit : Call → Bool
  | .mkdir .. | .mkdirAll .. | .remove .. | .removeAll .. | .rename .. | .chmod .. | .chown ..
  | .chtimes .. | .symlink .. | .lchown .. => true
  | _ => false

/-- … and for the ten methods returning only an error, result and disk are exactly those of the OS
call -/
theorem reroot_mutator_exact (p : Path) (c : Call) (m : MFS) (hu : returnsUnit c = true)
    (hin : ∀ n ∈ c.accessPaths, StaysInside n)
    (hsym : ∀ o n, c = .symlink o n → isAbs o = false →
      Within (mk p) (join (dir (join (mk p) (clean n))) o)) :
    (prefixFS p osfs).call m c = osCall m (rerooted (mk p) c) := by
  rw [reroot_effect_exact osfs p c m hin hsym]
  show (_, _) = _
  have key : ∀ (x : MFS × Except Err Unit) (c c' : Call),
      ((liftU x).1, (liftU x).2.map (prefixPost (mk p) c c')) = liftU x := by
    intro x c c'
    simp only [liftU, map_post_unit]
  cases c <;> first | (simp only [rerooted, Call.mapPaths, osfs, osCall]; exact key _ _ _) | cases hu

/-- the documented post-processing: unit results unchanged; a handle or info keeps everything but
the reported name; `Readlink`'s string is the stored target re-rooted by `readlinkPost` -/
theorem prefixPost_spec (pre : Path) (c c' : Call) :
    prefixPost pre c c' .unit = .unit ∧
    (∀ h, ∃ nm, prefixPost pre c c' (.handle h) = .handle { h with name := nm }) ∧
    (∀ i, ∃ nm, prefixPost pre c c' (.info i) = .info { i with name := nm }) ∧
    (∀ t, prefixPost pre c c' (.str t) = .str (match c with | .readlink _ => readlinkPost pre t | _ => t)) := by
  refine ⟨post_unit pre c c', fun h => ⟨_, post_handle pre c c' h⟩, ?_, ?_⟩
  · intro i
    cases c <;> first | exact ⟨_, rfl⟩ | exact ⟨i.name, rfl⟩
  · intro t
    cases c <;> rfl

/-! ## non-vacuity: the disk of `Lemmas/SimOS.lean` (`/b/f` a file, `/b/d` a directory), prefix `/b` -/

example : (∀ n ∈ (Call.rename "/d/../f".toList "x/../g".toList).accessPaths, StaysInside n) ∧
    rerooted (mk "/b".toList) (.rename "/d/../f".toList "x/../g".toList)
      = .rename "/b/f".toList "/b/g".toList := by decide

/-- `Rename("/d/../f", "x/../g")` through `PrefixFS("/b")` moves `/b/f` to `/b/g` on the disk -/
example :
    let r := (prefixFS "/b".toList osfs).call exDisk (.rename "/d/../f".toList "x/../g".toList)
    r.2 = .ok .unit ∧ r.1.get [['b'], ['f']] = none ∧
      r.1.get [['b'], ['g']] = some (.file "hello" { exMeta with mode := 0o644 }) := by decide

end Props.C14
