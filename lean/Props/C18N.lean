import Lemmas
import Props.C18
/-!
# C18 (effect level, names) — VolumeFS without volumes over any filesystem

`Props.C18` is lexical (`VolumeFS.translate`, `readlinkPost`, `reportedName`).  Here the layer as a
filesystem `volumeFS inner : FSI σ` over ANY inner filesystem and state: a call is the inner call on
the cleaned paths, with exactly the inner call's effect, and its result comes back UNCHANGED — the
handle and the `FileInfo` are the inner filesystem's own, names included ("names pass through"); only
`Readlink`'s target is cleaned.  The handle primitives (listings, reads, writes, `File.Stat`) are the
inner filesystem's.
-/
namespace Props.C18
open BFS BFS.VolumeFS

/-- the same call on the cleaned paths; an absolute link target cleaned, a relative one verbatim -/
def cleaned (c : Call) : Call := c.mapPaths clean (fun o => if isAbs o then clean o else o)

/-- the only post-processing: `Readlink`'s target is returned cleaned -/
def readlinkCleaned (c : Call) (r : Ret) : Ret :=
  match c, r with
  | .readlink _, .str t => .str (clean t)
  | _, r => r

theorem cleaned_primaryPath (c : Call) : (cleaned c).primaryPath = clean c.primaryPath := by
  cases c <;> rfl

/-- no name override fires on a translated call -/
theorem volumePost_eq (c : Call) (r : Ret) : volumePost c (cleaned c) r = readlinkCleaned c r := by
  have hne : (cleaned c).primaryPath ≠ [] := by rw [cleaned_primaryPath]; exact clean_ne_nil _
  have hn : ∀ b, reportedName (cleaned c).primaryPath b = b := by
    intro b
    simp [reportedName, PrefixFS.reportedName, hne]
  have hni : ∀ b, reportedInfoName (cleaned c).primaryPath b = b := by
    intro b
    simp [reportedInfoName, PrefixFS.reportedInfoName, hne]
  cases r with
  | unit => cases c <;> rfl
  | str t =>
    cases c <;> first | rfl | (simp only [volumePost, readlinkCleaned, readlink_cleaned])
  | handle h =>
    have : volumePost c (cleaned c) (.handle h) =
        .handle { h with name := reportedName (cleaned c).primaryPath h.name } := by cases c <;> rfl
    rw [this, hn]
    cases c <;> rfl
  | info i =>
    cases c
    case stat n =>
      show Ret.info { i with name := reportedInfoName (cleaned (.stat n)).primaryPath i.name } = _
      rw [hni]; rfl
    case lstat n =>
      show Ret.info { i with name := reportedInfoName (cleaned (.lstat n)).primaryPath i.name } = _
      rw [hni]; rfl
    all_goals rfl

/-- N18.1 a call through `volumeFS inner` — every method, every name string, no refusal — has exactly
the effect of the inner call on the cleaned paths and returns its result unchanged, except that
`Readlink`'s target is cleaned -/
theorem volume_call_exact {σ} (inner : FSI σ) (s : σ) (c : Call) :
    (volumeFS inner).call s c =
      ((inner.call s (cleaned c)).1, (inner.call s (cleaned c)).2.map (readlinkCleaned c)) := by
  show (match translate c with
    | Except.error e => (s, Except.error e)
    | Except.ok c' => ((inner.call s c').1, (inner.call s c').2.map (volumePost c c'))) = _
  rw [volume_identity c]
  show ((inner.call s (cleaned c)).1, (inner.call s (cleaned c)).2.map (volumePost c (cleaned c))) = _
  congr 2
  funext r
  exact volumePost_eq c r

/-- N18.2 names pass through: a handle or `FileInfo` returned through VolumeFS IS the one the inner
call on the cleaned path returned (same `Name()`, same everything) -/
theorem volume_names_pass_through {σ} (inner : FSI σ) (s s' : σ) (c : Call) :
    (∀ h, (volumeFS inner).call s c = (s', .ok (.handle h)) →
      inner.call s (cleaned c) = (s', .ok (.handle h))) ∧
    (∀ i, (volumeFS inner).call s c = (s', .ok (.info i)) →
      inner.call s (cleaned c) = (s', .ok (.info i))) := by
  have key : ∀ r, (∀ t, r ≠ .str t) → (volumeFS inner).call s c = (s', .ok r) →
      inner.call s (cleaned c) = (s', .ok r) := by
    intro r hr h
    rw [volume_call_exact] at h
    simp only [Prod.mk.injEq] at h
    obtain ⟨h1, h2⟩ := h
    cases hx : (inner.call s (cleaned c)).2 with
    | error e => rw [hx] at h2; cases h2
    | ok r0 =>
      rw [hx] at h2
      simp only [Except.map, Except.ok.injEq] at h2
      have hr0 : r0 = r := by
        cases r0 with
        | str t =>
          exfalso
          cases c <;> first | exact hr t h2.symm | exact hr _ h2.symm
        | unit => cases c <;> exact h2
        | handle h0 => cases c <;> exact h2
        | info i0 => cases c <;> exact h2
      rw [← hr0, ← hx, ← h1]
  exact ⟨fun h => key _ (fun t e => by cases e), fun i => key _ (fun t e => by cases e)⟩

/-- N18.3 listings, reads, writes and `File.Stat` through a handle are the inner filesystem's -/
theorem volume_handle_primitives {σ} (inner : FSI σ) :
    (volumeFS inner).hreaddirnames = inner.hreaddirnames ∧ (volumeFS inner).hstat = inner.hstat ∧
    (volumeFS inner).hread = inner.hread ∧ (volumeFS inner).hwrite = inner.hwrite :=
  ⟨rfl, rfl, rfl, rfl⟩

/-- … on disks: the resulting disk is exactly that of the OS call on the cleaned paths -/
theorem volume_disk_exact (m : MFS) (c : Call) :
    ((volumeFS osfs).call m c).1 = (osCall m (cleaned c)).1 := by
  rw [volume_call_exact]; rfl

/-! ## non-vacuity: the disk of `Lemmas/SimOS.lean` (`/b/f` a file, `/b/d` a directory) -/

example : cleaned (.rename "//b/./f".toList "b/../g".toList) = .rename "/b/f".toList "g".toList ∧
    cleaned (.symlink "/x//y".toList "l/".toList) = .symlink "/x/y".toList "l".toList ∧
    cleaned (.symlink "x//y".toList "".toList) = .symlink "x//y".toList ".".toList := by decide

/-- the handle of `Open("//b/./f")` is the OS handle of `/b/f`, named `/b/f`; `Stat("/b//")` is named
`b`, `Stat("//")` `/`; the listing of `/b` is `d`, `f` -/
example :
    let fs := volumeFS osfs
    (fs.call exDisk (.open_ "//b/./f".toList)).2 =
      .ok (.handle { key := [['b'], ['f']], name := "/b/f".toList, isDir := false, flag := 0 }) ∧
    (fs.call exDisk (.open_ "//b/./f".toList)).2 = (osCall exDisk (.open_ "/b/f".toList)).2 ∧
    ((fs.call exDisk (.stat "/b//".toList)).2.map fun | .info i => i.name | _ => []) = .ok "b".toList ∧
    ((fs.call exDisk (.stat "//".toList)).2.map fun | .info i => i.name | _ => []) = .ok "/".toList ∧
    fs.hreaddirnames exDisk { key := [['b']], name := "/b".toList, isDir := true, flag := 0 }
      = .ok [['d'], ['f']] := by decide

end Props.C18
