import Lemmas
/-!
# C13 — Rollback stays within the transaction's footprint

`rollback_footprint` holds for an *arbitrary* world, not only for worlds reachable through
BackupFS: external modifications merely produce another world, so every interleaving of external
actors is covered.
-/
namespace Props.C13
open BFS BFS.BackupFS

/-- T13.1 Every primitive call Rollback issues — on the base and on the backup filesystem,
including handle primitives — names a path that is tracked when Rollback starts.  Paths the
transaction never named are never passed to either filesystem. -/
theorem rollback_footprint (cfg : Cfg) (w : World) :
    Extends (NamesIn (w.infos.map Prod.fst)) w (rollback cfg w).1 :=
  BackupFS.rollback_footprint cfg w

/-- T13.2 the clean-up of both filesystems uses `Remove`, never `RemoveAll`, except for the two
type-mismatch repairs of `restoreFile`/`restoreSymlink` on the *base* side: no `removeall` is ever
issued on the backup filesystem by the clean-up phase.  Stated on the clean-up function. -/
theorem cleanup_uses_remove_only (cfg : Cfg) (ps : List Path) (w : World) :
    Extends (fun e => e.sig.method ≠ "removeall") w (removeBackupPaths cfg ps w).1 := by
  have : Logs (removeBackupPaths cfg ps) (fun e => e.sig.method ≠ "removeall") := by
    unfold removeBackupPaths
    generalize sortMost ps = l
    induction l with
    | nil => exact Logs.pure _ _
    | cons x xs ih =>
      unfold forEachCollect
      apply Logs.bind (Logs.attempt (by
        apply Logs.bind (lexists_logs cfg .backup x (primCall_logs cfg .backup _ _ (fun _ => by simp [callMethod]))); intro o
        cases o with
        | none => exact Logs.pure _ _
        | some i => exact primUnit_logs cfg .backup _ (primCall_logs cfg .backup _ _ (fun _ => by simp [callMethod])))); intro r
      apply Logs.bind ih; intro rest
      exact Logs.pure _ _
  exact this w

end Props.C13
