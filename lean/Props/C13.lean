import Lemmas
/-!
# C13 — Rollback stays within the transaction's footprint

`rollback_footprint` holds for an *arbitrary* world, not only for worlds reachable through
BackupFS: external modifications merely produce another world, so every interleaving of external
actors is covered.
-/
namespace Props.C13
open BFS BFS.BackupFS

/-- T13.1 Every primitive call Rollback issues — on the base and on the backup filesystem,
including handle primitives — names a path that is tracked when Rollback starts.  Paths the
transaction never named are never passed to either filesystem. -/
theorem rollback_footprint (cfg : Cfg) (w : World) :
    Extends (NamesIn (w.infos.map Prod.fst)) w (rollback cfg w).1 :=
  BackupFS.rollback_footprint cfg w

/-- T13.2 the clean-up of both filesystems uses `Remove`, never `RemoveAll`, except for the two
type-mismatch repairs of `restoreFile`/`restoreSymlink` on the *base* side: no `removeall` is ever
issued on the backup filesystem by the clean-up phase.  Stated on the clean-up function. -/
theorem cleanup_uses_remove_only (cfg : Cfg) (ps : List Path) (w : World) :
    Extends (fun e => e.sig.method ≠ "removeall") w (removeBackupPaths cfg ps w).1 := by
  have : Logs (removeBackupPaths cfg ps) (fun e => e.sig.method ≠ "removeall") := by
    unfold removeBackupPaths
    generalize sortMost ps = l
    induction l with
    | nil => exact Logs.pure _ _
    | cons x xs ih =>
      unfold forEachCollect
      apply Logs.bind (Logs.attempt (by
        apply Logs.bind (lexists_logs cfg .backup x (primCall_logs cfg .backup _ _ (fun _ => by simp [callMethod]))); intro o
        cases o with
        | none => exact Logs.pure _ _
        | some i => exact primUnit_logs cfg .backup _ (primCall_logs cfg .backup _ _ (fun _ => by simp [callMethod])))); intro r
      apply Logs.bind ih; intro rest
      exact Logs.pure _ _
  exact this w

/-!
### C13 (state level) — Rollback stays within the transaction's footprint

`Props/C13.lean` shows that every primitive call of Rollback *names* a tracked path.  This file
shows what that means for the two trees: for the OS model behind two `PrefixFS` layers, for EVERY
well-formed link-free disk — no transaction invariant is assumed, so the two trees may have been
modified arbitrarily by other actors since the operations ran — and for EVERY fault plan, whatever
Rollback returns:

* base: an entry `(kp k, oi)` of the tracked map (`k` not the root) lets Rollback change only
  `k` itself, the keys below `k` when `k` is tracked as a regular file (`restoreFile` calls
  `RemoveAll` when something that is not a regular file took the file's place), and the prefixes of
  `k` when `k` is tracked as a directory (`MkdirAll` recreates missing ancestors) — `Touches`.
  Every other entry of the base is left exactly as it is (directory timestamps aside);
* regular files of the base are left byte for byte, with all their metadata, unless the file's key
  is tracked or lies below a key tracked as a regular file — `TouchesFile`;
* backup: only keys tracked with an original are changed (`Remove` of that key, never
  `RemoveAll`): foreign content inside backup directories stays.

The proof (Lemmas/Footprint.lean) is frame reasoning over the abstract contract `Sim` and uses only
its unconditional `*_frame` / `pure_*` laws.  Hypotheses: tracked paths are absolute cleaned paths,
the root is not tracked as "did not exist", no tracked original is a symlink (link-free fragment:
the contract has no law for `Symlink`).

Remark on the coarse form (`rollback_leaves_unrelated_keys_alone`): "unrelated to every tracked
key" must except the root — every operation tracks the root, which is a prefix of every key — and
even then says nothing about a foreign entry inside a tracked directory; the fine form does.
-/


/-- T13.3 (main) Rollback changes the base only inside the footprint of the tracked map, regular
files only inside the narrower file footprint, and the backup only at keys tracked with an
original — any well-formed disk, any fault plan.

The one way Rollback reaches base entries that no operation named and that are not missing
ancestors is the second disjunct of `Touches`/`TouchesFile` (case (b)): a key `k` tracked as a
regular FILE whose place is now held by something that is not a regular file (the transaction, or
another actor, put a directory there).  `restoreFile` then issues `RemoveAll k` before writing the
file back (fs_utils.go, `!fi.Mode().IsRegular() || (baseExists && !baseFi.Mode().IsRegular())`):
restoring the original file necessarily removes whatever lies below `k`, including entries another
actor created inside that directory.  This is a deliberate repair and no violation of the property,
whose second clause speaks of entries created inside PRE-EXISTING directories (such a directory is
not pre-existing: originally `k` was a file).  By contrast a key tracked as absent is removed with
`Remove`, never `RemoveAll`: foreign entries inside a directory the transaction created survive
(the `Remove` fails and Rollback reports the error), and a key tracked as a directory never
affects what lies below it. -/
theorem rollback_leaves_unrelated_entries_alone (bk kk : Key) (hbk : PKey bk) (hkk : PKey kk)
    (hne1 : bk ≠ []) (hne2 : kk ≠ []) (hd1 : ¬ bk <+: kk) (hd2 : ¬ kk <+: bk)
    (w : World) (hg : OSGood bk kk w.fs)
    (hkeys : ∀ p oi, (p, oi) ∈ w.infos → ∃ k, PKey k ∧ p = kp k)
    (hroot : (kp [], none) ∉ w.infos)
    (hnolink : ∀ p i, (p, some i) ∈ w.infos → i.kind ≠ .link) :
    let w' := (rollback (osCfg bk kk) w).1
    OSGood bk kk w'.fs ∧
    (∀ j, (∀ k oi, (kp k, oi) ∈ w.infos → PKey k → k ≠ [] → ¬ Touches k oi j) →
      (w'.fs.get (bk ++ j)).map eraseMt = (w.fs.get (bk ++ j)).map eraseMt) ∧
    (∀ j c mt, w.fs.get (bk ++ j) = some (.file c mt) →
      (∀ k oi, (kp k, oi) ∈ w.infos → PKey k → k ≠ [] → ¬ TouchesFile k oi j) →
      w'.fs.get (bk ++ j) = some (.file c mt)) ∧
    (∀ j, (j = [] ∨ ∀ i, (kp j, some i) ∉ w.infos) →
      (w'.fs.get (kk ++ j)).map eraseMt = (w.fs.get (kk ++ j)).map eraseMt) := by
  obtain ⟨g, hb, hf, hk⟩ :=
    rollback_frame_entries (osSim bk kk hbk hkk hne1 hne2 hd1 hd2) (w := w) hg hkeys hroot hnolink
  refine ⟨g, fun j hj => hb j hj, ?_, fun j hj => hk j hj⟩
  intro j c mt hget hj
  have hv : osView bk kk .base w.fs j = some (.file c mt) := by
    rw [osView_eq]
    show (w.fs.get (bk ++ j)).map eraseMt = _
    rw [hget]; rfl
  have := hf j hj ⟨c, mt, hv⟩
  have hv' : osView bk kk .base (rollback (osCfg bk kk) w).1.fs j = some (.file c mt) := this.trans hv
  obtain ⟨n0, h0, he⟩ := osView_some hv'
  rw [eraseMt_file.mp he] at h0
  exact h0

/-- T13.4 "entries with fresh names that other actors created inside pre-existing directories
survive": an entry `j` of the base such that no operation named `j` or anything below it, and no
ancestor of `j` is tracked as a regular file, is left as it is (with everything it contains that is
equally fresh). -/
theorem foreign_entry_survives (bk kk : Key) (hbk : PKey bk) (hkk : PKey kk)
    (hne1 : bk ≠ []) (hne2 : kk ≠ []) (hd1 : ¬ bk <+: kk) (hd2 : ¬ kk <+: bk)
    (w : World) (hg : OSGood bk kk w.fs)
    (hkeys : ∀ p oi, (p, oi) ∈ w.infos → ∃ k, PKey k ∧ p = kp k)
    (hroot : (kp [], none) ∉ w.infos)
    (hnolink : ∀ p i, (p, some i) ∈ w.infos → i.kind ≠ .link)
    (j : Key)
    (hfresh : ∀ k oi, (kp k, oi) ∈ w.infos → PKey k → ¬ j <+: k)
    (hnofile : ∀ k i, (kp k, some i) ∈ w.infos → PKey k → i.kind = .file → ¬ k <+: j) :
    ((rollback (osCfg bk kk) w).1.fs.get (bk ++ j)).map eraseMt = (w.fs.get (bk ++ j)).map eraseMt := by
  refine (rollback_leaves_unrelated_entries_alone bk kk hbk hkk hne1 hne2 hd1 hd2 w hg hkeys hroot hnolink).2.1 j ?_
  intro k oi hm hk _ ht
  rcases ht with rfl | ⟨i, rfl, hkind, hpre⟩ | ⟨_, _, _, hpre⟩
  · exact hfresh _ oi hm hk (List.prefix_refl _)
  · exact hnofile k i hm hk hkind hpre
  · exact hfresh k oi hm hk hpre

/-- T13.5 "files never named by an operation keep whatever content they have": a regular file
whose key is not tracked, and which does not lie below a key tracked as a regular file, keeps its
content, mode, owner and modification time. -/
theorem unnamed_file_keeps_content (bk kk : Key) (hbk : PKey bk) (hkk : PKey kk)
    (hne1 : bk ≠ []) (hne2 : kk ≠ []) (hd1 : ¬ bk <+: kk) (hd2 : ¬ kk <+: bk)
    (w : World) (hg : OSGood bk kk w.fs)
    (hkeys : ∀ p oi, (p, oi) ∈ w.infos → ∃ k, PKey k ∧ p = kp k)
    (hroot : (kp [], none) ∉ w.infos)
    (hnolink : ∀ p i, (p, some i) ∈ w.infos → i.kind ≠ .link)
    (j : Key) (c : String) (mt : Meta) (hfile : w.fs.get (bk ++ j) = some (.file c mt))
    (hunnamed : ∀ oi, (kp j, oi) ∉ w.infos)
    (hnofile : ∀ k i, (kp k, some i) ∈ w.infos → PKey k → i.kind = .file → ¬ k <+: j) :
    (rollback (osCfg bk kk) w).1.fs.get (bk ++ j) = some (.file c mt) := by
  refine (rollback_leaves_unrelated_entries_alone bk kk hbk hkk hne1 hne2 hd1 hd2 w hg hkeys hroot hnolink).2.2.1
    j c mt hfile ?_
  intro k oi hm hk _ ht
  rcases ht with rfl | ⟨i, rfl, hkind, hpre⟩
  · exact hunnamed oi hm
  · exact hnofile k i hm hk hkind hpre

/-- T13.6 "in the backup filesystem Rollback removes only what BackupFS put there": a backup
entry whose key is not tracked with an original — in particular foreign content inside backup
directories — is left in place. -/
theorem foreign_backup_content_survives (bk kk : Key) (hbk : PKey bk) (hkk : PKey kk)
    (hne1 : bk ≠ []) (hne2 : kk ≠ []) (hd1 : ¬ bk <+: kk) (hd2 : ¬ kk <+: bk)
    (w : World) (hg : OSGood bk kk w.fs)
    (hkeys : ∀ p oi, (p, oi) ∈ w.infos → ∃ k, PKey k ∧ p = kp k)
    (hroot : (kp [], none) ∉ w.infos)
    (hnolink : ∀ p i, (p, some i) ∈ w.infos → i.kind ≠ .link)
    (j : Key) (huntracked : ∀ i, (kp j, some i) ∉ w.infos) :
    ((rollback (osCfg bk kk) w).1.fs.get (kk ++ j)).map eraseMt = (w.fs.get (kk ++ j)).map eraseMt :=
  (rollback_leaves_unrelated_entries_alone bk kk hbk hkk hne1 hne2 hd1 hd2 w hg hkeys hroot hnolink).2.2.2
    j (Or.inr huntracked)

/-- T13.7 the coarse form: base keys unrelated (neither below nor above) to every tracked key
other than the root, and backup keys that are not tracked, are untouched. -/
theorem rollback_leaves_unrelated_keys_alone (bk kk : Key) (hbk : PKey bk) (hkk : PKey kk)
    (hne1 : bk ≠ []) (hne2 : kk ≠ []) (hd1 : ¬ bk <+: kk) (hd2 : ¬ kk <+: bk)
    (w : World) (hg : OSGood bk kk w.fs)
    (hkeys : ∀ p oi, (p, oi) ∈ w.infos → ∃ k, PKey k ∧ p = kp k)
    (hroot : (kp [], none) ∉ w.infos)
    (hnolink : ∀ p i, (p, some i) ∈ w.infos → i.kind ≠ .link) :
    let w' := (rollback (osCfg bk kk) w).1
    OSGood bk kk w'.fs ∧
    (∀ j, (∀ p oi k, (p, oi) ∈ w.infos → p = kp k → PKey k → k ≠ [] → Unrelated j k) →
      (w'.fs.get (bk ++ j)).map eraseMt = (w.fs.get (bk ++ j)).map eraseMt) ∧
    (∀ j, (∀ p oi k, (p, oi) ∈ w.infos → p = kp k → PKey k → j ≠ k) →
      (w'.fs.get (kk ++ j)).map eraseMt = (w.fs.get (kk ++ j)).map eraseMt) := by
  obtain ⟨g, hb, hk⟩ :=
    rollback_frame_unrelated (osSim bk kk hbk hkk hne1 hne2 hd1 hd2) (w := w) hg hkeys hroot hnolink
  exact ⟨g, fun j hj => hb j hj, fun j hj => hk j hj⟩

/-! ### non-vacuity -/

def exDirInfo : Info := { name := [], size := 0, kind := .dir, perm := 0o755, mtime := .old 0, uid := 0, gid := 0 }

/-- the example disk of `Lemmas/SimOS.lean` (`/b` with a file `f` and a directory `d`; backup root
`/k`) in the middle of a transaction that named `/d/e` (absent), hence tracks `/`, `/d`, `/d/e`;
one `Remove` is planned to fail -/
def exWorld : World :=
  { fs := exDisk,
    infos := [(kp [], some exDirInfo), (kp [['d']], some exDirInfo), (kp [['d'], ['e']], none)],
    faults := [{ sig := { side := .base, method := "remove", args := [kp [['d'], ['e']]] }, occ := 0 }] }

theorem exWorld_mem {k : Key} {oi : Option Info} (hm : (kp k, oi) ∈ exWorld.infos) (hk : PKey k) :
    (k = [] ∧ oi = some exDirInfo) ∨ (k = [['d']] ∧ oi = some exDirInfo) ∨ (k = [['d'], ['e']] ∧ oi = none) := by
  simp only [exWorld, List.mem_cons, Prod.mk.injEq, List.not_mem_nil, or_false] at hm
  rcases hm with ⟨h, rfl⟩ | ⟨h, rfl⟩ | ⟨h, rfl⟩
  · exact Or.inl ⟨kp_inj hk (by decide) h, rfl⟩
  · exact Or.inr (Or.inl ⟨kp_inj hk (by decide) h, rfl⟩)
  · exact Or.inr (Or.inr ⟨kp_inj hk (by decide) h, rfl⟩)

/-- the hypotheses of the theorems above hold of `exWorld`; a foreign entry `/d/x` satisfies the
premise of T13.4, the untracked file `/f` that of T13.5, a foreign backup entry `/d/y` that of
T13.6 -/
example :
    OSGood [['b']] [['k']] exWorld.fs ∧
    (∀ p oi, (p, oi) ∈ exWorld.infos → ∃ k, PKey k ∧ p = kp k) ∧
    (kp [], none) ∉ exWorld.infos ∧
    (∀ p i, (p, some i) ∈ exWorld.infos → i.kind ≠ .link) ∧
    (∀ k oi, (kp k, oi) ∈ exWorld.infos → PKey k → ¬ [['d'], ['x']] <+: k) ∧
    (∀ k i, (kp k, some i) ∈ exWorld.infos → PKey k → i.kind = .file → ¬ k <+: [['d'], ['x']]) ∧
    exWorld.fs.get ([['b']] ++ [['f']]) = some (.file "hello" { exMeta with mode := 0o644 }) ∧
    (∀ oi, (kp [['f']], oi) ∉ exWorld.infos) ∧
    (∀ k i, (kp k, some i) ∈ exWorld.infos → PKey k → i.kind = .file → ¬ k <+: [['f']]) ∧
    (∀ i, (kp [['d'], ['y']], some i) ∉ exWorld.infos) := by
  refine ⟨osGood_example, ?_, ?_, ?_, ?_, ?_, rfl, ?_, ?_, ?_⟩
  · intro p oi hm
    simp only [exWorld, List.mem_cons, Prod.mk.injEq, List.not_mem_nil, or_false] at hm
    rcases hm with ⟨rfl, _⟩ | ⟨rfl, _⟩ | ⟨rfl, _⟩
    · exact ⟨[], by decide, rfl⟩
    · exact ⟨[['d']], by decide, rfl⟩
    · exact ⟨[['d'], ['e']], by decide, rfl⟩
  · decide
  · intro p i hm
    simp only [exWorld, List.mem_cons, Prod.mk.injEq, List.not_mem_nil, or_false] at hm
    rcases hm with ⟨_, h⟩ | ⟨_, h⟩ | ⟨_, h⟩
    · cases h; decide
    · cases h; decide
    · cases h
  · intro k oi hm hk
    rcases exWorld_mem hm hk with ⟨rfl, _⟩ | ⟨rfl, _⟩ | ⟨rfl, _⟩ <;> decide
  · intro k i hm hk hkind
    rcases exWorld_mem hm hk with ⟨_, h⟩ | ⟨_, h⟩ | ⟨_, h⟩
    · cases h; cases hkind
    · cases h; cases hkind
    · cases h
  · intro oi hm
    rcases exWorld_mem hm (by decide) with ⟨h, _⟩ | ⟨h, _⟩ | ⟨h, _⟩ <;> exact absurd h (by decide)
  · intro k i hm hk hkind
    rcases exWorld_mem hm hk with ⟨_, h⟩ | ⟨_, h⟩ | ⟨_, h⟩
    · cases h; cases hkind
    · cases h; cases hkind
    · cases h
  · intro i hm
    rcases exWorld_mem hm (by decide) with ⟨h, _⟩ | ⟨h, _⟩ | ⟨h, _⟩ <;> exact absurd h (by decide)

end Props.C13
