import Lemmas
/-!
# C13 — Rollback stays within the transaction's footprint

`rollback_footprint` holds for an *arbitrary* world, not only for worlds reachable through
BackupFS: external modifications merely produce another world, so every interleaving of external
actors is covered.
-/
namespace Props.C13
open BFS BFS.BackupFS

/-- T13.1 Every primitive call Rollback issues — on the base and on the backup filesystem,
including handle primitives — names a path that is tracked when Rollback starts.  Paths the
transaction never named are never passed to either filesystem. -/
theorem rollback_footprint (cfg : Cfg) (w : World) :
    Extends (NamesIn (w.infos.map Prod.fst)) w (rollback cfg w).1 :=
  BackupFS.rollback_footprint cfg w

/-- T13.2 the clean-up of both filesystems uses `Remove`, never `RemoveAll` — the one `RemoveAll`
left in Rollback is `restoreFile`'s repair, on the *base* side, of a backup copy that is not a
regular file (`restoreFile`/`restoreSymlink` take a directory in the way with `Remove`): no
`removeall` is ever issued on the backup filesystem by the clean-up phase.  Stated on the clean-up
function. -/
theorem cleanup_uses_remove_only (cfg : Cfg) (ps : List Path) (w : World) :
    Extends (fun e => e.sig.method ≠ "removeall") w (removeBackupPaths cfg ps w).1 := by
  have : Logs (removeBackupPaths cfg ps) (fun e => e.sig.method ≠ "removeall") := by
    unfold removeBackupPaths
    generalize sortMost ps = l
    induction l with
    | nil => exact Logs.pure _ _
    | cons x xs ih =>
      unfold forEachCollect
      apply Logs.bind (Logs.attempt (by
        apply Logs.bind (lexists_logs cfg .backup x (primCall_logs cfg .backup _ _ (fun _ => by simp [callMethod]))); intro o
        cases o with
        | none => exact Logs.pure _ _
        | some i => exact primUnit_logs cfg .backup _ (primCall_logs cfg .backup _ _ (fun _ => by simp [callMethod])))); intro r
      apply Logs.bind ih; intro rest
      exact Logs.pure _ _
  exact this w

/-!
### C13 (state level) — Rollback stays within the transaction's footprint

`rollback_footprint` shows that every primitive call of Rollback *names* a tracked path.  This part
shows what that means for the two trees: for the OS model behind two `PrefixFS` layers, for EVERY
well-formed link-free disk — no transaction invariant is assumed, so the two trees may have been
modified arbitrarily by other actors since the operations ran — and for EVERY fault plan, whatever
Rollback returns:

* base: an entry `(kp k, oi)` of the tracked map (`k` not the root) lets Rollback change only
  `k` itself and the prefixes of `k` when `k` is tracked as a directory (`MkdirAll` recreates missing
  ancestors) — plus, in ONE situation, the keys below `k`: `k` is tracked as a regular file and the
  backup does not hold a regular file at `k` (`restoreFile` keeps its `RemoveAll` for a backup copy
  that is not a regular file; BackupFS itself never produces such a copy, somebody must have tampered
  with the backup directory) — `Touches`.  Every other entry of the base is left exactly as it is
  (directory timestamps aside);
* regular files of the base are left byte for byte, with all their metadata, unless the file's key
  is tracked (or, again, lies below a key tracked as a regular file whose backup copy is not a
  regular file) — `TouchesFile`;
* backup: only keys tracked with an original are changed (`Remove` of that key, never
  `RemoveAll`): foreign content inside backup directories stays.

In particular (this is what the fix of `restoreFile`/`restoreSymlink` bought): when an original
regular file was removed in the transaction and a DIRECTORY now sits at its path, Rollback takes
that directory away with `Remove`, not `RemoveAll`.  Whatever the transaction created below it is
tracked as "did not exist" and is removed one by one, deepest first; whatever ANOTHER ACTOR put
there is not in the footprint and survives (the `Remove` of the non-empty directory fails and
Rollback reports the error) — `foreign_entry_survives`, `unnamed_file_keeps_content`, and the
kernel-checked run `foreign_file_below_replaced_file_survives`.

The proof (Lemmas/Footprint.lean) is frame reasoning over the abstract contract `Sim`: its
unconditional `*_frame` / `pure_*` laws, and for the `Remove`-or-`RemoveAll` decision of
`restoreFile` the two laws that say what a handle opened on the backup copy reports (`open_handle`,
`hstat_some`).  Hypotheses: tracked paths are absolute cleaned paths, the root is not tracked as
"did not exist", no tracked original is a symlink (link-free fragment: the contract has no law for
`Symlink`).

Remark on the coarse form (`rollback_leaves_unrelated_keys_alone`): "unrelated to every tracked
key" must except the root — every operation tracks the root, which is a prefix of every key — and
even then says nothing about a foreign entry inside a tracked directory; the fine form does.
-/

/-- the backup copy of key `k` on the disk is a regular file -/
def CopyIsFile (kk : Key) (m : MFS) (k : Key) : Prop := ∃ c mt, m.get (kk ++ k) = some (.file c mt)

theorem isFileAt_backup_iff {bk kk : Key} {m : MFS} {k : Key} :
    (osView bk kk .backup m).isFileAt k ↔ CopyIsFile kk m k := by
  constructor
  · rintro ⟨c, mt, h⟩
    obtain ⟨n0, h0, he⟩ := osView_some h
    rw [eraseMt_file.mp he] at h0
    exact ⟨c, mt, h0⟩
  · rintro ⟨c, mt, h⟩
    refine ⟨c, mt, ?_⟩
    rw [osView_eq]
    show (m.get (kk ++ k)).map eraseMt = _
    rw [h]; rfl

/-- T13.3 (main) Rollback changes the base only inside the footprint of the tracked map, regular
files only inside the narrower file footprint, and the backup only at keys tracked with an
original — any well-formed disk, any fault plan.

`Touches vb k oi j` (`vb` the backup view when Rollback starts) is: `j = k`; or `k` is tracked as a
directory and `j` is one of its prefixes; or `k` is tracked as a regular FILE, the backup holds no
regular file at `k`, and `j` lies below `k`.  The last disjunct is the one `RemoveAll` left in
`restoreFile` (fs_utils.go, `if !fi.Mode().IsRegular()` on the BACKUP copy's FileInfo); when the
backup copy is a regular file — always, unless somebody tampered with the backup directory — the
code makes room with `Remove` (`else if baseExists && !baseFi.Mode().IsRegular()`), which cannot
reach below `k`.  A key tracked as absent is removed with `Remove` too, and a key tracked as a
directory never affects what lies below it. -/
theorem rollback_leaves_unrelated_entries_alone (bk kk : Key) (hbk : PKey bk) (hkk : PKey kk)
    (hne1 : bk ≠ []) (hne2 : kk ≠ []) (hd1 : ¬ bk <+: kk) (hd2 : ¬ kk <+: bk)
    (w : World) (hg : OSGood bk kk w.fs)
    (hkeys : ∀ p oi, (p, oi) ∈ w.infos → ∃ k, PKey k ∧ p = kp k)
    (hroot : (kp [], none) ∉ w.infos)
    (hnolink : ∀ p i, (p, some i) ∈ w.infos → i.kind ≠ .link) :
    let w' := (rollback (osCfg bk kk) w).1
    OSGood bk kk w'.fs ∧
    (∀ j, (∀ k oi, (kp k, oi) ∈ w.infos → PKey k → k ≠ [] → ¬ Touches (osView bk kk .backup w.fs) k oi j) →
      (w'.fs.get (bk ++ j)).map eraseMt = (w.fs.get (bk ++ j)).map eraseMt) ∧
    (∀ j c mt, w.fs.get (bk ++ j) = some (.file c mt) →
      (∀ k oi, (kp k, oi) ∈ w.infos → PKey k → k ≠ [] → ¬ TouchesFile (osView bk kk .backup w.fs) k oi j) →
      w'.fs.get (bk ++ j) = some (.file c mt)) ∧
    (∀ j, (j = [] ∨ ∀ i, (kp j, some i) ∉ w.infos) →
      (w'.fs.get (kk ++ j)).map eraseMt = (w.fs.get (kk ++ j)).map eraseMt) := by
  obtain ⟨g, hb, hf, hk⟩ :=
    rollback_frame_entries (osSim bk kk hbk hkk hne1 hne2 hd1 hd2) (w := w) hg hkeys hroot hnolink
  refine ⟨g, fun j hj => hb j hj, ?_, fun j hj => hk j hj⟩
  intro j c mt hget hj
  have hv : osView bk kk .base w.fs j = some (.file c mt) := by
    rw [osView_eq]
    show (w.fs.get (bk ++ j)).map eraseMt = _
    rw [hget]; rfl
  have := hf j hj ⟨c, mt, hv⟩
  have hv' : osView bk kk .base (rollback (osCfg bk kk) w).1.fs j = some (.file c mt) := this.trans hv
  obtain ⟨n0, h0, he⟩ := osView_some hv'
  rw [eraseMt_file.mp he] at h0
  exact h0

/-- T13.4 "entries with fresh names that other actors created inside pre-existing directories
survive" — and inside directories the transaction created, and inside a directory that took the
place of a removed original file: an entry `j` of the base such that no operation named `j` or
anything below it is left as it is (with everything it contains that is equally fresh), provided
every key ABOVE `j` that is tracked as a regular file still has a regular file as its backup copy
(`hcopy`; no condition at all when no such key lies above `j`). -/
theorem foreign_entry_survives (bk kk : Key) (hbk : PKey bk) (hkk : PKey kk)
    (hne1 : bk ≠ []) (hne2 : kk ≠ []) (hd1 : ¬ bk <+: kk) (hd2 : ¬ kk <+: bk)
    (w : World) (hg : OSGood bk kk w.fs)
    (hkeys : ∀ p oi, (p, oi) ∈ w.infos → ∃ k, PKey k ∧ p = kp k)
    (hroot : (kp [], none) ∉ w.infos)
    (hnolink : ∀ p i, (p, some i) ∈ w.infos → i.kind ≠ .link)
    (j : Key)
    (hfresh : ∀ k oi, (kp k, oi) ∈ w.infos → PKey k → ¬ j <+: k)
    (hcopy : ∀ k i, (kp k, some i) ∈ w.infos → PKey k → i.kind = .file → k <+: j → CopyIsFile kk w.fs k) :
    ((rollback (osCfg bk kk) w).1.fs.get (bk ++ j)).map eraseMt = (w.fs.get (bk ++ j)).map eraseMt := by
  refine (rollback_leaves_unrelated_entries_alone bk kk hbk hkk hne1 hne2 hd1 hd2 w hg hkeys hroot hnolink).2.1 j ?_
  intro k oi hm hk _ ht
  rcases ht with rfl | ⟨i, rfl, hkind, hnf, hpre⟩ | ⟨_, _, _, hpre⟩
  · exact hfresh _ oi hm hk (List.prefix_refl _)
  · exact hnf (isFileAt_backup_iff.mpr (hcopy k i hm hk hkind hpre))
  · exact hfresh k oi hm hk hpre

/-- T13.5 "files never named by an operation keep whatever content they have": a regular file
whose key is not tracked keeps its content, mode, owner and modification time — wherever it lies,
also below the path of a removed original file where a directory now sits — provided every key
above it that is tracked as a regular file still has a regular file as its backup copy. -/
theorem unnamed_file_keeps_content (bk kk : Key) (hbk : PKey bk) (hkk : PKey kk)
    (hne1 : bk ≠ []) (hne2 : kk ≠ []) (hd1 : ¬ bk <+: kk) (hd2 : ¬ kk <+: bk)
    (w : World) (hg : OSGood bk kk w.fs)
    (hkeys : ∀ p oi, (p, oi) ∈ w.infos → ∃ k, PKey k ∧ p = kp k)
    (hroot : (kp [], none) ∉ w.infos)
    (hnolink : ∀ p i, (p, some i) ∈ w.infos → i.kind ≠ .link)
    (j : Key) (c : String) (mt : Meta) (hfile : w.fs.get (bk ++ j) = some (.file c mt))
    (hunnamed : ∀ oi, (kp j, oi) ∉ w.infos)
    (hcopy : ∀ k i, (kp k, some i) ∈ w.infos → PKey k → i.kind = .file → k <+: j → CopyIsFile kk w.fs k) :
    (rollback (osCfg bk kk) w).1.fs.get (bk ++ j) = some (.file c mt) := by
  refine (rollback_leaves_unrelated_entries_alone bk kk hbk hkk hne1 hne2 hd1 hd2 w hg hkeys hroot hnolink).2.2.1
    j c mt hfile ?_
  intro k oi hm hk _ ht
  rcases ht with rfl | ⟨i, rfl, hkind, hnf, hpre⟩
  · exact hunnamed oi hm
  · exact hnf (isFileAt_backup_iff.mpr (hcopy k i hm hk hkind hpre))

/-- T13.5' the footprint when nobody tampered with the backup copies (every key tracked as a regular
file has a regular file as its backup copy — part of the transaction invariant): the base changes at
`j` only if `j` is tracked or is an ancestor of a key tracked as a directory; a regular file changes
only if its own key is tracked.  No exception is left. -/
theorem rollback_changes_named_entries_only (bk kk : Key) (hbk : PKey bk) (hkk : PKey kk)
    (hne1 : bk ≠ []) (hne2 : kk ≠ []) (hd1 : ¬ bk <+: kk) (hd2 : ¬ kk <+: bk)
    (w : World) (hg : OSGood bk kk w.fs)
    (hkeys : ∀ p oi, (p, oi) ∈ w.infos → ∃ k, PKey k ∧ p = kp k)
    (hroot : (kp [], none) ∉ w.infos)
    (hnolink : ∀ p i, (p, some i) ∈ w.infos → i.kind ≠ .link)
    (hcopies : ∀ k i, (kp k, some i) ∈ w.infos → PKey k → k ≠ [] → i.kind = .file → CopyIsFile kk w.fs k) :
    let w' := (rollback (osCfg bk kk) w).1
    (∀ j, (∀ k oi, (kp k, oi) ∈ w.infos → PKey k → k ≠ [] →
        j ≠ k ∧ ∀ i, oi = some i → i.kind = .dir → ¬ j <+: k) →
      (w'.fs.get (bk ++ j)).map eraseMt = (w.fs.get (bk ++ j)).map eraseMt) ∧
    (∀ j c mt, w.fs.get (bk ++ j) = some (.file c mt) → (∀ oi, (kp j, oi) ∉ w.infos) →
      w'.fs.get (bk ++ j) = some (.file c mt)) := by
  obtain ⟨_, hb, hf, _⟩ :=
    rollback_leaves_unrelated_entries_alone bk kk hbk hkk hne1 hne2 hd1 hd2 w hg hkeys hroot hnolink
  constructor
  · intro j hj
    apply hb j
    intro k oi hm hk hne ht
    obtain ⟨h1, h2⟩ := hj k oi hm hk hne
    rcases ht with e | ⟨i, rfl, hkind, hnf, _⟩ | ⟨i, rfl, hkind, hpre⟩
    · exact h1 e
    · exact hnf (isFileAt_backup_iff.mpr (hcopies k i hm hk hne hkind))
    · exact h2 i rfl hkind hpre
  · intro j c mt hfile hun
    apply hf j c mt hfile
    intro k oi hm hk hne ht
    rcases ht with rfl | ⟨i, rfl, hkind, hnf, _⟩
    · exact hun oi hm
    · exact hnf (isFileAt_backup_iff.mpr (hcopies k i hm hk hne hkind))

/-- T13.6 "in the backup filesystem Rollback removes only what BackupFS put there": a backup
entry whose key is not tracked with an original — in particular foreign content inside backup
directories — is left in place. -/
theorem foreign_backup_content_survives (bk kk : Key) (hbk : PKey bk) (hkk : PKey kk)
    (hne1 : bk ≠ []) (hne2 : kk ≠ []) (hd1 : ¬ bk <+: kk) (hd2 : ¬ kk <+: bk)
    (w : World) (hg : OSGood bk kk w.fs)
    (hkeys : ∀ p oi, (p, oi) ∈ w.infos → ∃ k, PKey k ∧ p = kp k)
    (hroot : (kp [], none) ∉ w.infos)
    (hnolink : ∀ p i, (p, some i) ∈ w.infos → i.kind ≠ .link)
    (j : Key) (huntracked : ∀ i, (kp j, some i) ∉ w.infos) :
    ((rollback (osCfg bk kk) w).1.fs.get (kk ++ j)).map eraseMt = (w.fs.get (kk ++ j)).map eraseMt :=
  (rollback_leaves_unrelated_entries_alone bk kk hbk hkk hne1 hne2 hd1 hd2 w hg hkeys hroot hnolink).2.2.2
    j (Or.inr huntracked)

/-- T13.7 the coarse form: base keys unrelated (neither below nor above) to every tracked key
other than the root, and backup keys that are not tracked, are untouched. -/
theorem rollback_leaves_unrelated_keys_alone (bk kk : Key) (hbk : PKey bk) (hkk : PKey kk)
    (hne1 : bk ≠ []) (hne2 : kk ≠ []) (hd1 : ¬ bk <+: kk) (hd2 : ¬ kk <+: bk)
    (w : World) (hg : OSGood bk kk w.fs)
    (hkeys : ∀ p oi, (p, oi) ∈ w.infos → ∃ k, PKey k ∧ p = kp k)
    (hroot : (kp [], none) ∉ w.infos)
    (hnolink : ∀ p i, (p, some i) ∈ w.infos → i.kind ≠ .link) :
    let w' := (rollback (osCfg bk kk) w).1
    OSGood bk kk w'.fs ∧
    (∀ j, (∀ p oi k, (p, oi) ∈ w.infos → p = kp k → PKey k → k ≠ [] → Unrelated j k) →
      (w'.fs.get (bk ++ j)).map eraseMt = (w.fs.get (bk ++ j)).map eraseMt) ∧
    (∀ j, (∀ p oi k, (p, oi) ∈ w.infos → p = kp k → PKey k → j ≠ k) →
      (w'.fs.get (kk ++ j)).map eraseMt = (w.fs.get (kk ++ j)).map eraseMt) := by
  obtain ⟨g, hb, hk⟩ :=
    rollback_frame_unrelated (osSim bk kk hbk hkk hne1 hne2 hd1 hd2) (w := w) hg hkeys hroot hnolink
  exact ⟨g, fun j hj => hb j hj, fun j hj => hk j hj⟩

/-! ### non-vacuity -/

def exDirInfo : Info := { name := [], size := 0, kind := .dir, perm := 0o755, mtime := .old 0, uid := 0, gid := 0 }

/-- the example disk of `Lemmas/SimOS.lean` (`/b` with a file `f` and a directory `d`; backup root
`/k`) in the middle of a transaction that named `/d/e` (absent), hence tracks `/`, `/d`, `/d/e`;
one `Remove` is planned to fail -/
def exWorld : World :=
  { fs := exDisk,
    infos := [(kp [], some exDirInfo), (kp [['d']], some exDirInfo), (kp [['d'], ['e']], none)],
    faults := [{ sig := { side := .base, method := "remove", args := [kp [['d'], ['e']]] }, occ := 0 }] }

theorem exWorld_mem {k : Key} {oi : Option Info} (hm : (kp k, oi) ∈ exWorld.infos) (hk : PKey k) :
    (k = [] ∧ oi = some exDirInfo) ∨ (k = [['d']] ∧ oi = some exDirInfo) ∨ (k = [['d'], ['e']] ∧ oi = none) := by
  simp only [exWorld, List.mem_cons, Prod.mk.injEq, List.not_mem_nil, or_false] at hm
  rcases hm with ⟨h, rfl⟩ | ⟨h, rfl⟩ | ⟨h, rfl⟩
  · exact Or.inl ⟨kp_inj hk (by decide) h, rfl⟩
  · exact Or.inr (Or.inl ⟨kp_inj hk (by decide) h, rfl⟩)
  · exact Or.inr (Or.inr ⟨kp_inj hk (by decide) h, rfl⟩)

/-- the hypotheses of the theorems above hold of `exWorld`; a foreign entry `/d/x` satisfies the
premise of T13.4, the untracked file `/f` that of T13.5, a foreign backup entry `/d/y` that of
T13.6 -/
example :
    OSGood [['b']] [['k']] exWorld.fs ∧
    (∀ p oi, (p, oi) ∈ exWorld.infos → ∃ k, PKey k ∧ p = kp k) ∧
    (kp [], none) ∉ exWorld.infos ∧
    (∀ p i, (p, some i) ∈ exWorld.infos → i.kind ≠ .link) ∧
    (∀ k oi, (kp k, oi) ∈ exWorld.infos → PKey k → ¬ [['d'], ['x']] <+: k) ∧
    (∀ k i, (kp k, some i) ∈ exWorld.infos → PKey k → i.kind = .file → k <+: [['d'], ['x']] →
      CopyIsFile [['k']] exWorld.fs k) ∧
    exWorld.fs.get ([['b']] ++ [['f']]) = some (.file "hello" { exMeta with mode := 0o644 }) ∧
    (∀ oi, (kp [['f']], oi) ∉ exWorld.infos) ∧
    (∀ k i, (kp k, some i) ∈ exWorld.infos → PKey k → i.kind = .file → k <+: [['f']] →
      CopyIsFile [['k']] exWorld.fs k) ∧
    (∀ i, (kp [['d'], ['y']], some i) ∉ exWorld.infos) := by
  refine ⟨osGood_example, ?_, ?_, ?_, ?_, ?_, rfl, ?_, ?_, ?_⟩
  · intro p oi hm
    simp only [exWorld, List.mem_cons, Prod.mk.injEq, List.not_mem_nil, or_false] at hm
    rcases hm with ⟨rfl, _⟩ | ⟨rfl, _⟩ | ⟨rfl, _⟩
    · exact ⟨[], by decide, rfl⟩
    · exact ⟨[['d']], by decide, rfl⟩
    · exact ⟨[['d'], ['e']], by decide, rfl⟩
  · decide
  · intro p i hm
    simp only [exWorld, List.mem_cons, Prod.mk.injEq, List.not_mem_nil, or_false] at hm
    rcases hm with ⟨_, h⟩ | ⟨_, h⟩ | ⟨_, h⟩
    · cases h; decide
    · cases h; decide
    · cases h
  · intro k oi hm hk
    rcases exWorld_mem hm hk with ⟨rfl, _⟩ | ⟨rfl, _⟩ | ⟨rfl, _⟩ <;> decide
  · intro k i hm hk hkind
    rcases exWorld_mem hm hk with ⟨_, h⟩ | ⟨_, h⟩ | ⟨_, h⟩
    · cases h; cases hkind
    · cases h; cases hkind
    · cases h
  · intro oi hm
    rcases exWorld_mem hm (by decide) with ⟨h, _⟩ | ⟨h, _⟩ | ⟨h, _⟩ <;> exact absurd h (by decide)
  · intro k i hm hk hkind
    rcases exWorld_mem hm hk with ⟨_, h⟩ | ⟨_, h⟩ | ⟨_, h⟩
    · cases h; cases hkind
    · cases h; cases hkind
    · cases h
  · intro i hm
    rcases exWorld_mem hm (by decide) with ⟨h, _⟩ | ⟨h, _⟩ | ⟨h, _⟩ <;> exact absurd h (by decide)

/-! ### the scenario of the fix: a directory with foreign content where an original file was

Original file `/c`.  The transaction removes `/c` and calls `MkdirAll("/c/d")`; another actor puts
a file `/c/d/x` there, directly on the disk (it is not tracked).  Rollback must not delete it. -/

def exFileInfo : Info := { name := [], size := 4, kind := .file, perm := 0o644, mtime := .old 0, uid := 0, gid := 0 }

/-- what the foreign actor wrote -/
def foreignNode : Node := .file "foreign" { mode := 0o600, uid := 7, gid := 7, mtime := .old 5 }

/-- the disk of that scenario when Rollback starts, written out: `/b/c` is a directory now, with
`/b/c/d` (created by the transaction) and the foreign `/b/c/d/x`; the backup holds the copy `/k/c` -/
def rfDisk : MFS where
  get := fun k =>
    if k = [] then some (.dir exMeta)
    else if k = [['b']] then some (.dir exMeta)
    else if k = [['k']] then some (.dir exMeta)
    else if k = [['b'], ['c']] then some (.dir exMeta)
    else if k = [['b'], ['c'], ['d']] then some (.dir exMeta)
    else if k = [['b'], ['c'], ['d'], ['x']] then some foreignNode
    else if k = [['k'], ['c']] then some (.file "orig" { exMeta with mode := 0o644 })
    else none
  dom := [[], [['b']], [['k']], [['b'], ['c']], [['b'], ['c'], ['d']], [['b'], ['c'], ['d'], ['x']], [['k'], ['c']]]
  umask := 0o022

theorem rfDisk_live {k : Key} {n : Node} (h : rfDisk.get k = some n) :
    (k = [] ∧ n = .dir exMeta) ∨ (k = [['b']] ∧ n = .dir exMeta) ∨ (k = [['k']] ∧ n = .dir exMeta) ∨
    (k = [['b'], ['c']] ∧ n = .dir exMeta) ∨ (k = [['b'], ['c'], ['d']] ∧ n = .dir exMeta) ∨
    (k = [['b'], ['c'], ['d'], ['x']] ∧ n = foreignNode) ∨
    (k = [['k'], ['c']] ∧ n = .file "orig" { exMeta with mode := 0o644 }) := by
  simp only [rfDisk] at h
  split at h
  · cases h; exact Or.inl ⟨‹_›, rfl⟩
  split at h
  · cases h; exact Or.inr (Or.inl ⟨‹_›, rfl⟩)
  split at h
  · cases h; exact Or.inr (Or.inr (Or.inl ⟨‹_›, rfl⟩))
  split at h
  · cases h; exact Or.inr (Or.inr (Or.inr (Or.inl ⟨‹_›, rfl⟩)))
  split at h
  · cases h; exact Or.inr (Or.inr (Or.inr (Or.inr (Or.inl ⟨‹_›, rfl⟩))))
  split at h
  · cases h; exact Or.inr (Or.inr (Or.inr (Or.inr (Or.inr (Or.inl ⟨‹_›, rfl⟩)))))
  split at h
  · cases h; exact Or.inr (Or.inr (Or.inr (Or.inr (Or.inr (Or.inr ⟨‹_›, rfl⟩)))))
  · cases h

theorem osGood_rfDisk : OSGood [['b']] [['k']] rfDisk := by
  refine ⟨⟨_, rfl⟩, ?_, ?_, ?_, ?_, ⟨_, rfl⟩, ⟨_, rfl⟩, ?_⟩
  · intro k n h
    rcases rfDisk_live h with ⟨rfl, _⟩ | ⟨rfl, _⟩ | ⟨rfl, _⟩ | ⟨rfl, _⟩ | ⟨rfl, _⟩ | ⟨rfl, _⟩ | ⟨rfl, _⟩ <;> decide
  · intro k n h
    rcases rfDisk_live h with ⟨rfl, _⟩ | ⟨rfl, _⟩ | ⟨rfl, _⟩ | ⟨rfl, _⟩ | ⟨rfl, _⟩ | ⟨rfl, _⟩ | ⟨rfl, _⟩ <;> decide
  · intro k n h
    rcases rfDisk_live h with ⟨_, rfl⟩ | ⟨_, rfl⟩ | ⟨_, rfl⟩ | ⟨_, rfl⟩ | ⟨_, rfl⟩ | ⟨_, rfl⟩ | ⟨_, rfl⟩ <;> decide
  · intro k n h hne
    rcases rfDisk_live h with ⟨rfl, _⟩ | ⟨rfl, _⟩ | ⟨rfl, _⟩ | ⟨rfl, _⟩ | ⟨rfl, _⟩ | ⟨rfl, _⟩ | ⟨rfl, _⟩
    · exact absurd rfl hne
    all_goals exact ⟨_, rfl⟩
  · intro k t mt _ h
    rcases rfDisk_live h with ⟨_, e⟩ | ⟨_, e⟩ | ⟨_, e⟩ | ⟨_, e⟩ | ⟨_, e⟩ | ⟨_, e⟩ | ⟨_, e⟩ <;> cases e

/-- the world of the scenario when Rollback starts: `/` and `/c` tracked with their originals,
`/c/d` tracked as "did not exist"; `/c/d/x` is not tracked.  One `Chtimes` is planned to fail, to
show that the fault plan is arbitrary. -/
def rfWorld : World :=
  { fs := rfDisk,
    infos := [(kp [], some exDirInfo), (kp [['c']], some exFileInfo), (kp [['c'], ['d']], none)],
    faults := [{ sig := { side := .base, method := "chtimes", args := [kp [['c']]] }, occ := 0 }] }

theorem rfWorld_mem {k : Key} {oi : Option Info} (hm : (kp k, oi) ∈ rfWorld.infos) (hk : PKey k) :
    (k = [] ∧ oi = some exDirInfo) ∨ (k = [['c']] ∧ oi = some exFileInfo) ∨ (k = [['c'], ['d']] ∧ oi = none) := by
  simp only [rfWorld, List.mem_cons, Prod.mk.injEq, List.not_mem_nil, or_false] at hm
  rcases hm with ⟨h, rfl⟩ | ⟨h, rfl⟩ | ⟨h, rfl⟩
  · exact Or.inl ⟨kp_inj hk (by decide) h, rfl⟩
  · exact Or.inr (Or.inl ⟨kp_inj hk (by decide) h, rfl⟩)
  · exact Or.inr (Or.inr ⟨kp_inj hk (by decide) h, rfl⟩)

/-- after Rollback `/c/d/x` is byte for byte, with mode, owner and time, what the other actor wrote -/
def ForeignSurvives (w : World) : Prop :=
  (rollback (osCfg [['b']] [['k']]) w).1.fs.get [['b'], ['c'], ['d'], ['x']] = some foreignNode

/-- (the world is kept a variable so that no defeq check ever runs the model on a closed term) -/
theorem foreignSurvives_of_eq (w : World) (hw : w = rfWorld) : ForeignSurvives w := by
  have hkeys : ∀ p oi, (p, oi) ∈ w.infos → ∃ k, PKey k ∧ p = kp k := by
    rw [hw]
    intro p oi hm
    simp only [rfWorld, List.mem_cons, Prod.mk.injEq, List.not_mem_nil, or_false] at hm
    rcases hm with ⟨rfl, _⟩ | ⟨rfl, _⟩ | ⟨rfl, _⟩
    · exact ⟨[], by decide, rfl⟩
    · exact ⟨[['c']], by decide, rfl⟩
    · exact ⟨[['c'], ['d']], by decide, rfl⟩
  have hroot : (kp [], none) ∉ w.infos := by rw [hw]; decide
  have hnolink : ∀ p i, (p, some i) ∈ w.infos → i.kind ≠ .link := by
    rw [hw]
    intro p i hm
    simp only [rfWorld, List.mem_cons, Prod.mk.injEq, List.not_mem_nil, or_false] at hm
    rcases hm with ⟨_, h⟩ | ⟨_, h⟩ | ⟨_, h⟩
    · cases h; decide
    · cases h; decide
    · cases h
  have hg : OSGood [['b']] [['k']] w.fs := by rw [hw]; exact osGood_rfDisk
  have hfile : w.fs.get ([['b']] ++ [['c'], ['d'], ['x']]) =
      some (.file "foreign" { mode := 0o600, uid := 7, gid := 7, mtime := .old 5 }) := by rw [hw]; rfl
  have hun : ∀ oi, (kp [['c'], ['d'], ['x']], oi) ∉ w.infos := by
    rw [hw]
    intro oi hm
    rcases rfWorld_mem hm (by decide) with ⟨h, _⟩ | ⟨h, _⟩ | ⟨h, _⟩ <;> exact absurd h (by decide)
  have hcopy : ∀ k i, (kp k, some i) ∈ w.infos → PKey k → i.kind = .file → k <+: [['c'], ['d'], ['x']] →
      CopyIsFile [['k']] w.fs k := by
    rw [hw]
    intro k i hm hk hkind _
    rcases rfWorld_mem hm hk with ⟨_, h⟩ | ⟨rfl, _⟩ | ⟨_, h⟩
    · cases h; cases hkind
    · exact ⟨_, _, rfl⟩
    · cases h
  exact unnamed_file_keeps_content [['b']] [['k']] (by decide) (by decide) (by decide) (by decide) (by decide)
    (by decide) w hg hkeys hroot hnolink [['c'], ['d'], ['x']] _ _ hfile hun hcopy

/-- T13.4/T13.5 apply to the foreign file BELOW THE REPLACED FILE PATH (non-vacuity of the
strengthened statements: `/c` is tracked as a regular file, lies above `/c/d/x`, and its backup copy
is a regular file): whatever the fault plan does (here it refuses a `Chtimes`), `/c/d/x` is byte for
byte what the other actor wrote after Rollback. -/
theorem foreign_file_below_replaced_file_survives_any_plan : ForeignSurvives rfWorld :=
  foreignSurvives_of_eq rfWorld rfl

/-- the base disk of the scenario before the transaction: `/b/c` is a regular file -/
def rfDisk0 : MFS where
  get := fun k =>
    if k = [] then some (.dir exMeta)
    else if k = [['b']] then some (.dir exMeta)
    else if k = [['k']] then some (.dir exMeta)
    else if k = [['b'], ['c']] then some (.file "orig" { exMeta with mode := 0o644 })
    else none
  dom := [[], [['b']], [['k']], [['b'], ['c']]]
  umask := 0o022

set_option maxRecDepth 100000 in
/-- **The scenario, run from the start in the kernel** (`decide`): original file `/c`; the
transaction removes `/c` and calls `MkdirAll("/c/d")` — `/`, `/c`, `/c/d` are tracked, the backup
holds the copy of `/c`; a foreign file `/c/d/x` is put on the disk directly (not tracked).
Rollback removes nothing below `/c` that it did not create: `Remove("/c/d")` fails (not empty),
`Remove("/c")` fails, Rollback REPORTS THE ERROR (`.ok true`), and `/c/d/x` survives with its
content, mode, owner and time.  (With `RemoveAll` in `restoreFile` the file was deleted.)
Observation, unchanged by the fix: the clean-up phases still run after the failed restore and delete
the backup copy of `/c`. -/
theorem foreign_file_below_replaced_file_survives :
    let cfg := osCfg [['b']] [['k']]
    let w1 := runOps cfg { fs := rfDisk0 } [.remove "/c".toList, .mkdirAll "/c/d".toList 0o755]
    let w2 : World := { w1 with fs := w1.fs.set [['b'], ['c'], ['d'], ['x']] (some foreignNode) }
    let r := rollback cfg w2
    rfDisk0.get [['b'], ['c']] = some (.file "orig" { exMeta with mode := 0o644 }) ∧
    w2.infos.map Prod.fst = ["/".toList, "/c".toList, "/c/d".toList] ∧
    (w2.fs.get [['b'], ['c']]).map Node.kind = some .dir ∧
    (w2.fs.get [['b'], ['c'], ['d']]).map Node.kind = some .dir ∧
    w2.fs.get [['k'], ['c']] = some (.file "orig" { exMeta with mode := 0o644 }) ∧
    r.2 = .ok true ∧
    r.1.fs.get [['b'], ['c'], ['d'], ['x']] = some foreignNode ∧
    (r.1.fs.get [['b'], ['c'], ['d']]).map Node.kind = some .dir ∧
    r.1.fs.get [['k'], ['c']] = none := by
  refine ⟨by decide +kernel, by decide +kernel, by decide +kernel, by decide +kernel, by decide +kernel,
    by decide +kernel, by decide +kernel, by decide +kernel, by decide +kernel⟩

end Props.C13
