import Lemmas
import Generated.LockFacts
/-!
# C10 — safe and atomic under concurrent use (protocol proof; partial by nature)

Two parts.  (1) `serialisable`: in the interleaving semantics of `Model/Conc.lean` (threads that
are `mu.Lock(); a₁ … aₙ; mu.Unlock()` or single lock-free read-only steps, one mutex) every valid
schedule leaves the shared state exactly as the serial execution of the critical sections in
lock-acquisition order does — so C01/C02 hold for every concurrent execution "as if the operations
had run one after another".  (2) `lock_discipline`: the facts regenerated from the Go sources on
every run say that every method of `*BackupFS` has one of these two shapes.

What the model cannot exhibit (named in DESIGN.md): Go-memory-model data races as such, writes
through a handle after the creating call returned, and read-only operations observing
intermediate states of a running RemoveAll/Rollback.
-/
namespace Props.C10
open Conc

/-- T10.1 For every schedule that the mutex admits, the shared state reached is the one the
critical sections produce when run one after another in lock-acquisition order; in particular once
no thread holds the mutex. -/
theorem serialisable {σ : Type} (ths : Nat → Thread σ) (s0 : σ) (sched : List Nat) (c : Config σ)
    (h : exec ths sched (init s0) = some c) (hfree : c.owner = none) :
    c.st = serial ths c.order s0 := by
  have hi := inv_exec ths s0 sched (init s0) c (inv_init ths s0) h
  have := hi.hold
  rw [hfree] at this
  exact this

/-- T10.1b while a thread is inside its critical section, the state is the serial state of the
completed sections followed by a prefix of the running one: no other thread's step is interleaved
into a critical section. -/
theorem critical_sections_are_atomic {σ : Type} (ths : Nat → Thread σ) (s0 : σ) (sched : List Nat)
    (c : Config σ) (t : Nat) (h : exec ths sched (init s0) = some c) (hown : c.owner = some t) :
    ∃ pre steps, ths t = .locked steps ∧ c.order = pre ++ [t] ∧
      c.st = runSteps (steps.take (c.pc t - 1)) (serial ths pre s0) := by
  have hi := inv_exec ths s0 sched (init s0) c (inv_init ths s0) h
  have := hi.hold
  rw [hown] at this
  obtain ⟨pre, steps, h1, h2, _, _, h5⟩ := this
  exact ⟨pre, steps, h1, h2, h5⟩

/-! ## the lock discipline of the Go code (facts regenerated on every run) -/
open Generated

def findFact (n : String) : Option MethodFact := lockFacts.find? (·.name = n)

/-- does (a region of) a method need the mutex: it touches `baseInfos`, issues a mutating call on
base/backup, or calls an unexported helper that does (transitively; `fuel` = number of methods) -/
def regionNeeds : Nat → RegionFact → Bool
  | 0, r => r.refsInfos || r.mutatingCall
  | fuel + 1, r =>
    r.refsInfos || r.mutatingCall ||
      r.calls.any (fun n =>
        match findFact n with
        | some g => !g.exported && (regionNeeds fuel g.unlocked || regionNeeds fuel g.locked)
        | none => false)

/-- an exported method takes the mutex itself -/
def takesLock (n : String) : Bool :=
  match findFact n with
  | some g => g.exported && g.locksAnywhere
  | none => false

/-- the discipline for one method -/
def methodOk (f : MethodFact) : Bool :=
  if f.exported then
    -- nothing that needs the mutex happens outside the lock region …
    !regionNeeds lockFacts.length f.unlocked &&
    -- … the region is `mu.Lock(); defer mu.Unlock()` and is never left early …
    (!f.locksAnywhere || (f.lockPair && !f.earlyUnlock)) &&
    -- … and no method that locks is called while the mutex is held (self-deadlock)
    !f.locked.calls.any takesLock
  else
    -- unexported helpers run with the mutex already held: they never lock
    !f.locksAnywhere && !f.earlyUnlock

/-- T10.2 every method of `*BackupFS` that touches the tracked map or issues a mutating call on the
base or backup filesystem does so only inside `mu.Lock(); defer mu.Unlock()`, taken before anything
sensitive and never released early; helpers never lock; no locking method is called with the mutex
held; no package-level function touches the tracked map. -/
theorem lock_discipline :
    lockFacts.all methodOk = true ∧ pkgFuncsTouchingInfos = [] := by
  decide

/-- the methods the discipline is about exist (the facts are not empty): the mutators, ForceBackup,
Rollback, Map, SetMap and UnmarshalJSON take the lock; the read-only methods do not need it. -/
theorem lock_discipline_nonvacuous :
    (["Create", "Mkdir", "MkdirAll", "OpenFile", "Remove", "RemoveAll", "Rename", "Chmod", "Chown", "Chtimes",
      "Symlink", "Lchown", "ForceBackup", "Rollback", "Map", "SetMap", "UnmarshalJSON"].all
        (fun n => takesLock n)) = true ∧
    (["Stat", "Lstat", "Readlink", "Open"].all (fun n =>
        match findFact n with
        | some f => !regionNeeds lockFacts.length f.unlocked
        | none => false)) = true := by
  decide

end Props.C10
