import Lemmas.HLHSub
import Props.C06L
/-!
# C06 (disk level, disks WITH SYMLINKS) — histories

`Props/C06L.lean` proves, for ONE call on a well-formed disk with symlinks anywhere (`WFL`), that a call
whose own route is clean (`Route`) leaves every node at or below a hidden key exactly as it was.  Here:

* `wfl_preserved` — EVERY call through `HiddenFS` over `PrefixFS` over the OS model keeps the disk
  well-formed: all 16 methods, any name strings, any hidden paths, any route (through symlinks, `..`,
  absolute targets), refused or not, the whole `HiddenFS.RemoveAll` program included.  No hypothesis
  besides `WFL` itself (`Lemmas/HLHRes.lean`: on a `WFL` disk every name resolution ends at a plain key,
  a plain missing name in a live directory, or an error; `WFL` is `L.OSGoodL [] []`, whose set/move/remove
  lemmas are reused).
* `hidden_subtree_untouched_history_with_links_partial` — along any history of calls each of which
  satisfies `Route` IN THE STATE IT IS ISSUED IN (`RouteHist`, a recursive predicate over the history),
  every node at or below a hidden key is exactly what it was at the start, and the disk stays `WFL`.
* `route_cannot_be_judged_on_the_initial_disk` — the boundary (kernel-checked): on a disk without any
  symlink every call of `Symlink("hid","/a/l")`, `Rename("/a/l","/l")`, `Remove("/l/x")` satisfies
  `Route` judged on the INITIAL disk, the first two also in the state they run in; the third, in its
  state, does not, and it deletes the hidden file.
-/
namespace Props.C06
open BFS BFS.D BFS.HiddenFS BFS.HLL BFS.L BFS.HLH

/-- D06.0H `wfl_preserved`: every one of the 16 calls through `HiddenFS(hiddenPaths)` over
`PrefixFS(kp bk)` over the OS model keeps a disk with symlinks anywhere well-formed — any names, any
hidden paths (any spelling), any route, refused calls and the whole `RemoveAll` program included. -/
theorem wfl_preserved (bk : Key) (hbk : PKey bk) (hiddenPaths : List Path) (m : MFS) (hw : WFL m) (c : Call) :
    WFL ((hiddenFS hiddenPaths (prefixFS (kp bk) osfs)).call m c).1 :=
  hidden_call_wfl hbk hiddenPaths hw c

/-- the same one layer down: every call through `PrefixFS(kp bk)` over the OS model -/
theorem wfl_preserved_prefix (bk : Key) (hbk : PKey bk) (m : MFS) (hw : WFL m) (c : Call) :
    WFL ((prefixFS (kp bk) osfs).call m c).1 :=
  prefix_call_wfl hbk hw c

/-- and at the bottom: every OS call, any argument text -/
theorem wfl_preserved_os (m : MFS) (hw : WFL m) (c : Call) : WFL (osCall m c).1 :=
  osCall_wfl hw c

/-- the disk after a history of calls through `HiddenFS(kp h₁, …)` over `PrefixFS(kp bk)` -/
def runHistL (bk : Key) (hks : List Key) : MFS → List Call → MFS
  | m, [] => m
  | m, c :: cs => runHistL bk hks ((hiddenFS (hks.map kp) (prefixFS (kp bk) osfs)).call m c).1 cs

/-- every call of the history satisfies `Route` in the state it is issued in -/
def RouteHist (bk : Key) (hks : List Key) : MFS → List Call → Prop
  | _, [] => True
  | m, c :: cs => Route bk hks m c ∧ RouteHist bk hks ((hiddenFS (hks.map kp) (prefixFS (kp bk) osfs)).call m c).1 cs

theorem wfl_preserved_history (bk : Key) (hbk : PKey bk) (hks : List Key) :
    ∀ (cs : List Call) (m : MFS), WFL m → WFL (runHistL bk hks m cs)
  | [], _, hw => hw
  | c :: cs, m, hw => wfl_preserved_history bk hbk hks cs _ (wfl_preserved bk hbk _ m hw c)

/-- D06.2L `hidden_subtree_untouched_history_with_links_partial`: `HiddenFS(kp h₁, …)` over
`PrefixFS(kp bk)` over the OS model, a well-formed disk with symlinks anywhere, any history of the 16
calls with any name strings, each of which satisfies `Route` in the state it is issued in: every node
at or below a hidden key is, at the end (hence after every prefix of the history), exactly what it was
at the start; the disk is still well-formed. -/
theorem hidden_subtree_untouched_history_with_links_partial (bk : Key) (hbk : PKey bk) (hks : List Key)
    (hp : ∀ h ∈ hks, PKey h) :
    ∀ (cs : List Call) (m : MFS), WFL m → RouteHist bk hks m cs →
      WFL (runHistL bk hks m cs) ∧
      ∀ j, (∃ h ∈ hks, h <+: j) → (runHistL bk hks m cs).get (bk ++ j) = m.get (bk ++ j)
  | [], _, hw, _ => ⟨hw, fun _ _ => rfl⟩
  | c :: cs, m, hw, hr => by
    obtain ⟨h1, h2⟩ := hidden_subtree_untouched_history_with_links_partial bk hbk hks hp cs _
      (wfl_preserved bk hbk _ m hw c) hr.2
    refine ⟨h1, fun j hj => ?_⟩
    show (runHistL bk hks _ cs).get (bk ++ j) = _
    rw [h2 j hj]
    exact hidden_subtree_untouched_with_links_partial bk hbk hks hp m hw c hr.1 j hj

/-- `RouteHist` splits along the history: a prefix, then the rest in the state the prefix leaves -/
theorem routeHist_append (bk : Key) (hks : List Key) :
    ∀ (cs ds : List Call) (m : MFS),
      RouteHist bk hks m (cs ++ ds) ↔ RouteHist bk hks m cs ∧ RouteHist bk hks (runHistL bk hks m cs) ds
  | [], _, _ => by simp [RouteHist, runHistL]
  | c :: cs, ds, m => by
    simp only [List.cons_append, RouteHist, runHistL, routeHist_append bk hks cs ds, and_assoc]

theorem runHistL_append (bk : Key) (hks : List Key) :
    ∀ (cs ds : List Call) (m : MFS), runHistL bk hks m (cs ++ ds) = runHistL bk hks (runHistL bk hks m cs) ds
  | [], _, _ => rfl
  | c :: cs, ds, m => by simp only [List.cons_append, runHistL, runHistL_append bk hks cs ds]

/-- a checker for `RouteHist` on concrete disks and histories -/
def routeHistB (bk : Key) (hks : List Key) : MFS → List Call → Bool
  | _, [] => true
  | m, c :: cs => routeB bk hks m c && routeHistB bk hks ((hiddenFS (hks.map kp) (prefixFS (kp bk) osfs)).call m c).1 cs

theorem routeHist_of_B {bk : Key} {hks : List Key} :
    ∀ {cs : List Call} {m : MFS}, routeHistB bk hks m cs = true → RouteHist bk hks m cs
  | [], _, _ => trivial
  | c :: cs, m, h => by
    simp only [routeHistB, Bool.and_eq_true] at h
    exact ⟨route_of_B h.1, routeHist_of_B h.2⟩

/-! ## the boundary: `Route` cannot be judged on the initial disk

`exDiskP` (Props/C06L.lean) holds no symlink at all, so every name's walk on it is free of symlinks:
all three calls satisfy `Route` when it is judged on the INITIAL disk.  Run in sequence, the first two
also satisfy it in their own states (and, by the theorem, leave the hidden subtree alone); they leave the
relative link `/l -> hid` behind, through which the third call's name runs: `Route` fails for it in the
state it is issued in, and it deletes the hidden file.  A hypothesis on the initial disk and the calls'
names alone can therefore not replace `RouteHist` — unless it also restricts what `Symlink`/`Rename` may
build. -/

def escapeHist : List Call :=
  [.symlink "hid".toList "/a/l".toList, .rename "/a/l".toList "/l".toList, .remove "/l/x".toList]

theorem exDiskP_live {k : Key} {n : Node} (h : exDiskP.get k = some n) : k ∈ exDiskP.dom := by
  simp only [exDiskP] at h ⊢
  repeat' split at h
  all_goals first | (cases h; done) | (subst_vars; decide)

theorem wfl_exDiskP : WFL exDiskP := by
  have hall : ∀ k ∈ exDiskP.dom, ∀ n, exDiskP.get k = some n →
      PKey k ∧ n.meta.mode < 4096 ∧ (k ≠ [] → ∃ mt, exDiskP.get k.dropLast = some (.dir mt)) := by
    intro k hk n hn
    simp only [exDiskP, List.mem_cons, List.not_mem_nil, or_false] at hk
    rcases hk with rfl | rfl | rfl | rfl | rfl <;>
      (cases hn; exact ⟨by decide, by decide, fun _ => ⟨_, rfl⟩⟩)
  refine ⟨⟨_, rfl⟩, ?_, ?_, ?_, ?_⟩
  · intro k n h; exact (hall k (exDiskP_live h) n h).1
  · intro k n h; exact exDiskP_live h
  · intro k n h; exact (hall k (exDiskP_live h) n h).2.1
  · intro k n h hne; exact (hall k (exDiskP_live h) n h).2.2 hne

theorem exDiskP_linkfree : ∀ k t mt, exDiskP.get k ≠ some (.link t mt) := by
  intro k t mt h
  simp only [exDiskP] at h
  repeat' split at h
  all_goals cases h

theorem route_cannot_be_judged_on_the_initial_disk :
    WFL exDiskP ∧ (∀ k t mt, exDiskP.get k ≠ some (.link t mt)) ∧
    -- every name of every call is lexically visible
    (∀ c ∈ escapeHist, ∀ n ∈ c.accessPaths, isHidden n (mk ([[['h', 'i', 'd']]].map kp)) = .ok false) ∧
    -- judged on the INITIAL disk every call satisfies `Route`
    (∀ c ∈ escapeHist, Route [['b']] [[['h', 'i', 'd']]] exDiskP c) ∧
    -- in the states they are issued in: the first two do, the third does not
    RouteHist [['b']] [[['h', 'i', 'd']]] exDiskP (escapeHist.take 2) ∧
    ¬ RouteHist [['b']] [[['h', 'i', 'd']]] exDiskP escapeHist ∧
    -- the hidden file is there after the first two calls (also by the theorem), and gone after the third
    (runHistL [['b']] [[['h', 'i', 'd']]] exDiskP (escapeHist.take 2)).get [['b'], ['h', 'i', 'd'], ['x']] =
      exDiskP.get [['b'], ['h', 'i', 'd'], ['x']] ∧
    exDiskP.get [['b'], ['h', 'i', 'd'], ['x']] ≠ none ∧
    (runHistL [['b']] [[['h', 'i', 'd']]] exDiskP escapeHist).get [['b'], ['h', 'i', 'd'], ['x']] = none := by
  have h2 : RouteHist [['b']] [[['h', 'i', 'd']]] exDiskP (escapeHist.take 2) :=
    routeHist_of_B (by decide +kernel)
  refine ⟨wfl_exDiskP, exDiskP_linkfree, ?_, ?_, h2, ?_, ?_, by decide +kernel, by decide +kernel⟩
  · intro c hc n hn
    simp only [escapeHist, List.mem_cons, List.not_mem_nil, or_false] at hc
    rcases hc with rfl | rfl | rfl <;>
      simp only [Call.accessPaths, List.mem_cons, List.not_mem_nil, or_false] at hn
    · subst hn; decide +kernel
    · rcases hn with rfl | rfl <;> decide +kernel
    · subst hn; decide +kernel
  · intro c hc
    refine Route.of_final_nolink (fun n _ p _ _ t mt e => exDiskP_linkfree p t mt e)
      (fun _ n _ t mt e => exDiskP_linkfree _ t mt e)
  · intro hr
    have hsplit : escapeHist = escapeHist.take 2 ++ [.remove "/l/x".toList] := rfl
    rw [hsplit, routeHist_append] at hr
    exact route_built_through_hiddenfs.2.2.2.2.2.2.2.1 hr.2.1
  · exact (hidden_subtree_untouched_history_with_links_partial [['b']] (by decide) [[['h', 'i', 'd']]]
      (by decide) _ exDiskP wfl_exDiskP h2).2 [['h', 'i', 'd'], ['x']] (by decide)

/-! ## non-vacuity: a history next to and on the links of `exDiskL`

`exDiskL` (Props/C06L.lean): hidden `/hid/x`; `/in -> hid` INTO the hidden directory; `/v/l -> ../hid/x`
at the hidden file; `/v/g -> f`; `/w -> v`.  The history chowns the link `/v/l` itself, creates a file
beside it, moves the link `/in` (as a link) into `/v`, chmods THROUGH the final link `/v/g` (resolving to
the visible `/v/f`), creates a new link, removes the link `/v/l`, and finally runs the whole `RemoveAll`
program over `/v`, which meets the links `/v/in2 -> hid`, `/v/g`, `/v/l3` as leaves. -/

def linkHist : List Call :=
  [.lchown "/v/l".toList 7 7,
   .create "/v/new".toList,
   .rename "/in".toList "/v/in2".toList,
   .chmod "/v/g".toList 0o600,
   .symlink "f".toList "/v/l3".toList,
   .remove "/v/l".toList,
   .removeAll "/v".toList]

/-- every call satisfies `Route` in the state it is issued in (kernel-checked) -/
theorem linkHist_route : RouteHist [['b']] [[['h', 'i', 'd']]] exDiskL linkHist :=
  routeHist_of_B (by decide +kernel)

/-- the theorem applies: after the whole history the hidden directory and the hidden file are exactly as
before, and the disk is well-formed -/
example :
    WFL (runHistL [['b']] [[['h', 'i', 'd']]] exDiskL linkHist) ∧
    (runHistL [['b']] [[['h', 'i', 'd']]] exDiskL linkHist).get [['b'], ['h', 'i', 'd']] = some (.dir exMeta) ∧
    (runHistL [['b']] [[['h', 'i', 'd']]] exDiskL linkHist).get [['b'], ['h', 'i', 'd'], ['x']] =
      some (.file "secret" { exMeta with mode := 0o600 }) :=
  have H := hidden_subtree_untouched_history_with_links_partial [['b']] (by decide) [[['h', 'i', 'd']]]
    (by decide) linkHist exDiskL wfl_exDiskL linkHist_route
  ⟨H.1, H.2 [['h', 'i', 'd']] (by decide), H.2 [['h', 'i', 'd'], ['x']] (by decide)⟩

/-- the calls do their work (kernel-checked on the six calls before `RemoveAll`, whose `Walk` the kernel
does not unfold): the link into the hidden directory has moved as a link, the leaf link is gone, the
file behind `/v/g` is chmodded, the new file and the new link exist — the hidden file is as before -/
example :
    let s := runHistL [['b']] [[['h', 'i', 'd']]] exDiskL (linkHist.take 6)
    s.get [['b'], ['v'], ['i', 'n', '2']] = some (.link ['h', 'i', 'd'] { exMeta with mode := 0o777 }) ∧
    s.get [['b'], ['i', 'n']] = none ∧
    s.get [['b'], ['v'], ['l']] = none ∧
    (s.get [['b'], ['v'], ['n', 'e', 'w']]).isSome = true ∧
    s.get [['b'], ['v'], ['f']] = some (.file "v" { exMeta with mode := 0o600 }) ∧
    s.get [['b'], ['v'], ['l', '3']] = some (.link ['f'] { mode := 0o777, uid := 0, gid := 0, mtime := .fresh }) ∧
    s.get [['b'], ['h', 'i', 'd'], ['x']] = some (.file "secret" { exMeta with mode := 0o600 }) := by
  decide +kernel

/-- and the hypothesis is not a formality on this disk: move the link back up after the sixth call
(`Rename("/v/in2","/in3")`, which satisfies `Route`), then `Remove("/in3/x")` runs through it: `RouteHist`
fails for the extended history at that last call only, and the hidden file is deleted -/
example :
    let cs := linkHist.take 6 ++ [.rename "/v/in2".toList "/in3".toList]
    RouteHist [['b']] [[['h', 'i', 'd']]] exDiskL cs ∧
    ¬ RouteHist [['b']] [[['h', 'i', 'd']]] exDiskL (cs ++ [.remove "/in3/x".toList]) ∧
    (runHistL [['b']] [[['h', 'i', 'd']]] exDiskL (cs ++ [.remove "/in3/x".toList])).get
      [['b'], ['h', 'i', 'd'], ['x']] = none := by
  refine ⟨routeHist_of_B (by decide +kernel), ?_, by decide +kernel⟩
  intro hr
  rw [routeHist_append] at hr
  have hl : (runHistL [['b']] [[['h', 'i', 'd']]] exDiskL
      (linkHist.take 6 ++ [.rename "/v/in2".toList "/in3".toList])).get [['b'], ['i', 'n', '3']] =
      some (.link ['h', 'i', 'd'] { exMeta with mode := 0o777 }) := by decide +kernel
  exact hr.2.1.ancestors rfl "/in3/x".toList (by simp [Call.accessPaths]) [['b'], ['i', 'n', '3']]
    (by decide) (by decide) _ _ hl

/-! ## a sufficient condition judged on the INITIAL disk

The boundary above builds its route with `Symlink` and `Rename`.  Without those two methods no call
creates or moves a symlink (`L.LinkSub`, `Lemmas/HLHSub.lean`: any names, any route, the `RemoveAll`
program included), so a walk that is free of symlinks on the initial disk stays free of them: the plain
form of `Route` (`Route.of_final_nolink`), judged on the INITIAL disk, implies `RouteHist`. -/

/-- through `HiddenFS`: a call other than `Symlink`/`Rename` creates no symlink and moves none -/
theorem hidden_call_linkSub (bk : Key) (hbk : PKey bk) (hiddenPaths : List Path) (m : MFS) (c : Call)
    (hc : noLinkMaker c = true) : LinkSub m ((hiddenFS hiddenPaths (prefixFS (kp bk) osfs)).call m c).1 := by
  by_cases hra : ∃ n, c = .removeAll n
  · obtain ⟨n, rfl⟩ := hra
    rw [hiddenFS_call_removeAll]
    show LinkSub m (hiddenRemoveAll (mk hiddenPaths) (prefixFS (kp bk) osfs) 64 m (rmName n)).1
    exact hiddenRemoveAll_inv (I := LinkSub m)
      ⟨fun s p h => h.trans (prefix_call_ls hbk s _ rfl), fun s p h => h.trans (prefix_call_ls hbk s _ rfl),
       fun s p h _ => h.trans (prefix_call_ls hbk s _ rfl)⟩ 64 m (rmName n) (LinkSub.refl m)
  · have hnra : ∀ n, c ≠ .removeAll n := fun n e => hra ⟨n, e⟩
    rw [hiddenFS_call_gen _ _ _ _ hnra]
    cases htr : translate (mk hiddenPaths) c with
    | error e => exact LinkSub.refl _
    | ok c1 =>
      have hd := translate_ok_delegated htr
      exact prefix_call_ls hbk m c1 (by rw [hd, hiddenDelegated_noLinkMaker]; exact hc)

/-- the plain route condition on a disk `m0`: no symlink among the proper ancestors of any name, and
the final component of a call that writes through symlinks is not a symlink -/
def RoutePlain (bk : Key) (m0 : MFS) (c : Call) : Prop :=
  (∀ n ∈ c.accessPaths, NoLinkProper m0 (bk ++ nameKey n)) ∧
  (followsMut c = true → ∀ n ∈ c.accessPaths, ∀ tg mt, m0.get (bk ++ nameKey n) ≠ some (.link tg mt))

theorem RoutePlain.mono {bk : Key} {m0 m : MFS} {c : Call} (hl : LinkSub m0 m) (h : RoutePlain bk m0 c) :
    RoutePlain bk m c :=
  ⟨fun n hn => noLinkProper_of_linkSub hl (h.1 n hn),
   fun hf n hn tg mt e => by
    obtain ⟨mt0, e0⟩ := hl _ tg mt e
    exact h.2 hf n hn tg mt0 e0⟩

/-- on a disk without any symlink every call with any names satisfies it -/
theorem routePlain_of_linkfree (bk : Key) {m0 : MFS} (h0 : ∀ k t mt, m0.get k ≠ some (.link t mt)) (c : Call) :
    RoutePlain bk m0 c :=
  ⟨fun _ _ p _ _ t mt e => h0 p t mt e, fun _ _ _ t mt e => h0 _ t mt e⟩

/-- D06.2S `routeHist_of_initial_partial`: a history without `Symlink` and `Rename`, every call of
which satisfies the plain route condition JUDGED ON THE INITIAL DISK, satisfies `Route` in every state
it passes through. -/
theorem routeHist_of_initial_partial (bk : Key) (hbk : PKey bk) (hks : List Key) (m0 : MFS) :
    ∀ (cs : List Call) (m : MFS), LinkSub m0 m →
      (∀ c ∈ cs, noLinkMaker c = true ∧ RoutePlain bk m0 c) → RouteHist bk hks m cs
  | [], _, _, _ => trivial
  | c :: cs, m, hl, h => by
    obtain ⟨hc, hr⟩ := h c (List.mem_cons_self)
    have hr' := hr.mono hl
    refine ⟨Route.of_final_nolink hr'.1 hr'.2, ?_⟩
    exact routeHist_of_initial_partial bk hbk hks m0 cs _
      (hl.trans (hidden_call_linkSub bk hbk _ m c hc)) (fun c' hc' => h c' (List.mem_cons_of_mem _ hc'))

/-- D06.2I `hidden_subtree_untouched_history_initial_route_partial`: the history theorem with its
hypothesis on the initial disk and the calls alone — a well-formed disk with symlinks anywhere (also into
the hidden subtrees), a history of calls other than `Symlink` and `Rename` none of whose names runs
through (or, for the calls that write through a final symlink, ends at) a symlink OF THE INITIAL DISK. -/
theorem hidden_subtree_untouched_history_initial_route_partial (bk : Key) (hbk : PKey bk) (hks : List Key)
    (hp : ∀ h ∈ hks, PKey h) (cs : List Call) (m : MFS) (hw : WFL m)
    (hcs : ∀ c ∈ cs, noLinkMaker c = true ∧ RoutePlain bk m c) :
    WFL (runHistL bk hks m cs) ∧
    ∀ j, (∃ h ∈ hks, h <+: j) → (runHistL bk hks m cs).get (bk ++ j) = m.get (bk ++ j) :=
  hidden_subtree_untouched_history_with_links_partial bk hbk hks hp cs m hw
    (routeHist_of_initial_partial bk hbk hks m cs m (LinkSub.refl m) hcs)

/-- the link-free special case: no symlink anywhere on the initial disk, no `Symlink`, no `Rename` in
the history — any names whatever -/
theorem hidden_subtree_untouched_history_no_links_made_partial (bk : Key) (hbk : PKey bk) (hks : List Key)
    (hp : ∀ h ∈ hks, PKey h) (cs : List Call) (m : MFS) (hw : WFL m)
    (h0 : ∀ k t mt, m.get k ≠ some (.link t mt)) (hcs : ∀ c ∈ cs, noLinkMaker c = true) :
    ∀ j, (∃ h ∈ hks, h <+: j) → (runHistL bk hks m cs).get (bk ++ j) = m.get (bk ++ j) :=
  (hidden_subtree_untouched_history_initial_route_partial bk hbk hks hp cs m hw
    (fun c hc => ⟨hcs c hc, routePlain_of_linkfree bk h0 c⟩)).2

/-- both restrictions of `routeHist_of_initial_partial` are forced by `escapeHist`: its disk has no
symlink (so `RoutePlain` holds of all three calls on the initial disk); the only thing it violates is
`noLinkMaker` — a `Symlink` and a `Rename` -/
example : (∀ c ∈ escapeHist, RoutePlain [['b']] exDiskP c) ∧
    escapeHist.map noLinkMaker = [false, false, true] :=
  ⟨fun c _ => routePlain_of_linkfree _ exDiskP_linkfree c, rfl⟩

theorem not_link_of_B {m : MFS} {K : Key}
    (h : (match m.get K with | some (.link _ _) => true | _ => false) = false) :
    ∀ tg mt, m.get K ≠ some (.link tg mt) := by
  intro tg mt e; rw [e] at h; cases h

/-- non-vacuity on `exDiskL` (symlinks present, one INTO the hidden directory): five calls next to and
on the links satisfy the initial-disk condition (`Lchown`/`Remove` on the link itself, `Create` beside it,
`Chmod` of a plain file, `RemoveAll` of the directory holding links) -/
example :
    ∀ c ∈ [Call.lchown "/v/l".toList 7 7, .create "/v/new".toList, .chmod "/v/f".toList 0o600,
        .remove "/in".toList, .removeAll "/v".toList],
      noLinkMaker c = true ∧ RoutePlain [['b']] exDiskL c := by
  intro c hc
  simp only [List.mem_cons, List.not_mem_nil, or_false] at hc
  rcases hc with rfl | rfl | rfl | rfl | rfl <;>
    refine ⟨rfl, fun n hn => ?_, fun hf n hn tg mt => ?_⟩ <;>
    simp only [Call.accessPaths, List.mem_singleton] at hn <;> subst hn <;>
    first
      | exact noLinkProper_of_B (by decide)
      | (cases hf; done)
      | exact not_link_of_B (by decide) tg mt

end Props.C06
