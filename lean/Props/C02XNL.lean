import Lemmas.NLXOS
import Props.C07NL
import Props.C02
/-!
# C02 — the backup copies are EXACT, are never overwritten, and the location holds nothing else:
# NESTED (README) layering, trees with SYMLINKS AS LEAVES

`Props/C02L.lean` (disjoint layering, symlinks as leaves) and `Props/C02XN.lean` (nested, link-free) carried
over to the fragment of `Props.C04.rollback_restores_nested_symlink_leaves_partial` (Props/C04L.lean):
`N.nestedCfg bk hk = NewWithFS (PrefixFS (kp bk) osfs) (kp hk)` — ONE disk, "the base" is every key below `bk`
that is not at or below `hk`, "the backup" is the subtree at `bk ++ hk`, masked from the base by `HiddenFS`;
every well-formed disk with symlinks (any target text) as leaves, any finite history of `NL.Op.Covered`
operations (unchanged predicate).

**Every fault plan** (crash plans included; start condition on the location as in C04L:
`Props.C04.BackupLinksBelowBase` — every symlink below the location sits at a key where the visible base holds
a symlink too, e.g. an empty location):

* `backup_copies_exact_nested_symlink_leaves_partial` (+ `backup_file_/dir_/link_copies_exact_…`,
  `tracked_with_info_is_visible_nested_symlink_leaves`): every non-root key tracked with a `FileInfo` lies
  OUTSIDE the location and holds, at the same path below the location, EXACTLY the node the base held when
  the transaction began — regular files: the very same node; directories: mode bits, uid, gid; symlinks: a
  symlink whose target text *as `Readlink` through the backup side (`PrefixFS(loc)` over `PrefixFS(root)`)
  reports it* equals the text `Readlink` through the base (`HiddenFS` over `PrefixFS(root)`) reported for the
  original, same uid and gid.
* `original_intact_or_exactly_copied_nested_symlink_leaves_partial`: the per-entry disjunction for every
  visible entry that existed when the transaction began.
* `copy_never_overwritten_nested_symlink_leaves_partial`: once tracked with a `FileInfo`, the node below the
  location is the same at every later state of the history.
* `backup_copies_exact_at_every_crash_point_nested_symlink_leaves_partial`: for `crashPlan n`, every `n`.

**Healthy filesystem** (location an empty directory at the start):
* `backup_holds_only_exact_copies_nested_symlink_leaves_partial`: everything below the location is such an
  exact copy of a tracked original.

How: `NL.InvX` (Lemmas/NLXInv.lean … NLXOps.lean = Lemmas/LX*.lean retargeted to `NL.Sim`; the `¬ Hid` premise of
`mkdirAll_ok` discharged by `NL.BackupPlain`), `NL.nlMkdirAllUnit` (Lemmas/NLXOS.lean); the healthy statement
from `NL.InvB` (`Props.C07.backup_invariant_after_history_nested_symlink_leaves`).  No new hypothesis.
-/
namespace Props.C02
open BFS BFS.BackupFS

private theorem mapNL_file {p q : Path} {x : Option Node} {c : String} {mt : Meta}
    (h : (x.map (L.eraseV p)).map (NL.relink q) = some (.file c mt)) : x = some (.file c mt) := by
  cases x with
  | none => cases h
  | some n =>
    cases n with
    | file c' mt' => simpa [L.eraseV, NL.relink] using h
    | dir md => simp [L.eraseV, NL.relink] at h
    | link t md => simp [L.eraseV, NL.relink] at h

private theorem mapNL_dir {p q : Path} {x : Option Node} {md : Meta}
    (h : (x.map (L.eraseV p)).map (NL.relink q) = some (.dir md)) :
    ∃ md', x = some (.dir md') ∧ md'.mode = md.mode ∧ md'.uid = md.uid ∧ md'.gid = md.gid := by
  cases x with
  | none => cases h
  | some n =>
    cases n with
    | file c' mt' => simp [L.eraseV, NL.relink] at h
    | dir md0 =>
      simp only [Option.map_some, L.eraseV, NL.relink, Option.some.injEq, Node.dir.injEq] at h
      exact ⟨md0, rfl, by rw [← h], by rw [← h], by rw [← h]⟩
    | link t md0 => simp [L.eraseV, NL.relink] at h

private theorem mapNL_link {p q : Path} {x : Option Node} {t : Path} {md : Meta}
    (h : (x.map (L.eraseV p)).map (NL.relink q) = some (.link t md)) :
    ∃ raw md', x = some (.link raw md') ∧ PrefixFS.readlinkPost q (PrefixFS.readlinkPost p raw) = t ∧
      md'.uid = md.uid ∧ md'.gid = md.gid := by
  cases x with
  | none => cases h
  | some n =>
    cases n with
    | file c' mt' => simp [L.eraseV, NL.relink] at h
    | dir md0 => simp [L.eraseV, NL.relink] at h
    | link raw md0 =>
      simp only [Option.map_some, L.eraseV, NL.relink, Option.some.injEq, Node.link.injEq] at h
      exact ⟨raw, md0, rfl, h.1, by rw [← h.2], by rw [← h.2]⟩

private theorem coveredHist_appendNL {cfg : Cfg} {S : NL.Sim cfg} : ∀ (ops₁ ops₂ : List Op) (w : World),
    NL.CoveredHist cfg S w (ops₁ ++ ops₂) → NL.CoveredHist cfg S w ops₁ ∧ NL.CoveredHist cfg S (runOps cfg w ops₁) ops₂
  | [], _, _, h => ⟨trivial, h⟩
  | op :: rest, ops₂, w, h => by
    obtain ⟨h1, h2⟩ := coveredHist_appendNL rest ops₂ (op.step cfg w) h.2
    exact ⟨⟨h.1, h1⟩, h2⟩

section
variable (bk hk dd : Key) (hr : N.NRoots bk hk dd)

/-! ### what the invariants say, read on the disk -/

section
variable {bk hk dd hr}
variable {w0 w : World}

private theorem visible_of_inv
    (hI : NL.Inv (NL.nlSim bk hk dd hr) (NL.nlview bk hk .base w0.fs) w) :
    ∀ k i, PKey k → w.infos.lookup (kp k) = some (some i) → ¬ hk <+: k := by
  intro k i hpk hts hh
  obtain ⟨n, hn, _⟩ := hI.saved k i hpk hts
  have : NL.nlview bk hk .base w0.fs k = none := by simp [NL.nlview, hh]
  rw [this] at hn; cases hn

private theorem exact_of_x
    (hI : NL.Inv (NL.nlSim bk hk dd hr) (NL.nlview bk hk .base w0.fs) w)
    (hX : NL.XInv (NL.nlSim bk hk dd hr) (NL.nlview bk hk .base w0.fs) w) :
    ∀ k i, PKey k → k ≠ [] → w.infos.lookup (kp k) = some (some i) →
      ((w.fs.get (bk ++ (hk ++ k))).map (L.eraseV (kp bk))).map (NL.relink (kp hk)) =
        (w0.fs.get (bk ++ k)).map (L.eraseV (kp bk)) := by
  intro k i hpk hk' hts
  have h := hX.exact k i hpk hk' hts
  rw [Props.C04.nlview_base_visible (visible_of_inv hI k i hpk hts)] at h
  exact h

private theorem only_of_invB
    (hB : NL.InvB (NL.nlSim bk hk dd hr) (NL.nlview bk hk .base w0.fs) (NL.nlview bk hk .backup w0.fs []) w) :
    ∀ j, j ≠ [] → w.fs.get (bk ++ (hk ++ j)) ≠ none →
      ¬ hk <+: j ∧ ∃ i node, w.infos.lookup (kp j) = some (some i) ∧
        w0.fs.get (bk ++ j) = some node ∧ NL.InfoForL i (L.eraseV (kp bk) node) ∧
        ((w.fs.get (bk ++ (hk ++ j))).map (L.eraseV (kp bk))).map (NL.relink (kp hk)) =
          some (L.eraseV (kp bk) node) := by
  intro j hj hp
  have hp' : NL.nlview bk hk .backup w.fs j ≠ none := by
    show ((w.fs.get (bk ++ (hk ++ j))).map (L.eraseV (kp bk))).map (NL.relink (kp hk)) ≠ none
    intro e; exact hp (Option.map_eq_none_iff.mp (Option.map_eq_none_iff.mp e))
  obtain ⟨i, hts⟩ := hB.b.bonly j hj hp'
  have hpk : PKey j := (NL.nlSim bk hk dd hr).pkey (s := .backup) hB.inv.good hp'
  have hvis := visible_of_inv hB.inv j i hpk hts
  obtain ⟨n, hn, hfor, _⟩ := hB.inv.saved j i hpk hts
  rw [Props.C04.nlview_base_visible hvis] at hn
  have hex := hB.b.bexact j i hpk hj hts
  rw [Props.C04.nlview_base_visible hvis] at hex
  cases hraw : w0.fs.get (bk ++ j) with
  | none => rw [hraw] at hn; cases hn
  | some node =>
    rw [hraw] at hn
    simp only [Option.map_some, Option.some.injEq] at hn
    refine ⟨hvis, i, node, hts, rfl, hn ▸ hfor, ?_⟩
    have : ((w.fs.get (bk ++ (hk ++ j))).map (L.eraseV (kp bk))).map (NL.relink (kp hk)) =
        (w0.fs.get (bk ++ j)).map (L.eraseV (kp bk)) := hex
    rw [this, hraw]; rfl

end

/-- the exactness invariant `NL.InvX` after any covered history, under ANY fault plan -/
theorem exactness_invariant_after_history_nested_symlink_leaves
    (w0 : World) (hg : L.OSGoodL bk dd w0.fs) (hloc : ∃ mt, w0.fs.get (bk ++ hk) = some (.dir mt))
    (hinfos : w0.infos = []) (hbl : Props.C04.BackupLinksBelowBase bk hk w0.fs)
    (ops : List Op) (hcov : NL.CoveredHist (N.nestedCfg bk hk) (NL.nlSim bk hk dd hr) w0 ops) :
    NL.KeptX (NL.nlSim bk hk dd hr) (NL.nlview bk hk .base w0.fs) w0 (runOps (N.nestedCfg bk hk) w0 ops) :=
  NL.history_keepsX (NL.nlMkdirAllUnit bk hk) ops w0
    (NL.InvX.init (S := NL.nlSim bk hk dd hr) ⟨hg, hloc⟩ hinfos (Props.C04.backupLinksOK_of hbl)) hcov

/-- a key tracked with a `FileInfo` is a VISIBLE key: nothing at or below the location is ever backed up -/
theorem tracked_with_info_is_visible_nested_symlink_leaves
    (w0 : World) (hg : L.OSGoodL bk dd w0.fs) (hloc : ∃ mt, w0.fs.get (bk ++ hk) = some (.dir mt))
    (hinfos : w0.infos = []) (hbl : Props.C04.BackupLinksBelowBase bk hk w0.fs)
    (ops : List Op) (hcov : NL.CoveredHist (N.nestedCfg bk hk) (NL.nlSim bk hk dd hr) w0 ops) :
    ∀ k i, PKey k → (runOps (N.nestedCfg bk hk) w0 ops).infos.lookup (kp k) = some (some i) → ¬ hk <+: k :=
  visible_of_inv (exactness_invariant_after_history_nested_symlink_leaves bk hk dd hr w0 hg hloc hinfos hbl ops hcov).inv.inv

/-- **Exact copies, uniform form — EVERY fault plan.**  At every non-root key tracked with a `FileInfo` the
entry at the same path below the location — seen through the backup side (`NL.nlview bk hk .backup`,
written out: `PrefixFS(loc)` over `PrefixFS(root)`) — is the node the base tree — seen through
`PrefixFS(root)` — showed there when the transaction began (`L.eraseV`: directory timestamps, a link's
mode and timestamp erased; a link's target text as `Readlink` reports it). -/
theorem backup_copies_exact_nested_symlink_leaves_partial
    (w0 : World) (hg : L.OSGoodL bk dd w0.fs) (hloc : ∃ mt, w0.fs.get (bk ++ hk) = some (.dir mt))
    (hinfos : w0.infos = []) (hbl : Props.C04.BackupLinksBelowBase bk hk w0.fs)
    (ops : List Op) (hcov : NL.CoveredHist (N.nestedCfg bk hk) (NL.nlSim bk hk dd hr) w0 ops) :
    ∀ k i, PKey k → k ≠ [] → (runOps (N.nestedCfg bk hk) w0 ops).infos.lookup (kp k) = some (some i) →
      (((runOps (N.nestedCfg bk hk) w0 ops).fs.get (bk ++ (hk ++ k))).map (L.eraseV (kp bk))).map (NL.relink (kp hk)) =
        (w0.fs.get (bk ++ k)).map (L.eraseV (kp bk)) :=
  have h := exactness_invariant_after_history_nested_symlink_leaves bk hk dd hr w0 hg hloc hinfos hbl ops hcov
  exact_of_x h.inv.inv h.inv.x

/-- regular files: the very same node — content, all twelve mode bits, uid, gid, mtime -/
theorem backup_file_copies_exact_nested_symlink_leaves_partial
    (w0 : World) (hg : L.OSGoodL bk dd w0.fs) (hloc : ∃ mt, w0.fs.get (bk ++ hk) = some (.dir mt))
    (hinfos : w0.infos = []) (hbl : Props.C04.BackupLinksBelowBase bk hk w0.fs)
    (ops : List Op) (hcov : NL.CoveredHist (N.nestedCfg bk hk) (NL.nlSim bk hk dd hr) w0 ops) :
    ∀ k i c mt, k ≠ [] → (runOps (N.nestedCfg bk hk) w0 ops).infos.lookup (kp k) = some (some i) →
      w0.fs.get (bk ++ k) = some (.file c mt) →
      (runOps (N.nestedCfg bk hk) w0 ops).fs.get (bk ++ (hk ++ k)) = some (.file c mt) := by
  intro k i c mt hk' hts horig
  have hpk : PKey k := (hg.pkey _ _ horig).right
  have h := backup_copies_exact_nested_symlink_leaves_partial bk hk dd hr w0 hg hloc hinfos hbl ops hcov k i hpk hk' hts
  rw [horig] at h
  exact mapNL_file h

/-- directories: a directory with the same twelve mode bits, uid and gid (timestamps exempt) -/
theorem backup_dir_copies_exact_nested_symlink_leaves_partial
    (w0 : World) (hg : L.OSGoodL bk dd w0.fs) (hloc : ∃ mt, w0.fs.get (bk ++ hk) = some (.dir mt))
    (hinfos : w0.infos = []) (hbl : Props.C04.BackupLinksBelowBase bk hk w0.fs)
    (ops : List Op) (hcov : NL.CoveredHist (N.nestedCfg bk hk) (NL.nlSim bk hk dd hr) w0 ops) :
    ∀ k i mt, k ≠ [] → (runOps (N.nestedCfg bk hk) w0 ops).infos.lookup (kp k) = some (some i) →
      w0.fs.get (bk ++ k) = some (.dir mt) →
      ∃ mt', (runOps (N.nestedCfg bk hk) w0 ops).fs.get (bk ++ (hk ++ k)) = some (.dir mt') ∧
        mt'.mode = mt.mode ∧ mt'.uid = mt.uid ∧ mt'.gid = mt.gid := by
  intro k i mt hk' hts horig
  have hpk : PKey k := (hg.pkey _ _ horig).right
  have h := backup_copies_exact_nested_symlink_leaves_partial bk hk dd hr w0 hg hloc hinfos hbl ops hcov k i hpk hk' hts
  rw [horig] at h
  obtain ⟨md', h1, h2, h3, h4⟩ := mapNL_dir h
  exact ⟨md', h1, h2, h3, h4⟩

/-- **symlinks**: below the location sits a symlink at the same path whose target text, as `Readlink`
through the backup side — `PrefixFS(loc)` over `PrefixFS(root)` — reports it, is the text `Readlink`
through the base reported for the original; same uid and gid -/
theorem backup_link_copies_exact_nested_symlink_leaves_partial
    (w0 : World) (hg : L.OSGoodL bk dd w0.fs) (hloc : ∃ mt, w0.fs.get (bk ++ hk) = some (.dir mt))
    (hinfos : w0.infos = []) (hbl : Props.C04.BackupLinksBelowBase bk hk w0.fs)
    (ops : List Op) (hcov : NL.CoveredHist (N.nestedCfg bk hk) (NL.nlSim bk hk dd hr) w0 ops) :
    ∀ k i raw mt, k ≠ [] → (runOps (N.nestedCfg bk hk) w0 ops).infos.lookup (kp k) = some (some i) →
      w0.fs.get (bk ++ k) = some (.link raw mt) →
      ∃ raw' mt', (runOps (N.nestedCfg bk hk) w0 ops).fs.get (bk ++ (hk ++ k)) = some (.link raw' mt') ∧
        PrefixFS.readlinkPost (kp hk) (PrefixFS.readlinkPost (kp bk) raw') = PrefixFS.readlinkPost (kp bk) raw ∧
        mt'.uid = mt.uid ∧ mt'.gid = mt.gid := by
  intro k i raw mt hk' hts horig
  have hpk : PKey k := (hg.pkey _ _ horig).right
  have h := backup_copies_exact_nested_symlink_leaves_partial bk hk dd hr w0 hg hloc hinfos hbl ops hcov k i hpk hk' hts
  rw [horig] at h
  have h' : (((runOps (N.nestedCfg bk hk) w0 ops).fs.get (bk ++ (hk ++ k))).map (L.eraseV (kp bk))).map (NL.relink (kp hk)) =
      some (.link (PrefixFS.readlinkPost (kp bk) raw) { mt with mtime := .fresh, mode := 0o777 }) := h
  obtain ⟨raw', mt', h1, h2, h3, h4⟩ := mapNL_link h'
  exact ⟨raw', mt', h1, h2, h3, h4⟩

/-- **The per-entry disjunction — EVERY fault plan.**  Every VISIBLE entry below the base root (not at or
below the location) that existed when the transaction began is still shown by the base, or is tracked with
a `FileInfo` describing it exactly (type, mode bits, owner, file mtime) and EXACTLY copied at the same path
below the location (files, directories, symlinks). -/
theorem original_intact_or_exactly_copied_nested_symlink_leaves_partial
    (w0 : World) (hg : L.OSGoodL bk dd w0.fs) (hloc : ∃ mt, w0.fs.get (bk ++ hk) = some (.dir mt))
    (hinfos : w0.infos = []) (hbl : Props.C04.BackupLinksBelowBase bk hk w0.fs)
    (ops : List Op) (hcov : NL.CoveredHist (N.nestedCfg bk hk) (NL.nlSim bk hk dd hr) w0 ops) :
    ∀ k, k ≠ [] → ¬ hk <+: k → ∀ node, w0.fs.get (bk ++ k) = some node →
      ((runOps (N.nestedCfg bk hk) w0 ops).fs.get (bk ++ k)).map (L.eraseV (kp bk)) = some (L.eraseV (kp bk) node) ∨
      ((∃ i, (runOps (N.nestedCfg bk hk) w0 ops).infos.lookup (kp k) = some (some i) ∧
          NL.InfoForL i (L.eraseV (kp bk) node)) ∧
        (((runOps (N.nestedCfg bk hk) w0 ops).fs.get (bk ++ (hk ++ k))).map (L.eraseV (kp bk))).map (NL.relink (kp hk)) =
          some (L.eraseV (kp bk) node)) := by
  intro k hk' hvis node horig
  have h := exactness_invariant_after_history_nested_symlink_leaves bk hk dd hr w0 hg hloc hinfos hbl ops hcov
  have hI := h.inv.inv
  have hv : NL.nlview bk hk .base w0.fs k = some (L.eraseV (kp bk) node) := by
    rw [Props.C04.nlview_base_visible hvis, horig]; rfl
  have hpk : PKey k := (hg.pkey _ _ horig).right
  rcases tracked_cases (runOps (N.nestedCfg bk hk) w0 ops) k with hu | htn | ⟨i, hts⟩
  · left
    have := (hI.frame k hpk hu).trans hv
    rw [← Props.C04.nlview_base_visible (bk := bk) hvis]
    exact this
  · have := hI.absent k hpk htn
    rw [hv] at this; cases this
  · right
    obtain ⟨n, hn, hfor, _⟩ := hI.saved k i hpk hts
    rw [hv] at hn; cases hn
    refine ⟨⟨i, hts, hfor⟩, ?_⟩
    rw [exact_of_x hI h.inv.x k i hpk hk' hts, horig]; rfl

/-- the copies are exact at every crash point: let the process die after any number `n` of the primitive
calls of the history — in the middle of a copy, between `Symlink` and `Lchown` — every key tracked with a
`FileInfo` has its exact copy below the location (a copy is recorded only after its helper returned) -/
theorem backup_copies_exact_at_every_crash_point_nested_symlink_leaves_partial
    (w0 : World) (hg : L.OSGoodL bk dd w0.fs) (hloc : ∃ mt, w0.fs.get (bk ++ hk) = some (.dir mt))
    (hinfos : w0.infos = []) (hbl : Props.C04.BackupLinksBelowBase bk hk w0.fs)
    (n : Nat) (_hplan : w0.faults = crashPlan n)
    (ops : List Op) (hcov : NL.CoveredHist (N.nestedCfg bk hk) (NL.nlSim bk hk dd hr) w0 ops) :
    ∀ k i node, k ≠ [] → (runOps (N.nestedCfg bk hk) w0 ops).infos.lookup (kp k) = some (some i) →
      w0.fs.get (bk ++ k) = some node →
      (((runOps (N.nestedCfg bk hk) w0 ops).fs.get (bk ++ (hk ++ k))).map (L.eraseV (kp bk))).map (NL.relink (kp hk)) =
        some (L.eraseV (kp bk) node) := by
  intro k i node hk' hts horig
  have hpk : PKey k := (hg.pkey _ _ horig).right
  have h := backup_copies_exact_nested_symlink_leaves_partial bk hk dd hr w0 hg hloc hinfos hbl ops hcov k i hpk hk' hts
  rw [h, horig]; rfl

/-- **A copy once taken is never overwritten — EVERY fault plan.**  Split any covered history at any point:
if after `ops₁` the key `k ≠ []` is tracked with a `FileInfo`, then after `ops₁ ++ ops₂` it still is — with
the same `FileInfo` —, and the node below the location at that path is the same as after `ops₁` — namely
the original. -/
theorem copy_never_overwritten_nested_symlink_leaves_partial
    (w0 : World) (hg : L.OSGoodL bk dd w0.fs) (hloc : ∃ mt, w0.fs.get (bk ++ hk) = some (.dir mt))
    (hinfos : w0.infos = []) (hbl : Props.C04.BackupLinksBelowBase bk hk w0.fs)
    (ops₁ ops₂ : List Op)
    (hcov : NL.CoveredHist (N.nestedCfg bk hk) (NL.nlSim bk hk dd hr) w0 (ops₁ ++ ops₂)) :
    ∀ k i, PKey k → k ≠ [] → (runOps (N.nestedCfg bk hk) w0 ops₁).infos.lookup (kp k) = some (some i) →
      (runOps (N.nestedCfg bk hk) w0 (ops₁ ++ ops₂)).infos.lookup (kp k) = some (some i) ∧
      (((runOps (N.nestedCfg bk hk) w0 (ops₁ ++ ops₂)).fs.get (bk ++ (hk ++ k))).map (L.eraseV (kp bk))).map
          (NL.relink (kp hk)) =
        (((runOps (N.nestedCfg bk hk) w0 ops₁).fs.get (bk ++ (hk ++ k))).map (L.eraseV (kp bk))).map
          (NL.relink (kp hk)) ∧
      (((runOps (N.nestedCfg bk hk) w0 ops₁).fs.get (bk ++ (hk ++ k))).map (L.eraseV (kp bk))).map
          (NL.relink (kp hk)) =
        (w0.fs.get (bk ++ k)).map (L.eraseV (kp bk)) := by
  intro k i hpk hk' hts
  obtain ⟨hc1, hc2⟩ := coveredHist_appendNL ops₁ ops₂ w0 hcov
  have h1 := exactness_invariant_after_history_nested_symlink_leaves bk hk dd hr w0 hg hloc hinfos hbl ops₁ hc1
  have h2 := NL.history_keepsX (NL.nlMkdirAllUnit bk hk) ops₂ _ h1.inv hc2
  rw [runOps_append]
  have hex1 := exact_of_x h1.inv.inv h1.inv.x k i hpk hk' hts
  have hts' := h2.mono _ _ hts
  have hex2 := exact_of_x h2.inv.inv h2.inv.x k i hpk hk' hts'
  exact ⟨hts', hex2.trans hex1.symm, hex1⟩

/-- **The location holds nothing else — healthy filesystem.**  Everything below the location sits at the
path of a VISIBLE original that is tracked with a `FileInfo` describing it exactly, and IS that original
(as seen through the respective side): only copies of originals and of their parent directories — files,
directories, symlinks —, never content created during the transaction. -/
theorem backup_holds_only_exact_copies_nested_symlink_leaves_partial
    (w0 : World) (hg : L.OSGoodL bk dd w0.fs) (hloc : ∃ mt, w0.fs.get (bk ++ hk) = some (.dir mt))
    (hinfos : w0.infos = []) (hnf : w0.faults = [])
    (hempty : ∀ k, k ≠ [] → w0.fs.get (bk ++ (hk ++ k)) = none) (ops : List Op)
    (hcov : NL.CoveredHist (N.nestedCfg bk hk) (NL.nlSim bk hk dd hr) w0 ops) :
    ∀ j, j ≠ [] → (runOps (N.nestedCfg bk hk) w0 ops).fs.get (bk ++ (hk ++ j)) ≠ none →
      ¬ hk <+: j ∧ ∃ i node, (runOps (N.nestedCfg bk hk) w0 ops).infos.lookup (kp j) = some (some i) ∧
        w0.fs.get (bk ++ j) = some node ∧ NL.InfoForL i (L.eraseV (kp bk) node) ∧
        (((runOps (N.nestedCfg bk hk) w0 ops).fs.get (bk ++ (hk ++ j))).map (L.eraseV (kp bk))).map (NL.relink (kp hk)) =
          some (L.eraseV (kp bk) node) :=
  only_of_invB (Props.C07.backup_invariant_after_history_nested_symlink_leaves bk hk dd hr w0 hg hloc hinfos hnf
    hempty ops hcov)

end

/-! ### non-vacuity -/

open Props.C04 in
/-- non-vacuity: the hypotheses of the every-fault-plan theorems hold of the README layout with a file link
and a directory link (`Props.C04.exDiskNL`, location `/b/d` empty) and the first transaction of
Props/C04L.lean (`Lchown`/`Remove`/`Symlink` on the links, a refused `Symlink` into the location, a refused
`Create` below it) — from `Props.C07.nonvacuous_exNL` -/
example : L.OSGoodL [['b']] [['k']] wN0.fs ∧ (∃ mt, wN0.fs.get ([['b']] ++ [['d']]) = some (.dir mt)) ∧
    wN0.infos = [] ∧ BackupLinksBelowBase [['b']] [['d']] wN0.fs ∧
    NL.CoveredHist cfgNL simNL wN0
      [.lchown "/l".toList 5 6, .remove "/l".toList, .symlink "e".toList "/l".toList, .remove "/m".toList,
        .symlink "d/x".toList "/n".toList, .creat "/d/x".toList "hidden"] := by
  obtain ⟨h1, h2, h3, _, h5, h6, _⟩ := Props.C07.nonvacuous_exNL
  refine ⟨h1, h2, h3, ?_, h6⟩
  rintro k ⟨t, mt, e⟩
  by_cases hk : k = []
  · subst hk
    obtain ⟨mt', hd⟩ := h2
    rw [List.append_nil, hd] at e
    cases e
  · rw [h5 k hk] at e; cases e

open Props.C04 in
/-- the conclusions are not vacuous there: after the first four operations `/l` and `/m` are tracked with a
`FileInfo`, and the copies below the location `/b/d` are the ORIGINAL links (`/l` with the owner it had
before `Lchown`), while the base holds a different link at `/l` and none at `/m` -/
example :
    ((wN4.infos.lookup "/l".toList).bind id).isSome = true ∧
    ((wN4.infos.lookup "/m".toList).bind id).isSome = true ∧
    ((wN4.fs.get [['b'], ['d'], ['l']]).map (L.eraseV (kp [['b']]))).map (NL.relink (kp [['d']])) =
      (exDiskNL.get [['b'], ['l']]).map (L.eraseV (kp [['b']])) ∧
    ((wN4.fs.get [['b'], ['d'], ['m']]).map (L.eraseV (kp [['b']]))).map (NL.relink (kp [['d']])) =
      (exDiskNL.get [['b'], ['m']]).map (L.eraseV (kp [['b']])) ∧
    (wN4.fs.get [['b'], ['l']]).map (L.eraseV (kp [['b']])) ≠ (exDiskNL.get [['b'], ['l']]).map (L.eraseV (kp [['b']])) ∧
    wN4.fs.get [['b'], ['m']] = none := by
  decide +kernel

end Props.C02
