import Lemmas.F16Loop
import Lemmas.F16Term
import Lemmas.F16Ex
/-!
# C16 — path resolution is exact on FLAT symlink topologies

`resolvePathWithInfo` makes one pass over the ancestor chain of the cleaned path and substitutes a
link's target into the remaining suffixes; the substituted components are never examined again.
It is therefore inexact for chains of links (K-link-topology) — and exact precisely when nothing it
substitutes needs a second look.  That fragment is captured by `F16.Flat bk m` (decidable,
`Lemmas/F16Def.lean`): every symlink at or below the base root `bk` has

* a non-empty target text of at most 100 components (the OS model's fuel, standing in for `PATH_MAX`);
* whose `..` components are all applied at real directories (`ddOK`) — for a relative text: at
  directories strictly below the base root — so that the kernel's physical `..` and
  `filepath.Clean`'s lexical one agree (this is SHOWN to be what makes lexical elimination exact,
  and SHOWN to be necessary: `flat_cleaned_target_is_not_enough`);
* whose lexical effective target (absolute text applied to `/`, relative text applied to the link's
  directory) lies at or below the base root;
* and no component of that effective target — its last included — is a symlink.

The links may be absolute or relative, may sit anywhere below the base root, any number of them may
be crossed by one path, they may dangle (then the claim is the equality of the two errors), and the
final component may be a link (it is left unresolved).

Main theorem `resolve_exact_flat_links_partial`; termination `resolve_terminates`; cycles
`resolve_cycle_fails_or_returns`; non-vacuity and counterexamples at the end.
-/
namespace Props.C16
open BFS BFS.BackupFS BFS.MFS BFS.F16

/-! ## realPath on a flat disk -/

theorem inits1_length {α} : ∀ (S : List α), (inits1 S).length = S.length
  | [] => rfl
  | x :: xs => by simp [inits1, inits1_length xs]

/-- `realPath` returns `kp (resK … [] k)` and changes neither disk, tracked map nor fault plan -/
theorem sat_realPath_flat {bk kk : Key} (hr : Roots bk kk) {w : World} (hnf : w.faults = [])
    (hg : L.OSGoodL bk kk w.fs) (hflat : Flat bk w.fs) {name : Path} {k : Key} (hk : PKey k)
    (hname : clean name = kp k) :
    Sat (realPath (osCfg bk kk) name) w (fun w' r => SameFS w w' ∧ r = .ok (kp (resK w.fs bk [] k))) := by
  unfold realPath resolvePathWithInfo
  rw [hname]
  simp only [kp_ne_nil, if_false]
  rw [iterateDirTree_kp hk]
  apply Sat.bind
  -- the first chain element is the root of the base filesystem: a directory
  unfold resolveLoop
  apply Sat.bind
  apply Sat.attempt
  have hroot : rootP = kp [] := rfl
  rw [hroot]
  have hprop : L.NoLinkProper w.fs (bk ++ []) := L.noLinkProper_of_upto (noLinkUpto_root hg)
  apply (sat_lstat_nf hr hnf hg PKey.nil hprop).mono
  intro w1 r ⟨hs1, hres⟩
  obtain ⟨mtb, hb⟩ := hg.bdir
  rw [List.append_nil] at hres
  rcases hres with ⟨n, i, hget, rfl, hkind⟩ | ⟨hget, _⟩
  · rw [hb] at hget
    cases hget
    simp only
    rw [isSymlink_of_kind hkind]
    simp only [Node.isLink, Bool.false_eq_true, if_false]
    have hfs1 : w1.fs = w.fs := hs1.fs
    have hlist : (inits1 k).map kp = (inits1 k).map (fun p => kp ([] ++ p)) := by simp
    rw [hlist]
    apply (sat_loop hr k [] _ (kp []) (some i) w1 (by rw [hs1.faults]; exact hnf) (by rw [hfs1]; exact hg)
      (by rw [hfs1]; exact hflat) PKey.nil hk (by rw [hfs1]; exact noLinkUpto_root hg)
      (by simp [inits1_length])).mono
    intro w2 r2 ⟨hs2, o, hr2⟩
    subst hr2
    apply Sat.pure
    refine ⟨hs1.trans hs2, ?_⟩
    rw [hfs1]
    by_cases hke : k = []
    · subst hke; rfl
    · simp only [hke, if_false]
  · rw [hb] at hget; cases hget

/-! ## the main theorem -/

/-- **T16.5 exactness on flat link topologies** (OS model behind the base `PrefixFS`, well-formed
disk with symlinks anywhere, `Flat`, no planned faults, any absolute name in any spelling with at most
40 components).  `realPath` returns `kp r` for a key `r` such that, with `kp k` the caller's cleaned
name:

1. nothing is changed (disk, tracked map, fault plan) — and only `Lstat`/`Readlink` are issued
   (`resolve_reads_only`, general);
2. **same entry**: the OS model's own resolver, not following the final component, returns for
   `bk`-prefixed `kp r` exactly what it returns for `bk`-prefixed `kp k`: the same physical key and
   node (`found`), or the same parent directory key and final name (`missing`), or the same error;
3. no proper ancestor of `r` is a symlink on the disk;
4. the final component of `r` is the caller's final component (even if it names a symlink);
5. a missing tail is lexical: if a prefix `a` of the caller's components names no entry (Lstat of
   `bk`-prefixed `kp a` fails), then `r` is what `realPath` returns for `kp a`, followed by the
   remaining components verbatim. -/
theorem resolve_exact_flat_links_partial (bk kk : Key) (hbk : PKey bk) (hkk : PKey kk)
    (hne1 : bk ≠ []) (hne2 : kk ≠ []) (hd1 : ¬ bk <+: kk) (hd2 : ¬ kk <+: bk)
    (w : World) (hg : L.OSGoodL bk kk w.fs) (hflat : Flat bk w.fs) (hnf : w.faults = [])
    (name : Path) (habs : isAbs name = true) (hlen : (comps (clean name)).length ≤ 40) :
    ∃ k r : Key, PKey k ∧ PKey r ∧ clean name = kp k ∧
      (realPath (osCfg bk kk) name w).2 = .ok (kp r) ∧
      SameFS w (realPath (osCfg bk kk) name w).1 ∧
      namei w.fs (kp (bk ++ r)) false = namei w.fs (kp (bk ++ k)) false ∧
      (∀ p, p <+: r → p ≠ r → ∀ t mt, w.fs.get (bk ++ p) ≠ some (.link t mt)) ∧
      r.getLast? = k.getLast? ∧
      (∀ a T, k = a ++ T → a ≠ [] → (∀ K n, namei w.fs (kp (bk ++ a)) false ≠ .found K n) →
        ∃ ra, (realPath (osCfg bk kk) (kp a) w).2 = .ok (kp ra) ∧ r = ra ++ T) := by
  have hr : Roots bk kk := ⟨hbk, hkk, hne1, hne2, hd1, hd2⟩
  obtain ⟨k, hk, hname⟩ := clean_abs habs
  rw [hname, comps_kp hk] at hlen
  have hsat := (sat_realPath_flat hr hnf hg hflat hk hname).elim
  refine ⟨k, resK w.fs bk [] k, hk, resK_pkey hbk hg hflat k [] PKey.nil hk, hname, hsat.2, hsat.1,
    namei_resK hr hg hflat hk hlen, ?_, ?_, ?_⟩
  · intro p hp hne t mt
    exact resK_nolink hg hflat k [] (noLinkUpto_root hg) (bk ++ p)
      ((List.prefix_append_right_inj _).mpr hp) (fun e => hne (List.append_cancel_left e)) t mt
  · by_cases hke : k = []
    · subst hke; rfl
    · exact resK_getLast k [] hke
  · intro a T hsplit hane hnfd
    have ha : PKey a := by rw [hsplit] at hk; exact hk.left
    have hla : a.length ≤ 40 := by rw [hsplit] at hlen; simp at hlen; omega
    have hsa := (sat_realPath_flat hr hnf hg hflat ha (clean_kp ha)).elim
    refine ⟨resK w.fs bk [] a, hsa.2, ?_⟩
    rw [hsplit]
    exact resK_tail a [] T hane (resK_absent_of_not_found hr hg hflat ha hla hnfd)

/-- consequence of clause 2: every system call of the OS model that does not follow a final symlink
and does not look at the text of the name behaves identically on the resolved and on the caller's
path (`Remove`, `Mkdir`, `Readlink`, `Symlink`, `Lchown`; `Lstat` up to the reported base name, which
is equal by clause 4) -/
theorem nofollow_calls_agree {m : MFS} {p q : Path} (h : namei m p false = namei m q false) :
    m.remove p = m.remove q ∧ (∀ perm, m.mkdir p perm = m.mkdir q perm) ∧ m.readlink p = m.readlink q ∧
    (∀ o, m.symlink o p = m.symlink o q) ∧ (∀ u g, m.lchown p u g = m.lchown q u g) := by
  refine ⟨?_, ?_, ?_, ?_, ?_⟩
  · unfold MFS.remove; rw [h]
  · intro perm; unfold MFS.mkdir; rw [h]
  · unfold MFS.readlink; rw [h]
  · intro o; unfold MFS.symlink; rw [h]
  · intro u g; unfold MFS.lchown; rw [h]

/-! ## termination -/

/-- **T16.6 resolution terminates, with a bound**: for every configuration (any filesystems), world
and fault plan, `realPath` returns (it is a total function: `resolveLoop` recurses structurally on a
fuel that starts above the fixed length of the chain, mirroring the Go loop, which cannot grow
`accPaths`) after logging at most two primitive calls — one `Lstat`, one `Readlink` — per element of
the ancestor chain of the cleaned name. -/
theorem resolve_terminates (cfg : Cfg) (name : Path) (w : World) :
    (realPath cfg name w).1.trace.length ≤ w.trace.length + 2 * (iterateDirTree (clean name)).length :=
  realPath_traceLe cfg name w

/-- the same for the loop on any list of paths -/
theorem resolve_loop_terminates (cfg : Cfg) (fuel : Nat) (l : List Path) (last : Path) (fi : Option Info)
    (w : World) : (resolveLoop cfg fuel l last fi w).1.trace.length ≤ w.trace.length + 2 * l.length :=
  resolveLoop_traceLe cfg fuel l last fi w

/-! ## non-vacuity: a flat disk with an absolute directory link, relative directory links with `..`
(leading, and in the middle of the text across a real directory), and a file link -/

def flatEntries : List (Key × Node) := [
  ([], .dir exM), ([['b']], .dir exM), ([['k']], .dir exM),
  ([['b'], "real".toList], .dir exM),
  ([['b'], "real".toList, "sub".toList], .dir exM),
  ([['b'], "real".toList, "sub".toList, ['f']], .file "x" exM),
  ([['b'], "abs".toList], .link "/b/real".toList exM),                   -- absolute directory link
  ([['b'], ['d']], .dir exM),
  ([['b'], ['d'], "rel".toList], .link "../real/./sub".toList exM),      -- relative, leading `..`
  ([['b'], ['d'], "up".toList], .link "../d/../real".toList exM),        -- `..` across the real directory /d
  ([['b'], "real".toList, "fl".toList], .link "sub/f".toList exM),       -- file link
  ([['b'], "dang".toList], .link "real/nope".toList exM)]                -- dangling, still flat

def flatDisk : MFS := listDisk flatEntries

theorem flatDisk_good : L.OSGoodL [['b']] [['k']] flatDisk := good_of_goodB (by decide +kernel)
theorem flatDisk_flat : Flat [['b']] flatDisk := by decide +kernel

def exCfg : Cfg := osCfg [['b']] [['k']]
def rp (m : MFS) (name : String) : Except Err Path := (realPath exCfg name.toList { fs := m }).2

/-- the theorem applies to the example disk -/
example (name : Path) (habs : isAbs name = true) (hlen : (comps (clean name)).length ≤ 40) :=
  resolve_exact_flat_links_partial [['b']] [['k']] (by decide) (by decide) (by decide) (by decide) (by decide)
    (by decide) { fs := flatDisk } flatDisk_good flatDisk_flat rfl name habs hlen

example : rp flatDisk "/abs/sub/f" = .ok "/real/sub/f".toList := by decide +kernel          -- absolute link
example : rp flatDisk "/d/rel/f" = .ok "/real/sub/f".toList := by decide +kernel            -- relative link with `..`
example : rp flatDisk "/d/up/sub/../sub/f" = .ok "/real/sub/f".toList := by decide +kernel  -- `..` inside the text
example : rp flatDisk "/abs/fl" = .ok "/real/fl".toList := by decide +kernel                -- final link unresolved
example : rp flatDisk "/d/rel/new/tail" = .ok "/real/sub/new/tail".toList := by decide +kernel  -- lexical tail
example : rp flatDisk "/d//./rel/" = .ok "/d/rel".toList := by decide +kernel               -- unclean spelling, final link kept
example : rp flatDisk "/d/up/fl" = .ok "/real/fl".toList := by decide +kernel               -- link crossed, final link kept
example : rp flatDisk "/dang/x" = .ok "/real/nope/x".toList := by decide +kernel            -- dangling, flat
example : errOf (namei flatDisk "/b/dang/x".toList false) = some .notExist ∧
    errOf (namei flatDisk "/b/real/nope/x".toList false) = some .notExist := by decide +kernel
example : parentName (namei flatDisk "/b/d/rel/new".toList false) = some ([['b'], "real".toList, "sub".toList], "new".toList) ∧
    parentName (namei flatDisk "/b/real/sub/new".toList false) = some ([['b'], "real".toList, "sub".toList], "new".toList) := by
  decide +kernel

/-! ## flatness of the CLEANED effective target is not enough: `..` inside a target text -/

/-- `/l -> "x/../d"` where `/x -> /e/f` is a symlink to a directory elsewhere.  The cleaned effective
target of `/l` is `/d`: no component of it is a symlink (and `/x`'s target `/e/f` is link-free too),
so the disk is "flat" if one only looks at cleaned targets.  `ddOK` fails: the `..` of the text is
applied at `/x`, which is not a real directory. -/
def dotdotEntries : List (Key × Node) := [
  ([], .dir exM), ([['b']], .dir exM), ([['k']], .dir exM),
  ([['b'], ['d']], .dir exM), ([['b'], ['e']], .dir exM), ([['b'], ['e'], ['f']], .dir exM),
  ([['b'], ['e'], ['d']], .dir exM),
  ([['b'], ['x']], .link "/b/e/f".toList exM),
  ([['b'], ['l']], .link "x/../d".toList exM)]

def dotdotDisk : MFS := listDisk dotdotEntries

/-- **the OS resolves `/l/file` to `/e/d/file`, `realPath` returns `/d/file`** — a different
directory.  Every other clause of `Flat` holds for both links; only `ddOK` of `/l` fails. -/
theorem flat_cleaned_target_is_not_enough :
    L.OSGoodL [['b']] [['k']] dotdotDisk ∧ ¬ Flat [['b']] dotdotDisk ∧
    -- the cleaned effective targets are link-free and below the base root
    effDisk [['b'], ['l']] "x/../d".toList = [['b'], ['d']] ∧ noLinkB dotdotDisk [['b'], ['d']] = true ∧
    effDisk [['b'], ['x']] "/b/e/f".toList = [['b'], ['e'], ['f']] ∧ noLinkB dotdotDisk [['b'], ['e'], ['f']] = true ∧
    targetOK dotdotDisk [['b']] [['b'], ['x']] "/b/e/f".toList = true ∧
    ddOK dotdotDisk [['b']] true [['b']] (splitSep "x/../d".toList) = false ∧
    -- what the resolver returns and what the OS does
    rp dotdotDisk "/l/file" = .ok "/d/file".toList ∧
    parentName (namei dotdotDisk "/b/l/file".toList false) = some ([['b'], ['e'], ['d']], "file".toList) ∧
    parentName (namei dotdotDisk "/b/d/file".toList false) = some ([['b'], ['d']], "file".toList) :=
  ⟨good_of_goodB (by decide +kernel), by decide +kernel, by decide +kernel, by decide +kernel, by decide +kernel,
    by decide +kernel, by decide +kernel, by decide +kernel, by decide +kernel, by decide +kernel, by decide +kernel⟩

/-- the same text with the cancelled component missing: the OS cannot resolve `/l/file` at all
(ENOENT), `realPath` returns `/d/file`, which exists as a place to create things.  (The link dangles
under OS semantics — a variant of K-dangling-link-parent.) -/
def dotdotMissingDisk : MFS := listDisk [
  ([], .dir exM), ([['b']], .dir exM), ([['k']], .dir exM), ([['b'], ['d']], .dir exM),
  ([['b'], ['l']], .link "x/../d".toList exM)]

theorem dotdot_over_missing_component :
    ¬ Flat [['b']] dotdotMissingDisk ∧
    rp dotdotMissingDisk "/l/file" = .ok "/d/file".toList ∧
    errOf (namei dotdotMissingDisk "/b/l/file".toList false) = some .notExist ∧
    parentName (namei dotdotMissingDisk "/b/d/file".toList false) = some ([['b'], ['d']], "file".toList) :=
  ⟨by decide +kernel, by decide +kernel, by decide +kernel, by decide +kernel⟩

/-! ## cycles -/

/-- `/a -> /c`, `/c -> /a` (stored with the base prefix, as PrefixFS writes them) -/
def cycleDisk : MFS := listDisk [
  ([], .dir exM), ([['b']], .dir exM), ([['k']], .dir exM),
  ([['b'], ['a']], .link "/b/c".toList exM), ([['b'], ['c']], .link "/b/a".toList exM)]

/-- **T16.7 a 2-cycle does not loop**: resolving a path THROUGH the cycle fails with ELOOP (the loop
substitutes `/c` for `/a` once; its next `Lstat("/c/x")` goes through the kernel, which gives up after
40 hops, and that error is returned — exactly what the OS says about `/a/x`); resolving the cycle
member itself returns it unresolved (final component); three primitive calls are issued for `/a/x`
(bound of `resolve_terminates`: 6). The disk is not flat. -/
theorem resolve_cycle_fails_or_returns :
    rp cycleDisk "/a/x" = .error .loop ∧
    errOf (namei cycleDisk "/b/a/x".toList false) = some .loop ∧
    rp cycleDisk "/a" = .ok "/a".toList ∧
    (realPath exCfg "/a/x".toList { fs := cycleDisk }).1.trace.length = 4 ∧
    ¬ Flat [['b']] cycleDisk :=
  ⟨by decide +kernel, by decide +kernel, by decide +kernel, by decide +kernel, by decide +kernel⟩

/-! ## the 40-hop limit (why the theorem bounds the number of components) -/

/-- `/d/l -> /d`: flat.  A caller's path crossing the link 41 times is refused by the kernel (ELOOP)
and resolved by `realPath` to `/d/x`. -/
def hopDisk : MFS := listDisk [
  ([], .dir exM), ([['b']], .dir exM), ([['k']], .dir exM), ([['b'], ['d']], .dir exM),
  ([['b'], ['d'], ['l']], .link "/b/d".toList exM)]

def hopName (n : Nat) : Path := "/d".toList ++ (List.replicate n "/l".toList).flatten ++ "/x".toList

theorem more_than_40_links_in_one_path :
    Flat [['b']] hopDisk ∧
    (realPath exCfg (hopName 41) { fs := hopDisk }).2 = .ok "/d/x".toList ∧
    errOf (namei hopDisk ("/b".toList ++ hopName 41) false) = some .loop ∧
    parentName (namei hopDisk ("/b".toList ++ hopName 40) false) = some ([['b'], ['d']], ['x']) :=
  ⟨by decide +kernel, by decide +kernel, by decide +kernel, by decide +kernel⟩

/-! ## the target must stay below the base root -/

/-- `/l -> "../b/d"`: a relative text that climbs out of the base root `/b` and re-enters it.  The OS
resolves `/l/file` to `/d/file` (below the base root); `toAbsSymlink` computes inside the PrefixFS,
where `/..` is `/`, and returns `/b/d/file` (on disk `/b/b/d/file`).  Excluded by `ddOK … below`
(K-escaping-link territory: the text leaves the base root). -/
def reenterDisk : MFS := listDisk [
  ([], .dir exM), ([['b']], .dir exM), ([['k']], .dir exM), ([['b'], ['d']], .dir exM),
  ([['b'], ['l']], .link "../b/d".toList exM)]

theorem relative_target_leaving_the_base_root :
    ¬ Flat [['b']] reenterDisk ∧ rp reenterDisk "/l/file" = .ok "/b/d/file".toList ∧
    parentName (namei reenterDisk "/b/l/file".toList false) = some ([['b'], ['d']], "file".toList) ∧
    errOf (namei reenterDisk "/b/b/d/file".toList false) = some .notExist :=
  ⟨by decide +kernel, by decide +kernel, by decide +kernel, by decide +kernel⟩

/-- `/l -> /k` stored on disk WITHOUT the base prefix (a pre-existing absolute link pointing out of
the base directory; `PrefixFS.Symlink` never writes such a target).  `PrefixFS.Readlink` returns the
text unchanged, BackupFS takes it for a path inside the base: `/l/file` resolves to `/k/file`, on
disk `/b/k/file`, while the OS goes to `/k/file` outside the base root.  Excluded by
`bk <+: effDisk`. -/
def outsideDisk : MFS := listDisk [
  ([], .dir exM), ([['b']], .dir exM), ([['k']], .dir exM), ([['b'], ['l']], .link "/k".toList exM)]

theorem absolute_target_outside_the_base_root :
    ¬ Flat [['b']] outsideDisk ∧ rp outsideDisk "/l/file" = .ok "/k/file".toList ∧
    parentName (namei outsideDisk "/b/l/file".toList false) = some ([['k']], "file".toList) ∧
    errOf (namei outsideDisk "/b/k/file".toList false) = some .notExist :=
  ⟨by decide +kernel, by decide +kernel, by decide +kernel, by decide +kernel⟩

end Props.C16
