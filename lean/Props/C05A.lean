import Lemmas.FlowCheck
/-!
# C05 — facts about the CURRENT Go sources (regenerated on every run), decided by the kernel

`Generated.flowFacts` is written by the harness (`vharness -stream astfacts`, go/ast) from /repo's
working tree before every build; the predicates are defined in `Lemmas/FlowCheck.lean`.  A change to
the sources that alters how names flow through the methods changes the facts, and these theorems no
longer build — whether or not a generated input happens to exhibit the difference.
-/
namespace Props.C05
open Flow Generated

/-- every path PrefixFS hands to its base filesystem came out of `prefixPath(<parameter>)` (the function
`prefix_confines` is about); the link text of `Symlink` is `prefixPath(oldname)` or `oldname` verbatim;
every method has exactly one base call, of its own name -/
theorem source_paths_come_from_prefixPath : prefixedBeforeDelegation "PrefixFS" flowFacts methodParams = true := by decide +kernel

end Props.C05
