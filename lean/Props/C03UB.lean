import Props.C03U
import Lemmas.UBridgeLB
/-!
# C03 through flat symlinks — the unconditional statement after ANY history covered by C01's fragment

OPTIONAL: depends on `Lemmas/LB*.lean` (work package p11: the healthy-filesystem invariant `L.InvB` of the
symlink development, kept by every `L.G.CoveredHist`).  With it the history of
`Props.C03.transparent_through_flat_links_healthy_partial` need not consist of the finished classes: any
history through flat links that C01 covers (incl. `RemoveAll` of directories, `MkdirAll` of any depth).
-/
namespace Props.C03
open BFS BFS.BackupFS BFS.L BFS.F16 BFS.U Props.C16 Props.C01

/-- T03.U3  as `transparent_through_flat_links_healthy_partial`, after any `G.CoveredHist`. -/
theorem transparent_through_flat_links_healthy_any_history_partial (bk kk : Key) (hbk : PKey bk) (hkk : PKey kk)
    (hne1 : bk ≠ []) (hne2 : kk ≠ []) (hd1 : ¬ bk <+: kk) (hd2 : ¬ kk <+: bk)
    (w0 : World) (hg : OSGoodL bk kk w0.fs) (hinfos : w0.infos = []) (hnf : w0.faults = [])
    (hempty : ∀ k, k ≠ [] → w0.fs.get (kk ++ k) = none)
    (ops : List Op) (hcov : G.CoveredHist (osCfg bk kk) bk (osSimL bk kk hbk hkk hne1 hne2 hd1 hd2) w0 ops)
    (op : Op) (hop : U.Op.CoveredU bk (osSimL bk kk hbk hkk hne1 hne2 hd1 hd2) (runOps (osCfg bk kk) w0 ops) op)
    (hopb : U.Op.CoveredB bk (osSimL bk kk hbk hkk hne1 hne2 hd1 hd2) (runOps (osCfg bk kk) w0 ops) op) :
    let w := runOps (osCfg bk kk) w0 ops
    TransparentStepB bk op (Op.exec (osCfg bk kk) op w) (Op.direct (osCfg bk kk).base w.fs op) := by
  intro w
  have hr : Roots bk kk := ⟨hbk, hkk, hne1, hne2, hd1, hd2⟩
  have hinit := L.InvB.init (S := osSimL bk kk hbk hkk hne1 hne2 hd1 hd2) hg hinfos hnf (by
    intro k hk
    show (w0.fs.get (kk ++ k)).map _ = none
    rw [hempty k hk]; rfl)
  have hk := G.history_keepsB (hbk := hbk) (hkk := hkk) (hne1 := hne1) (hne2 := hne2) (hd1 := hd1) (hd2 := hd2)
    ops w0 hinit hcov
  have hinv := hk.inv.inv
  have hb := binvL_of_LB hinv hk.inv.b
  have h1 := transparentStep_of (op := op) (op_transpRA hr hinv hb.nofault hop)
    (fun hnra => op_transpU hr hinv hb.nofault hop hnra)
  exact transparentStepB_of h1 (op_stepB hr hinv hb hop hopb)

end Props.C03
