import Lemmas
/-!
# C08 — a failed backup never lets the modification through

`prepare cfg name` is what every mutator does before it touches the base filesystem (resolve the
path, then `tryBackup`).  The fault plan is part of the world, so every statement below holds for
every fault plan — single faults, multiple faults, faults on handle primitives (`Write`, `Close`).
-/
namespace Props.C08
open BFS BFS.BackupFS

/-- T08.1a While resolving and backing up, BackupFS issues only read-only calls on the base
filesystem (Lstat, Readlink, Open, Read, Close): every mutating primitive goes to the backup. -/
theorem backup_never_mutates_base (cfg : Cfg) (name : Path) (w : World) :
    Extends (fun e => e.sig.side = .backup ∨ e.mutating = false) w (prepare cfg name w).1 :=
  prepare_logs cfg name w

/-- T08.1b If the backup (or the resolution) fails — for whatever reason, in particular an
injected I/O error on any backup primitive — the operation returns that error and stops in the
state the failed backup left: the base call is never issued.  All single-path mutators. -/
theorem failed_backup_blocks (cfg : Cfg) (n : Path) (w w' : World) (e : Err)
    (h : prepare cfg n w = (w', .error e)) :
    (∀ p, mkdir cfg n p w = (w', .error e)) ∧
    (∀ p, mkdirAll cfg n p w = (w', .error e)) ∧
    (remove cfg n w = (w', .error e)) ∧
    (∀ m, chmod cfg n m w = (w', .error e)) ∧
    (∀ u g, chown cfg n u g w = (w', .error e)) ∧
    (∀ u g, lchown cfg n u g w = (w', .error e)) ∧
    (∀ a m, chtimes cfg n a m w = (w', .error e)) ∧
    (∀ o, symlink cfg o n w = (w', .error e)) ∧
    (∀ f p, f ≠ O_RDONLY → (openFile cfg n f p w).1 = w' ∧ (openFile cfg n f p w).2.toOption = none) ∧
    ((create cfg n w).1 = w' ∧ (create cfg n w).2.toOption = none) := by
  refine ⟨?_, ?_, ?_, ?_, ?_, ?_, ?_, ?_, ?_, ?_⟩
  · intro p; rw [mkdir_eq]; exact aborts_after_prepare cfg n _ w w' e h
  · intro p; rw [mkdirAll_eq]; exact aborts_after_prepare cfg n _ w w' e h
  · rw [remove_eq]; exact aborts_after_prepare cfg n _ w w' e h
  · intro m; rw [chmod_eq]; exact aborts_after_prepare cfg n _ w w' e h
  · intro u g; rw [chown_eq]; exact aborts_after_prepare cfg n _ w w' e h
  · intro u g; rw [lchown_eq]; exact aborts_after_prepare cfg n _ w w' e h
  · intro a m; rw [chtimes_eq]; exact aborts_after_prepare cfg n _ w w' e h
  · intro o; rw [symlink_eq]; exact aborts_after_prepare cfg n _ w w' e h
  · intro f p hf
    rw [openFile_eq cfg n f p hf, aborts_after_prepare cfg n _ w w' e h]
    exact ⟨rfl, rfl⟩
  · rw [create_eq, aborts_after_prepare cfg n _ w w' e h]
    exact ⟨rfl, rfl⟩

/-- T08.1c `Rename` takes two backups (target first); if either fails the rename is not issued. -/
theorem failed_backup_blocks_rename (cfg : Cfg) (o n : Path) (w w1 w2 w3 : World) (ro rn : Path) (e : Err)
    (h1 : realPath cfg o w = (w1, .ok ro)) (h2 : realPath cfg n w1 = (w2, .ok rn))
    (h3 : tryBackup cfg rn w2 = (w3, .error e)) : rename cfg o n w = (w3, .error e) := by
  unfold rename
  rw [M.bind_ok h1, M.bind_ok h2, M.bind_error h3]

/-- T08.2 the tracked map records a file's original only after its copy succeeded: taking the copy
itself never touches the map (so a faulted copy leaves no entry behind, and the retry copies
again). -/
theorem copy_leaves_tracking_untouched (cfg : Cfg) (side : Side) (name : Path) (info : Info)
    (src : WHandle) (w : World) : (copyFile cfg side name info src w).1.infos = w.infos :=
  copyFile_keeps cfg side name info src w

/-- T08.3 (link-free fragment) "the failure does not corrupt the transaction": whatever a fault
plan did to the operations of a covered history — any primitive on either filesystem failing, any
number of times — once the filesystems are healthy again Rollback restores every entry of the
base below its root.  (OS model behind two PrefixFS layers; `Covered` as in Props.C01.) -/
theorem later_rollback_still_restores_linkfree_partial (bk kk : Key) (hbk : PKey bk) (hkk : PKey kk)
    (hne1 : bk ≠ []) (hne2 : kk ≠ []) (hd1 : ¬ bk <+: kk) (hd2 : ¬ kk <+: bk)
    (w : World) (hg : OSGood bk kk w.fs) (hinfos : w.infos = []) (ops : List Op)
    (hcov : CoveredHist (osCfg bk kk) (osSim bk kk hbk hkk hne1 hne2 hd1 hd2) w ops) :
    ∀ k, k ≠ [] →
      ((rollback (osCfg bk kk) { runOps (osCfg bk kk) w ops with faults := [] }).1.fs.get (bk ++ k)).map eraseMt
        = (w.fs.get (bk ++ k)).map eraseMt :=
  tx_restores_after_faults (S := osSim bk kk hbk hkk hne1 hne2 hd1 hd2) hg hinfos ops hcov

/-- non-vacuity: a fault plan that actually fires (the first `OpenFile` on the backup fails) is an
admissible world for the theorem above -/
example : (({ fs := exDisk, faults := [⟨⟨.backup, "openfile", ["/f".toList, "578".toList, "420".toList]⟩, 0⟩] } : World).faults ≠ []) := by
  simp

end Props.C08
