import Lemmas
import Lemmas.DLayer
import Lemmas.DHidStep
import Props.C06
/-!
# C06 (disk level) — hidden paths are refused whatever the disk holds, and never modified

`hiddenFS hp inner : FSI σ` is HiddenFS as a filesystem over any inner filesystem.
D06.2: a call naming a hidden path returns the refusal class of `Props.C06.hidden_refused` on EVERY
state (disk) and leaves every state unchanged — so the outcome cannot depend on whether the hidden
entry exists.  D06.1 (`hidden_subtree_untouched_linkfree`, second half of this file) is the frame
statement on the OS model: HiddenFS over `PrefixFS(kp bk)` over the OS filesystem, disks without
symlinks at or below `bk`, ANY of the 16 calls (the whole `RemoveAll` program and `Rename` included)
with ANY name strings: every key at or below a hidden key holds exactly the same node afterwards.
-/
namespace Props.C06
open BFS BFS.D BFS.HiddenFS

/-- a refusal of the translator is the whole outcome of the method, on every state -/
theorem refused_on_every_state {σ} (inner : FSI σ) (hp : List Path) (c : Call) (e : Err)
    (hnra : ∀ n, c ≠ .removeAll n) (h : translate (mk hp) c = .error e) (s : σ) :
    (hiddenFS hp inner).call s c = (s, .error e) := by
  rw [hiddenFS_call_gen hp inner s c hnra, h]

/-- `RemoveAll` of a hidden name: refused before anything is looked at -/
theorem removeAll_hidden_refused {σ} (inner : FSI σ) (hp : List Path) (n : Path)
    (hh : isHidden n (mk hp) = .ok true) (s : σ) :
    (hiddenFS hp inner).call s (.removeAll n) = (s, .error .hiddenNotExist) := by
  rw [hiddenFS_call_removeAll]
  unfold hiddenRemoveAll
  rw [hguard_of_hidden _ (by rw [isHidden_rmName]; exact hh)]
  rfl

/-- D06.2 (single-name methods, all 14 incl. `RemoveAll`) for a name at or below a hidden path the
call returns the class `refusal c` — `ErrHiddenNotExist` for access, removal and metadata
operations, `ErrHiddenPermission` for creating ones — on every state, and changes no state. -/
theorem hidden_refused_on_every_state {σ} (inner : FSI σ) (hp : List Path) (c : Call) (n : Path)
    (hsingle : c.accessPaths = [n]) (hnotsym : ∀ o n', c ≠ .symlink o n')
    (hh : isHidden n (mk hp) = .ok true) (s : σ) :
    (hiddenFS hp inner).call s c = (s, .error (refusal c)) := by
  by_cases hra : ∃ n', c = .removeAll n'
  · obtain ⟨n', rfl⟩ := hra
    simp only [Call.accessPaths, List.cons.injEq, and_true] at hsingle
    subst hsingle
    exact removeAll_hidden_refused inner hp n' hh s
  · exact refused_on_every_state inner hp c _ (fun n' e => hra ⟨n', e⟩)
      (hidden_refused (mk hp) c n hsingle hnotsym hh) s

/-- D06.2 `hidden_outcome_independent_of_existence`: two arbitrary states (disks) — one where the
hidden entry exists, one where it does not, or any other pair — give the same result, and both are
left exactly as they were. -/
theorem hidden_outcome_independent_of_existence {σ} (inner : FSI σ) (hp : List Path) (c : Call) (n : Path)
    (hsingle : c.accessPaths = [n]) (hnotsym : ∀ o n', c ≠ .symlink o n')
    (hh : isHidden n (mk hp) = .ok true) (m m' : σ) :
    ((hiddenFS hp inner).call m c).2 = ((hiddenFS hp inner).call m' c).2 ∧
    ((hiddenFS hp inner).call m c).2 = .error (refusal c) ∧
    ((hiddenFS hp inner).call m c).1 = m ∧ ((hiddenFS hp inner).call m' c).1 = m' := by
  rw [hidden_refused_on_every_state inner hp c n hsingle hnotsym hh m,
    hidden_refused_on_every_state inner hp c n hsingle hnotsym hh m']
  exact ⟨rfl, rfl, rfl, rfl⟩

/-- … `Rename`: a hidden old name does not exist, a hidden new name may not be created; on every
state, no state changed -/
theorem rename_hidden_on_every_state {σ} (inner : FSI σ) (hp : List Path) (o n : Path) (s : σ) :
    (isHidden o (mk hp) = .ok true →
      (hiddenFS hp inner).call s (.rename o n) = (s, .error .hiddenNotExist)) ∧
    (isHidden o (mk hp) = .ok false → isParentOfHidden o (mk hp) = .ok false →
      isHidden n (mk hp) = .ok true →
      (hiddenFS hp inner).call s (.rename o n) = (s, .error .hiddenPerm)) := by
  constructor
  · intro h
    exact refused_on_every_state inner hp _ _ (fun _ e => by cases e) ((rename_refused (mk hp) o n).1 h) s
  · intro h1 h2 h3
    exact refused_on_every_state inner hp _ _ (fun _ e => by cases e) ((rename_refused (mk hp) o n).2 h1 h2 h3) s

/-- … `Symlink`: no link located at a hidden path, and none whose (lexical, effective) target is at
or below a hidden path, can be created; on every state, no state changed -/
theorem symlink_hidden_on_every_state {σ} (inner : FSI σ) (hp : List Path) (o n : Path) (s : σ) :
    (isHidden (if isAbs o then o else join (dir (clean n)) o) (mk hp) = .ok true →
      (hiddenFS hp inner).call s (.symlink o n) = (s, .error .hiddenPerm)) ∧
    (isHidden (if isAbs o then o else join (dir (clean n)) o) (mk hp) = .ok false → isHidden n (mk hp) = .ok true →
      (hiddenFS hp inner).call s (.symlink o n) = (s, .error .hiddenPerm)) := by
  constructor
  · intro h
    exact refused_on_every_state inner hp _ _ (fun _ e => by cases e) ((symlink_refused (mk hp) o n).1 h) s
  · intro h1 h2
    exact refused_on_every_state inner hp _ _ (fun _ e => by cases e) ((symlink_refused (mk hp) o n).2 h1 h2) s

/-! ## non-vacuity: `exDisk` has `/b/d`; an empty-but-for-the-root disk has not; hidden path `/b/d` -/

def bareDisk : MFS where
  get := fun k => if k = [] then some (.dir exMeta) else none
  dom := [[]]
  umask := 0o022

example : exDisk.get [['b'], ['d']] ≠ none ∧ bareDisk.get [['b'], ['d']] = none ∧
    isHidden "/b/d/../d/x".toList (mk ["/b/d".toList]) = .ok true ∧
    ((hiddenFS ["/b/d".toList] osfs).call exDisk (.create "/b/d/../d/x".toList)).2 = .error .hiddenPerm ∧
    ((hiddenFS ["/b/d".toList] osfs).call bareDisk (.create "/b/d/../d/x".toList)).2 = .error .hiddenPerm ∧
    ((hiddenFS ["/b/d".toList] osfs).call exDisk (.removeAll "/b/d".toList)).2 = .error .hiddenNotExist ∧
    ((hiddenFS ["/b/d".toList] osfs).call bareDisk (.stat "/b/d".toList)).2 = .error .hiddenNotExist := by
  decide

/-! ## D06.1 — nothing at or below a hidden path is changed (link-free disks) -/

/-- D06.1 in its weakest form: the disk is well-formed and has no symlink at/below `bk` nor among
the ancestors of `bk` (`WFB bk m`; the directory `bk` itself need not exist).  `hks` are the hidden
entries as keys relative to the HiddenFS root (hidden paths `kp h`, any number, nested or not). -/
theorem hidden_subtree_untouched_wfb (bk : Key) (hbk : PKey bk) (hks : List Key) (hp : ∀ h ∈ hks, PKey h)
    (m : MFS) (hw : WFB bk m) (c : Call) :
    ∀ j, (∃ h ∈ hks, h <+: j) →
      ((hiddenFS (hks.map kp) (prefixFS (kp bk) osfs)).call m c).1.get (bk ++ j) = m.get (bk ++ j) := by
  intro j hj
  have hne : hks ≠ [] := by
    obtain ⟨h, hm, _⟩ := hj
    intro e; rw [e] at hm; cases hm
  have H := hidKeys_mk hp
  by_cases hra : ∃ n, c = .removeAll n
  · obtain ⟨n, rfl⟩ := hra
    rw [hiddenFS_call_removeAll]
    show (hiddenRemoveAll (mk (hks.map kp)) (prefixFS (kp bk) osfs) 64 m (rmName n)).1.get (bk ++ j) = _
    -- the invariant of the walk: well-formed, hidden subtrees as in `m`
    let I : MFS → Prop := fun s => WFB bk s ∧ ∀ j, HidK hks j → s.get (bk ++ j) = m.get (bk ++ j)
    have hstep : StepInv (mk (hks.map kp)) (prefixFS (kp bk) osfs) I := by
      refine ⟨?_, ?_, ?_⟩
      · intro s p hI; rw [prefix_lstat_state]; exact hI
      · intro s p hI; rw [prefix_open_state]; exact hI
      · intro s p hI hv
        refine ⟨prefix_remove_wf hI.1 hbk p, ?_⟩
        intro j' hj'
        rw [visible_call_untouched H hne hI.1 hbk (.remove p)
          (by intro n hn; simp only [Call.accessPaths, List.mem_singleton] at hn; subst hn; exact hv)
          (fun _ _ e => by cases e) (fun _ e => by cases e) j' hj']
        exact hI.2 j' hj'
    exact (hiddenRemoveAll_inv hstep 64 m (rmName n) ⟨hw, fun _ _ => rfl⟩).2 j hj
  · have hnra : ∀ n, c ≠ .removeAll n := fun n e => hra ⟨n, e⟩
    rw [hiddenFS_call_gen _ _ _ _ hnra]
    cases htr : translate (mk (hks.map kp)) c with
    | error e => rfl
    | ok c1 =>
      obtain ⟨hvis, hanc, hnr⟩ := translate_ok_visible htr
      exact visible_call_untouched H hne hw hbk c1 hvis hanc (hnr hnra) j hj

/-- D06.1 `hidden_subtree_untouched_linkfree`: on every well-formed disk where the HiddenFS root `bk`
exists and no symlink lives at or below it, every call on
`HiddenFS(kp h₁, …, kp hₙ)` over `PrefixFS(kp bk)` over the OS filesystem leaves every node at or below
a hidden key exactly as it was (type, content, all mode bits, owner, mtime). -/
theorem hidden_subtree_untouched_linkfree (bk : Key) (hks : List Key) (hp : ∀ h ∈ hks, PKey h)
    (m : MFS) (hg : OSGood bk bk m) (c : Call) :
    ∀ j, (∃ h ∈ hks, h <+: j) →
      ((hiddenFS (hks.map kp) (prefixFS (kp bk) osfs)).call m c).1.get (bk ++ j) = m.get (bk ++ j) := by
  obtain ⟨mt, hb⟩ := hg.bdir
  exact hidden_subtree_untouched_wfb bk (hg.pkey bk _ hb) hks hp m (WFB.of_good hg) c

/-- an absolute path string cleans to the path of the key of its cleaned components -/
theorem abs_clean_key {p : Path} (h : isAbs p = true) :
    PKey (cleanC p).comps ∧ clean p = kp (cleanC p).comps := by
  have hc := cleanC_canon p
  have hr : (cleanC p).rooted = true := h
  refine ⟨?_, ?_⟩
  · intro n hn
    have := hc.ok n hn
    exact ⟨this.1.1, this.1.2, this.2, fun e => hc.rootedNoDD hr (e ▸ hn)⟩
  · unfold clean CPath.render
    simp [hr, kp]

/-- hidden paths given in any absolute spelling (`//bak/`, `/a/../bak`, …): the protected keys are
those whose path is component-wise within one of them -/
theorem hidden_subtree_untouched_any_spelling (bk : Key) (hiddenPaths : List Path)
    (habs : ∀ p ∈ hiddenPaths, isAbs p = true) (m : MFS) (hg : OSGood bk bk m) (c : Call) :
    ∀ j, PKey j → (∃ p ∈ hiddenPaths, Within p (kp j)) →
      ((hiddenFS hiddenPaths (prefixFS (kp bk) osfs)).call m c).1.get (bk ++ j) = m.get (bk ++ j) := by
  intro j hjk ⟨p, hpm, hw⟩
  let hks : List Key := hiddenPaths.map (fun p => (cleanC p).comps)
  have hpk : ∀ h ∈ hks, PKey h := by
    intro h hh
    obtain ⟨q, hq, rfl⟩ := List.mem_map.mp hh
    exact (abs_clean_key (habs q hq)).1
  have hmk : mk hiddenPaths = mk (hks.map kp) := by
    unfold mk
    congr 1
    rw [List.map_map, List.map_map]
    apply List.map_congr_left
    intro q hq
    obtain ⟨h1, h2⟩ := abs_clean_key (habs q hq)
    simp only [Function.comp]
    rw [clean_kp h1, h2]
  have hfs : hiddenFS hiddenPaths (prefixFS (kp bk) osfs) = hiddenFS (hks.map kp) (prefixFS (kp bk) osfs) := by
    unfold hiddenFS
    simp only [hmk]
  rw [hfs]
  apply hidden_subtree_untouched_linkfree bk hks hpk m hg c j
  refine ⟨(cleanC p).comps, List.mem_map.mpr ⟨p, hpm, rfl⟩, ?_⟩
  obtain ⟨h1, h2⟩ := abs_clean_key (habs p hpm)
  rw [← within_kp h1 hjk, ← h2]
  unfold Within at hw ⊢
  rw [cleanC_clean]
  exact hw

/-! ## non-vacuity of D06.1: `exDisk` (`/b/f`, `/b/d`), HiddenFS root `/b`, hidden `/d` -/

example : OSGood [['b']] [['b']] exDisk ∧ (∀ h ∈ [[['d']]], PKey h) ∧ (∃ h ∈ [[['d']]], h <+: [['d']]) ∧
    exDisk.get ([['b']] ++ [['d']]) ≠ none :=
  ⟨⟨osGood_example.root, osGood_example.pkey, osGood_example.dom, osGood_example.mode, osGood_example.parent,
      osGood_example.bdir, osGood_example.bdir,
      fun k t mt h => osGood_example.nolink k t mt (Or.inl (h.elim id id))⟩,
    by decide, by decide, by decide⟩

theorem exDisk_good_b : OSGood [['b']] [['b']] exDisk :=
  ⟨osGood_example.root, osGood_example.pkey, osGood_example.dom, osGood_example.mode, osGood_example.parent,
    osGood_example.bdir, osGood_example.bdir,
    fun k t mt h => osGood_example.nolink k t mt (Or.inl (h.elim id id))⟩

/-- `RemoveAll("/")` through `HiddenFS("/d")` over `PrefixFS("/b")` leaves the hidden `/b/d` alone -/
example :
    ((hiddenFS ([[['d']]].map kp) (prefixFS (kp [['b']]) osfs)).call exDisk (.removeAll "/".toList)).1.get
      [['b'], ['d']] = some (.dir exMeta) :=
  hidden_subtree_untouched_linkfree [['b']] [[['d']]] (by decide) exDisk exDisk_good_b _ [['d']] (by decide)

/-- `Remove("/f")` goes through, `Chmod("/d/../d")` and `Rename("/f", "/d/x")` are refused, `/b/d` as before -/
example :
    let fs := hiddenFS ([[['d']]].map kp) (prefixFS (kp [['b']]) osfs)
    (fs.call exDisk (.remove "/f".toList)).2 = .ok .unit ∧
    (fs.call exDisk (.remove "/f".toList)).1.get [['b'], ['f']] = none ∧
    (fs.call exDisk (.remove "/f".toList)).1.get [['b'], ['d']] = some (.dir exMeta) ∧
    (fs.call exDisk (.chmod "/d/../d".toList 0)).2 = .error .hiddenNotExist ∧
    (fs.call exDisk (.rename "/f".toList "/d/x".toList)).2 = .error .hiddenPerm := by
  decide

end Props.C06
