import Lemmas
import Lemmas.DLayer
import Props.C15
/-!
# C15 (disk level) — HiddenFS has exactly the effect of its base on everything that is not hidden

`Props.C15.nonhidden_delegates` is lexical.  Here: `hiddenFS hp inner : FSI σ` over ANY inner
filesystem (for `inner = osfs` or `prefixFS p osfs`: disks).  For a call none of whose names is hidden
(for `Rename`: nor an ancestor of a hidden path), all 15 methods but `RemoveAll`, the call through
HiddenFS returns what the same call on the base returns and leaves the same state.  The only
difference in the returned value is internal: the handle remembers the name it was opened with
(`Handle.lname`, the `hiddenFile` wrapper's field used by the listing filter of C11).
`RemoveAll`: `Props.C15.removeAll_transparent_linkfree_partial`.
-/
namespace Props.C15
open BFS BFS.D BFS.HiddenFS

/-- D15.1 (any inner filesystem) a visible call is the delegated call on the base: same state,
same result up to `hiddenPost` (the remembered open name of a handle) -/
theorem nonhidden_effect_delegated {σ} (inner : FSI σ) (hp : List Path) (c : Call) (s : σ)
    (hnra : ∀ n, c ≠ .removeAll n)
    (hvis : ∀ n ∈ guardedNames c, isHidden n (mk hp) = .ok false)
    (hanc : ∀ o n, c = .rename o n →
      isParentOfHidden o (mk hp) = .ok false ∧ isParentOfHidden n (mk hp) = .ok false) :
    (hiddenFS hp inner).call s c =
      ((inner.call s (delegated c)).1, (inner.call s (delegated c)).2.map (hiddenPost c (delegated c))) := by
  rw [hiddenFS_call_gen hp inner s c hnra, nonhidden_delegates (mk hp) c hvis hanc]

theorem delegated_eq (c : Call) : delegated c = hiddenDelegated c := by cases c <;> rfl

/-- D15.1 `nonhidden_effect_equal`: over a base on which `Create`/`Open` are the `OpenFile` calls
they are in package `os` (the OS filesystem, and every PrefixFS over it), a visible call through
HiddenFS has exactly the effect of the same call on the base, and its result -/
theorem nonhidden_effect_equal {σ} (inner : FSI σ) (hco : CreateIsOpenFile inner)
    (hp : List Path) (c : Call) (s : σ)
    (hnra : ∀ n, c ≠ .removeAll n)
    (hvis : ∀ n ∈ guardedNames c, isHidden n (mk hp) = .ok false)
    (hanc : ∀ o n, c = .rename o n →
      isParentOfHidden o (mk hp) = .ok false ∧ isParentOfHidden n (mk hp) = .ok false) :
    ((hiddenFS hp inner).call s c).1 = (inner.call s c).1 ∧
    ((hiddenFS hp inner).call s c).2 = (inner.call s c).2.map (hiddenPost c (delegated c)) := by
  rw [nonhidden_effect_delegated inner hp c s hnra hvis hanc, delegated_eq, hco s c]
  exact ⟨rfl, rfl⟩

/-- the only thing `hiddenPost` changes: the remembered open name of a returned handle -/
theorem hiddenPost_spec (c c' : Call) :
    hiddenPost c c' .unit = .unit ∧ (∀ i, hiddenPost c c' (.info i) = .info i) ∧
    (∀ t, hiddenPost c c' (.str t) = .str t) ∧
    (∀ h, hiddenPost c c' (.handle h) = .handle { h with lname := c.primaryPath }) :=
  ⟨rfl, fun _ => rfl, fun _ => rfl, fun _ => rfl⟩

/-- on disks, directly over the OS filesystem -/
theorem nonhidden_effect_equal_os (hp : List Path) (c : Call) (m : MFS)
    (hnra : ∀ n, c ≠ .removeAll n)
    (hvis : ∀ n ∈ guardedNames c, isHidden n (mk hp) = .ok false)
    (hanc : ∀ o n, c = .rename o n →
      isParentOfHidden o (mk hp) = .ok false ∧ isParentOfHidden n (mk hp) = .ok false) :
    ((hiddenFS hp osfs).call m c).1 = (osCall m c).1 ∧
    ((hiddenFS hp osfs).call m c).2 = (osCall m c).2.map (hiddenPost c (delegated c)) :=
  nonhidden_effect_equal osfs createIsOpenFile_osfs hp c m hnra hvis hanc

/-- on disks, over a PrefixFS over the OS filesystem (the README layering) -/
theorem nonhidden_effect_equal_prefix (p : Path) (hp : List Path) (c : Call) (m : MFS)
    (hnra : ∀ n, c ≠ .removeAll n)
    (hvis : ∀ n ∈ guardedNames c, isHidden n (mk hp) = .ok false)
    (hanc : ∀ o n, c = .rename o n →
      isParentOfHidden o (mk hp) = .ok false ∧ isParentOfHidden n (mk hp) = .ok false) :
    ((hiddenFS hp (prefixFS p osfs)).call m c).1 = ((prefixFS p osfs).call m c).1 ∧
    ((hiddenFS hp (prefixFS p osfs)).call m c).2 =
      ((prefixFS p osfs).call m c).2.map (hiddenPost c (delegated c)) :=
  nonhidden_effect_equal _ (createIsOpenFile_prefixFS p createIsOpenFile_osfs) hp c m hnra hvis hanc

/-- the hypotheses in the property's own words: names outside every hidden path (component-wise),
comparable with them (e.g. all absolute) -/
theorem visible_hyp_of_outside (hp : List Path) (c : Call)
    (hout : ∀ n ∈ guardedNames c, ∀ h ∈ mk hp, ¬ Within h n)
    (hc : ∀ n ∈ guardedNames c, Comparable (mk hp) n) :
    ∀ n ∈ guardedNames c, isHidden n (mk hp) = .ok false :=
  fun n hn => visible_of_outside (mk hp) n (hout n hn) (hc n hn)

/-! ## non-vacuity: the disk of `Lemmas/SimOS.lean`, hidden path `/b/d`, the sibling `/b/d2` -/

example :
    (∀ n ∈ guardedNames (.mkdir "/b/d2".toList 0o755), isHidden n (mk ["/b/d".toList]) = .ok false) ∧
    ((hiddenFS ["/b/d".toList] osfs).call exDisk (.mkdir "/b/d2".toList 0o755)).2 = .ok .unit ∧
    (((hiddenFS ["/b/d".toList] osfs).call exDisk (.mkdir "/b/d2".toList 0o755)).1.get [['b'], ['d', '2']]).isSome ∧
    ((hiddenFS ["/b/d".toList] osfs).call exDisk (.mkdir "/b/d/x".toList 0o755)).2 = .error .hiddenPerm := by
  decide

end Props.C15
