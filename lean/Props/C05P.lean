import Lemmas
import Lemmas.PXEx
import Lemmas.PXLex
import Lemmas.PXWrite
import Props.C05D
/-!
# C05 (disk level, second part) — nothing outside the prefix can be READ, histories, created links

`Props/C05D.lean` proves the WRITE half of C05 on the OS model: no call through
`prefixFS (kp pk) osfs` changes a key outside the prefix.  Here:

* P05.1 `os_confined_reads_partial` — the READ half, as two-disk non-interference: on two disks that
  hold the same node at every key at or below the prefix (arbitrary and different everywhere else),
  every read-only call (`Stat`, `Lstat`, `Readlink`, `Open`, and through the handle `Open` returns:
  `Read`, `Stat`, `Readdirnames`) returns the same result and the same data, and leaves the disk
  untouched.  `os_call_noninterference_partial`: the same for all 16 methods (results equal, the
  disks agree afterwards).
* P05.2 `os_confined_history_reads_writes_partial` — for histories: outside keys never change AND
  every observation is a function of the inside part of the initial disk and the calls.
* P05.3 `symlink_created_points_inside_partial` — a link created through PrefixFS with an absolute or
  `..`-free target leads, followed PHYSICALLY by the kernel from where it really is, to a key at or
  below the prefix (or dangles inside), on this disk and on every disk with the same inside.
  `symlink_with_dotdot_points_inside_linkfree_parent_partial`: the relative-with-`..` case.

Hypotheses (`_partial`): `Tame pk m` (no stored link target below the prefix contains `..`; absolute
ones run through the prefix) is forced — `read_escapes_through_link`; it is the hypothesis of
`os_confined_history_partial` (finding K-prefix-lexical-links).  `PrefDirs pk m` says the prefix
directory and its ancestors are real directories (on both disks).  `DomSup m` is the representation
invariant of the model's `MFS` (`dom` enumerates every live key; preserved by every call:
`BFS.PX.ds_osCall`); it only matters for listings.
-/
namespace Props.C05
open BFS BFS.D BFS.PX

/-! ## what a caller observes of one call -/

/-- the result of the call and — when it is a handle — what can be read through it right after:
content (`Read` to EOF), `File.Stat`, `Readdirnames(-1)` -/
structure Obs where
  ret : Except Err Ret
  through : Option (Except Err String × Except Err Info × Except Err (List Name))
deriving DecidableEq

def observe (pk : Key) (m : MFS) (c : Call) : Obs :=
  let fs := prefixFS (kp pk) osfs
  let r := fs.call m c
  { ret := r.2
    through :=
      match r.2 with
      | .ok (.handle h) => some (fs.hread r.1 h, fs.hstat r.1 h, fs.hreaddirnames r.1 h)
      | _ => none }

/-- reads through a handle whose key is at or below the prefix, on two disks that agree there -/
theorem through_same {pk : Key} {m1 m2 : MFS} (hag : AgreeIn pk m1 m2) (hs1 : DomSup m1) (hs2 : DomSup m2)
    {h : Handle} (hk : pk <+: h.key) :
    ((prefixFS (kp pk) osfs).hread m1 h, (prefixFS (kp pk) osfs).hstat m1 h,
        (prefixFS (kp pk) osfs).hreaddirnames m1 h) =
      ((prefixFS (kp pk) osfs).hread m2 h, (prefixFS (kp pk) osfs).hstat m2 h,
        (prefixFS (kp pk) osfs).hreaddirnames m2 h) := by
  show (m1.hread h, m1.hstat h, m1.hreaddirnames h) = (m2.hread h, m2.hstat h, m2.hreaddirnames h)
  rw [hread_agree hag hk, hstat_agree hag hk, hreaddirnames_agree hag hs1 hs2 hk]

/-- P05.1 — the read half of C05 on the disk.  `m1` and `m2` hold the same node at every key at or
below the prefix and are arbitrary elsewhere (files, directories, symlinks, anything); on both the
prefix directory and its ancestors are directories; the links below the prefix are tame.  Then every
read-only call with ANY name string observes the same on both, and changes neither. -/
theorem os_confined_reads_partial (pk : Key) (hpk : PKey pk) (m1 m2 : MFS)
    (hd1 : PrefDirs pk m1) (hd2 : PrefDirs pk m2) (ht : Tame pk m1) (hs1 : DomSup m1) (hs2 : DomSup m2)
    (hag : ∀ K, pk <+: K → m1.get K = m2.get K) (c : Call) (hro : ReadOnly c) :
    observe pk m1 c = observe pk m2 c ∧
    ((prefixFS (kp pk) osfs).call m1 c).1 = m1 ∧ ((prefixFS (kp pk) osfs).call m2 c).1 = m2 := by
  have e1 : ((prefixFS (kp pk) osfs).call m1 c).1 = m1 := prefix_readonly hpk hro
  have e2 : ((prefixFS (kp pk) osfs).call m2 c).1 = m2 := prefix_readonly hpk hro
  have hres := prefix_readonly_same hpk hd1 hd2 ht hag hro
  refine ⟨?_, e1, e2⟩
  unfold observe
  simp only
  rw [e1, e2, ← hres]
  cases hr : ((prefixFS (kp pk) osfs).call m1 c).2 with
  | error e => rfl
  | ok ret =>
    cases ret with
    | handle h =>
      simp only
      rw [through_same hag hs1 hs2 (prefix_handle_inside hpk hd1 ht hr)]
    | unit => rfl
    | info i => rfl
    | str s => rfl

/-- the same for ALL 16 methods (the two disks also have the same umask): same observation, and the
two disks agree at and below the prefix afterwards -/
theorem os_call_noninterference_partial (pk : Key) (hpk : PKey pk) (m1 m2 : MFS)
    (hd1 : PrefDirs pk m1) (hd2 : PrefDirs pk m2) (ht : Tame pk m1) (hs1 : DomSup m1) (hs2 : DomSup m2)
    (ha : Agree pk m1 m2) (c : Call) :
    observe pk m1 c = observe pk m2 c ∧
    Agree pk ((prefixFS (kp pk) osfs).call m1 c).1 ((prefixFS (kp pk) osfs).call m2 c).1 := by
  obtain ⟨hres, ha'⟩ := prefix_call_same hpk hd1 hd2 ht hs1 hs2 ha c
  refine ⟨?_, ha'⟩
  unfold observe
  simp only
  rw [← hres]
  cases hr : ((prefixFS (kp pk) osfs).call m1 c).2 with
  | error e => rfl
  | ok ret =>
    cases ret with
    | handle h =>
      simp only
      rw [through_same ha'.get (ds_prefix_call hpk hs1 c) (ds_prefix_call hpk hs2 c)
        (prefix_handle_inside hpk hd1 ht hr)]
    | unit => rfl
    | info i => rfl
    | str s => rfl

/-- handles kept for later: a handle returned through PrefixFS on a tame disk names a key at or below
the prefix, and whatever is read through it LATER — on any two disks that agree at and below the
prefix at that time — is the same -/
theorem os_confined_handle_reads (pk : Key) (hpk : PKey pk) (m : MFS) (hd : PrefDirs pk m) (ht : Tame pk m)
    (c : Call) (h : Handle) (hr : ((prefixFS (kp pk) osfs).call m c).2 = .ok (.handle h)) :
    pk <+: h.key ∧
    ∀ (m1 m2 : MFS), (∀ K, pk <+: K → m1.get K = m2.get K) → DomSup m1 → DomSup m2 →
      (prefixFS (kp pk) osfs).hread m1 h = (prefixFS (kp pk) osfs).hread m2 h ∧
      (prefixFS (kp pk) osfs).hstat m1 h = (prefixFS (kp pk) osfs).hstat m2 h ∧
      (prefixFS (kp pk) osfs).hreaddirnames m1 h = (prefixFS (kp pk) osfs).hreaddirnames m2 h := by
  have hk := prefix_handle_inside hpk hd ht hr
  refine ⟨hk, ?_⟩
  intro m1 m2 hag hs1 hs2
  exact ⟨hread_agree hag hk, hstat_agree hag hk, hreaddirnames_agree hag hs1 hs2 hk⟩

/-! ## P05.2 — histories: reads and writes together -/

/-- the observations of a history of calls through `PrefixFS(kp pk)` -/
def obsCalls (pk : Key) : MFS → List Call → List Obs
  | _, [] => []
  | m, c :: cs => observe pk m c :: obsCalls pk ((prefixFS (kp pk) osfs).call m c).1 cs

/-- P05.2.  Two disks with the same inside (and umask), anything outside; both tame.  Run the same
history of PrefixFS calls with ANY names on both — `Symlink` targets absolute or `..`-free, the prefix
directory never removed (`TameCall`, `PrefixSurvives`: the hypotheses of `os_confined_history_partial`).
Then (reads) the two histories observe exactly the same at every step — results, handles, data read
through them, listings: the observations are a function of the inside part of the initial disk and of
the calls; (writes) on each disk every key outside the prefix holds at the end exactly the node it
held at the start; and the two disks still have the same inside, are tame, etc., so the statement
extends to every continuation. -/
theorem os_confined_history_reads_writes_partial (pk : Key) (hpk : PKey pk) :
    ∀ (cs : List Call) (m1 m2 : MFS), PrefDirs pk m1 → PrefDirs pk m2 → Tame pk m1 → DomSup m1 → DomSup m2 →
      Agree pk m1 m2 → (∀ c ∈ cs, TameCall c) → PrefixSurvives pk m1 cs →
      obsCalls pk m1 cs = obsCalls pk m2 cs ∧
      (∀ j, ¬ pk <+: j → (runCalls pk m1 cs).get j = m1.get j) ∧
      (∀ j, ¬ pk <+: j → (runCalls pk m2 cs).get j = m2.get j) ∧
      Agree pk (runCalls pk m1 cs) (runCalls pk m2 cs) ∧
      PrefDirs pk (runCalls pk m1 cs) ∧ PrefDirs pk (runCalls pk m2 cs) ∧ Tame pk (runCalls pk m1 cs) ∧
      DomSup (runCalls pk m1 cs) ∧ DomSup (runCalls pk m2 cs)
  | [], m1, m2, hd1, hd2, ht, hs1, hs2, ha, _, _ =>
    ⟨rfl, fun _ _ => rfl, fun _ _ => rfl, ha, hd1, hd2, ht, hs1, hs2⟩
  | c :: cs, m1, m2, hd1, hd2, ht, hs1, hs2, ha, hc, hs => by
    obtain ⟨ho, ha'⟩ := os_call_noninterference_partial pk hpk m1 m2 hd1 hd2 ht hs1 hs2 ha c
    have hlive2 : (((prefixFS (kp pk) osfs).call m2 c).1.get pk).isSome := by
      rw [← ha'.get pk List.prefix_rfl]; exact hs.1
    obtain ⟨a1, a2, a3⟩ := tame_step_partial pk hpk m1 hd1 ht c (hc c (by simp)) hs.1
    obtain ⟨b1, _, b3⟩ := tame_step_partial pk hpk m2 hd2 (ha.get.tame ht) c (hc c (by simp)) hlive2
    obtain ⟨r1, r2, r3, r4, r5⟩ := os_confined_history_reads_writes_partial pk hpk cs _ _ a1 b1 a2
      (ds_prefix_call hpk hs1 c) (ds_prefix_call hpk hs2 c) ha'
      (fun c' h' => hc c' (List.mem_cons_of_mem _ h')) hs.2
    refine ⟨?_, fun j hj => (r2 j hj).trans (a3 j hj), fun j hj => (r3 j hj).trans (b3 j hj), r4, r5⟩
    show observe pk m1 c :: _ = observe pk m2 c :: _
    rw [ho, r1]

/-! ### P05.2 with data written through handles

An `Act` is a call, or a call followed — when it returned a handle — by `Write(data)` at offset `off`
through that handle; in both cases whatever can be read through the handle afterwards is observed. -/

inductive Act
  | call (c : Call)
  | write (c : Call) (off : Nat) (data : String)

def Act.theCall : Act → Call
  | .call c => c
  | .write c _ _ => c

/-- one act: the new disk, and what is observed (the call's `Obs`; the result of the `Write`) -/
def stepAct (pk : Key) (m : MFS) : Act → MFS × (Obs × Option (Except Err Unit))
  | .call c => (((prefixFS (kp pk) osfs).call m c).1, (observe pk m c, none))
  | .write c off d =>
    let fs := prefixFS (kp pk) osfs
    let r := fs.call m c
    match r.2 with
    | .ok (.handle h) =>
      let w := fs.hwrite r.1 h off d
      (w.1, ({ ret := r.2, through := some (fs.hread w.1 h, fs.hstat w.1 h, fs.hreaddirnames w.1 h) }, some w.2))
    | _ => (r.1, ({ ret := r.2, through := none }, none))

def runActs (pk : Key) : MFS → List Act → MFS
  | m, [] => m
  | m, a :: as => runActs pk (stepAct pk m a).1 as

def obsActs (pk : Key) : MFS → List Act → List (Obs × Option (Except Err Unit))
  | _, [] => []
  | m, a :: as => (stepAct pk m a).2 :: obsActs pk (stepAct pk m a).1 as

/-- the prefix directory exists after the call of every act -/
def SurvivesActs (pk : Key) : MFS → List Act → Prop
  | _, [] => True
  | m, a :: as =>
    (((prefixFS (kp pk) osfs).call m a.theCall).1.get pk).isSome ∧ SurvivesActs pk (stepAct pk m a).1 as

/-- one act on two disks with the same inside -/
theorem act_step_partial (pk : Key) (hpk : PKey pk) (m1 m2 : MFS)
    (hd1 : PrefDirs pk m1) (hd2 : PrefDirs pk m2) (ht : Tame pk m1) (hs1 : DomSup m1) (hs2 : DomSup m2)
    (ha : Agree pk m1 m2) (a : Act) (hc : TameCall a.theCall)
    (hlive : (((prefixFS (kp pk) osfs).call m1 a.theCall).1.get pk).isSome) :
    (stepAct pk m1 a).2 = (stepAct pk m2 a).2 ∧
    (∀ j, ¬ pk <+: j → (stepAct pk m1 a).1.get j = m1.get j) ∧
    (∀ j, ¬ pk <+: j → (stepAct pk m2 a).1.get j = m2.get j) ∧
    Agree pk (stepAct pk m1 a).1 (stepAct pk m2 a).1 ∧
    PrefDirs pk (stepAct pk m1 a).1 ∧ PrefDirs pk (stepAct pk m2 a).1 ∧ Tame pk (stepAct pk m1 a).1 ∧
    DomSup (stepAct pk m1 a).1 ∧ DomSup (stepAct pk m2 a).1 := by
  obtain ⟨ho, ha'⟩ := os_call_noninterference_partial pk hpk m1 m2 hd1 hd2 ht hs1 hs2 ha a.theCall
  obtain ⟨hres, _⟩ := prefix_call_same hpk hd1 hd2 ht hs1 hs2 ha a.theCall
  have hlive2 : (((prefixFS (kp pk) osfs).call m2 a.theCall).1.get pk).isSome := by
    rw [← ha'.get pk List.prefix_rfl]; exact hlive
  obtain ⟨a1, a2, a3⟩ := tame_step_partial pk hpk m1 hd1 ht a.theCall hc hlive
  obtain ⟨b1, _, b3⟩ := tame_step_partial pk hpk m2 hd2 (ha.get.tame ht) a.theCall hc hlive2
  have s1 := ds_prefix_call hpk hs1 a.theCall
  have s2 := ds_prefix_call hpk hs2 a.theCall
  cases a with
  | call c =>
    simp only [Act.theCall] at ho
    exact ⟨by show (observe pk m1 c, none) = (observe pk m2 c, none); rw [ho], a3, b3, ha', a1, b1, a2, s1, s2⟩
  | write c off d =>
    simp only [Act.theCall] at ha' hres a1 a2 a3 b1 b3 s1 s2
    unfold stepAct
    simp only
    rw [← hres]
    cases hr : ((prefixFS (kp pk) osfs).call m1 c).2 with
    | error e => exact ⟨rfl, a3, b3, ha', a1, b1, a2, s1, s2⟩
    | ok ret =>
      cases ret with
      | unit => exact ⟨rfl, a3, b3, ha', a1, b1, a2, s1, s2⟩
      | info i => exact ⟨rfl, a3, b3, ha', a1, b1, a2, s1, s2⟩
      | str t => exact ⟨rfl, a3, b3, ha', a1, b1, a2, s1, s2⟩
      | handle h =>
        have hk := prefix_handle_inside hpk hd1 ht hr
        obtain ⟨w1, w2⟩ := hwrite_same ha' hk off d
        have t1 := ds_hwrite s1 h off d
        have t2 := ds_hwrite s2 h off d
        refine ⟨?_, fun j hj => (hwrite_outside hk off d j hj).trans (a3 j hj),
          fun j hj => (hwrite_outside hk off d j hj).trans (b3 j hj), w2,
          hwrite_prefDirs a1 h off d, hwrite_prefDirs b1 h off d, hwrite_tame a2 h off d, t1, t2⟩
        have e : ∀ m : MFS, (prefixFS (kp pk) osfs).hwrite m h off d = m.hwrite h off d := fun _ => rfl
        simp only [e]
        rw [through_same w2.get t1 t2 hk, w1]

/-- P05.2 for histories of acts: same observations (results, data read back, results of the writes)
on two disks with the same inside; nothing outside the prefix changes on either -/
theorem os_confined_acts_reads_writes_partial (pk : Key) (hpk : PKey pk) :
    ∀ (as : List Act) (m1 m2 : MFS), PrefDirs pk m1 → PrefDirs pk m2 → Tame pk m1 → DomSup m1 → DomSup m2 →
      Agree pk m1 m2 → (∀ a ∈ as, TameCall a.theCall) → SurvivesActs pk m1 as →
      obsActs pk m1 as = obsActs pk m2 as ∧
      (∀ j, ¬ pk <+: j → (runActs pk m1 as).get j = m1.get j) ∧
      (∀ j, ¬ pk <+: j → (runActs pk m2 as).get j = m2.get j) ∧
      Agree pk (runActs pk m1 as) (runActs pk m2 as) ∧
      PrefDirs pk (runActs pk m1 as) ∧ PrefDirs pk (runActs pk m2 as) ∧ Tame pk (runActs pk m1 as) ∧
      DomSup (runActs pk m1 as) ∧ DomSup (runActs pk m2 as)
  | [], m1, m2, hd1, hd2, ht, hs1, hs2, ha, _, _ =>
    ⟨rfl, fun _ _ => rfl, fun _ _ => rfl, ha, hd1, hd2, ht, hs1, hs2⟩
  | a :: as, m1, m2, hd1, hd2, ht, hs1, hs2, ha, hc, hs => by
    obtain ⟨o1, o2, o3, o4, o5, o6, o7, o8, o9⟩ :=
      act_step_partial pk hpk m1 m2 hd1 hd2 ht hs1 hs2 ha a (hc a (by simp)) hs.1
    obtain ⟨r1, r2, r3, r4⟩ := os_confined_acts_reads_writes_partial pk hpk as _ _ o5 o6 o7 o8 o9 o4
      (fun a' h' => hc a' (List.mem_cons_of_mem _ h')) hs.2
    refine ⟨?_, fun j hj => (r2 j hj).trans (o2 j hj), fun j hj => (r3 j hj).trans (o3 j hj), r4⟩
    show (stepAct pk m1 a).2 :: _ = (stepAct pk m2 a).2 :: _
    rw [o1, r1]

/-! ## P05.3 — where a created link leads, physically -/

/-- P05.3.  `Symlink(o, n)` through PrefixFS on a tame disk, `o` absolute or without `..`, returned
nil.  Then the new link sits at a key `K` strictly below the prefix, carrying a tame target `o'`
(the re-rooted `o`, or `o` itself); the disk is still tame; and when the kernel FOLLOWS the link —
from the root for an absolute `o'`, from the directory `K.dropLast` where the link physically is
otherwise, with any `..`-free remainder `rest` of the name being resolved, any fuel and hop count —
the walk ends at a key at or below the prefix (`NC.found`), at an absent entry of a live directory at or
below the prefix (`NC.missing`: dangling inside), or fails (`NC.err`); and it does exactly the same on
every disk `m2` that agrees with the new disk at and below the prefix: nothing that is or will be
outside the prefix can make the link lead there. -/
theorem symlink_created_points_inside_partial (pk : Key) (hpk : PKey pk) (m : MFS)
    (hd : PrefDirs pk m) (ht : Tame pk m) (o n : Path)
    (hno : isAbs o = true ∨ dotdot ∉ splitSep o)
    (hok : ((prefixFS (kp pk) osfs).call m (.symlink o n)).2 = .ok .unit) :
    ∃ (K : Key) (o' : Path) (mt : Meta), pk <+: K ∧ K ≠ pk ∧ m.get K = none ∧
      ((prefixFS (kp pk) osfs).call m (.symlink o n)).1.get K = some (.link o' mt) ∧
      TameTarget pk o' ∧
      PrefDirs pk ((prefixFS (kp pk) osfs).call m (.symlink o n)).1 ∧
      Tame pk ((prefixFS (kp pk) osfs).call m (.symlink o n)).1 ∧
      ∀ (f : Bool) (fuel hops : Nat) (rest : List Name), dotdot ∉ rest →
        (∃ K', pk <+: K' ∧
          NC ((prefixFS (kp pk) osfs).call m (.symlink o n)).1 K'
            (MFS.walk ((prefixFS (kp pk) osfs).call m (.symlink o n)).1 f fuel hops
              (if isRooted o' then [] else K.dropLast) (splitSep o' ++ rest))) ∧
        ∀ m2, PrefDirs pk m2 → (∀ J, pk <+: J → ((prefixFS (kp pk) osfs).call m (.symlink o n)).1.get J = m2.get J) →
          MFS.walk ((prefixFS (kp pk) osfs).call m (.symlink o n)).1 f fuel hops
              (if isRooted o' then [] else K.dropLast) (splitSep o' ++ rest) =
            MFS.walk m2 f fuel hops (if isRooted o' then [] else K.dropLast) (splitSep o' ++ rest) := by
  cases htr : PrefixFS.translate (kp pk) (.symlink o n) with
  | error e =>
    rw [(os_confined_with_inside_links_partial pk hpk m hd ht (.symlink o n)).2 e htr] at hok
    cases hok
  | ok c' =>
    have hk := translate_keyCall hpk htr
    cases hk with
    | symlink _ _ o' x hx _ =>
      obtain ⟨K, mt, hK, hKne, h1, h2, hpar, hlive⟩ := symlink_lands hpk hd ht htr hok
      obtain ⟨s1, s2, _⟩ := tame_step_partial pk hpk m hd ht (.symlink o n) hno hlive
      refine ⟨K, o', mt, hK, hKne, h1, h2, stored_target_tame pk hpk o n o' _ htr hno, s1, s2, ?_⟩
      intro f fuel hops rest hrest
      refine ⟨tame_link_resolves_inside s1 s2 hK hKne h2 hpar f fuel hops rest hrest, ?_⟩
      intro m2 hd2 hag
      exact tame_link_resolves_same s1 hd2 s2 hag hK hKne h2 hpar f fuel hops rest hrest

/-- P05.3 for a relative target WITH `..`.  `Symlink(o, n)`, `o` relative (any `..`), returned nil;
`n` spells the key `pk ++ x`, and the directory of that key and all its ancestors are real directories
(no symlink among them: the link lands where its name says).  `PrefixFS.Symlink` tested `o` lexically
from that directory.  If on the resulting disk the text `o`, applied lexically from there, never stands
on a symlink while a `..` still lies ahead (`LexOK`; forced: `symlink_escapes_through_target_link`),
then the lexical test IS the physical one: followed by the kernel from the link's directory — with any
`..`-free remainder, fuel, hop count, also when the walk after the last `..` runs through other (tame)
links or through the new link again — the link leads to a key at or below the prefix, dangles inside,
or fails.  Moreover every name given to PrefixFS still resolves at or below the prefix on the new
disk (which is no longer `Tame`). -/
theorem symlink_with_dotdot_points_inside_linkfree_parent_partial (pk : Key) (hpk : PKey pk) (m : MFS)
    (hd : PrefDirs pk m) (ht : Tame pk m) (o n : Path) (x : Key) (hx : PKey x)
    (hn : PrefixFS.prefixPath (kp pk) n = .ok (kp (pk ++ x))) (hrel : isAbs o = false)
    (hanc : ∀ p, p <+: pk ++ x → p ≠ pk ++ x → ∃ mt, m.get p = some (.dir mt))
    (hok : ((prefixFS (kp pk) osfs).call m (.symlink o n)).2 = .ok .unit)
    (hlex : LexOK ((prefixFS (kp pk) osfs).call m (.symlink o n)).1 (pk ++ x).dropLast (splitSep o) = true) :
    m.get (pk ++ x) = none ∧
    (∃ mt, ((prefixFS (kp pk) osfs).call m (.symlink o n)).1.get (pk ++ x) = some (.link o mt)) ∧
    pk <+: F16.lexK (pk ++ x).dropLast (splitSep o) ∧
    (∀ (f : Bool) (fuel hops : Nat) (rest : List Name), dotdot ∉ rest →
      ∃ K', pk <+: K' ∧
        NC ((prefixFS (kp pk) osfs).call m (.symlink o n)).1 K'
          (MFS.walk ((prefixFS (kp pk) osfs).call m (.symlink o n)).1 f fuel hops (pk ++ x).dropLast
            (splitSep o ++ rest))) ∧
    (∀ (y : Key) (t : Path) (f : Bool), PKey y → TextOf t (pk ++ y) →
      ∃ K', pk <+: K' ∧
        NC ((prefixFS (kp pk) osfs).call m (.symlink o n)).1 K'
          (MFS.namei ((prefixFS (kp pk) osfs).call m (.symlink o n)).1 t f)) := by
  have hKp := hpk.append hx
  cases htr : PrefixFS.translate (kp pk) (.symlink o n) with
  | error e =>
    rw [(os_confined_with_inside_links_partial pk hpk m hd ht (.symlink o n)).2 e htr] at hok
    cases hok
  | ok c' =>
    have hc' : c' = .symlink o (kp (pk ++ x)) := by
      simp only [PrefixFS.translate, bind, Except.bind, hn, hrel, Bool.false_eq_true, if_false, pure,
        Except.pure] at htr
      split at htr
      · cases htr
      · cases htr; rfl
    subst hc'
    have hk := translate_keyCall hpk htr
    rcases prefix_call_cases hpk m (.symlink o n) with ⟨e, he, _⟩ | ⟨c'', _, he, hc⟩
    · rw [htr] at he; cases he
    · rw [htr] at he
      cases he
      rw [hc] at hok hlex ⊢
      have e0 : (osCall m (.symlink o (kp (pk ++ x)))).1 = (m.symlink o (kp (pk ++ x))).1 := rfl
      simp only [e0] at hlex ⊢
      obtain ⟨mtp, hlive⟩ := prefDirs_live hd
      have hroot : (m.get []).isSome := by
        obtain ⟨mt0, h0⟩ := hd [] List.nil_prefix
        rw [h0]; rfl
      have hN := namei_nc_of_dirs (m := m) hKp (TextOf.kp (pk ++ x)) hanc hroot
      have hu : (m.symlink o (kp (pk ++ x))).2 = .ok () := by
        simp only [osCall, liftU, map_post_unit] at hok
        exact map_unit_ok hok
      obtain ⟨h1, mt, h2⟩ := symlink_ok o hN hu
      have hat := at_symlink o hN
      have hKne : pk ++ x ≠ [] := by
        intro e
        rw [e] at h1
        rw [h1] at hroot
        cases hroot
      have hKpk : pk ++ x ≠ pk := by
        intro e
        rw [e, hlive] at h1
        cases h1
      -- the new disk: `m` with the link at `pk ++ x` and its directory stamped
      have hm' : ∀ k, k ≠ pk ++ x → (∃ mt0, m.get k = some (.dir mt0)) →
          ∃ mt0, (m.symlink o (kp (pk ++ x))).1.get k = some (.dir mt0) := by
        intro k hk1 hdir
        by_cases hk2 : k = (pk ++ x).dropLast
        · rw [hk2] at hdir ⊢
          exact (hat.par hKne).dir.mpr hdir
        · have := hat.other k hk1 hk2
          rw [this]; exact hdir
      have hlive' : ((m.symlink o (kp (pk ++ x))).1.get pk).isSome :=
        pk_stays (by rw [hlive]; rfl) hat (keep_symlink o hN)
      have hd' : PrefDirs pk (m.symlink o (kp (pk ++ x))).1 := osCall_prefDirs hpk hd ht hk hlive'
      have hbut : TameBut pk (m.symlink o (kp (pk ++ x))).1 (pk ++ x) o := by
        intro k t mt0 hkp hl
        by_cases hk1 : k = pk ++ x
        · right
          rw [hk1] at hl
          have h2' : (m.symlink o (kp (pk ++ x))).1.get (pk ++ x) = some (.link o mt) := h2
          rw [h2'] at hl
          cases hl
          exact ⟨hk1, rfl⟩
        · left
          by_cases hk2 : k = (pk ++ x).dropLast
          · exfalso
            obtain ⟨mt0', hp⟩ := hanc _ (dropLast_prefix _) (D.dropLast_ne_self hKne)
            obtain ⟨mt1, hq⟩ := hm' _ (D.dropLast_ne_self hKne) ⟨mt0', hp⟩
            rw [hk2, hq] at hl
            cases hl
          · rw [hat.other k hk1 hk2] at hl
            exact ht k t mt0 hkp hl
      have hin : pk <+: F16.lexK (pk ++ x).dropLast (splitSep o) := by
        have hw := symlink_target_confined_partial (kp pk) o n o (kp (pk ++ x)) htr (Or.inl (isRooted_kp pk))
        rw [toAbsSymlink_rel hKp hrel] at hw
        exact within_kp hpk (F16.lexK_pkey _ _ hKp.dropLast (fun c hc => splitSep_sepfree o c hc)) hw
      have hsp : Special pk (m.symlink o (kp (pk ++ x))).1 (pk ++ x) o := by
        refine ⟨hrel, ?_, hlex, hin⟩
        intro p hp
        have hpK : p ≠ pk ++ x := by
          intro e
          have := hp.length_le
          rw [e, List.length_dropLast] at this
          have := List.length_pos_iff.mpr hKne
          omega
        exact hm' p hpK (hanc p (hp.trans (dropLast_prefix _)) hpK)
      refine ⟨h1, ⟨mt, h2⟩, hin, ?_, ?_⟩
      · intro f fuel hops rest hrest
        exact special_link_resolves_inside hd' hbut hsp f fuel hops rest hrest
      · intro y t f hy hty
        exact namei_inside_but hpk hd' hbut hsp hy hty f

/-! ## non-vacuity: a prefix directory with files, tame links and a sub-directory; a secret outside -/

def fm (mode : Nat) : Meta := { mode := mode, uid := 0, gid := 0, mtime := .old 0 }

/-- `/`, `/P` (the prefix) with `/P/f` (file), `/P/d` (directory), `/P/d/g` (file), `/P/l -> d` (relative
link), `/P/q -> /P/d/g` (absolute link through the prefix); outside: `/secret` with content `s`, `/etc` -/
def roomDisk (s : String) : MFS := ofList
  [([], .dir exMeta), ([['P']], .dir exMeta),
   ([['P'], ['f']], .file "data" (fm 0o644)),
   ([['P'], ['d']], .dir exMeta),
   ([['P'], ['d'], ['g']], .file "more" (fm 0o600)),
   ([['P'], ['l']], .link "d".toList (fm 0o777)),
   ([['P'], ['q']], .link "/P/d/g".toList (fm 0o777)),
   (["secret".toList], .file s (fm 0o600)),
   (["etc".toList], .dir exMeta)]

theorem roomDisk_ok (s : String) :
    PrefDirs [['P']] (roomDisk s) ∧ Tame [['P']] (roomDisk s) ∧ DomSup (roomDisk s) :=
  ⟨prefDirs_check rfl, tame_check rfl, domSup_ofList _ _⟩

/-- two such disks differ only outside the prefix -/
theorem roomDisk_agree (s1 s2 : String) : Agree [['P']] (roomDisk s1) (roomDisk s2) :=
  ⟨agreeIn_check rfl, rfl⟩

example : roomDisk "s1" ≠ roomDisk "another secret" := by
  intro h
  have := congrArg (fun m => m.get ["secret".toList]) h
  revert this
  decide

/-- P05.1 instantiated: whatever the secret is, `Open("/l")` (through the link: the directory `/P/d`),
`Open("/q")` (through the absolute link: the file `/P/d/g`), `Stat("/l/g")`, `Readlink("/q")` observe
the same; a name that climbs is clamped at the prefix, one that would leave it is refused -/
example (s1 s2 : String) (c : Call) (hc : ReadOnly c) :
    observe [['P']] (roomDisk s1) c = observe [['P']] (roomDisk s2) c :=
  (os_confined_reads_partial [['P']] (by decide) _ _ (roomDisk_ok s1).1 (roomDisk_ok s2).1 (roomDisk_ok s1).2.1
    (roomDisk_ok s1).2.2 (roomDisk_ok s2).2.2 (roomDisk_agree s1 s2).get c hc).1

example :
    (observe [['P']] (roomDisk "s1") (.open_ "/l".toList)).through.map (·.2.2) = some (.ok [['g']]) ∧
    (observe [['P']] (roomDisk "s1") (.open_ "/q".toList)).through.map (·.1) = some (.ok "more") ∧
    (observe [['P']] (roomDisk "s1") (.readlink "/q".toList)).ret = .ok (.str "/d/g".toList) ∧
    (observe [['P']] (roomDisk "s1") (.open_ "/../secret".toList)).ret = .error .notExist ∧
    (observe [['P']] (roomDisk "s1") (.open_ "../secret".toList)).ret = .error .perm := by decide +kernel

/-- P05.2 instantiated: a history with a directory, links (absolute and relative), a file created
through a link, a rename, a listing, a removal through a `..` spelling -/
def roomHistory : List Call :=
  [.mkdir "/n".toList 0o755, .symlink "/d".toList "/n/k".toList, .create "/n/k/h".toList,
   .open_ "/l".toList, .symlink "d/h".toList "/r".toList, .rename "/f".toList "/n/f2".toList,
   .open_ "/r".toList, .readlink "/n/k".toList, .removeAll "/d/../d/g".toList, .open_ "/n/../d".toList]

theorem roomHistory_ok :
    (∀ c ∈ roomHistory, TameCall c) ∧ PrefixSurvives [['P']] (roomDisk "s1") roomHistory := by
  refine ⟨by decide, ?_⟩
  simp only [roomHistory, PrefixSurvives]
  decide +kernel

/-- whatever the secret on the second disk: same observations along the history, the secret (and
everything else outside) untouched on both -/
example (s2 : String) :
    obsCalls [['P']] (roomDisk "s1") roomHistory = obsCalls [['P']] (roomDisk s2) roomHistory ∧
    (runCalls [['P']] (roomDisk s2) roomHistory).get ["secret".toList] = some (.file s2 (fm 0o600)) := by
  obtain ⟨h1, _, h3, _⟩ := os_confined_history_reads_writes_partial [['P']] (by decide) roomHistory
    (roomDisk "s1") (roomDisk s2) (roomDisk_ok _).1 (roomDisk_ok _).1 (roomDisk_ok _).2.1 (roomDisk_ok _).2.2
    (roomDisk_ok _).2.2 (roomDisk_agree _ _) roomHistory_ok.1 roomHistory_ok.2
  exact ⟨h1, h3 _ (by decide)⟩

/-- the history is not trivial: every call returns nil/ok, the file created through the link `/n/k`
is listed in `/d`, the link `/r -> d/h` reads it -/
example :
    (obsCalls [['P']] (roomDisk "s1") roomHistory).all (fun o => o.ret.toBool) = true ∧
    ((obsCalls [['P']] (roomDisk "s1") roomHistory).getLast?.bind (·.through)).map (·.2.2) = some (.ok [['h']]) := by
  decide +kernel

/-- P05.2 with handle writes instantiated: create a file through the link `/l` and write to it,
overwrite two bytes of `/f`, read the new file back under its physical name -/
def roomActs : List Act :=
  [.write (.create "/l/new".toList) 0 "hello", .write (.openFile "/f".toList O_RDWR 0) 2 "XY",
   .call (.open_ "/d/new".toList)]

theorem roomActs_ok :
    (∀ a ∈ roomActs, TameCall a.theCall) ∧ SurvivesActs [['P']] (roomDisk "s1") roomActs := by
  refine ⟨by decide, ?_⟩
  simp only [roomActs, SurvivesActs]
  decide +kernel

example (s2 : String) :
    obsActs [['P']] (roomDisk "s1") roomActs = obsActs [['P']] (roomDisk s2) roomActs ∧
    (runActs [['P']] (roomDisk s2) roomActs).get ["secret".toList] = some (.file s2 (fm 0o600)) := by
  obtain ⟨h1, _, h3, _⟩ := os_confined_acts_reads_writes_partial [['P']] (by decide) roomActs
    (roomDisk "s1") (roomDisk s2) (roomDisk_ok _).1 (roomDisk_ok _).1 (roomDisk_ok _).2.1 (roomDisk_ok _).2.2
    (roomDisk_ok _).2.2 (roomDisk_agree _ _) roomActs_ok.1 roomActs_ok.2
  exact ⟨h1, h3 _ (by decide)⟩

example :
    (obsActs [['P']] (roomDisk "s1") roomActs).map (fun o => o.1.through.map (·.1))
      = [some (.ok "hello"), some (.ok "daXY"), some (.ok "hello")] ∧
    (obsActs [['P']] (roomDisk "s1") roomActs).map (·.2) = [some (.ok ()), some (.ok ()), none] := by
  decide +kernel

/-- P05.3 instantiated: `Symlink("/d/g", "/n1")` (absolute: stored as `/P/d/g`) and `Symlink("l/g", "/n2")`
(relative, through the link `/P/l`) succeed on `roomDisk`, so the theorem applies; followed by the
kernel, both lead to the file `/P/d/g` -/
example :
    let fs := prefixFS (kp [['P']]) osfs
    (fs.call (roomDisk "s1") (.symlink "/d/g".toList "/n1".toList)).2 = .ok .unit ∧
    (fs.call (roomDisk "s1") (.symlink "l/g".toList "/n2".toList)).2 = .ok .unit ∧
    (fs.call (roomDisk "s1") (.symlink "/d/g".toList "/n1".toList)).1.get [['P'], ['n', '1']]
      = some (.link "/P/d/g".toList { mode := 0o777, uid := 0, gid := 0, mtime := .fresh }) ∧
    (observe [['P']] (fs.call (roomDisk "s1") (.symlink "/d/g".toList "/n1".toList)).1 (.open_ "/n1".toList)).through.map (·.1)
      = some (.ok "more") ∧
    (observe [['P']] (fs.call (roomDisk "s1") (.symlink "l/g".toList "/n2".toList)).1 (.open_ "/n2".toList)).through.map (·.1)
      = some (.ok "more") := by decide +kernel

example : ∃ K o' mt, [['P']] <+: K ∧
    ((prefixFS (kp [['P']]) osfs).call (roomDisk "s1") (.symlink "l/g".toList "/n2".toList)).1.get K
      = some (.link o' mt) ∧ TameTarget [['P']] o' := by
  obtain ⟨K, o', mt, h1, _, _, h4, h5, _⟩ := symlink_created_points_inside_partial [['P']] (by decide)
    (roomDisk "s1") (roomDisk_ok _).1 (roomDisk_ok _).2.1 "l/g".toList "/n2".toList (by decide) (by decide +kernel)
  exact ⟨K, o', mt, h1, h4, h5⟩

/-! ## the hypothesis `Tame` is forced for the read half too (kernel-checked)

`leakDisk s`: the prefix `/P` holds two symlinks that were not made through PrefixFS — `/P/l -> ../secret`
(a `..` in the target) and `/P/a -> /secret` (absolute, not through the prefix); outside, `/secret` with
content `s`.  Two such disks satisfy every other hypothesis of P05.1 and differ only outside the prefix,
yet `Open`+`Read` and `Stat` through PrefixFS tell them apart: the secret is read. -/

def leakDisk (s : String) : MFS := ofList
  [([], .dir exMeta), ([['P']], .dir exMeta),
   ([['P'], ['l']], .link "../secret".toList (fm 0o777)),
   ([['P'], ['a']], .link "/secret".toList (fm 0o777)),
   (["secret".toList], .file s (fm 0o600))]

theorem leakDisk_other_hyps (s1 s2 : String) :
    PrefDirs [['P']] (leakDisk s1) ∧ PrefDirs [['P']] (leakDisk s2) ∧ DomSup (leakDisk s1) ∧ DomSup (leakDisk s2) ∧
    (∀ K, [['P']] <+: K → (leakDisk s1).get K = (leakDisk s2).get K) :=
  ⟨prefDirs_check rfl, prefDirs_check rfl, domSup_ofList _ _, domSup_ofList _ _, agreeIn_check rfl⟩

theorem leakDisk_untame (s : String) : ¬ Tame [['P']] (leakDisk s) := by
  intro h
  have := h [['P'], ['l']] "../secret".toList (fm 0o777) ⟨[['l']], rfl⟩ rfl
  revert this
  decide

theorem read_escapes_through_link :
    (observe [['P']] (leakDisk "top") (.open_ "/l".toList)).through.map (·.1) = some (.ok "top") ∧
    (observe [['P']] (leakDisk "other!") (.open_ "/l".toList)).through.map (·.1) = some (.ok "other!") ∧
    (observe [['P']] (leakDisk "top") (.open_ "/a".toList)).through.map (·.1) = some (.ok "top") ∧
    observe [['P']] (leakDisk "top") (.stat "/a".toList) ≠ observe [['P']] (leakDisk "other!") (.stat "/a".toList) ∧
    observe [['P']] (leakDisk "top") (.open_ "/l".toList) ≠ observe [['P']] (leakDisk "other!") (.open_ "/l".toList) := by
  decide +kernel

/-- the same through PrefixFS calls ONLY, from a link-free disk (an empty prefix directory `/P`, and
`/secret` outside): `Mkdir("/a")`, `Symlink("../secret", "/a/l")` (lexically `/P/secret`: accepted),
`Rename("/a/l", "/l")`, `Open("/l")` — all return nil, and the content read is the secret.  The
`Symlink` call is the one `TameCall` rejects (route "relocation" of finding K-prefix-lexical-links). -/
def secretDisk (s : String) : MFS := ofList
  [([], .dir exMeta), ([['P']], .dir exMeta), (["secret".toList], .file s (fm 0o600))]

theorem read_escapes_after_rename :
    let cs : List Call := [.mkdir "/a".toList 0o755, .symlink "../secret".toList "/a/l".toList,
      .rename "/a/l".toList "/l".toList, .open_ "/l".toList]
    (obsCalls [['P']] (secretDisk "top") cs).all (fun o => o.ret.toBool) = true ∧
    ((obsCalls [['P']] (secretDisk "top") cs).getLast?.bind (·.through)).map (·.1) = some (.ok "top") ∧
    obsCalls [['P']] (secretDisk "top") cs ≠ obsCalls [['P']] (secretDisk "other!") cs ∧
    ¬ TameCall (.symlink "../secret".toList "/a/l".toList) := by
  decide +kernel

example (s1 s2 : String) : Tame [['P']] (secretDisk s1) ∧ Agree [['P']] (secretDisk s1) (secretDisk s2) :=
  ⟨tame_check rfl, agreeIn_check rfl, rfl⟩

/-! ## the `..` case: instances, and the forced hypothesis -/

/-- `Symlink("../l/g", "/d/up")` on `roomDisk`: lexically `/P/d/../l/g = /P/l/g`, accepted; the link's
directory `/P/d` and its ancestors are directories; after the `..` the text runs through the tame link
`/P/l -> d`: allowed.  `Symlink("../../P/f", "/d/out")`: the text climbs to `/` and comes back through
the prefix's own name: lexically `/P/f`, accepted, and physically the same. -/
example :
    let fs := prefixFS (kp [['P']]) osfs
    (fs.call (roomDisk "s1") (.symlink "../l/g".toList "/d/up".toList)).2 = .ok .unit ∧
    LexOK (fs.call (roomDisk "s1") (.symlink "../l/g".toList "/d/up".toList)).1 [['P'], ['d']]
      (splitSep "../l/g".toList) = true ∧
    (observe [['P']] (fs.call (roomDisk "s1") (.symlink "../l/g".toList "/d/up".toList)).1
      (.open_ "/d/up".toList)).through.map (·.1) = some (.ok "more") ∧
    (fs.call (roomDisk "s1") (.symlink "../../P/f".toList "/d/out".toList)).2 = .ok .unit ∧
    LexOK (fs.call (roomDisk "s1") (.symlink "../../P/f".toList "/d/out".toList)).1 [['P'], ['d']]
      (splitSep "../../P/f".toList) = true ∧
    (observe [['P']] (fs.call (roomDisk "s1") (.symlink "../../P/f".toList "/d/out".toList)).1
      (.open_ "/d/out".toList)).through.map (·.1) = some (.ok "data") := by decide +kernel

example : [['P']] <+: F16.lexK [['P'], ['d']] (splitSep "../l/g".toList) :=
  (symlink_with_dotdot_points_inside_linkfree_parent_partial [['P']] (by decide) (roomDisk "s1")
    (roomDisk_ok _).1 (roomDisk_ok _).2.1 "../l/g".toList "/d/up".toList [['d'], ['u', 'p']] (by decide)
    (by decide +kernel) (by decide) (properDirs_check (by decide +kernel)) (by decide +kernel)
    (by decide +kernel)).2.2.1

/-- the hypothesis `LexOK` is forced, even when the link's directory has no symlink among its
ancestors (third route of finding K-prefix-lexical-links, PrefixFS calls only, from an empty prefix
directory): `Mkdir("/d")`, `Symlink("/", "/d/e")` (stored as `/P`: tame), `Symlink("e/../x", "/d/l")`
(lexically `/P/d/x`: accepted; physically `e` leads to `/P`, `..` to `/`, so the target is `/x`),
`Create("/d/l")`: all return nil and the file `/x` appears outside the prefix. -/
theorem symlink_escapes_through_target_link :
    let r := runP emptyPrefixDisk
      [.mkdir "/d".toList 0o755, .symlink "/".toList "/d/e".toList, .symlink "e/../x".toList "/d/l".toList,
       .create "/d/l".toList]
    let m3 := (runP emptyPrefixDisk
      [.mkdir "/d".toList 0o755, .symlink "/".toList "/d/e".toList, .symlink "e/../x".toList "/d/l".toList]).1
    r.2 = true ∧ emptyPrefixDisk.get [['x']] = none ∧ (r.1.get [['x']]).isSome ∧
    m3.get [['P'], ['d']] = some (.dir { mode := 0o755, uid := 0, gid := 0, mtime := .fresh }) ∧
    m3.get [['P'], ['d'], ['e']] = some (.link "/P".toList { mode := 0o777, uid := 0, gid := 0, mtime := .fresh }) ∧
    LexOK m3 [['P'], ['d']] (splitSep "e/../x".toList) = false := by decide +kernel

end Props.C05
