import Props.C17
import Props.C01L
import Props.C01G
import Lemmas.LForceHist
import Lemmas.LForceG
/-!
# C17 (symlinks as leaves) — ForceBackup re-baselines a path that is, was or becomes a symlink

Main theorem (`forceBackup_rebaselines_symlink_leaves_partial`): for the OS model behind two
`PrefixFS` layers, every well-formed disk whose base and backup subtrees may contain **symlinks (any
target text) as leaves**, every covered history `ops₁` (`L.Op.Covered`: the fragment of
`Props.C01L.rollback_restores_symlink_leaves_partial`, which includes `Symlink`, `Remove`/`Rename` of a
symlink, `Lchown`, …), a *successful* `ForceBackup(p)` for a path `p` that was not a directory when the
transaction began and is not one at the moment of the call — it may be a regular file, **a symlink**,
or absent, at either moment —, whose parent directory predates the transaction, and every covered
history `ops₂` after it: the later Rollback leaves `p` as it was at the moment of the ForceBackup
call, and every other entry of the base below its root as it was when the transaction began.

"As it was" is equality of the base view (`L.eraseV`, as in C01L): regular files exactly (content, all
twelve mode bits, owner, mtime); absent stays absent; a symlink is a symlink with the same target text
*as `Readlink` through the base `PrefixFS` reports it* and the same owner (a symlink's mtime and mode
bits cannot be restored: K-unclean-link-target for the text).  `forced_path_exact_unless_link` and
`forced_link_same_reported_target_and_owner` spell the two cases out.

Side conditions for links (the recorded findings, kept as hypotheses):
* `hacc` — no proper ancestor of `p`'s cleaned key is a symlink in the base at the moment of the call
  (K-link-topology: `realPath`/`tryBackup` would be redirected; the parent predates the transaction
  but may have been replaced by a symlink since);
* `hlok` — if `p` is a symlink at the moment of the call, the base `PrefixFS` admits re-creating it
  (`L.osLinkOK … .base`: K-escaping-link and its variant
  `Props.C01L.escaping_link_backed_up_but_not_restored`);
* the copy of the link must be storable in the backup: this is part of `hok` (the ForceBackup
  succeeds) — a refused copy makes `tryBackup`, hence ForceBackup, fail
  (`Props.C07.refused_link_copy_leaves_backup_clean`);
* `hbl` — start condition on the backup directory, as in C01L (holds when the backup subtree has no
  symlink); Rollback re-establishes it.

How (`Lemmas/LForce*.lean`): `tryRemoveBackup` removes the stale copy with `backup.Remove` whether it is
a regular file or a symlink (`!fi.IsDir()`), or walks a stale directory; in each case the transaction
invariant `L.Inv` — including its two link clauses — holds afterwards for the original view *re-based
at `p`*; `tryBackup` (for a symlink: `copySymlink`) and every later covered operation keep it, and
`L.sat_rollback` restores from it.
-/
namespace Props.C17
open BFS BFS.BackupFS BFS.L

theorem osViewL_isDirAt_of {bk kk : Key} {s : Side} {m : MFS} {k : Key}
    (h : (osViewL bk kk s m).isDirAt k) : ∃ mt, m.get (osRoot bk kk s ++ k) = some (.dir mt) := by
  obtain ⟨mt, hmt⟩ := h
  unfold osViewL at hmt
  cases hget : m.get (osRoot bk kk s ++ k) with
  | none => rw [hget] at hmt; cases hmt
  | some n =>
    rw [hget] at hmt
    cases n with
    | dir mt' => exact ⟨mt', rfl⟩
    | file c mt' => simp [eraseV] at hmt
    | link t mt' => simp [eraseV] at hmt

theorem osViewL_isDirAt_mk {bk kk : Key} {s : Side} {m : MFS} {k : Key} {mt : Meta}
    (h : m.get (osRoot bk kk s ++ k) = some (.dir mt)) : (osViewL bk kk s m).isDirAt k :=
  ⟨{ mt with mtime := .fresh }, by unfold osViewL; rw [h]; rfl⟩

/-- a symlink in the view is a symlink on the disk; the view shows the text `Readlink` reports -/
theorem osViewL_link_of {bk kk : Key} {s : Side} {m : MFS} {k : Key} {t : Path} {mt : Meta}
    (h : osViewL bk kk s m k = some (.link t mt)) :
    ∃ t' mt', m.get (osRoot bk kk s ++ k) = some (.link t' mt') ∧
      t = PrefixFS.readlinkPost (kp (osRoot bk kk s)) t' := by
  unfold osViewL at h
  cases hget : m.get (osRoot bk kk s ++ k) with
  | none => rw [hget] at h; cases h
  | some n =>
    rw [hget] at h
    cases n with
    | link t' mt' =>
      refine ⟨t', mt', rfl, ?_⟩
      simp only [Option.map_some, eraseV, Option.some.injEq, Node.link.injEq] at h
      exact h.1.symm
    | file c mt' => simp [eraseV] at h
    | dir mt' => simp [eraseV] at h

/-- the view erases directory timestamps and a symlink's timestamp, mode bits and unreported part of
the target text only: where one side is neither a directory nor a symlink, equal views mean equal
nodes -/
theorem eraseV_exact {pre : Path} {a b : Option Node} (h : a.map (eraseV pre) = b.map (eraseV pre))
    (hd : ∀ mt, b ≠ some (.dir mt)) (hl : ∀ t mt, b ≠ some (.link t mt)) : a = b := by
  cases b with
  | none =>
    cases a with
    | none => rfl
    | some n => simp at h
  | some n' =>
    cases a with
    | none => simp at h
    | some n =>
      cases n' with
      | dir mt => exact absurd rfl (hd mt)
      | link t mt => exact absurd rfl (hl t mt)
      | file c mt => cases n <;> simp_all [eraseV]

/-- … and where one side is a symlink, the other is a symlink with the same reported target text and
the same owner -/
theorem eraseV_link {pre : Path} {a : Option Node} {t : Path} {mt : Meta}
    (h : a.map (eraseV pre) = (some (.link t mt) : Option Node).map (eraseV pre)) :
    ∃ t' mt', a = some (.link t' mt') ∧ PrefixFS.readlinkPost pre t' = PrefixFS.readlinkPost pre t ∧
      mt'.uid = mt.uid ∧ mt'.gid = mt.gid := by
  cases a with
  | none => simp at h
  | some n =>
    cases n with
    | link t' mt' =>
      refine ⟨t', mt', rfl, ?_⟩
      simp only [Option.map_some, eraseV, Option.some.injEq, Node.link.injEq, Meta.mk.injEq] at h
      exact ⟨h.1, h.2.2.1, h.2.2.2.1⟩
    | file c mt' => simp [eraseV] at h
    | dir mt' => simp [eraseV] at h

/-- T17L.main  ForceBackup re-baselines a non-directory path — trees with symlinks as leaves; `p` may
be, have been, or become a symlink (see the header for what is excluded).  `k` is `p` as a list of
components below the base root. -/
theorem forceBackup_rebaselines_symlink_leaves_partial (bk kk : Key) (hbk : PKey bk) (hkk : PKey kk)
    (hne1 : bk ≠ []) (hne2 : kk ≠ []) (hd1 : ¬ bk <+: kk) (hd2 : ¬ kk <+: bk)
    (w : World) (hg : OSGoodL bk kk w.fs) (hinfos : w.infos = []) (hnf : w.faults = [])
    (hbl : ∀ k, (∃ t mt, w.fs.get (kk ++ k) = some (.link t mt)) → ∃ t mt, w.fs.get (bk ++ k) = some (.link t mt))
    (ops₁ ops₂ : List Op) (name : Path) (k : Key) (hk : PKey k) (hname : clean name = kp k)
    (hcov1 : L.CoveredHist (osCfg bk kk) (osSimL bk kk hbk hkk hne1 hne2 hd1 hd2) w ops₁)
    -- `p` was not a directory when the transaction began (a file, a symlink, or absent) …
    (horig : ∀ mt, w.fs.get (bk ++ k) ≠ some (.dir mt))
    -- … and is not one at the moment of the call (a file, a symlink, or absent);
    (hnow : ∀ mt, (runOps (osCfg bk kk) w ops₁).fs.get (bk ++ k) ≠ some (.dir mt))
    -- its parent directories predate the transaction;
    (hpar : k ≠ [] ∧ ∃ mt, w.fs.get (bk ++ k.dropLast) = some (.dir mt))
    -- no proper ancestor of `p` is a symlink at the moment of the call;
    (hacc : ∀ a, a <+: k → a ≠ k → ∀ t mt, (runOps (osCfg bk kk) w ops₁).fs.get (bk ++ a) ≠ some (.link t mt))
    -- if `p` is a symlink at the moment of the call, the base `PrefixFS` admits re-creating it
    -- (with the target text `Readlink` reports);
    (hlok : ∀ t mt, (runOps (osCfg bk kk) w ops₁).fs.get (bk ++ k) = some (.link t mt) →
      osLinkOK bk kk .base k (PrefixFS.readlinkPost (kp bk) t))
    -- the ForceBackup succeeds
    (hok : (Op.exec (osCfg bk kk) (.force name) (runOps (osCfg bk kk) w ops₁)).2 = .ok .unit)
    (hcov2 : L.CoveredHist (osCfg bk kk) (osSimL bk kk hbk hkk hne1 hne2 hd1 hd2)
      (Op.step (osCfg bk kk) (runOps (osCfg bk kk) w ops₁) (.force name)) ops₂) :
    -- `p` is what it was at the moment of the ForceBackup call …
    ((runTx (osCfg bk kk) w (ops₁ ++ .force name :: ops₂)).fs.get (bk ++ k)).map (eraseV (kp bk)) =
      ((runOps (osCfg bk kk) w ops₁).fs.get (bk ++ k)).map (eraseV (kp bk)) ∧
    -- … and every other path is rolled back as usual
    ∀ j, j ≠ [] → j ≠ k →
      ((runTx (osCfg bk kk) w (ops₁ ++ .force name :: ops₂)).fs.get (bk ++ j)).map (eraseV (kp bk)) =
        (w.fs.get (bk ++ j)).map (eraseV (kp bk)) := by
  have key := (L.force_in_history_rollback_full (S := osSimL bk kk hbk hkk hne1 hne2 hd1 hd2) hg hinfos hnf
    (fun j hl => Props.C01L.isLinkAt_osViewL.mpr (hbl j (Props.C01L.isLinkAt_osViewL.mp hl)))
    ops₁ ops₂ (name := name) hk hname hcov1
    (fun h => by obtain ⟨mt, hmt⟩ := osViewL_isDirAt_of h; exact horig mt hmt)
    (fun h => by obtain ⟨mt, hmt⟩ := osViewL_isDirAt_of h; exact hnow mt hmt)
    ⟨hpar.1, (by obtain ⟨mt, hmt⟩ := hpar.2; exact osViewL_isDirAt_mk (s := .base) hmt)⟩
    (fun a ha hne hl => by
      obtain ⟨t, mt, h⟩ := Props.C01L.isLinkAt_osViewL.mp hl
      exact hacc a ha hne t mt h)
    (fun t mt hv => by
      obtain ⟨t', mt', hget, rfl⟩ := osViewL_link_of hv
      exact hlok t' mt' hget)
    hok hcov2).2
  constructor
  · have := key k hpar.1
    rw [if_pos rfl] at this
    exact this
  · intro j hj hjk
    have := key j hj
    rw [if_neg hjk] at this
    exact this

/-- reading the first conclusion when `p` was a regular file or absent at the moment of the call:
Rollback leaves exactly that node (content, twelve mode bits, owner, mtime) or nothing -/
theorem forced_path_exact_unless_link {pre : Path} {final atCall : Option Node}
    (h : final.map (eraseV pre) = atCall.map (eraseV pre))
    (hd : ∀ mt, atCall ≠ some (.dir mt)) (hl : ∀ t mt, atCall ≠ some (.link t mt)) : final = atCall :=
  eraseV_exact h hd hl

/-- reading the first conclusion when `p` was a symlink at the moment of the call: Rollback leaves a
symlink whose target `Readlink` (through the base `PrefixFS`) reports as the same text, with the same
owner -/
theorem forced_link_same_reported_target_and_owner {pre : Path} {final atCall : Option Node} {t : Path} {mt : Meta}
    (h : final.map (eraseV pre) = atCall.map (eraseV pre)) (hc : atCall = some (.link t mt)) :
    ∃ t' mt', final = some (.link t' mt') ∧ PrefixFS.readlinkPost pre t' = PrefixFS.readlinkPost pre t ∧
      mt'.uid = mt.uid ∧ mt'.gid = mt.gid := by
  subst hc; exact eraseV_link h

/-- T17L.faults  the same under any fault plan: whatever failed among the operations before and
after the ForceBackup, once the filesystems are healthy again Rollback leaves every other path as it
was when the transaction began, and `p` as it was then or as it was at the moment of the call (no third
state); the latter if the ForceBackup succeeded. -/
theorem forceBackup_rebaselines_after_faults_symlink_leaves_partial (bk kk : Key) (hbk : PKey bk) (hkk : PKey kk)
    (hne1 : bk ≠ []) (hne2 : kk ≠ []) (hd1 : ¬ bk <+: kk) (hd2 : ¬ kk <+: bk)
    (w : World) (hg : OSGoodL bk kk w.fs) (hinfos : w.infos = [])
    (hbl : ∀ k, (∃ t mt, w.fs.get (kk ++ k) = some (.link t mt)) → ∃ t mt, w.fs.get (bk ++ k) = some (.link t mt))
    (ops₁ ops₂ : List Op) (name : Path) (k : Key) (hk : PKey k) (hname : clean name = kp k)
    (hcov1 : L.CoveredHist (osCfg bk kk) (osSimL bk kk hbk hkk hne1 hne2 hd1 hd2) w ops₁)
    (horig : ∀ mt, w.fs.get (bk ++ k) ≠ some (.dir mt))
    (hnow : ∀ mt, (runOps (osCfg bk kk) w ops₁).fs.get (bk ++ k) ≠ some (.dir mt))
    (hpar : k ≠ [] ∧ ∃ mt, w.fs.get (bk ++ k.dropLast) = some (.dir mt))
    (hacc : ∀ a, a <+: k → a ≠ k → ∀ t mt, (runOps (osCfg bk kk) w ops₁).fs.get (bk ++ a) ≠ some (.link t mt))
    (hlok : ∀ t mt, (runOps (osCfg bk kk) w ops₁).fs.get (bk ++ k) = some (.link t mt) →
      osLinkOK bk kk .base k (PrefixFS.readlinkPost (kp bk) t))
    (hcov2 : L.CoveredHist (osCfg bk kk) (osSimL bk kk hbk hkk hne1 hne2 hd1 hd2)
      (Op.step (osCfg bk kk) (runOps (osCfg bk kk) w ops₁) (.force name)) ops₂) :
    let final := (rollback (osCfg bk kk)
      { runOps (osCfg bk kk) w (ops₁ ++ .force name :: ops₂) with faults := [] }).1
    (∀ j, j ≠ [] → j ≠ k →
      (final.fs.get (bk ++ j)).map (eraseV (kp bk)) = (w.fs.get (bk ++ j)).map (eraseV (kp bk))) ∧
    ((final.fs.get (bk ++ k)).map (eraseV (kp bk)) = (w.fs.get (bk ++ k)).map (eraseV (kp bk)) ∨
      (final.fs.get (bk ++ k)).map (eraseV (kp bk)) =
        ((runOps (osCfg bk kk) w ops₁).fs.get (bk ++ k)).map (eraseV (kp bk))) ∧
    ((Op.exec (osCfg bk kk) (.force name) (runOps (osCfg bk kk) w ops₁)).2 = .ok .unit →
      (final.fs.get (bk ++ k)).map (eraseV (kp bk)) =
        ((runOps (osCfg bk kk) w ops₁).fs.get (bk ++ k)).map (eraseV (kp bk))) := by
  intro final
  obtain ⟨hstep, hiff⟩ := force_step (osCfg bk kk) name (runOps (osCfg bk kk) w ops₁)
  have hrun : runOps (osCfg bk kk) w (ops₁ ++ .force name :: ops₂) =
      runOps (osCfg bk kk) (forceBackup (osCfg bk kk) name (runOps (osCfg bk kk) w ops₁)).1 ops₂ := by
    rw [runOps_append, ← hstep]; rfl
  rw [hstep] at hcov2
  obtain ⟨h1, h2, h3⟩ := L.force_then_rollback_after_faults_full (S := osSimL bk kk hbk hkk hne1 hne2 hd1 hd2) hg hinfos
    (fun j hl => Props.C01L.isLinkAt_osViewL.mpr (hbl j (Props.C01L.isLinkAt_osViewL.mp hl)))
    ops₁ ops₂ (name := name) hk hname hcov1
    (fun h => by obtain ⟨mt, hmt⟩ := osViewL_isDirAt_of h; exact horig mt hmt)
    (fun h => by obtain ⟨mt, hmt⟩ := osViewL_isDirAt_of h; exact hnow mt hmt)
    ⟨hpar.1, (by obtain ⟨mt, hmt⟩ := hpar.2; exact osViewL_isDirAt_mk (s := .base) hmt)⟩
    (fun a ha hne hl => by
      obtain ⟨t, mt, h⟩ := Props.C01L.isLinkAt_osViewL.mp hl
      exact hacc a ha hne t mt h)
    (fun t mt hv => by
      obtain ⟨t', mt', hget, rfl⟩ := osViewL_link_of hv
      exact hlok t' mt' hget)
    hcov2
  rw [← hrun] at h1 h2 h3
  exact ⟨h1, h2, fun hok => h3 (hiff.mp hok)⟩

/-- T17L.many  any number of (successful) ForceBackups in one history, also of the same path, of
files, symlinks and absent paths: after Rollback a path no ForceBackup worked on is as it was when the
transaction began, and a forced path is as it was at the moment of its *last* ForceBackup.
(`L.Op.CoveredF`: the covered operations of C01L plus successful ForceBackups of absolute names of
non-directory paths whose parent directory predates the transaction, not reached through a symlink,
whose symlink — if any — the base admits; `forceKey name` is the path as a list of components.) -/
theorem forceBackup_rebaselines_many_symlink_leaves_partial (bk kk : Key) (hbk : PKey bk) (hkk : PKey kk)
    (hne1 : bk ≠ []) (hne2 : kk ≠ []) (hd1 : ¬ bk <+: kk) (hd2 : ¬ kk <+: bk)
    (w : World) (hg : OSGoodL bk kk w.fs) (hinfos : w.infos = []) (hnf : w.faults = [])
    (hbl : ∀ k, (∃ t mt, w.fs.get (kk ++ k) = some (.link t mt)) → ∃ t mt, w.fs.get (bk ++ k) = some (.link t mt))
    (ops : List Op)
    (hcov : L.CoveredHistF (osCfg bk kk) (osSimL bk kk hbk hkk hne1 hne2 hd1 hd2) (osViewL bk kk .base w.fs) w ops) :
    (∀ j, j ≠ [] → (∀ name, Op.force name ∈ ops → forceKey name ≠ j) →
      ((runTx (osCfg bk kk) w ops).fs.get (bk ++ j)).map (eraseV (kp bk)) =
        (w.fs.get (bk ++ j)).map (eraseV (kp bk))) ∧
    (∀ ops₁ name ops₂, ops = ops₁ ++ .force name :: ops₂ →
      (∀ name', Op.force name' ∈ ops₂ → forceKey name' ≠ forceKey name) →
      ((runTx (osCfg bk kk) w ops).fs.get (bk ++ forceKey name)).map (eraseV (kp bk)) =
        ((runOps (osCfg bk kk) w ops₁).fs.get (bk ++ forceKey name)).map (eraseV (kp bk))) :=
  L.forces_then_rollback (S := osSimL bk kk hbk hkk hne1 hne2 hd1 hd2) hg hinfos hnf
    (fun j hl => Props.C01L.isLinkAt_osViewL.mpr (hbl j (Props.C01L.isLinkAt_osViewL.mp hl))) ops hcov

/-! ### non-vacuity: a symlink that is re-targeted, forced, changed again, rolled back -/

abbrev cfgF := osCfg [['b']] [['k']]
/-- `L.exDiskL`: `/b/f` a file, `/b/d` a directory, `/b/l -> "f"` a symlink; backup root `/k` empty -/
def wF0 : World := { fs := exDiskL }
/-- re-target the link: `Remove("/l")`, `Symlink("d", "/l")` -/
def opsF1 : List Op := [.remove "/l".toList, .symlink "d".toList "/l".toList]
/-- change it again: remove the link and create a regular file in its place -/
def opsF2 : List Op := [.remove "/l".toList, .creat "/l".toList "zz"]
def wF1 := Op.step cfgF wF0 (.remove "/l".toList)
def wF2 := runOps cfgF wF0 opsF1
def wF3 := Op.step cfgF wF2 (.force "//l/".toList)
def wF4 := Op.step cfgF wF3 (.remove "/l".toList)

/-- a proper prefix of a one-element list is empty -/
theorem top_prefix_nil {α} {a : List α} {n : α} (ha : a <+: [n]) (hne : a ≠ [n]) : a = [] := by
  have ha' : a <+: [] ++ [n] := ha
  rcases prefix_snoc_iff.mp ha' with h' | h'
  · exact List.prefix_nil.mp h'
  · exact absurd h' hne

def notLink : Option Node → Bool
  | some (.link _ _) => false
  | _ => true

theorem notLink_spec {x : Option Node} (h : notLink x = true) : ∀ t mt, x ≠ some (.link t mt) := by
  intro t mt e; subst e; cases h

theorem top_noLinkAnc_disk {m : MFS} {bk : Key} {n : Name} (hroot : isDirB (m.get (bk ++ [])) = true) :
    ∀ a, a <+: [n] → a ≠ [n] → ∀ t mt, m.get (bk ++ a) ≠ some (.link t mt) := by
  intro a ha hne t mt h
  have ha' : a <+: [] ++ [n] := ha
  rcases prefix_snoc_iff.mp ha' with h' | h'
  · have := List.prefix_nil.mp h'
    subst this
    rw [h] at hroot; cases hroot
  · exact hne h'

set_option maxRecDepth 100000 in
/-- every hypothesis of `forceBackup_rebaselines_symlink_leaves_partial` holds of the disk
`L.exDiskL` (`/b/l -> "f"`) and the history: re-target the link to `"d"` (Remove + Symlink),
`ForceBackup("//l/")` (the stale copy `/k/l -> "f"` is a symlink: `backup.Remove`, then `copySymlink`),
remove the link and create a regular file in its place -/
example :
    OSGoodL [['b']] [['k']] wF0.fs ∧ wF0.infos = [] ∧ wF0.faults = [] ∧
    (∀ k, (∃ t mt, wF0.fs.get ([['k']] ++ k) = some (.link t mt)) → ∃ t mt, wF0.fs.get ([['b']] ++ k) = some (.link t mt)) ∧
    PKey [['l']] ∧ clean "//l/".toList = kp [['l']] ∧
    L.CoveredHist cfgF osSimL_example wF0 opsF1 ∧
    (∀ mt, wF0.fs.get ([['b']] ++ [['l']]) ≠ some (.dir mt)) ∧
    (∀ mt, (runOps cfgF wF0 opsF1).fs.get ([['b']] ++ [['l']]) ≠ some (.dir mt)) ∧
    ([['l']] ≠ [] ∧ ∃ mt, wF0.fs.get ([['b']] ++ [['l']].dropLast) = some (.dir mt)) ∧
    (∀ a, a <+: [['l']] → a ≠ [['l']] → ∀ t mt, (runOps cfgF wF0 opsF1).fs.get ([['b']] ++ a) ≠ some (.link t mt)) ∧
    (∀ t mt, (runOps cfgF wF0 opsF1).fs.get ([['b']] ++ [['l']]) = some (.link t mt) →
      osLinkOK [['b']] [['k']] .base [['l']] (PrefixFS.readlinkPost (kp [['b']]) t)) ∧
    (Op.exec cfgF (.force "//l/".toList) (runOps cfgF wF0 opsF1)).2 = .ok .unit ∧
    L.CoveredHist cfgF osSimL_example (Op.step cfgF (runOps cfgF wF0 opsF1) (.force "//l/".toList)) opsF2 := by
  have hKl : PKey [['l']] := by decide
  have hcl : clean "/l".toList = kp [['l']] := by decide
  have hokf : osSimL_example.LinkOK .base [['l']] ['f'] := Or.inr (by decide +kernel)
  have hokd : osSimL_example.LinkOK .base [['l']] ['d'] := Or.inr (by decide +kernel)
  have hnow : (runOps cfgF wF0 opsF1).fs.get ([['b']] ++ [['l']]) =
      some (.link ['d'] { mode := 0o777, uid := 0, gid := 0, mtime := .fresh }) := by decide +kernel
  refine ⟨osGoodL_example, rfl, rfl, ?_, hKl, (by decide), ⟨?_, ?_, trivial⟩, ?_, ?_, ⟨(by decide), ⟨_, rfl⟩⟩, ?_, ?_, ?_,
    ⟨?_, ?_, trivial⟩⟩
  · rintro k ⟨t, mt, h⟩
    exfalso
    rcases exDiskL_live h with ⟨e, _⟩ | ⟨e, _⟩ | ⟨_, e⟩ | ⟨e, _⟩ | ⟨e, _⟩ | ⟨e, _⟩
    · cases e
    · simp at e
    · cases e
    · simp at e
    · simp at e
    · simp at e
  · -- Remove("/l"): the path is a symlink that the base admits
    refine ⟨by decide, by decide, Props.C01L.covered_key hKl hcl ⟨Props.C01L.noLinkAnc_top ⟨Props.C01L.rootE, by decide +kernel⟩, ?_⟩⟩
    intro t mt hv
    have : osSimL_example.view .base wF0.fs [['l']] = some (.link ['f'] { exMeta with mode := 0o777, mtime := .fresh }) := by
      decide +kernel
    have hv' := this.symm.trans hv; cases hv'; exact hokf
  · -- Symlink("d", "/l"): nothing is there any more, and nothing tracked lies below
    refine ⟨by decide, Props.C01L.covered_key hKl hcl ⟨⟨Props.C01L.noLinkAnc_top ⟨Props.C01L.rootE, by decide +kernel⟩, ?_⟩, ?_⟩⟩
    · intro t mt hv
      have : osSimL_example.view .base wF1.fs [['l']] = none := by decide +kernel
      have hv' := this.symm.trans hv; cases hv'
    · apply Props.C01L.noneBelow_of (l := ["/".toList, "/l".toList]) (by decide +kernel)
      intro p hp j hj e hpre
      simp only [List.mem_cons, List.mem_nil_iff, or_false] at hp
      rcases hp with rfl | rfl
      · have : j = [] := kp_inj hj PKey.nil e.symm
        subst this
        simp at hpre
      · exact kp_inj hj hKl e.symm
  · exact notDir_spec (by decide +kernel)
  · exact notDir_spec (by decide +kernel)
  · intro a ha hne
    have := top_prefix_nil ha hne
    subst this
    exact notLink_spec (by decide +kernel)
  · intro t mt h
    have h' := hnow.symm.trans h; cases h'
    exact Or.inr (by decide +kernel)
  · exact isOkUnit_eq (by decide +kernel)
  · -- after the ForceBackup: Remove("/l") of the link `/l -> "d"`
    refine ⟨by decide, by decide, Props.C01L.covered_key hKl hcl ⟨Props.C01L.noLinkAnc_top ⟨Props.C01L.rootE, by decide +kernel⟩, ?_⟩⟩
    intro t mt hv
    have : osSimL_example.view .base wF3.fs [['l']] = some (.link ['d'] { mode := 0o777, uid := 0, gid := 0, mtime := .fresh }) := by
      decide +kernel
    have hv' := this.symm.trans hv; cases hv'; exact hokd
  · -- Create("/l"): nothing is there, so no symlink is followed
    refine ⟨by decide, Props.C01L.covered_key hKl hcl ⟨Props.C01L.noLinkAnc_top ⟨Props.C01L.rootE, by decide +kernel⟩, ?_⟩⟩
    rintro ⟨t, mt, hv⟩
    have : osSimL_example.view .base wF4.fs [['l']] = none := by decide +kernel
    have hv' := this.symm.trans hv; cases hv'

set_option maxRecDepth 100000 in
/-- and evaluating the model on that history agrees with the theorem: when the transaction began the
link pointed to `"f"`, at the moment of the ForceBackup to `"d"`, before Rollback `/l` was a regular
file; Rollback re-creates `/l -> "d"` (not `"f"`), leaves `/f` and `/d` alone and empties the backup -/
theorem forced_link_restored_to_forced_target :
    let final := runTx cfgF wF0 (opsF1 ++ .force "//l/".toList :: opsF2)
    wF0.fs.get [['b'], ['l']] = some (.link ['f'] { exMeta with mode := 0o777 }) ∧
    wF2.fs.get [['b'], ['l']] = some (.link ['d'] { mode := 0o777, uid := 0, gid := 0, mtime := .fresh }) ∧
    -- the ForceBackup replaced the stale copy `/k/l -> "f"` by `/k/l -> "d"`
    wF2.fs.get [['k'], ['l']] = some (.link ['f'] { mode := 0o777, uid := 0, gid := 0, mtime := .fresh }) ∧
    wF3.fs.get [['k'], ['l']] = some (.link ['d'] { mode := 0o777, uid := 0, gid := 0, mtime := .fresh }) ∧
    (runOps cfgF wF3 opsF2).fs.get [['b'], ['l']] = some (.file "zz" { mode := 0o644, uid := 0, gid := 0, mtime := .fresh }) ∧
    final.fs.get [['b'], ['l']] = some (.link ['d'] { mode := 0o777, uid := 0, gid := 0, mtime := .fresh }) ∧
    final.fs.get [['b'], ['f']] = wF0.fs.get [['b'], ['f']] ∧
    final.fs.get [['k'], ['l']] = none := by
  refine ⟨by decide +kernel, by decide +kernel, by decide +kernel, by decide +kernel, by decide +kernel,
    by decide +kernel, by decide +kernel, by decide +kernel⟩

/-! ### non-vacuity, several ForceBackups -/

/-- `L.Op.CoveredF` of a ForceBackup of a top-level name from checks that can be evaluated -/
theorem coveredF_force_top {bk kk : Key} {hbk : PKey bk} {hkk : PKey kk} {hne1 : bk ≠ []} {hne2 : kk ≠ []}
    {hd1 : ¬ bk <+: kk} {hd2 : ¬ kk <+: bk} {w0 w : World} {name : Path} {n : Name}
    (hkey : forceKey name = [n]) (habs : isAbs name = true)
    (h0 : notDir (w0.fs.get (bk ++ [n])) = true) (h1 : notDir (w.fs.get (bk ++ [n])) = true)
    (hp : isDirB (w0.fs.get (bk ++ [])) = true) (hroot : isDirB (w.fs.get (bk ++ [])) = true)
    (v : Option Node) (hval : w.fs.get (bk ++ [n]) = v)
    (hlok : ∀ t mt, v = some (.link t mt) → osLinkOK bk kk .base [n] (PrefixFS.readlinkPost (kp bk) t))
    (hok : isOkUnit (Op.exec (osCfg bk kk) (.force name) w).2 = true) :
    L.Op.CoveredF (osCfg bk kk) (osSimL bk kk hbk hkk hne1 hne2 hd1 hd2) (osViewL bk kk .base w0.fs) w
      (.force name) := by
  show _ ∧ _ ∧ _ ∧ _ ∧ _ ∧ _ ∧ _
  rw [hkey]
  refine ⟨habs, ?_, ?_, ⟨by simp, ?_⟩, ?_, ?_, isOkUnit_eq hok⟩
  · intro h; obtain ⟨mt, hmt⟩ := osViewL_isDirAt_of h; exact notDir_spec h0 mt hmt
  · intro h; obtain ⟨mt, hmt⟩ := osViewL_isDirAt_of h; exact notDir_spec h1 mt hmt
  · obtain ⟨mt, hmt⟩ := isDirB_spec hp; exact osViewL_isDirAt_mk (s := .base) hmt
  · intro a ha hne hl
    obtain ⟨t, mt, h⟩ := Props.C01L.isLinkAt_osViewL.mp hl
    exact top_noLinkAnc_disk hroot a ha hne t mt h
  · intro t mt hv
    obtain ⟨t', mt', hget, rfl⟩ := osViewL_link_of hv
    exact hlok t' mt' (hval.symm.trans hget)

def opsM : List Op :=
  [.remove "/l".toList, .symlink "d".toList "/l".toList, .force "/l".toList,
   .lchown "/l".toList 5 6, .force "//l/".toList, .remove "/l".toList, .force "/n".toList, .creat "/n".toList "q"]

def wM1 := Op.step cfgF wF0 (.remove "/l".toList)
def wM2 := Op.step cfgF wM1 (.symlink "d".toList "/l".toList)
def wM3 := Op.step cfgF wM2 (.force "/l".toList)
def wM4 := Op.step cfgF wM3 (.lchown "/l".toList 5 6)
def wM5 := Op.step cfgF wM4 (.force "//l/".toList)
def wM6 := Op.step cfgF wM5 (.remove "/l".toList)
def wM7 := Op.step cfgF wM6 (.force "/n".toList)

set_option maxRecDepth 100000 in
/-- a history with three ForceBackups — two of the same symlink (re-targeted, then with another
owner), the third of a path that does not exist: every hypothesis of
`forceBackup_rebaselines_many_symlink_leaves_partial` holds -/
example :
    OSGoodL [['b']] [['k']] wF0.fs ∧ wF0.infos = [] ∧ wF0.faults = [] ∧
    L.CoveredHistF cfgF osSimL_example (osViewL [['b']] [['k']] .base wF0.fs) wF0 opsM := by
  have hKl : PKey [['l']] := by decide
  have hcl : clean "/l".toList = kp [['l']] := by decide
  have hKn : PKey [['n']] := by decide
  have hcn : clean "/n".toList = kp [['n']] := by decide
  have hokf : osSimL_example.LinkOK .base [['l']] ['f'] := Or.inr (by decide +kernel)
  have hokd : osSimL_example.LinkOK .base [['l']] ['d'] := Or.inr (by decide +kernel)
  refine ⟨osGoodL_example, rfl, rfl, ?_, ?_, ?_, ?_, ?_, ?_, ?_, ?_, trivial⟩
  · refine ⟨by decide, by decide, Props.C01L.covered_key hKl hcl ⟨Props.C01L.noLinkAnc_top ⟨Props.C01L.rootE, by decide +kernel⟩, ?_⟩⟩
    intro t mt hv
    have : osSimL_example.view .base wF0.fs [['l']] = some (.link ['f'] { exMeta with mode := 0o777, mtime := .fresh }) := by
      decide +kernel
    have hv' := this.symm.trans hv; cases hv'; exact hokf
  · refine ⟨by decide, Props.C01L.covered_key hKl hcl ⟨⟨Props.C01L.noLinkAnc_top ⟨Props.C01L.rootE, by decide +kernel⟩, ?_⟩, ?_⟩⟩
    · intro t mt hv
      have : osSimL_example.view .base wM1.fs [['l']] = none := by decide +kernel
      have hv' := this.symm.trans hv; cases hv'
    · apply Props.C01L.noneBelow_of (l := ["/".toList, "/l".toList]) (by decide +kernel)
      intro p hp j hj e hpre
      simp only [List.mem_cons, List.mem_nil_iff, or_false] at hp
      rcases hp with rfl | rfl
      · have : j = [] := kp_inj hj PKey.nil e.symm
        subst this
        simp at hpre
      · exact kp_inj hj hKl e.symm
  · -- ForceBackup("/l") of the re-targeted link
    refine coveredF_force_top (n := ['l']) (by decide) (by decide) (by decide +kernel) (by decide +kernel)
      (by decide +kernel) (by decide +kernel)
      (some (.link ['d'] { mode := 0o777, uid := 0, gid := 0, mtime := .fresh })) (by decide +kernel) ?_ (by decide +kernel)
    intro t mt h
    cases h
    exact Or.inr (by decide +kernel)
  · -- Lchown("/l", 5, 6) on the link
    refine ⟨by decide, Props.C01L.covered_key hKl hcl ⟨Props.C01L.noLinkAnc_top ⟨Props.C01L.rootE, by decide +kernel⟩, ?_⟩⟩
    intro t mt hv
    have : osSimL_example.view .base wM3.fs [['l']] =
        some (.link ['d'] { mode := 0o777, uid := 0, gid := 0, mtime := .fresh }) := by decide +kernel
    have hv' := this.symm.trans hv; cases hv'; exact hokd
  · -- ForceBackup("//l/") again: the link now belongs to 5:6
    refine coveredF_force_top (n := ['l']) (by decide) (by decide) (by decide +kernel) (by decide +kernel)
      (by decide +kernel) (by decide +kernel)
      (some (.link ['d'] { mode := 0o777, uid := 5, gid := 6, mtime := .fresh })) (by decide +kernel) ?_ (by decide +kernel)
    intro t mt h
    cases h
    exact Or.inr (by decide +kernel)
  · -- Remove("/l")
    refine ⟨by decide, by decide, Props.C01L.covered_key hKl hcl ⟨Props.C01L.noLinkAnc_top ⟨Props.C01L.rootE, by decide +kernel⟩, ?_⟩⟩
    intro t mt hv
    have : osSimL_example.view .base wM5.fs [['l']] =
        some (.link ['d'] { mode := 0o777, uid := 5, gid := 6, mtime := .fresh }) := by decide +kernel
    have hv' := this.symm.trans hv; cases hv'; exact hokd
  · -- ForceBackup("/n") of a path that does not exist
    refine coveredF_force_top (n := ['n']) (by decide) (by decide) (by decide +kernel) (by decide +kernel)
      (by decide +kernel) (by decide +kernel) none (by decide +kernel) ?_ (by decide +kernel)
    intro t mt h
    cases h
  · -- Create("/n")
    refine ⟨by decide, Props.C01L.covered_key hKn hcn ⟨Props.C01L.noLinkAnc_top ⟨Props.C01L.rootE, by decide +kernel⟩, ?_⟩⟩
    rintro ⟨t, mt, hv⟩
    have : osSimL_example.view .base wM7.fs [['n']] = none := by decide +kernel
    have hv' := this.symm.trans hv; cases hv'

set_option maxRecDepth 100000 in
/-- evaluating the model on `opsM`: Rollback re-creates `/l -> "d"` owned by 5:6 (its state at the
*second* ForceBackup) and leaves `/n` absent (its state at its ForceBackup) -/
theorem many_forces_last_force_wins :
    (runTx cfgF wF0 opsM).fs.get [['b'], ['l']] = some (.link ['d'] { mode := 0o777, uid := 5, gid := 6, mtime := .fresh }) ∧
    (runTx cfgF wF0 opsM).fs.get [['b'], ['n']] = none := by
  refine ⟨by decide +kernel, by decide +kernel⟩

/-! ### the side condition `hlok` is necessary (K-escaping-link under C17) -/

set_option maxRecDepth 100000 in
/-- `Props.C01L.escDisk`: `/b/f -> ../k/c` climbs out of the base root `/b` but lands inside the
backup root `/k`.  `ForceBackup("/f")` SUCCEEDS (the backup `PrefixFS` accepts the copy), nothing else
happens, and Rollback then DELETES `/f`: it removes the link in order to re-create it, the base
`PrefixFS` refuses `Symlink("../k/c", "/f")`, Rollback reports an error and the clean-up removes the
copy too.  Every hypothesis of `forceBackup_rebaselines_symlink_leaves_partial` holds except `hlok`.
(Same root cause as `Props.C01L.escaping_link_backed_up_but_not_restored`; here no operation ever
touched the link.) -/
theorem forced_escaping_link_lost :
    let cfg := osCfg [['b']] [['k']]
    let w1 := runOps cfg { fs := Props.C01L.escDisk } [.force "/f".toList]
    let r := rollback cfg w1
    isOkUnit (Op.exec cfg (.force "/f".toList) { fs := Props.C01L.escDisk }).2 = true ∧
    (Props.C01L.escDisk.get [['b'], ['f']]).isSome = true ∧
    w1.fs.get [['b'], ['f']] = Props.C01L.escDisk.get [['b'], ['f']] ∧ (w1.fs.get [['k'], ['f']]).isSome = true ∧
    r.2 = .ok true ∧ r.1.fs.get [['b'], ['f']] = none ∧ r.1.fs.get [['k'], ['f']] = none ∧
    ¬ osLinkOK [['b']] [['k']] .base [['f']] (PrefixFS.readlinkPost (kp [['b']]) "../k/c".toList) := by
  refine ⟨by decide +kernel, by decide +kernel, by decide +kernel, by decide +kernel, by decide +kernel,
    by decide +kernel, by decide +kernel, ?_⟩
  rintro (h | h)
  · exact absurd h (by decide +kernel)
  · exact absurd h (by decide +kernel)

/-- a link whose copy the backup `PrefixFS` refuses (`/b/f -> ../x` leaves both roots): ForceBackup
FAILS — so the case is excluded by `hok`, no separate hypothesis is needed — having tracked only the
parent chain; the link itself is untouched and untracked -/
def escDisk2 : MFS where
  get := fun k =>
    if k = [] then some (.dir exMeta)
    else if k = [['b']] then some (.dir exMeta)
    else if k = [['k']] then some (.dir exMeta)
    else if k = [['b'], ['f']] then some (.link "../x".toList { exMeta with mode := 0o777 })
    else none
  dom := [[], [['b']], [['k']], [['b'], ['f']]]
  umask := 0o022

set_option maxRecDepth 100000 in
theorem refused_link_copy_fails_forceBackup :
    let cfg := osCfg [['b']] [['k']]
    let w1 := Op.step cfg { fs := escDisk2 } (.force "/f".toList)
    isOkUnit (Op.exec cfg (.force "/f".toList) { fs := escDisk2 }).2 = false ∧
    w1.infos.map (·.1) = ["/".toList] ∧
    w1.fs.get [['b'], ['f']] = escDisk2.get [['b'], ['f']] ∧ w1.fs.get [['k'], ['f']] = none := by
  refine ⟨by decide +kernel, by decide +kernel, by decide +kernel, by decide +kernel⟩

/-!
## Names THROUGH flat links (`G.*`)

`ForceBackup(name)` resolves `name` with `realPath`, like the mutators.  On a `Flat` disk (C16) the
resolved key is `G.rk bk w k` (`k` the key of the cleaned name) and none of its proper ancestors is a
symlink, so the hypothesis `hacc` of the symlink-leaves theorem disappears; the other side conditions
are stated about the RESOLVED key `r`; histories are `G.CoveredHist` (every mutating operation may
name its object through symlinked directories).
-/

open BFS.F16 in
/-- T17G.main  ForceBackup re-baselines a non-directory path named THROUGH FLAT LINKS: `r` is the key
`realPath` resolves the name to at the moment of the call; after Rollback `r` is as it was at that
moment, every other key as it was when the transaction began. -/
theorem forceBackup_rebaselines_through_flat_links_partial (bk kk : Key) (hbk : PKey bk) (hkk : PKey kk)
    (hne1 : bk ≠ []) (hne2 : kk ≠ []) (hd1 : ¬ bk <+: kk) (hd2 : ¬ kk <+: bk)
    (w : World) (hg : OSGoodL bk kk w.fs) (hinfos : w.infos = []) (hnf : w.faults = [])
    (hbl : ∀ k, (∃ t mt, w.fs.get (kk ++ k) = some (.link t mt)) → ∃ t mt, w.fs.get (bk ++ k) = some (.link t mt))
    (ops₁ ops₂ : List Op) (name : Path) (k : Key) (hk : PKey k) (hname : clean name = kp k)
    (hcov1 : G.CoveredHist (osCfg bk kk) bk (osSimL bk kk hbk hkk hne1 hne2 hd1 hd2) w ops₁)
    -- the disk is flat at the moment of the call, and `realPath` resolves `p` to `r`
    (hflat : Flat bk (runOps (osCfg bk kk) w ops₁).fs)
    (r : Key) (hr : G.rk bk (runOps (osCfg bk kk) w ops₁) k = r)
    (horig : ∀ mt, w.fs.get (bk ++ r) ≠ some (.dir mt))
    (hnow : ∀ mt, (runOps (osCfg bk kk) w ops₁).fs.get (bk ++ r) ≠ some (.dir mt))
    (hpar : r ≠ [] ∧ ∃ mt, w.fs.get (bk ++ r.dropLast) = some (.dir mt))
    (hlok : ∀ t mt, (runOps (osCfg bk kk) w ops₁).fs.get (bk ++ r) = some (.link t mt) →
      osLinkOK bk kk .base r (PrefixFS.readlinkPost (kp bk) t))
    (hok : (Op.exec (osCfg bk kk) (.force name) (runOps (osCfg bk kk) w ops₁)).2 = .ok .unit)
    (hcov2 : G.CoveredHist (osCfg bk kk) bk (osSimL bk kk hbk hkk hne1 hne2 hd1 hd2)
      (Op.step (osCfg bk kk) (runOps (osCfg bk kk) w ops₁) (.force name)) ops₂) :
    ((runTx (osCfg bk kk) w (ops₁ ++ .force name :: ops₂)).fs.get (bk ++ r)).map (eraseV (kp bk)) =
      ((runOps (osCfg bk kk) w ops₁).fs.get (bk ++ r)).map (eraseV (kp bk)) ∧
    ∀ j, j ≠ [] → j ≠ r →
      ((runTx (osCfg bk kk) w (ops₁ ++ .force name :: ops₂)).fs.get (bk ++ j)).map (eraseV (kp bk)) =
        (w.fs.get (bk ++ j)).map (eraseV (kp bk)) := by
  subst hr
  have key := (G.force_in_history_rollback_flat (hbk := hbk) (hkk := hkk) (hne1 := hne1) (hne2 := hne2)
    (hd1 := hd1) (hd2 := hd2) hg hinfos hnf
    (fun j hl => Props.C01L.isLinkAt_osViewL.mpr (hbl j (Props.C01L.isLinkAt_osViewL.mp hl)))
    ops₁ ops₂ (name := name) hk hname hcov1 hflat
    (fun h => by obtain ⟨mt, hmt⟩ := osViewL_isDirAt_of h; exact horig mt hmt)
    (fun h => by obtain ⟨mt, hmt⟩ := osViewL_isDirAt_of h; exact hnow mt hmt)
    ⟨hpar.1, (by obtain ⟨mt, hmt⟩ := hpar.2; exact osViewL_isDirAt_mk (s := .base) hmt)⟩
    (fun t mt hv => by
      obtain ⟨t', mt', hget, rfl⟩ := osViewL_link_of hv
      exact hlok t' mt' hget)
    hok hcov2).2
  constructor
  · have := key _ hpar.1
    rw [if_pos rfl] at this
    exact this
  · intro j hj hjk
    have := key j hj
    rw [if_neg hjk] at this
    exact this

open BFS.F16 in
/-- T17G.many  any number of successful ForceBackups with names through flat links
(`G.CoveredHistF`): a key no ForceBackup resolved to (`G.forcedKeys`) is as it was when the transaction
began, a forced key is as it was at the moment of the last ForceBackup that resolved to it. -/
theorem forceBackup_rebaselines_many_through_flat_links_partial (bk kk : Key) (hbk : PKey bk) (hkk : PKey kk)
    (hne1 : bk ≠ []) (hne2 : kk ≠ []) (hd1 : ¬ bk <+: kk) (hd2 : ¬ kk <+: bk)
    (w : World) (hg : OSGoodL bk kk w.fs) (hinfos : w.infos = []) (hnf : w.faults = [])
    (hbl : ∀ k, (∃ t mt, w.fs.get (kk ++ k) = some (.link t mt)) → ∃ t mt, w.fs.get (bk ++ k) = some (.link t mt))
    (ops : List Op)
    (hcov : G.CoveredHistF bk kk (osSimL bk kk hbk hkk hne1 hne2 hd1 hd2) (osViewL bk kk .base w.fs) w ops) :
    (∀ j, j ≠ [] → j ∉ G.forcedKeys bk kk w ops →
      ((runTx (osCfg bk kk) w ops).fs.get (bk ++ j)).map (eraseV (kp bk)) =
        (w.fs.get (bk ++ j)).map (eraseV (kp bk))) ∧
    (∀ ops₁ name ops₂, ops = ops₁ ++ .force name :: ops₂ →
      G.forceKeyG bk (runOps (osCfg bk kk) w ops₁) name ∉
        G.forcedKeys bk kk (Op.step (osCfg bk kk) (runOps (osCfg bk kk) w ops₁) (.force name)) ops₂ →
      ((runTx (osCfg bk kk) w ops).fs.get (bk ++ G.forceKeyG bk (runOps (osCfg bk kk) w ops₁) name)).map (eraseV (kp bk)) =
        ((runOps (osCfg bk kk) w ops₁).fs.get (bk ++ G.forceKeyG bk (runOps (osCfg bk kk) w ops₁) name)).map
          (eraseV (kp bk))) :=
  G.forces_then_rollback (hbk := hbk) (hkk := hkk) (hne1 := hne1) (hne2 := hne2) (hd1 := hd1) (hd2 := hd2)
    hg hinfos hnf
    (fun j hl => Props.C01L.isLinkAt_osViewL.mpr (hbl j (Props.C01L.isLinkAt_osViewL.mp hl))) ops hcov

/-! ### non-vacuity (flat links): the file link `/real/fl` of `Props.C16.flatDisk`, re-targeted through
`/abs -> /b/real`, forced through `/d/up -> ../d/../real`, removed through `/abs`, replaced by a file -/

open BFS.F16 Props.C16 Props.C01

def opsX1 : List Op := [.remove "/abs/fl".toList, .symlink "sub".toList "/abs/fl".toList]
def opsX2 : List Op := [.remove "/abs/fl".toList, .creat "/d/up/fl".toList "zz"]
def wX1 := Op.step cfgG wG0 (.remove "/abs/fl".toList)
def wX2 := runOps cfgG wG0 opsX1
def wX3 := Op.step cfgG wX2 (.force "/d/up/fl".toList)
def wX4 := Op.step cfgG wX3 (.remove "/abs/fl".toList)

set_option maxRecDepth 100000 in
/-- every hypothesis of `forceBackup_rebaselines_through_flat_links_partial` holds: the names
`/abs/fl` and `/d/up/fl` both resolve to the key `/real/fl` -/
example :
    OSGoodL [['b']] [['k']] wG0.fs ∧ wG0.infos = [] ∧ wG0.faults = [] ∧
    (∀ k t mt, wG0.fs.get ([['k']] ++ k) ≠ some (.link t mt)) ∧
    PKey [['d'], "up".toList, "fl".toList] ∧ clean "/d/up/fl".toList = kp [['d'], "up".toList, "fl".toList] ∧
    G.CoveredHist cfgG [['b']] osSimL_example wG0 opsX1 ∧
    Flat [['b']] (runOps cfgG wG0 opsX1).fs ∧
    G.rk [['b']] (runOps cfgG wG0 opsX1) [['d'], "up".toList, "fl".toList] = ["real".toList, "fl".toList] ∧
    (∀ mt, wG0.fs.get ([['b']] ++ ["real".toList, "fl".toList]) ≠ some (.dir mt)) ∧
    (∀ mt, (runOps cfgG wG0 opsX1).fs.get ([['b']] ++ ["real".toList, "fl".toList]) ≠ some (.dir mt)) ∧
    (["real".toList, "fl".toList] ≠ [] ∧
      ∃ mt, wG0.fs.get ([['b']] ++ ["real".toList, "fl".toList].dropLast) = some (.dir mt)) ∧
    (∀ t mt, (runOps cfgG wG0 opsX1).fs.get ([['b']] ++ ["real".toList, "fl".toList]) = some (.link t mt) →
      osLinkOK [['b']] [['k']] .base ["real".toList, "fl".toList] (PrefixFS.readlinkPost (kp [['b']]) t)) ∧
    (Op.exec cfgG (.force "/d/up/fl".toList) (runOps cfgG wG0 opsX1)).2 = .ok .unit ∧
    G.CoveredHist cfgG [['b']] osSimL_example (Op.step cfgG (runOps cfgG wG0 opsX1) (.force "/d/up/fl".toList)) opsX2 := by
  have hKa : PKey ["abs".toList, "fl".toList] := by decide
  have hca : clean "/abs/fl".toList = kp ["abs".toList, "fl".toList] := by decide
  have hKu : PKey [['d'], "up".toList, "fl".toList] := by decide
  have hcu : clean "/d/up/fl".toList = kp [['d'], "up".toList, "fl".toList] := by decide
  have hnow : (runOps cfgG wG0 opsX1).fs.get ([['b']] ++ ["real".toList, "fl".toList]) =
      some (.link "sub".toList { mode := 0o777, uid := 0, gid := 0, mtime := .fresh }) := by decide +kernel
  refine ⟨flatDisk_good, rfl, rfl, wG0_backup_clean, hKu, hcu, ⟨?_, ?_, trivial⟩, by decide +kernel, by decide +kernel,
    notDir_spec (by decide +kernel), notDir_spec (by decide +kernel), ⟨by decide, isDirB_spec (by decide +kernel)⟩, ?_,
    isOkUnit_eq (by decide +kernel), ⟨?_, ?_, trivial⟩⟩
  · -- Remove("/abs/fl"): resolved /real/fl, the file link "sub/f"
    refine ⟨by decide, by decide, flatDisk_flat, Props.C01L.covered_key hKa hca
      (G.linkOKAt_of (r := ["real".toList, "fl".toList])
        (n := some (.link "sub/f".toList { exM with mode := 0o777, mtime := .fresh }))
        (by decide +kernel) (by decide +kernel) ?_)⟩
    intro t mt h
    cases h
    exact Or.inr (by decide +kernel)
  · -- Symlink("sub", "/abs/fl"): resolved /real/fl, absent, nothing tracked below
    have hrl : G.rk [['b']] wX1 ["abs".toList, "fl".toList] = ["real".toList, "fl".toList] := by decide +kernel
    have hvl : osSimL_example.view .base wX1.fs ["real".toList, "fl".toList] = none := by decide +kernel
    refine ⟨by decide, by decide +kernel, Props.C01L.covered_key hKa hca ⟨G.linkOKAt_of hrl hvl (by intro t mt h; cases h), ?_⟩⟩
    have hnb : NoneBelow wX1 ["real".toList, "fl".toList] := G.noneBelow_of_keys
      (ks := [[], ["real".toList], ["real".toList, "fl".toList]]) (by decide +kernel) (by decide) (by decide)
    rw [← hrl] at hnb
    exact hnb
  · intro t mt h
    have h' := hnow.symm.trans h; cases h'
    exact Or.inr (by decide +kernel)
  · -- after the ForceBackup: Remove("/abs/fl") of the link `/real/fl -> "sub"`
    refine ⟨by decide, by decide, by decide +kernel, Props.C01L.covered_key hKa hca
      (G.linkOKAt_of (r := ["real".toList, "fl".toList])
        (n := some (.link "sub".toList { mode := 0o777, uid := 0, gid := 0, mtime := .fresh }))
        (by decide +kernel) (by decide +kernel) ?_)⟩
    intro t mt h
    cases h
    exact Or.inr (by decide +kernel)
  · -- Create("/d/up/fl"): resolved /real/fl, absent
    exact ⟨by decide, by decide +kernel, Props.C01L.covered_key hKu hcu
      (G.notLinkAt_of (r := ["real".toList, "fl".toList]) (n := none)
        (by decide +kernel) (by decide +kernel) (by intro t mt h; cases h))⟩

set_option maxRecDepth 100000 in
/-- the outcome, evaluated: Rollback re-creates `/real/fl -> "sub"` (its target at the ForceBackup),
not `"sub/f"` (its target when the transaction began) -/
theorem forced_link_through_flat_links_restored :
    wG0.fs.get [['b'], "real".toList, "fl".toList] = some (.link "sub/f".toList exM) ∧
    (runOps cfgG wX3 opsX2).fs.get [['b'], "real".toList, "fl".toList] =
      some (.file "zz" { mode := 0o644, uid := 0, gid := 0, mtime := .fresh }) ∧
    (runTx cfgG wG0 (opsX1 ++ .force "/d/up/fl".toList :: opsX2)).fs.get [['b'], "real".toList, "fl".toList] =
      some (.link "sub".toList { mode := 0o777, uid := 0, gid := 0, mtime := .fresh }) := by
  refine ⟨by decide +kernel, by decide +kernel, by decide +kernel⟩

end Props.C17
