import Lemmas.HLLEnd
import Props.C06D
/-!
# C06 (disk level, disks WITH SYMLINKS) — the hidden subtree is never changed by a call whose own
names do not run through a symlink

`Props/C06D.lean` proves the frame half of C06 on disks without symlinks.  "By any route" is FALSE of
the code when symlinks exist (known finding K-hidden-symlink-route: HiddenFS tests names lexically,
`/l -> hid` and `Create("/l/x")` creates `/hid/x`).  The theorem for disks with symlinks therefore
carries a hypothesis about the ROUTE of the call's own names (`Route`):

* `ancestors` — the calls that do NOT write through a final symlink (`Mkdir`, `MkdirAll`, `Remove`,
  `RemoveAll`, `Rename`, `Symlink`, `Lchown`, `OpenFile` with `O_CREATE|O_EXCL`, and the read-only
  ones): for every name of the call, the kernel's walk of the path `PrefixFS` hands to the OS — the key
  `bk ++ nameKey n`, `nameKey n` the components of the cleaned name — meets no symlink among its
  PROPER ancestors (`L.NoLinkProper`);
* `final` — the calls that WRITE THROUGH a final symlink (`HLL.followsMut`: `Create`, `OpenFile` with
  `O_CREATE` and without `O_EXCL` or with write access and `O_TRUNC`, `Chmod`, `Chown`, `Chtimes`): no
  symlink on the walk, the final component INCLUDED (`NoLinkUpto`) — OR, whatever the route, the
  kernel's following resolution of the name, by whatever chain of symlinks, ends at a key that is not
  at or below a hidden key (`HLL.EndsOutside`; a dangling link that `Create` fills in counts with the
  key it creates).  `Route.of_final_nolink` is the plain form "proper ancestors link-free, and the
  final component not a symlink when the call writes through symlinks".

`hidden_subtree_untouched_by_resolution_partial` drops the lexical route altogether for the 13 calls
that are one syscall on one name: what matters is only where the kernel's resolution ENDS.

Nothing is assumed about where symlinks are or where they point (absolute, relative, dangling,
looping, INTO a hidden subtree), nor about the hidden subtree itself; `Mkdir`, `Remove`, `Lstat`,
`Lchown`, `Readlink`, `Symlink`, `Rename` (both names) and the whole `RemoveAll` program may name a
symlink as their final component — they act on the link itself —, `MkdirAll` too (it stats through
the link but writes nothing through it); `Stat`/`Open`/read-only `OpenFile` follow a final symlink
but change nothing (they OBSERVE through it: `final_symlink_reaches_hidden`).

Both hypotheses are forced: `proper_ancestor_symlink_reaches_hidden`, `final_symlink_reaches_hidden`
(kernel-checked).  `route_built_through_hiddenfs`: a route can be built with calls that themselves
satisfy `Route` (a relative link created in a subdirectory, then renamed one level up).

The refusal half of C06 needs no hypothesis at all and is `Props.C06.hidden_outcome_independent_of_existence`
(any inner filesystem, any state): restated for this layering as `hidden_name_refused_with_links`.
-/
namespace Props.C06
open BFS BFS.D BFS.HiddenFS BFS.HLL BFS.L

/-- the route hypothesis on the names of one call, on the current disk -/
structure Route (bk : Key) (hks : List Key) (m : MFS) (c : Call) : Prop where
  /-- calls that do not write through a final symlink: no symlink among the PROPER ancestors -/
  ancestors : followsMut c = false → ∀ n ∈ c.accessPaths, NoLinkProper m (bk ++ nameKey n)
  /-- calls that do: no symlink on the way, the final component included — or, whatever the route,
  the kernel's resolution ends outside the hidden subtrees -/
  final : followsMut c = true → ∀ n ∈ c.accessPaths,
    NoLinkUpto m (bk ++ nameKey n) ∨ EndsOutside (HidDisk bk hks) m (kp (bk ++ nameKey n))

/-- the simple form of the hypothesis: no symlink among the proper ancestors of any name, and the
final component of a call that writes through symlinks is not a symlink -/
theorem Route.of_final_nolink {bk : Key} {hks : List Key} {m : MFS} {c : Call}
    (h1 : ∀ n ∈ c.accessPaths, NoLinkProper m (bk ++ nameKey n))
    (h2 : followsMut c = true → ∀ n ∈ c.accessPaths, ∀ tg mt, m.get (bk ++ nameKey n) ≠ some (.link tg mt)) :
    Route bk hks m c :=
  ⟨fun _ => h1, fun hf n hn => Or.inl (noLinkUpto_iff.mpr ⟨h1 n hn, h2 hf n hn⟩)⟩

/-- what HiddenFS delegates: the same names, the same following behaviour -/
theorem translate_ok_delegated {hs : List Path} {c c1 : Call} (h : translate hs c = .ok c1) :
    c1 = hiddenDelegated c := by
  cases c <;> simp only [translate, bind, Except.bind, pure, Except.pure] at h <;>
    (repeat' split at h) <;> first | (cases h; done) | (cases h; rfl)

theorem hiddenDelegated_paths (c : Call) :
    (hiddenDelegated c).accessPaths = c.accessPaths ∧ followsMut (hiddenDelegated c) = followsMut c := by
  cases c <;> first | exact ⟨rfl, rfl⟩ | exact ⟨rfl, by decide⟩

/-- D06.1L `hidden_subtree_untouched_with_links_partial`: HiddenFS(`kp h₁`, …) over `PrefixFS(kp bk)`
over the OS filesystem, on every well-formed disk with symlinks anywhere, any of the 16 calls (the
whole `RemoveAll` program and `Rename` included) with any name strings whose route is free of
symlinks (`Route`): every node at or below a hidden key is exactly what it was (type, content,
stored link target, all mode bits, owner, mtime). -/
theorem hidden_subtree_untouched_with_links_partial (bk : Key) (hbk : PKey bk) (hks : List Key)
    (hp : ∀ h ∈ hks, PKey h) (m : MFS) (hw : WFL m) (c : Call) (hr : Route bk hks m c) :
    ∀ j, (∃ h ∈ hks, h <+: j) →
      ((hiddenFS (hks.map kp) (prefixFS (kp bk) osfs)).call m c).1.get (bk ++ j) = m.get (bk ++ j) := by
  intro j hj
  have hne : hks ≠ [] := by
    obtain ⟨h, hm, _⟩ := hj
    intro e; rw [e] at hm; cases hm
  have H := hidKeys_mk hp
  by_cases hra : ∃ n, c = .removeAll n
  · obtain ⟨n, rfl⟩ := hra
    rw [hiddenFS_call_removeAll]
    show (hiddenRemoveAll (mk (hks.map kp)) (prefixFS (kp bk) osfs) 64 m (rmName n)).1.get (bk ++ j) = _
    cases hv : isHidden n (mk (hks.map kp)) with
    | error e =>
      unfold hiddenRemoveAll hguard
      rw [isHidden_rmName, hv]
    | ok b =>
      cases b with
      | true =>
        unfold hiddenRemoveAll hguard
        rw [isHidden_rmName, hv]
      | false =>
        have habs := visible_abs H hne hv
        obtain ⟨hy, hc⟩ := nameKey_abs habs
        have hrm : rmName n = kp (nameKey n) := by
          unfold rmName
          have : n ≠ [] := by intro e; rw [e] at habs; cases habs
          rw [if_neg this, hc]
        rw [hrm]
        exact (hiddenRemoveAll_untouched_links H hne hbk hw hy
          (hr.ancestors rfl n (by simp [Call.accessPaths])) 64).2 j hj
  · have hnra : ∀ n, c ≠ .removeAll n := fun n e => hra ⟨n, e⟩
    rw [hiddenFS_call_gen _ _ _ _ hnra]
    cases htr : translate (mk (hks.map kp)) c with
    | error e => rfl
    | ok c1 =>
      obtain ⟨hvis, hanc, hnr⟩ := translate_ok_visible htr
      have hd := translate_ok_delegated htr
      obtain ⟨hpa, hfm⟩ := hiddenDelegated_paths c
      rw [← hd] at hpa hfm
      exact visible_call_untouched_links_w H hne hw hbk c1 hvis hanc (hnr hnra)
        (fun hf n hn => hr.ancestors (hfm ▸ hf) n (hpa ▸ hn))
        (fun hf n hn => hr.final (hfm ▸ hf) n (hpa ▸ hn)) j hj

/-- hidden paths given in any absolute spelling (`//hid/`, `/a/../hid`, …): the protected keys are
those whose path is component-wise within one of them -/
theorem hidden_subtree_untouched_with_links_any_spelling_partial (bk : Key) (hbk : PKey bk)
    (hiddenPaths : List Path) (habs : ∀ p ∈ hiddenPaths, isAbs p = true) (m : MFS) (hw : WFL m) (c : Call)
    (hr : Route bk (hiddenPaths.map nameKey) m c) :
    ∀ j, PKey j → (∃ p ∈ hiddenPaths, Within p (kp j)) →
      ((hiddenFS hiddenPaths (prefixFS (kp bk) osfs)).call m c).1.get (bk ++ j) = m.get (bk ++ j) := by
  intro j hjk ⟨p, hpm, hwi⟩
  let hks : List Key := hiddenPaths.map nameKey
  have hpk : ∀ h ∈ hks, PKey h := by
    intro h hh
    obtain ⟨q, hq, rfl⟩ := List.mem_map.mp hh
    exact (abs_clean_key (habs q hq)).1
  have hmk : mk hiddenPaths = mk (hks.map kp) := by
    unfold mk
    congr 1
    rw [List.map_map, List.map_map]
    apply List.map_congr_left
    intro q hq
    obtain ⟨h1, h2⟩ := abs_clean_key (habs q hq)
    simp only [Function.comp, nameKey]
    rw [clean_kp h1, h2]
  have hfs : hiddenFS hiddenPaths (prefixFS (kp bk) osfs) = hiddenFS (hks.map kp) (prefixFS (kp bk) osfs) := by
    unfold hiddenFS
    simp only [hmk]
  rw [hfs]
  apply hidden_subtree_untouched_with_links_partial bk hbk hks hpk m hw c hr j
  refine ⟨(cleanC p).comps, List.mem_map.mpr ⟨p, hpm, rfl⟩, ?_⟩
  obtain ⟨h1, h2⟩ := abs_clean_key (habs p hpm)
  rw [← within_kp h1 hjk, ← h2]
  unfold Within at hwi ⊢
  rw [cleanC_clean]
  exact hwi

theorem hiddenDelegated_resolveFlag (c : Call) : resolveFlag (hiddenDelegated c) = resolveFlag c := by
  cases c <;> first | rfl | decide

/-- D06.1R `hidden_subtree_untouched_by_resolution_partial`: for the 13 calls that are ONE syscall on
ONE name (all but `MkdirAll`, `RemoveAll`, `Rename`; `resolveFlag c = some f`, `f` = does the call
follow a final symlink) the route does not matter at all: if the kernel's resolution of the path
`PrefixFS` hands down — through any number of symlinks, `..`, absolute targets — ends at a key (an
existing entry, or the missing entry the call would create) that is not at or below a hidden key,
every node at or below a hidden key is exactly what it was.  (`Route` is the special case where the
resolution is the lexical key itself: `HLL.endsOutside_of_nolink`.) -/
theorem hidden_subtree_untouched_by_resolution_partial (bk : Key) (hbk : PKey bk) (hks : List Key)
    (hp : ∀ h ∈ hks, PKey h) (m : MFS) (hw : WFL m) (c : Call) {f : Bool} (hrf : resolveFlag c = some f)
    (hend : ∀ n ∈ c.accessPaths, EndsOutsideF (HidDisk bk hks) m (kp (bk ++ nameKey n)) f) :
    ∀ j, (∃ h ∈ hks, h <+: j) →
      ((hiddenFS (hks.map kp) (prefixFS (kp bk) osfs)).call m c).1.get (bk ++ j) = m.get (bk ++ j) := by
  intro j hj
  have hne : hks ≠ [] := by
    obtain ⟨h, hm, _⟩ := hj
    intro e; rw [e] at hm; cases hm
  have H := hidKeys_mk hp
  have hnra : ∀ n, c ≠ .removeAll n := by
    intro n e; rw [e] at hrf; cases hrf
  rw [hiddenFS_call_gen _ _ _ _ hnra]
  cases htr : translate (mk (hks.map kp)) c with
  | error e => rfl
  | ok c1 =>
    obtain ⟨hvis, _, _⟩ := translate_ok_visible htr
    have hd := translate_ok_delegated htr
    obtain ⟨hpa, _⟩ := hiddenDelegated_paths c
    have hrf1 := hiddenDelegated_resolveFlag c
    rw [← hd] at hpa hrf1
    exact ends_call_untouched H hne hw hbk c1 hvis (hrf1.trans hrf) (fun n hn => hend n (hpa ▸ hn)) j hj

/-- `Symlink(old, new)` with `new` outside the hidden paths and reached without crossing a symlink:
whatever `old` is — and whether HiddenFS's lexical test of the effective target lets it through or
not — nothing at or below a hidden key changes; in particular no link is created there. -/
theorem symlink_changes_nothing_hidden_partial (bk : Key) (hbk : PKey bk) (hks : List Key)
    (hp : ∀ h ∈ hks, PKey h) (m : MFS) (hw : WFL m) (o n : Path)
    (hroute : NoLinkProper m (bk ++ nameKey n)) :
    ∀ j, (∃ h ∈ hks, h <+: j) →
      ((hiddenFS (hks.map kp) (prefixFS (kp bk) osfs)).call m (.symlink o n)).1.get (bk ++ j) = m.get (bk ++ j) :=
  hidden_subtree_untouched_with_links_partial bk hbk hks hp m hw (.symlink o n)
    (Route.of_final_nolink
      (fun n' hn' => by simp only [Call.accessPaths, List.mem_singleton] at hn'; subst hn'; exact hroute)
      (fun hf => by cases hf))

/-- `Rename(old, new)`: both walks free of symlinks among the proper ancestors; a symlink as the final
component of either name is moved (or replaced) as a link, nothing is followed -/
theorem rename_changes_nothing_hidden_partial (bk : Key) (hbk : PKey bk) (hks : List Key)
    (hp : ∀ h ∈ hks, PKey h) (m : MFS) (hw : WFL m) (o n : Path)
    (hro : NoLinkProper m (bk ++ nameKey o)) (hrn : NoLinkProper m (bk ++ nameKey n)) :
    ∀ j, (∃ h ∈ hks, h <+: j) →
      ((hiddenFS (hks.map kp) (prefixFS (kp bk) osfs)).call m (.rename o n)).1.get (bk ++ j) = m.get (bk ++ j) :=
  hidden_subtree_untouched_with_links_partial bk hbk hks hp m hw (.rename o n)
    (Route.of_final_nolink
      (fun n' hn' => by
        simp only [Call.accessPaths, List.mem_cons, List.not_mem_nil, or_false] at hn'
        rcases hn' with rfl | rfl
        · exact hro
        · exact hrn)
      (fun hf => by cases hf))

/-- the refusal half on this layering: a call naming something at or below a hidden path returns
the documented class whatever the disk holds (symlinks or not, well-formed or not) and changes
nothing at all -/
theorem hidden_name_refused_with_links (bk : Key) (hiddenPaths : List Path) (c : Call) (n : Path)
    (hsingle : c.accessPaths = [n]) (hnotsym : ∀ o n', c ≠ .symlink o n')
    (hh : isHidden n (mk hiddenPaths) = .ok true) (m m' : MFS) :
    ((hiddenFS hiddenPaths (prefixFS (kp bk) osfs)).call m c).2 =
      ((hiddenFS hiddenPaths (prefixFS (kp bk) osfs)).call m' c).2 ∧
    ((hiddenFS hiddenPaths (prefixFS (kp bk) osfs)).call m c).2 = .error (refusal c) ∧
    ((hiddenFS hiddenPaths (prefixFS (kp bk) osfs)).call m c).1 = m ∧
    ((hiddenFS hiddenPaths (prefixFS (kp bk) osfs)).call m' c).1 = m' :=
  hidden_outcome_independent_of_existence _ hiddenPaths c n hsingle hnotsym hh m m'

/-! ## how the hypotheses are discharged -/

/-- a name that exists, or whose parent is a live directory, has no symlink among its proper
ancestors -/
theorem noLinkProper_of_parent {m : MFS} (hw : WFL m) {K : Key} {mt : Meta}
    (hpar : m.get K.dropLast = some (.dir mt)) : NoLinkProper m K := by
  intro p hp hne t mt' e
  obtain ⟨mt1, h1⟩ := hw.good.anc_of_parent hpar p hp hne
  rw [h1] at e; cases e

theorem noLinkProper_of_live {m : MFS} (hw : WFL m) {K : Key} {n : Node} (hn : m.get K = some n) :
    NoLinkProper m K := by
  intro p hp hne t mt' e
  obtain ⟨mt1, h1⟩ := hw.good.ancestor hn hp hne
  rw [h1] at e; cases e

/-- a checker for `NoLinkProper` on concrete disks -/
def noLinkProperB (m : MFS) (K : Key) : Bool :=
  (List.range K.length).all fun i => !(match m.get (K.take i) with | some (.link _ _) => true | _ => false)

theorem noLinkProper_of_B {m : MFS} {K : Key} (h : noLinkProperB m K = true) : NoLinkProper m K := by
  intro p hp hne t mt e
  unfold noLinkProperB at h
  rw [List.all_eq_true] at h
  have hlen : p.length < K.length := by
    rcases Nat.lt_or_ge p.length K.length with h1 | h1
    · exact h1
    · exact absurd (List.IsPrefix.eq_of_length_le hp h1) hne
  have := h p.length (List.mem_range.mpr hlen)
  rw [← List.prefix_iff_eq_take.mp hp, e] at this
  simp at this

instance (bk : Key) (hks : List Key) (K : Key) : Decidable (HidDisk bk hks K) :=
  inferInstanceAs (Decidable (∃ h ∈ hks, bk ++ h <+: K))

instance (bk : Key) (hks : List Key) (m : MFS) (t : Path) (f : Bool) :
    Decidable (EndsOutsideF (HidDisk bk hks) m t f) := by
  unfold EndsOutsideF
  split <;> infer_instance

def routeB (bk : Key) (hks : List Key) (m : MFS) (c : Call) : Bool :=
  c.accessPaths.all fun n =>
    noLinkProperB m (bk ++ nameKey n) &&
    (!followsMut c || !(match m.get (bk ++ nameKey n) with | some (.link _ _) => true | _ => false) ||
      decide (EndsOutside (HidDisk bk hks) m (kp (bk ++ nameKey n))))

theorem route_of_B {bk : Key} {hks : List Key} {m : MFS} {c : Call} (h : routeB bk hks m c = true) :
    Route bk hks m c := by
  unfold routeB at h
  rw [List.all_eq_true] at h
  refine ⟨fun _ n hn => ?_, fun hf n hn => ?_⟩
  · have := h n hn
    simp only [Bool.and_eq_true] at this
    exact noLinkProper_of_B this.1
  · have := h n hn
    simp only [Bool.and_eq_true, hf, Bool.not_true, Bool.false_or, Bool.or_eq_true, decide_eq_true_eq] at this
    rcases this.2 with h1 | h1
    · left
      refine noLinkUpto_iff.mpr ⟨noLinkProper_of_B this.1, ?_⟩
      intro tg mt e
      rw [e] at h1
      simp at h1
    · exact Or.inr h1

/-! ## non-vacuity

HiddenFS root `/b`; hidden directory `/hid` holding the file `/hid/x`; elsewhere a symlink
`/in -> hid` INTO the hidden directory; a visible directory `/v` with a file `/v/f` and, as leaves, a
symlink `/v/l -> ../hid/x` pointing at the hidden file and a symlink `/v/g -> f` pointing at the
visible file; a symlink `/w -> v` to the visible directory. -/

def exDiskL : MFS where
  get := fun k =>
    if k = [] then some (.dir exMeta)
    else if k = [['b']] then some (.dir exMeta)
    else if k = [['b'], ['h', 'i', 'd']] then some (.dir exMeta)
    else if k = [['b'], ['h', 'i', 'd'], ['x']] then some (.file "secret" { exMeta with mode := 0o600 })
    else if k = [['b'], ['i', 'n']] then some (.link ['h', 'i', 'd'] { exMeta with mode := 0o777 })
    else if k = [['b'], ['v']] then some (.dir exMeta)
    else if k = [['b'], ['v'], ['f']] then some (.file "v" { exMeta with mode := 0o644 })
    else if k = [['b'], ['v'], ['l']] then
      some (.link ['.', '.', '/', 'h', 'i', 'd', '/', 'x'] { exMeta with mode := 0o777 })
    else if k = [['b'], ['v'], ['g']] then some (.link ['f'] { exMeta with mode := 0o777 })
    else if k = [['b'], ['w']] then some (.link ['v'] { exMeta with mode := 0o777 })
    else none
  dom := [[], [['b']], [['b'], ['h', 'i', 'd']], [['b'], ['h', 'i', 'd'], ['x']], [['b'], ['i', 'n']],
    [['b'], ['v']], [['b'], ['v'], ['f']], [['b'], ['v'], ['l']], [['b'], ['v'], ['g']], [['b'], ['w']]]
  umask := 0o022

theorem exDiskL_live {k : Key} {n : Node} (h : exDiskL.get k = some n) :
    k ∈ exDiskL.dom ∧ exDiskL.get k = some n := by
  refine ⟨?_, h⟩
  simp only [exDiskL] at h ⊢
  repeat' split at h
  all_goals first | (cases h; done) | (subst_vars; decide)

theorem wfl_exDiskL : WFL exDiskL := by
  have hall : ∀ k ∈ exDiskL.dom, ∀ n, exDiskL.get k = some n →
      PKey k ∧ n.meta.mode < 4096 ∧ (k ≠ [] → ∃ mt, exDiskL.get k.dropLast = some (.dir mt)) := by
    intro k hk n hn
    simp only [exDiskL, List.mem_cons, List.not_mem_nil, or_false] at hk
    rcases hk with rfl | rfl | rfl | rfl | rfl | rfl | rfl | rfl | rfl | rfl <;>
      (cases hn; exact ⟨by decide, by decide, fun _ => ⟨_, rfl⟩⟩)
  refine ⟨⟨_, rfl⟩, ?_, ?_, ?_, ?_⟩
  · intro k n h; exact (hall k (exDiskL_live h).1 n h).1
  · intro k n h; exact (exDiskL_live h).1
  · intro k n h; exact (hall k (exDiskL_live h).1 n h).2.1
  · intro k n h hne; exact (hall k (exDiskL_live h).1 n h).2.2 hne

/-- the layering of the examples: `HiddenFS("/hid")` over `PrefixFS("/b")` over the OS model -/
def exFS : FSI MFS := hiddenFS ([[['h', 'i', 'd']]].map kp) (prefixFS (kp [['b']]) osfs)

/-- the hypotheses hold of calls on visible names NEXT TO the links: a file beside the leaf symlink,
the leaf symlink itself (`Lchown`, `Remove`, `Readlink`), the symlink into the hidden directory
itself (`Remove`, `Rename`), the directory holding a symlink (`RemoveAll`), a new link -/
example : WFL exDiskL ∧ (∀ h ∈ [[['h', 'i', 'd']]], PKey h) ∧
    exDiskL.get [['b'], ['h', 'i', 'd'], ['x']] ≠ none ∧
    Route [['b']] [[['h', 'i', 'd']]] exDiskL (.remove "/v/f".toList) ∧
    Route [['b']] [[['h', 'i', 'd']]] exDiskL (.chmod "/v/../v//f".toList 0o600) ∧
    Route [['b']] [[['h', 'i', 'd']]] exDiskL (.create "/v/new".toList) ∧
    Route [['b']] [[['h', 'i', 'd']]] exDiskL (.lchown "/v/l".toList 7 7) ∧
    Route [['b']] [[['h', 'i', 'd']]] exDiskL (.remove "/v/l".toList) ∧
    Route [['b']] [[['h', 'i', 'd']]] exDiskL (.remove "/in".toList) ∧
    Route [['b']] [[['h', 'i', 'd']]] exDiskL (.rename "/in".toList "/v/in2".toList) ∧
    Route [['b']] [[['h', 'i', 'd']]] exDiskL (.mkdirAll "/v/l".toList 0o755) ∧
    Route [['b']] [[['h', 'i', 'd']]] exDiskL (.symlink "../hid/x".toList "/v/l2".toList) ∧
    Route [['b']] [[['h', 'i', 'd']]] exDiskL (.removeAll "/v".toList) ∧
    Route [['b']] [[['h', 'i', 'd']]] exDiskL (.removeAll "/".toList) ∧
    -- a FINAL symlink that is followed, resolving outside the hidden directory
    Route [['b']] [[['h', 'i', 'd']]] exDiskL (.chmod "/v/g".toList 0o600) ∧
    Route [['b']] [[['h', 'i', 'd']]] exDiskL (.create "/v/g".toList) :=
  ⟨wfl_exDiskL, by decide, by decide, route_of_B (by decide), route_of_B (by decide), route_of_B (by decide),
    route_of_B (by decide), route_of_B (by decide), route_of_B (by decide), route_of_B (by decide),
    route_of_B (by decide), route_of_B (by decide), route_of_B (by decide), route_of_B (by decide),
    route_of_B (by decide +kernel), route_of_B (by decide +kernel)⟩

/-- `RemoveAll("/")`: the whole walk; the symlinks `/in` and `/v/l` are met as leaves.  By the
theorem, the hidden directory and the hidden file are exactly as before. -/
example :
    (exFS.call exDiskL (.removeAll "/".toList)).1.get [['b'], ['h', 'i', 'd']] = some (.dir exMeta) ∧
    (exFS.call exDiskL (.removeAll "/".toList)).1.get [['b'], ['h', 'i', 'd'], ['x']] =
      some (.file "secret" { exMeta with mode := 0o600 }) :=
  ⟨hidden_subtree_untouched_with_links_partial [['b']] (by decide) [[['h', 'i', 'd']]] (by decide) exDiskL
      wfl_exDiskL _ (route_of_B (by decide)) [['h', 'i', 'd']] (by decide),
   hidden_subtree_untouched_with_links_partial [['b']] (by decide) [[['h', 'i', 'd']]] (by decide) exDiskL
      wfl_exDiskL _ (route_of_B (by decide)) [['h', 'i', 'd'], ['x']] (by decide)⟩

/-- the calls do something: the leaf symlink is chowned / removed as a link, the symlink into the
hidden directory is removed or renamed as a link — and the hidden file is as before (kernel-checked;
also instances of the theorem; the `Walk` of `RemoveAll` is defined by mutual recursion that the
kernel does not unfold, so `RemoveAll` is exemplified through the theorem above only) -/
example :
    (exFS.call exDiskL (.remove "/v/f".toList)).2 = .ok .unit ∧
    (exFS.call exDiskL (.lchown "/v/l".toList 7 7)).1.get [['b'], ['v'], ['l']] =
      some (.link ['.', '.', '/', 'h', 'i', 'd', '/', 'x'] { exMeta with mode := 0o777, uid := 7, gid := 7 }) ∧
    (exFS.call exDiskL (.lchown "/v/l".toList 7 7)).1.get [['b'], ['h', 'i', 'd'], ['x']] =
      some (.file "secret" { exMeta with mode := 0o600 }) ∧
    (exFS.call exDiskL (.remove "/in".toList)).2 = .ok .unit ∧
    (exFS.call exDiskL (.remove "/in".toList)).1.get [['b'], ['i', 'n']] = none ∧
    (exFS.call exDiskL (.remove "/in".toList)).1.get [['b'], ['h', 'i', 'd']] = some (.dir exMeta) ∧
    (exFS.call exDiskL (.rename "/in".toList "/v/in2".toList)).2 = .ok .unit ∧
    (exFS.call exDiskL (.rename "/in".toList "/v/in2".toList)).1.get [['b'], ['v'], ['i', 'n', '2']] =
      some (.link ['h', 'i', 'd'] { exMeta with mode := 0o777 }) ∧
    (exFS.call exDiskL (.chmod "/v/g".toList 0o600)).1.get [['b'], ['v'], ['f']] =
      some (.file "v" { exMeta with mode := 0o600 }) ∧
    (exFS.call exDiskL (.symlink "../hid/x".toList "/v/l2".toList)).2 = .error .hiddenPerm ∧
    (exFS.call exDiskL (.stat "/hid/x".toList)).2 = .error .hiddenNotExist := by
  decide +kernel

/-- D06.1R is not vacuous: the names `/w/f`, `/w/new` run THROUGH the symlink `/w -> v` (so `Route`
fails for `Remove`/`Mkdir`), their resolution ends in the visible directory; the calls go through
and do their work there.  For `/in/x` (through `/in -> hid`) the hypothesis fails, as it must. -/
example :
    ¬ Route [['b']] [[['h', 'i', 'd']]] exDiskL (.remove "/w/f".toList) ∧
    EndsOutsideF (HidDisk [['b']] [[['h', 'i', 'd']]]) exDiskL (kp ([['b']] ++ nameKey "/w/f".toList)) false ∧
    EndsOutsideF (HidDisk [['b']] [[['h', 'i', 'd']]]) exDiskL (kp ([['b']] ++ nameKey "/w/new".toList)) false ∧
    EndsOutsideF (HidDisk [['b']] [[['h', 'i', 'd']]]) exDiskL (kp ([['b']] ++ nameKey "/w/g".toList)) true ∧
    (exFS.call exDiskL (.remove "/w/f".toList)).2 = .ok .unit ∧
    (exFS.call exDiskL (.remove "/w/f".toList)).1.get [['b'], ['v'], ['f']] = none ∧
    ((exFS.call exDiskL (.mkdir "/w/new".toList 0o755)).1.get [['b'], ['v'], ['n', 'e', 'w']]).isSome = true ∧
    (exFS.call exDiskL (.chmod "/w/g".toList 0o600)).1.get [['b'], ['v'], ['f']] =
      some (.file "v" { exMeta with mode := 0o600 }) ∧
    ¬ EndsOutsideF (HidDisk [['b']] [[['h', 'i', 'd']]]) exDiskL (kp ([['b']] ++ nameKey "/in/x".toList)) false := by
  refine ⟨?_, by decide +kernel, by decide +kernel, by decide +kernel, by decide +kernel, by decide +kernel,
    by decide +kernel, by decide +kernel, by decide +kernel⟩
  intro hr
  exact hr.ancestors rfl "/w/f".toList (by simp [Call.accessPaths]) [['b'], ['w']] (by decide) (by decide) _ _ rfl

example (j : Key) (hj : ∃ h ∈ [[['h', 'i', 'd']]], h <+: j) :
    (exFS.call exDiskL (.remove "/w/f".toList)).1.get ([['b']] ++ j) = exDiskL.get ([['b']] ++ j) :=
  hidden_subtree_untouched_by_resolution_partial [['b']] (by decide) [[['h', 'i', 'd']]] (by decide) exDiskL
    wfl_exDiskL (.remove "/w/f".toList) (f := false) rfl
    (by intro n hn; simp only [Call.accessPaths, List.mem_singleton] at hn; subst hn; decide +kernel) j hj

/-! ## both hypotheses are forced (kernel-checked; K-hidden-symlink-route) -/

/-- `Route.ancestors` dropped: `/in -> hid` is a proper ancestor of the name `/in/x`, which is
lexically visible; `Remove("/in/x")` deletes the hidden file, `Create("/in/y")` creates a file in
the hidden directory. -/
theorem proper_ancestor_symlink_reaches_hidden :
    isHidden "/in/x".toList (mk ([[['h', 'i', 'd']]].map kp)) = .ok false ∧
    ¬ Route [['b']] [[['h', 'i', 'd']]] exDiskL (.remove "/in/x".toList) ∧
    (exFS.call exDiskL (.remove "/in/x".toList)).2 = .ok .unit ∧
    exDiskL.get [['b'], ['h', 'i', 'd'], ['x']] ≠ none ∧
    (exFS.call exDiskL (.remove "/in/x".toList)).1.get [['b'], ['h', 'i', 'd'], ['x']] = none ∧
    exDiskL.get [['b'], ['h', 'i', 'd'], ['y']] = none ∧
    ((exFS.call exDiskL (.create "/in/y".toList)).1.get [['b'], ['h', 'i', 'd'], ['y']]).isSome = true := by
  refine ⟨by decide +kernel, ?_, by decide +kernel, by decide +kernel, by decide +kernel, by decide +kernel,
    by decide +kernel⟩
  intro hr
  exact hr.ancestors rfl "/in/x".toList (by simp [Call.accessPaths]) [['b'], ['i', 'n']] (by decide) (by decide)
    _ _ rfl

/-- `Route.final` dropped: the name `/v/l` is lexically visible and no proper ancestor is a symlink,
but its final component is the symlink `/v/l -> ../hid/x`, whose resolution ends at the hidden file.  `Chmod` changes the mode of the hidden
file, `Create` truncates it, `Chtimes` stamps it; `Stat` and `Open`+read, which change nothing,
OBSERVE it (size and content of the hidden file).  `Lchown`/`Remove` on the same name act on the link
(previous example). -/
theorem final_symlink_reaches_hidden :
    isHidden "/v/l".toList (mk ([[['h', 'i', 'd']]].map kp)) = .ok false ∧
    NoLinkProper exDiskL ([['b']] ++ nameKey "/v/l".toList) ∧
    ¬ Route [['b']] [[['h', 'i', 'd']]] exDiskL (.chmod "/v/l".toList 0) ∧
    (exFS.call exDiskL (.chmod "/v/l".toList 0)).2 = .ok .unit ∧
    (exFS.call exDiskL (.chmod "/v/l".toList 0)).1.get [['b'], ['h', 'i', 'd'], ['x']] =
      some (.file "secret" { exMeta with mode := 0 }) ∧
    (exFS.call exDiskL (.create "/v/l".toList)).1.get [['b'], ['h', 'i', 'd'], ['x']] =
      some (.file "" { exMeta with mode := 0o600, mtime := .fresh }) ∧
    (exFS.call exDiskL (.chtimes "/v/l".toList (.old 5) (.old 5))).1.get [['b'], ['h', 'i', 'd'], ['x']] =
      some (.file "secret" { exMeta with mode := 0o600, mtime := .old 5 }) ∧
    ((exFS.call exDiskL (.stat "/v/l".toList)).2.map fun r => match r with | .info i => (i.kind, i.size, i.perm) | _ => (.dir, 0, 0))
      = .ok (.file, 6, 0o600) ∧
    (match (exFS.call exDiskL (.open_ "/v/l".toList)).2 with
      | .ok (.handle h) => exFS.hread exDiskL h
      | _ => .error .other) = .ok "secret" := by
  refine ⟨by decide +kernel, noLinkProper_of_B (by decide), ?_, by decide +kernel, by decide +kernel,
    by decide +kernel, by decide +kernel, by decide +kernel, by decide +kernel⟩
  intro hr
  rcases hr.final rfl "/v/l".toList (by simp [Call.accessPaths]) with h | h
  · exact h _ List.prefix_rfl _ _ rfl
  · exact absurd h (by decide +kernel)

/-! ## a route can be BUILT through HiddenFS with calls that satisfy `Route`

A link-free disk: hidden directory `/hid` with the file `/hid/x`, a visible directory `/a`.
`Symlink("hid", "/a/l")` passes the lexical test (effective target `/a/hid`, not hidden) and
`Rename("/a/l", "/l")` moves the link one level up, where its relative target now denotes the hidden
directory.  Both calls satisfy `Route` on the disk they run on and — by the theorem — leave the
hidden subtree alone.  The third call, `Remove("/l/x")`, is lexically visible, runs through the link
(so `Route` fails for it) and deletes the hidden file.  (The C05 analogue is
`Props.C05.symlink_escapes_after_rename`, K-prefix-lexical-links.) -/

def exDiskP : MFS where
  get := fun k =>
    if k = [] then some (.dir exMeta)
    else if k = [['b']] then some (.dir exMeta)
    else if k = [['b'], ['h', 'i', 'd']] then some (.dir exMeta)
    else if k = [['b'], ['h', 'i', 'd'], ['x']] then some (.file "secret" { exMeta with mode := 0o600 })
    else if k = [['b'], ['a']] then some (.dir exMeta)
    else none
  dom := [[], [['b']], [['b'], ['h', 'i', 'd']], [['b'], ['h', 'i', 'd'], ['x']], [['b'], ['a']]]
  umask := 0o022

theorem route_built_through_hiddenfs :
    let s1 := exFS.call exDiskP (.symlink "hid".toList "/a/l".toList)
    let s2 := exFS.call s1.1 (.rename "/a/l".toList "/l".toList)
    let s3 := exFS.call s2.1 (.remove "/l/x".toList)
    Route [['b']] [[['h', 'i', 'd']]] exDiskP (.symlink "hid".toList "/a/l".toList) ∧ s1.2 = .ok .unit ∧
    Route [['b']] [[['h', 'i', 'd']]] s1.1 (.rename "/a/l".toList "/l".toList) ∧ s2.2 = .ok .unit ∧
    s2.1.get [['b'], ['l']] = some (.link ['h', 'i', 'd'] { mode := 0o777, uid := 0, gid := 0, mtime := .fresh }) ∧
    s2.1.get [['b'], ['h', 'i', 'd'], ['x']] = exDiskP.get [['b'], ['h', 'i', 'd'], ['x']] ∧
    isHidden "/l/x".toList (mk ([[['h', 'i', 'd']]].map kp)) = .ok false ∧
    ¬ Route [['b']] [[['h', 'i', 'd']]] s2.1 (.remove "/l/x".toList) ∧
    s3.2 = .ok .unit ∧ exDiskP.get [['b'], ['h', 'i', 'd'], ['x']] ≠ none ∧
    s3.1.get [['b'], ['h', 'i', 'd'], ['x']] = none := by
  intro s1 s2 s3
  refine ⟨route_of_B (by decide +kernel), by decide +kernel, route_of_B (by decide +kernel), by decide +kernel,
    by decide +kernel, by decide +kernel, by decide +kernel, ?_, by decide +kernel, by decide +kernel,
    by decide +kernel⟩
  intro hr
  have hl : s2.1.get [['b'], ['l']] = some (.link ['h', 'i', 'd'] { mode := 0o777, uid := 0, gid := 0, mtime := .fresh }) := by
    decide +kernel
  exact hr.ancestors rfl "/l/x".toList (by simp [Call.accessPaths]) [['b'], ['l']] (by decide) (by decide) _ _ hl

end Props.C06
