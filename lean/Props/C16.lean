import Lemmas
/-!
# C16 — path resolution (structural theorems; exactness for link chains is FALSE of the code)

`resolvePathWithInfo` makes a single pass over the ancestor chain of the (cleaned) path,
substituting link targets into the *remaining* suffixes.  Proved here, for every configuration and
world: it only reads (Lstat/Readlink on the base), it terminates on every topology by construction
(structural recursion over the fixed-length chain — the Go loop cannot grow `accPaths`), and without
symlinks on the way it returns the caller's cleaned path.  Exactness for chains of links
(`/l2 → /l1/dir`, `/l1 → /real`), for `..` in relative targets crossing a link, and for dangling
links among the parents does not hold (known findings K-link-topology, K-dangling-link-parent): the
`hist` stream's resolver oracle compares the path argument of every mutating base call with an
independent OS resolution.
-/
namespace Props.C16
open BFS BFS.BackupFS

/-- T16.1 resolution only reads: Lstat and Readlink on the base filesystem, nothing mutating,
nothing on the backup. -/
theorem resolve_reads_only (cfg : Cfg) (name : Path) (w : World) :
    Extends (fun e => e.mutating = false) w (realPath cfg name w).1 :=
  realPath_logs cfg name w

/-- T16.1b resolution never touches the tracked map. -/
theorem resolve_keeps_tracking (cfg : Cfg) (fuel : Nat) (l : List Path) (last : Path) (fi : Option Info)
    (w : World) : (resolveLoop cfg fuel l last fi w).1.infos = w.infos := by
  induction fuel generalizing l last fi w with
  | zero => rfl
  | succ fuel ih =>
    cases l with
    | nil => rfl
    | cons p rest =>
      have hk : Keeps (fun w => w.infos) (resolveLoop cfg (fuel + 1) (p :: rest) last fi) := by
        unfold resolveLoop
        apply Keeps.bind (Keeps.attempt (primInfo_keeps cfg .base _)); intro res
        cases res with
        | error e => exact Keeps.ite (Keeps.pure _ _) (Keeps.throw _ _)
        | ok i =>
          simp only
          apply Keeps.ite
          · apply Keeps.bind (primStr_keeps cfg .base _); intro linked
            exact fun w => ih _ _ _ w
          · exact fun w => ih _ _ _ w
      exact hk w

/-- T16.2 the ancestor chain ends in the path itself: the final component is the last element
examined and nothing is substituted after it, so it is never resolved. -/
theorem chain_ends_in_path (p : Path) (h : p ≠ []) : (iterateDirTree p).getLast? = some p :=
  iterateDirTree_getLast p h

/-- T16.3 (partial: no symlink met on the way) the resolved path is the caller's cleaned path. -/
theorem resolve_identity_without_links_partial (cfg : Cfg) (hnl : NoLinksSeen cfg) (p : Path) (hp : p ≠ [])
    (w w' : World) (r : Path) (o : Option Info)
    (h : resolvePathWithInfo cfg p w = (w', .ok (r, o))) : r = p := by
  unfold resolvePathWithInfo at h
  simp only [hp, if_false] at h
  have := resolveLoop_no_links cfg hnl _ _ _ _ w w' r o (by omega) h
  rw [this, iterateDirTree_getLast p hp]
  rfl

/-- the empty path is rejected -/
theorem resolve_empty (cfg : Cfg) (w : World) : resolvePathWithInfo cfg [] w = (w, .error .emptyPath) := rfl

/-- T16.4 (link-free trees, OS model behind PrefixFS) exactness: on a well-formed disk whose base
tree holds no symlink, for every absolute name in any spelling and under any fault plan, resolution
changes nothing on disk and, when it returns, returns the cleaned name — which on such a tree is
the path the operating system resolves the name to (every component is a directory entry or is
missing: `SimOSWalk.namei_cases`). The hypothesis `NoLinksSeen` of T16.3 is discharged here. -/
theorem resolve_exact_linkfree_partial (bk kk : Key) (hbk : PKey bk) (hkk : PKey kk)
    (hne1 : bk ≠ []) (hne2 : kk ≠ []) (hd1 : ¬ bk <+: kk) (hd2 : ¬ kk <+: bk)
    (w : World) (hg : OSGood bk kk w.fs) (name : Path) (habs : isAbs name = true) :
    (realPath (osCfg bk kk) name w).1.fs = w.fs ∧
      ∀ r, (realPath (osCfg bk kk) name w).2 = .ok r → r = clean name := by
  obtain ⟨k, hk, hname⟩ := clean_abs habs
  have h := (sat_realPath (S := osSim bk kk hbk hkk hne1 hne2 hd1 hd2) (w := w) hg hk hname).elim
  exact ⟨h.1.fs, fun r hr => (h.2 r hr).trans hname.symm⟩

end Props.C16
