import Lemmas.HLOSDir
import Lemmas.HLRC
import Props.C11
/-!
# C11 — the `RemoveAll` clause on trees WITH SYMLINKS

"RemoveAll on an ancestor of a hidden path removes everything except the hidden entries and the
directories leading to them."

`Props/C11.lean` proves this for link-free trees.  Here: the OS model behind `PrefixFS` (base root
`bk`) on every well-formed disk that may hold symlinks anywhere as leaves (`L.OSGoodL`: a tree of
plain names whose inner nodes are directories — link targets are arbitrary texts: absolute, relative,
dangling, looping, pointing into a hidden path), every hidden set given by keys `hks`, every
argument `kp k` below the root (`k ≠ []`) **no proper ancestor of which is a symlink** (otherwise the
operation's own path runs through a symlink: known finding K-hidden-symlink-route), every fuel.

The walk of `HiddenFS.RemoveAll` uses `Lstat` and never follows a symlink, so a symlink inside the
removed tree is an ordinary leaf:
* a symlink whose own path is not hidden is REMOVED — whatever it points to, also when its target is
  a hidden path or lies below one — and nothing at or below the hidden path changes;
* a symlink AT a hidden path (or below one) is spared;
* a directory leading to a hidden path loses the symlinks it contains and stays.

The view `L.osViewL bk kk .base m j` is the node at disk key `bk ++ j` with directory timestamps
erased and, for a symlink, timestamp and mode erased and the target as `Readlink` reports it through
`PrefixFS` (`viewL_spelled_out`).  The safety theorem in addition speaks about the RAW disk
(`m.get`, directory timestamps erased only): a spared symlink keeps its stored target, mode and time.
-/
namespace Props.C11
open BFS BFS.L

/-- the view of the theorems, spelled out on the disk -/
theorem viewL_spelled_out (bk kk : Key) (m : MFS) (j : Key) :
    osViewL bk kk .base m j = (m.get (bk ++ j)).map (eraseV (kp bk)) := rfl

/-- the hypothesis "no proper ancestor of the argument is a symlink" holds of every argument that
exists … -/
theorem noLinkAnc_of_exists {bk kk : Key} {m : MFS} (hg : OSGoodL bk kk m) {k : Key}
    (hex : osViewL bk kk .base m k ≠ none) : NoLinkAnc (osViewL bk kk .base m) k :=
  noLinkAnc_of_present hg hex

/-- … and of every argument whose parent is a directory -/
theorem noLinkAnc_of_parent {bk kk : Key} {m : MFS} (hg : OSGoodL bk kk m) {k : Key}
    (hpar : (osViewL bk kk .base m).isDirAt k.dropLast) : NoLinkAnc (osViewL bk kk .base m) k :=
  noLinkAnc_of_parentDir hg hpar

/-- T11L.A  safety on trees with symlinks, whatever `RemoveAll` returns and whatever the walk's depth
bound: the disk stays well-formed, the backup side is untouched, nothing outside the subtree of the
argument is touched, every hidden entry (a symlink AT a hidden path too) and everything below it is
untouched, every directory leading to a hidden entry is untouched, no symlink is created and no
symlink's target changes — in the views and on the raw disk (the last three clauses: every disk key
outside the subtree, also outside both roots; every hidden key; every directory leading to one — stored
link targets, modes, times included, directory timestamps aside).  If the argument itself is hidden
nothing happens and the error is `ErrHiddenNotExist`. -/
theorem removeAll_spares_hidden_with_links (bk kk : Key) (hbk : PKey bk) (hkk : PKey kk)
    (hne1 : bk ≠ []) (hne2 : kk ≠ []) (hd1 : ¬ bk <+: kk) (hd2 : ¬ kk <+: bk)
    (hks : List Key) (hp : ∀ h ∈ hks, PKey h) (k : Key) (hk : PKey k) (hne : k ≠ [])
    (m : MFS) (hg : OSGoodL bk kk m) (hna : NoLinkAnc (osViewL bk kk .base m) k) (fuel : Nat) :
    let res := hiddenRemoveAll (HiddenFS.mk (hks.map kp)) ((osCfg bk kk).side .base) fuel m (kp k)
    OSGoodL bk kk res.1 ∧
    osViewL bk kk .backup res.1 = osViewL bk kk .backup m ∧
    (∀ j, ¬ k <+: j → osViewL bk kk .base res.1 j = osViewL bk kk .base m j) ∧
    (∀ j, (∃ h ∈ hks, h <+: j) → osViewL bk kk .base res.1 j = osViewL bk kk .base m j) ∧
    (∀ j, (∃ h ∈ hks, j <+: h ∧ j ≠ h) → (osViewL bk kk .base m).isDirAt j →
      osViewL bk kk .base res.1 j = osViewL bk kk .base m j) ∧
    LinkMono (osViewL bk kk .base m) (osViewL bk kk .base res.1) ∧
    ((∃ h ∈ hks, h <+: k) → res = (m, .error .hiddenNotExist)) ∧
    (∀ K, ¬ bk ++ k <+: K → (res.1.get K).map eraseMt = (m.get K).map eraseMt) ∧
    (∀ j, (∃ h ∈ hks, h <+: j) → (res.1.get (bk ++ j)).map eraseMt = (m.get (bk ++ j)).map eraseMt) ∧
    (∀ j, (∃ h ∈ hks, j <+: h ∧ j ≠ h) → (osViewL bk kk .base m).isDirAt j →
      (res.1.get (bk ++ j)).map eraseMt = (m.get (bk ++ j)).map eraseMt) := by
  intro res
  obtain ⟨h1, h2, h3, h4, h5, h6, h7, h8⟩ :=
    HL.hiddenRemoveAll_safe (osSimL bk kk hbk hkk hne1 hne2 hd1 hd2) (HL.osLSimDir bk kk hbk hkk hne1 hne2 hd1 hd2)
      (hidKeys_mk hp) hk hne hg hna fuel
  refine ⟨h1, h2, h3, h4, h5, h6, h8, ?_, ?_, ?_⟩
  · intro K hK
    apply h7 K
    rintro j rfl ht
    exact hK ((List.prefix_append_right_inj _).mpr ht.1)
  · intro j hj
    apply h7
    intro j' e ht
    have := List.append_cancel_left e
    subst this
    exact ht.2.1 hj
  · intro j hj hd
    apply h7
    intro j' e ht
    have := List.append_cancel_left e
    subst this
    exact ht.2.2 ⟨hj, hd⟩

/-- T11L.B  completeness on trees with symlinks: if `RemoveAll` returns nil, every entry of the
subtree of the argument is gone — files, directories and SYMLINKS, whatever they point to (also a
symlink whose target is a hidden path or lies below one: it is not hidden itself unless its own path
is) — except the hidden entries (with what is below them) and the directories leading to them.  A
file or a symlink whose name is a lexical ancestor of a hidden path is removed like any other. -/
theorem removeAll_removes_the_rest_with_links (bk kk : Key) (hbk : PKey bk) (hkk : PKey kk)
    (hne1 : bk ≠ []) (hne2 : kk ≠ []) (hd1 : ¬ bk <+: kk) (hd2 : ¬ kk <+: bk)
    (hks : List Key) (hp : ∀ h ∈ hks, PKey h) (k : Key) (hk : PKey k) (hne : k ≠ [])
    (m : MFS) (hg : OSGoodL bk kk m) (hna : NoLinkAnc (osViewL bk kk .base m) k) (fuel : Nat)
    (hok : (hiddenRemoveAll (HiddenFS.mk (hks.map kp)) ((osCfg bk kk).side .base) fuel m (kp k)).2 = .ok ()) :
    ∀ j, k <+: j → ¬ (∃ h ∈ hks, h <+: j) →
      ¬ ((∃ h ∈ hks, j <+: h ∧ j ≠ h) ∧ (osViewL bk kk .base m).isDirAt j) →
      osViewL bk kk .base
        (hiddenRemoveAll (HiddenFS.mk (hks.map kp)) ((osCfg bk kk).side .base) fuel m (kp k)).1 j = none :=
  HL.hiddenRemoveAll_complete (osSimL bk kk hbk hkk hne1 hne2 hd1 hd2) (HL.osLSimDir bk kk hbk hkk hne1 hne2 hd1 hd2)
    (hidKeys_mk hp) hk hne hg hna fuel hok

/-- T11L.C  success on trees with symlinks: if the argument exists on the base side (as a file, a
directory or a symlink), is not hidden, and the walk's depth bound exceeds the height of the subtree
below it, `RemoveAll` returns nil (so T11L.B applies) — no symlink in the subtree, wherever it
points (into a hidden path, nowhere, to itself), makes it fail, and a spared entry never makes the
removal of a directory fail. -/
theorem removeAll_succeeds_with_links (bk kk : Key) (hbk : PKey bk) (hkk : PKey kk)
    (hne1 : bk ≠ []) (hne2 : kk ≠ []) (hd1 : ¬ bk <+: kk) (hd2 : ¬ kk <+: bk)
    (hks : List Key) (hp : ∀ h ∈ hks, PKey h) (k : Key) (hk : PKey k) (hne : k ≠ [])
    (m : MFS) (hg : OSGoodL bk kk m) (fuel : Nat)
    (hvis : ¬ ∃ h ∈ hks, h <+: k) (hex : osViewL bk kk .base m k ≠ none)
    (hht : ∀ j, k <+: j → osViewL bk kk .base m j ≠ none → j.length < k.length + fuel) :
    (hiddenRemoveAll (HiddenFS.mk (hks.map kp)) ((osCfg bk kk).side .base) fuel m (kp k)).2 = .ok () :=
  HL.hiddenRemoveAll_ok (osSimL bk kk hbk hkk hne1 hne2 hd1 hd2) (HL.osLSimDir bk kk hbk hkk hne1 hne2 hd1 hd2)
    (hidKeys_mk hp) hk hne hg fuel hvis hex hht

/-! ## non-vacuity

Base root `/b`, backup root `/k`.  Below `/b`: a hidden directory `/h` with a file `/h/x`; a sibling
directory `/d` holding a symlink `/d/i -> ../h` INTO the hidden directory, a symlink `/d/s -> /h/x`
AT a hidden path (`/d/s` is the second hidden path), a dangling symlink `/d/g -> nowhere` and a file
`/d/f`.  Hidden paths `/h` and `/d/s`; operation `RemoveAll("/d")`. -/

def exDiskHL : MFS where
  get := fun k =>
    if k = [] then some (.dir exMeta)
    else if k = [['b']] then some (.dir exMeta)
    else if k = [['k']] then some (.dir exMeta)
    else if k = [['b'], ['h']] then some (.dir exMeta)
    else if k = [['b'], ['h'], ['x']] then some (.file "secret" { exMeta with mode := 0o600 })
    else if k = [['b'], ['d']] then some (.dir exMeta)
    else if k = [['b'], ['d'], ['i']] then some (.link ['.', '.', '/', 'h'] { exMeta with mode := 0o777 })
    else if k = [['b'], ['d'], ['s']] then some (.link ['/', 'h', '/', 'x'] { exMeta with mode := 0o777 })
    else if k = [['b'], ['d'], ['g']] then some (.link ['n', 'o', 'w', 'h', 'e', 'r', 'e'] { exMeta with mode := 0o777 })
    else if k = [['b'], ['d'], ['f']] then some (.file "v" { exMeta with mode := 0o644 })
    else none
  dom := [[], [['b']], [['k']], [['b'], ['h']], [['b'], ['h'], ['x']], [['b'], ['d']], [['b'], ['d'], ['i']], [['b'], ['d'], ['s']], [['b'], ['d'], ['g']], [['b'], ['d'], ['f']]]
  umask := 0o022

theorem exDiskHL_live {k : Key} {n : Node} (h : exDiskHL.get k = some n) :
    (k = [] ∧ n = .dir exMeta) ∨
    (k = [['b']] ∧ n = .dir exMeta) ∨
    (k = [['k']] ∧ n = .dir exMeta) ∨
    (k = [['b'], ['h']] ∧ n = .dir exMeta) ∨
    (k = [['b'], ['h'], ['x']] ∧ n = .file "secret" { exMeta with mode := 0o600 }) ∨
    (k = [['b'], ['d']] ∧ n = .dir exMeta) ∨
    (k = [['b'], ['d'], ['i']] ∧ n = .link ['.', '.', '/', 'h'] { exMeta with mode := 0o777 }) ∨
    (k = [['b'], ['d'], ['s']] ∧ n = .link ['/', 'h', '/', 'x'] { exMeta with mode := 0o777 }) ∨
    (k = [['b'], ['d'], ['g']] ∧ n = .link ['n', 'o', 'w', 'h', 'e', 'r', 'e'] { exMeta with mode := 0o777 }) ∨
    (k = [['b'], ['d'], ['f']] ∧ n = .file "v" { exMeta with mode := 0o644 }) := by
  simp only [exDiskHL] at h
  split at h
  · cases h; exact Or.inl ⟨‹_›, rfl⟩
  split at h
  · cases h; exact Or.inr (Or.inl ⟨‹_›, rfl⟩)
  split at h
  · cases h; exact Or.inr (Or.inr (Or.inl ⟨‹_›, rfl⟩))
  split at h
  · cases h; exact Or.inr (Or.inr (Or.inr (Or.inl ⟨‹_›, rfl⟩)))
  split at h
  · cases h; exact Or.inr (Or.inr (Or.inr (Or.inr (Or.inl ⟨‹_›, rfl⟩))))
  split at h
  · cases h; exact Or.inr (Or.inr (Or.inr (Or.inr (Or.inr (Or.inl ⟨‹_›, rfl⟩)))))
  split at h
  · cases h; exact Or.inr (Or.inr (Or.inr (Or.inr (Or.inr (Or.inr (Or.inl ⟨‹_›, rfl⟩))))))
  split at h
  · cases h; exact Or.inr (Or.inr (Or.inr (Or.inr (Or.inr (Or.inr (Or.inr (Or.inl ⟨‹_›, rfl⟩)))))))
  split at h
  · cases h; exact Or.inr (Or.inr (Or.inr (Or.inr (Or.inr (Or.inr (Or.inr (Or.inr (Or.inl ⟨‹_›, rfl⟩))))))))
  split at h
  · cases h; exact Or.inr (Or.inr (Or.inr (Or.inr (Or.inr (Or.inr (Or.inr (Or.inr (Or.inr (⟨‹_›, rfl⟩)))))))))
  · cases h

theorem osGoodL_exampleHL : OSGoodL [['b']] [['k']] exDiskHL := by
  refine ⟨⟨_, rfl⟩, ?_, ?_, ?_, ?_, ⟨_, rfl⟩, ⟨_, rfl⟩⟩
  · intro k n h
    rcases exDiskHL_live h with ⟨rfl, _⟩ | ⟨rfl, _⟩ | ⟨rfl, _⟩ | ⟨rfl, _⟩ | ⟨rfl, _⟩ | ⟨rfl, _⟩ | ⟨rfl, _⟩ | ⟨rfl, _⟩ | ⟨rfl, _⟩ | ⟨rfl, _⟩ <;> decide
  · intro k n h
    rcases exDiskHL_live h with ⟨rfl, _⟩ | ⟨rfl, _⟩ | ⟨rfl, _⟩ | ⟨rfl, _⟩ | ⟨rfl, _⟩ | ⟨rfl, _⟩ | ⟨rfl, _⟩ | ⟨rfl, _⟩ | ⟨rfl, _⟩ | ⟨rfl, _⟩ <;> decide
  · intro k n h
    rcases exDiskHL_live h with ⟨_, rfl⟩ | ⟨_, rfl⟩ | ⟨_, rfl⟩ | ⟨_, rfl⟩ | ⟨_, rfl⟩ | ⟨_, rfl⟩ | ⟨_, rfl⟩ | ⟨_, rfl⟩ | ⟨_, rfl⟩ | ⟨_, rfl⟩ <;> decide
  · intro k n h hne
    rcases exDiskHL_live h with ⟨rfl, _⟩ | ⟨rfl, _⟩ | ⟨rfl, _⟩ | ⟨rfl, _⟩ | ⟨rfl, _⟩ | ⟨rfl, _⟩ | ⟨rfl, _⟩ | ⟨rfl, _⟩ | ⟨rfl, _⟩ | ⟨rfl, _⟩
    · exact absurd rfl hne
    all_goals exact ⟨_, rfl⟩

theorem exDiskHL_height (k j : Key) (hv : osViewL [['b']] [['k']] .base exDiskHL j ≠ none) :
    j.length < k.length + 64 := by
  obtain ⟨n0, h0⟩ := osViewL_ne_none hv
  have hl : (osRoot [['b']] [['k']] .base ++ j).length ≤ 3 := by
    rcases exDiskHL_live h0 with ⟨e, _⟩ | ⟨e, _⟩ | ⟨e, _⟩ | ⟨e, _⟩ | ⟨e, _⟩ | ⟨e, _⟩ | ⟨e, _⟩ | ⟨e, _⟩ | ⟨e, _⟩ | ⟨e, _⟩ <;> (rw [e]; decide)
  simp only [List.length_append] at hl
  omega

/-- the hypotheses hold of the example: a well-formed disk, plain hidden keys, `/d` leads to the
hidden `/d/s` and is a live directory, hence has no symlink above it -/
example : OSGoodL [['b']] [['k']] exDiskHL ∧ (∀ h ∈ [[['h']], [['d'], ['s']]], PKey h) ∧ PKey [['d']] ∧
    (∃ h ∈ [[['h']], [['d'], ['s']]], [['d']] <+: h ∧ [['d']] ≠ h) ∧
    (osViewL [['b']] [['k']] .base exDiskHL).isDirAt [['d']] ∧
    isLinkAt (osViewL [['b']] [['k']] .base exDiskHL) [['d'], ['i']] ∧
    isLinkAt (osViewL [['b']] [['k']] .base exDiskHL) [['d'], ['s']] ∧
    isLinkAt (osViewL [['b']] [['k']] .base exDiskHL) [['d'], ['g']] ∧
    NoLinkAnc (osViewL [['b']] [['k']] .base exDiskHL) [['d']] :=
  ⟨osGoodL_exampleHL, by decide, by decide, by decide, ⟨_, rfl⟩, ⟨_, _, rfl⟩, ⟨_, _, rfl⟩, ⟨_, _, rfl⟩,
    noLinkAnc_of_exists osGoodL_exampleHL (by decide)⟩

/-- on that disk `RemoveAll("/d")` returns nil; `/d`, which leads to the hidden `/d/s`, is still a
directory; the symlink `/d/i` INTO the hidden directory, the dangling symlink `/d/g` and the file
`/d/f` are gone; the symlink `/d/s` AT a hidden path, the hidden directory `/h` and the file `/h/x`
below it are on the disk exactly as before (stored target, mode, times included) -/
theorem example_with_links :
    let res := hiddenRemoveAll (HiddenFS.mk ([[['h']], [['d'], ['s']]].map kp)) ((osCfg [['b']] [['k']]).side .base) 64
      exDiskHL (kp [['d']])
    res.2 = .ok () ∧
    (osViewL [['b']] [['k']] .base res.1).isDirAt [['d']] ∧
    osViewL [['b']] [['k']] .base res.1 [['d'], ['i']] = none ∧
    osViewL [['b']] [['k']] .base res.1 [['d'], ['g']] = none ∧
    osViewL [['b']] [['k']] .base res.1 [['d'], ['f']] = none ∧
    res.1.get [['b'], ['d'], ['s']] = some (.link ['/', 'h', '/', 'x'] { exMeta with mode := 0o777 }) ∧
    (res.1.get [['b'], ['h']]).map eraseMt = some (.dir { exMeta with mtime := .fresh }) ∧
    res.1.get [['b'], ['h'], ['x']] = some (.file "secret" { exMeta with mode := 0o600 }) := by
  intro res
  have hpk : ∀ h ∈ [[['h']], [['d'], ['s']]], PKey h := by decide
  have hd : (osViewL [['b']] [['k']] .base exDiskHL).isDirAt [['d']] := ⟨_, rfl⟩
  have hex : osViewL [['b']] [['k']] .base exDiskHL [['d']] ≠ none := by decide
  have hna := noLinkAnc_of_exists osGoodL_exampleHL hex
  have hA := removeAll_spares_hidden_with_links [['b']] [['k']] (by decide) (by decide) (by decide) (by decide)
    (by decide) (by decide) [[['h']], [['d'], ['s']]] hpk [['d']] (by decide) (by decide) exDiskHL
    osGoodL_exampleHL hna 64
  have hC := removeAll_succeeds_with_links [['b']] [['k']] (by decide) (by decide) (by decide) (by decide)
    (by decide) (by decide) [[['h']], [['d'], ['s']]] hpk [['d']] (by decide) (by decide) exDiskHL
    osGoodL_exampleHL 64 (by decide) hex (fun j _ hv => exDiskHL_height _ j hv)
  have hB := removeAll_removes_the_rest_with_links [['b']] [['k']] (by decide) (by decide) (by decide) (by decide)
    (by decide) (by decide) [[['h']], [['d'], ['s']]] hpk [['d']] (by decide) (by decide) exDiskHL
    osGoodL_exampleHL hna 64 hC
  obtain ⟨_, _, _, _, hA5, _, _, _, hA9, _⟩ := hA
  refine ⟨hC, ?_, ?_, ?_, ?_, ?_, ?_, ?_⟩
  · obtain ⟨mt, e⟩ := hd
    exact ⟨mt, (hA5 [['d']] (by decide) ⟨mt, e⟩).trans e⟩
  · exact hB [['d'], ['i']] (by decide) (by decide) (fun hc => absurd hc.1 (by decide))
  · exact hB [['d'], ['g']] (by decide) (by decide) (fun hc => absurd hc.1 (by decide))
  · exact hB [['d'], ['f']] (by decide) (by decide) (fun hc => absurd hc.1 (by decide))
  · have h := hA9 [['d'], ['s']] (by decide)
    have e0 : exDiskHL.get ([['b']] ++ [['d'], ['s']]) = some (.link ['/', 'h', '/', 'x'] { exMeta with mode := 0o777 }) := rfl
    rw [e0] at h
    cases hr : res.1.get ([['b']] ++ [['d'], ['s']]) with
    | none => rw [hr] at h; cases h
    | some n =>
      rw [hr] at h
      cases n with
      | link t mt =>
        simp [eraseMt] at h
        obtain ⟨rfl, rfl⟩ := h
        exact hr
      | file c mt => simp [eraseMt] at h
      | dir mt => simp [eraseMt] at h
  · exact hA9 [['h']] (by decide)
  · have h := hA9 [['h'], ['x']] (by decide)
    have e0 : exDiskHL.get ([['b']] ++ [['h'], ['x']]) = some (.file "secret" { exMeta with mode := 0o600 }) := rfl
    rw [e0] at h
    cases hr : res.1.get ([['b']] ++ [['h'], ['x']]) with
    | none => rw [hr] at h; cases h
    | some n =>
      rw [hr] at h
      cases n with
      | file c mt =>
        simp [eraseMt] at h
        obtain ⟨rfl, rfl⟩ := h
        exact hr
      | link t mt => simp [eraseMt] at h
      | dir mt => simp [eraseMt] at h

/-! ## the hypothesis `NoLinkAnc` is forced (known finding K-hidden-symlink-route)

Base root `/b` with a hidden directory `/h` holding `/h/x`, and a symlink `/l -> h` next to it.
`RemoveAll("/l/x")` names nothing hidden lexically; the argument's proper ancestor `/l` is a symlink
into the hidden directory, `Lstat` and `Remove` of the underlying filesystem traverse it, and the
hidden file is deleted.  Kernel-checked (no walk is involved: the entry found is a file). -/

def exDiskRoute : MFS where
  get := fun k =>
    if k = [] then some (.dir exMeta)
    else if k = [['b']] then some (.dir exMeta)
    else if k = [['k']] then some (.dir exMeta)
    else if k = [['b'], ['h']] then some (.dir exMeta)
    else if k = [['b'], ['h'], ['x']] then some (.file "secret" { exMeta with mode := 0o600 })
    else if k = [['b'], ['l']] then some (.link ['h'] { exMeta with mode := 0o777 })
    else none
  dom := [[], [['b']], [['k']], [['b'], ['h']], [['b'], ['h'], ['x']], [['b'], ['l']]]
  umask := 0o022

theorem removeAll_through_linked_parent_reaches_hidden :
    let res := hiddenRemoveAll (HiddenFS.mk ([[['h']]].map kp)) ((osCfg [['b']] [['k']]).side .base) 64
      exDiskRoute (kp [['l'], ['x']])
    HiddenFS.isHidden (kp [['l'], ['x']]) (HiddenFS.mk ([[['h']]].map kp)) = .ok false ∧
    res.2 = .ok () ∧ exDiskRoute.get [['b'], ['h'], ['x']] ≠ none ∧ res.1.get [['b'], ['h'], ['x']] = none := by
  decide

theorem exDiskRoute_live {k : Key} {n : Node} (h : exDiskRoute.get k = some n) :
    (k = [] ∧ n = .dir exMeta) ∨
    (k = [['b']] ∧ n = .dir exMeta) ∨
    (k = [['k']] ∧ n = .dir exMeta) ∨
    (k = [['b'], ['h']] ∧ n = .dir exMeta) ∨
    (k = [['b'], ['h'], ['x']] ∧ n = .file "secret" { exMeta with mode := 0o600 }) ∨
    (k = [['b'], ['l']] ∧ n = .link ['h'] { exMeta with mode := 0o777 }) := by
  simp only [exDiskRoute] at h
  split at h
  · cases h; exact Or.inl ⟨‹_›, rfl⟩
  split at h
  · cases h; exact Or.inr (Or.inl ⟨‹_›, rfl⟩)
  split at h
  · cases h; exact Or.inr (Or.inr (Or.inl ⟨‹_›, rfl⟩))
  split at h
  · cases h; exact Or.inr (Or.inr (Or.inr (Or.inl ⟨‹_›, rfl⟩)))
  split at h
  · cases h; exact Or.inr (Or.inr (Or.inr (Or.inr (Or.inl ⟨‹_›, rfl⟩))))
  split at h
  · cases h; exact Or.inr (Or.inr (Or.inr (Or.inr (Or.inr (⟨‹_›, rfl⟩)))))
  · cases h

/-- every other hypothesis of T11L.A holds of that disk and argument; only `NoLinkAnc` fails -/
theorem exDiskRoute_hyps : OSGoodL [['b']] [['k']] exDiskRoute ∧ PKey [['l'], ['x']] ∧
    ¬ NoLinkAnc (osViewL [['b']] [['k']] .base exDiskRoute) [['l'], ['x']] := by
  refine ⟨⟨⟨_, rfl⟩, ?_, ?_, ?_, ?_, ⟨_, rfl⟩, ⟨_, rfl⟩⟩, by decide, ?_⟩
  · intro k n h
    rcases exDiskRoute_live h with ⟨rfl, _⟩ | ⟨rfl, _⟩ | ⟨rfl, _⟩ | ⟨rfl, _⟩ | ⟨rfl, _⟩ | ⟨rfl, _⟩ <;> decide
  · intro k n h
    rcases exDiskRoute_live h with ⟨rfl, _⟩ | ⟨rfl, _⟩ | ⟨rfl, _⟩ | ⟨rfl, _⟩ | ⟨rfl, _⟩ | ⟨rfl, _⟩ <;> decide
  · intro k n h
    rcases exDiskRoute_live h with ⟨_, rfl⟩ | ⟨_, rfl⟩ | ⟨_, rfl⟩ | ⟨_, rfl⟩ | ⟨_, rfl⟩ | ⟨_, rfl⟩ <;> decide
  · intro k n h hne
    rcases exDiskRoute_live h with ⟨rfl, _⟩ | ⟨rfl, _⟩ | ⟨rfl, _⟩ | ⟨rfl, _⟩ | ⟨rfl, _⟩ | ⟨rfl, _⟩
    · exact absurd rfl hne
    all_goals exact ⟨_, rfl⟩
  · intro hna
    exact hna [['l']] (by decide) (by decide) ⟨_, _, rfl⟩

end Props.C11
