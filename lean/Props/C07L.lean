import Lemmas.LBOS
import Lemmas.LBGTx
import Props.C01L
import Props.C01G
/-!
# C07 (symlinks as leaves) — Rollback returns nil and leaves the backup exactly as it was

The clauses "Rollback returns nil" (C01) and "afterwards the backup filesystem is exactly as it was
before the transaction" (C07) for the fragment of `Props.C01L.rollback_restores_symlink_leaves_partial`:
the OS model behind two `PrefixFS` layers, every well-formed disk whose base subtree may contain
**symlinks (any target text) as leaves**, healthy filesystems (empty fault plan), the backup root an
empty directory at the start, any number of consecutive transactions and in each every finite history
of covered operations (`L.Op.Covered`, unchanged: absolute names, no operation traverses or follows a
symlink, `Symlink`/`Rename`/`Remove`/`RemoveAll`/`Lchown` on the links themselves included; a link that
is going to be backed up must be re-creatable through the BASE `PrefixFS` — K-escaping-link).

* `rollback_returns_nil_symlink_leaves_partial` — every `Rollback` returns nil;
* `backup_clean_after_rollback_symlink_leaves_partial` — after the last `Rollback` every entry at or
  below the backup root is what it was before the first operation (view `L.eraseV`: directory
  timestamps erased, as in C01): in particular the backup is empty again;
* `backup_invariant_after_history_symlink_leaves` — the invariant behind both (`L.InvB`,
  Lemmas/LBInv.lean): on healthy filesystems every key tracked with a `FileInfo` has, in the backup, an
  EXACT copy of the original (files, directories and symlinks) and the backup holds nothing else.

How: `L.Inv` (C01) strengthened by the backup-side clauses `L.BInv`, preserved by `prepare` (every copy
helper succeeds on healthy filesystems because the parent is already a backup directory and the key is
absent there: Lemmas/LBTrack.lean), by every covered operation incl. `Symlink` and the `RemoveAll` walk
(Lemmas/LBOps.lean), then Rollback's seven loops: restore as in C01, then the clean-up — symlink
copies, files, directories deepest first — each `Remove` succeeds because everything below a backup
directory is a tracked copy that went before it (Lemmas/LBRestore.lean).

No hypothesis about the BACKUP `PrefixFS` accepting a link is needed: when it refuses the copy of a link
whose relative target climbs out of the backup root (K-escaping-link) the operation fails, nothing is
recorded, and nothing is left behind (`L.osSymErrPure`: a refused `Symlink` writes nothing).

Not covered (`_partial`): what `L.Op.Covered` excludes, and fault plans (after a faulted backup copy
Rollback restores the base but reports an error, see C08).
-/
namespace Props.C07
open BFS BFS.BackupFS BFS.L

/-- the backup root is empty: stated on the disk, and as the view-level hypothesis of `L.txs_clean` -/
theorem osViewL_empty {bk kk : Key} {m : MFS} (hempty : ∀ k, k ≠ [] → m.get (kk ++ k) = none) :
    ∀ k, k ≠ [] → osViewL bk kk .backup m k = none := by
  intro k hk
  show (m.get (kk ++ k)).map (eraseV (kp kk)) = none
  rw [hempty k hk]; rfl

/-- T07L.1a  Rollback returns nil — symlinks as leaves, healthy filesystems, any number of
transactions: the Rollback that ends each of them reports no error. -/
theorem rollback_returns_nil_symlink_leaves_partial (bk kk : Key) (hbk : PKey bk) (hkk : PKey kk)
    (hne1 : bk ≠ []) (hne2 : kk ≠ []) (hd1 : ¬ bk <+: kk) (hd2 : ¬ kk <+: bk)
    (w : World) (hg : OSGoodL bk kk w.fs) (hinfos : w.infos = []) (hnf : w.faults = [])
    (hempty : ∀ k, k ≠ [] → w.fs.get (kk ++ k) = none)
    (txs : List (List Op))
    (hcov : L.CoveredTxs (osCfg bk kk) (osSimL bk kk hbk hkk hne1 hne2 hd1 hd2) w txs) :
    ∀ pre ops post, txs = pre ++ ops :: post →
      (rollback (osCfg bk kk) (runOps (osCfg bk kk) (pre.foldl (runTx (osCfg bk kk)) w) ops)).2 = .ok false :=
  (L.txs_clean (S := osSimL bk kk hbk hkk hne1 hne2 hd1 hd2) (osSymErrPure bk kk) txs w hg hinfos hnf
    (osViewL_empty hempty) hcov).2

/-- T07L.1b  after Rollback the backup filesystem is exactly as it was before the transaction —
symlinks as leaves, healthy filesystems, any number of transactions (directory timestamps erased from
the comparison, as in C01). -/
theorem backup_clean_after_rollback_symlink_leaves_partial (bk kk : Key) (hbk : PKey bk) (hkk : PKey kk)
    (hne1 : bk ≠ []) (hne2 : kk ≠ []) (hd1 : ¬ bk <+: kk) (hd2 : ¬ kk <+: bk)
    (w : World) (hg : OSGoodL bk kk w.fs) (hinfos : w.infos = []) (hnf : w.faults = [])
    (hempty : ∀ k, k ≠ [] → w.fs.get (kk ++ k) = none)
    (txs : List (List Op))
    (hcov : L.CoveredTxs (osCfg bk kk) (osSimL bk kk hbk hkk hne1 hne2 hd1 hd2) w txs) :
    ∀ k, ((txs.foldl (runTx (osCfg bk kk)) w).fs.get (kk ++ k)).map (eraseV (kp kk)) =
      (w.fs.get (kk ++ k)).map (eraseV (kp kk)) :=
  fun k => congrFun (L.txs_clean (S := osSimL bk kk hbk hkk hne1 hne2 hd1 hd2) (osSymErrPure bk kk) txs w
    hg hinfos hnf (osViewL_empty hempty) hcov).1 k

/-- in particular nothing is left below the backup root -/
theorem backup_empty_after_rollback_symlink_leaves_partial (bk kk : Key) (hbk : PKey bk) (hkk : PKey kk)
    (hne1 : bk ≠ []) (hne2 : kk ≠ []) (hd1 : ¬ bk <+: kk) (hd2 : ¬ kk <+: bk)
    (w : World) (hg : OSGoodL bk kk w.fs) (hinfos : w.infos = []) (hnf : w.faults = [])
    (hempty : ∀ k, k ≠ [] → w.fs.get (kk ++ k) = none)
    (txs : List (List Op))
    (hcov : L.CoveredTxs (osCfg bk kk) (osSimL bk kk hbk hkk hne1 hne2 hd1 hd2) w txs) :
    ∀ k, k ≠ [] → (txs.foldl (runTx (osCfg bk kk)) w).fs.get (kk ++ k) = none := by
  intro k hk
  have := backup_clean_after_rollback_symlink_leaves_partial bk kk hbk hkk hne1 hne2 hd1 hd2 w hg hinfos hnf
    hempty txs hcov k
  rw [hempty k hk] at this
  exact Option.map_eq_none_iff.mp this

/-- T07L.inv  after any covered history on healthy filesystems: every key tracked with a `FileInfo` has
an exact copy in the backup (files, directories, symlinks), the backup holds nothing but such copies
(also a clause of C02), and the backup root is untouched -/
theorem backup_invariant_after_history_symlink_leaves (bk kk : Key) (hbk : PKey bk) (hkk : PKey kk)
    (hne1 : bk ≠ []) (hne2 : kk ≠ []) (hd1 : ¬ bk <+: kk) (hd2 : ¬ kk <+: bk)
    (w : World) (hg : OSGoodL bk kk w.fs) (hinfos : w.infos = []) (hnf : w.faults = [])
    (hempty : ∀ k, k ≠ [] → w.fs.get (kk ++ k) = none) (ops : List Op)
    (hcov : L.CoveredHist (osCfg bk kk) (osSimL bk kk hbk hkk hne1 hne2 hd1 hd2) w ops) :
    L.InvB (osSimL bk kk hbk hkk hne1 hne2 hd1 hd2) (osViewL bk kk .base w.fs) (osViewL bk kk .backup w.fs [])
      (runOps (osCfg bk kk) w ops) :=
  (L.history_keepsB (osSymErrPure bk kk) ops w (L.InvB.init (S := osSimL bk kk hbk hkk hne1 hne2 hd1 hd2)
    hg hinfos hnf (osViewL_empty hempty)) hcov).inv

/-! ## Non-vacuity: a disk with a file link and a directory link as leaves -/

/-- `/`, `/b` (base root) with a file `/b/f`, a directory `/b/d`, a symlink to the file `/b/l -> "f"` and a
symlink to the directory `/b/m -> "d"`; `/k` (backup root) empty -/
def exDiskLB : MFS where
  get := fun k =>
    if k = [] then some (.dir exMeta)
    else if k = [['b']] then some (.dir exMeta)
    else if k = [['k']] then some (.dir exMeta)
    else if k = [['b'], ['f']] then some (.file "hello" { exMeta with mode := 0o644 })
    else if k = [['b'], ['d']] then some (.dir exMeta)
    else if k = [['b'], ['l']] then some (.link ['f'] { exMeta with mode := 0o777 })
    else if k = [['b'], ['m']] then some (.link ['d'] { exMeta with mode := 0o777 })
    else none
  dom := [[], [['b']], [['k']], [['b'], ['f']], [['b'], ['d']], [['b'], ['l']], [['b'], ['m']]]
  umask := 0o022

theorem exDiskLB_live {k : Key} {n : Node} (h : exDiskLB.get k = some n) :
    (k = [] ∧ n = .dir exMeta) ∨ (k = [['b']] ∧ n = .dir exMeta) ∨ (k = [['k']] ∧ n = .dir exMeta) ∨
    (k = [['b'], ['f']] ∧ n = .file "hello" { exMeta with mode := 0o644 }) ∨ (k = [['b'], ['d']] ∧ n = .dir exMeta) ∨
    (k = [['b'], ['l']] ∧ n = .link ['f'] { exMeta with mode := 0o777 }) ∨
    (k = [['b'], ['m']] ∧ n = .link ['d'] { exMeta with mode := 0o777 }) := by
  simp only [exDiskLB] at h
  split at h
  · cases h; exact Or.inl ⟨‹_›, rfl⟩
  split at h
  · cases h; exact Or.inr (Or.inl ⟨‹_›, rfl⟩)
  split at h
  · cases h; exact Or.inr (Or.inr (Or.inl ⟨‹_›, rfl⟩))
  split at h
  · cases h; exact Or.inr (Or.inr (Or.inr (Or.inl ⟨‹_›, rfl⟩)))
  split at h
  · cases h; exact Or.inr (Or.inr (Or.inr (Or.inr (Or.inl ⟨‹_›, rfl⟩))))
  split at h
  · cases h; exact Or.inr (Or.inr (Or.inr (Or.inr (Or.inr (Or.inl ⟨‹_›, rfl⟩)))))
  split at h
  · cases h; exact Or.inr (Or.inr (Or.inr (Or.inr (Or.inr (Or.inr ⟨‹_›, rfl⟩)))))
  · cases h

theorem osGoodL_exDiskLB : OSGoodL [['b']] [['k']] exDiskLB := by
  refine ⟨⟨_, rfl⟩, ?_, ?_, ?_, ?_, ⟨_, rfl⟩, ⟨_, rfl⟩⟩
  · intro k n h
    rcases exDiskLB_live h with ⟨rfl, _⟩ | ⟨rfl, _⟩ | ⟨rfl, _⟩ | ⟨rfl, _⟩ | ⟨rfl, _⟩ | ⟨rfl, _⟩ | ⟨rfl, _⟩ <;> decide
  · intro k n h
    rcases exDiskLB_live h with ⟨rfl, _⟩ | ⟨rfl, _⟩ | ⟨rfl, _⟩ | ⟨rfl, _⟩ | ⟨rfl, _⟩ | ⟨rfl, _⟩ | ⟨rfl, _⟩ <;> decide
  · intro k n h
    rcases exDiskLB_live h with ⟨_, rfl⟩ | ⟨_, rfl⟩ | ⟨_, rfl⟩ | ⟨_, rfl⟩ | ⟨_, rfl⟩ | ⟨_, rfl⟩ | ⟨_, rfl⟩ <;> decide
  · intro k n h hne
    rcases exDiskLB_live h with ⟨rfl, _⟩ | ⟨rfl, _⟩ | ⟨rfl, _⟩ | ⟨rfl, _⟩ | ⟨rfl, _⟩ | ⟨rfl, _⟩ | ⟨rfl, _⟩
    · exact absurd rfl hne
    all_goals exact ⟨_, rfl⟩

/-- the backup root of the example is empty -/
theorem exDiskLB_empty : ∀ k, k ≠ [] → exDiskLB.get ([['k']] ++ k) = none := by
  intro k hk
  cases h : exDiskLB.get ([['k']] ++ k) with
  | none => rfl
  | some n =>
    exfalso
    rcases exDiskLB_live h with ⟨e, _⟩ | ⟨e, _⟩ | ⟨e, _⟩ | ⟨e, _⟩ | ⟨e, _⟩ | ⟨e, _⟩ | ⟨e, _⟩ <;> simp at e
    exact hk e

abbrev cfgB := osCfg [['b']] [['k']]
def wB0 : World := { fs := exDiskLB }
def wB1 := Op.step cfgB wB0 (.remove "/l".toList)
def wB2 := Op.step cfgB wB1 (.remove "/m".toList)
def wB3 := runTx cfgB wB0 [.remove "/l".toList, .remove "/m".toList, .symlink "d".toList "/l".toList]
def wB4 := Op.step cfgB wB3 (.rename "/m".toList "/n".toList)

set_option maxRecDepth 100000 in
/-- non-vacuity: the hypotheses of the theorems above hold of an ordinary disk with a symlink to a file
(`/b/l -> "f"`) and a symlink to a directory (`/b/m -> "d"`) as leaves, the backup root `/k` empty, and
two transactions: remove both links and create a link to the directory where the link to the file was;
then (after the first Rollback has put both links back) rename the directory link and change the owner
of the file link. -/
example : OSGoodL [['b']] [['k']] wB0.fs ∧ wB0.infos = [] ∧ wB0.faults = [] ∧
    (∀ k, k ≠ [] → wB0.fs.get ([['k']] ++ k) = none) ∧
    L.CoveredTxs cfgB osSimL_example wB0
      [[.remove "/l".toList, .remove "/m".toList, .symlink "d".toList "/l".toList],
       [.rename "/m".toList "/n".toList, .lchown "/l".toList 5 6]] := by
  have hKl : PKey [['l']] := by decide
  have hKm : PKey [['m']] := by decide
  have hKn : PKey [['n']] := by decide
  have hcl : clean "/l".toList = kp [['l']] := by decide
  have hcm : clean "/m".toList = kp [['m']] := by decide
  have hcn : clean "/n".toList = kp [['n']] := by decide
  have hokl : osSimL_example.LinkOK .base [['l']] ['f'] := Or.inr (by decide +kernel)
  have hokm : osSimL_example.LinkOK .base [['m']] ['d'] := Or.inr (by decide +kernel)
  have hokn : osSimL_example.LinkOK .base [['n']] ['d'] := Or.inr (by decide +kernel)
  refine ⟨osGoodL_exDiskLB, rfl, rfl, exDiskLB_empty, ⟨?_, ?_, ?_, trivial⟩, ⟨?_, ?_, trivial⟩, trivial⟩
  · -- Remove("/l"): a symlink to a file, which the base accepts
    refine ⟨by decide, by decide, Props.C01L.covered_key hKl hcl ⟨Props.C01L.noLinkAnc_top ⟨Props.C01L.rootE, by decide +kernel⟩, ?_⟩⟩
    intro t mt hv
    have : osSimL_example.view .base wB0.fs [['l']] = some (.link ['f'] { exMeta with mode := 0o777, mtime := .fresh }) := by
      decide +kernel
    have hv' := this.symm.trans hv; cases hv'; exact hokl
  · -- Remove("/m"): a symlink to a directory
    refine ⟨by decide, by decide, Props.C01L.covered_key hKm hcm ⟨Props.C01L.noLinkAnc_top ⟨Props.C01L.rootE, by decide +kernel⟩, ?_⟩⟩
    intro t mt hv
    have : osSimL_example.view .base wB1.fs [['m']] = some (.link ['d'] { exMeta with mode := 0o777, mtime := .fresh }) := by
      decide +kernel
    have hv' := this.symm.trans hv; cases hv'; exact hokm
  · -- Symlink("d", "/l"): nothing is there any more, and nothing tracked lies below
    refine ⟨by decide, Props.C01L.covered_key hKl hcl ⟨⟨Props.C01L.noLinkAnc_top ⟨Props.C01L.rootE, by decide +kernel⟩, ?_⟩, ?_⟩⟩
    · intro t mt hv
      have : osSimL_example.view .base wB2.fs [['l']] = none := by decide +kernel
      have hv' := this.symm.trans hv; cases hv'
    · apply Props.C01L.noneBelow_of (l := ["/".toList, "/l".toList, "/m".toList]) (by decide +kernel)
      intro p hp j hj e hpre
      simp only [List.mem_cons, List.mem_nil_iff, or_false] at hp
      rcases hp with rfl | rfl | rfl
      · have : j = [] := kp_inj hj PKey.nil e.symm
        subst this
        simp at hpre
      · exact kp_inj hj hKl e.symm
      · have : j = [['m']] := kp_inj hj hKm e.symm
        subst this
        exact absurd hpre (by decide)
  · -- second transaction: Rename("/m", "/n") of the restored directory link
    refine ⟨by decide, by decide, ?_⟩
    intro ko kn hko hkn eo en
    have h1 := kp_inj hko hKm (eo.symm.trans hcm)
    have h2 := kp_inj hkn hKn (en.symm.trans hcn)
    subst h1 h2
    have hvm : osSimL_example.view .base wB3.fs [['m']] = some (.link ['d'] { mode := 0o777, uid := 0, gid := 0, mtime := .fresh }) := by
      decide +kernel
    have hvn : osSimL_example.view .base wB3.fs [['n']] = none := by decide +kernel
    have hroot : (osSimL_example.view .base wB3.fs).isDirAt [] := ⟨Props.C01L.rootE, by decide +kernel⟩
    refine ⟨⟨Props.C01L.noLinkAnc_top hroot, ?_⟩, ⟨Props.C01L.noLinkAnc_top hroot, ?_⟩, ?_, ?_⟩
    · intro t mt hv; have hv' := hvm.symm.trans hv; cases hv'; exact hokm
    · intro t mt hv; have hv' := hvn.symm.trans hv; cases hv'
    · rintro ⟨⟨mt, hd⟩, _⟩; have hd' := hvm.symm.trans hd; cases hd'
    · intro _
      apply Props.C01L.noneBelow_of (l := []) (by decide +kernel)
      intro p hp; cases hp
  · -- Lchown("/l") on the restored file link
    refine ⟨by decide, Props.C01L.covered_key hKl hcl ⟨Props.C01L.noLinkAnc_top ⟨Props.C01L.rootE, by decide +kernel⟩, ?_⟩⟩
    intro t mt hv
    have : osSimL_example.view .base wB4.fs [['l']] = some (.link ['f'] { mode := 0o777, uid := 0, gid := 0, mtime := .fresh }) := by
      decide +kernel
    have hv' := this.symm.trans hv; cases hv'; exact hokl

/-!
## Names through FLAT symlinks

The same three statements for the fragment of `Props.C01.rollback_restores_through_flat_links_partial`
(`L.G.Op.Covered`, Lemmas/GTx.lean): the names of the operations may pass through symlinked directories,
the disk being `F16.Flat` below the base root in the state each operation is issued in; what
`L.Op.Covered` demands of the cleaned name is demanded of the key `realPath` resolves it to.  The
per-operation lemmas are those of the symlink-leaves development over the resolved key
(Lemmas/LBGOps.lean, Lemmas/LBGTx.lean); Rollback never resolves a name, so its half is verbatim.
-/

/-- T07G.1a  Rollback returns nil — names through flat links, healthy filesystems, any number of
transactions. -/
theorem rollback_returns_nil_through_flat_links_partial (bk kk : Key) (hbk : PKey bk) (hkk : PKey kk)
    (hne1 : bk ≠ []) (hne2 : kk ≠ []) (hd1 : ¬ bk <+: kk) (hd2 : ¬ kk <+: bk)
    (w : World) (hg : OSGoodL bk kk w.fs) (hinfos : w.infos = []) (hnf : w.faults = [])
    (hempty : ∀ k, k ≠ [] → w.fs.get (kk ++ k) = none)
    (txs : List (List Op))
    (hcov : G.CoveredTxs (osCfg bk kk) bk (osSimL bk kk hbk hkk hne1 hne2 hd1 hd2) w txs) :
    ∀ pre ops post, txs = pre ++ ops :: post →
      (rollback (osCfg bk kk) (runOps (osCfg bk kk) (pre.foldl (runTx (osCfg bk kk)) w) ops)).2 = .ok false :=
  (G.txs_cleanG (hbk := hbk) (hkk := hkk) (hne1 := hne1) (hne2 := hne2) (hd1 := hd1) (hd2 := hd2) txs w
    hg hinfos hnf (osViewL_empty hempty) hcov).2

/-- T07G.1b  after Rollback the backup filesystem is exactly as it was before the transaction — names
through flat links, healthy filesystems, any number of transactions. -/
theorem backup_clean_after_rollback_through_flat_links_partial (bk kk : Key) (hbk : PKey bk) (hkk : PKey kk)
    (hne1 : bk ≠ []) (hne2 : kk ≠ []) (hd1 : ¬ bk <+: kk) (hd2 : ¬ kk <+: bk)
    (w : World) (hg : OSGoodL bk kk w.fs) (hinfos : w.infos = []) (hnf : w.faults = [])
    (hempty : ∀ k, k ≠ [] → w.fs.get (kk ++ k) = none)
    (txs : List (List Op))
    (hcov : G.CoveredTxs (osCfg bk kk) bk (osSimL bk kk hbk hkk hne1 hne2 hd1 hd2) w txs) :
    ∀ k, ((txs.foldl (runTx (osCfg bk kk)) w).fs.get (kk ++ k)).map (eraseV (kp kk)) =
      (w.fs.get (kk ++ k)).map (eraseV (kp kk)) :=
  fun k => congrFun (G.txs_cleanG (hbk := hbk) (hkk := hkk) (hne1 := hne1) (hne2 := hne2) (hd1 := hd1) (hd2 := hd2)
    txs w hg hinfos hnf (osViewL_empty hempty) hcov).1 k

/-- in particular nothing is left below the backup root -/
theorem backup_empty_after_rollback_through_flat_links_partial (bk kk : Key) (hbk : PKey bk) (hkk : PKey kk)
    (hne1 : bk ≠ []) (hne2 : kk ≠ []) (hd1 : ¬ bk <+: kk) (hd2 : ¬ kk <+: bk)
    (w : World) (hg : OSGoodL bk kk w.fs) (hinfos : w.infos = []) (hnf : w.faults = [])
    (hempty : ∀ k, k ≠ [] → w.fs.get (kk ++ k) = none)
    (txs : List (List Op))
    (hcov : G.CoveredTxs (osCfg bk kk) bk (osSimL bk kk hbk hkk hne1 hne2 hd1 hd2) w txs) :
    ∀ k, k ≠ [] → (txs.foldl (runTx (osCfg bk kk)) w).fs.get (kk ++ k) = none := by
  intro k hk
  have := backup_clean_after_rollback_through_flat_links_partial bk kk hbk hkk hne1 hne2 hd1 hd2 w hg hinfos hnf
    hempty txs hcov k
  rw [hempty k hk] at this
  exact Option.map_eq_none_iff.mp this

/-- T07G.inv  the invariant `L.InvB` after any covered history through flat links on healthy filesystems -/
theorem backup_invariant_after_history_through_flat_links (bk kk : Key) (hbk : PKey bk) (hkk : PKey kk)
    (hne1 : bk ≠ []) (hne2 : kk ≠ []) (hd1 : ¬ bk <+: kk) (hd2 : ¬ kk <+: bk)
    (w : World) (hg : OSGoodL bk kk w.fs) (hinfos : w.infos = []) (hnf : w.faults = [])
    (hempty : ∀ k, k ≠ [] → w.fs.get (kk ++ k) = none) (ops : List Op)
    (hcov : G.CoveredHist (osCfg bk kk) bk (osSimL bk kk hbk hkk hne1 hne2 hd1 hd2) w ops) :
    L.InvB (osSimL bk kk hbk hkk hne1 hne2 hd1 hd2) (osViewL bk kk .base w.fs) (osViewL bk kk .backup w.fs [])
      (runOps (osCfg bk kk) w ops) :=
  (G.history_keepsB (hbk := hbk) (hkk := hkk) (hne1 := hne1) (hne2 := hne2) (hd1 := hd1) (hd2 := hd2) ops w
    (L.InvB.init (S := osSimL bk kk hbk hkk hne1 hne2 hd1 hd2) hg hinfos hnf (osViewL_empty hempty)) hcov).inv

/-- a disk given as a list holds nothing below `kk` -/
theorem listDisk_empty_below {kk : Key} {l : List (Key × Node)}
    (h : l.all (fun e => !(kk.isPrefixOf e.1) || e.1 == kk) = true) :
    ∀ k, k ≠ [] → (F16.listDisk l).get (kk ++ k) = none := by
  intro k hk
  cases hget : (F16.listDisk l).get (kk ++ k) with
  | none => rfl
  | some n =>
    exfalso
    have hm := F16.lookup_mem hget
    have := List.all_eq_true.mp h _ hm
    have hp : kk.isPrefixOf (kk ++ k) = true := List.isPrefixOf_iff_prefix.mpr (List.prefix_append _ _)
    simp only [hp, Bool.not_true, Bool.false_or, beq_iff_eq] at this
    exact hk (by simpa using this)

/-- non-vacuity: the flat disk of Props/C16F.lean (directory links `/abs -> /real`, `/d/rel -> ../real/./sub`,
`/d/up -> ../d/../real`, the file link `/real/fl -> sub/f`, a dangling link; backup root `/k` empty) and
the two transactions of Props/C01G.lean, every mutating operation of which names its object through a
symlinked directory, satisfy the hypotheses. -/
example : OSGoodL [['b']] [['k']] Props.C01.wG0.fs ∧ Props.C01.wG0.infos = [] ∧ Props.C01.wG0.faults = [] ∧
    (∀ k, k ≠ [] → Props.C01.wG0.fs.get ([['k']] ++ k) = none) ∧
    G.CoveredTxs Props.C01.cfgG [['b']] osSimL_example Props.C01.wG0 [Props.C01.opsG1, Props.C01.opsG2] :=
  ⟨Props.C16.flatDisk_good, rfl, rfl,
    listDisk_empty_below (kk := [['k']]) (l := Props.C16.flatEntries) (by decide +kernel),
    Props.C01.tx1_covered, Props.C01.tx2_covered, trivial⟩

/-! ## The branch in which the BACKUP `PrefixFS` refuses the copy of a link -/

/-- `/b/f -> "../b/c"`: a relative link that stays below the base root `/b` only by naming it -/
def relinkDisk : MFS where
  get := fun k =>
    if k = [] then some (.dir exMeta)
    else if k = [['b']] then some (.dir exMeta)
    else if k = [['k']] then some (.dir exMeta)
    else if k = [['b'], ['c']] then some (.file "hello" { exMeta with mode := 0o644 })
    else if k = [['b'], ['f']] then some (.link "../b/c".toList { exMeta with mode := 0o777 })
    else none
  dom := [[], [['b']], [['k']], [['b'], ['c']], [['b'], ['f']]]
  umask := 0o022

set_option maxRecDepth 100000 in
/-- K-escaping-link, seen from the other side (candidate finding for C03, see NOTES): the base `PrefixFS`
admits the link `/f -> ../b/c` (from `/b/f` the target is `/b/c`, inside `/b`), so `Remove("/f")` is a
covered operation; the BACKUP `PrefixFS` refuses the copy (from `/k/f` the same text names `/b/c`, outside
`/k`).  The operation fails on healthy filesystems, the base is untouched, only the root is tracked,
NOTHING is left in the backup (the case `L.SymErrPure` is needed for), and Rollback returns nil. -/
theorem refused_link_copy_leaves_backup_clean :
    let cfg := osCfg [['b']] [['k']]
    let r := Op.exec cfg (.remove "/f".toList) { fs := relinkDisk }
    osLinkOK [['b']] [['k']] .base [['f']] "../b/c".toList ∧
    ¬ osLinkOK [['b']] [['k']] .backup [['f']] "../b/c".toList ∧
    r.2.toOption.isSome = false ∧
    r.1.fs.get [['b'], ['f']] = relinkDisk.get [['b'], ['f']] ∧
    r.1.fs.get [['k'], ['f']] = none ∧ r.1.infos.map Prod.fst = ["/".toList] ∧
    (rollback cfg r.1).2 = .ok false := by
  refine ⟨Or.inr (by decide +kernel), ?_, by decide +kernel, by decide +kernel, by decide +kernel,
    by decide +kernel, by decide +kernel⟩
  rintro (h | h)
  · exact absurd h (by decide +kernel)
  · exact absurd h (by decide +kernel)

end Props.C07
