import Lemmas.NRestore
import Lemmas.NSimOS
/-!
# C04 / C01 — Rollback restores the base in the nested (README) layering

`N.nestedCfg bk hk = NewWithFS (PrefixFS (kp bk) osfs) (kp hk)`: what the differential harness's
"nested" layering builds — `NewPrefixFS(osfs, root)`, then `NewHiddenFS(p, loc)` as the base and
`NewPrefixFS(p, loc)` as the backup.  The backup directory `bk ++ hk` lies *inside* the base tree
and is masked by `HiddenFS`.

Main theorem (`rollback_restores_nested_linkfree_partial`): for every well-formed link-free disk in
which `bk ++ hk` is an existing directory, any number of consecutive transactions, in each every
finite history of covered operations (the same class as in `Props.C01`, judged against the *visible*
base view; names at or below the hidden location and names of its ancestors included), after
Rollback every **visible** entry of the base below its root — every key `k ≠ []` that is not at or
below `hk` — is what it was before the first operation.

The proof is the proof of `Props.C01.rollback_restores_linkfree_partial` replayed over a contract
generalised by the two predicates "hidden" and "leads to a hidden entry" (`N.Sim`,
Lemmas/NSim.lean; Lemmas/NChg…NRestore.lean), and an instance of that contract for the nested
layering (`N.nSim`, Lemmas/NSimOS*.lean) obtained from the laws of the inner `PrefixFS (kp bk) osfs`
and the safety/completeness/success theorems of `HiddenFS.RemoveAll`.

The auxiliary key `dd` names any *other* link-free directory of the disk, outside the base root.
It plays no role in the layering; it is there only because the well-formedness class `OSGood bk dd`
(and the instance `osSim bk dd` whose laws are reused) is the two-root one of `Props.C01`.
-/
namespace Props.C04
open BFS BFS.BackupFS

/-- T04.N (= T01.main for the nested layering)  Rollback restores every visible entry of the base —
link-free fragment, any number of transactions, backup directory nested inside the base and masked
by HiddenFS.  `dd` is any other link-free directory of the disk (see the header). -/
theorem rollback_restores_nested_linkfree_partial (bk hk dd : Key) (hbk : PKey bk) (hhk : PKey hk) (hdd : PKey dd)
    (hne1 : bk ≠ []) (hne2 : hk ≠ []) (hne3 : dd ≠ []) (hd1 : ¬ bk <+: dd) (hd2 : ¬ dd <+: bk)
    (w : World) (hg : OSGood bk dd w.fs) (hloc : ∃ mt, w.fs.get (bk ++ hk) = some (.dir mt))
    (hinfos : w.infos = []) (hnf : w.faults = [])
    (txs : List (List Op))
    (hcov : N.CoveredTxs (N.nestedCfg bk hk)
      (N.nSim bk hk dd ⟨hbk, hhk, hdd, hne1, hne2, hne3, hd1, hd2⟩) w txs) :
    ∀ k, k ≠ [] → ¬ hk <+: k →
      ((txs.foldl (runTx (N.nestedCfg bk hk)) w).fs.get (bk ++ k)).map eraseMt =
        (w.fs.get (bk ++ k)).map eraseMt := by
  intro k hk' hvis
  have := N.txs_restore (S := N.nSim bk hk dd ⟨hbk, hhk, hdd, hne1, hne2, hne3, hd1, hd2⟩) txs w
    ⟨hg, hloc⟩ hinfos hnf hcov k hk'
  have e1 : ∀ m : MFS, (N.nSim bk hk dd ⟨hbk, hhk, hdd, hne1, hne2, hne3, hd1, hd2⟩).view .base m k =
      (m.get (bk ++ k)).map eraseMt := fun m => N.nview_base_vis hvis
  rw [e1, e1] at this
  exact this

/-- T04.N' the backup location survives: after the transactions the disk is again well-formed, in
particular `bk ++ hk` is still a directory and nothing is tracked. -/
theorem nested_wellformed_after (bk hk dd : Key) (hr : N.NRoots bk hk dd)
    (w : World) (hg : N.NGood bk hk dd w.fs) (hinfos : w.infos = []) (hnf : w.faults = [])
    (ops : List Op) (hcov : N.CoveredHist (N.nestedCfg bk hk) (N.nSim bk hk dd hr) w ops) :
    N.NGood bk hk dd (runTx (N.nestedCfg bk hk) w ops).fs ∧ (runTx (N.nestedCfg bk hk) w ops).infos = [] :=
  let r := N.tx_restores (S := N.nSim bk hk dd hr) hg hinfos hnf ops hcov
  ⟨r.1, r.2.1⟩

/-- T04.N'' after any covered history — whatever failed, whatever the fault plan — the transaction
invariant holds in the nested layering. -/
theorem nested_invariant_after_history (bk hk dd : Key) (hr : N.NRoots bk hk dd)
    (w : World) (hg : N.NGood bk hk dd w.fs) (hinfos : w.infos = []) (ops : List Op)
    (hcov : N.CoveredHist (N.nestedCfg bk hk) (N.nSim bk hk dd hr) w ops) :
    N.Inv (N.nSim bk hk dd hr) (N.nview bk hk .base w.fs) (runOps (N.nestedCfg bk hk) w ops) :=
  (N.history_keeps ops w (N.Inv.init (S := N.nSim bk hk dd hr) hg hinfos) hcov).inv

/-- the roots of the example: base root `/b`, backup location `/b/d` (hidden name `/d`), and `/k`
as the other directory -/
theorem nroots_example : N.NRoots [['b']] [['d']] [['k']] :=
  ⟨by decide, by decide, by decide, by decide, by decide, by decide, by decide, by decide⟩

/-- non-vacuity: the hypotheses hold of an ordinary disk — `/b` with a file `/b/f` and the
directory `/b/d`, which serves as the backup location *inside* the base — and of histories that
create, overwrite, remove, make directories and change metadata, including names at and below the
hidden location (`/d`, `/d/x`) (names are relative to the base root) -/
example : OSGood [['b']] [['k']] exDisk ∧ (∃ mt, exDisk.get ([['b']] ++ [['d']]) = some (.dir mt)) ∧
    N.CoveredTxs (N.nestedCfg [['b']] [['d']]) (N.nSim [['b']] [['d']] [['k']] nroots_example) { fs := exDisk }
      [[.creat "/n".toList "x", .write "/f".toList (O_WRONLY ||| O_TRUNC) 0 "y", .remove "/f".toList,
        .mkdirAll "/x/e//g/../h".toList 0o755, .chmod "/x".toList 0o4711, .removeAll "/x".toList,
        .creat "/d/x".toList "hidden", .mkdirAll "/d/q".toList 0o700, .removeAll "/d".toList, .remove "/d".toList],
       [.chown "/n".toList 5 6, .chmod "/d".toList 0o000]] := by
  refine ⟨osGood_example, ⟨_, rfl⟩, ⟨?_, ?_, ?_, ?_, ?_, ?_, ?_, ?_, ?_, ?_, trivial⟩, ⟨?_, ?_, trivial⟩, trivial⟩
  · show isAbs _ = true; decide
  · show isAbs _ = true; decide
  · show isAbs _ = true ∧ clean _ ≠ rootP; decide
  · show isAbs _ = true; decide
  · show isAbs _ = true; decide
  · show isAbs _ = true ∧ clean _ ≠ rootP; decide
  · show isAbs _ = true; decide
  · show isAbs _ = true; decide
  · show isAbs _ = true ∧ clean _ ≠ rootP; decide
  · show isAbs _ = true ∧ clean _ ≠ rootP; decide
  · show isAbs _ = true; decide
  · show isAbs _ = true; decide

end Props.C04
