import Props.C11L
import Props.C15
/-!
# C15 — `RemoveAll` of a visible name on trees WITH SYMLINKS

"[RemoveAll of a visible name has] exactly the result and effect of the same operation on the
underlying filesystem [when nothing hidden is related to it]."

`Props/C15.lean` proves this for link-free trees (`removeAll_transparent_linkfree_partial`).  Here: the
OS model behind `PrefixFS` on every well-formed disk with symlinks anywhere as leaves (`L.OSGoodL`),
compared with the underlying `RemoveAll` itself — `((osCfg bk kk).side .base).call m (.removeAll (kp k))`,
which is `os.RemoveAll` on the prefixed path (`underlying_removeAll_is_os`; `os.RemoveAll` does not
follow symlinks either) — run on the SAME disk: both return nil and the two resulting disks hold the
same node at EVERY disk key (below the argument, elsewhere below the base root, below the backup
root, outside both roots), directory timestamps aside.

`_partial`: the argument exists (as a file, a directory or a symlink) and its subtree fits the walk's
depth bound (64 in `hiddenFS`); see NOTES for the cases left out.
-/
namespace Props.C15
open BFS BFS.L

/-- the operation `HiddenFS.RemoveAll` is compared with: the base side's `RemoveAll` is
`os.RemoveAll` on the prefixed path -/
theorem underlying_removeAll_is_os (bk kk : Key) (hbk : PKey bk) (hkk : PKey kk)
    (hne1 : bk ≠ []) (hne2 : kk ≠ []) (hd1 : ¬ bk <+: kk) (hd2 : ¬ kk <+: bk) (m : MFS) (k : Key) (hk : PKey k) :
    ((osCfg bk kk).side .base).call m (.removeAll (kp k)) = liftU (m.removeAll (kp (bk ++ k))) :=
  HL.side_removeAll_eq ⟨hbk, hkk, hne1, hne2, hd1, hd2⟩ .base m hk

/-- T15L.R  `RemoveAll` is transparent on trees with symlinks when no hidden path is related to the
argument (neither at or below it nor one of its ancestors): for an existing entry `k ≠ /` whose subtree
fits the walk's depth bound, `HiddenFS.RemoveAll` and the underlying `RemoveAll`, run on the same disk,
both return nil and leave the same disk (every key; directory timestamps aside).  In particular every
symlink of the subtree is removed and none is followed: a symlink pointing out of the subtree — into a
hidden path, to the backup side, anywhere — leaves its target untouched, exactly as `os.RemoveAll` does.
The views: the whole subtree is gone, everything else is as before. -/
theorem removeAll_transparent_with_links_partial (bk kk : Key) (hbk : PKey bk) (hkk : PKey kk)
    (hne1 : bk ≠ []) (hne2 : kk ≠ []) (hd1 : ¬ bk <+: kk) (hd2 : ¬ kk <+: bk)
    (hks : List Key) (hp : ∀ h ∈ hks, PKey h) (k : Key) (hk : PKey k) (hne : k ≠ [])
    (m : MFS) (hg : OSGoodL bk kk m) (fuel : Nat)
    (hunrel : ∀ h ∈ hks, ¬ h <+: k ∧ ¬ k <+: h)
    (hex : osViewL bk kk .base m k ≠ none)
    (hht : ∀ j, k <+: j → osViewL bk kk .base m j ≠ none → j.length < k.length + fuel) :
    let res := hiddenRemoveAll (HiddenFS.mk (hks.map kp)) ((osCfg bk kk).side .base) fuel m (kp k)
    let ref := ((osCfg bk kk).side .base).call m (.removeAll (kp k))
    res.2 = .ok () ∧ ref.2 = .ok .unit ∧
    (∀ K, (res.1.get K).map eraseMt = (ref.1.get K).map eraseMt) ∧
    (∀ j, k <+: j → osViewL bk kk .base res.1 j = none) ∧
    (∀ j, ¬ k <+: j → osViewL bk kk .base res.1 j = osViewL bk kk .base m j) ∧
    osViewL bk kk .backup res.1 = osViewL bk kk .backup m := by
  intro res ref
  have hr : Roots bk kk := ⟨hbk, hkk, hne1, hne2, hd1, hd2⟩
  have hna := Props.C11.noLinkAnc_of_exists hg hex
  have hvis : ¬ ∃ h ∈ hks, h <+: k := fun ⟨h, hh, hpre⟩ => (hunrel h hh).1 hpre
  have hok := Props.C11.removeAll_succeeds_with_links bk kk hbk hkk hne1 hne2 hd1 hd2 hks hp k hk hne m hg fuel
    hvis hex hht
  have hsafe := Props.C11.removeAll_spares_hidden_with_links bk kk hbk hkk hne1 hne2 hd1 hd2 hks hp k hk hne m hg
    hna fuel
  have hrest := Props.C11.removeAll_removes_the_rest_with_links bk kk hbk hkk hne1 hne2 hd1 hd2 hks hp k hk hne m hg
    hna fuel hok
  obtain ⟨_, hs2, hs3, _, _, _, _, hs8, _, _⟩ := hsafe
  have hgone : ∀ j, k <+: j → osViewL bk kk .base res.1 j = none := by
    intro j hj
    apply hrest j hj
    · rintro ⟨h, hh, hpre⟩
      rcases List.prefix_or_prefix_of_prefix hpre hj with h1 | h1
      · exact (hunrel h hh).1 h1
      · exact (hunrel h hh).2 h1
    · rintro ⟨⟨h, hh, hpre, _⟩, _⟩
      exact (hunrel h hh).2 (hj.trans hpre)
  -- the underlying RemoveAll
  obtain ⟨m', hc, hnone⟩ := os_removeAll_ok (s := .base) hr hg hk hne hex
  have href : ref = (m', .ok .unit) := hc
  have hraw := HL.os_removeAll_rawL (s := .base) hr hg hk hne hna hc
  refine ⟨hok, by rw [href], ?_, hgone, hs3, hs2⟩
  intro K
  rw [href]
  by_cases hK : bk ++ k <+: K
  · obtain ⟨t, rfl⟩ := hK
    have e1 := osViewL_none (hgone (k ++ t) (List.prefix_append _ _))
    have e2 := osViewL_none (hnone (k ++ t) (List.prefix_append _ _))
    simp only [osRoot, ← List.append_assoc] at e1 e2
    rw [e1, e2]
  · exact (hs8 K hK).trans (hraw K hK).symm

/-- T15L.R0  … and for a visible name that does NOT exist (in an existing directory): both return
nil and neither changes the disk at all (repair D12: `HiddenFS.RemoveAll` of a missing path used to
return an error). -/
theorem removeAll_transparent_absent_with_links (bk kk : Key) (hbk : PKey bk) (hkk : PKey kk)
    (hne1 : bk ≠ []) (hne2 : kk ≠ []) (hd1 : ¬ bk <+: kk) (hd2 : ¬ kk <+: bk)
    (hks : List Key) (hp : ∀ h ∈ hks, PKey h) (k : Key) (hk : PKey k) (hne : k ≠ [])
    (m : MFS) (hg : OSGoodL bk kk m) (fuel : Nat)
    (hvis : ¬ ∃ h ∈ hks, h <+: k)
    (hv : osViewL bk kk .base m k = none) (hpar : (osViewL bk kk .base m).isDirAt k.dropLast) :
    hiddenRemoveAll (HiddenFS.mk (hks.map kp)) ((osCfg bk kk).side .base) fuel m (kp k) = (m, .ok ()) ∧
    ((osCfg bk kk).side .base).call m (.removeAll (kp k)) = (m, .ok .unit) := by
  have hr : Roots bk kk := ⟨hbk, hkk, hne1, hne2, hd1, hd2⟩
  refine ⟨?_, HL.os_removeAll_absent hr hg hk hne hv hpar⟩
  unfold hiddenRemoveAll
  have hv' : HiddenFS.isHidden (kp k) (HiddenFS.mk (hks.map kp)) = .ok false := by
    rw [isHidden_kp (hidKeys_mk hp) hk]
    have : ¬ HidK hks k := hvis
    simp [this]
  rw [hguard_of_visible _ hv']
  simp only
  rw [HL.os_lstat_absent hr hg hk hne hv hpar]
  rfl

/-! ## non-vacuity: the disk of `Props/C11L.lean` (`exDiskHL`: `/d` holds a symlink into `/h`, a
symlink `/d/s`, a dangling symlink and a file), hidden path `/h` only — unrelated to `/d` although
`/d/i -> ../h` points into it —, operation `RemoveAll("/d")` -/
example :
    let res := hiddenRemoveAll (HiddenFS.mk ([[['h']]].map kp)) ((osCfg [['b']] [['k']]).side .base) 64
      Props.C11.exDiskHL (kp [['d']])
    let ref := ((osCfg [['b']] [['k']]).side .base).call Props.C11.exDiskHL (.removeAll (kp [['d']]))
    res.2 = .ok () ∧ ref.2 = .ok .unit ∧
    (∀ K, (res.1.get K).map eraseMt = (ref.1.get K).map eraseMt) ∧
    osViewL [['b']] [['k']] .base res.1 [['d'], ['i']] = none ∧
    osViewL [['b']] [['k']] .base res.1 [['h'], ['x']] = osViewL [['b']] [['k']] .base Props.C11.exDiskHL [['h'], ['x']] := by
  intro res ref
  have h := removeAll_transparent_with_links_partial [['b']] [['k']] (by decide) (by decide) (by decide) (by decide)
    (by decide) (by decide) [[['h']]] (by decide) [['d']] (by decide) (by decide) Props.C11.exDiskHL
    Props.C11.osGoodL_exampleHL 64 (by decide) (by decide) (fun j _ hv => Props.C11.exDiskHL_height _ j hv)
  exact ⟨h.1, h.2.1, h.2.2.1, h.2.2.2.1 _ (by decide), h.2.2.2.2.1 _ (by decide)⟩

end Props.C15
