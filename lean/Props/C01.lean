import Lemmas
import Props.C19
import Lemmas.Restore
import Lemmas.RestoreB
import Lemmas.SimOS
import Props.C01L
/-!
# C01 — Rollback restores the base filesystem exactly

Main theorem (`rollback_restores_linkfree_partial`): for the OS model behind two `PrefixFS` layers
(base root and backup root any two directories neither of which contains the other), every
well-formed link-free disk, every number of consecutive transactions, and in each every finite
history of covered operations — Create/OpenFile with any flags and the writes through the handle,
Mkdir, MkdirAll, Remove, RemoveAll (the whole walk), Rename, Chmod, Chown, Lchown, Chtimes, Stat,
Lstat, Readlink; operations that fail; repeated operations on one path; every spelling of an
absolute name — after Rollback every entry of the base below its root is what it was before the
first operation: same set of paths, types, contents, permission bits (all twelve), owners and file
modification times (directory timestamps are erased from the view, the root itself is exempt, as in
the property).  The proof is an invariant (`Inv`, Lemmas/Inv.lean) preserved by every primitive step
of every mutator under every fault plan (Lemmas/Track.lean, Lemmas/Ops.lean) and a phase-by-phase
proof that `Rollback` restores from it (Lemmas/Restore.lean), all over an abstract contract
(`Sim`, Lemmas/Sim.lean) that Lemmas/SimOS*.lean proves of the OS model.

Symlinks: `rollback_restores_symlink_leaves_partial` below extends the theorem to trees with
symlinks as leaves the transaction never traverses and to the `Symlink` operation.  The nested
(README / NewWithFS) layering: `Props.C04.rollback_restores_nested_linkfree_partial`.
What is *not* covered by these theorems (hence `_partial`), and is decided by the `hist` stream's
snapshot oracle instead: paths THROUGH symlinks and operations that follow a final symlink (the open
findings live there), relative names (K-relative-name), Rename of a non-empty directory
(K-rename-nonempty-dir), Remove/RemoveAll of the root itself, ForceBackup (C17), the HiddenFS-nested
layering (C04).  "Rollback returns nil" is `rollback_returns_nil_linkfree_partial` below (healthy
filesystems, backup root empty at the start; proof in Lemmas/InvB…RestoreB.lean).
-/
namespace Props.C01
open BFS BFS.BackupFS

/-- T01.a Rollback touches nothing but tracked paths (frame / "untouched" clause). -/
theorem rollback_touches_only_tracked (cfg : Cfg) (w : World) :
    Extends (NamesIn (w.infos.map Prod.fst)) w (rollback cfg w).1 :=
  BackupFS.rollback_footprint cfg w

/-- T01.b created paths are removed deepest-first: in the removal order no path stands before
one of its descendants, so every created directory is empty when its turn comes. -/
theorem removal_order (l : List Path) (hclean : ∀ p ∈ l, IsClean p) :
    (sortMost l).Pairwise (fun a b => ¬ ProperAncestor a b) :=
  Props.C19.sortMost_child_before_ancestor l hclean

/-- T01.c directories are restored shallowest-first: every parent is restored before its
children. -/
theorem restore_order (l : List Path) (hclean : ∀ p ∈ l, IsClean p) :
    (sortLeast l).Pairwise (fun a b => ¬ ProperAncestor b a) :=
  Props.C19.sortLeast_ancestor_before_child l hclean

/-- T01.d after Rollback nothing is tracked, whatever happened. -/
theorem nothing_tracked_after (cfg : Cfg) (w : World) : (rollback cfg w).1.infos = [] :=
  rollback_resets_infos cfg w

/-- T01.main  Rollback restores the base exactly — link-free fragment, any number of
transactions (see the header for what "covered" excludes). -/
theorem rollback_restores_linkfree_partial (bk kk : Key) (hbk : PKey bk) (hkk : PKey kk)
    (hne1 : bk ≠ []) (hne2 : kk ≠ []) (hd1 : ¬ bk <+: kk) (hd2 : ¬ kk <+: bk)
    (w : World) (hg : OSGood bk kk w.fs) (hinfos : w.infos = []) (hnf : w.faults = [])
    (txs : List (List Op))
    (hcov : CoveredTxs (osCfg bk kk) (osSim bk kk hbk hkk hne1 hne2 hd1 hd2) w txs) :
    ∀ k, k ≠ [] →
      ((txs.foldl (runTx (osCfg bk kk)) w).fs.get (bk ++ k)).map eraseMt = (w.fs.get (bk ++ k)).map eraseMt :=
  txs_restore (S := osSim bk kk hbk hkk hne1 hne2 hd1 hd2) txs w hg hinfos hnf hcov

/-- T01.inv  after any covered history — whatever failed, whatever the fault plan — the
transaction invariant holds: untracked entries are untouched, and every tracked entry's original
is described by the tracked map and (for regular files) held by the backup. -/
theorem invariant_after_history (bk kk : Key) (hbk : PKey bk) (hkk : PKey kk)
    (hne1 : bk ≠ []) (hne2 : kk ≠ []) (hd1 : ¬ bk <+: kk) (hd2 : ¬ kk <+: bk)
    (w : World) (hg : OSGood bk kk w.fs) (hinfos : w.infos = []) (ops : List Op)
    (hcov : CoveredHist (osCfg bk kk) (osSim bk kk hbk hkk hne1 hne2 hd1 hd2) w ops) :
    Inv (osSim bk kk hbk hkk hne1 hne2 hd1 hd2) (osView bk kk .base w.fs) (runOps (osCfg bk kk) w ops) :=
  (history_keeps ops w (Inv.init (S := osSim bk kk hbk hkk hne1 hne2 hd1 hd2) hg hinfos) hcov).inv

/-- T01.nil  "Rollback returns nil" — link-free fragment, healthy filesystems, backup root empty
at the start: the Rollback ending each of any number of consecutive transactions reports no error
(and leaves the backup as it was: `Props.C07.backup_clean_after_rollback_linkfree_partial`). -/
theorem rollback_returns_nil_linkfree_partial (bk kk : Key) (hbk : PKey bk) (hkk : PKey kk)
    (hne1 : bk ≠ []) (hne2 : kk ≠ []) (hd1 : ¬ bk <+: kk) (hd2 : ¬ kk <+: bk)
    (w : World) (hg : OSGood bk kk w.fs) (hinfos : w.infos = []) (hnf : w.faults = [])
    (hempty : ∀ k, k ≠ [] → w.fs.get (kk ++ k) = none)
    (txs : List (List Op))
    (hcov : CoveredTxs (osCfg bk kk) (osSim bk kk hbk hkk hne1 hne2 hd1 hd2) w txs) :
    ∀ pre ops post, txs = pre ++ ops :: post →
      (rollback (osCfg bk kk) (runOps (osCfg bk kk) (pre.foldl (runTx (osCfg bk kk)) w) ops)).2 = .ok false :=
  (txs_clean (S := osSim bk kk hbk hkk hne1 hne2 hd1 hd2) txs w hg hinfos hnf
    (fun k hk => by show (w.fs.get (kk ++ k)).map eraseMt = none; rw [hempty k hk]; rfl) hcov).2

/-- T01.links  the main theorem extended to trees that contain **symlinks as leaves the
transaction never traverses**, and to the `Symlink` operation (proof: `Lemmas/L*.lean`, a parallel
development over the contract `LSim` with links in the views; statement, covered operations and the
two findings made on the way: `Props/C01L.lean`).  `OSGoodL` = well-formed disk, symlinks with any
target anywhere; `eraseV` erases directory timestamps and, for a symlink, its timestamps and mode
bits, and shows its target as `Readlink` through the base PrefixFS reports it; `L.Op.Covered`
(judged in the state an operation is issued in): absolute names; no proper ancestor of the cleaned
path is a symlink; Create/OpenFile-for-write/Chmod/Chown/Chtimes/MkdirAll not on a symlink; a link
that gets backed up must be re-creatable through the base PrefixFS (finding K-escaping-link);
Symlink and Rename of a link only where no tracked path lies below the new name
(K-link-over-tracked); no Remove/RemoveAll of the root, no Rename of a non-empty directory, no
ForceBackup.  `hbl`: at the start every symlink in the backup subtree sits where the base has one
too (e.g. an empty backup directory). -/
theorem rollback_restores_symlink_leaves_partial (bk kk : Key) (hbk : PKey bk) (hkk : PKey kk)
    (hne1 : bk ≠ []) (hne2 : kk ≠ []) (hd1 : ¬ bk <+: kk) (hd2 : ¬ kk <+: bk)
    (w : World) (hg : L.OSGoodL bk kk w.fs) (hinfos : w.infos = []) (hnf : w.faults = [])
    (hbl : ∀ k, (∃ t mt, w.fs.get (kk ++ k) = some (.link t mt)) → ∃ t mt, w.fs.get (bk ++ k) = some (.link t mt))
    (txs : List (List Op))
    (hcov : L.CoveredTxs (osCfg bk kk) (L.osSimL bk kk hbk hkk hne1 hne2 hd1 hd2) w txs) :
    ∀ k, k ≠ [] →
      ((txs.foldl (runTx (osCfg bk kk)) w).fs.get (bk ++ k)).map (L.eraseV (kp bk)) =
        (w.fs.get (bk ++ k)).map (L.eraseV (kp bk)) :=
  Props.C01L.rollback_restores_symlink_leaves_partial bk kk hbk hkk hne1 hne2 hd1 hd2 w hg hinfos hnf hbl txs hcov

/-- non-vacuity: the hypotheses hold of an ordinary disk (`/b` with a file and a directory, backup
root `/k`) and a history that creates, overwrites, removes, makes directories and changes metadata
(names are relative to the base root) -/
example : OSGood [['b']] [['k']] exDisk ∧
    CoveredTxs (osCfg [['b']] [['k']]) osSim_example { fs := exDisk }
      [[.creat "/n".toList "x", .write "/f".toList (O_WRONLY ||| O_TRUNC) 0 "y", .remove "/f".toList,
        .mkdirAll "/d/e//g/../h".toList 0o755, .chmod "/d".toList 0o4711, .removeAll "/d".toList],
       [.chown "/n".toList 5 6]] := by
  refine ⟨osGood_example, ⟨?_, ?_, ?_, ?_, ?_, ?_, trivial⟩, ⟨?_, trivial⟩, trivial⟩
  · show isAbs _ = true; decide
  · show isAbs _ = true; decide
  · show isAbs _ = true ∧ clean _ ≠ rootP; decide
  · show isAbs _ = true; decide
  · show isAbs _ = true; decide
  · show isAbs _ = true ∧ clean _ ≠ rootP; decide
  · show isAbs _ = true; decide

end Props.C01
