import Lemmas
import Props.C19
/-!
# C01 — Rollback restores the base filesystem exactly (proved parts)

The central induction (`Inv` preserved by every mutator, `rollback` restores under `Inv`) is not
completed; what is machine-checked so far, for every configuration / world / fault plan:
Rollback always runs all its phases; it issues calls only on tracked paths (so everything the
transaction never named is untouched: the *untouched* clause of the invariant); after it nothing is
tracked; it reports success only if every single step succeeded (C09); the removal order is
deepest-first and the directory restoration order is shallowest-first for every set of tracked
paths (C19).  The end-to-end statement is checked on every run by the snapshot oracle of the `hist`
stream over random trees (all 12 mode bits, foreign owners, old mtimes, links), random histories and
three layerings, the model predicting every primitive call, tree and tracked map along the way.
-/
namespace Props.C01
open BFS BFS.BackupFS

/-- T01.a Rollback touches nothing but tracked paths (frame / "untouched" clause). -/
theorem rollback_touches_only_tracked (cfg : Cfg) (w : World) :
    Extends (NamesIn (w.infos.map Prod.fst)) w (rollback cfg w).1 :=
  BackupFS.rollback_footprint cfg w

/-- T01.b created paths are removed deepest-first: in the removal order no path stands before
one of its descendants, so every created directory is empty when its turn comes. -/
theorem removal_order (l : List Path) (hclean : ∀ p ∈ l, IsClean p) :
    (sortMost l).Pairwise (fun a b => ¬ ProperAncestor a b) :=
  Props.C19.sortMost_child_before_ancestor l hclean

/-- T01.c directories are restored shallowest-first: every parent is restored before its
children. -/
theorem restore_order (l : List Path) (hclean : ∀ p ∈ l, IsClean p) :
    (sortLeast l).Pairwise (fun a b => ¬ ProperAncestor b a) :=
  Props.C19.sortLeast_ancestor_before_child l hclean

/-- T01.d after Rollback nothing is tracked, whatever happened. -/
theorem nothing_tracked_after (cfg : Cfg) (w : World) : (rollback cfg w).1.infos = [] :=
  rollback_resets_infos cfg w

end Props.C01
