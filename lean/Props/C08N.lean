import Lemmas.NRestore
import Lemmas.NSimOS
import Props.C04N
/-!
# C08 — "a later Rollback still restores", NESTED (README) layering, link-free trees

Setting of `Props.C04.rollback_restores_nested_linkfree_partial`: `N.nestedCfg bk hk =
NewWithFS (PrefixFS (kp bk) osfs) (kp hk)` — base = `HiddenFS [loc]` over `PrefixFS(root)`, backup =
`PrefixFS(loc)` over the same `PrefixFS(root)`: ONE disk, the backup location `bk ++ hk` inside the
base tree.  The base view is every key NOT at or below the location.

The transaction invariant `N.Inv` is preserved by every covered operation under EVERY fault plan
(`N.history_keeps` never looks at `w.faults`), so the statement is the corollary
`N.tx_restores_after_faults`, instantiated for the OS model.
-/
namespace Props.C08
open BFS BFS.BackupFS

/-- T08.3-N (nested layering, link-free fragment) whatever a fault plan did to the operations of a
covered history — any primitive on either side of the ONE disk failing, any number of times — once
the filesystem is healthy again Rollback restores every entry of the base below its root and
outside the backup location. -/
theorem later_rollback_still_restores_nested_linkfree_partial (bk hk dd : Key) (hr : N.NRoots bk hk dd)
    (w : World) (hg : N.NGood bk hk dd w.fs) (hinfos : w.infos = []) (ops : List Op)
    (hcov : N.CoveredHist (N.nestedCfg bk hk) (N.nSim bk hk dd hr) w ops) :
    ∀ k, k ≠ [] → ¬ hk <+: k →
      ((rollback (N.nestedCfg bk hk) { runOps (N.nestedCfg bk hk) w ops with faults := [] }).1.fs.get (bk ++ k)).map eraseMt
        = (w.fs.get (bk ++ k)).map eraseMt := by
  intro k hkne hvis
  have := N.tx_restores_after_faults (S := N.nSim bk hk dd hr) hg hinfos ops hcov k hkne
  have e1 : ∀ m : MFS, (N.nSim bk hk dd hr).view .base m k = (m.get (bk ++ k)).map eraseMt :=
    fun m => N.nview_base_vis hvis
  rw [e1, e1] at this
  exact this

/-- the transaction invariant of the nested layering holds after any covered history run under any
fault plan (restated from `Props.C04.nested_invariant_after_history`, which has no `faults`
hypothesis either) -/
theorem nested_invariant_under_every_fault_plan (bk hk dd : Key) (hr : N.NRoots bk hk dd)
    (w : World) (hg : N.NGood bk hk dd w.fs) (hinfos : w.infos = []) (fl : List Fault) (ops : List Op)
    (hcov : N.CoveredHist (N.nestedCfg bk hk) (N.nSim bk hk dd hr) { w with faults := fl } ops) :
    N.Inv (N.nSim bk hk dd hr) (N.nview bk hk .base w.fs)
      (runOps (N.nestedCfg bk hk) { w with faults := fl } ops) :=
  Props.C04.nested_invariant_after_history bk hk dd hr { w with faults := fl } hg hinfos ops hcov

/-- non-vacuity: the example disk of Props/C04N.lean with a fault plan that fires (the first
`OpenFile` on the backup side fails) is an admissible world, and the history is covered -/
example : N.NGood [['b']] [['d']] [['k']] exDisk ∧
    (({ fs := exDisk, faults := [⟨⟨.backup, "openfile", ["/f".toList, "578".toList, "420".toList]⟩, 0⟩] } : World).faults ≠ []) ∧
    N.CoveredHist (N.nestedCfg [['b']] [['d']]) (N.nSim [['b']] [['d']] [['k']] Props.C04.nroots_example)
      { fs := exDisk, faults := [⟨⟨.backup, "openfile", ["/f".toList, "578".toList, "420".toList]⟩, 0⟩] }
      [.write "/f".toList (O_WRONLY ||| O_TRUNC) 0 "y", .remove "/f".toList, .creat "/n".toList "x"] := by
  refine ⟨⟨osGood_example, ⟨_, rfl⟩⟩, by simp, ?_, ?_, ?_, trivial⟩
  · show isAbs _ = true; decide
  · show isAbs _ = true ∧ clean _ ≠ rootP; decide
  · show isAbs _ = true; decide

end Props.C08
