import Lemmas.NYJ12
import Lemmas.NYJ12L
import Props.C04N
import Props.C04L
import Props.C07N
import Props.C12
import Props.C12J
/-!
# C12, end to end, in the NESTED (README, `NewWithFS`) layering — restarts are invisible

`Props/C12E.lean` for `N.nestedCfg bk hk = NewWithFS (PrefixFS (kp bk) osfs) (kp hk)`: ONE disk, the backup
location `bk ++ hk` inside the base tree and masked by `HiddenFS`.  The generic lemmas of
`Lemmas/J12Valid.lean`/`J12Txs.lean` are stated over the disjoint contract `Sim`; `Lemmas/NYJ12.lean` replays
them over `N.Sim` and proves the three facts about the configuration they need (base `Lstat` — HiddenFS over
PrefixFS — names an absolute cleaned path by its `Base`; every call of either side, the whole
`HiddenFS.RemoveAll` program included, keeps "owners fit 32 bits"; the views of a small disk are small).

* `infos_valid_after_history_nested` (E1-N), `reload_identity_after_history_nested`;
* `restart_anywhere_equiv_nested` (E2-N), `rollback_after_restart_equiv_nested` (E3-N);
* with C04N/C07N/C08N: `rollback_after_restart_restores_nested_linkfree_partial`,
  `backup_clean_after_restart_nested_linkfree_partial`, `rollback_returns_nil_after_restart_nested_linkfree_partial`,
  `later_rollback_after_restart_still_restores_nested_linkfree_partial`;
* several transactions, restarts anywhere: `restart_anywhere_equiv_txs_nested`,
  `rollback_after_restart_restores_txs_nested_linkfree_partial`,
  `backup_clean_after_restart_txs_nested_linkfree_partial`,
  `rollback_returns_nil_after_restart_txs_nested_linkfree_partial`.

No hypothesis beyond those of C12E and C04N/C07N was needed.
-/
namespace Props.C12
open BFS BFS.BackupFS BFS.J12

/-! ## one transaction -/

/-- E1-N  after any covered history in the nested layering — whatever failed, whatever the fault plan —
every tracked `FileInfo` survives the JSON round trip unchanged. -/
theorem infos_valid_after_history_nested (bk hk dd : Key) (hr : N.NRoots bk hk dd)
    (w : World) (hg : N.NGood bk hk dd w.fs) (hinfos : w.infos = []) (hown : OwnersSmall w.fs = true)
    (ops : List Op)
    (hcov : N.CoveredHist (N.nestedCfg bk hk) (N.nSim bk hk dd hr) w ops) :
    ∀ e ∈ (runOps (N.nestedCfg bk hk) w ops).infos, ∀ i, e.2 = some i → i.Valid e.1 :=
  valid_after_historyN (S := N.nSim bk hk dd hr) (lstatN_nestedK bk hk hr.pb) hg hinfos
    (smallView_nested_of_sd bk hk .base (sd_of_ownersSmall hg.1.dom hown)) ops hcov

/-- E1-N as the property phrases it: the exported and re-imported tracked state is the original one. -/
theorem reload_identity_after_history_nested (bk hk dd : Key) (hr : N.NRoots bk hk dd)
    (w : World) (hg : N.NGood bk hk dd w.fs) (hinfos : w.infos = []) (hown : OwnersSmall w.fs = true)
    (ops : List Op)
    (hcov : N.CoveredHist (N.nestedCfg bk hk) (N.nSim bk hk dd hr) w ops) :
    reloadInfos (runOps (N.nestedCfg bk hk) w ops).infos = (runOps (N.nestedCfg bk hk) w ops).infos :=
  reload_identity _ (infos_valid_after_history_nested bk hk dd hr w hg hinfos hown ops hcov)

/-- E2-N  restarts are invisible: the world after any interleaving of covered operations and restarts
(any number, anywhere, under any fault plan) is the world after the operations alone. -/
theorem restart_anywhere_equiv_nested (bk hk dd : Key) (hr : N.NRoots bk hk dd)
    (w : World) (hg : N.NGood bk hk dd w.fs) (hinfos : w.infos = []) (hown : OwnersSmall w.fs = true)
    (steps : List Step)
    (hcov : N.CoveredHist (N.nestedCfg bk hk) (N.nSim bk hk dd hr) w (opsOf steps)) :
    runOpsR (N.nestedCfg bk hk) w steps = runOps (N.nestedCfg bk hk) w (opsOf steps) :=
  restart_anywhereN (S := N.nSim bk hk dd hr) (lstatN_nestedK bk hk hr.pb) hg hinfos
    (smallView_nested_of_sd bk hk .base (sd_of_ownersSmall hg.1.dom hown)) steps hcov

/-- E3-N  `Rollback` on the instance that is current after a session with restarts IS `Rollback` on an
instance that was never restarted: same primitive calls in the same order, same result, same world. -/
theorem rollback_after_restart_equiv_nested (bk hk dd : Key) (hr : N.NRoots bk hk dd)
    (w : World) (hg : N.NGood bk hk dd w.fs) (hinfos : w.infos = []) (hown : OwnersSmall w.fs = true)
    (steps : List Step)
    (hcov : N.CoveredHist (N.nestedCfg bk hk) (N.nSim bk hk dd hr) w (opsOf steps)) :
    rollback (N.nestedCfg bk hk) (runOpsR (N.nestedCfg bk hk) w steps) =
      rollback (N.nestedCfg bk hk) (runOps (N.nestedCfg bk hk) w (opsOf steps)) := by
  rw [restart_anywhere_equiv_nested bk hk dd hr w hg hinfos hown steps hcov]

/-- `restart_equiv` (Props/C12.lean) with its hypothesis discharged, nested layering. -/
theorem restart_equiv_after_history_nested (bk hk dd : Key) (hr : N.NRoots bk hk dd)
    (w : World) (hg : N.NGood bk hk dd w.fs) (hinfos : w.infos = []) (hown : OwnersSmall w.fs = true)
    (ops : List Op)
    (hcov : N.CoveredHist (N.nestedCfg bk hk) (N.nSim bk hk dd hr) w ops) :
    rollback (N.nestedCfg bk hk) (restart (runOps (N.nestedCfg bk hk) w ops)) =
      rollback (N.nestedCfg bk hk) (runOps (N.nestedCfg bk hk) w ops) :=
  restart_equiv _ _ (infos_valid_after_history_nested bk hk dd hr w hg hinfos hown ops hcov)

theorem runTxR_eq_nested (bk hk dd : Key) (hr : N.NRoots bk hk dd)
    (w : World) (hg : N.NGood bk hk dd w.fs) (hinfos : w.infos = []) (hown : OwnersSmall w.fs = true)
    (steps : List Step)
    (hcov : N.CoveredHist (N.nestedCfg bk hk) (N.nSim bk hk dd hr) w (opsOf steps)) :
    runTxR (N.nestedCfg bk hk) w steps = runTx (N.nestedCfg bk hk) w (opsOf steps) := by
  unfold runTxR runTx
  rw [rollback_after_restart_equiv_nested bk hk dd hr w hg hinfos hown steps hcov]

/-- E3-N + C04N  a `Rollback` issued on the re-created instance, after any covered history with any restarts
in between, restores every VISIBLE entry of the base below its root (path set, types, contents, twelve mode
bits, owners, file mtimes; directory mtimes erased) — backup location inside the base, masked by HiddenFS. -/
theorem rollback_after_restart_restores_nested_linkfree_partial (bk hk dd : Key) (hr : N.NRoots bk hk dd)
    (w : World) (hg : N.NGood bk hk dd w.fs) (hinfos : w.infos = []) (hnf : w.faults = [])
    (hown : OwnersSmall w.fs = true) (steps : List Step)
    (hcov : N.CoveredHist (N.nestedCfg bk hk) (N.nSim bk hk dd hr) w (opsOf steps)) :
    ∀ k, k ≠ [] → ¬ hk <+: k →
      ((runTxR (N.nestedCfg bk hk) w steps).fs.get (bk ++ k)).map eraseMt = (w.fs.get (bk ++ k)).map eraseMt := by
  rw [runTxR_eq_nested bk hk dd hr w hg hinfos hown steps hcov]
  exact Props.C04.rollback_restores_nested_linkfree_partial bk hk dd hr.pb hr.ph hr.pd hr.nb hr.nh hr.nd hr.d1 hr.d2
    w hg.1 hg.2 hinfos hnf [opsOf steps] ⟨hcov, trivial⟩

/-- E3-N + C07N  … and leaves the backup location exactly as it was (healthy filesystem, location empty
at the start). -/
theorem backup_clean_after_restart_nested_linkfree_partial (bk hk dd : Key) (hr : N.NRoots bk hk dd)
    (w : World) (hg : N.NGood bk hk dd w.fs) (hinfos : w.infos = []) (hnf : w.faults = [])
    (hown : OwnersSmall w.fs = true)
    (hempty : ∀ k, k ≠ [] → w.fs.get (bk ++ hk ++ k) = none) (steps : List Step)
    (hcov : N.CoveredHist (N.nestedCfg bk hk) (N.nSim bk hk dd hr) w (opsOf steps)) :
    ∀ k, ((runTxR (N.nestedCfg bk hk) w steps).fs.get (bk ++ hk ++ k)).map eraseMt =
      (w.fs.get (bk ++ hk ++ k)).map eraseMt := by
  rw [runTxR_eq_nested bk hk dd hr w hg hinfos hown steps hcov]
  exact Props.C07.backup_clean_after_rollback_nested_linkfree_partial bk hk dd hr w hg hinfos hnf hempty
    [opsOf steps] ⟨hcov, trivial⟩

/-- E3-N + C07N  … and returns nil. -/
theorem rollback_returns_nil_after_restart_nested_linkfree_partial (bk hk dd : Key) (hr : N.NRoots bk hk dd)
    (w : World) (hg : N.NGood bk hk dd w.fs) (hinfos : w.infos = []) (hnf : w.faults = [])
    (hown : OwnersSmall w.fs = true)
    (hempty : ∀ k, k ≠ [] → w.fs.get (bk ++ hk ++ k) = none) (steps : List Step)
    (hcov : N.CoveredHist (N.nestedCfg bk hk) (N.nSim bk hk dd hr) w (opsOf steps)) :
    (rollback (N.nestedCfg bk hk) (runOpsR (N.nestedCfg bk hk) w steps)).2 = .ok false := by
  rw [rollback_after_restart_equiv_nested bk hk dd hr w hg hinfos hown steps hcov]
  exact Props.C07.rollback_returns_nil_nested_linkfree_partial bk hk dd hr w hg hinfos hnf hempty
    [opsOf steps] ⟨hcov, trivial⟩ [] (opsOf steps) [] rfl

/-- E3-N + C08N  also when the fault plan hit the operations: once the filesystem is healthy again,
`Rollback` on the re-created instance restores the visible base. -/
theorem later_rollback_after_restart_still_restores_nested_linkfree_partial (bk hk dd : Key)
    (hr : N.NRoots bk hk dd)
    (w : World) (hg : N.NGood bk hk dd w.fs) (hinfos : w.infos = []) (hown : OwnersSmall w.fs = true)
    (steps : List Step)
    (hcov : N.CoveredHist (N.nestedCfg bk hk) (N.nSim bk hk dd hr) w (opsOf steps)) :
    ∀ k, k ≠ [] → ¬ hk <+: k →
      ((rollback (N.nestedCfg bk hk) { runOpsR (N.nestedCfg bk hk) w steps with faults := [] }).1.fs.get
          (bk ++ k)).map eraseMt = (w.fs.get (bk ++ k)).map eraseMt := by
  rw [restart_anywhere_equiv_nested bk hk dd hr w hg hinfos hown steps hcov]
  intro k hk' hvis
  have := N.tx_restores_after_faults (S := N.nSim bk hk dd hr) hg hinfos (opsOf steps) hcov k hk'
  have e1 : ∀ m : MFS, (N.nSim bk hk dd hr).view .base m k = (m.get (bk ++ k)).map eraseMt :=
    fun m => N.nview_base_vis hvis
  rw [e1, e1] at this
  exact this

/-- E1-N through the JSON TEXT (`Props/C12J.lean`): persist the tracked map of any covered nested history as the
text `MarshalJSON` writes, parse it as `UnmarshalJSON` does: every `baseInfos[p]` the re-created instance holds is
the original's.  `hfits` (sizes and mtimes are values of Go's `int64`) is the hypothesis of
`reload_through_text_lookup` that no end-to-end theorem discharges yet (neither in the disjoint layering). -/
theorem reload_through_text_after_history_nested (bk hk dd : Key) (hr : N.NRoots bk hk dd)
    (w : World) (hg : N.NGood bk hk dd w.fs) (hinfos : w.infos = []) (hown : OwnersSmall w.fs = true)
    (ops : List Op)
    (hcov : N.CoveredHist (N.nestedCfg bk hk) (N.nSim bk hk dd hr) w ops)
    (hfits : ∀ e ∈ (runOps (N.nestedCfg bk hk) w ops).infos, ∀ i, e.2 = some i → InfoFits i) :
    ∃ infos', JsonText.reloadText (runOps (N.nestedCfg bk hk) w ops).infos
        (JsonText.persistText (runOps (N.nestedCfg bk hk) w ops).infos) = some infos' ∧
      ∀ p, infos'.lookup p = (runOps (N.nestedCfg bk hk) w ops).infos.lookup p :=
  reload_through_text_lookup _
    ⟨(N.history_keeps ops w (N.Inv.init (S := N.nSim bk hk dd hr) hg hinfos) hcov).inv.nodup,
     infos_valid_after_history_nested bk hk dd hr w hg hinfos hown ops hcov, hfits⟩

/-! ## any number of transactions

As in C12E: `hargs` — the uid/gid arguments the client passes to `Chown`/`Lchown` fit 32 bits, so that
"every owner on the disk fits 32 bits" holds again at the start of every transaction. -/

/-- E2-N for several transactions: the world after all of them, restarts anywhere, is the world without
any restart. -/
theorem restart_anywhere_equiv_txs_nested (bk hk dd : Key) (hr : N.NRoots bk hk dd)
    (w : World) (hg : N.NGood bk hk dd w.fs) (hinfos : w.infos = []) (hnf : w.faults = [])
    (hown : OwnersSmall w.fs = true) (txs : List (List Step))
    (hargs : ∀ tx ∈ txs, ∀ op ∈ opsOf tx, OpSmall op)
    (hcov : N.CoveredTxs (N.nestedCfg bk hk) (N.nSim bk hk dd hr) w (txs.map opsOf)) :
    runTxsR (N.nestedCfg bk hk) w txs = (txs.map opsOf).foldl (runTx (N.nestedCfg bk hk)) w :=
  txsR_eqN (S := N.nSim bk hk dd hr) (lstatN_nestedK bk hk hr.pb) (smallCfg_nested bk hk hr.ph)
    (fun _ h => smallView_nested_of_sd bk hk .base h) txs w hg hinfos hnf (sd_of_ownersSmall hg.1.dom hown) hcov hargs

/-- E3-N + C04N, several transactions, each ended by `Rollback` on whatever instance is current -/
theorem rollback_after_restart_restores_txs_nested_linkfree_partial (bk hk dd : Key) (hr : N.NRoots bk hk dd)
    (w : World) (hg : N.NGood bk hk dd w.fs) (hinfos : w.infos = []) (hnf : w.faults = [])
    (hown : OwnersSmall w.fs = true) (txs : List (List Step))
    (hargs : ∀ tx ∈ txs, ∀ op ∈ opsOf tx, OpSmall op)
    (hcov : N.CoveredTxs (N.nestedCfg bk hk) (N.nSim bk hk dd hr) w (txs.map opsOf)) :
    ∀ k, k ≠ [] → ¬ hk <+: k →
      ((runTxsR (N.nestedCfg bk hk) w txs).fs.get (bk ++ k)).map eraseMt = (w.fs.get (bk ++ k)).map eraseMt := by
  rw [restart_anywhere_equiv_txs_nested bk hk dd hr w hg hinfos hnf hown txs hargs hcov]
  exact Props.C04.rollback_restores_nested_linkfree_partial bk hk dd hr.pb hr.ph hr.pd hr.nb hr.nh hr.nd hr.d1 hr.d2
    w hg.1 hg.2 hinfos hnf _ hcov

/-- E3-N + C07N, several transactions -/
theorem backup_clean_after_restart_txs_nested_linkfree_partial (bk hk dd : Key) (hr : N.NRoots bk hk dd)
    (w : World) (hg : N.NGood bk hk dd w.fs) (hinfos : w.infos = []) (hnf : w.faults = [])
    (hown : OwnersSmall w.fs = true)
    (hempty : ∀ k, k ≠ [] → w.fs.get (bk ++ hk ++ k) = none) (txs : List (List Step))
    (hargs : ∀ tx ∈ txs, ∀ op ∈ opsOf tx, OpSmall op)
    (hcov : N.CoveredTxs (N.nestedCfg bk hk) (N.nSim bk hk dd hr) w (txs.map opsOf)) :
    ∀ k, ((runTxsR (N.nestedCfg bk hk) w txs).fs.get (bk ++ hk ++ k)).map eraseMt =
      (w.fs.get (bk ++ hk ++ k)).map eraseMt := by
  rw [restart_anywhere_equiv_txs_nested bk hk dd hr w hg hinfos hnf hown txs hargs hcov]
  exact Props.C07.backup_clean_after_rollback_nested_linkfree_partial bk hk dd hr w hg hinfos hnf hempty _ hcov

/-- E3-N + C07N/C04N, several transactions: EVERY key below the base root — outside, at or below the
location — is afterwards what it was before the first operation. -/
theorem whole_tree_as_before_after_restart_txs_nested_linkfree_partial (bk hk dd : Key) (hr : N.NRoots bk hk dd)
    (w : World) (hg : N.NGood bk hk dd w.fs) (hinfos : w.infos = []) (hnf : w.faults = [])
    (hown : OwnersSmall w.fs = true)
    (hempty : ∀ k, k ≠ [] → w.fs.get (bk ++ hk ++ k) = none) (txs : List (List Step))
    (hargs : ∀ tx ∈ txs, ∀ op ∈ opsOf tx, OpSmall op)
    (hcov : N.CoveredTxs (N.nestedCfg bk hk) (N.nSim bk hk dd hr) w (txs.map opsOf)) :
    ∀ k, k ≠ [] → ((runTxsR (N.nestedCfg bk hk) w txs).fs.get (bk ++ k)).map eraseMt =
      (w.fs.get (bk ++ k)).map eraseMt := by
  rw [restart_anywhere_equiv_txs_nested bk hk dd hr w hg hinfos hnf hown txs hargs hcov]
  exact Props.C07.whole_tree_as_before_nested_linkfree_partial bk hk dd hr w hg hinfos hnf hempty _ hcov

/-- every `Rollback` — each issued on whatever instance is current at that point — returns nil -/
theorem rollback_returns_nil_after_restart_txs_nested_linkfree_partial (bk hk dd : Key) (hr : N.NRoots bk hk dd)
    (w : World) (hg : N.NGood bk hk dd w.fs) (hinfos : w.infos = []) (hnf : w.faults = [])
    (hown : OwnersSmall w.fs = true)
    (hempty : ∀ k, k ≠ [] → w.fs.get (bk ++ hk ++ k) = none) (txs : List (List Step))
    (hargs : ∀ tx ∈ txs, ∀ op ∈ opsOf tx, OpSmall op)
    (hcov : N.CoveredTxs (N.nestedCfg bk hk) (N.nSim bk hk dd hr) w (txs.map opsOf)) :
    ∀ pre tx post, txs = pre ++ tx :: post →
      (rollback (N.nestedCfg bk hk)
        (runOpsR (N.nestedCfg bk hk) (runTxsR (N.nestedCfg bk hk) w pre) tx)).2 = .ok false := by
  intro pre tx post heq
  rw [txsR_eachN (S := N.nSim bk hk dd hr) (lstatN_nestedK bk hk hr.pb) (smallCfg_nested bk hk hr.ph)
    (fun _ h => smallView_nested_of_sd bk hk .base h) txs w hg hinfos hnf (sd_of_ownersSmall hg.1.dom hown) hcov hargs
    pre tx post heq]
  exact Props.C07.rollback_returns_nil_nested_linkfree_partial bk hk dd hr w hg hinfos hnf
    hempty _ hcov (pre.map opsOf) (opsOf tx) (post.map opsOf) (by rw [heq]; simp)

/-- the owners stay small: in the nested layering too, if every owner on the initial disk and the client's
`Chown`/`Lchown` arguments fit 32 bits, so does every owner on the disk and in the tracked map after any
history and after `Rollback` (any operations, any fault plan). -/
theorem owners_small_after_history_nested (bk hk : Key) (hhk : PKey hk) (w : World)
    (hdom : ∀ k n, w.fs.get k = some n → k ∈ w.fs.dom)
    (hown : OwnersSmall w.fs = true) (hinfos : w.infos = []) (ops : List Op) (hargs : ∀ op ∈ ops, OpSmall op) :
    (∀ k n, (runOps (N.nestedCfg bk hk) w ops).fs.get k = some n → n.meta.uid < 4294967296 ∧ n.meta.gid < 4294967296) ∧
    (∀ p i, (p, some i) ∈ (runOps (N.nestedCfg bk hk) w ops).infos → i.uid < 4294967296 ∧ i.gid < 4294967296) ∧
    (∀ k n, (runTx (N.nestedCfg bk hk) w ops).fs.get k = some n → n.meta.uid < 4294967296 ∧ n.meta.gid < 4294967296) := by
  have h := runOps_SI (smallCfg_nested bk hk hhk) ops w hargs (SI.init (sd_of_ownersSmall hdom hown) hinfos)
  exact ⟨h.1, h.2, runTx_SD (smallCfg_nested bk hk hhk) (sd_of_ownersSmall hdom hown) hinfos ops hargs⟩

/-! ## symlinks as leaves, nested layering (fragment of `Props.C04.rollback_restores_nested_symlink_leaves_partial`) -/

theorem infos_valid_after_history_nested_symlink_leaves (bk hk dd : Key) (hr : N.NRoots bk hk dd)
    (w : World) (hg : L.OSGoodL bk dd w.fs) (hloc : ∃ mt, w.fs.get (bk ++ hk) = some (.dir mt))
    (hinfos : w.infos = []) (hown : OwnersSmall w.fs = true)
    (hbl : Props.C04.BackupLinksBelowBase bk hk w.fs) (ops : List Op)
    (hcov : NL.CoveredHist (N.nestedCfg bk hk) (NL.nlSim bk hk dd hr) w ops) :
    ∀ e ∈ (runOps (N.nestedCfg bk hk) w ops).infos, ∀ i, e.2 = some i → i.Valid e.1 :=
  valid_after_historyNL (S := NL.nlSim bk hk dd hr) (lstatN_nestedK bk hk hr.pb) ⟨hg, hloc⟩ hinfos
    (Props.C04.backupLinksOK_of hbl)
    (smallViewNL_nested_of_sd bk hk .base (sd_of_ownersSmall hg.dom hown)) ops hcov

theorem restart_anywhere_equiv_nested_symlink_leaves (bk hk dd : Key) (hr : N.NRoots bk hk dd)
    (w : World) (hg : L.OSGoodL bk dd w.fs) (hloc : ∃ mt, w.fs.get (bk ++ hk) = some (.dir mt))
    (hinfos : w.infos = []) (hown : OwnersSmall w.fs = true)
    (hbl : Props.C04.BackupLinksBelowBase bk hk w.fs) (steps : List Step)
    (hcov : NL.CoveredHist (N.nestedCfg bk hk) (NL.nlSim bk hk dd hr) w (opsOf steps)) :
    runOpsR (N.nestedCfg bk hk) w steps = runOps (N.nestedCfg bk hk) w (opsOf steps) :=
  restart_anywhereNL (S := NL.nlSim bk hk dd hr) (lstatN_nestedK bk hk hr.pb) ⟨hg, hloc⟩ hinfos
    (Props.C04.backupLinksOK_of hbl)
    (smallViewNL_nested_of_sd bk hk .base (sd_of_ownersSmall hg.dom hown)) steps hcov

theorem rollback_after_restart_equiv_nested_symlink_leaves (bk hk dd : Key) (hr : N.NRoots bk hk dd)
    (w : World) (hg : L.OSGoodL bk dd w.fs) (hloc : ∃ mt, w.fs.get (bk ++ hk) = some (.dir mt))
    (hinfos : w.infos = []) (hown : OwnersSmall w.fs = true)
    (hbl : Props.C04.BackupLinksBelowBase bk hk w.fs) (steps : List Step)
    (hcov : NL.CoveredHist (N.nestedCfg bk hk) (NL.nlSim bk hk dd hr) w (opsOf steps)) :
    rollback (N.nestedCfg bk hk) (runOpsR (N.nestedCfg bk hk) w steps) =
      rollback (N.nestedCfg bk hk) (runOps (N.nestedCfg bk hk) w (opsOf steps)) := by
  rw [restart_anywhere_equiv_nested_symlink_leaves bk hk dd hr w hg hloc hinfos hown hbl steps hcov]

/-- `Rollback` on the re-created instance restores the visible base — nested layering, trees with symlinks as
leaves the transaction never traverses, `Symlink` operation included. -/
theorem rollback_after_restart_restores_nested_symlink_leaves_partial (bk hk dd : Key) (hr : N.NRoots bk hk dd)
    (w : World) (hg : L.OSGoodL bk dd w.fs) (hloc : ∃ mt, w.fs.get (bk ++ hk) = some (.dir mt))
    (hinfos : w.infos = []) (hnf : w.faults = []) (hown : OwnersSmall w.fs = true)
    (hbl : Props.C04.BackupLinksBelowBase bk hk w.fs) (steps : List Step)
    (hcov : NL.CoveredHist (N.nestedCfg bk hk) (NL.nlSim bk hk dd hr) w (opsOf steps)) :
    ∀ k, k ≠ [] → ¬ hk <+: k →
      ((runTxR (N.nestedCfg bk hk) w steps).fs.get (bk ++ k)).map (L.eraseV (kp bk)) =
        (w.fs.get (bk ++ k)).map (L.eraseV (kp bk)) := by
  have e : runTxR (N.nestedCfg bk hk) w steps = runTx (N.nestedCfg bk hk) w (opsOf steps) := by
    unfold runTxR runTx
    rw [rollback_after_restart_equiv_nested_symlink_leaves bk hk dd hr w hg hloc hinfos hown hbl steps hcov]
  rw [e]
  exact Props.C04.rollback_restores_nested_symlink_leaves_partial bk hk dd hr w hg hloc hinfos hnf hbl
    [opsOf steps] ⟨hcov, trivial⟩

/-- … also when the fault plan hit the operations: once the filesystem is healthy again -/
theorem later_rollback_after_restart_still_restores_nested_symlink_leaves_partial (bk hk dd : Key)
    (hr : N.NRoots bk hk dd)
    (w : World) (hg : L.OSGoodL bk dd w.fs) (hloc : ∃ mt, w.fs.get (bk ++ hk) = some (.dir mt))
    (hinfos : w.infos = []) (hown : OwnersSmall w.fs = true)
    (hbl : Props.C04.BackupLinksBelowBase bk hk w.fs) (steps : List Step)
    (hcov : NL.CoveredHist (N.nestedCfg bk hk) (NL.nlSim bk hk dd hr) w (opsOf steps)) :
    ∀ k, k ≠ [] → ¬ hk <+: k →
      ((rollback (N.nestedCfg bk hk) { runOpsR (N.nestedCfg bk hk) w steps with faults := [] }).1.fs.get
          (bk ++ k)).map (L.eraseV (kp bk)) = (w.fs.get (bk ++ k)).map (L.eraseV (kp bk)) := by
  rw [restart_anywhere_equiv_nested_symlink_leaves bk hk dd hr w hg hloc hinfos hown hbl steps hcov]
  exact Props.C04.later_rollback_still_restores_nested_symlink_leaves_partial bk hk dd hr w ⟨hg, hloc⟩ hinfos hbl
    (opsOf steps) hcov

/-- several transactions with restarts anywhere, each ended by `Rollback` on whatever instance is current -/
theorem rollback_after_restart_restores_txs_nested_symlink_leaves_partial (bk hk dd : Key) (hr : N.NRoots bk hk dd)
    (w : World) (hg : L.OSGoodL bk dd w.fs) (hloc : ∃ mt, w.fs.get (bk ++ hk) = some (.dir mt))
    (hinfos : w.infos = []) (hnf : w.faults = []) (hown : OwnersSmall w.fs = true)
    (hbl : Props.C04.BackupLinksBelowBase bk hk w.fs)
    (txs : List (List Step)) (hargs : ∀ tx ∈ txs, ∀ op ∈ opsOf tx, OpSmall op)
    (hcov : NL.CoveredTxs (N.nestedCfg bk hk) (NL.nlSim bk hk dd hr) w (txs.map opsOf)) :
    ∀ k, k ≠ [] → ¬ hk <+: k →
      ((runTxsR (N.nestedCfg bk hk) w txs).fs.get (bk ++ k)).map (L.eraseV (kp bk)) =
        (w.fs.get (bk ++ k)).map (L.eraseV (kp bk)) := by
  rw [txsR_eqNL (S := NL.nlSim bk hk dd hr) (lstatN_nestedK bk hk hr.pb) (smallCfg_nested bk hk hr.ph)
    (fun _ h => smallViewNL_nested_of_sd bk hk .base h) txs w ⟨hg, hloc⟩ hinfos hnf
    (Props.C04.backupLinksOK_of hbl) (sd_of_ownersSmall hg.dom hown) hcov hargs]
  exact Props.C04.rollback_restores_nested_symlink_leaves_partial bk hk dd hr w hg hloc hinfos hnf hbl _ hcov

/-! ## Non-vacuity (example disk of Props/C04N.lean: base `/b` with the file `/b/f`, backup location `/b/d`) -/

abbrev cfg12N := N.nestedCfg [['b']] [['d']]
def w12N : World := { fs := exDisk }

/-- a session: change mode and owner of `/f`, RESTART, overwrite it, make directories, try to create a file
below the hidden location (refused), RESTART, remove the file, RESTART — and then Rollback on the third
re-created instance (`runTxR`) -/
def steps12N : List Step :=
  [.inl (.chmod "/f".toList 0o600), .inl (.chown "/f".toList 7 8), .inr (),
   .inl (.write "/f".toList (O_WRONLY ||| O_TRUNC) 0 "y"), .inl (.mkdirAll "/x/e//g/../h".toList 0o755),
   .inl (.creat "/d/x".toList "hidden"), .inr (),
   .inl (.remove "/f".toList), .inr ()]

/-- two transactions: the session above, then (restart first) a second one on the restored tree -/
def txs12N : List (List Step) :=
  [steps12N, [.inr (), .inl (.lchown "/f".toList 4294967295 (-1)), .inr (), .inl (.creat "/n".toList "x"), .inr ()]]

/-- the hypotheses of all theorems above hold of this disk, this session and these transactions -/
example : N.NGood [['b']] [['d']] [['k']] w12N.fs ∧ w12N.infos = [] ∧ w12N.faults = [] ∧
    OwnersSmall w12N.fs = true ∧ (∀ k, k ≠ [] → w12N.fs.get ([['b']] ++ [['d']] ++ k) = none) ∧
    N.CoveredHist cfg12N (N.nSim [['b']] [['d']] [['k']] Props.C04.nroots_example) w12N (opsOf steps12N) ∧
    (∀ tx ∈ txs12N, ∀ op ∈ opsOf tx, OpSmall op) ∧
    N.CoveredTxs cfg12N (N.nSim [['b']] [['d']] [['k']] Props.C04.nroots_example) w12N (txs12N.map opsOf) := by
  have hc : N.CoveredHist cfg12N (N.nSim [['b']] [['d']] [['k']] Props.C04.nroots_example) w12N (opsOf steps12N) := by
    refine ⟨?_, ?_, ?_, ?_, ?_, ?_, trivial⟩
    · show isAbs _ = true; decide
    · show isAbs _ = true; decide
    · show isAbs _ = true; decide
    · show isAbs _ = true; decide
    · show isAbs _ = true; decide
    · show isAbs _ = true ∧ clean _ ≠ rootP; decide
  refine ⟨⟨osGood_example, ⟨_, rfl⟩⟩, rfl, rfl, by decide, Props.C07.exDisk_loc_empty, hc, by decide,
    hc, ⟨?_, ?_, trivial⟩, trivial⟩
  · show isAbs _ = true; decide
  · show isAbs _ = true; decide

set_option maxRecDepth 100000 in
/-- the model evaluated on it (kernel-checked): before Rollback the tracked map holds the ORIGINAL info of
`/f`; the map after the three restarts is the map without restarts; the copy sits in the location INSIDE the
base; Rollback on the re-created instance returns nil, puts `/f` back and empties the location. -/
example :
    (runOpsR cfg12N w12N steps12N).infos = (runOps cfg12N w12N (opsOf steps12N)).infos ∧
    ((runOpsR cfg12N w12N steps12N).infos.lookup "/f".toList).isSome = true ∧
    (runOpsR cfg12N w12N steps12N).fs.get [['b'], ['f']] = none ∧
    ((runOpsR cfg12N w12N steps12N).fs.get [['b'], ['d'], ['f']]).isSome = true ∧
    (runOpsR cfg12N w12N steps12N).fs.get [['b'], ['d'], ['x']] = none ∧
    (rollback cfg12N (runOpsR cfg12N w12N steps12N)).2 = .ok false ∧
    (runTxR cfg12N w12N steps12N).fs.get [['b'], ['f']] = exDisk.get [['b'], ['f']] ∧
    (runTxR cfg12N w12N steps12N).fs.get [['b'], ['x']] = none ∧
    (runTxR cfg12N w12N steps12N).fs.get [['b'], ['d'], ['f']] = none ∧
    (runTxsR cfg12N w12N txs12N).fs.get [['b'], ['f']] = exDisk.get [['b'], ['f']] ∧
    (runTxsR cfg12N w12N txs12N).fs.get [['b'], ['n']] = none := by
  refine ⟨by decide +kernel, by decide +kernel, by decide +kernel, by decide +kernel, by decide +kernel,
    by decide +kernel, by decide +kernel, by decide +kernel, by decide +kernel, by decide +kernel,
    by decide +kernel⟩

/-! ### non-vacuity, symlinks as leaves (disk `exDiskNL` of Props/C04L.lean: `/b/l -> f`, `/b/m -> e`, location `/b/d`) -/

def steps12NL : List Step :=
  [.inl (.lchown "/l".toList 5 6), .inr (), .inl (.remove "/l".toList), .inr ()]

/-- the hypotheses of the symlink-leaves theorems hold of it -/
example : L.OSGoodL [['b']] [['k']] Props.C04.wN0.fs ∧
    (∃ mt, Props.C04.wN0.fs.get ([['b']] ++ [['d']]) = some (.dir mt)) ∧
    Props.C04.wN0.infos = [] ∧ Props.C04.wN0.faults = [] ∧ OwnersSmall Props.C04.wN0.fs = true ∧
    Props.C04.BackupLinksBelowBase [['b']] [['d']] Props.C04.wN0.fs ∧
    NL.CoveredHist Props.C04.cfgNL Props.C04.simNL Props.C04.wN0 (opsOf steps12NL) := by
  have hKl : PKey [['l']] := by decide
  have hcl : clean "/l".toList = kp [['l']] := by decide
  refine ⟨Props.C04.osGoodL_exDiskNL, ⟨_, rfl⟩, rfl, rfl, by decide, ?_, ?_, ?_, trivial⟩
  · rintro k ⟨t, mt, h⟩
    by_cases hk0 : k = []
    · subst hk0
      have hd : Props.C04.wN0.fs.get ([['b']] ++ ([['d']] ++ [])) = some (.dir exMeta) := by decide +kernel
      rw [hd] at h; cases h
    · have := Props.C04.exDiskNL_loc_empty k hk0
      rw [show Props.C04.wN0.fs = Props.C04.exDiskNL from rfl, this] at h
      cases h
  · refine ⟨by decide, Props.C04.nl_covered_key hKl hcl
      ⟨Props.C04.nl_noLinkAnc_top ⟨Props.C04.rootNL, by decide +kernel⟩, ?_⟩⟩
    intro t mt hv
    have : Props.C04.simNL.view .base Props.C04.wN0.fs [['l']] =
        some (.link ['f'] { exMeta with mode := 0o777, mtime := .fresh }) := by decide +kernel
    have hv' := this.symm.trans hv; cases hv'
    exact Props.C04.linkOK_exNL _ _ ⟨Or.inl rfl, Or.inl rfl⟩
  · refine ⟨by decide, by decide, Props.C04.nl_covered_key hKl hcl
      ⟨Props.C04.nl_noLinkAnc_top ⟨Props.C04.rootNL, by decide +kernel⟩, ?_⟩⟩
    intro t mt hv
    have : Props.C04.simNL.view .base Props.C04.wN1.fs [['l']] =
        some (.link ['f'] { mode := 0o777, uid := 5, gid := 6, mtime := .fresh }) := by decide +kernel
    have hv' := this.symm.trans hv; cases hv'
    exact Props.C04.linkOK_exNL _ _ ⟨Or.inl rfl, Or.inl rfl⟩

set_option maxRecDepth 100000 in
/-- kernel-evaluated: the tracked map with the two restarts is the map without; the link's copy sits below the
location; Rollback on the re-created instance returns nil and puts the link (target, owner) back -/
example :
    (runOpsR Props.C04.cfgNL Props.C04.wN0 steps12NL).infos =
      (runOps Props.C04.cfgNL Props.C04.wN0 (opsOf steps12NL)).infos ∧
    (runOpsR Props.C04.cfgNL Props.C04.wN0 steps12NL).fs.get [['b'], ['l']] = none ∧
    ((runOpsR Props.C04.cfgNL Props.C04.wN0 steps12NL).fs.get [['b'], ['d'], ['l']]).isSome = true ∧
    (rollback Props.C04.cfgNL (runOpsR Props.C04.cfgNL Props.C04.wN0 steps12NL)).2 = .ok false ∧
    ((runTxR Props.C04.cfgNL Props.C04.wN0 steps12NL).fs.get [['b'], ['l']]).map (L.eraseV (kp [['b']])) =
      (Props.C04.exDiskNL.get [['b'], ['l']]).map (L.eraseV (kp [['b']])) ∧
    (runTxR Props.C04.cfgNL Props.C04.wN0 steps12NL).fs.get [['b'], ['d'], ['l']] = none := by
  refine ⟨by decide +kernel, by decide +kernel, by decide +kernel, by decide +kernel, by decide +kernel,
    by decide +kernel⟩

end Props.C12
