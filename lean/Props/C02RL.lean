import Props.C02R
import Props.C02L
import Lemmas.LR2Recover
/-!
# C02 — originals stay recoverable at every crash point: trees with SYMLINKS as leaves, names through FLAT links

`Props/C02R.lean` proves, for link-free trees, the literal per-entry disjunction of C02 and the crash
points inside Rollback.  This file does the same for the two fragments with symlinks — that of
`Props.C01L.rollback_restores_symlink_leaves_partial` (`L.CoveredHist`: trees with symlinks, any target
text, as leaves; the `Symlink` operation) and that of `Props.C01.rollback_restores_through_flat_links_partial`
(`L.G.CoveredHist`: names THROUGH flat symlinks; Rollback never resolves names, so everything about
Rollback is the symlink-leaves statement verbatim).  OS model behind two `PrefixFS` layers; start condition
on the backup directory as in C01L (`hbl`: e.g. no symlink below the backup root).

1. `recoverable_of_inv_symlink_leaves` / `…_through_flat_links` (EVERY fault plan, crash plans included):
   every original — file, directory, SYMLINK — is still shown by the base, or is tracked with a `FileInfo`
   describing it and copied at the same path of the backup — regular file: the very node (content, mode,
   owner, mtime); directory: mode and owner; symlink: a symlink whose target text, as `Readlink` through
   the backup `PrefixFS` reports it, is the text `Readlink` through the base `PrefixFS` reported for the
   original, same uid/gid (`file_…`, `link_recoverable_of_inv_…` spell this out on the raw disk).
   `recoverable_at_every_crash_point_in_operations_…_partial`: the instance for `crashPlan n`.
2. Crash points INSIDE ROLLBACK, every index `n` (`Props.C02.dieAfter`): `crash_in_rollback_dichotomy_…_partial`
   — on the disk left behind EITHER every entry of the base below its root is what it was when the
   transaction began (crash point in the clean-up half, or never reached), OR the backup tree is exactly
   what it was when Rollback began, the base is unchanged at every untracked key, and every symlink of the
   base was one before or sits at a key tracked as a symlink (crash point in the restore half — in
   particular INSIDE `restoreSymlink`: `lexists` backup, `lexists` base, `Remove`, `Readlink`, `Symlink`,
   `Lchown`; a crash between `Remove` and `Symlink` leaves the link absent in the base, its copy in the
   backup and the key tracked).  Hence `recoverable_at_every_crash_point_in_rollback_…_partial`.
3. `second_rollback_after_crash_restores_…_partial`: the process died in the restore half, reloads the
   tracked map Rollback began with and calls Rollback again on healthy filesystems: the base is restored —
   PROVIDED no tracked path lies strictly below a path tracked as a symlink (`L.NoneBelowTrackedLinks`).
   The hypothesis is FORCED (`second_rollback_after_crash_deletes_through_restored_link`, kernel-checked):
   original `/m -> d` and `/d/x`; the covered history `Remove("/m")`, `Mkdir("/m")`, `Create("/m/x")`; the
   first Rollback dies after it has put the link `/m -> d` back (any crash point from there to the reset of
   the tracked map); the second Rollback, reading the reloaded map, `Lstat`s and `Remove`s the tracked-absent
   `/m/x` THROUGH the restored link and deletes the never-named original `/d/x`.
-/
namespace Props.C02
open BFS BFS.BackupFS BFS.L

/-! ### vocabulary (raw disk) -/

/-- the base tree (root `bk`) of disk `m` still shows `node` at `k`, as seen through the base `PrefixFS`
(`L.eraseV`: directory timestamps and a symlink's mode and timestamp erased; a symlink's target text as
`Readlink` reports it) -/
def BaseShowsL (m : MFS) (bk k : Key) (node : Node) : Prop :=
  (m.get (bk ++ k)).map (eraseV (kp bk)) = some (eraseV (kp bk) node)

/-- the backup tree (root `kk`) of disk `m`, seen through the backup `PrefixFS`, shows at `k` what the base
tree (root `bk`), seen through the base `PrefixFS`, showed for the original `node` -/
def BackupHoldsL (m : MFS) (bk kk k : Key) (node : Node) : Prop :=
  (m.get (kk ++ k)).map (eraseV (kp kk)) = some (eraseV (kp bk) node)

/-- `BackupHoldsL` for a regular file: the very same node -/
theorem BackupHoldsL.file {m : MFS} {bk kk k : Key} {c : String} {mt : Meta}
    (h : BackupHoldsL m bk kk k (.file c mt)) : m.get (kk ++ k) = some (.file c mt) := by
  unfold BackupHoldsL at h
  cases hx : m.get (kk ++ k) with
  | none => rw [hx] at h; cases h
  | some n =>
    rw [hx] at h
    simp only [Option.map_some, Option.some.injEq] at h
    rw [eraseV_file.mp h]

/-- `BackupHoldsL` for a directory: a directory with the same mode bits and owner -/
theorem BackupHoldsL.dir {m : MFS} {bk kk k : Key} {md : Meta}
    (h : BackupHoldsL m bk kk k (.dir md)) :
    ∃ md', m.get (kk ++ k) = some (.dir md') ∧ md'.mode = md.mode ∧ md'.uid = md.uid ∧ md'.gid = md.gid := by
  unfold BackupHoldsL at h
  cases hx : m.get (kk ++ k) with
  | none => rw [hx] at h; cases h
  | some n =>
    rw [hx] at h
    simp only [Option.map_some, Option.some.injEq] at h
    obtain ⟨m0, rfl, hmd⟩ := eraseV_dir h
    have h1 := congrArg Meta.mode hmd
    have h2 := congrArg Meta.uid hmd
    have h3 := congrArg Meta.gid hmd
    exact ⟨m0, rfl, h1.symm, h2.symm, h3.symm⟩

/-- `BackupHoldsL` for a symlink: a symlink with the same REPORTED target text and the same owner -/
theorem BackupHoldsL.link {m : MFS} {bk kk k : Key} {raw : Path} {md : Meta}
    (h : BackupHoldsL m bk kk k (.link raw md)) :
    ∃ raw' md', m.get (kk ++ k) = some (.link raw' md') ∧
      PrefixFS.readlinkPost (kp kk) raw' = PrefixFS.readlinkPost (kp bk) raw ∧
      md'.uid = md.uid ∧ md'.gid = md.gid := by
  unfold BackupHoldsL at h
  cases hx : m.get (kk ++ k) with
  | none => rw [hx] at h; cases h
  | some n =>
    rw [hx] at h
    simp only [Option.map_some, Option.some.injEq] at h
    obtain ⟨raw', m0, rfl, ht, hmd⟩ := eraseV_link h
    have h2 := congrArg Meta.uid hmd
    have h3 := congrArg Meta.gid hmd
    exact ⟨raw', m0, rfl, ht.symm, h2.symm, h3.symm⟩

/-- the crash point of `dieAfter w n` lies in the restore half of Rollback (classification loop, removal of
created paths, restore of directories, files, symlinks): a primitive of that half is refused, or the half
ends exactly at the crash index -/
def CrashInRestoreHalf (cfg : Cfg) (w : World) (n : Nat) : Prop :=
  crashed (restorePart cfg w.infos (dieAfter w n)).1 = true

section
variable (bk kk : Key) (hbk : PKey bk) (hkk : PKey kk)
  (hne1 : bk ≠ []) (hne2 : kk ≠ []) (hd1 : ¬ bk <+: kk) (hd2 : ¬ kk <+: bk)

/-! ### the statements read off the invariants (shared by both fragments) -/

section
variable {bk kk hbk hkk hne1 hne2 hd1 hd2}
variable {w0 w : World}

/-- generic step: from `L.InvX` at `w` for the original view of `w0`, a statement about a disk `m` whose
backup view is that of `w` and whose base view agrees with `w`'s at untracked keys -/
private theorem entry_of_invL {m : MFS} (hg : OSGoodL bk kk w0.fs)
    (hX : L.InvX (osSimL bk kk hbk hkk hne1 hne2 hd1 hd2) (osViewL bk kk .base w0.fs) w)
    (hbackup : ∀ j, osViewL bk kk .backup m j = osViewL bk kk .backup w.fs j)
    (hbase : ∀ j, w.infos.lookup (kp j) = none → osViewL bk kk .base m j = osViewL bk kk .base w.fs j)
    (k : Key) (hk : k ≠ []) (node : Node) (horig : w0.fs.get (bk ++ k) = some node) :
    BaseShowsL m bk k node ∨
      (∃ i, w.infos.lookup (kp k) = some (some i) ∧ InfoForL i (eraseV (kp bk) node) ∧ BackupHoldsL m bk kk k node) := by
  have hv : osViewL bk kk .base w0.fs k = some (eraseV (kp bk) node) := by
    show (w0.fs.get (bk ++ k)).map (eraseV (kp bk)) = _
    rw [horig]; rfl
  have hpk : PKey k := (hg.pkey _ _ horig).right
  rcases hX.inv.recoverable hv with ⟨hu, hb⟩ | ⟨i, hts, hfor, _, _⟩
  · left
    show osViewL bk kk .base m k = _
    rw [hbase k hu]; exact hb
  · right
    refine ⟨i, hts, hfor, ?_⟩
    show osViewL bk kk .backup m k = _
    rw [hbackup k, ← hv]
    exact hX.x.exact k i hpk hk hts

private theorem dichotomy_core
    (hI : L.Inv (osSimL bk kk hbk hkk hne1 hne2 hd1 hd2) (osViewL bk kk .base w0.fs) w) (n : Nat) :
    (¬ CrashInRestoreHalf (osCfg bk kk) w n ∧
      OSGoodL bk kk (rollback (osCfg bk kk) (dieAfter w n)).1.fs ∧
      ∀ k, k ≠ [] →
        ((rollback (osCfg bk kk) (dieAfter w n)).1.fs.get (bk ++ k)).map (eraseV (kp bk)) =
          (w0.fs.get (bk ++ k)).map (eraseV (kp bk))) ∨
    (CrashInRestoreHalf (osCfg bk kk) w n ∧
      L.MidRestore (osSimL bk kk hbk hkk hne1 hne2 hd1 hd2) w (rollback (osCfg bk kk) (dieAfter w n)).1) := by
  rcases L.rollback_crash_dichotomy (cfg := osCfg bk kk) hI (crashOnly_crashPlan (w.trace.length + n)) with
    ⟨hc, hg', h⟩ | ⟨hc, h⟩
  · refine Or.inl ⟨?_, hg', h⟩
    intro hcr
    have hcr' : crashed (restorePart (osCfg bk kk) w.infos (dieAfter w n)).1 = true := hcr
    have hc' : crashed (restorePart (osCfg bk kk) w.infos (dieAfter w n)).1 = false := hc
    rw [hc'] at hcr'; cases hcr'
  · exact Or.inr ⟨hc, h⟩

private theorem dichotomy_disk
    (hI : L.Inv (osSimL bk kk hbk hkk hne1 hne2 hd1 hd2) (osViewL bk kk .base w0.fs) w) (n : Nat) :
    (∀ k, k ≠ [] →
      ((rollback (osCfg bk kk) (dieAfter w n)).1.fs.get (bk ++ k)).map (eraseV (kp bk)) =
        (w0.fs.get (bk ++ k)).map (eraseV (kp bk))) ∨
    ((∀ j, ((rollback (osCfg bk kk) (dieAfter w n)).1.fs.get (kk ++ j)).map (eraseV (kp kk)) =
        (w.fs.get (kk ++ j)).map (eraseV (kp kk))) ∧
     (∀ j, w.infos.lookup (kp j) = none →
        ((rollback (osCfg bk kk) (dieAfter w n)).1.fs.get (bk ++ j)).map (eraseV (kp bk)) =
          (w.fs.get (bk ++ j)).map (eraseV (kp bk))) ∧
     (∀ j t mt, (rollback (osCfg bk kk) (dieAfter w n)).1.fs.get (bk ++ j) = some (.link t mt) →
        (∃ t' mt', w.fs.get (bk ++ j) = some (.link t' mt')) ∨
        (j ≠ [] ∧ ∃ i, w.infos.lookup (kp j) = some (some i) ∧ i.kind = .link))) := by
  rcases dichotomy_core hI n with ⟨_, _, h⟩ | ⟨_, hm⟩
  · exact Or.inl h
  · refine Or.inr ⟨hm.backup, fun j hu => hm.base j (hI.untracked_not_in_foot hu), ?_⟩
    intro j t mt hl
    rcases hm.links j (Props.C01L.isLinkAt_osViewL.mpr ⟨t, mt, hl⟩) with h0 | ⟨i, ⟨_, hne, hmem⟩, hkind⟩
    · exact Or.inl (Props.C01L.isLinkAt_osViewL.mp h0)
    · exact Or.inr ⟨hne, i, lookup_of_mem hI.nodup hmem, hkind⟩

private theorem recoverable_in_rollback_core (hg : OSGoodL bk kk w0.fs)
    (hX : L.InvX (osSimL bk kk hbk hkk hne1 hne2 hd1 hd2) (osViewL bk kk .base w0.fs) w) (n : Nat) :
    ∀ k, k ≠ [] → ∀ node, w0.fs.get (bk ++ k) = some node →
      BaseShowsL (rollback (osCfg bk kk) (dieAfter w n)).1.fs bk k node ∨
      (∃ i, w.infos.lookup (kp k) = some (some i) ∧ InfoForL i (eraseV (kp bk) node) ∧
        BackupHoldsL (rollback (osCfg bk kk) (dieAfter w n)).1.fs bk kk k node) := by
  intro k hk node horig
  rcases dichotomy_core hX.inv n with ⟨_, _, h⟩ | ⟨_, hm⟩
  · left
    show ((rollback (osCfg bk kk) (dieAfter w n)).1.fs.get (bk ++ k)).map (eraseV (kp bk)) = _
    rw [h k hk, horig]; rfl
  · exact entry_of_invL hg hX hm.backup (fun j hu => hm.base j (hX.inv.untracked_not_in_foot hu)) k hk node horig

private theorem second_rollback_core
    (hI : L.Inv (osSimL bk kk hbk hkk hne1 hne2 hd1 hd2) (osViewL bk kk .base w0.fs) w)
    (hnb : L.NoneBelowTrackedLinks w) (n : Nat) (hcr : CrashInRestoreHalf (osCfg bk kk) w n) :
    ∀ k, k ≠ [] →
      ((rollback (osCfg bk kk)
          { (rollback (osCfg bk kk) (dieAfter w n)).1 with infos := w.infos, faults := [] }).1.fs.get (bk ++ k)).map
          (eraseV (kp bk)) =
        (w0.fs.get (bk ++ k)).map (eraseV (kp bk)) := by
  rcases dichotomy_core hI n with ⟨hnc, _, _⟩ | ⟨_, hm⟩
  · exact absurd hcr hnc
  · exact (L.second_rollback_restores (cfg := osCfg bk kk) hI hm hnb).2

end

/-! ### 1. the per-entry disjunction, symlinks as leaves (`L.CoveredHist`) -/

/-- **(1) the literal form of the property — trees with symlinks as leaves, EVERY fault plan.**
After any covered history run under ANY fault plan (crash plans included), for every entry `k` below the base
root that existed when the transaction began (`node`: a file, a directory or a SYMLINK): EITHER the base
still shows it, OR it is tracked with a `FileInfo` that describes it exactly (type, mode bits, owner, file
mtime) and the backup holds its copy at the same path — file: the very node; directory: mode and owner;
symlink: a symlink with the same reported target text and owner. -/
theorem recoverable_of_inv_symlink_leaves
    (w0 : World) (hg : OSGoodL bk kk w0.fs) (hinfos : w0.infos = [])
    (hbl : ∀ k, (∃ t mt, w0.fs.get (kk ++ k) = some (.link t mt)) → ∃ t mt, w0.fs.get (bk ++ k) = some (.link t mt))
    (ops : List Op) (hcov : L.CoveredHist (osCfg bk kk) (osSimL bk kk hbk hkk hne1 hne2 hd1 hd2) w0 ops) :
    ∀ k, k ≠ [] → ∀ node, w0.fs.get (bk ++ k) = some node →
      BaseShowsL (runOps (osCfg bk kk) w0 ops).fs bk k node ∨
      (∃ i, (runOps (osCfg bk kk) w0 ops).infos.lookup (kp k) = some (some i) ∧ InfoForL i (eraseV (kp bk) node) ∧
        BackupHoldsL (runOps (osCfg bk kk) w0 ops).fs bk kk k node) := by
  intro k hk node horig
  have h := exactness_invariant_after_history_symlink_leaves bk kk hbk hkk hne1 hne2 hd1 hd2 w0 hg hinfos hbl ops hcov
  exact entry_of_invL hg h.inv (fun _ => rfl) (fun _ _ => rfl) k hk node horig

/-- regular files, on the raw disk: the file is in the base, or the very same node is in the backup -/
theorem file_recoverable_of_inv_symlink_leaves
    (w0 : World) (hg : OSGoodL bk kk w0.fs) (hinfos : w0.infos = [])
    (hbl : ∀ k, (∃ t mt, w0.fs.get (kk ++ k) = some (.link t mt)) → ∃ t mt, w0.fs.get (bk ++ k) = some (.link t mt))
    (ops : List Op) (hcov : L.CoveredHist (osCfg bk kk) (osSimL bk kk hbk hkk hne1 hne2 hd1 hd2) w0 ops) :
    ∀ k, k ≠ [] → ∀ c mt, w0.fs.get (bk ++ k) = some (.file c mt) →
      (runOps (osCfg bk kk) w0 ops).fs.get (bk ++ k) = some (.file c mt) ∨
      (runOps (osCfg bk kk) w0 ops).fs.get (kk ++ k) = some (.file c mt) := by
  intro k hk c mt horig
  rcases recoverable_of_inv_symlink_leaves bk kk hbk hkk hne1 hne2 hd1 hd2 w0 hg hinfos hbl ops hcov k hk _ horig with
    h | ⟨_, _, _, h⟩
  · exact Or.inl (BackupHoldsL.file (bk := bk) (kk := bk) h)
  · exact Or.inr h.file

/-- **symlinks, on the raw disk**: the base still holds a symlink at the path whose reported target text and
owner are the original's, or the key is tracked as a symlink and the backup holds a symlink at the same path
whose target text, as `Readlink` through the backup `PrefixFS` reports it, is the text `Readlink` through the
base `PrefixFS` reported for the original, with the same uid and gid -/
theorem link_recoverable_of_inv_symlink_leaves
    (w0 : World) (hg : OSGoodL bk kk w0.fs) (hinfos : w0.infos = [])
    (hbl : ∀ k, (∃ t mt, w0.fs.get (kk ++ k) = some (.link t mt)) → ∃ t mt, w0.fs.get (bk ++ k) = some (.link t mt))
    (ops : List Op) (hcov : L.CoveredHist (osCfg bk kk) (osSimL bk kk hbk hkk hne1 hne2 hd1 hd2) w0 ops) :
    ∀ k, k ≠ [] → ∀ raw md, w0.fs.get (bk ++ k) = some (.link raw md) →
      (∃ raw' md', (runOps (osCfg bk kk) w0 ops).fs.get (bk ++ k) = some (.link raw' md') ∧
        PrefixFS.readlinkPost (kp bk) raw' = PrefixFS.readlinkPost (kp bk) raw ∧ md'.uid = md.uid ∧ md'.gid = md.gid) ∨
      ((∃ i, (runOps (osCfg bk kk) w0 ops).infos.lookup (kp k) = some (some i) ∧ i.kind = .link ∧
          i.uid = md.uid ∧ i.gid = md.gid) ∧
        ∃ raw' md', (runOps (osCfg bk kk) w0 ops).fs.get (kk ++ k) = some (.link raw' md') ∧
          PrefixFS.readlinkPost (kp kk) raw' = PrefixFS.readlinkPost (kp bk) raw ∧ md'.uid = md.uid ∧ md'.gid = md.gid) := by
  intro k hk raw md horig
  rcases recoverable_of_inv_symlink_leaves bk kk hbk hkk hne1 hne2 hd1 hd2 w0 hg hinfos hbl ops hcov k hk _ horig with
    h | ⟨i, hts, hfor, h⟩
  · exact Or.inl (BackupHoldsL.link (bk := bk) (kk := bk) h)
  · exact Or.inr ⟨⟨i, hts, hfor.1, hfor.2.2.1, hfor.2.2.2.1⟩, h.link⟩

/-- **(1, crash points inside operations) symlinks as leaves.**  `L.InvX` holds under every fault plan and
`crashPlan n` is one: let the process die after any number `n` of primitive calls of any covered history —
in the middle of `copySymlink`, between `Symlink` and `Lchown` — (the disk is frozen from then on:
`crashed_frozen`); on the disk it leaves behind every original is in the base, or tracked with an exact
description and copied in the backup. -/
theorem recoverable_at_every_crash_point_in_operations_symlink_leaves_partial
    (w0 : World) (hg : OSGoodL bk kk w0.fs) (hinfos : w0.infos = [])
    (hbl : ∀ k, (∃ t mt, w0.fs.get (kk ++ k) = some (.link t mt)) → ∃ t mt, w0.fs.get (bk ++ k) = some (.link t mt))
    (n : Nat) (_hplan : w0.faults = crashPlan n)
    (ops : List Op) (hcov : L.CoveredHist (osCfg bk kk) (osSimL bk kk hbk hkk hne1 hne2 hd1 hd2) w0 ops) :
    ∀ k, k ≠ [] → ∀ node, w0.fs.get (bk ++ k) = some node →
      BaseShowsL (runOps (osCfg bk kk) w0 ops).fs bk k node ∨
      (∃ i, (runOps (osCfg bk kk) w0 ops).infos.lookup (kp k) = some (some i) ∧ InfoForL i (eraseV (kp bk) node) ∧
        BackupHoldsL (runOps (osCfg bk kk) w0 ops).fs bk kk k node) :=
  recoverable_of_inv_symlink_leaves bk kk hbk hkk hne1 hne2 hd1 hd2 w0 hg hinfos hbl ops hcov

/-! ### 2. crash points inside Rollback, symlinks as leaves -/

/-- **(2, the dichotomy) symlinks as leaves.**  After any covered history (run under any fault plan), start
Rollback and let the process die after `n` more primitive calls, for ANY `n`.  On the disk left behind:
EITHER every entry of the base below its root is what it was when the transaction began (the crash point
lies in the clean-up loops, or Rollback finished), OR (the crash point lies in the restore loops —
possibly inside `restoreSymlink`) the backup tree is exactly what it was when Rollback began, the base is
unchanged at every untracked key, and a symlink in the base was a symlink before Rollback or sits at a key
tracked as a symlink. -/
theorem crash_in_rollback_dichotomy_symlink_leaves_partial
    (w0 : World) (hg : OSGoodL bk kk w0.fs) (hinfos : w0.infos = [])
    (hbl : ∀ k, (∃ t mt, w0.fs.get (kk ++ k) = some (.link t mt)) → ∃ t mt, w0.fs.get (bk ++ k) = some (.link t mt))
    (ops : List Op) (hcov : L.CoveredHist (osCfg bk kk) (osSimL bk kk hbk hkk hne1 hne2 hd1 hd2) w0 ops) (n : Nat) :
    (∀ k, k ≠ [] →
      ((rollback (osCfg bk kk) (dieAfter (runOps (osCfg bk kk) w0 ops) n)).1.fs.get (bk ++ k)).map (eraseV (kp bk)) =
        (w0.fs.get (bk ++ k)).map (eraseV (kp bk))) ∨
    ((∀ j, ((rollback (osCfg bk kk) (dieAfter (runOps (osCfg bk kk) w0 ops) n)).1.fs.get (kk ++ j)).map (eraseV (kp kk)) =
        ((runOps (osCfg bk kk) w0 ops).fs.get (kk ++ j)).map (eraseV (kp kk))) ∧
     (∀ j, (runOps (osCfg bk kk) w0 ops).infos.lookup (kp j) = none →
        ((rollback (osCfg bk kk) (dieAfter (runOps (osCfg bk kk) w0 ops) n)).1.fs.get (bk ++ j)).map (eraseV (kp bk)) =
          ((runOps (osCfg bk kk) w0 ops).fs.get (bk ++ j)).map (eraseV (kp bk))) ∧
     (∀ j t mt, (rollback (osCfg bk kk) (dieAfter (runOps (osCfg bk kk) w0 ops) n)).1.fs.get (bk ++ j) = some (.link t mt) →
        (∃ t' mt', (runOps (osCfg bk kk) w0 ops).fs.get (bk ++ j) = some (.link t' mt')) ∨
        (j ≠ [] ∧ ∃ i, (runOps (osCfg bk kk) w0 ops).infos.lookup (kp j) = some (some i) ∧ i.kind = .link))) :=
  dichotomy_disk (Props.C01L.invariant_after_history bk kk hbk hkk hne1 hne2 hd1 hd2 w0 hg hinfos hbl ops hcov) n

/-- which alternative holds is decided by where the crash point lies: not in the restore half — the base is
completely restored (and the disk is well-formed) -/
theorem crash_outside_restore_half_base_restored_symlink_leaves_partial
    (w0 : World) (hg : OSGoodL bk kk w0.fs) (hinfos : w0.infos = [])
    (hbl : ∀ k, (∃ t mt, w0.fs.get (kk ++ k) = some (.link t mt)) → ∃ t mt, w0.fs.get (bk ++ k) = some (.link t mt))
    (ops : List Op) (hcov : L.CoveredHist (osCfg bk kk) (osSimL bk kk hbk hkk hne1 hne2 hd1 hd2) w0 ops) (n : Nat)
    (hnc : ¬ CrashInRestoreHalf (osCfg bk kk) (runOps (osCfg bk kk) w0 ops) n) :
    ∀ k, k ≠ [] →
      ((rollback (osCfg bk kk) (dieAfter (runOps (osCfg bk kk) w0 ops) n)).1.fs.get (bk ++ k)).map (eraseV (kp bk)) =
        (w0.fs.get (bk ++ k)).map (eraseV (kp bk)) := by
  rcases dichotomy_core (Props.C01L.invariant_after_history bk kk hbk hkk hne1 hne2 hd1 hd2 w0 hg hinfos hbl ops hcov) n with
    ⟨_, _, h⟩ | ⟨hc, _⟩
  · exact h
  · exact absurd hc hnc

/-- **(2) originals stay recoverable at every crash point inside Rollback — symlinks as leaves.**  Any covered
history, run under any fault plan; then Rollback, the process dying after `n` more primitive calls — in the
classification loop, in the middle of a `restoreFile`, INSIDE `restoreSymlink` (after the `Remove` of the
entry in the way, before `Symlink`; between `Symlink` and `Lchown`), between two loops, in the clean-up, or
not at all: on the frozen disk every entry `k` that existed when the transaction began — file, directory,
symlink — is intact in the base, or was tracked with an exact description when Rollback began and its copy
is still in the backup. -/
theorem recoverable_at_every_crash_point_in_rollback_symlink_leaves_partial
    (w0 : World) (hg : OSGoodL bk kk w0.fs) (hinfos : w0.infos = [])
    (hbl : ∀ k, (∃ t mt, w0.fs.get (kk ++ k) = some (.link t mt)) → ∃ t mt, w0.fs.get (bk ++ k) = some (.link t mt))
    (ops : List Op) (hcov : L.CoveredHist (osCfg bk kk) (osSimL bk kk hbk hkk hne1 hne2 hd1 hd2) w0 ops) (n : Nat) :
    ∀ k, k ≠ [] → ∀ node, w0.fs.get (bk ++ k) = some node →
      BaseShowsL (rollback (osCfg bk kk) (dieAfter (runOps (osCfg bk kk) w0 ops) n)).1.fs bk k node ∨
      (∃ i, (runOps (osCfg bk kk) w0 ops).infos.lookup (kp k) = some (some i) ∧ InfoForL i (eraseV (kp bk) node) ∧
        BackupHoldsL (rollback (osCfg bk kk) (dieAfter (runOps (osCfg bk kk) w0 ops) n)).1.fs bk kk k node) :=
  recoverable_in_rollback_core hg
    (exactness_invariant_after_history_symlink_leaves bk kk hbk hkk hne1 hne2 hd1 hd2 w0 hg hinfos hbl ops hcov).inv n

/-- symlinks, on the raw disk, at every crash point inside Rollback -/
theorem link_recoverable_at_every_crash_point_in_rollback_symlink_leaves_partial
    (w0 : World) (hg : OSGoodL bk kk w0.fs) (hinfos : w0.infos = [])
    (hbl : ∀ k, (∃ t mt, w0.fs.get (kk ++ k) = some (.link t mt)) → ∃ t mt, w0.fs.get (bk ++ k) = some (.link t mt))
    (ops : List Op) (hcov : L.CoveredHist (osCfg bk kk) (osSimL bk kk hbk hkk hne1 hne2 hd1 hd2) w0 ops) (n : Nat) :
    ∀ k, k ≠ [] → ∀ raw md, w0.fs.get (bk ++ k) = some (.link raw md) →
      (∃ raw' md', (rollback (osCfg bk kk) (dieAfter (runOps (osCfg bk kk) w0 ops) n)).1.fs.get (bk ++ k) = some (.link raw' md') ∧
        PrefixFS.readlinkPost (kp bk) raw' = PrefixFS.readlinkPost (kp bk) raw ∧ md'.uid = md.uid ∧ md'.gid = md.gid) ∨
      ((∃ i, (runOps (osCfg bk kk) w0 ops).infos.lookup (kp k) = some (some i) ∧ i.kind = .link ∧
          i.uid = md.uid ∧ i.gid = md.gid) ∧
        ∃ raw' md', (rollback (osCfg bk kk) (dieAfter (runOps (osCfg bk kk) w0 ops) n)).1.fs.get (kk ++ k) = some (.link raw' md') ∧
          PrefixFS.readlinkPost (kp kk) raw' = PrefixFS.readlinkPost (kp bk) raw ∧ md'.uid = md.uid ∧ md'.gid = md.gid) := by
  intro k hk raw md horig
  rcases recoverable_at_every_crash_point_in_rollback_symlink_leaves_partial bk kk hbk hkk hne1 hne2 hd1 hd2 w0 hg hinfos
    hbl ops hcov n k hk _ horig with h | ⟨i, hts, hfor, h⟩
  · exact Or.inl (BackupHoldsL.link (bk := bk) (kk := bk) h)
  · exact Or.inr ⟨⟨i, hts, hfor.1, hfor.2.2.1, hfor.2.2.2.1⟩, h.link⟩

/-- regular files, on the raw disk, at every crash point inside Rollback -/
theorem file_recoverable_at_every_crash_point_in_rollback_symlink_leaves_partial
    (w0 : World) (hg : OSGoodL bk kk w0.fs) (hinfos : w0.infos = [])
    (hbl : ∀ k, (∃ t mt, w0.fs.get (kk ++ k) = some (.link t mt)) → ∃ t mt, w0.fs.get (bk ++ k) = some (.link t mt))
    (ops : List Op) (hcov : L.CoveredHist (osCfg bk kk) (osSimL bk kk hbk hkk hne1 hne2 hd1 hd2) w0 ops) (n : Nat) :
    ∀ k, k ≠ [] → ∀ c mt, w0.fs.get (bk ++ k) = some (.file c mt) →
      (rollback (osCfg bk kk) (dieAfter (runOps (osCfg bk kk) w0 ops) n)).1.fs.get (bk ++ k) = some (.file c mt) ∨
      (rollback (osCfg bk kk) (dieAfter (runOps (osCfg bk kk) w0 ops) n)).1.fs.get (kk ++ k) = some (.file c mt) := by
  intro k hk c mt horig
  rcases recoverable_at_every_crash_point_in_rollback_symlink_leaves_partial bk kk hbk hkk hne1 hne2 hd1 hd2 w0 hg hinfos
    hbl ops hcov n k hk _ horig with h | ⟨_, _, _, h⟩
  · exact Or.inl (BackupHoldsL.file (bk := bk) (kk := bk) h)
  · exact Or.inr h.file

/-! ### 3. a second Rollback after the crash, symlinks as leaves -/

/-- **(3) a second Rollback after a crash in the restore half restores the base — symlinks as leaves.**  Any
covered history (any fault plan); Rollback dies after `n` more primitive calls, the crash point lying in
the restore half (`CrashInRestoreHalf`: in particular anywhere inside `restoreSymlink`, e.g. between the
`Remove` of the entry in the way and `Symlink`, when the link is in the base no more and not yet again).
The process restarts, reloads the tracked map Rollback began with (the persisted tracking state) and calls
Rollback again, on healthy filesystems: every entry of the base below its root is what it was when the
transaction began.  Hypothesis `L.NoneBelowTrackedLinks`: no tracked path lies strictly below a path
tracked as a symlink — forced, see `second_rollback_after_crash_deletes_through_restored_link`. -/
theorem second_rollback_after_crash_restores_symlink_leaves_partial
    (w0 : World) (hg : OSGoodL bk kk w0.fs) (hinfos : w0.infos = [])
    (hbl : ∀ k, (∃ t mt, w0.fs.get (kk ++ k) = some (.link t mt)) → ∃ t mt, w0.fs.get (bk ++ k) = some (.link t mt))
    (ops : List Op) (hcov : L.CoveredHist (osCfg bk kk) (osSimL bk kk hbk hkk hne1 hne2 hd1 hd2) w0 ops)
    (hnb : L.NoneBelowTrackedLinks (runOps (osCfg bk kk) w0 ops))
    (n : Nat) (hcr : CrashInRestoreHalf (osCfg bk kk) (runOps (osCfg bk kk) w0 ops) n) :
    ∀ k, k ≠ [] →
      ((rollback (osCfg bk kk)
          { (rollback (osCfg bk kk) (dieAfter (runOps (osCfg bk kk) w0 ops) n)).1 with
              infos := (runOps (osCfg bk kk) w0 ops).infos, faults := [] }).1.fs.get (bk ++ k)).map (eraseV (kp bk)) =
        (w0.fs.get (bk ++ k)).map (eraseV (kp bk)) :=
  second_rollback_core (Props.C01L.invariant_after_history bk kk hbk hkk hne1 hne2 hd1 hd2 w0 hg hinfos hbl ops hcov) hnb n hcr

/-- for EVERY crash index `n`: the first, interrupted Rollback has already restored the base completely, or
(under `L.NoneBelowTrackedLinks`) the second Rollback with the reloaded tracked map does -/
theorem base_restored_by_first_or_second_rollback_symlink_leaves_partial
    (w0 : World) (hg : OSGoodL bk kk w0.fs) (hinfos : w0.infos = [])
    (hbl : ∀ k, (∃ t mt, w0.fs.get (kk ++ k) = some (.link t mt)) → ∃ t mt, w0.fs.get (bk ++ k) = some (.link t mt))
    (ops : List Op) (hcov : L.CoveredHist (osCfg bk kk) (osSimL bk kk hbk hkk hne1 hne2 hd1 hd2) w0 ops)
    (hnb : L.NoneBelowTrackedLinks (runOps (osCfg bk kk) w0 ops)) (n : Nat) :
    (∀ k, k ≠ [] →
      ((rollback (osCfg bk kk) (dieAfter (runOps (osCfg bk kk) w0 ops) n)).1.fs.get (bk ++ k)).map (eraseV (kp bk)) =
        (w0.fs.get (bk ++ k)).map (eraseV (kp bk))) ∨
    (∀ k, k ≠ [] →
      ((rollback (osCfg bk kk)
          { (rollback (osCfg bk kk) (dieAfter (runOps (osCfg bk kk) w0 ops) n)).1 with
              infos := (runOps (osCfg bk kk) w0 ops).infos, faults := [] }).1.fs.get (bk ++ k)).map (eraseV (kp bk)) =
        (w0.fs.get (bk ++ k)).map (eraseV (kp bk))) := by
  have hI := Props.C01L.invariant_after_history bk kk hbk hkk hne1 hne2 hd1 hd2 w0 hg hinfos hbl ops hcov
  rcases dichotomy_core hI n with ⟨_, _, h⟩ | ⟨hc, _⟩
  · exact Or.inl h
  · exact Or.inr (second_rollback_core hI hnb n hc)

/-! ### the same through FLAT symlinks (`L.G.CoveredHist`) -/

/-- **(1) the literal form of the property — names through flat links, EVERY fault plan.** -/
theorem recoverable_of_inv_through_flat_links
    (w0 : World) (hg : OSGoodL bk kk w0.fs) (hinfos : w0.infos = [])
    (hbl : ∀ k, (∃ t mt, w0.fs.get (kk ++ k) = some (.link t mt)) → ∃ t mt, w0.fs.get (bk ++ k) = some (.link t mt))
    (ops : List Op) (hcov : G.CoveredHist (osCfg bk kk) bk (osSimL bk kk hbk hkk hne1 hne2 hd1 hd2) w0 ops) :
    ∀ k, k ≠ [] → ∀ node, w0.fs.get (bk ++ k) = some node →
      BaseShowsL (runOps (osCfg bk kk) w0 ops).fs bk k node ∨
      (∃ i, (runOps (osCfg bk kk) w0 ops).infos.lookup (kp k) = some (some i) ∧ InfoForL i (eraseV (kp bk) node) ∧
        BackupHoldsL (runOps (osCfg bk kk) w0 ops).fs bk kk k node) := by
  intro k hk node horig
  have h := exactness_invariant_after_history_through_flat_links bk kk hbk hkk hne1 hne2 hd1 hd2 w0 hg hinfos hbl ops hcov
  exact entry_of_invL hg h.inv (fun _ => rfl) (fun _ _ => rfl) k hk node horig

/-- **(1, crash points inside operations) names through flat links.**  The crash may fall inside `realPath`'s
resolution loop (`Lstat`/`Readlink` per component), inside a copy, between a copy and the base call. -/
theorem recoverable_at_every_crash_point_in_operations_through_flat_links_partial
    (w0 : World) (hg : OSGoodL bk kk w0.fs) (hinfos : w0.infos = [])
    (hbl : ∀ k, (∃ t mt, w0.fs.get (kk ++ k) = some (.link t mt)) → ∃ t mt, w0.fs.get (bk ++ k) = some (.link t mt))
    (n : Nat) (_hplan : w0.faults = crashPlan n)
    (ops : List Op) (hcov : G.CoveredHist (osCfg bk kk) bk (osSimL bk kk hbk hkk hne1 hne2 hd1 hd2) w0 ops) :
    ∀ k, k ≠ [] → ∀ node, w0.fs.get (bk ++ k) = some node →
      BaseShowsL (runOps (osCfg bk kk) w0 ops).fs bk k node ∨
      (∃ i, (runOps (osCfg bk kk) w0 ops).infos.lookup (kp k) = some (some i) ∧ InfoForL i (eraseV (kp bk) node) ∧
        BackupHoldsL (runOps (osCfg bk kk) w0 ops).fs bk kk k node) :=
  recoverable_of_inv_through_flat_links bk kk hbk hkk hne1 hne2 hd1 hd2 w0 hg hinfos hbl ops hcov

/-- **(2, the dichotomy) names through flat links.** -/
theorem crash_in_rollback_dichotomy_through_flat_links_partial
    (w0 : World) (hg : OSGoodL bk kk w0.fs) (hinfos : w0.infos = [])
    (hbl : ∀ k, (∃ t mt, w0.fs.get (kk ++ k) = some (.link t mt)) → ∃ t mt, w0.fs.get (bk ++ k) = some (.link t mt))
    (ops : List Op) (hcov : G.CoveredHist (osCfg bk kk) bk (osSimL bk kk hbk hkk hne1 hne2 hd1 hd2) w0 ops) (n : Nat) :
    (∀ k, k ≠ [] →
      ((rollback (osCfg bk kk) (dieAfter (runOps (osCfg bk kk) w0 ops) n)).1.fs.get (bk ++ k)).map (eraseV (kp bk)) =
        (w0.fs.get (bk ++ k)).map (eraseV (kp bk))) ∨
    ((∀ j, ((rollback (osCfg bk kk) (dieAfter (runOps (osCfg bk kk) w0 ops) n)).1.fs.get (kk ++ j)).map (eraseV (kp kk)) =
        ((runOps (osCfg bk kk) w0 ops).fs.get (kk ++ j)).map (eraseV (kp kk))) ∧
     (∀ j, (runOps (osCfg bk kk) w0 ops).infos.lookup (kp j) = none →
        ((rollback (osCfg bk kk) (dieAfter (runOps (osCfg bk kk) w0 ops) n)).1.fs.get (bk ++ j)).map (eraseV (kp bk)) =
          ((runOps (osCfg bk kk) w0 ops).fs.get (bk ++ j)).map (eraseV (kp bk))) ∧
     (∀ j t mt, (rollback (osCfg bk kk) (dieAfter (runOps (osCfg bk kk) w0 ops) n)).1.fs.get (bk ++ j) = some (.link t mt) →
        (∃ t' mt', (runOps (osCfg bk kk) w0 ops).fs.get (bk ++ j) = some (.link t' mt')) ∨
        (j ≠ [] ∧ ∃ i, (runOps (osCfg bk kk) w0 ops).infos.lookup (kp j) = some (some i) ∧ i.kind = .link))) :=
  dichotomy_disk (Props.C01.invariant_after_history_through_flat_links bk kk hbk hkk hne1 hne2 hd1 hd2 w0 hg hinfos hbl ops hcov) n

/-- **(2) originals stay recoverable at every crash point inside Rollback — names through flat links.** -/
theorem recoverable_at_every_crash_point_in_rollback_through_flat_links_partial
    (w0 : World) (hg : OSGoodL bk kk w0.fs) (hinfos : w0.infos = [])
    (hbl : ∀ k, (∃ t mt, w0.fs.get (kk ++ k) = some (.link t mt)) → ∃ t mt, w0.fs.get (bk ++ k) = some (.link t mt))
    (ops : List Op) (hcov : G.CoveredHist (osCfg bk kk) bk (osSimL bk kk hbk hkk hne1 hne2 hd1 hd2) w0 ops) (n : Nat) :
    ∀ k, k ≠ [] → ∀ node, w0.fs.get (bk ++ k) = some node →
      BaseShowsL (rollback (osCfg bk kk) (dieAfter (runOps (osCfg bk kk) w0 ops) n)).1.fs bk k node ∨
      (∃ i, (runOps (osCfg bk kk) w0 ops).infos.lookup (kp k) = some (some i) ∧ InfoForL i (eraseV (kp bk) node) ∧
        BackupHoldsL (rollback (osCfg bk kk) (dieAfter (runOps (osCfg bk kk) w0 ops) n)).1.fs bk kk k node) :=
  recoverable_in_rollback_core hg
    (exactness_invariant_after_history_through_flat_links bk kk hbk hkk hne1 hne2 hd1 hd2 w0 hg hinfos hbl ops hcov).inv n

/-- **(3) a second Rollback after a crash in the restore half restores the base — names through flat links.** -/
theorem second_rollback_after_crash_restores_through_flat_links_partial
    (w0 : World) (hg : OSGoodL bk kk w0.fs) (hinfos : w0.infos = [])
    (hbl : ∀ k, (∃ t mt, w0.fs.get (kk ++ k) = some (.link t mt)) → ∃ t mt, w0.fs.get (bk ++ k) = some (.link t mt))
    (ops : List Op) (hcov : G.CoveredHist (osCfg bk kk) bk (osSimL bk kk hbk hkk hne1 hne2 hd1 hd2) w0 ops)
    (hnb : L.NoneBelowTrackedLinks (runOps (osCfg bk kk) w0 ops))
    (n : Nat) (hcr : CrashInRestoreHalf (osCfg bk kk) (runOps (osCfg bk kk) w0 ops) n) :
    ∀ k, k ≠ [] →
      ((rollback (osCfg bk kk)
          { (rollback (osCfg bk kk) (dieAfter (runOps (osCfg bk kk) w0 ops) n)).1 with
              infos := (runOps (osCfg bk kk) w0 ops).infos, faults := [] }).1.fs.get (bk ++ k)).map (eraseV (kp bk)) =
        (w0.fs.get (bk ++ k)).map (eraseV (kp bk)) :=
  second_rollback_core
    (Props.C01.invariant_after_history_through_flat_links bk kk hbk hkk hne1 hne2 hd1 hd2 w0 hg hinfos hbl ops hcov) hnb n hcr

/-! ### "the backup never holds anything but copies of originals", at crash points inside Rollback -/

section
variable {bk kk hbk hkk hne1 hne2 hd1 hd2}
variable {w0 w : World}

private theorem only_copies_core
    (hI : L.Inv (osSimL bk kk hbk hkk hne1 hne2 hd1 hd2) (osViewL bk kk .base w0.fs) w)
    (honly : ∀ j, j ≠ [] → w.fs.get (kk ++ j) ≠ none →
      ∃ i node, w.infos.lookup (kp j) = some (some i) ∧ w0.fs.get (bk ++ j) = some node ∧
        InfoForL i (eraseV (kp bk) node) ∧ (w.fs.get (kk ++ j)).map (eraseV (kp kk)) = some (eraseV (kp bk) node))
    (n : Nat) (hcr : CrashInRestoreHalf (osCfg bk kk) w n) :
    ∀ j, j ≠ [] → (rollback (osCfg bk kk) (dieAfter w n)).1.fs.get (kk ++ j) ≠ none →
      ∃ i node, w.infos.lookup (kp j) = some (some i) ∧ w0.fs.get (bk ++ j) = some node ∧
        InfoForL i (eraseV (kp bk) node) ∧ BackupHoldsL (rollback (osCfg bk kk) (dieAfter w n)).1.fs bk kk j node := by
  intro j hj hp
  rcases dichotomy_core hI n with ⟨hnc, _, _⟩ | ⟨_, hm⟩
  · exact absurd hcr hnc
  · have hb : ((rollback (osCfg bk kk) (dieAfter w n)).1.fs.get (kk ++ j)).map (eraseV (kp kk)) =
        (w.fs.get (kk ++ j)).map (eraseV (kp kk)) := hm.backup j
    have hp' : w.fs.get (kk ++ j) ≠ none := by
      intro e
      rw [e] at hb
      exact hp (Option.map_eq_none_iff.mp hb)
    obtain ⟨i, node, hts, horig, hfor, hex⟩ := honly j hj hp'
    exact ⟨i, node, hts, horig, hfor, hb.trans hex⟩

private theorem hbl_of_empty (hg : OSGoodL bk kk w0.fs) (hempty : ∀ k, k ≠ [] → w0.fs.get (kk ++ k) = none) :
    ∀ k, (∃ t mt, w0.fs.get (kk ++ k) = some (.link t mt)) → ∃ t mt, w0.fs.get (bk ++ k) = some (.link t mt) := by
  rintro k ⟨t, mt, h⟩
  exfalso
  by_cases hk : k = []
  · subst hk
    obtain ⟨md, hd⟩ := hg.kdir
    rw [List.append_nil] at h
    rw [hd] at h; cases h
  · rw [hempty k hk] at h; cases h

end

/-- **healthy filesystems until the crash, symlinks as leaves**: the history ran without faults on an
initially empty backup; Rollback dies in its restore half (which never writes to the backup): everything
below the backup root still is the exact copy of an original that was tracked when Rollback began — files,
directories, symlinks —, never content created during the transaction or by Rollback. -/
theorem backup_holds_only_exact_copies_at_crash_in_restore_half_symlink_leaves_partial
    (w0 : World) (hg : OSGoodL bk kk w0.fs) (hinfos : w0.infos = []) (hnf : w0.faults = [])
    (hempty : ∀ k, k ≠ [] → w0.fs.get (kk ++ k) = none) (ops : List Op)
    (hcov : L.CoveredHist (osCfg bk kk) (osSimL bk kk hbk hkk hne1 hne2 hd1 hd2) w0 ops)
    (n : Nat) (hcr : CrashInRestoreHalf (osCfg bk kk) (runOps (osCfg bk kk) w0 ops) n) :
    ∀ j, j ≠ [] → (rollback (osCfg bk kk) (dieAfter (runOps (osCfg bk kk) w0 ops) n)).1.fs.get (kk ++ j) ≠ none →
      ∃ i node, (runOps (osCfg bk kk) w0 ops).infos.lookup (kp j) = some (some i) ∧ w0.fs.get (bk ++ j) = some node ∧
        InfoForL i (eraseV (kp bk) node) ∧
        BackupHoldsL (rollback (osCfg bk kk) (dieAfter (runOps (osCfg bk kk) w0 ops) n)).1.fs bk kk j node :=
  only_copies_core
    (Props.C01L.invariant_after_history bk kk hbk hkk hne1 hne2 hd1 hd2 w0 hg hinfos (hbl_of_empty hg hempty) ops hcov)
    (backup_holds_only_exact_copies_symlink_leaves_partial bk kk hbk hkk hne1 hne2 hd1 hd2 w0 hg hinfos hnf hempty ops hcov)
    n hcr

/-- the same for names through flat links -/
theorem backup_holds_only_exact_copies_at_crash_in_restore_half_through_flat_links_partial
    (w0 : World) (hg : OSGoodL bk kk w0.fs) (hinfos : w0.infos = []) (hnf : w0.faults = [])
    (hempty : ∀ k, k ≠ [] → w0.fs.get (kk ++ k) = none) (ops : List Op)
    (hcov : G.CoveredHist (osCfg bk kk) bk (osSimL bk kk hbk hkk hne1 hne2 hd1 hd2) w0 ops)
    (n : Nat) (hcr : CrashInRestoreHalf (osCfg bk kk) (runOps (osCfg bk kk) w0 ops) n) :
    ∀ j, j ≠ [] → (rollback (osCfg bk kk) (dieAfter (runOps (osCfg bk kk) w0 ops) n)).1.fs.get (kk ++ j) ≠ none →
      ∃ i node, (runOps (osCfg bk kk) w0 ops).infos.lookup (kp j) = some (some i) ∧ w0.fs.get (bk ++ j) = some node ∧
        InfoForL i (eraseV (kp bk) node) ∧
        BackupHoldsL (rollback (osCfg bk kk) (dieAfter (runOps (osCfg bk kk) w0 ops) n)).1.fs bk kk j node :=
  only_copies_core
    (Props.C01.invariant_after_history_through_flat_links bk kk hbk hkk hne1 hne2 hd1 hd2 w0 hg hinfos
      (hbl_of_empty hg hempty) ops hcov)
    (backup_holds_only_exact_copies_through_flat_links_partial bk kk hbk hkk hne1 hne2 hd1 hd2 w0 hg hinfos hnf hempty ops hcov)
    n hcr

end

/-! ### non-vacuity: a disk with a file link and a directory link, a history that re-targets a link, crash
indices before, inside and after the symlink phase of Rollback

`exDiskRL`: `/b` (base root) with the file `/b/f` = "hello", the directory `/b/d` holding the file `/b/d/x`,
the symlink to the file `/b/l -> "f"` and the symlink to the directory `/b/m -> "d"`; `/k` (backup root,
empty).  The transaction `exOpsRL` overwrites `/f`, removes the link `/l` and creates `/l -> "d"` in its
place (the link is re-targeted).  Rollback then issues 23 primitive calls:
 0     `base.lstat /` (the root is tracked: it has to exist),
 1–12  `restoreFile /f` (`backup.open`, `backup.fstat`, `base.lstat`, `base.openfile` (truncating),
       `backup.read`, `base.write`, `backup.read`, `base.close`, `base.lstat` ×2, `base.chtimes`, `backup.close`),
 13–18 `restoreSymlink /l`: `backup.lstat /l`, `base.lstat /l`, `base.remove /l`, `backup.readlink /l`,
       `base.symlink f /l`, `base.lchown /l`,
 19–22 the clean-up: `backup.lstat /l`, `backup.remove /l`, `backup.lstat /f`, `backup.remove /f`. -/

def exDiskRL : MFS where
  get := fun k =>
    if k = [] then some (.dir exMeta)
    else if k = [['b']] then some (.dir exMeta)
    else if k = [['k']] then some (.dir exMeta)
    else if k = [['b'], ['f']] then some (.file "hello" { exMeta with mode := 0o644 })
    else if k = [['b'], ['d']] then some (.dir exMeta)
    else if k = [['b'], ['d'], ['x']] then some (.file "precious" { exMeta with mode := 0o644 })
    else if k = [['b'], ['l']] then some (.link ['f'] { exMeta with mode := 0o777 })
    else if k = [['b'], ['m']] then some (.link ['d'] { exMeta with mode := 0o777 })
    else none
  dom := [[], [['b']], [['k']], [['b'], ['f']], [['b'], ['d']], [['b'], ['d'], ['x']], [['b'], ['l']], [['b'], ['m']]]
  umask := 0o022

theorem exDiskRL_live {k : Key} {n : Node} (h : exDiskRL.get k = some n) :
    (k = [] ∧ n = .dir exMeta) ∨ (k = [['b']] ∧ n = .dir exMeta) ∨ (k = [['k']] ∧ n = .dir exMeta) ∨
    (k = [['b'], ['f']] ∧ n = .file "hello" { exMeta with mode := 0o644 }) ∨ (k = [['b'], ['d']] ∧ n = .dir exMeta) ∨
    (k = [['b'], ['d'], ['x']] ∧ n = .file "precious" { exMeta with mode := 0o644 }) ∨
    (k = [['b'], ['l']] ∧ n = .link ['f'] { exMeta with mode := 0o777 }) ∨
    (k = [['b'], ['m']] ∧ n = .link ['d'] { exMeta with mode := 0o777 }) := by
  simp only [exDiskRL] at h
  split at h
  · cases h; exact Or.inl ⟨‹_›, rfl⟩
  split at h
  · cases h; exact Or.inr (Or.inl ⟨‹_›, rfl⟩)
  split at h
  · cases h; exact Or.inr (Or.inr (Or.inl ⟨‹_›, rfl⟩))
  split at h
  · cases h; exact Or.inr (Or.inr (Or.inr (Or.inl ⟨‹_›, rfl⟩)))
  split at h
  · cases h; exact Or.inr (Or.inr (Or.inr (Or.inr (Or.inl ⟨‹_›, rfl⟩))))
  split at h
  · cases h; exact Or.inr (Or.inr (Or.inr (Or.inr (Or.inr (Or.inl ⟨‹_›, rfl⟩)))))
  split at h
  · cases h; exact Or.inr (Or.inr (Or.inr (Or.inr (Or.inr (Or.inr (Or.inl ⟨‹_›, rfl⟩))))))
  split at h
  · cases h; exact Or.inr (Or.inr (Or.inr (Or.inr (Or.inr (Or.inr (Or.inr ⟨‹_›, rfl⟩))))))
  · cases h

theorem osGoodL_exDiskRL : OSGoodL [['b']] [['k']] exDiskRL := by
  refine ⟨⟨_, rfl⟩, ?_, ?_, ?_, ?_, ⟨_, rfl⟩, ⟨_, rfl⟩⟩
  · intro k n h
    rcases exDiskRL_live h with ⟨rfl, _⟩ | ⟨rfl, _⟩ | ⟨rfl, _⟩ | ⟨rfl, _⟩ | ⟨rfl, _⟩ | ⟨rfl, _⟩ | ⟨rfl, _⟩ | ⟨rfl, _⟩ <;> decide
  · intro k n h
    rcases exDiskRL_live h with ⟨rfl, _⟩ | ⟨rfl, _⟩ | ⟨rfl, _⟩ | ⟨rfl, _⟩ | ⟨rfl, _⟩ | ⟨rfl, _⟩ | ⟨rfl, _⟩ | ⟨rfl, _⟩ <;> decide
  · intro k n h
    rcases exDiskRL_live h with ⟨_, rfl⟩ | ⟨_, rfl⟩ | ⟨_, rfl⟩ | ⟨_, rfl⟩ | ⟨_, rfl⟩ | ⟨_, rfl⟩ | ⟨_, rfl⟩ | ⟨_, rfl⟩ <;> decide
  · intro k n h hne
    rcases exDiskRL_live h with ⟨rfl, _⟩ | ⟨rfl, _⟩ | ⟨rfl, _⟩ | ⟨rfl, _⟩ | ⟨rfl, _⟩ | ⟨rfl, _⟩ | ⟨rfl, _⟩ | ⟨rfl, _⟩
    · exact absurd rfl hne
    all_goals exact ⟨_, rfl⟩

/-- no symlink below the backup root of the example (it is empty): the start condition `hbl` -/
theorem exDiskRL_hbl : ∀ k, (∃ t mt, exDiskRL.get ([['k']] ++ k) = some (.link t mt)) →
    ∃ t mt, exDiskRL.get ([['b']] ++ k) = some (.link t mt) := by
  rintro k ⟨t, mt, h⟩
  exfalso
  rcases exDiskRL_live h with ⟨_, e⟩ | ⟨_, e⟩ | ⟨_, e⟩ | ⟨_, e⟩ | ⟨_, e⟩ | ⟨_, e⟩ | ⟨e, _⟩ | ⟨e, _⟩ <;> simp at e

abbrev cfgRL := osCfg [['b']] [['k']]
def wRL0 : World := { fs := exDiskRL }

/-- overwrite `/f`, remove the link `/l -> f`, create `/l -> d` in its place -/
def exOpsRL : List Op :=
  [.write "/f".toList (O_WRONLY ||| O_TRUNC) 0 "y", .remove "/l".toList, .symlink "d".toList "/l".toList]

def wRL1 := Op.step cfgRL wRL0 (.write "/f".toList (O_WRONLY ||| O_TRUNC) 0 "y")
def wRL2 := Op.step cfgRL wRL1 (.remove "/l".toList)

/-- the world after the example history -/
def exAfterOpsRL : World := runOps cfgRL wRL0 exOpsRL

/-- Rollback of the example transaction, dying after `n` primitive calls -/
def exCrashRollbackRL (n : Nat) : World := (rollback cfgRL (dieAfter exAfterOpsRL n)).1

/-- the process restarts, reloads the tracked map Rollback began with, and calls Rollback again -/
def exSecondRollbackRL (n : Nat) : World × Except Err Bool :=
  rollback cfgRL { exCrashRollbackRL n with infos := exAfterOpsRL.infos, faults := [] }

/-- target text of the symlink at an absolute disk key, if there is one -/
def targetAt (m : MFS) (k : Key) : Option String :=
  match m.get k with
  | some (.link t _) => some (String.ofList t)
  | _ => none

theorem noLinkAnc_two {v : View} {a b : Name} (hroot : v.isDirAt []) (hd : ¬ isLinkAt v [a]) :
    NoLinkAnc v [a, b] := by
  intro p hp hne
  have hp' : p <+: [a] ++ [b] := hp
  rcases prefix_snoc_iff.mp hp' with h | h
  · have h' : p <+: [] ++ [a] := h
    rcases prefix_snoc_iff.mp h' with h0 | h0
    · rw [List.prefix_nil.mp h0]; exact isLinkAt_not_dir hroot
    · rw [h0]; exact hd
  · exact absurd h hne

set_option maxRecDepth 100000 in
/-- the hypotheses of the theorems hold of the example: a well-formed disk with a file link and a directory
link, an empty backup, a covered history that re-targets a link, and no tracked path below a tracked link -/
example : OSGoodL [['b']] [['k']] wRL0.fs ∧ wRL0.infos = [] ∧
    (∀ k, (∃ t mt, wRL0.fs.get ([['k']] ++ k) = some (.link t mt)) → ∃ t mt, wRL0.fs.get ([['b']] ++ k) = some (.link t mt)) ∧
    L.CoveredHist cfgRL osSimL_example wRL0 exOpsRL ∧
    L.NoneBelowTrackedLinks (runOps cfgRL wRL0 exOpsRL) := by
  have hKf : PKey [['f']] := by decide
  have hKl : PKey [['l']] := by decide
  have hcf : clean "/f".toList = kp [['f']] := by decide
  have hcl : clean "/l".toList = kp [['l']] := by decide
  have hokl : osSimL_example.LinkOK .base [['l']] ['f'] := Or.inr (by decide +kernel)
  refine ⟨osGoodL_exDiskRL, rfl, exDiskRL_hbl, ⟨?_, ?_, ?_, trivial⟩, L.noneBelowTrackedLinks_of_check (by decide +kernel)⟩
  · -- OpenFile("/f", O_WRONLY|O_TRUNC) + write: a regular file
    refine Or.inr ⟨by decide, Props.C01L.covered_key hKf hcf ⟨Props.C01L.noLinkAnc_top ⟨Props.C01L.rootE, by decide +kernel⟩, ?_⟩⟩
    rintro ⟨t, mt, hv⟩
    have : osSimL_example.view .base wRL0.fs [['f']] = some (.file "hello" { exMeta with mode := 0o644 }) := by
      decide +kernel
    have hv' := this.symm.trans hv; cases hv'
  · -- Remove("/l"): a symlink to a file, which the base accepts
    refine ⟨by decide, by decide, Props.C01L.covered_key hKl hcl ⟨Props.C01L.noLinkAnc_top ⟨Props.C01L.rootE, by decide +kernel⟩, ?_⟩⟩
    intro t mt hv
    have : osSimL_example.view .base wRL1.fs [['l']] = some (.link ['f'] { exMeta with mode := 0o777, mtime := .fresh }) := by
      decide +kernel
    have hv' := this.symm.trans hv; cases hv'; exact hokl
  · -- Symlink("d", "/l"): nothing is there any more, and nothing tracked lies below
    refine ⟨by decide, Props.C01L.covered_key hKl hcl ⟨⟨Props.C01L.noLinkAnc_top ⟨Props.C01L.rootE, by decide +kernel⟩, ?_⟩, ?_⟩⟩
    · intro t mt hv
      have : osSimL_example.view .base wRL2.fs [['l']] = none := by decide +kernel
      have hv' := this.symm.trans hv; cases hv'
    · apply Props.C01L.noneBelow_of (l := ["/".toList, "/f".toList, "/l".toList]) (by decide +kernel)
      intro p hp j hj e hpre
      simp only [List.mem_cons, List.mem_nil_iff, or_false] at hp
      rcases hp with rfl | rfl | rfl
      · have : j = [] := kp_inj hj PKey.nil e.symm
        subst this
        simp at hpre
      · have : j = [['f']] := kp_inj hj hKf e.symm
        subst this
        simp at hpre
      · exact kp_inj hj hKl e.symm

/-- crash point BEFORE the symlink phase, in the middle of `restoreFile` (after the truncating `OpenFile`,
before the write): the base file is empty and `/l` still is the transaction's link `-> d`; the backup holds
"hello" and the copy `/l -> f`: the second disjunct holds for both. -/
example : crashed (dieAfter exAfterOpsRL 5) = false ∧ crashed (exCrashRollbackRL 5) = true ∧
    crashed (restorePart cfgRL exAfterOpsRL.infos (dieAfter exAfterOpsRL 5)).1 = true ∧
    contentAt (exCrashRollbackRL 5).fs [['b'], ['f']] = some "" ∧
    contentAt (exCrashRollbackRL 5).fs [['k'], ['f']] = some "hello" ∧
    targetAt (exCrashRollbackRL 5).fs [['b'], ['l']] = some "d" ∧
    targetAt (exCrashRollbackRL 5).fs [['k'], ['l']] = some "f" := by
  decide +kernel

/-- crash point INSIDE the symlink phase, between the `Remove` of the entry in the way and `Symlink`
(`n = 16`: `backup.lstat /l`, `base.lstat /l`, `base.remove /l` were executed, `backup.readlink /l` is
refused): the link is ABSENT in the base, its copy `/l -> f` is still in the backup and `/l` is still in the
tracked map Rollback began with; the file `/f` has already been restored.  A second Rollback with the
reloaded tracked map puts `/l -> f` back and returns no error. -/
example : crashed (exCrashRollbackRL 16) = true ∧
    crashed (restorePart cfgRL exAfterOpsRL.infos (dieAfter exAfterOpsRL 16)).1 = true ∧
    (exCrashRollbackRL 16).fs.get [['b'], ['l']] = none ∧
    targetAt (exCrashRollbackRL 16).fs [['k'], ['l']] = some "f" ∧
    (exAfterOpsRL.infos.lookup "/l".toList).isSome = true ∧
    (exCrashRollbackRL 16).fs.get [['b'], ['f']] = exDiskRL.get [['b'], ['f']] ∧
    (exSecondRollbackRL 16).2 = .ok false ∧
    (exSecondRollbackRL 16).1.fs.get [['b'], ['l']] =
      some (.link ['f'] { mode := 0o777, uid := 0, gid := 0, mtime := .fresh }) ∧
    (exSecondRollbackRL 16).1.fs.get [['b'], ['f']] = exDiskRL.get [['b'], ['f']] := by
  decide +kernel

/-- crash point inside the symlink phase, between `Symlink` and `Lchown` (`n = 18`): the link is back in the
base with its original target text (first disjunct), the copy is still in the backup -/
example : crashed (exCrashRollbackRL 18) = true ∧
    crashed (restorePart cfgRL exAfterOpsRL.infos (dieAfter exAfterOpsRL 18)).1 = true ∧
    targetAt (exCrashRollbackRL 18).fs [['b'], ['l']] = some "f" ∧
    targetAt (exCrashRollbackRL 18).fs [['k'], ['l']] = some "f" ∧
    targetAt (exSecondRollbackRL 18).1.fs [['b'], ['l']] = some "f" := by
  decide +kernel

/-- crash point AFTER the symlink phase, in the clean-up loops (`n = 20`: after `backup.lstat /l`, before
`backup.remove /l`; `n = 21`: after it): the restore half is not crashed, the base is completely restored —
whether or not the copies are still there -/
example : crashed (restorePart cfgRL exAfterOpsRL.infos (dieAfter exAfterOpsRL 20)).1 = false ∧
    crashed (exCrashRollbackRL 20) = true ∧
    (exCrashRollbackRL 20).fs.get [['b'], ['f']] = exDiskRL.get [['b'], ['f']] ∧
    targetAt (exCrashRollbackRL 20).fs [['b'], ['l']] = some "f" ∧
    ((exCrashRollbackRL 20).fs.get [['k'], ['l']]).isSome = true ∧
    crashed (exCrashRollbackRL 21) = true ∧
    targetAt (exCrashRollbackRL 21).fs [['b'], ['l']] = some "f" ∧
    (exCrashRollbackRL 21).fs.get [['k'], ['l']] = none := by
  decide +kernel

/-- and a crash plan that never fires: Rollback runs to its end, not crashed -/
example : crashed (exCrashRollbackRL 24) = false ∧
    (exCrashRollbackRL 24).fs.get [['b'], ['f']] = exDiskRL.get [['b'], ['f']] ∧
    targetAt (exCrashRollbackRL 24).fs [['b'], ['l']] = some "f" ∧
    (exCrashRollbackRL 24).fs.get [['k'], ['l']] = none := by
  decide +kernel

/-! ### the hypothesis of (3) is forced: a second Rollback after a crash can delete a never-named original

Same disk.  The transaction `exOpsBad` removes the directory link `/m -> d`, makes a directory `/m` in its
place and creates `/m/x` in it: tracked map `/` (dir), `/m` (SYMLINK), `/m/x` (absent) — the tracked-absent
path `/m/x` lies strictly below the path `/m` tracked as a symlink.  The history is covered (no operation
traverses a symlink), and a complete Rollback restores the base.  Rollback issues 11 primitive calls:
`base.lstat /` (the root is tracked: it has to exist), `base.lstat /m/x`, `base.remove /m/x`, `backup.lstat /m`, `base.lstat /m`, `base.remove /m`,
`backup.readlink /m`, `base.symlink d /m`, `base.lchown /m` | `backup.lstat /m`, `backup.remove /m`.
Let the process die after the 8th (the link `/m -> d` is back), the 9th, or the 10th (inside the clean-up);
it restarts, reloads the tracked map, and calls Rollback again: the classification loop `Lstat`s the
tracked-absent `/m/x` THROUGH the restored link, finds the original `/b/d/x`, and the removal loop
`Remove`s it.  The never-named, untracked original `/d/x` is gone, from the base and from everywhere. -/

def exOpsBad : List Op := [.remove "/m".toList, .mkdir "/m".toList 0o755, .creat "/m/x".toList "new"]

def wBad1 := Op.step cfgRL wRL0 (.remove "/m".toList)
def wBad2 := Op.step cfgRL wBad1 (.mkdir "/m".toList 0o755)

def exAfterOpsBad : World := runOps cfgRL wRL0 exOpsBad
def exCrashRollbackBad (n : Nat) : World := (rollback cfgRL (dieAfter exAfterOpsBad n)).1
def exSecondRollbackBad (n : Nat) : World × Except Err Bool :=
  rollback cfgRL { exCrashRollbackBad n with infos := exAfterOpsBad.infos, faults := [] }

set_option maxRecDepth 100000 in
/-- the history of the witness is covered by the symlink-leaves fragment -/
theorem exOpsBad_covered : L.CoveredHist cfgRL osSimL_example wRL0 exOpsBad := by
  have hKm : PKey [['m']] := by decide
  have hKx : PKey [['m'], ['x']] := by decide
  have hcm : clean "/m".toList = kp [['m']] := by decide
  have hcx : clean "/m/x".toList = kp [['m'], ['x']] := by decide
  have hokm : osSimL_example.LinkOK .base [['m']] ['d'] := Or.inr (by decide +kernel)
  refine ⟨?_, ?_, ?_, trivial⟩
  · -- Remove("/m"): a symlink to a directory, which the base accepts
    refine ⟨by decide, by decide, Props.C01L.covered_key hKm hcm ⟨Props.C01L.noLinkAnc_top ⟨Props.C01L.rootE, by decide +kernel⟩, ?_⟩⟩
    intro t mt hv
    have : osSimL_example.view .base wRL0.fs [['m']] = some (.link ['d'] { exMeta with mode := 0o777, mtime := .fresh }) := by
      decide +kernel
    have hv' := this.symm.trans hv; cases hv'; exact hokm
  · -- Mkdir("/m"): nothing is there
    refine ⟨by decide, Props.C01L.covered_key hKm hcm ⟨Props.C01L.noLinkAnc_top ⟨Props.C01L.rootE, by decide +kernel⟩, ?_⟩⟩
    intro t mt hv
    have : osSimL_example.view .base wBad1.fs [['m']] = none := by decide +kernel
    have hv' := this.symm.trans hv; cases hv'
  · -- Create("/m/x"): `/m` is a directory now, no symlink on the way
    have hm : osSimL_example.view .base wBad2.fs [['m']] =
        some (.dir { mode := 0o755, uid := 0, gid := 0, mtime := .fresh }) := by decide +kernel
    have hx : osSimL_example.view .base wBad2.fs [['m'], ['x']] = none := by decide +kernel
    refine ⟨by decide, Props.C01L.covered_key hKx hcx ⟨noLinkAnc_two ⟨Props.C01L.rootE, by decide +kernel⟩ ?_, ?_⟩⟩
    · rintro ⟨t, mt, hv⟩
      have hv' := hm.symm.trans hv; cases hv'
    · rintro ⟨t, mt, hv⟩
      have hv' := hx.symm.trans hv; cases hv'

/-- **K-link-over-tracked, crash variant (kernel-checked).**  The hypothesis `L.NoneBelowTrackedLinks` of
`second_rollback_after_crash_restores_…` is forced: see the section header. -/
theorem second_rollback_after_crash_deletes_through_restored_link :
    -- a covered history; the tracked map violates the hypothesis
    L.CoveredHist cfgRL osSimL_example wRL0 exOpsBad ∧
    L.noneBelowTrackedLinksB exAfterOpsBad.infos = false ∧
    exAfterOpsBad.infos.map (fun e => (String.ofList e.1, e.2.map (·.kind))) =
      [("/", some .dir), ("/m", some .link), ("/m/x", none)] ∧
    -- the original `/d/x` is never named, never tracked, and intact after the history
    contentAt exDiskRL [['b'], ['d'], ['x']] = some "precious" ∧
    contentAt exAfterOpsBad.fs [['b'], ['d'], ['x']] = some "precious" ∧
    -- an uninterrupted Rollback restores everything
    (rollback cfgRL exAfterOpsBad).2 = .ok false ∧
    targetAt (rollback cfgRL exAfterOpsBad).1.fs [['b'], ['m']] = some "d" ∧
    contentAt (rollback cfgRL exAfterOpsBad).1.fs [['b'], ['d'], ['x']] = some "precious" ∧
    -- Rollback dies after 8 primitive calls, in the restore half: the link is back, `/d/x` still intact …
    crashed (restorePart cfgRL exAfterOpsBad.infos (dieAfter exAfterOpsBad 8)).1 = true ∧
    targetAt (exCrashRollbackBad 8).fs [['b'], ['m']] = some "d" ∧
    contentAt (exCrashRollbackBad 8).fs [['b'], ['d'], ['x']] = some "precious" ∧
    -- … and the second Rollback with the reloaded tracked map deletes it (and reports no error)
    (exSecondRollbackBad 8).2 = .ok false ∧
    (exSecondRollbackBad 8).1.fs.get [['b'], ['d'], ['x']] = none ∧
    (exSecondRollbackBad 8).1.fs.get [['k'], ['d'], ['x']] = none ∧
    -- the same for a crash after the `Lchown` and for a crash inside the clean-up half
    (exSecondRollbackBad 9).1.fs.get [['b'], ['d'], ['x']] = none ∧
    crashed (restorePart cfgRL exAfterOpsBad.infos (dieAfter exAfterOpsBad 10)).1 = false ∧
    crashed (exCrashRollbackBad 10) = true ∧
    (exSecondRollbackBad 10).1.fs.get [['b'], ['d'], ['x']] = none ∧
    -- whereas a crash BEFORE the link is back is harmless
    contentAt (exSecondRollbackBad 7).1.fs [['b'], ['d'], ['x']] = some "precious" ∧
    targetAt (exSecondRollbackBad 7).1.fs [['b'], ['m']] = some "d" := by
  refine ⟨exOpsBad_covered, ?_⟩
  decide +kernel

/-! ### non-vacuity of the flat-links versions

The flat disk and the first transaction of `Props/C01G.lean` (`Props.C01.wG0`, `opsG1`: `Create("/abs/sub/new")`
through the directory link `/abs -> /real`, `Chmod("/d/rel/f")` through `/d/rel -> ../real/./sub`,
`Remove("/abs/fl")` — the file link `/real/fl -> sub/f` is removed through `/abs` —, `MkdirAll("/d/rel/x/y")`).
Rollback issues 43 primitive calls (the first is `base.lstat /`: the root is tracked and has to exist); its symlink phase (`restoreSymlink /real/fl`, nothing in the way) is
29 `backup.lstat`, 30 `base.lstat`, 31 `backup.readlink`, 32 `base.symlink sub/f /real/fl`, 33 `base.lchown`. -/

/-- the hypotheses of the `…_through_flat_links_partial` theorems hold of that example -/
example : OSGoodL [['b']] [['k']] Props.C01.wG0.fs ∧ Props.C01.wG0.infos = [] ∧
    (∀ k, (∃ t mt, Props.C01.wG0.fs.get ([['k']] ++ k) = some (.link t mt)) →
      ∃ t mt, Props.C01.wG0.fs.get ([['b']] ++ k) = some (.link t mt)) ∧
    G.CoveredHist Props.C01.cfgG [['b']] osSimL_example Props.C01.wG0 Props.C01.opsG1 ∧
    L.NoneBelowTrackedLinks (runOps Props.C01.cfgG Props.C01.wG0 Props.C01.opsG1) :=
  ⟨Props.C16.flatDisk_good, rfl, fun k ⟨t, mt, h⟩ => absurd h (Props.C01.wG0_backup_clean k t mt),
    Props.C01.tx1_covered, L.noneBelowTrackedLinks_of_check (by decide +kernel)⟩

def exAfterOpsG : World := runOps Props.C01.cfgG Props.C01.wG0 Props.C01.opsG1
def exCrashRollbackG (n : Nat) : World := (rollback Props.C01.cfgG (dieAfter exAfterOpsG n)).1
def exSecondRollbackG (n : Nat) : World × Except Err Bool :=
  rollback Props.C01.cfgG { exCrashRollbackG n with infos := exAfterOpsG.infos, faults := [] }

/-- crash inside the symlink phase (`n = 33`: `Readlink` of the copy done, `Symlink` refused): the link
`/real/fl` — removed through `/abs` by the transaction — is absent in the base, its copy is in the backup,
the key is tracked; the second Rollback puts it back.  Crash in the clean-up (`n = 37`): the base is
restored. -/
example : crashed (restorePart Props.C01.cfgG exAfterOpsG.infos (dieAfter exAfterOpsG 33)).1 = true ∧
    (exCrashRollbackG 33).fs.get [['b'], "real".toList, "fl".toList] = none ∧
    targetAt (exCrashRollbackG 33).fs [['k'], "real".toList, "fl".toList] = some "sub/f" ∧
    (exAfterOpsG.infos.lookup "/real/fl".toList).isSome = true ∧
    targetAt Props.C01.wG0.fs [['b'], "real".toList, "fl".toList] = some "sub/f" ∧
    (exSecondRollbackG 33).2 = .ok false ∧
    targetAt (exSecondRollbackG 33).1.fs [['b'], "real".toList, "fl".toList] = some "sub/f" ∧
    crashed (restorePart Props.C01.cfgG exAfterOpsG.infos (dieAfter exAfterOpsG 37)).1 = false ∧
    crashed (exCrashRollbackG 37) = true ∧
    targetAt (exCrashRollbackG 37).fs [['b'], "real".toList, "fl".toList] = some "sub/f" := by
  decide +kernel

end Props.C02
