import Lemmas.JTMap
import Lemmas.JTSurr
import Props.C12
/-!
# C12, the JSON text layer — persist = text, reload = parse

`Props/C12.lean` proves persist → reload at the level of the `fInfo` STRUCT (`toFInfo`, the
accessors); `encoding/json` was trusted.  This file brings the text inside: `Model/JsonText.lean`
models `json.Marshal`/`json.Unmarshal` of Go 1.23 on `map[string]*fInfo` (what
`MarshalJSON`/`UnmarshalJSON` of backupfs.go call), executable and compared with the real
`encoding/json` through the driver commands `json.encode`/`json.decode`/`json.string`/
`json.unstring` (Driver/JsonText.lean).

* `json_text_roundtrip` — `decodeMap (encodeMap m) = some (normaliseS m)`: every map whose entries
  respect the field ranges of the Go struct is read back exactly — keys and names ARBITRARY Unicode
  strings (quotes, backslashes, control characters, `<>&`, U+2028/9, non-BMP, …), nil entries,
  negative times.  No distinctness hypothesis: like assignments to a Go map, a later entry for the
  same key replaces an earlier one, on both sides.  `normaliseS m` is the map in canonical order
  (`normaliseS_perm`: for distinct keys a permutation of `m`; `normaliseS_sorted`).
* `decodeString_encodeString`, `encodeString_injective` — string literals.
* `encodeMap_order_independent` — any permutation of the same entries gives the same text (Go
  sorts the keys; map iteration order is invisible).
* `decode_escaped_bmp`, `decode_surrogate_pair` — what `Unmarshal` additionally accepts in
  literals: `\uXXXX` for any BMP character, a UTF-16 surrogate pair for any other character.
* `reload_through_text_identity` — end to end: `MarshalJSON` writes `persistText infos`,
  `UnmarshalJSON` into a new instance parses it (`reloadText`): the new instance tracks exactly the
  original entries (`reload_through_text_perm`, `reload_through_text_lookup`: every `baseInfos[p]`
  Rollback reads is the original one — absent-markers, type and all 12 mode bits, uid/gid, times,
  size, name).  Composition of `json_text_roundtrip` with `finfo_roundtrip`/`reload_identity`.
-/
namespace Props.C12
open BFS BFS.JsonText

/-! ## strings -/

/-- T12.J1 a string literal written by `json.Marshal` is read back by `json.Unmarshal` -/
theorem decodeString_encodeString (s : String) : decodeString (encodeString s) = some s := by
  unfold decodeString encodeString
  rw [String.toList_ofList]
  simp only [encStrL, if_true, decStr_encBody, String.ofList_toList]

/-- T12.J2 different strings have different literals -/
theorem encodeString_injective {s t : String} (h : encodeString s = encodeString t) : s = t := by
  have h1 := decodeString_encodeString s
  rw [h, decodeString_encodeString t] at h1
  exact (Option.some.inj h1).symm

/-- the same on character lists, inside any context -/
theorem decode_literal (s rest : List Char) : decStr (encBody s ++ '"' :: rest) = some (s, rest) :=
  decStr_encBody s rest

/-- what `Unmarshal` also accepts: a BMP character written as `\uXXXX` … -/
theorem decode_escaped_bmp (c : Char) (h : c.toNat < 65536) (s rest : List Char) :
    decStr (uEsc c.toNat ++ (encBody s ++ '"' :: rest)) = some (c :: s, rest) := by
  unfold decStr
  rw [show (uEsc c.toNat ++ (encBody s ++ '"' :: rest)).length + 1
      = ((uEsc c.toNat ++ (encBody s ++ '"' :: rest)).length) + 1 from rfl,
    decBody_uEsc _ c h, decBody_encBody s rest _ ?_]
  · rfl
  · have := length_le_encBody s
    simp only [uEsc, List.length_append, List.length_cons, List.length_nil]
    omega

/-- … and any other character written as a UTF-16 surrogate pair -/
theorem decode_surrogate_pair (c : Char) (h : 65536 ≤ c.toNat) (s rest : List Char) :
    decStr (utf16Esc c ++ (encBody s ++ '"' :: rest)) = some (c :: s, rest) := by
  unfold decStr
  rw [decBody_utf16Esc _ c h, decBody_encBody s rest _ ?_]
  · rfl
  · have := length_le_encBody s
    simp only [utf16Esc, uEsc, List.length_append, List.length_cons, List.length_nil]
    omega

/-! ## the map, on character lists (the form the model of BackupFS uses for paths) -/

/-- T12.J3 text round trip -/
theorem json_text_roundtrip_chars (m : List (List Char × Option FInfo)) (hr : MapInRange m) :
    decodeMapL (encodeMapL m) = some (normalise m) :=
  decodeMapL_encodeMapL m hr

theorem encodeMapL_order_independent {m₁ m₂ : List (List Char × Option FInfo)} (hp : m₁.Perm m₂)
    (h : (keys m₁).Nodup) : encodeMapL m₁ = encodeMapL m₂ :=
  encodeMapL_perm hp h

/-! ## the map, with `String` keys -/

theorem keysS_keysL (m : List (String × Option FInfo)) : keysS (keysL m) = m := by
  simp only [keysS, keysL, List.map_map]
  conv => rhs; rw [← List.map_id m]
  apply List.map_congr_left
  intro e _
  simp [String.ofList_toList]

theorem keys_keysL_nodup {m : List (String × Option FInfo)} (h : (m.map (·.1)).Nodup) :
    (keys (keysL m)).Nodup := by
  have : keys (keysL m) = (m.map (·.1)).map String.toList := by
    simp [keys, keysL, List.map_map]
  rw [this]
  exact List.Pairwise.map _ (fun a b hab hc => hab (String.toList_injective hc)) h

/-- every non-nil entry respects the field ranges of the Go struct (`uint32` mode, `int64`
mod_time and size, `int` uid and gid) -/
def InRangeS (m : List (String × Option FInfo)) : Prop := ∀ e ∈ m, ∀ f, e.2 = some f → f.InRange

theorem mapInRange_keysL {m : List (String × Option FInfo)} (h : InRangeS m) :
    MapInRange (keysL m) := by
  intro e he f hf
  simp only [keysL, List.mem_map] at he
  obtain ⟨e', he', rfl⟩ := he
  exact h e' he' f hf

/-- T12.J3 **`json.Unmarshal ∘ json.Marshal` on `map[string]*fInfo` is the identity** (the result
is the same map, in canonical order) -/
theorem json_text_roundtrip (m : List (String × Option FInfo)) (hr : InRangeS m) :
    decodeMap (encodeMap m) = some (normaliseS m) := by
  unfold decodeMap encodeMap normaliseS
  rw [String.toList_ofList, decodeMapL_encodeMapL _ (mapInRange_keysL hr)]
  rfl

/-- `normaliseS` only reorders when the keys are distinct … -/
theorem normaliseS_perm {m : List (String × Option FInfo)} (h : (m.map (·.1)).Nodup) :
    (normaliseS m).Perm m := by
  have := (normalise_perm (keys_keysL_nodup h)).map (fun e : List Char × Option FInfo => (String.ofList e.1, e.2))
  have h2 := keysS_keysL m
  unfold keysS at h2
  rw [h2] at this
  exact this

/-- … and its result is strictly sorted by key (`strings.Compare`) -/
theorem normaliseS_sorted (m : List (String × Option FInfo)) :
    (normaliseS m).Pairwise (fun a b => strLt a.1.toList b.1.toList = true) := by
  unfold normaliseS keysS
  refine List.Pairwise.map _ ?_ (normalise_sorted (keysL m))
  intro a b hab
  simpa [String.toList_ofList] using hab

/-- T12.J4 the text is independent of the order of the entries (of Go's map iteration order) -/
theorem encodeMap_order_independent {m₁ m₂ : List (String × Option FInfo)} (hp : m₁.Perm m₂)
    (h : (m₁.map (·.1)).Nodup) : encodeMap m₁ = encodeMap m₂ := by
  unfold encodeMap
  have hp' : (keysL m₁).Perm (keysL m₂) := hp.map _
  rw [encodeMapL_perm hp' (keys_keysL_nodup h)]

/-! ## end to end: `MarshalJSON` → text → `UnmarshalJSON` into a new BackupFS -/

/-- what the model's unbounded naturals/integers must satisfy to be values of the Go types:
`Size() int64`, `ModTime().UnixNano()` (instants between 1677-09-21 and 2262-04-11) -/
def InfoFits (i : Info) : Prop := i.size < 9223372036854775808 ∧ inI64 (nsOf i.mtime) = true

theorem inI64_of {v : Int} (h1 : -9223372036854775808 ≤ v) (h2 : v < 9223372036854775808) :
    inI64 v = true := by
  unfold inI64
  rw [decide_eq_true h1, decide_eq_true h2]
  rfl

theorem toFInfo_inRange (p : Path) (i : Info) (hv : i.Valid p) (hf : InfoFits i) :
    (toFInfo p i (nsOf i.mtime)).InRange := by
  obtain ⟨_, _, hu, hg⟩ := hv
  obtain ⟨hs, ht⟩ := hf
  have hm : goFileMode i.kind i.perm < 4294967296 := by
    rw [goFileMode_eq]
    have := lowBits_lt i.perm
    cases i.kind <;> simp only <;> omega
  refine ⟨?_, ht, ?_, ?_, ?_⟩
  · exact decide_eq_true hm
  · exact inI64_of (by simp only [toFInfo]; omega) (by simp only [toFInfo]; omega)
  · exact inI64_of (by simp only [toFInfo]; omega) (by simp only [toFInfo]; omega)
  · exact inI64_of (by simp only [toFInfo]; omega) (by simp only [toFInfo]; omega)

/-- the hypotheses on a tracked map: entries as `Lstat` produces them (`Info.Valid`, discharged for
every reachable state by `Props.C12.infos_valid_after_history`), values of the Go types, and keys
unique (a Go map) -/
structure Persistable (infos : List (Path × Option Info)) : Prop where
  nodup : (keys infos).Nodup
  valid : ∀ e ∈ infos, ∀ i, e.2 = some i → i.Valid e.1
  fits : ∀ e ∈ infos, ∀ i, e.2 = some i → InfoFits i

theorem persist_inRange {infos : List (Path × Option Info)} (h : Persistable infos) :
    MapInRange (infos.map persistEntry) := by
  intro e he f hf
  simp only [List.mem_map] at he
  obtain ⟨e', he', rfl⟩ := he
  rcases e' with ⟨p, o⟩
  cases o with
  | none => simp [persistEntry] at hf
  | some i =>
    simp only [persistEntry, Option.map_some, Option.some.injEq] at hf
    subst hf
    exact toFInfo_inRange p i (h.valid _ he' i rfl) (h.fits _ he' i rfl)

/-- reading the entry written for `e` gives what the struct-level model says (`reloadEntry`) -/
theorem loadEntry_persistEntry {infos : List (Path × Option Info)} (hnd : (keys infos).Nodup)
    (e : Path × Option Info) (he : e ∈ infos) :
    loadEntry infos (persistEntry e) = reloadEntry e := by
  rcases e with ⟨p, o⟩
  cases o with
  | none => rfl
  | some i =>
    have hl : infos.lookup p = some (some i) := (lookup_eq_some_iff p (some i) infos hnd).mpr he
    simp only [loadEntry, persistEntry, reloadEntry, timeTok, hl, Option.join, Option.map_some]
    rfl

/-- T12.J5 **persist = text, reload = parse**: the instance re-created from the text tracks
exactly the original map (in canonical order) -/
theorem reload_through_text_identity (infos : List (Path × Option Info)) (h : Persistable infos) :
    reloadText infos (persistText infos) = some (normalise infos) := by
  unfold reloadText persistText
  rw [decodeMapL_encodeMapL _ (persist_inRange h)]
  simp only [Option.map_some, Option.some.injEq]
  have key : (normalise (infos.map persistEntry)).map (loadEntry infos)
      = normalise ((infos.map persistEntry).map (loadEntry infos)) :=
    normalise_map (fun k (v : Option FInfo) => v.map (fun f => ofFInfo f (timeTok infos k)))
      (infos.map persistEntry)
  rw [key, List.map_map]
  have : infos.map (loadEntry infos ∘ persistEntry) = reloadInfos infos := by
    unfold reloadInfos
    apply List.map_congr_left
    intro e he
    exact loadEntry_persistEntry h.nodup e he
  rw [this, reload_identity infos h.valid]

/-- nothing is lost, nothing is invented … -/
theorem reload_through_text_perm (infos : List (Path × Option Info)) (h : Persistable infos) :
    ∃ infos', reloadText infos (persistText infos) = some infos' ∧ infos'.Perm infos :=
  ⟨_, reload_through_text_identity infos h, normalise_perm h.nodup⟩

/-- … and every `baseInfos[p]` Rollback reads on the re-created instance is the original's:
tracked-as-absent, or the same name, size, type, 12 mode bits, mtime, uid, gid -/
theorem reload_through_text_lookup (infos : List (Path × Option Info)) (h : Persistable infos) :
    ∃ infos', reloadText infos (persistText infos) = some infos' ∧
      ∀ p, infos'.lookup p = infos.lookup p :=
  ⟨_, reload_through_text_identity infos h, lookup_normalise h.nodup⟩

/-- a map that is already in key order is reproduced as is: with `restart_equiv`, Rollback on the
re-created instance is then literally Rollback on the original one -/
theorem reload_through_text_sorted (infos : List (Path × Option Info)) (h : Persistable infos)
    (hs : KSorted infos) : reloadText infos (persistText infos) = some infos := by
  rw [reload_through_text_identity infos h, normalise_of_sorted hs]

/-! ## non-vacuity -/

/-- keys with `"`, `\`, a control character, `<`, U+2028, a non-BMP character; a nil entry; a
negative mod_time; type and special bits in the mode -/
def sampleMap : List (List Char × Option FInfo) :=
  [(['/', 'q', '"', 'b', '\\', 's'], some ⟨['s'], 0o644, -5, 3, 1000, 1001⟩),
   (['/', 'c', '\x01', '\n', '\x7f'], none),
   (['/', '<', '&', '>', Char.ofNat 8232, Char.ofNat 128512],
      some ⟨['<', '&', '>', Char.ofNat 8232, Char.ofNat 128512], 2147483648 + 8388608 + 0o755,
        -1700000000123456789, 4096, 0, 4294967295⟩),
   ([], some ⟨[], 134217728 + 0o777, 9223372036854775807, 0, 0, 0⟩)]

example : MapInRange sampleMap := by
  intro e he f hf
  simp only [sampleMap, List.mem_cons, List.not_mem_nil, or_false] at he
  rcases he with rfl | rfl | rfl | rfl <;> simp only [Option.some.injEq, reduceCtorEq] at hf <;>
    subst hf <;> decide

/-- the text, as Go writes it -/
example : String.ofList (encodeMapL sampleMap) =
    "{\"\":{\"name\":\"\",\"mode\":134218239,\"mod_time\":9223372036854775807,\"size\":0,\"uid\":0,\"gid\":0}," ++
    "\"/\\u003c\\u0026\\u003e\\u2028😀\":{\"name\":\"\\u003c\\u0026\\u003e\\u2028😀\",\"mode\":2155872749,\"mod_time\":-1700000000123456789,\"size\":4096,\"uid\":0,\"gid\":4294967295}," ++
    "\"/c\\u0001\\n\x7f\":null," ++
    "\"/q\\\"b\\\\s\":{\"name\":\"s\",\"mode\":420,\"mod_time\":-5,\"size\":3,\"uid\":1000,\"gid\":1001}}" := by
  decide +kernel

example : decodeMapL (encodeMapL sampleMap) = some (normalise sampleMap) := by decide +kernel

/-- the decoder is more liberal than the encoder: whitespace, `\/`, upper-case `\u` escapes, a
surrogate pair, fields in any order, a missing field, an unknown field holding a nested value, a
duplicate key (last wins, not merged), `null` into a field -/
example : decodeMapL (" {\"a\\/\\u00E9\\uD83D\\uDE00\" :\n{ \"uid\":7 , \"x\":[1.5e3,{\"y\":null}], \"name\":\"n\" },\t\"b\":{\"mode\":1},\"b\":{\"size\":-2,\"gid\":null}} ").toList
    = some [(['a', '/', 'é', Char.ofNat 128512], some ⟨['n'], 0, 0, 0, 7, 0⟩),
            (['b'], some ⟨[], 0, 0, -2, 0, 0⟩)] := by decide +kernel

/-- not modelled / rejected: case-insensitive field match, a fraction, overflow of `uint32`, a
negative `mode`, trailing input, a raw control character, a lone `\u` with three digits -/
example : decodeMapL "{\"a\":{\"Name\":\"x\"}}".toList = none
    ∧ decodeMapL "{\"a\":{\"size\":1.0}}".toList = none
    ∧ decodeMapL "{\"a\":{\"mode\":4294967296}}".toList = none
    ∧ decodeMapL "{\"a\":{\"mode\":-0}}".toList = none
    ∧ decodeMapL "{} x".toList = none
    ∧ decodeMapL "{\"a\x01\":null}".toList = none
    ∧ decodeMapL "{\"\\u12g\":null}".toList = none := by decide +kernel

/-- lone surrogates become U+FFFD and the following escape is processed again -/
example : decStr "\\ud800\\u0041\\udc00\"".toList = some ([Char.ofNat 65533, 'A', Char.ofNat 65533], []) := by
  decide +kernel

example : Persistable [("/d/f".toList, some ⟨"f".toList, 3, .file, 0o4755, .old (-5), 1000, 1001⟩),
    ("/d/gone".toList, none)] := by
  refine ⟨by decide, ?_, ?_⟩
  · intro e he i hi
    simp only [List.mem_cons, List.not_mem_nil, or_false] at he
    rcases he with rfl | rfl
    · cases hi; exact ⟨by decide, by decide, by decide, by decide⟩
    · cases hi
  · intro e he i hi
    simp only [List.mem_cons, List.not_mem_nil, or_false] at he
    rcases he with rfl | rfl
    · cases hi; exact ⟨by decide, by decide⟩
    · cases hi

end Props.C12
