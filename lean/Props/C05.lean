import Lemmas
/-!
# C05 — PrefixFS confines every access to its prefix

`PrefixFS.translate pre c` is the call PrefixFS issues on its base filesystem for the method call
`c` (or the refusal).  Every PrefixFS method issues at most that one base call (validated by the
`layers` correspondence stream with a spy base), so the theorems below speak about everything the
underlying filesystem is asked to touch.  They hold for every prefix string (absolute, relative,
unclean, `"."`, `"/"`) and every name string.
-/
namespace Props.C05
open BFS BFS.PrefixFS

/-- T05.1 Every path the base filesystem is asked to access is the prefix directory or inside it,
component-wise: all 16 path-taking methods, both arguments of `Rename`, the link location of
`Symlink`. -/
theorem prefix_confines (pre : Path) (c c' : Call) (h : translate pre c = .ok c') :
    ∀ a ∈ c'.accessPaths, Within pre a := by
  cases c <;> simp only [translate, bind, Except.bind, pure, Except.pure] at h
  all_goals first
    | (split at h
       · cases h
       · rename_i p hp
         cases h
         intro a ha
         simp only [Call.accessPaths, List.mem_singleton] at ha
         subst ha
         exact (prefixPath_ok hp).2)
    | skip
  · -- rename
    rename_i o n
    split at h
    · cases h
    · rename_i po hpo
      split at h
      · cases h
      · rename_i pn hpn
        cases h
        intro a ha
        simp only [Call.accessPaths, List.mem_cons, List.not_mem_nil, or_false] at ha
        rcases ha with rfl | rfl
        · exact (prefixPath_ok hpo).2
        · exact (prefixPath_ok hpn).2
  · -- symlink
    rename_i o n
    split at h
    · cases h
    · rename_i pn hpn
      split at h
      · split at h
        · cases h
        · cases h
          intro a ha
          simp only [Call.accessPaths, List.mem_singleton] at ha
          subst ha
          exact (prefixPath_ok hpn).2
      · split at h
        · cases h
        · cases h
          intro a ha
          simp only [Call.accessPaths, List.mem_singleton] at ha
          subst ha
          exact (prefixPath_ok hpn).2

/-- T05.2 (partial: absolute prefix, or relative link target) No symlink created through PrefixFS
has a (lexical, effective) target that leaves the prefix: an absolute target is re-rooted inside
the prefix, a relative one is checked from the directory of the prefixed link. -/
theorem symlink_target_confined_partial (pre o n o' n' : Path)
    (h : translate pre (.symlink o n) = .ok (.symlink o' n'))
    (hcfg : isAbs pre = true ∨ isAbs o = false) :
    Within pre (toAbsSymlink o' n') := by
  simp only [translate, bind, Except.bind, pure, Except.pure] at h
  split at h
  · cases h
  · rename_i pn hpn
    by_cases hoabs : isAbs o = true
    · simp only [hoabs, if_true] at h
      cases hpo : prefixPath pre o with
      | error e => rw [hpo] at h; cases h
      | ok po =>
        rw [hpo] at h
        cases h
        have hpre : isAbs pre = true := by
          rcases hcfg with h | h
          · exact h
          · rw [hoabs] at h; cases h
        have ⟨heq, hw⟩ := prefixPath_ok hpo
        have hne : pre ≠ [] := by
          intro e; rw [e] at hpre; cases hpre
        have : isAbs o' = true := by
          rw [heq]; unfold isAbs at *
          rw [isRooted_join_left _ hne]; exact hpre
        unfold toAbsSymlink
        simp only [this, Bool.not_true, Bool.false_eq_true, if_false]
        exact hw
    · have hoabs' : isAbs o = false := by simpa using hoabs
      simp only [hoabs', Bool.false_eq_true, if_false] at h
      cases hr : relInside pre (join (dir pn) o) with
      | none => rw [hr] at h; cases h
      | some r =>
        rw [hr] at h
        cases h
        unfold toAbsSymlink
        simp only [hoabs', Bool.not_false, if_true]
        exact within_of_relInside hr

/-- The full statement of T05.2 (every prefix, every target) is **false** of the code: with a
*relative* prefix an absolute target is stored as relative text `prefix/target`, which the OS
resolves from the link's own directory.  Witness (known finding K-relprefix-abslink). -/
theorem symlink_target_confined_full_fails :
    ∃ pre o n o' n', translate pre (.symlink o n) = .ok (.symlink o' n') ∧
      ¬ Within pre (toAbsSymlink o' n') :=
  ⟨"rel/sub".toList, "/a".toList, "/".toList, "rel/sub/a".toList, "rel/sub".toList, by decide⟩

/-- T05.3 The only refusal PrefixFS produces is the escape error (EPERM); a refused call issues
no base call at all (`translate` returns no call). -/
theorem rejected_is_escape (pre : Path) (c : Call) (e : Err) (h : translate pre c = .error e) :
    e = .perm := by
  cases c <;> simp only [translate, bind, Except.bind, pure, Except.pure] at h
  all_goals first
    | (split at h
       · rename_i e' he; cases h; exact prefixPath_error he
       · cases h)
    | skip
  · rename_i o n
    split at h
    · rename_i e' he; cases h; exact prefixPath_error he
    · split at h
      · rename_i e' he; cases h; exact prefixPath_error he
      · cases h
  · rename_i o n
    split at h
    · rename_i e' he; cases h; exact prefixPath_error he
    · split at h
      · split at h
        · rename_i e' he; cases h; exact prefixPath_error he
        · cases h
      · split at h
        · cases h; rfl
        · cases h

/-- a name that would escape is rejected: the D8 shape `../app2/x` next to prefix `/r/app` -/
theorem escaping_name_rejected (pre n : Path) (hout : ¬ Within pre (join pre (clean n))) :
    prefixPath pre n = .error .perm := by
  unfold prefixPath
  simp only
  cases hr : relInside pre (join pre (clean n)) with
  | none => rfl
  | some r => exact absurd (within_of_relInside hr) hout

/-! ## non-vacuity -/
example : translate "/r/app".toList (.create "../app2/x".toList) = .error .perm := by decide
example : translate "/r/app".toList (.create "a/../b".toList) = .ok (.create "/r/app/b".toList) := by decide
example : translate "/r/app".toList (.symlink "../../x".toList "/a/l".toList) = .error .perm := by decide
example : translate "/r/app".toList (.symlink "../x".toList "/a/l".toList)
    = .ok (.symlink "../x".toList "/r/app/a/l".toList) := by decide
example : Within "/r/app".toList "/r/app/b".toList ∧ ¬ Within "/r/app".toList "/r/app2/x".toList := by decide

end Props.C05
