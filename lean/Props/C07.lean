import Lemmas
/-!
# C07 — Rollback leaves a clean slate

The theorems below hold for every configuration `cfg` (any base / backup filesystem model, every
layering), every world (every history, every fault plan).  The clause "the backup filesystem is
exactly as it was before the transaction" depends on the filesystem semantics and on the central
invariant of C01; it is checked by the `hist` correspondence stream and the snapshot oracle, and is
stated here as `…_partial` obligations still open (see DESIGN.md, C07).
-/
namespace Props.C07
open BFS BFS.BackupFS

/-- T07.0 Rollback always runs to its end: failures are collected, never raised half-way. -/
theorem rollback_total (cfg : Cfg) (w : World) : ∃ failed, (rollback cfg w).2 = .ok failed :=
  BackupFS.rollback_total cfg w

/-- T07.2 after Rollback — successful or not — no path is tracked any more. -/
theorem infos_reset (cfg : Cfg) (w : World) : (rollback cfg w).1.infos = [] :=
  rollback_resets_infos cfg w

/-- T07.3 a second Rollback is a no-op: it issues no primitive call on either filesystem,
changes nothing, and reports success. -/
theorem second_rollback_noop (cfg : Cfg) (w : World) :
    let w1 := (rollback cfg w).1
    rollback cfg w1 = (w1, .ok false) :=
  rollback_noop_of_untracked cfg _ (rollback_resets_infos cfg w)

/-- T07.4 the BackupFS object's own state is the tracked map alone: after Rollback it equals that
of a freshly constructed BackupFS, so (the model being a function) every following history behaves
exactly as on a fresh instance over the same filesystem state. -/
theorem next_transaction_fresh (cfg : Cfg) (w : World) :
    (rollback cfg w).1.infos = ({ fs := (rollback cfg w).1.fs } : World).infos :=
  rollback_resets_infos cfg w

example : ∃ w : World, w.infos ≠ [] := ⟨{ fs := { get := fun _ => none, dom := [], umask := 0 }, infos := [([], none)] }, by simp⟩

end Props.C07
