import Lemmas
/-!
# C07 — Rollback leaves a clean slate

The theorems below hold for every configuration `cfg` (any base / backup filesystem model, every
layering), every world (every history, every fault plan).  The clause "the backup filesystem is
exactly as it was before the transaction" depends on the filesystem semantics and on the central
invariant of C01; it is checked by the `hist` correspondence stream and the snapshot oracle, and is
stated here as `…_partial` obligations still open (see DESIGN.md, C07).
-/
namespace Props.C07
open BFS BFS.BackupFS

/-- T07.0 Rollback always runs to its end: failures are collected, never raised half-way. -/
theorem rollback_total (cfg : Cfg) (w : World) : ∃ failed, (rollback cfg w).2 = .ok failed :=
  BackupFS.rollback_total cfg w

/-- T07.2 after Rollback — successful or not — no path is tracked any more. -/
theorem infos_reset (cfg : Cfg) (w : World) : (rollback cfg w).1.infos = [] :=
  rollback_resets_infos cfg w

/-- T07.3 a second Rollback is a no-op: it issues no primitive call on either filesystem,
changes nothing, and reports success. -/
theorem second_rollback_noop (cfg : Cfg) (w : World) :
    let w1 := (rollback cfg w).1
    rollback cfg w1 = (w1, .ok false) :=
  rollback_noop_of_untracked cfg _ (rollback_resets_infos cfg w)

/-- T07.4 the BackupFS object's own state is the tracked map alone: after Rollback it equals that
of a freshly constructed BackupFS, so (the model being a function) every following history behaves
exactly as on a fresh instance over the same filesystem state. -/
theorem next_transaction_fresh (cfg : Cfg) (w : World) :
    (rollback cfg w).1.infos = ({ fs := (rollback cfg w).1.fs } : World).infos :=
  rollback_resets_infos cfg w

example : ∃ w : World, w.infos ≠ [] := ⟨{ fs := { get := fun _ => none, dom := [], umask := 0 }, infos := [([], none)] }, by simp⟩

/-!
### C07 (second clause) / C01 ("Rollback returns nil") — link-free fragment

For the OS model behind two `PrefixFS` layers, every well-formed link-free disk whose backup root
is an empty directory, healthy filesystems (empty fault plan), every number of consecutive
transactions and in each every finite history of covered operations (the same fragment as
`Props.C01.rollback_restores_linkfree_partial`):

* `rollback_returns_nil_linkfree_partial` — every `Rollback` returns nil;
* `backup_clean_after_rollback_linkfree_partial` — after the last `Rollback` every entry at or
  below the backup root is what it was before the first operation (directory timestamps erased, as
  in C01): in particular the backup is empty again.

The proof strengthens the invariant of C01 by two backup-side clauses that hold on healthy
filesystems (`InvB`, Lemmas/InvB.lean: a key tracked with a directory's info is a directory in the
backup; the backup holds nothing but copies of tracked originals — the latter is also a clause of
C02), shows them preserved by every covered operation (Lemmas/TrackB.lean, Lemmas/OpsB.lean) and
follows `Rollback` through its seven loops (Lemmas/RestoreB.lean).  Not covered (`_partial`): what
C01's main theorem does not cover, and fault plans (after a faulted backup copy Rollback restores
the base but reports an error, see C08).
-/


/-- T07.1a  Rollback returns nil — link-free fragment, healthy filesystems, any number of
transactions: the Rollback that ends each of them reports no error. -/
theorem rollback_returns_nil_linkfree_partial (bk kk : Key) (hbk : PKey bk) (hkk : PKey kk)
    (hne1 : bk ≠ []) (hne2 : kk ≠ []) (hd1 : ¬ bk <+: kk) (hd2 : ¬ kk <+: bk)
    (w : World) (hg : OSGood bk kk w.fs) (hinfos : w.infos = []) (hnf : w.faults = [])
    (hempty : ∀ k, k ≠ [] → w.fs.get (kk ++ k) = none)
    (txs : List (List Op))
    (hcov : CoveredTxs (osCfg bk kk) (osSim bk kk hbk hkk hne1 hne2 hd1 hd2) w txs) :
    ∀ pre ops post, txs = pre ++ ops :: post →
      (rollback (osCfg bk kk) (runOps (osCfg bk kk) (pre.foldl (runTx (osCfg bk kk)) w) ops)).2 = .ok false :=
  (txs_clean (S := osSim bk kk hbk hkk hne1 hne2 hd1 hd2) txs w hg hinfos hnf
    (fun k hk => by show (w.fs.get (kk ++ k)).map eraseMt = none; rw [hempty k hk]; rfl) hcov).2

/-- T07.1b  after Rollback the backup filesystem is exactly as it was before the transaction —
link-free fragment, healthy filesystems, any number of transactions (directory timestamps erased
from the comparison, as in C01). -/
theorem backup_clean_after_rollback_linkfree_partial (bk kk : Key) (hbk : PKey bk) (hkk : PKey kk)
    (hne1 : bk ≠ []) (hne2 : kk ≠ []) (hd1 : ¬ bk <+: kk) (hd2 : ¬ kk <+: bk)
    (w : World) (hg : OSGood bk kk w.fs) (hinfos : w.infos = []) (hnf : w.faults = [])
    (hempty : ∀ k, k ≠ [] → w.fs.get (kk ++ k) = none)
    (txs : List (List Op))
    (hcov : CoveredTxs (osCfg bk kk) (osSim bk kk hbk hkk hne1 hne2 hd1 hd2) w txs) :
    ∀ k, ((txs.foldl (runTx (osCfg bk kk)) w).fs.get (kk ++ k)).map eraseMt = (w.fs.get (kk ++ k)).map eraseMt :=
  fun k => congrFun (txs_clean (S := osSim bk kk hbk hkk hne1 hne2 hd1 hd2) txs w hg hinfos hnf
    (fun k hk => by show (w.fs.get (kk ++ k)).map eraseMt = none; rw [hempty k hk]; rfl) hcov).1 k

/-- in particular nothing is left below the backup root -/
theorem backup_empty_after_rollback_linkfree_partial (bk kk : Key) (hbk : PKey bk) (hkk : PKey kk)
    (hne1 : bk ≠ []) (hne2 : kk ≠ []) (hd1 : ¬ bk <+: kk) (hd2 : ¬ kk <+: bk)
    (w : World) (hg : OSGood bk kk w.fs) (hinfos : w.infos = []) (hnf : w.faults = [])
    (hempty : ∀ k, k ≠ [] → w.fs.get (kk ++ k) = none)
    (txs : List (List Op))
    (hcov : CoveredTxs (osCfg bk kk) (osSim bk kk hbk hkk hne1 hne2 hd1 hd2) w txs) :
    ∀ k, k ≠ [] → (txs.foldl (runTx (osCfg bk kk)) w).fs.get (kk ++ k) = none := by
  intro k hk
  have := backup_clean_after_rollback_linkfree_partial bk kk hbk hkk hne1 hne2 hd1 hd2 w hg hinfos hnf
    hempty txs hcov k
  rw [hempty k hk] at this
  exact Option.map_eq_none_iff.mp this

/-- T07.inv  after any covered history on healthy filesystems the backup holds nothing but copies of
tracked originals (also a clause of C02), and every tracked directory has its backup directory -/
theorem backup_invariant_after_history (bk kk : Key) (hbk : PKey bk) (hkk : PKey kk)
    (hne1 : bk ≠ []) (hne2 : kk ≠ []) (hd1 : ¬ bk <+: kk) (hd2 : ¬ kk <+: bk)
    (w : World) (hg : OSGood bk kk w.fs) (hinfos : w.infos = []) (hnf : w.faults = [])
    (hempty : ∀ k, k ≠ [] → w.fs.get (kk ++ k) = none) (ops : List Op)
    (hcov : CoveredHist (osCfg bk kk) (osSim bk kk hbk hkk hne1 hne2 hd1 hd2) w ops) :
    InvB (osSim bk kk hbk hkk hne1 hne2 hd1 hd2) (osView bk kk .base w.fs) (osView bk kk .backup w.fs [])
      (runOps (osCfg bk kk) w ops) :=
  (history_keepsB ops w (InvB.init (S := osSim bk kk hbk hkk hne1 hne2 hd1 hd2) hg hinfos hnf
    (fun k hk => by show (w.fs.get (kk ++ k)).map eraseMt = none; rw [hempty k hk]; rfl)) hcov).inv

/-- non-vacuity: the backup root `/k` of the example disk of C01 is empty -/
example : ∀ k, k ≠ [] → exDisk.get ([['k']] ++ k) = none := by
  intro k hk
  cases h : exDisk.get ([['k']] ++ k) with
  | none => rfl
  | some n =>
    exfalso
    rcases exDisk_live h with ⟨e, _⟩ | ⟨e, _⟩ | ⟨e, _⟩ | ⟨e, _⟩ | ⟨e, _⟩ <;> simp at e
    exact hk e

end Props.C07
